"""Human-written texts of MANIFEST.json (kept apart from props.py so that check.py does not depend on them)."""
HOOK_COMMITS = ["8760764", "7a06a9a", "54b243f"]
NOTES = ("Technique: machine-checked proof in Lean 4 (core only, no Mathlib import so far) about a hand-written executable model, "
         "tied to /repo on every run by (T1) constants regenerated from the Rust source and (T2) a differential correspondence "
         "check; see DESIGN.md. known_findings.json lists recorded defects; replays/ is written only on violations.")
NOT_YET = {}
COMMON_NOTE = ("Trusted base: Lean 4.33 kernel with axioms propext, Classical.choice, Quot.sound only (audited by #print axioms on every run; no "
               "native_decide, bv_decide, sorry); tools/extract_consts.py; the correspondence machinery (harness/, lean/Driver.lean, check.py). "
               "The theorem is about the model; the model's control flow is tied to the code only by differential execution. ")
TEXT = {
    "C07": {
        "level_text": "Theorem C07_scan_valid: for every sequence, every score function and all 1<=p<=k<=|seq|<2^32 with 2k-p<=65535 the model of "
                      "Scanner::scan returns intervals satisfying every clause of the property (order, k-1 overlap, length bounds, true in-window "
                      "minimal minimizer, no premature end); C07_every_kmer_once derives the exact tiling of k-mer starts. Proved by a loop "
                      "invariant over the scan, no bound on length. The same executable predicate is evaluated on the real crate's output for "
                      "thousands of generated scans, and model and crate are diffed verbatim. simple_scan, the deprecated wrapper the property names as a second observation point, is modelled and is Scanner::scan with the permutation score (simpleScan_eq_scan), so the same theorems apply; its answers are judged by the tiling / minimality predicate.",
        "design_ref": "DESIGN.md section 6, C07",
        "level_note": COMMON_NOTE + "Model reads the p-mer at a position directly instead of sliding it with extend_right (tied by T2 via the reported "
                      "minimizer strings). Narrowing widths (u32/u16) and the 2^32 assertion are regenerated from msp.rs. Known finding D7 (u16 "
                      "truncation when 2k-p>65535) is outside the theorem's guard and replayed on the real code each run.",
        "technique": "Lean 4 proof (loop invariant) + generated-constant tie + differential correspondence with executable predicate",
    },
    "C08": {
        "level_text": "Theorems for the model of msp_sequence, for all reads, k, 1<=p<=k, containers: C08_bucket_pure - with an injective permutation of the "
                      "4^p p-mers every k-mer of every piece lies in the bucket bucketOf(k-mer), a function of the k-mer alone (so every occurrence "
                      "of a k-mer, in any read and position, carries the same bucket id); C08_bucket_strand_symmetric - in rc mode bucketOf(rc x) = "
                      "bucketOf(x); C08_pieces_exact / C08_pieces_cover - every piece is the exact substring at consecutive offsets overlapping by "
                      "k-1 with exactly the flanking bases as boundary extensions, and the pieces' k-mers in order are the read's k-mers, each once. "
                      "Proved from the C07 theorem (the minimizer lies in every k-mer of its interval and is minimal there), injectivity of the rank "
                      "on p-mers and of the permutation. The same predicates are evaluated on the crate's pieces over read sets with planted shared k-mers.",
        "design_ref": "DESIGN.md section 6, C08",
        "level_note": COMMON_NOTE + "Guards: 2k-p <= 65535 (D7), permutation values < 2^64, permutation covers all 4^p ranks.",
        "technique": "Lean 4 proof (corollary of the C07 scan theorem + injectivity argument) + differential correspondence with executable predicate",
    },
    "C10": {
        "level_text": "Every operation of the property is a theorem about the bit-level model, generic in the storage width w and K (1<=K, 2K<=w, w in "
                      "{8,16,32,64,128}) and therefore valid for all 19 shipped types (the type table is regenerated from kmer.rs and checked "
                      "well-formed by `decide`), for all k-mer values and all in-range arguments: get, set_mut, set_slice_mut (runs 1..32, garbage "
                      "below the run irrelevant), extend_left/right, rc (the five reverse_by_twos ladders with the masks/shifts extracted from the "
                      "source, proved kernel-only), to_u64 / from_u64 and their round trip, from_bytes, from_ascii, to_string, kmers_from_bytes/"
                      "ascii, hamming_dist, at_count, gc_count (popcount over lane masks) - each commutes with the corresponding operation on the "
                      "plain K-letter string, and the value-producing ones preserve or establish the 'unused bits are zero' invariant. (min_rc, "
                      "flip and palindrome are C12.) Beyond the listed operations: KmerOneHammingIter yields exactly the 3K strings at Hamming distance 1 "
                      "(C10_hd1_strings). The same operations are compared with the crate on raw storage words on every run.",
        "design_ref": "DESIGN.md section 6, C10",
        "level_note": COMMON_NOTE + "num_traits PrimInt shifts/conversions are those of the primitive integers; count_ones = number of set bits.",
        "technique": "Lean 4 proof (bit-level refinement, generic width; kernel-decided mask tables) + generated-constant tie + differential correspondence",
    },
    "C11": {
        "level_text": "Theorems (generic width/K, hence all 19 types): under the 'unused bits are zero' invariant the storage integer equals the "
                      "base-4 value of the string (toNat_eq_val), so storage equality <=> string equality (C11_eq_iff) and integer order <=> "
                      "lexicographic order (C11_lt_iff_lex); every in-range history of extend/rc/set/min_rc preserves the invariant and spells "
                      "the string computed by the same history on lists (C11_history, by induction over the history), hence two routes to "
                      "the same string end in the same storage word (C11_routes_agree). The derived ==/cmp/Hash are functions of that word. "
                      "set_slice_mut is part of the history; C11_constructors: from_bytes, from_u64 and from_ascii establish the invariant and "
                      "agree on the same string. All of it is executed against the crate on every run.",
        "design_ref": "DESIGN.md section 6, C11",
        "level_note": COMMON_NOTE + "Hash/Eq/Ord are derived: modelled as functions of the storage integer.",
        "technique": "Lean 4 proof (invariant by induction over operation histories + order embedding) + differential correspondence",
    },
    "C12": {
        "level_text": "Proved: on base strings rc is an involution, sends position i to n-1-i and base b to 3-b, and commutes with k-mer "
                      "extraction (windows_rc); for packed k-mers of every shipped type rc refines the string rc (ladders extracted from kmer.rs, "
                      "all five widths), is an involution on storage, min_rc is the lexicographic minimum and is the same for x and rc x, "
                      "min_rc_flip/is_palindrome are characterised; for extension sets all 256 values are checked by the kernel (sides swapped, "
                      "bases complemented, involution) against the masks extracted from lib.rs. DnaString, Lmer (every capacity) and "
                      "slices: rc is the reversed complemented base vector and rc∘rc is the identity on values (C12_dnaString, C12_lmer, "
                      "C12_slice, from the C14/C17/C15 refinements); for any container of a string and any container of its reverse complement "
                      "the i-th k-mer of the latter is rc of the (n-K-i)-th k-mer of the former (C12_kmers_of_rc).",
        "design_ref": "DESIGN.md section 6, C12",
        "level_note": COMMON_NOTE,
        "technique": "Lean 4 proof (list algebra, bit-level refinement, exhaustive kernel decision over 256 extension sets) + differential correspondence",
    },
    "C13": {
        "level_text": "Proved for every k-mer configuration: the block walk of get_kmer reads K consecutive lanes from any block storage "
                      "(loop invariant over blocks, using C10's packed write), so DnaString (under C14's invariant), forward and "
                      "reverse-complemented slices at every offset, and the byte wrappers are faithful containers; for every faithful container "
                      "the rolling KmerIter yields exactly max(0, n-K+1) k-mers in order, the i-th spelling bases i..i+K and equal (as a storage "
                      "word) to get_kmer(i); KmerExtsIter pairs each k-mer with the bits of its true flanking bases and uses the caller's "
                      "extensions only at the two ends; first/last/term accessors; kmers_from_bytes/ascii (C10). Lmer of every capacity is a "
                      "faithful container too (C13_lmer, from C17's refinement). All container x k-mer-type pairs are "
                      "compared with the crate, raw storage word by raw storage word, on every run.",
        "design_ref": "DESIGN.md section 6, C13",
        "level_note": COMMON_NOTE,
        "technique": "Lean 4 proof (block-walk loop invariant, iterator state machines by induction over positions, for any faithful container) + differential correspondence over all containers",
    },
    "C14": {
        "level_text": "Proved for every finite history (C14_history): push, extend (both phases: base-by-base up to the block boundary, then "
                      "32 per block), push_bytes, set_mut, clear, blank, from_bytes, reverse and rc never panic on in-range arguments, keep the "
                      "representation invariant (blocks = ceil(len/32), every lane from len on is zero) and act on the base vector as the same "
                      "operation on a plain list. Observers (len, get, iter/to_bytes, ASCII, Display) are functions of the base vector "
                      "(C14_observers); the representation is canonical, so derived ==/Hash depend only on the bases (C14_repr_canonical, "
                      "C14_routes_agree); derived Ord = lexicographic order with a proper prefix first (C14_cmp_lex); ndiffs = number of "
                      "differing positions; PackedDnaStringSet returns every added sequence at its index (C14_packed_set). The model is "
                      "compared with the crate on raw storage words after every operation of random histories.",
        "design_ref": "DESIGN.md section 6, C14",
        "level_note": COMMON_NOTE,
        "technique": "Lean 4 proof (refinement of DnaString to a plain base vector, invariant by induction over histories) + differential correspondence over operation histories",
    },
    "C15": {
        "level_text": "Proved for every well-formed backing string and every view inside it: reads, bytes, ASCII, text and Debug renderings, "
                      "to_owned, == and get_kmer (either orientation, every k-mer configuration) are those of the corresponding substring of "
                      "the plain base vector, reverse-complemented when flagged; slice / rc / prefix / suffix / interval act as drop/take and "
                      "reverse complement, hence any interleaving to any depth does (C15_history); the interval assertions are exactly "
                      "a <= b <= length; hamming_dist (as repaired) equals the number of differing positions for every length, offset and "
                      "orientation (block path and tail, C15_hamming). Two genuine defects (D1 hamming_dist for len >= 1024, D2 Debug of rc "
                      "views) were found by this check and repaired in /repo.",
        "design_ref": "DESIGN.md section 6, C15",
        "level_note": COMMON_NOTE,
        "technique": "Lean 4 proof (refinement of views to substrings of the base vector, induction over view histories) + differential correspondence with executable predicate",
    },
    "C17": {
        "level_text": "Proved for every word count n >= 1: new(len) is len A's and from_slice(seq) is seq for every length up to max_len = 32n-4; "
                      "single-base writes, packed writes of 1..32 bases (first-word and second-word masks, runs crossing a word boundary, runs in "
                      "the word holding the length byte: the 0xFF protection is shown redundant in range and the length lanes are never touched) "
                      "and rc (loop invariant over words) change exactly the addressed bases, keep the stored length and word count, and never "
                      "panic in range (C17_history); len/get/to_bytes are those of the string; same capacity and same bases imply the same words "
                      "(derived ==/Hash); get_kmer and the iterators are those of the string (C17_faithful with C13); rc∘rc = id (C12_lmer). "
                      "Raw words are compared with the crate after every step of random histories for 1..6 words.",
        "design_ref": "DESIGN.md section 6, C17",
        "level_note": COMMON_NOTE,
        "technique": "Lean 4 proof (lane-level refinement of the word array, invariant by induction over write histories) + differential correspondence over write histories",
    },
    "C16": {
        "level_text": "Proved: (tables, kernel decision over all 256 byte values against lib.rs as regenerated on every run) base_to_bits, "
                      "is_valid_base, dna_only_base_to_bits, rendering back; (vector kernels, each intrinsic transcribed from Intel's pseudo-code, "
                      "tables/immediates regenerated from bitops_avx2.rs) convert_bases computes the scalar table on every lane for every byte "
                      "value and its flag is 'all ACGT' (8192-case kernel decision lifted through the 16-bit shift lemma), pack_32_bases places "
                      "the low two bits of byte i at bits 63-2i,62-2i (index maps of shuffle/permute/unpack decided, movemask summed); hence for "
                      "EVERY byte string the vector path (whole chunks pushed as blocks, tail through extend, len set at the end) and the scalar "
                      "path return the same (storage, len), a well-formed string of the bytewise conversion that renders back to the upper-cased "
                      "input with non-ACGT replaced by A; the str constructor agrees on code points < 256; the strict constructor returns exactly "
                      "the maximal ACGT runs; the hashed-N constructor, for any hasher, leaves ACGT untouched and substitutes h(pos) % 4. Both "
                      "paths and the raw kernels are compared with the hardware on arbitrary bytes on every run.",
        "design_ref": "DESIGN.md section 6, C16",
        "level_note": COMMON_NOTE + "Intrinsic semantics are transcribed (trusted, validated by execution against the hardware); DefaultHasher is a parameter.",
        "technique": "Lean 4 proof (exhaustive kernel decision over byte x lane tables, lane-wise refinement of the SIMD kernels, refinement of both constructor paths to the bytewise conversion) + differential correspondence incl. raw SIMD kernels",
    },
    "C01": {
        "level_text": "Theorem C01_partition, for every well-formed table with reciprocal extensions and symmetric join, no bound on size, K>=1, both "
                      "strandedness values: the model of compress_kmers never panics, every node has >= K bases, and the canonical k-mers of all "
                      "node sequences are a permutation of the table's keys (each input k-mer in exactly one node at exactly one offset, nothing "
                      "foreign). C01_node_assembly: a node's k-mers are the oriented keys of its left path (reversed), seed and right path, each "
                      "obtained from its neighbour by extending with one base (K-1 overlap), and its payload is the caller's reduction folded "
                      "over exactly those k-mers' payloads, left path first. Proved by: a 'sealed' invariant over the well-founded walk "
                      "(ids), refinement of the code-shaped walk to it, and string algebra for the two folds of build_node. C01_steps_recorded: "
                      "every node-internal step is a good link (sole recorded extension on the leaving side = the base of the step, sole extension "
                      "on the facing side, no palindrome, join accepted). The model is diffed verbatim with the crate for all three entry points. C01_from_reads: for every read set, K >= 4, both summarizers, every memory budget and every hash order, "
                      "filter -> prune -> compress never panics and the nodes' canonical k-mers are a permutation of the accepted k-mers. "
                      "C01_no_exts: the same for the entry point without extensions (compress_kmers_no_exts): the extension bytes it discovers "
                      "by probing the key set form a well-formed reciprocal table, in whatever order the hash map lists it - in both strandedness modes "
                      "since the repair of D9 (the stranded mode looked neighbours up by canonical form; found on the unchanged tree, fixed in /repo). "
                      "One request in 500 (`longpath`) runs an unbranched path of > 131 073 k-mers through the real entry points, judged against the "
                      "statement (one node), not against the executable model.",
        "design_ref": "DESIGN.md section 6, C01",
        "level_note": COMMON_NOTE + "The hash map's index order is an input (observed; the theorems hold for every order). C01_from_reads discharges the table "
                      "hypotheses for every read set with empty boundary extensions (C05_table_wf: filter output is well-formed and reciprocal, also "
                      "after remove_censored_exts); with caller-supplied boundary extensions reciprocity is a hypothesis, checked executably.",
        "technique": "Lean 4 proof (invariant over a well-founded walk, refinement, list algebra of sequence assembly) + differential correspondence with executable predicates",
    },
    "C02": {
        "level_text": "Theorem C02_components_seq, same quantifier as C01: two table k-mers occur (canonically) among the k-mers of the same node sequence "
                      "iff they are connected by a chain of good links (sole extension on both facing sides, distinct, non-palindromic when "
                      "unstranded, join accepted) - nodes are exactly the connected components, hence maximal and branch-free. Rests on the id-level "
                      "components theorem ('sealed' invariant), reciprocity of links from reciprocity of extensions, and C01's node assembly. "
                      "C02_from_reads: the same for the table built from any read set (hypotheses discharged by C05_table_wf). "
                      "C02_order_independent (uniqueness up to cycle cut and orientation): for any two listings of the same table - any two hash "
                      "orders - both compressions return and every node of either result has exactly the canonical k-mers of a node of the other. "
                      "C02_is_compressed: the crate's own oracle agrees - is_compressed (modelled; tied by the C09 `iscomp` requests) returns None on the graph "
                      "built from any closed table, in particular from the pruned table of any read set (C02_is_compressed_from_reads). "
                      "Independently, components recomputed from the table by label propagation are compared with the crate's nodes.",
        "design_ref": "DESIGN.md section 6, C02",
        "level_note": COMMON_NOTE + "Symmetric join is a hypothesis (both shipped specs satisfy it).",
        "technique": "Lean 4 proof ('sealed' invariant => nodes = connected components; transfer to sequences) + differential correspondence with executable predicate",
    },
    "C05": {
        "level_text": "Theorem C05_filter_eq_ref: for every read set with labels, every K>=4, both strandedness and report_all values, both summarizers and "
                      "every memory budget >= 1 (hence every number of bucket passes 1..256) the model of filter_kmers - pass planning loop, per-pass "
                      "bucket filling, stable sort, run grouping, summarising - returns exactly the pass-free reference: the distinct canonical "
                      "k-mers in ascending order, each summarised once over its observations in input order, and the all-k-mers list = every "
                      "distinct k-mer ascending. Corollary C05_pass_independent. Proved via: the planned ranges enumerate buckets 0..255 in order "
                      "(induction over the while loop), the insertion sort is stable and sorting, run grouping of a sorted list = distinct keys with "
                      "their observations, buckets are monotone in the key order, strictly ascending lists with equal members are equal. The same "
                      "reference is evaluated on the crate's output while the hook sweeps the real pass count over 1..256. C05_exts_are_flanks: an "
                      "entry records base b on side d iff its k-mer occurs in a read (either strand when unstranded) with b next to it there; "
                      "C05_table_wf: the table (also pruned, in any order) has distinct canonical keys of length K and reciprocal extensions - "
                      "the hypotheses of C01/C02/C09, proved from the reads via an occurrence relation closed under reverse complement.",
        "design_ref": "DESIGN.md section 6, C05",
        "level_note": COMMON_NOTE + "sort_by_key is modelled as a stable insertion sort, group_by as maximal runs (contracts). Uses the verif_hooks bytes-per-unit override and pass counter.",
        "technique": "Lean 4 proof (algorithm = reference grouping, for all inputs and budgets) + differential correspondence with executable reference over all pass counts",
    },
    "C03": {
        "level_text": "Proved for every graph of the model: find_link is sound (the returned node's terminal k-mer on the reported side equals the "
                      "queried k-mer, reverse-complemented iff flagged; arrival side = facing side for unflipped and same side for flipped links; "
                      "flipped links only when unstranded), a k-mer is found as a node end exactly when some node starts/ends with it, and link "
                      "lookups do not depend on extension bytes (so fix_exts' in-place update is order-independent). Pruning is exact for all "
                      "three functions (C03_prune_exact: remove_censored_exts keeps a bit iff its target is valid, the sharded variant drops it iff "
                      "the target was seen but is not valid; C03_valid_exts_exact: get_valid_exts reports a bit iff recorded, resolved by find_link "
                      "and valid). Every reported edge is a K-1 overlap in walking orientation (edge_overlap, four orientation cases), so for "
                      "any walk along reported edges sequence_of_path spells exactly the walked nodes' k-mers in order (C03_walk_sequence); "
                      "max_path always returns such a walk with no node twice (C03_maxPath_walk, both arms). max_path_beam (beam search, stable sort by descending score) returns a trail along reported edges that spells the k-mers of its nodes, and its loop terminates within nodes+1 rounds (C03_maxPathBeam_trail/_sequence/_terminates). C03_edges_symmetric: in every graph "
                      "satisfying the node-level invariant GInv (terminal k-mers identify node and side, extensions reciprocal, a palindromic "
                      "single-k-mer node recording them from either strand) every reported edge is reported back from the facing side, the two "
                      "sides of such a node counting as one; GInv is PROVED for every graph compress_kmers builds from a well-formed table that "
                      "is reciprocal towards every present neighbour (C03_ginv_of_compress: node extension bytes are those of the k-mers at the two "
                      "ports where the walks stopped, complemented when the k-mer lies reverse-complemented in the node; orientation parity of an "
                      "edge is forced by the strings; a palindromic k-mer forms a node by itself and may record from either strand), hence for "
                      "every read set (C03_edges_symmetric_from_reads); GInv is also decidable (ginvOK, proved sound) and evaluated on every "
                      "pipeline graph of the crate. Adjacency = (K+1)-mers: C03_edges_complete - in the graph built from any well-formed reciprocal table a "
                      "recorded node extension resolves through find_link IFF the canonical k-mer it leads to is a key of the table (completeness "
                      "of find_link, which only inspects node ends: the target of an extension recorded at a node end is itself at a node end on "
                      "the facing side - ext_target_port, from a chain/port analysis of build_node: every non-end port of a node member is joined "
                      "by a good link to another non-end port); C03_exts_resolve_from_reads - from reads, every recorded node extension resolves "
                      "and is an observed (K+1)-mer; C03_observed_adjacency_recorded - conversely every observed (K+1)-mer at a node end whose "
                      "target was retained is recorded (terminal k-mers that are their own reverse complement excluded). max_path_beam is not modelled.",
        "design_ref": "DESIGN.md section 6, C03",
        "level_note": COMMON_NOTE + "C03_adjacency_exact: the adjacency set of the one-pass pipeline's graph (node-internal steps + resolved edges, unordered canonical pairs) is exactly the set of (K+1)-mers some read spells between retained k-mers, self-complementary k-mers included (sharded pipeline: C04_adjacencies_agree). Graphs re-compressed WITH a censor list are outside C03's quantifier (read sets, types, strandedness, thresholds); for them C09 proves that nothing dangles and the correspondence evaluates the predicates.",
        "technique": "Lean 4 proof (case analysis of link resolution, bit-level exactness of pruning, overlap algebra of walks, invariant of the greedy best-path loop) + differential correspondence with executable predicates",
    },
    "C18": {
        "level_text": "Theorem C18_refines: for every node (length >= K >= 1) and every finite sequence of next()/nth(n) calls - any n, on both sides of "
                      "the short-skip threshold (extracted from graph.rs) and of the remaining count - the model of NodeKmerIter (after the repair of "
                      "D3) answers exactly like a cursor into the list of the node's n-K+1 k-mers; proved by a simulation invariant (cursor "
                      "position = kmer_id, cached k-mer = window at the cursor, extend_right slides the window). C18_len_upfront: a fresh "
                      "iterator reports the exact count; C18_end_is_sticky: after the end every call answers end; C18_all_nodes: draining the "
                      "iterators of all nodes of a compressed graph visits a permutation of the table's keys (each k-mer once, pairwise distinct "
                      "slots), from C01's partition. The defect D3 (nth past the "
                      "end: panic / foreign k-mers / endless stream) was found by this check and repaired in /repo.",
        "design_ref": "DESIGN.md section 6, C18",
        "level_note": COMMON_NOTE + "boomphf itself (that distinct keys get distinct slots) is outside the model.",
        "technique": "Lean 4 proof (simulation of the iterator state machine by a list cursor, induction over call sequences) + differential correspondence",
    },
    "C04": {
        "level_text": "Theorem C04_sharded_eq_direct (partition claim, end to end, unbounded): for every read set and every configuration inside "
                      "msp_sequence's contract (1<=P<=K, K>=4, default or any injective minimizer permutation), stranded or not, every count "
                      "threshold, with or without the sharded pruning step and for every order in which the hash maps list their keys, NEITHER "
                      "pipeline panics and every node of either final graph has exactly the canonical k-mers of some node of the other. Chain: "
                      "the (k-mer, extensions) stream of the tiling minimizer pieces fed with their true flanks is the stream of the read, and "
                      "buckets are pure on canonical keys, so every shard table is row for row the part of the one-pass table in its bucket "
                      "(C04_shard_tables); the shard tables, concatenated, are sandwiched between the pruned and the full one-pass table, hence "
                      "well-formed and reciprocal (shard_sandwich, Sandwich lemmas); the shard graphs side by side are 'ported' into that table "
                      "(each node a chain of good links with two end ports; PGraph, pgraph_flatten), which yields the node-level invariant of the "
                      "combined graph and completeness of find_link on it; fix_exts ports the graph into the pruned table and node-level good "
                      "links are exactly the k-mer-level good links between end ports, so re-compression merges two shard nodes iff their "
                      "k-mers are connected in the pruned table (pgraph_recompress, on top of C09_char); key-level good links depend only on "
                      "table content, so both pipelines give the classes of one relation (sharded_classes, direct_classes). C04_payloads_agree: "
                      "nodes of the two final graphs with the same k-mers carry the same payload - every node's payload is the saturating sum of "
                      "the counts of its k-mers, through compress_kmers, concatenation and compress_graph (compressGraph_kdata), whatever the "
                      "folding order. C04_adjacencies_agree: the two final graphs have the same adjacencies (unordered pairs of canonical "
                      "k-mers: steps between consecutive k-mers inside nodes and edges find_link resolves between node ends) - in every ported "
                      "graph over a closed table these are exactly the table's recorded extensions (PGraph.adj_iff: every node is a chain of good "
                      "links, so an interior extension is the step to the chain neighbour and an extension at an end port is a resolved edge). "
                      "The sharded pipeline's final graph also satisfies GInv. Independently, all three equalities are evaluated by running both real pipelines on the same read sets (6-10 (K,P) pairs, default and "
                      "random permutations, stranded and unstranded, thresholds 1-3, with and without sharded pruning) and comparing canonical "
                      "partitions, payload totals and adjacencies; both are also diffed with the composed Lean model (per-shard hash orders "
                      "passed as data).",
        "design_ref": "DESIGN.md section 6, C04",
        "level_note": COMMON_NOTE + "Complete for the model under the stated hypotheses (msp_sequence within its contract, hash orders are permutations, count payloads with the saturating sum, constantly-true join as in the crate's pipelines).",
        "technique": "Lean 4 proof (refinement chain: observation streams -> tables -> ported graphs -> components of one key-level relation) + differential correspondence of composed pipelines with executable predicate on both real pipelines",
    },
    "C06": {
        "level_text": "Proved (string level): the key chosen by min_rc_flip is the lexicographic minimum of a k-mer and its reverse complement, is the same "
                      "for both, their flip flags are opposite unless the k-mer is its own reverse complement, and stranded mode never "
                      "canonicalises. C06_filter_rc_invariant: for every read set (empty boundary extensions) and every subset of reads replaced by "
                      "their reverse complements, the unstranded table has the same keys and payloads and the same extension set at every k-mer "
                      "that is not its own reverse complement (a read and its reverse complement yield the same canonical observations in reverse "
                      "order; the table is invariant under permuting observations). C06_graph_rc_invariant: such tables induce the same good-link "
                      "relation (links never read a palindrome's extension byte), hence the same partition node by node. "
                      "C06_stranded_separation: stranded keys are exactly the k-mers as spelled and an entry records b on side d iff some read "
                      "spells it there. Pipeline level: C06_direct_rc_invariant - for every read set, mask, threshold and any two hash orders the "
                      "one-pass pipeline run on the reads and on the partly reverse-complemented reads never panics and yields the same "
                      "partition of the k-mers into nodes (both are the classes of the key-level good-link relation of the pruned table, and good "
                      "links never read the byte of a self-complementary k-mer: krel_contentW); C06_sharded_rc_invariant - the same for the "
                      "sharded, combined and re-compressed pipeline, with or without sharded pruning, via C04_sharded_eq_direct; "
                      "C06_direct_payload_rc_invariant - nodes of the two runs with the same k-mers carry the same payload. "
                      "C06_direct_adjacency_rc_invariant - the finished graphs of the two runs have the same set of adjacencies, self-complementary "
                      "k-mers included: adjacencies of the graph = recorded extensions of the pruned table (PGraph.adj_iff) = occurrences of the "
                      "(K+1)-mer on either strand of some read between retained k-mers (adjK_occ), and reverse-complementing a read maps each "
                      "occurrence to the occurrence of its reverse complement (occ_flip); for the sharded pipeline via C04_adjacencies_agree. "
                      "The same equalities are also evaluated on the crate's outputs for random masks, even and odd K.",
        "design_ref": "DESIGN.md section 6, C06",
        "level_note": COMMON_NOTE + "Hypotheses: empty boundary extensions on the reads (what the pipeline entry points pass), count payloads.",
        "technique": "Lean 4 proof (order algebra of canonical forms; permutation invariance of the filter; congruence of the link relation) + differential correspondence with executable predicate over masked read sets",
    },
    "C09": {
        "level_text": "Proved for the model of CompressFromGraph, for every graph and censor set: each walk only steps onto available nodes, removes them and "
                      "never repeats one (extendNode_ok, by functional induction on the well-founded walk); a built node merges distinct available "
                      "nodes including its seed (buildNode_ok); across the whole loop no input node is merged twice and no censored node is ever "
                      "merged (C09_censored_excluded). Whenever compress_graph returns (C09_kmers_cover): one new node per path; every step of a "
                      "path follows an edge of the pruned old graph, so the new node's k-mers are exactly the k-mers of the old nodes on its "
                      "path in walking orientation and order (sequence_of_path over K-1 overlaps, C03); every non-censored node lies on exactly "
                      "one path - the new graph's k-mers are exactly those of the non-censored nodes, each once; the payload is the reduction "
                      "folded seed, left path, right path (buildNode_payload); fix_exts is exact for every validity filter (fixExts_exact, an "
                      "invariant over the in-place sequential update) so no extension of the returned graph dangles (C09_no_dangling). "
                      "C09_char: for EVERY graph satisfying the node-level invariant GInv (palindromic end k-mers only in single-k-mer nodes), "
                      "every censor set and symmetric join, compress_graph RETURNS (none of its six panics can fire: unique extension exists, "
                      "resolves to a valid node, orientation is consistent, an admissible target records at least one extension on the entered "
                      "side), its walks are the abstract walks over the good-link relation of the pruned graph (a symmetric relation, proved from "
                      "reciprocity), and two non-censored nodes share a new node IFF good links connect them - the new nodes are exactly the "
                      "maximal unbranched paths. C09_char_of_built: this applies to every graph compress_kmers builds. "
                      "C09_recompress_eq_direct: building the graph from a k-mer table with ANY symmetric join predicate that joins less - in "
                      "particular never: the one-k-mer-per-node graph - and re-compressing it (no censoring) never panics and gives exactly the "
                      "partition of compressing the pruned table directly, in any hash order (node-level good links = k-mer-level good links "
                      "between the end ports of the nodes, pgraph_recompress). pgraph_compressGraph: the result of compress_graph on a ported graph "
                      "is again ported (each new node is a chain of old nodes whose two end ports are the k-mer ports of the old nodes at its "
                      "ends; terminal k-mers and extension bytes from build_node's assembly, complemented when an old node lies reverse-"
                      "complemented), hence C09_result_wellformed (the result satisfies GInv, find_link is complete on it) and C09_idempotent: "
                      "re-compressing the result returns, every path of the second call is exactly one node of the first result, node counts and "
                      "partitions agree. C09_is_compressed_after_recompress: is_compressed - the crate's own maximality check, asserted at the end of compress_graph in debug builds - is modelled and returns None on the result of an uncensored re-compression (a reported edge would be a good link between the end ports of two different nodes, and the nodes are the classes of that relation), so that assertion cannot fire there. C09_findBadNodes: the tip finder that supplies censor lists returns exactly the dead ends meeting the caller's predicate, ascending. With a non-empty censor set the property's claims are C09_kmers_cover, C09_char, buildNode_payload and "
                      "C09_no_dangling; the additional comparison with a k-mer table rebuilt from the surviving nodes is an executable cross-check.",
        "design_ref": "DESIGN.md section 6, C09",
        "level_note": COMMON_NOTE + "Input graphs satisfy GInv (every graph the crate builds does: C03_ginv_of_compress, C09_result_wellformed); join symmetric.",
        "technique": "Lean 4 proof (invariants of the well-founded walk and of the in-place fix_exts fold, overlap algebra of merged sequences) + differential correspondence with executable predicates",
    },
    "C19": {
        "level_text": "Proved: on a graph with distinct node ends there is exactly one lookup function meeting the BoomHashMap contract (exact get among the "
                      "inserted keys), so every link query - and everything computed from link queries - is the same for any builder that meets "
                      "the contract, whatever its schedule or internal layout (C19_index_unique, C19_queries_determined); a k-mer is found exactly "
                      "when some node starts/ends with it (C19_search_exact). NOT provable here: that boomphf's parallel builder meets the contract "
                      "under every schedule - the schedule lives in boomphf/rayon. That part is explored: finish() in pools of 1-16 threads, repeated "
                      "runs, graphs up to 10^5 (thorough 3*10^5) nodes, compared with finish_serial() and with the model.",
        "design_ref": "DESIGN.md section 6, C19",
        "level_note": COMMON_NOTE + "Partial by nature: schedules explored, not proved.",
        "technique": "Lean 4 proof (uniqueness of an exact index => queries determined by the graph) + schedule exploration by execution",
    },
    "C20": {
        "level_text": "Proved for the model of the GFA export: every L record is an edge reported from the side it names (soundness) and, on graphs with "
                      "symmetric edge lists, every adjacency - between nodes, circular self-link, hairpin self-link on either side - is written at "
                      "least once (completeness; this is the clause that D6 violated); gfa_links_complete_ginv derives the symmetry needed from "
                      "the node-level invariant GInv, which is proved for every graph compress_kmers builds (gfa_complete_of_compress), for the result of compress_graph without censoring (C20_gfa_complete_after_recompress) and for the sharded pipeline's final graph. gfa_no_duplicate: for EVERY graph no two L records name the same pair of ports in "
                      "either order (edges of one side go to pairwise different ports; the id filters admit each adjacency from one end only) - "
                      "with completeness: exactly once. JSON: the writer is modelled statement by statement (index tests for the node separators, the "
                      "wrote_any flag, the per-group `idx < len-1` comma test - where D5 lived) and proved to emit exactly the document jsonDoc, two "
                      "arrays whose items are separated and never followed by commas, one item per node and one per right-going link, for every "
                      "graph including empty, single-node and link-free ones (C20_json_writer_eq_document, C20_json_lists_every_node/_link); "
                      "C20_json_wellformed: that document is a JSON text - an inductive grammar (objects, arrays, strings with the standard "
                      "escapes, integer literals without leading zeros, opaque values for payload renderings) accepts it for every graph and "
                      "every rest object, its keys escaped as serde_json does (defect D8, found by this proof: keys were written unescaped; "
                      "repaired). Persistence, writer side: the texts serde_json writes for k-mers, Exts, DnaString, Lmer, PackedDnaStringSet and BaseGraph "
                      "are modelled (Model/Serde.lean), compared verbatim on every persist request, and proved injective (C20_*_text_injective: no two values share a "
                      "text - prefix-decodability of decimal runs, arrays and objects composed field by field). to_dot and Debug for Node are modelled and "
                      "compared as well (dot_arrows_iff: the arrows under a node are exactly its edges). The reader side of the serde round trips is "
                      "decided by execution: records re-read into port pairs and counted, the JSON parsed with serde_json and its counts compared "
                      "with the graph, round trips of k-mers / strings / Lmers / extension sets / graphs compared by equality and queries. Two "
                      "defects (D5 JSON trailing comma, D6 missing right hairpin) were found by this check and repaired in /repo.",
        "design_ref": "DESIGN.md section 6, C20",
        "level_note": COMMON_NOTE + "Partial: the reading half of persistence is tested, not proved (derived Deserialize code and the serde_json parser are outside the model; the written text is modelled and proved injective).",
        "technique": "Lean 4 proof (GFA link soundness/completeness by case analysis; JSON comma logic = separated arrays by fold/intercalate algebra) + verbatim text correspondence + serde round-trip tests",
    },
}
