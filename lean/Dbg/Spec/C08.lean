import Dbg.Model.MspSeq
/-! Executable statement of property C08 on observable values (pieces returned for a read set). -/
namespace Msp
open Compress (Seq Base rc rank)

/-- the p-mers of a k-mer `x` (as a plain list), in order -/
def pmersOf (p : Nat) (x : Seq) : List Seq :=
  (List.range (x.length - p + 1)).map fun j => (x.drop j).take p

/-- reference bucket of a k-mer: the rank of the canonical form of its first minimal-score p-mer.
    A function of the k-mer (and the configuration) alone. -/
def bucketOf (perm : Array Nat) (rcMode : Bool) (p : Nat) (x : Seq) : Nat :=
  match pmersOf p x with
  | [] => 0
  | w :: rest =>
    let best := rest.foldl (fun best c => if permScore perm rcMode c < permScore perm rcMode best then c else best) w
    rank (minRc best) % 2 ^ 32

/-- the read's bases flanking `[start, start+len)` as an extension byte: bit `b` for a left flank `b`,
    bit `4+b` for a right flank `b`, nothing at a read end -/
def optPow (off : Nat) (o : Option Base) : Nat := match o with | some b => 2 ^ (off + b.val) | none => 0

def flankByte (seq : Array Base) (start len : Nat) : Nat :=
  (if start = 0 then 0 else optPow 0 seq[start - 1]?) + optPow 4 seq[start + len]?

/-- pieces tile the read from `start`: each is the exact substring, consecutive pieces overlap by k-1,
    the last one ends at the end of the read, extension bytes are the true flanks -/
def PiecesFrom (seq : Array Base) (k : Nat) : Nat → List Piece → Prop
  | _, [] => False
  | start, [pc] =>
    k ≤ pc.seq.length ∧ start + pc.seq.length = seq.size ∧ pc.seq = window seq pc.seq.length start ∧
    pc.exts = flankByte seq start pc.seq.length
  | start, pc :: pc' :: rest =>
    k ≤ pc.seq.length ∧ start + pc.seq.length ≤ seq.size ∧ pc.seq = window seq pc.seq.length start ∧
    pc.exts = flankByte seq start pc.seq.length ∧ PiecesFrom seq k (start + pc.seq.length - (k - 1)) (pc' :: rest)

instance decPiecesFrom (seq k) : (start : Nat) → (l : List Piece) → Decidable (PiecesFrom seq k start l)
  | _, [] => by unfold PiecesFrom; infer_instance
  | _, [_] => by unfold PiecesFrom; infer_instance
  | start, pc :: pc' :: rest => by
    unfold PiecesFrom
    have := decPiecesFrom seq k (start + pc.seq.length - (k - 1)) (pc' :: rest)
    infer_instance

/-- the k-mers of a piece, in order -/
def kmersOfSeq (k : Nat) (x : Seq) : List Seq :=
  if x.length < k then [] else (List.range (x.length - k + 1)).map fun j => (x.drop j).take k

/-- every k-mer of every piece lies in the bucket that is a function of the k-mer alone -/
def BucketsPure (perm : Array Nat) (rcMode : Bool) (k p : Nat) (pieces : List Piece) : Prop :=
  ∀ pc ∈ pieces, ∀ x ∈ kmersOfSeq k pc.seq, pc.bucket = bucketOf perm rcMode p x

instance (perm rcMode k p pieces) : Decidable (BucketsPure perm rcMode k p pieces) := by
  unfold BucketsPure; infer_instance

/-- C08 for one read (`k ≤ |seq|`); for `|seq| < k` the answer must be empty -/
def HoldsC08 (perm : Array Nat) (rcMode : Bool) (k p : Nat) (seq : Array Base) (pieces : List Piece) : Prop :=
  if seq.size < k then pieces = []
  else PiecesFrom seq k 0 pieces ∧ BucketsPure perm rcMode k p pieces

instance (perm rcMode k p seq pieces) : Decidable (HoldsC08 perm rcMode k p seq pieces) := by
  unfold HoldsC08; infer_instance

def holdsC08 (perm : Array Nat) (rcMode : Bool) (k p : Nat) (seq : Array Base) (pieces : List Piece) : Bool :=
  decide (HoldsC08 perm rcMode k p seq pieces)

def explainC08 (perm : Array Nat) (rcMode : Bool) (k p : Nat) (seq : Array Base) (pieces : List Piece) : String :=
  if seq.size < k then (if pieces = [] then "ok" else "pieces-for-short-read")
  else if ¬ PiecesFrom seq k 0 pieces then "pieces-not-exact-substrings/flanks/tiling"
  else if ¬ BucketsPure perm rcMode k p pieces then "bucket-not-a-function-of-the-kmer"
  else "ok"

end Msp
