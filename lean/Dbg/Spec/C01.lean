import Dbg.Model.Compress
/-! Executable statements of C01 (lossless partition, recorded steps, payload fold) and C02 (nodes =
    connected components of the good-link relation) on observable values: a k-mer table and a node list. -/
namespace Compress
open Walk (Dir)

/-- canonical form with flip flag: identity when stranded -/
def canonOf (st : Bool) (x : Seq) : Seq × Bool := if st then (x, false) else minRcFlip x

/-- the K-windows of a node sequence -/
def windowsOf (K : Nat) (s : Seq) : List Seq :=
  if s.length < K then [] else (List.range (s.length - K + 1)).map fun i => (s.drop i).take K

def lookup {D} (T : Table D) (k : Seq) : Option (Entry D) := T.find? (·.key == k)

def insertSeq (x : Seq) : List Seq → List Seq
  | [] => [x]
  | y :: ys => if x < y then x :: y :: ys else y :: insertSeq x ys
def sortSeqs (l : List Seq) : List Seq := l.foldr insertSeq []

/-- C01(a): every node has at least K bases and the canonical windows of all nodes are a permutation of the keys -/
def partitionOK {D} (K : Nat) (st : Bool) (T : Table D) (nodes : List (Node D)) : Bool :=
  nodes.all (fun n => n.seq.length ≥ K) &&
  sortSeqs (nodes.flatMap fun n => (windowsOf K n.seq).map fun w => (canonOf st w).1) == sortSeqs (T.map (·.key))

/-- does the stored entry of window `x` record base `b` on side `d` of `x` (as spelled in the node)? -/
def records {D} (st : Bool) (T : Table D) (x : Seq) (d : Dir) (b : Base) : Bool :=
  let (cx, flip) := canonOf st x
  match lookup T cx with
  | none => false
  | some e => if flip then e.exts.hasExt d.flip (comp b).val else e.exts.hasExt d b.val

/-- C01(b): every step between consecutive k-mers of a node follows an extension recorded for both of them -/
def stepsOK {D} (K : Nat) (st : Bool) (T : Table D) (nodes : List (Node D)) : Bool :=
  nodes.all fun n =>
    let ws := windowsOf K n.seq
    (ws.zip ws.tail).all fun (x, y) =>
      match y.getLast?, x.head? with
      | some b, some a => records st T x .R b && records st T y .L a
      | _, _ => false

/-- C01(c) for a commutative-associative reduction: the node payload is the reduction of exactly its k-mers' payloads -/
def payloadOK {D} [BEq D] (K : Nat) (st : Bool) (T : Table D) (reduce : D → D → D) (nodes : List (Node D)) : Bool :=
  nodes.all fun n =>
    let ds := (windowsOf K n.seq).filterMap fun w => (lookup T (canonOf st w).1).map (·.data)
    match ds with
    | [] => false
    | d :: rest => rest.foldl reduce d == n.data

/-- reciprocity of the recorded extensions (`ExtSym`): if `x` records base `b` on side `p` and the neighbour is
    present, the neighbour records the reciprocal base on the facing side (a palindromic neighbour: on either side) -/
def extSymOK {D} (st : Bool) (T : Table D) : Bool :=
  T.all fun e => [Dir.L, Dir.R].all fun p => ([0, 1, 2, 3] : List Base).all fun b =>
    !e.exts.hasExt p b.val ||
      (let raw := extend e.key b p
       let (y, flip) := canonOf st raw
       match lookup T y with
       | none => true
       | some ey =>
         -- the base that leads back from `raw` (as spelled) to `e.key`
         let back : Option Base := match p with | .R => e.key.head? | .L => e.key.getLast?
         match back with
         | none => false
         | some a =>
           let q := p.flip
           let direct := if flip then ey.exts.hasExt q.flip (comp a).val else ey.exts.hasExt q a.val
           let pal := !st && y == rc y
           direct || (pal && (if flip then ey.exts.hasExt q (a).val else ey.exts.hasExt q.flip (comp a).val)))

/-- every recorded extension leads to a present k-mer (hypothesis of C02) -/
def extsPresentOK {D} (st : Bool) (T : Table D) : Bool :=
  T.all fun e => [Dir.L, Dir.R].all fun p => ([0, 1, 2, 3] : List Base).all fun b =>
    !e.exts.hasExt p b.val || (lookup T (canonOf st (extend e.key b p)).1).isSome

/-! ### C02 -/

/-- the good link out of key `x` through side `p`, if any: the target key -/
def goodLink {D} (st : Bool) (join : D → D → Bool) (T : Table D) (ex : Entry D) (p : Dir) : Option Seq :=
  if ex.exts.numExtDir p != 1 then none
  else if !st && ex.key == rc ex.key then none
  else match ex.exts.uniqueExt p with
    | none => none
    | some b =>
      let (y, flip) := canonOf st (extend ex.key b p)
      if y == ex.key then none
      else match lookup T y with
        | none => none
        | some ey =>
          let q := if flip then p else p.flip
          if ey.exts.numExtDir q != 1 then none
          else if !st && y == rc y then none
          else if !(join ex.data ey.data) then none
          else some y

/-- connected components of the good-link relation over the keys, as a labelling by representative index -/
def components {D} (st : Bool) (join : D → D → Bool) (T : Table D) : List Nat :=
  let n := T.length
  let idx := fun (k : Seq) => (T.findIdx? (·.key == k)).getD 0
  let edges : List (Nat × Nat) := T.zipIdx.flatMap fun (e, i) =>
    [Dir.L, Dir.R].filterMap fun p => (goodLink st join T e p).map fun y => (i, idx y)
  -- label propagation to a fixpoint (at most n rounds)
  let step := fun (lab : Array Nat) =>
    edges.foldl (fun (l : Array Nat) (e : Nat × Nat) =>
      let a := l.getD e.1 0; let b := l.getD e.2 0
      let m := min a b
      (l.setIfInBounds e.1 m).setIfInBounds e.2 m) lab
  ((List.range n).foldl (fun l _ => step l) (Array.range n)).toList

/-- C02: two keys share a node iff they are in the same component -/
def componentsOK {D} (K : Nat) (st : Bool) (join : D → D → Bool) (T : Table D) (nodes : List (Node D)) : Bool :=
  let lab := components st join T
  let idx := fun (k : Seq) => T.findIdx? (·.key == k)
  -- node id of every key
  let nodeOf : List (Option Nat) := T.map fun e =>
    nodes.findIdx? fun n => (windowsOf K n.seq).any fun w => (canonOf st w).1 == e.key
  let _ := idx
  -- same node ⇔ same label
  (List.range T.length).all fun i => (List.range T.length).all fun j =>
    (nodeOf.getD i none == nodeOf.getD j none) == (lab.getD i 0 == lab.getD j 0)

end Compress
