import Dbg.Model.Filter
/-! Reference for property C05: plain grouping of all observations, with no buckets and no passes. -/
namespace Filter
open Compress (Seq Base Exts rc minRcFlip Entry)

/-- all observations of all reads, canonicalised when unstranded, in input order -/
def observations (K : Nat) (reads : List (Seq × Exts × Nat)) (stranded : Bool) : List (Seq × Exts × Nat) :=
  reads.flatMap fun r =>
    (kmerExtsOf K r.1 r.2.1).map fun (km, ex) =>
      if stranded then (km, ex, r.2.2)
      else if km < rc km then (km, ex, r.2.2) else (rc km, ex.rc, r.2.2)

def insertKey (x : Seq) : List Seq → List Seq
  | [] => [x]
  | y :: ys => if x < y then x :: y :: ys else if x = y then y :: ys else y :: insertKey x ys

/-- the distinct keys in ascending order -/
def distinctKeys (obs : List (Seq × Exts × Nat)) : List Seq := obs.foldl (fun acc o => insertKey o.1 acc) []

/-- reference table: every distinct key, ascending, summarised once over exactly its observations in input order -/
def refGroups (K : Nat) (reads : List (Seq × Exts × Nat)) (stranded : Bool) : List (Seq × List (Exts × Nat)) :=
  let obs := observations K reads stranded
  (distinctKeys obs).map fun k => (k, (obs.filter fun o => o.1 == k).map fun o => (o.2.1, o.2.2))

def refTable (K : Nat) (reads : List (Seq × Exts × Nat)) (sm : Summarizer) (stranded : Bool) : List (Entry Payload) :=
  (refGroups K reads stranded).filterMap fun (k, obs) =>
    let (valid, ex, dat) := summarize sm obs
    if valid then some ⟨k, ex, dat⟩ else none

def refAllKmers (K : Nat) (reads : List (Seq × Exts × Nat)) (stranded : Bool) : List Seq :=
  (refGroups K reads stranded).map (·.1)

end Filter
