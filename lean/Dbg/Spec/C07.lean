import Dbg.Model.Msp
/-! Executable statement of property C07 on observable values. -/
namespace Msp

/-- per-interval clauses: length bounds, true minimizer at the reported position, inside every
    k-mer of the interval, minimal among all p-mers of the interval -/
def IvValid (seq : Array Compress.Base) (sc : Nat → Nat) (k p : Nat) (iv : Iv) : Prop :=
  k ≤ iv.len ∧ iv.len ≤ 2 * k - p ∧ iv.mini = window seq p iv.mpos ∧
  iv.start + iv.len - k ≤ iv.mpos ∧ iv.mpos + p ≤ iv.start + k ∧
  ∀ q < iv.start + iv.len - p + 1, iv.start ≤ q → sc iv.mpos ≤ sc q

instance (seq sc k p iv) : Decidable (IvValid seq sc k p iv) := by unfold IvValid; infer_instance

/-- chain clauses: start order, overlap by exactly k-1, last interval ends at the end of the
    sequence, and an interval only ends when forced -/
def ChainValid (sc : Nat → Nat) (k p m : Nat) : List Iv → Prop
  | [] => False
  | [iv] => iv.start + iv.len = m
  | iv :: iv' :: rest =>
    iv.start < iv'.start ∧ iv'.start + k - 1 = iv.start + iv.len ∧
    (iv.mpos < iv'.start ∨ sc (iv'.start + k - p) < sc iv.mpos) ∧ ChainValid sc k p m (iv' :: rest)

instance decChain (sc k p m) : (l : List Iv) → Decidable (ChainValid sc k p m l)
  | [] => by unfold ChainValid; infer_instance
  | [_] => by unfold ChainValid; infer_instance
  | _ :: iv' :: rest => by
    unfold ChainValid
    have := decChain sc k p m (iv' :: rest)
    infer_instance

def HoldsC07 (seq : Array Compress.Base) (score : Compress.Seq → Nat) (k p : Nat) (ivs : List Iv) : Prop :=
  let sc := fun q => score (window seq p q)
  ivs.head?.map (·.start) = some 0 ∧ (∀ iv ∈ ivs, IvValid seq sc k p iv) ∧ ChainValid sc k p seq.size ivs

instance (seq score k p ivs) : Decidable (HoldsC07 seq score k p ivs) := by unfold HoldsC07; infer_instance

def holdsC07 (seq : Array Compress.Base) (score : Compress.Seq → Nat) (k p : Nat) (ivs : List Iv) : Bool :=
  decide (HoldsC07 seq score k p ivs)

/-- which clause fails first (for replay files); "ok" when all hold -/
def explainC07 (seq : Array Compress.Base) (score : Compress.Seq → Nat) (k p : Nat) (ivs : List Iv) : String :=
  let sc := fun q => score (window seq p q)
  if ivs.head?.map (·.start) ≠ some 0 then "first-start-not-0"
  else if ¬ (∀ iv ∈ ivs, k ≤ iv.len ∧ iv.len ≤ 2 * k - p) then "length-bounds"
  else if ¬ (∀ iv ∈ ivs, iv.mini = window seq p iv.mpos) then "minimizer-not-at-position"
  else if ¬ (∀ iv ∈ ivs, iv.start + iv.len - k ≤ iv.mpos ∧ iv.mpos + p ≤ iv.start + k) then "minimizer-outside-a-kmer"
  else if ¬ (∀ iv ∈ ivs, IvValid seq sc k p iv) then "minimizer-not-minimal"
  else if ¬ ChainValid sc k p seq.size ivs then "chain(order/overlap/end/premature-end)"
  else "ok"

end Msp
