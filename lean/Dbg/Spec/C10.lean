import Dbg.Model.Kmer
/-! String-level reference for every k-mer operation (property C10): plain functions on `List Nat`
    (bases 0..3), independent of the packed model. -/
namespace KSpec

def comp (b : Nat) : Nat := 3 - b
def rc (l : List Nat) : List Nat := (l.map comp).reverse
def extendLeft (l : List Nat) (v : Nat) : List Nat := v :: l.dropLast
def extendRight (l : List Nat) (v : Nat) : List Nat := l.tail ++ [v]
/-- base-4 value, first base most significant -/
def val4 (l : List Nat) : Nat := l.foldl (fun a b => a * 4 + b) 0
/-- the K base-4 digits of `r`, most significant first -/
def digits4 : Nat → Nat → List Nat
  | 0, _ => []
  | k + 1, r => digits4 k (r / 4) ++ [r % 4]
def hamming (a b : List Nat) : Nat := (a.zip b).countP fun p => p.1 != p.2
def atCount (l : List Nat) : Nat := l.countP fun b => b == 0 || b == 3
def gcCount (l : List Nat) : Nat := l.countP fun b => b == 1 || b == 2
/-- base `j` of a packed run: bits `63-2j, 62-2j` of `value` -/
def runBase (value : BitVec 64) (j : Nat) : Nat := ((value >>> (62 - 2 * j)) &&& 3#64).toNat
/-- write `n` bases of the packed run starting at `pos` -/
def setSlice (l : List Nat) (pos n : Nat) (value : BitVec 64) : List Nat :=
  l.zipIdx.map fun (b, i) => if pos ≤ i ∧ i < pos + n then runBase value (i - pos) else b
/-- all strings at Hamming distance 1: every position, every other base, in position-then-base order -/
def hd1 (l : List Nat) : List (List Nat) :=
  (List.range l.length).flatMap fun p => (List.range 4).filterMap fun ch => if l.getD p 99 = ch then none else some (l.set p ch)
def toText (l : List Nat) : List Nat := l.map fun b => match b with | 0 => 65 | 1 => 67 | 2 => 71 | 3 => 84 | _ => 88
def asciiToBase (ch : Nat) : Nat :=
  if ch = 65 ∨ ch = 97 then 0 else if ch = 67 ∨ ch = 99 then 1 else if ch = 71 ∨ ch = 103 then 2
  else if ch = 84 ∨ ch = 116 then 3 else 0
/-- lexicographic `<` on base lists (core's `List` order on `Nat`) -/
def lexLt (a b : List Nat) : Bool := decide (a < b)
def minRc (l : List Nat) : List Nat := if lexLt l (rc l) then l else rc l
def windows (k : Nat) (l : List Nat) : List (List Nat) :=
  if l.length < k then [] else (List.range (l.length - k + 1)).map fun i => (l.drop i).take k

end KSpec
