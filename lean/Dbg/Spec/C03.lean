import Dbg.Model.Filter
import Dbg.Spec.C01
/-! Executable statements of C03 on observable values: edge lists, pruned tables, walks. -/
namespace Graph
open Compress (Seq Base Exts rc extend Node canonOf windowsOf lookup Entry)
open Walk (Dir)

variable {D : Type}

abbrev Edge := Nat × Dir × Bool

/-- overlap clause: an edge `(v, s, f)` reported from side `d` of node `u` is justified by an extension base `b` of `u`
    whose extended terminal k-mer is the terminal k-mer of `v` on side `s` (reverse-complemented iff `f`), with the
    arrival side determined by the flip -/
def edgeJustified (g : G D) (u : Nat) (d : Dir) (e : Edge) : Bool :=
  match g.nodes[u]?, g.nodes[e.1]? with
  | some nu, some nv =>
    base4.any fun b =>
      nu.exts.hasExt d b.val &&
      (let km := extend (termKmer g.K nu.seq d) b d
       if e.2.2 then (!g.stranded) && e.2.1 == d && termKmer g.K nv.seq e.2.1 == rc km
       else e.2.1 == d.flip && termKmer g.K nv.seq e.2.1 == km)
  | _, _ => false

/-- a link lookup is exact: an answer `(v, s, f)` names a node whose terminal k-mer on side `s` is the queried k-mer
    (reverse-complemented iff `f`; flipped answers only unstranded; arrival side determined by the flip), and `none` is
    answered only when no node carries the k-mer at the facing end nor (unstranded) its reverse complement at the same end -/
def linkExact (g : G D) (km : Seq) (d : Dir) (ans : Option Edge) : Bool :=
  match ans with
  | some e =>
    (match g.nodes[e.1]? with
     | some nv =>
       if e.2.2 then (!g.stranded) && e.2.1 == d && termKmer g.K nv.seq e.2.1 == rc km
       else e.2.1 == d.flip && termKmer g.K nv.seq e.2.1 == km
     | none => false)
  | none =>
    g.nodes.all fun n => termKmer g.K n.seq d.flip != km && (g.stranded || termKmer g.K n.seq d != rc km)

/-- all edges, as reported, are justified and every extension bit that resolves is reported exactly once per base -/
def edgesSound (g : G D) (all : List (List Edge × List Edge)) : Bool :=
  all.zipIdx.all fun ((le, re), u) => le.all (edgeJustified g u .L) && re.all (edgeJustified g u .R)

/-- is node `v` a palindromic single-k-mer node? -/
def palNode (g : G D) (v : Nat) : Bool :=
  match g.nodes[v]? with
  | some n => !g.stranded && n.seq.length == g.K && n.seq == rc n.seq
  | none => false

def edgesOf (all : List (List Edge × List Edge)) (u : Nat) (d : Dir) : List Edge :=
  match all[u]? with
  | some (l, r) => (match d with | .L => l | .R => r)
  | none => []

def edgeEq (a b : Edge) : Bool := a.1 == b.1 && a.2.1 == b.2.1 && a.2.2 == b.2.2

/-- symmetry clause: whenever `u` reaches `v`, `v` reaches `u` through the facing side (both sides of a palindromic
    single-k-mer node count as one) -/
def edgesSymmetric (g : G D) (all : List (List Edge × List Edge)) : Bool :=
  (List.range all.length).all fun u => [Dir.L, Dir.R].all fun d =>
    (edgesOf all u d).all fun e =>
      let back : Edge := (u, d, e.2.2)
      (edgesOf all e.1 e.2.1).any (edgeEq back) ||
      (palNode g e.1 && (edgesOf all e.1 e.2.1.flip).any fun x => x.1 == u) ||
      (palNode g u && ((edgesOf all e.1 e.2.1).any fun x => x.1 == u))

/-- a step of a walk: `(a, da)` then `(b, db)` (entries are `(node, orientation)` as in `max_path` / `sequence_of_path`:
    orientation `L` = spelled forward) follows a reported edge in one of the two directions -/
def stepValid (all : List (List Edge × List Edge)) (a b : Nat × Dir) : Bool :=
  -- leaving `a` through the side opposite to its incoming side, arriving at `b` on its incoming side
  (edgesOf all a.1 a.2.flip).any (fun e => e.1 == b.1 && e.2.1 == b.2) ||
  (edgesOf all b.1 b.2).any (fun e => e.1 == a.1 && e.2.1 == a.2.flip)

def walkValid (all : List (List Edge × List Edge)) (w : List (Nat × Dir)) : Bool :=
  (w.zip w.tail).all fun (a, b) => stepValid all a b

/-- the k-mers of a node in walking orientation -/
def orientedKmers (g : G D) (p : Nat × Dir) : List Seq :=
  match g.nodes[p.1]? with
  | some n => windowsOf g.K (match p.2 with | .L => n.seq | .R => rc n.seq)
  | none => []

/-- the spelled sequence's k-mers are precisely the walked nodes' k-mers in order -/
def pathSeqOK (g : G D) (w : List (Nat × Dir)) (s : Seq) : Bool :=
  windowsOf g.K s == w.flatMap (orientedKmers g)

/-! pruning -/

/-- exactness of `remove_censored_exts`: bit survives ⇔ it was set ∧ the target is a valid k-mer -/
def pruneExact {P} (st : Bool) (before after : List (Entry P)) : Bool :=
  before.length == after.length &&
  (before.zip after).all fun (b, a) =>
    a.key == b.key &&
    [Dir.L, Dir.R].all fun d => base4.all fun x =>
      a.exts.hasExt d x.val == (b.exts.hasExt d x.val && (lookup before (Filter.extTarget st b.key x d)).isSome)

/-- exactness of the sharded variant: a bit is removed ⇔ its target is in this shard's `all_kmers` but not valid -/
def pruneShardedExact {P} (st : Bool) (before after : List (Entry P)) (all : List Seq) : Bool :=
  before.length == after.length &&
  (before.zip after).all fun (b, a) =>
    a.key == b.key &&
    [Dir.L, Dir.R].all fun d => base4.all fun x =>
      let t := Filter.extTarget st b.key x d
      a.exts.hasExt d x.val == (b.exts.hasExt d x.val && !((lookup before t).isNone && all.contains t))

/-- exactness of `get_valid_exts`: bit survives ⇔ set ∧ target resolves ∧ (no validity set ∨ target node valid) -/
def validExtsExact (g : G D) (valid : Option (List Nat)) (result : List Exts) : Bool :=
  result.length == g.nodes.length &&
  (g.nodes.zip result).all fun (n, r) =>
    [Dir.L, Dir.R].all fun d => base4.all fun x =>
      let tgt := findLink g (extend (termKmer g.K n.seq d) x d) d
      r.hasExt d x.val == (n.exts.hasExt d x.val &&
        (match tgt with | some (t, _, _) => (match valid with | some vs => vs.contains t | none => true) | none => false))

end Graph
