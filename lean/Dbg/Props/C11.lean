import Dbg.Lemmas.KmerOrder
import Dbg.Lemmas.KmerRc
import Dbg.Lemmas.KmerExtend
import Dbg.Lemmas.KmerSlice
import Dbg.Props.C10
/-! # C11 — K-mer equality, order and hash are those of the string

`==`, `cmp` and `Hash` of both k-mer structs are `#[derive]`d on the `storage` integer (and a
`PhantomData`), i.e. they are functions of the storage word; the theorems below show that under the
representation invariant (which every value-producing operation preserves or establishes) the storage
word is a function of the string, and its integer order is the lexicographic order of strings. -/
namespace Kmer

/-- equal strings ⇔ equal storage words -/
theorem C11_eq_iff (c : Cfg) (hc : c.WF) (s t : St c) (hs : Inv c s) (ht : Inv c t) :
    s = t ↔ toSeq c s = toSeq c t :=
  ⟨fun h => by rw [h], toSeq_inj hc s t hs ht⟩

/-- integer order of storage words = lexicographic order A<C<G<T of the strings -/
theorem C11_lt_iff_lex (c : Cfg) (hc : c.WF) (s t : St c) (hs : Inv c s) (ht : Inv c t) :
    lt c s t = true ↔ toSeq c s < toSeq c t := by
  simp only [lt, decide_eq_true_eq]; exact lt_iff_lex hc s t hs ht

/-- value-producing operations of a history -/
inductive Op
  | extL (b : Nat) | extR (b : Nat) | rc | set (pos v : Nat) | minRc | extend (b : Nat) (right : Bool)
  | setSlice (pos n : Nat) (value : BitVec 64)

def Op.InRange (K : Nat) : Op → Prop
  | .extL b => b < 4 | .extR b => b < 4 | .rc => True | .set pos v => pos < K ∧ v < 4 | .minRc => True
  | .extend b _ => b < 4
  | .setSlice pos n _ => 1 ≤ n ∧ n ≤ 32 ∧ pos + n ≤ K

def run (c : Cfg) (s : St c) : Op → St c
  | .extL b => extendLeft c s b | .extR b => extendRight c s b | .rc => rc c s | .set pos v => setMut c s pos v
  | .minRc => minRc c s | .extend b r => extend c s b r
  | .setSlice pos n v => setSliceMut c s pos n v

def runSpec (l : List Nat) : Op → List Nat
  | .extL b => KSpec.extendLeft l b | .extR b => KSpec.extendRight l b | .rc => KSpec.rc l | .set pos v => l.set pos v
  | .minRc => KSpec.minRc l | .extend b r => if r then KSpec.extendRight l b else KSpec.extendLeft l b
  | .setSlice pos n v => KSpec.setSlice l pos n v

theorem step_ok (c : Cfg) (hc : c.WF) (hw : c.w ∈ [8, 16, 32, 64, 128]) (s : St c) (hs : Inv c s) (op : Op) (hr : op.InRange c.K) :
    Inv c (run c s op) ∧ toSeq c (run c s op) = runSpec (toSeq c s) op := by
  cases op with
  | extL b => exact ⟨inv_extendLeft hc s b hr hs, toSeq_extendLeft hc s b hr hs⟩
  | extR b => exact ⟨inv_extendRight hc s b hr, toSeq_extendRight hc s b hr⟩
  | rc => exact ⟨inv_rc hc hw s, toSeq_rc hc hw s⟩
  | set pos v => exact ⟨inv_setMut hc s pos v hr.1 hr.2 hs, toSeq_setMut hc s pos v hr.1 hr.2⟩
  | minRc =>
    have hlt := lt_iff_lex hc s (rc c s) hs (inv_rc hc hw s)
    simp only [run, runSpec, minRc, KSpec.minRc, KSpec.lexLt, lt, decide_eq_true_eq]
    rw [← toSeq_rc hc hw s]
    by_cases h : s.toNat < (rc c s).toNat
    · have := hlt.mp h; simp [h, this, hs]
    · have : ¬ toSeq c s < toSeq c (rc c s) := fun h' => h (hlt.mpr h')
      simp [h, this, inv_rc hc hw s]
  | setSlice pos n v =>
    exact ⟨inv_setSliceMut hc s pos n v hr.1 hr.2.1 hr.2.2 hs, toSeq_setSliceMut hc s pos n v hr.1 hr.2.1 hr.2.2⟩
  | extend b r =>
    cases r with
    | true => exact ⟨inv_extendRight hc s b hr, by simpa [run, runSpec, extend] using toSeq_extendRight hc s b hr⟩
    | false => exact ⟨inv_extendLeft hc s b hr hs, by simpa [run, runSpec, extend] using toSeq_extendLeft hc s b hr hs⟩

/-- **C11 (histories).** After any finite sequence of in-range value-producing operations the storage
    word satisfies the invariant and spells exactly the string obtained by the same operations on
    strings. -/
theorem C11_history (c : Cfg) (hc : c.WF) (hw : c.w ∈ [8, 16, 32, 64, 128]) (ops : List Op) (s : St c) (hs : Inv c s)
    (hr : ∀ op ∈ ops, op.InRange c.K) :
    Inv c (ops.foldl (run c) s) ∧ toSeq c (ops.foldl (run c) s) = ops.foldl runSpec (toSeq c s) := by
  induction ops generalizing s with
  | nil => exact ⟨hs, rfl⟩
  | cons op ops ih =>
    obtain ⟨h1, h2⟩ := step_ok c hc hw s hs op (hr op (by simp))
    have := ih (run c s op) h1 (fun o ho => hr o (by simp [ho]))
    simp only [List.foldl_cons]
    rw [← h2]; exact this

/-- **C11 (routes agree).** Two histories that spell the same string end in the same storage word:
    `==`, `cmp`, `Hash` (derived on storage), and therefore sort, dedup, group_by, binary search and
    perfect-hash lookup, cannot tell them apart. -/
theorem C11_routes_agree (c : Cfg) (hc : c.WF) (hw : c.w ∈ [8, 16, 32, 64, 128]) (ops₁ ops₂ : List Op) (s₁ s₂ : St c)
    (h₁ : Inv c s₁) (h₂ : Inv c s₂) (r₁ : ∀ op ∈ ops₁, op.InRange c.K) (r₂ : ∀ op ∈ ops₂, op.InRange c.K)
    (h : ops₁.foldl runSpec (toSeq c s₁) = ops₂.foldl runSpec (toSeq c s₂)) :
    ops₁.foldl (run c) s₁ = ops₂.foldl (run c) s₂ := by
  obtain ⟨i1, e1⟩ := C11_history c hc hw ops₁ s₁ h₁ r₁
  obtain ⟨i2, e2⟩ := C11_history c hc hw ops₂ s₂ h₂ r₂
  exact toSeq_inj hc _ _ i1 i2 (by rw [e1, e2, h])

/-- **C11 (constructors).** `from_bytes`, `from_u64` and `from_ascii` all establish the invariant, so whichever of
    them starts a history, two routes to the same string end in the same storage word (with `C11_routes_agree`);
    in particular `from_u64(rank s) == from_bytes(s) == from_ascii(text s)`. -/
theorem C11_constructors (c : Cfg) (hc : c.WF) (bytes : List Nat) (hl : bytes.length = c.K) (hb : ∀ b ∈ bytes, b < 4) :
    ∃ s, fromBytes c bytes = some s ∧ Inv c s ∧ toSeq c s = bytes ∧
      (∀ v, v < 4 ^ c.K → KSpec.digits4 c.K v = bytes → fromU64 c v = some s) ∧
      (∀ txt : List Nat, txt.length = c.K → txt.map baseToBits = bytes → fromAscii c txt = some s) := by
  obtain ⟨s, e, t, i⟩ := C10_fromBytes c hc bytes (by omega) hb
  have ht : toSeq c s = bytes := by rw [t, ← hl, List.take_length]
  refine ⟨s, e, i, ht, ?_, ?_⟩
  · intro v hv hd
    obtain ⟨s', e', t', i'⟩ := C10_fromU64 c hc v hv
    rw [e', toSeq_inj hc s' s i' i (by rw [t', hd, ht])]
  · intro txt hl' hm
    obtain ⟨s', e', t', i'⟩ := C10_fromAscii c hc txt (by omega)
    rw [e', toSeq_inj hc s' s i' i (by rw [t', ← hl', List.take_length, hm, ht])]

example : (Op.set 3 2).InRange 5 := ⟨by decide, by decide⟩

end Kmer
