import Dbg.Props.C03
/-! # C19 — Index construction is schedule-independent and lookups are exact

What a theorem can carry here: the two `BoomHashMap`s of a finished graph are used only through `get`, whose
contract is exact lookup among the inserted keys.  `ExactIndex` states that contract for an arbitrary lookup
function; on graphs whose node ends are distinct there is exactly one such function (`C19_index_unique`), so every
query that goes through the index — link lookups, edge lists, pruning — has the same answer for *any* builder
(parallel or serial, any schedule, any internal layout) that meets the contract (`C19_queries_determined`).
That the real parallel builder meets the contract under every schedule is explored by execution, not proved. -/
namespace Graph
open Compress (Seq Base Exts rc extend Node)
open Walk (Dir)
variable {D : Type}

/-- exact lookup among the nodes' terminal k-mers -/
def ExactIndex (g : G D) (ix : Seq → Dir → Option Nat) : Prop :=
  (∀ km side i, ix km side = some i → ∃ nd, g.nodes[i]? = some nd ∧ termKmer g.K nd.seq side = km) ∧
  (∀ km side, ix km side = none → ∀ nd ∈ g.nodes, termKmer g.K nd.seq side ≠ km)

/-- node ends are distinct per side (true of every valid graph: a k-mer occurs once) -/
def TermDistinct (g : G D) : Prop :=
  ∀ (side : Dir) (i j : Nat) (ni nj : Node D), g.nodes[i]? = some ni → g.nodes[j]? = some nj →
    termKmer g.K ni.seq side = termKmer g.K nj.seq side → i = j

/-- the model's lookup satisfies the contract -/
theorem searchKmer_exact (g : G D) : ExactIndex g (searchKmer g) := by
  refine ⟨fun km side i h => searchKmer_sound g km side i h, ?_⟩
  intro km side h nd hm he
  have := (searchKmer_complete g km side).mpr ⟨nd, hm, he⟩
  simp [h] at this

/-- **C19.** On a graph with distinct node ends every exact index is the same function. -/
theorem C19_index_unique (g : G D) (hd : TermDistinct g) (ix : Seq → Dir → Option Nat) (hx : ExactIndex g ix) :
    ∀ km side, ix km side = searchKmer g km side := by
  intro km side
  have hs := searchKmer_exact g
  cases h1 : ix km side with
  | none =>
    cases h2 : searchKmer g km side with
    | none => rfl
    | some j =>
      obtain ⟨nd, e1, e2⟩ := hs.1 km side j h2
      exact absurd e2 (hx.2 km side h1 nd (List.mem_of_getElem? e1))
  | some i =>
    obtain ⟨ni, a1, a2⟩ := hx.1 km side i h1
    cases h2 : searchKmer g km side with
    | none => exact absurd a2 (hs.2 km side h2 ni (List.mem_of_getElem? a1))
    | some j =>
      obtain ⟨nj, b1, b2⟩ := hs.1 km side j h2
      rw [hd side i j ni nj a1 b1 (by rw [a2, b2])]

/-- `find_link` through an arbitrary index -/
def findLinkWith (g : G D) (ix : Seq → Dir → Option Nat) (kmer : Seq) (dir : Dir) : Option (Nat × Dir × Bool) :=
  match dir with
  | .L =>
    match ix kmer .R with
    | some idx => some (idx, .R, false)
    | none => if !g.stranded then (match ix (rc kmer) .L with | some idx => some (idx, .L, true) | none => none) else none
  | .R =>
    match ix kmer .L with
    | some idx => some (idx, .L, false)
    | none => if !g.stranded then (match ix (rc kmer) .R with | some idx => some (idx, .R, true) | none => none) else none

theorem findLink_eq_with (g : G D) (kmer : Seq) (dir : Dir) : findLink g kmer dir = findLinkWith g (searchKmer g) kmer dir := by
  unfold findLink findLinkWith; cases dir <;> rfl

/-- **C19 (queries are determined by the graph alone).** Two builders whose maps meet the lookup contract answer every
    link query identically — hence every edge list, pruning decision and walk, which are functions of link queries. -/
theorem C19_queries_determined (g : G D) (hd : TermDistinct g) (ix₁ ix₂ : Seq → Dir → Option Nat)
    (h₁ : ExactIndex g ix₁) (h₂ : ExactIndex g ix₂) (kmer : Seq) (dir : Dir) :
    findLinkWith g ix₁ kmer dir = findLinkWith g ix₂ kmer dir := by
  have e1 := C19_index_unique g hd ix₁ h₁
  have e2 := C19_index_unique g hd ix₂ h₂
  unfold findLinkWith
  simp only [e1, e2]

/-- **C19 (exact lookups).** A k-mer is found as a node end exactly when some node starts (left map) or ends (right map) with it. -/
theorem C19_search_exact (g : G D) (km : Seq) (side : Dir) :
    (searchKmer g km side).isSome ↔ ∃ nd ∈ g.nodes, termKmer g.K nd.seq side = km := searchKmer_complete g km side

end Graph
