import Dbg.Props.C10
import Dbg.Model.KmerIter
/-! # C13 — K-mer extraction agrees across all containers

Proved so far: the byte-vector / byte-slice wrappers (`DnaBytes`, `DnaSlice`): `get_kmer(pos)` spells
bases `pos..pos+K`.  The block walk of `DnaString`/`Lmer::get_kmer` and the iterators are modelled and
compared with the crate and the window reference on every run; their theorems are listed as partial. -/
namespace KIter
open Kmer

/-- C13 (byte wrappers): `get_kmer(pos)` is the k-mer built from bases `pos..pos+K` -/
theorem C13_bytes_getKmer (c : Cfg) (hc : c.WF) (bs : List Nat) (pos : Nat) (h : pos + c.K ≤ bs.length) (hb : ∀ b ∈ bs, b < 4) :
    ∃ s, (ofBytes c bs).getKmer pos = some s ∧ toSeq c s = (bs.drop pos).take c.K ∧ Inv c s := by
  have hl : c.K ≤ ((bs.drop pos).take c.K).length := by simp; omega
  have hb' : ∀ b ∈ (bs.drop pos).take c.K, b < 4 := fun b hb1 => hb b (List.mem_of_mem_drop (List.mem_of_mem_take hb1))
  obtain ⟨s, h1, h2, h3⟩ := C10_fromBytes c hc _ hl hb'
  refine ⟨s, by simp [ofBytes, h, h1], ?_, h3⟩
  rw [h2, List.take_take, Nat.min_self]

/-- out of range the wrappers refuse (slice index panic) -/
theorem C13_bytes_getKmer_guard (c : Cfg) (bs : List Nat) (pos : Nat) (h : ¬ pos + c.K ≤ bs.length) :
    (ofBytes c bs).getKmer pos = none := by simp [ofBytes, h]

end KIter
