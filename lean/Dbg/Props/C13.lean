import Dbg.Props.C10
import Dbg.Lemmas.IterProofs
import Dbg.Lemmas.SliceRefine
import Dbg.Props.C17
/-! # C13 — K-mer extraction agrees across all containers

`KIter.Faithful v seq` says a container `v` stands for the base vector `seq`: it reports its length,
reads every base, and `get_kmer(pos)` spells bases `pos..pos+K` (with the storage invariant of the k-mer
type).  Every container is faithful (`C13_dnaString`, `C13_slice` in both orientations and at every
offset, `C13_bytes`, `C13_lmer` for every capacity), for every k-mer configuration — so the theorems about faithful
containers (`C13_iter`, `C13_iter_exts`, `C13_term`) hold for all of them: the iterator yields exactly
`max(0, n-K+1)` k-mers in order, the `i`-th spelling bases `i..i+K`, and the extension iterator pairs
each with its true flanking bases, using the caller's boundary extensions only at the two ends.  The bulk
constructors `kmers_from_bytes/ascii` are C10's (`C10_kmersFromBytes`, `C10_kmersFromAscii`). -/
namespace KIter
open Kmer

/-- C13 (byte wrappers): `get_kmer(pos)` is the k-mer built from bases `pos..pos+K` -/
theorem C13_bytes_getKmer (c : Cfg) (hc : c.WF) (bs : List Nat) (pos : Nat) (h : pos + c.K ≤ bs.length) (hb : ∀ b ∈ bs, b < 4) :
    ∃ s, (ofBytes c bs).getKmer pos = some s ∧ toSeq c s = (bs.drop pos).take c.K ∧ Inv c s := by
  have hl : c.K ≤ ((bs.drop pos).take c.K).length := by simp; omega
  have hb' : ∀ b ∈ (bs.drop pos).take c.K, b < 4 := fun b hb1 => hb b (List.mem_of_mem_drop (List.mem_of_mem_take hb1))
  obtain ⟨s, h1, h2, h3⟩ := C10_fromBytes c hc _ hl hb'
  refine ⟨s, by simp [ofBytes, h, h1], ?_, h3⟩
  rw [h2, List.take_take, Nat.min_self]

/-- out of range the wrappers refuse (slice index panic) -/
theorem C13_bytes_getKmer_guard (c : Cfg) (bs : List Nat) (pos : Nat) (h : ¬ pos + c.K ≤ bs.length) :
    (ofBytes c bs).getKmer pos = none := by simp [ofBytes, h]

/-- **C13 (DnaString).** The block walk reads `K` consecutive bases at every position, across block
    boundaries, into every k-mer type (storage narrower or wider than the 64-bit blocks). -/
theorem C13_dnaString (c : Cfg) (hc : c.WF) (d : DnaStr.T) (h : DnaStr.Inv d) : Faithful (ofDnaString c d) (DnaStr.toSeq d) where
  len := (DnaStr.toSeq_length d h).symm
  base := DnaStr.toSeq_lt4 d h
  get := fun i hi => by
    have hi' : i < d.len := by rwa [DnaStr.toSeq_length d h] at hi
    show DnaStr.get d i = _
    rw [DnaStr.get_spec d h i hi', List.getElem?_eq_getElem hi]
  kmer := fun pos hp => by
    rw [DnaStr.toSeq_length d h] at hp
    obtain ⟨s, e, i, t⟩ := DnaStr.getKmer_spec c hc d h pos hp
    exact ⟨s, e, i, t⟩

theorem C13_dnaString_guard (c : Cfg) (d : DnaStr.T) (pos : Nat) (hp : ¬ pos + c.K ≤ d.len) :
    (ofDnaString c d).getKmer pos = none := DnaStr.getKmer_guard c d pos hp

/-- **C13 (slices).** Forward and reverse-complemented views at every offset. -/
theorem C13_slice (c : Cfg) (hc : c.WF) (hw : c.w ∈ [8, 16, 32, 64, 128]) (d : DnaStr.T) (h : DnaStr.Inv d)
    (s : DnaStr.Slice) (hv : DnaStr.Slice.Valid d s) : Faithful (ofSlice c d s) (DnaStr.Slice.seq d s) where
  len := (DnaStr.Slice.seq_length d h s hv).symm
  base := DnaStr.Slice.seq_lt4 d h s
  get := fun i hi => by
    have hi' : i < s.length := by rwa [DnaStr.Slice.seq_length d h s hv] at hi
    show DnaStr.Slice.get d s i = _
    rw [DnaStr.Slice.get_spec d h s hv i hi', List.getElem?_eq_getElem hi]
  kmer := fun pos hp => by
    rw [DnaStr.Slice.seq_length d h s hv] at hp
    obtain ⟨k, e, i, t⟩ := DnaStr.Slice.getKmer_spec c hc hw d h s hv pos hp
    exact ⟨k, e, i, t⟩

/-- **C13 (byte wrappers)** `DnaBytes` / `DnaSlice` -/
theorem C13_bytes (c : Cfg) (hc : c.WF) (bs : List Nat) (hb : ∀ b ∈ bs, b < 4) : Faithful (ofBytes c bs) bs where
  len := rfl
  base := hb
  get := fun i hi => by show bs[i]? = _; exact List.getElem?_eq_getElem hi
  kmer := fun pos hp => by
    obtain ⟨s, e, t, i⟩ := C13_bytes_getKmer c hc bs pos hp hb
    exact ⟨s, e, i, t⟩

/-- **C13 (Lmer)** of every capacity, under C17's invariant -/
theorem C13_lmer (c : Cfg) (hc : c.WF) (l : Lmer.T) (h : Lmer.Inv l) : Faithful (ofLmer c l) (Lmer.toSeq l) :=
  Lmer.C17_faithful c hc l h

/-- **C13 (iterator).** For any faithful container: exactly `max(0, n-K+1)` items, in order, the
    `i`-th spelling bases `i..i+K`. -/
theorem C13_iter (c : Cfg) (hc : c.WF) (v : Cont c) (seq : List Nat) (hf : Faithful v seq) :
    ∃ ks, iterKmers v = some ks ∧ ks.length = seq.length + 1 - c.K ∧
      ks.map (toSeq c) = (List.range (seq.length + 1 - c.K)).map (fun i => (seq.drop i).take c.K) ∧ ∀ k ∈ ks, Inv c k := by
  obtain ⟨ks, e, m, i⟩ := iterKmers_spec hc v seq hf
  refine ⟨ks, e, ?_, m, i⟩
  have := congrArg List.length m
  simpa using this

/-- **C13 (extension iterator).** Each k-mer is paired with its true flanking bases; the caller's
    boundary extensions are used only on the left of the first and on the right of the last k-mer. -/
theorem C13_iter_exts (c : Cfg) (hc : c.WF) (v : Cont c) (seq : List Nat) (hf : Faithful v seq) (exts : Nat) :
    ∃ ks, iterKmerExts v exts = some ks ∧
      ks.map (fun p => (toSeq c p.1, p.2)) =
        (List.range (seq.length + 1 - c.K)).map (fun i => ((seq.drop i).take c.K, specExt seq c.K exts i)) ∧
      ∀ k ∈ ks, Inv c k.1 := iterKmerExts_spec hc v seq hf exts

/-- the extension byte: low nibble = bit of the preceding base (or the caller's low nibble at the left
    end), high nibble = bit of the following base (or the caller's high nibble at the right end) -/
theorem C13_specExt (seq : List Nat) (K exts i : Nat) :
    specExt seq K exts i =
      ((if i = 0 then exts else (1 <<< seq.getD (i - 1) 0) % 256) &&& 15) |||
      ((if i + K < seq.length then (1 <<< (seq.getD (i + K) 0 + 4)) % 256 else exts) &&& 240) := rfl

/-- **C13 (first / last / terminal k-mers).** -/
theorem C13_term (c : Cfg) (v : Cont c) (seq : List Nat) (hf : Faithful v seq) :
    (c.K ≤ seq.length →
      (∃ s, firstKmer v = some s ∧ Inv c s ∧ toSeq c s = seq.take c.K) ∧
      (∃ s, lastKmer v = some s ∧ Inv c s ∧ toSeq c s = (seq.drop (seq.length - c.K)).take c.K)) ∧
    (seq.length < c.K → lastKmer v = none) := by
  refine ⟨fun hK => ?_, lastKmer_short v seq hf⟩
  obtain ⟨h1, h2⟩ := termKmer_spec v seq hf hK
  exact ⟨by simpa [win] using h1, h2⟩

/-- the iterator's items are the same storage words as `get_kmer(i)` (uniqueness of representation) -/
theorem C13_iter_eq_getKmer (c : Cfg) (hc : c.WF) (v : Cont c) (seq : List Nat) (hf : Faithful v seq) (ks : List (St c))
    (he : iterKmers v = some ks) (i : Nat) (hi : i + c.K ≤ seq.length) : v.getKmer i = ks[i]? := by
  obtain ⟨ks', e, m, inv⟩ := iterKmers_spec hc v seq hf
  rw [he] at e; cases e
  obtain ⟨s, e, si, st⟩ := hf.kmer i hi
  have hlen : ks.length = seq.length + 1 - c.K := by simpa using congrArg List.length m
  have hi' : i < ks.length := by omega
  rw [e, List.getElem?_eq_getElem hi']
  congr 1
  apply toSeq_inj hc _ _ si (inv _ (List.getElem_mem _))
  have := congrArg (·[i]?) m
  simp only [List.getElem?_map, List.getElem?_eq_getElem hi', Option.map_some] at this
  rw [List.getElem?_eq_getElem (by simp; omega)] at this
  simp only [List.getElem_range, Option.map_some, Option.some.injEq] at this
  rw [st, this]

/-- non-vacuity: a 70-base string (three blocks) is a faithful container for a 24-mer in a 64-bit word -/
example : ∃ d, DnaStr.fromBytes (List.replicate 70 2) = some d ∧ Faithful (ofDnaString ⟨64, 24, true⟩ d) (List.replicate 70 2) := by
  obtain ⟨d, e, i, t, _⟩ := DnaStr.fromBytes_spec (List.replicate 70 2) (by intro b hb; rw [List.mem_replicate] at hb; omega)
  exact ⟨d, e, t ▸ C13_dnaString _ ⟨by decide, by decide, by decide⟩ d i⟩

end KIter
