import Dbg.Lemmas.SerdeInj
/-! # C20 (persistence) — the serialised texts determine the values

`Serde.*` are the JSON texts `serde_json::to_string` writes for k-mers, extension sets, DNA strings, `Lmer`s, the packed
sequence set and `BaseGraph` (compared with the real serializer on every `persist` request).  Each encoder is injective:
two values with the same text are equal - field by field, including the `len` field of a `DnaString` and every storage word -
so nothing a reader needs is missing from the text or ambiguous in it.  (That `serde_json`'s reader, given such a text,
rebuilds the value is observed on every request, not proved: the derive code and the parser are outside the model.) -/
namespace Serde

theorem nds_lit (s : String) (r : List Char) (h : (s.toList.head?.map Char.isDigit) = some false) : NDS (lit s ++ r) := by
  unfold lit
  cases hs : s.toList with
  | nil => simp [hs] at h
  | cons c t =>
    simp only [hs, List.head?_cons, Option.map_some, Option.some.injEq] at h
    exact nds_cons h

theorem lit_cancel (p : List Char) {x y : List Char} (h : p ++ x = p ++ y) : x = y := List.append_cancel_left h

theorem pf_exts : PF exts where
  inj := by
    intro a b r1 r2 n1 n2 hh
    simp only [exts, List.append_assoc] at hh
    have h1 := lit_cancel _ hh
    obtain ⟨e1, e2⟩ := pf_num.inj a.val b.val _ _ (nds_lit _ _ (by decide)) (nds_lit _ _ (by decide)) h1
    refine ⟨?_, by simpa using e2⟩
    cases a; cases b; simp_all
  head := fun a => ⟨'{', _, by first | rfl | (simp [kmer, exts, dna, lmer, pset, baseGraph, lit]), by decide⟩

theorem pf_kmer (c : Kmer.Cfg) : PF (kmer c) where
  inj := by
    intro a b r1 r2 n1 n2 hh
    simp only [kmer, List.append_assoc] at hh
    have h1 := lit_cancel _ hh
    have nd : ∀ r, NDS ((if c.var = true then lit ",\"phantom\":null}" else lit "}") ++ r) := by
      intro r; split <;> exact nds_lit _ _ (by decide)
    obtain ⟨e1, e2⟩ := pf_num.inj a.toNat b.toNat _ _ (nd r1) (nd r2) h1
    exact ⟨BitVec.eq_of_toNat_eq e1, List.append_cancel_left e2⟩
  head := fun a => ⟨'{', _, by first | rfl | (simp [kmer, exts, dna, lmer, pset, baseGraph, lit]), by decide⟩

theorem pf_block : PF (fun (b : BitVec 64) => num b.toNat) :=
  pf_comp pf_num (fun b => b.toNat) (fun _ _ h => BitVec.eq_of_toNat_eq h)

theorem pf_dna : PF dna where
  inj := by
    intro a b r1 r2 n1 n2 hh
    simp only [dna, List.append_assoc] at hh
    have h1 := lit_cancel _ hh
    obtain ⟨e1, e2⟩ := (pf_arr pf_block).inj a.storage b.storage _ _ (nds_lit _ _ (by decide)) (nds_lit _ _ (by decide)) h1
    have h2 := lit_cancel _ e2
    obtain ⟨e3, e4⟩ := pf_num.inj a.len b.len _ _ (nds_lit _ _ (by decide)) (nds_lit _ _ (by decide)) h2
    refine ⟨?_, by simpa using e4⟩
    cases a; cases b; simp_all
  head := fun a => ⟨'{', _, by first | rfl | (simp [kmer, exts, dna, lmer, pset, baseGraph, lit]), by decide⟩

theorem pf_lmer : PF lmer where
  inj := by
    intro a b r1 r2 n1 n2 hh
    simp only [lmer, List.append_assoc] at hh
    have h1 := lit_cancel _ hh
    obtain ⟨e1, e2⟩ := (pf_arr pf_block).inj a.storage b.storage _ _ (nds_lit _ _ (by decide)) (nds_lit _ _ (by decide)) h1
    refine ⟨?_, by simpa using e2⟩
    cases a; cases b; simp_all
  head := fun a => ⟨'{', _, by first | rfl | (simp [kmer, exts, dna, lmer, pset, baseGraph, lit]), by decide⟩

theorem pf_pset : PF pset where
  inj := by
    intro a b r1 r2 n1 n2 hh
    simp only [pset, List.append_assoc] at hh
    have h1 := lit_cancel _ hh
    obtain ⟨e1, e2⟩ := pf_dna.inj a.sequence b.sequence _ _ (nds_lit _ _ (by decide)) (nds_lit _ _ (by decide)) h1
    have h2 := lit_cancel _ e2
    obtain ⟨e3, e4⟩ := (pf_arr pf_num).inj a.start b.start _ _ (nds_lit _ _ (by decide)) (nds_lit _ _ (by decide)) h2
    have h3 := lit_cancel _ e4
    obtain ⟨e5, e6⟩ := (pf_arr pf_num).inj a.length b.length _ _ (nds_lit _ _ (by decide)) (nds_lit _ _ (by decide)) h3
    refine ⟨?_, by simpa using e6⟩
    cases a; cases b; simp_all
  head := fun a => ⟨'{', _, by first | rfl | (simp [kmer, exts, dna, lmer, pset, baseGraph, lit]), by decide⟩

theorem pf_baseGraph {D : Type} {ed : D → List Char} (hd : PF ed) : PF (baseGraph ed) where
  inj := by
    intro a b r1 r2 n1 n2 hh
    simp only [baseGraph, List.append_assoc] at hh
    have h1 := lit_cancel _ hh
    obtain ⟨e1, e2⟩ := pf_pset.inj a.sequences b.sequences _ _ (nds_lit _ _ (by decide)) (nds_lit _ _ (by decide)) h1
    have h2 := lit_cancel _ e2
    obtain ⟨e3, e4⟩ := (pf_arr pf_exts).inj a.exts b.exts _ _ (nds_lit _ _ (by decide)) (nds_lit _ _ (by decide)) h2
    have h3 := lit_cancel _ e4
    obtain ⟨e5, e6⟩ := (pf_arr hd).inj a.data b.data _ _ (nds_lit _ _ (by decide)) (nds_lit _ _ (by decide)) h3
    have h4 := lit_cancel _ e6
    obtain ⟨e7, e8⟩ := pf_bool.inj a.stranded b.stranded _ _ (nds_lit _ _ (by decide)) (nds_lit _ _ (by decide)) h4
    refine ⟨?_, by simpa using e8⟩
    cases a; cases b; simp_all
  head := fun a => ⟨'{', _, by first | rfl | (simp [kmer, exts, dna, lmer, pset, baseGraph, lit]), by decide⟩

/-- **C20 (k-mers).** The text written for a k-mer of any configuration determines its storage word. -/
theorem C20_kmer_text_injective (c : Kmer.Cfg) (a b : Kmer.St c) (h : kmer c a = kmer c b) : a = b :=
  ((pf_kmer c).inj a b [] [] nds_nil nds_nil (by simpa using h)).1

/-- **C20 (extension sets).** -/
theorem C20_exts_text_injective (a b : Compress.Exts) (h : exts a = exts b) : a = b :=
  (pf_exts.inj a b [] [] nds_nil nds_nil (by simpa using h)).1

/-- **C20 (DNA strings).** Storage words and length are both recoverable; no invariant on the value is needed. -/
theorem C20_dna_text_injective (a b : DnaStr.T) (h : dna a = dna b) : a = b :=
  (pf_dna.inj a b [] [] nds_nil nds_nil (by simpa using h)).1

/-- **C20 (`Lmer`).** -/
theorem C20_lmer_text_injective (a b : Lmer.T) (h : lmer a = lmer b) : a = b :=
  (pf_lmer.inj a b [] [] nds_nil nds_nil (by simpa using h)).1

/-- **C20 (`BaseGraph`).** Packed sequences with their start/length tables, extension bytes, payloads (any prefix-decodable payload
    encoder: decimal numbers for the counts used here) and the strandedness flag. -/
theorem C20_baseGraph_text_injective {D : Type} {ed : D → List Char} (hd : PF ed) (a b : Base D)
    (h : baseGraph ed a = baseGraph ed b) : a = b :=
  ((pf_baseGraph hd).inj a b [] [] nds_nil nds_nil (by simpa using h)).1

/-- the texts are not degenerate: a `DnaString` of three bases and its text -/
example : String.ofList (dna ⟨[0x4400000000000000#64], 3⟩) = "{\"storage\":[4899916394579099648],\"len\":3}" := by decide

end Serde
