import Dbg.Model.ExtsOps
import Dbg.Lemmas.FilterSym
/-! # C12 (continued) — an extension set is a pair of sets of bases

Every operation of `Exts` is characterised by what it does to the eight memberships "base `x` is an extension on side
`d`" (`Exts.hasExt`).  The byte has 256 values, so the unary operations are decided over the whole domain by the kernel;
the constants of `complement`, `reverse` and `merge` are the ones regenerated from lib.rs (T1). -/
namespace Compress
open Walk (Dir)

abbrev E (v : Fin 256) : Exts := ⟨v.val⟩

/-- `get(dir)` lists exactly the bases present on that side, ascending -/
theorem exts_get (e : Exts) (d : Dir) : e.get d = (List.range 4).filter fun x => e.hasExt d x := rfl

def dirB (b : Bool) : Dir := if b then .R else .L
theorem dirB_surj (d : Dir) : ∃ b, dirB b = d := by cases d; exact ⟨false, rfl⟩; exact ⟨true, rfl⟩

theorem exts_num' : ∀ (v : Fin 256) (d : Bool), (E v).numExtDir (dirB d) = ((E v).get (dirB d)).length := by decide +kernel
theorem exts_num (v : Fin 256) (d : Dir) : (E v).numExtDir d = ((E v).get d).length := by
  obtain ⟨b, rfl⟩ := dirB_surj d; exact exts_num' v b

theorem exts_unique' : ∀ (v : Fin 256) (d : Bool) (b : Base), (E v).uniqueExt (dirB d) = some b ↔ (E v).get (dirB d) = [b.val] := by
  decide +kernel
/-- `get_unique_extension` returns `b` exactly when `b` is the only extension on that side -/
theorem exts_unique (v : Fin 256) (d : Dir) (b : Base) : (E v).uniqueExt d = some b ↔ (E v).get d = [b.val] := by
  obtain ⟨c, rfl⟩ := dirB_surj d; exact exts_unique' v c b

theorem exts_singleDir' : ∀ (v : Fin 256) (d : Bool) (x : Fin 4),
    ((E v).singleDir (dirB d)).hasExt .L x.val = (E v).hasExt (dirB d) x.val ∧ ((E v).singleDir (dirB d)).hasExt .R x.val = false := by
  decide +kernel
theorem exts_singleDir (v : Fin 256) (d : Dir) (x : Fin 4) :
    ((E v).singleDir d).hasExt .L x.val = (E v).hasExt d x.val ∧ ((E v).singleDir d).hasExt .R x.val = false := by
  obtain ⟨c, rfl⟩ := dirB_surj d; exact exts_singleDir' v c x

theorem exts_complement' : ∀ (v : Fin 256) (d : Bool) (x : Fin 4),
    (E v).complement.hasExt (dirB d) x.val = (E v).hasExt (dirB d) (3 - x.val) ∧ (E v).complement.val < 256 := by decide +kernel
/-- `complement` replaces every base by its complement, on both sides -/
theorem exts_complement (v : Fin 256) (d : Dir) (x : Fin 4) :
    (E v).complement.hasExt d x.val = (E v).hasExt d (3 - x.val) ∧ (E v).complement.val < 256 := by
  obtain ⟨c, rfl⟩ := dirB_surj d; exact exts_complement' v c x

theorem exts_reverse' : ∀ (v : Fin 256) (d : Bool) (x : Fin 4),
    (E v).reverse.hasExt (dirB d) x.val = (E v).hasExt (dirB d).flip x.val ∧ (E v).reverse.val < 256 := by decide +kernel
/-- `reverse` swaps the two sides -/
theorem exts_reverse (v : Fin 256) (d : Dir) (x : Fin 4) :
    (E v).reverse.hasExt d x.val = (E v).hasExt d.flip x.val ∧ (E v).reverse.val < 256 := by
  obtain ⟨c, rfl⟩ := dirB_surj d; exact exts_reverse' v c x

theorem exts_rc' : ∀ (v : Fin 256) (d : Bool) (x : Fin 4),
    (E v).rc.hasExt (dirB d) x.val = (E v).hasExt (dirB d).flip (3 - x.val) ∧ (E v).rc.rc = E v := by decide +kernel
/-- `rc` swaps the sides and complements the bases; it is an involution -/
theorem exts_rc (v : Fin 256) (d : Dir) (x : Fin 4) :
    (E v).rc.hasExt d x.val = (E v).hasExt d.flip (3 - x.val) ∧ (E v).rc.rc = E v := by
  obtain ⟨c, rfl⟩ := dirB_surj d; exact exts_rc' v c x

theorem exts_set' : ∀ (v : Fin 256) (d : Bool) (p : Fin 4) (d' : Bool) (x : Fin 4),
    (Graph.Exts.set (E v) (dirB d) p.val).hasExt (dirB d') x.val = ((E v).hasExt (dirB d') x.val || (decide (d = d') && decide (p = x))) := by
  decide +kernel
/-- `set(dir, p)` adds base `p` on side `dir` and nothing else -/
theorem exts_set (v : Fin 256) (d : Dir) (p : Fin 4) (d' : Dir) (x : Fin 4) :
    (Graph.Exts.set (E v) d p.val).hasExt d' x.val = ((E v).hasExt d' x.val || (decide (d = d') && decide (p = x))) := by
  obtain ⟨c, rfl⟩ := dirB_surj d; obtain ⟨c', rfl⟩ := dirB_surj d'
  rw [exts_set' v c p c' x]
  cases c <;> cases c' <;> simp [dirB]

theorem exts_mk : ∀ (l r : Fin 4), (Exts.mkLeft l.val).get .L = [l.val] ∧ (Exts.mkLeft l.val).get .R = [] ∧
    (Exts.mkRight r.val).get .R = [r.val] ∧ (Exts.mkRight r.val).get .L = [] ∧
    (Exts.mkBoth l.val r.val).get .L = [l.val] ∧ (Exts.mkBoth l.val r.val).get .R = [r.val] := by decide +kernel

theorem exts_debug : ∀ (v : Fin 256), (E v).debug =
    ((E v).get .L).map (fun b => [65, 67, 71, 84].getD b 88) ++ [124] ++ ((E v).get .R).map (fun b => [65, 67, 71, 84].getD b 88) := by
  decide +kernel

/-! binary operations: by nibbles -/

theorem nib_or : ∀ (n m : Fin 16) (b : Base), nibHas (n.val ||| m.val) b = (nibHas n.val b || nibHas m.val b) := by decide +kernel

theorem tb15 (i : Nat) : Nat.testBit 15 i = decide (i < 4) := by
  have := Nat.testBit_two_pow_sub_one 4 i; simpa using this

theorem tb240 (i : Nat) : Nat.testBit 240 i = (decide (4 ≤ i) && decide (i < 8)) := by
  have : (240 : Nat) = 15 <<< 4 := by decide
  rw [this, Nat.testBit_shiftLeft, tb15]
  by_cases h : 4 ≤ i <;> simp [h] <;> omega

/-- `add` is the union, side by side -/
theorem exts_add (a b : Exts) (d : Dir) : (a.add b).dirBits d = a.dirBits d ||| b.dirBits d := by
  cases d
  · exact Nat.and_or_distrib_right ..
  · exact Nat.shiftRight_or_distrib ..

theorem exts_add_has (a b : Fin 256) (d : Dir) (x : Base) :
    nibHas (((E a).add (E b)).dirBits d) x = (nibHas ((E a).dirBits d) x || nibHas ((E b).dirBits d) x) := by
  rw [exts_add]
  exact nib_or ⟨_, dirBits_lt _ a.isLt d⟩ ⟨_, dirBits_lt _ b.isLt d⟩ x

/-- `merge(left, right)` takes the left extensions of `left` and the right extensions of `right` -/
theorem exts_merge (l r : Exts) (hr : r.val < 256) :
    (Exts.merge l r).dirBits .L = l.dirBits .L ∧ (Exts.merge l r).dirBits .R = r.dirBits .R := by
  have e1 : Gen.extsMerge.1 = 15 := rfl
  have e2 : Gen.extsMerge.2 = 240 := rfl
  unfold Exts.merge Exts.dirBits
  simp only [e1, e2]
  constructor
  · apply Nat.eq_of_testBit_eq; intro i
    simp only [Nat.testBit_and, Nat.testBit_or, tb15, tb240]
    by_cases h : i < 4 <;> simp [h] <;> omega
  · apply Nat.eq_of_testBit_eq; intro i
    simp only [Nat.testBit_shiftRight, Nat.testBit_and, Nat.testBit_or, tb15, tb240]
    by_cases h : 4 + i < 8
    · have : ¬ (4 + i < 4) := by omega
      simp [h, this]
    · have hf : r.val.testBit (4 + i) = false := Nat.testBit_lt_two_pow (Nat.lt_of_lt_of_le hr (Nat.pow_le_pow_right (n := 2) (by decide) (by omega : 8 ≤ 4 + i)))
      have : ¬ (4 + i < 4) := by omega
      simp [h, this, hf]

/-- `from_single_dirs(left, right)`: the left extensions of `left`, and the *left* nibble of `right` as right extensions -/
theorem exts_fromSingleDirs (l r : Exts) :
    (Exts.fromSingleDirs l r).dirBits .L = l.dirBits .L ∧ (Exts.fromSingleDirs l r).dirBits .R = r.dirBits .L := by
  unfold Exts.fromSingleDirs Exts.dirBits
  have h256 : (256 : Nat) = 2 ^ 8 := by decide
  constructor
  · apply Nat.eq_of_testBit_eq; intro i
    simp only [Nat.testBit_and, Nat.testBit_or, tb15, h256, Nat.testBit_mod_two_pow, Nat.testBit_shiftLeft]
    by_cases h : i < 4
    · have : ¬ (4 ≤ i) := by omega
      simp [h, this]
    · simp [h]
  · apply Nat.eq_of_testBit_eq; intro i
    simp only [Nat.testBit_shiftRight, Nat.testBit_and, Nat.testBit_or, tb15, h256, Nat.testBit_mod_two_pow, Nat.testBit_shiftLeft]
    have h4 : ¬ (4 + i < 4) := by omega
    have h5 : 4 ≤ 4 + i := by omega
    have h6 : 4 + i - 4 = i := by omega
    by_cases h : i < 4
    · have : 4 + i < 8 := by omega
      simp [h, h4, h5, h6, this]
    · have : ¬ (4 + i < 8) := by omega
      simp [h, h4, this]

/-- the byte built from an optional left and an optional right flank (`4` = none) -/
def flankByte (l r : Fin 5) : Nat :=
  ((((if r.val < 4 then (1 <<< r.val) % 256 else 0) <<< 4) % 256) ||| (if l.val < 4 then (1 <<< l.val) % 256 else 0))

theorem flank_table : ∀ (l r : Fin 5),
    (⟨flankByte l r⟩ : Exts).get .L = (if l.val < 4 then [l.val] else []) ∧
    (⟨flankByte l r⟩ : Exts).get .R = (if r.val < 4 then [r.val] else []) := by decide +kernel

/-- `from_slice_bounds` / `from_dna_string`: the extension set of a window inside a sequence holds exactly the base just
    before the window (if any) on the left and the base just after it (if any) on the right -/
theorem exts_fromSliceBounds (src : List Nat) (hb : ∀ x ∈ src, x < 4) (start length : Nat) (h : start + length ≤ src.length) :
    ∃ e, Exts.fromSliceBounds src start length = some e ∧
      e.get .L = (if start > 0 then [src.getD (start - 1) 0] else []) ∧
      e.get .R = (if start + length < src.length then [src.getD (start + length) 0] else []) := by
  unfold Exts.fromSliceBounds
  -- the two flanks as elements of `Fin 5`
  have hl : ∃ l : Fin 5, (if start > 0 then (src[start - 1]?).map (fun b => (1 <<< b) % 256) else some 0) =
      some (if l.val < 4 then (1 <<< l.val) % 256 else 0) ∧ (if l.val < 4 then [l.val] else []) = (if start > 0 then [src.getD (start - 1) 0] else []) := by
    by_cases hs : start > 0
    · have hlt : start - 1 < src.length := by omega
      have hv := hb _ (List.getElem_mem hlt)
      refine ⟨⟨src[start - 1], by omega⟩, ?_, ?_⟩
      · simp [hs, List.getElem?_eq_getElem hlt, hv]
      · simp [hs, hv, List.getD_eq_getElem?_getD, List.getElem?_eq_getElem hlt]
    · exact ⟨⟨4, by decide⟩, by simp [hs], by simp [hs]⟩
  have hr : ∃ r : Fin 5, (if start + length < src.length then (src[start + length]?).map (fun b => (1 <<< b) % 256) else some 0) =
      some (if r.val < 4 then (1 <<< r.val) % 256 else 0) ∧ (if r.val < 4 then [r.val] else []) = (if start + length < src.length then [src.getD (start + length) 0] else []) := by
    by_cases hs : start + length < src.length
    · have hv := hb _ (List.getElem_mem hs)
      refine ⟨⟨src[start + length], by omega⟩, ?_, ?_⟩
      · simp [hs, List.getElem?_eq_getElem hs, hv]
      · simp [hs, hv, List.getD_eq_getElem?_getD, List.getElem?_eq_getElem hs]
    · exact ⟨⟨4, by decide⟩, by simp [hs], by simp [hs]⟩
  obtain ⟨l, hl1, hl2⟩ := hl
  obtain ⟨r, hr1, hr2⟩ := hr
  simp only [hl1, hr1]
  obtain ⟨t1, t2⟩ := flank_table l r
  exact ⟨_, rfl, by rw [← hl2]; exact t1, by rw [← hr2]; exact t2⟩

end Compress
