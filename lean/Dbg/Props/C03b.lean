import Dbg.Props.C06c
/-! # C03 (continued) — the adjacencies of the finished graph are exactly the observed (K+1)-mers, without exception

`C03_observed_adjacency_recorded` (Props/C03) leaves out terminal k-mers equal to their own reverse complement, whose
flanks the table may record on either side.  On the level of *adjacencies* — unordered pairs of canonical k-mers, which is
how the property counts the two sides of such a node as one — no exception is needed: for the graph of the one-pass
pipeline, in any hash order, stranded or not, two retained k-mers are adjacent in the graph (consecutive inside a node, or
joined by an edge `find_link` resolves) iff some read contains the (K+1)-mer that spells one after the other, on either
strand when unstranded. -/
namespace Pipeline
open Compress (Seq Base Exts rc comp Entry Table canonSt extend condFlip AdjK AdjKS AdjGS)
open Filter (refTable removeCensoredExts has Occ NoBoundary)
open Walk (Dir)

/-- two retained k-mers spelled one after the other by some read (as read or, unstranded, on the other strand) -/
def ObservedAdj (K : Nat) (reads : List (Seq × Exts × Nat)) (st : Bool) (keys : List Seq) (k1 k2 : Seq) : Prop :=
  k1 ∈ keys ∧ k2 ∈ keys ∧ ∃ u d b, Occ K reads st u d b ∧ (canonSt st u).1 = k1 ∧ (canonSt st (extend u b d)).1 = k2

theorem adjK_occ_stranded (K : Nat) (hK : 1 ≤ K) (reads : List (Seq × Exts × Nat)) (hb : NoBoundary reads) (sm : Filter.Summarizer)
    (k1 k2 : Seq) :
    AdjK (removeCensoredExts true (refTable K reads sm true)) true k1 k2 ↔
      ObservedAdj K reads true ((refTable K reads sm true).map (·.key)) k1 k2 := by
  generalize hR : refTable K reads sm true = R
  constructor
  · rintro ⟨e, he, d, b, hk, hb', ht⟩
    obtain ⟨x, hx⟩ := Compress.mem_index _ e he
    obtain ⟨e0, h0, hk0, _, _, hex⟩ := (Filter.removeCensored_exact true R).2 x e hx
    obtain ⟨h1, h2⟩ := (hex d b).mp hb'
    have he0 : e0 ∈ R := List.mem_of_getElem? h0
    refine ⟨by rw [← hk, hk0]; exact List.mem_map_of_mem he0, ?_, e0.key, d, b, ?_, ?_, by rw [← hk0]; exact ht⟩
    · rw [← ht, hk0, ← Filter.extTarget_eq]; exact h2
    · exact Filter.table_occ K hK reads hb sm true e0 (by rw [hR]; exact he0) d b h1
    · rw [← hk, hk0]; rfl
  · rintro ⟨hk1, hk2, u, d, b, hocc, hc1, hc2⟩
    obtain ⟨e1, he1, hke1⟩ := List.mem_map.mp hk1
    obtain ⟨x, hx⟩ := Compress.mem_index _ e1 he1
    have hlen := (Filter.removeCensored_exact true R).1
    obtain ⟨e, hxe⟩ : ∃ e, (removeCensoredExts true R)[x]? = some e :=
      ⟨_, List.getElem?_eq_getElem (by rw [hlen]; exact (List.getElem?_eq_some_iff.mp hx).1)⟩
    obtain ⟨e0, h0, hk0, _, _, hex⟩ := (Filter.removeCensored_exact true R).2 x e hxe
    rw [hx] at h0; cases h0
    have hu : u = e1.key := by rw [hke1, ← hc1]; rfl
    subst hu
    have hh := Filter.occ_table K hK reads hb sm true e1.key d b hocc e1 (by rw [hR]; exact he1) false rfl rfl
    simp only [condFlip, Bool.false_eq_true, if_false] at hh
    refine ⟨e, List.mem_of_getElem? hxe, d, b, by rw [hk0]; exact hke1, ?_, by rw [hk0]; exact hc2⟩
    rw [hex d b]
    exact ⟨hh, by rw [Filter.extTarget_eq, hc2]; exact hk2⟩

theorem adjK_observed (K : Nat) (hK : 1 ≤ K) (reads : List (Seq × Exts × Nat)) (hb : NoBoundary reads) (sm : Filter.Summarizer)
    (st : Bool) (k1 k2 : Seq) :
    AdjK (removeCensoredExts st (refTable K reads sm st)) st k1 k2 ↔
      ObservedAdj K reads st ((refTable K reads sm st).map (·.key)) k1 k2 := by
  cases st with
  | true => exact adjK_occ_stranded K hK reads hb sm k1 k2
  | false => exact adjK_occ K hK reads hb sm k1 k2

/-- **C03 (adjacency set = observed (K+1)-mers, every case).** For every read set, K ≥ 4, strandedness, threshold and hash
    orders: the one-pass pipeline returns a graph in which two k-mers are adjacent — consecutive inside a node or joined by a
    resolved edge, in either order — iff both are retained and some read spells one directly after the other (on either
    strand when unstranded).  K-mers equal to their own reverse complement are included. -/
theorem C03_adjacency_exact (K : Nat) (hK : 4 ≤ K) (reads : List (Seq × Exts × Nat)) (hb : NoBoundary reads)
    (st : Bool) (thr : Nat) (dsigma : List Nat)
    (hds : dsigma.Perm (List.range (refTable K reads (.count thr) st).length)) :
    ∃ gd, direct K reads st thr dsigma = some gd ∧
      ∀ k1 k2, AdjGS K st gd.nodes k1 k2 ↔
        (ObservedAdj K reads st ((refTable K reads (.count thr) st).map (·.key)) k1 k2 ∨
         ObservedAdj K reads st ((refTable K reads (.count thr) st).map (·.key)) k2 k1) := by
  obtain ⟨gd, h1, a1⟩ := direct_pipeline_adj K hK reads hb st thr dsigma hds
  refine ⟨gd, h1, fun k1 k2 => ?_⟩
  rw [a1]
  unfold AdjKS
  rw [adjK_observed K (by omega) reads hb, adjK_observed K (by omega) reads hb]

end Pipeline
