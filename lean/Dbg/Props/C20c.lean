import Dbg.Props.C20b
/-! # C20 (continued) — the exported JSON document is well-formed JSON

`Json.Text P s`: the string `s` is a JSON text in the sense of RFC 8259 (a subset of its productions: objects, arrays,
strings with the standard escapes, unsigned integer literals, and opaque values satisfying `P` — the payload renderings
and the values of the `rest` object, which the crate obtains from `serde_json`).  The grammar is an inductive predicate,
so every text it accepts is built from the productions below and nothing else.

`C20_json_wellformed`: for every graph — empty, single-node, link-free, with or without links on the last node — every
payload rendering that is a JSON value and every `rest` object, the document written by `to_json_rest` is a JSON text. -/
namespace Json

/-- JSON whitespace -/
def IsWs (s : String) : Prop := ∀ c ∈ s.toList, c = ' ' ∨ c = '\n' ∨ c = '\t' ∨ c = '\r'

/-- a character that may stand unescaped inside a JSON string -/
def Plain (c : Char) : Prop := c ≠ '"' ∧ c ≠ '\\' ∧ 32 ≤ c.toNat
instance : DecidablePred Plain := fun c => inferInstanceAs (Decidable (c ≠ '"' ∧ c ≠ '\\' ∧ 32 ≤ c.toNat))

def IsHex (c : Char) : Prop := c ∈ "0123456789abcdefABCDEF".toList
instance : DecidablePred IsHex := fun c => inferInstanceAs (Decidable (c ∈ "0123456789abcdefABCDEF".toList))

/-- the characters between the quotes of a JSON string: unescaped characters, two-character escapes, `\uXXXX` -/
inductive StrBody : List Char → Prop
  | nil : StrBody []
  | plain {c : Char} {rest : List Char} : Plain c → StrBody rest → StrBody (c :: rest)
  | esc {c : Char} {rest : List Char} : c ∈ ['"', '\\', '/', 'b', 'f', 'n', 'r', 't'] → StrBody rest → StrBody ('\\' :: c :: rest)
  | uni {a b c d : Char} {rest : List Char} : IsHex a → IsHex b → IsHex c → IsHex d → StrBody rest →
      StrBody ('\\' :: 'u' :: a :: b :: c :: d :: rest)

/-- an unsigned integer literal: `0`, or digits that do not start with `0` -/
def IsNatLit (s : String) : Prop :=
  s.toList ≠ [] ∧ (∀ c ∈ s.toList, c.isDigit = true) ∧ (s.toList.head? = some '0' → s.toList = ['0'])

mutual
/-- a JSON value -/
inductive Val (P : String → Prop) : String → Prop
  | leaf {s : String} : P s → Val P s
  | num {s : String} : IsNatLit s → Val P s
  | str {b : List Char} : StrBody b → Val P ("\"" ++ String.ofList b ++ "\"")
  | arrE {w : String} : IsWs w → Val P ("[" ++ w ++ "]")
  | arr {e : String} : Elems P e → Val P ("[" ++ e ++ "]")
  | objE {w : String} : IsWs w → Val P ("{" ++ w ++ "}")
  | obj {m : String} : Members P m → Val P ("{" ++ m ++ "}")
/-- one or more values separated by commas, whitespace allowed around each -/
inductive Elems (P : String → Prop) : String → Prop
  | one {a v b : String} : IsWs a → Val P v → IsWs b → Elems P (a ++ v ++ b)
  | cons {a v b r : String} : IsWs a → Val P v → IsWs b → Elems P r → Elems P (a ++ v ++ b ++ "," ++ r)
/-- one or more `string : value` members separated by commas -/
inductive Members (P : String → Prop) : String → Prop
  | one {a : String} {k : List Char} {b c v d : String} : IsWs a → StrBody k → IsWs b → IsWs c → Val P v → IsWs d →
      Members P (a ++ "\"" ++ String.ofList k ++ "\"" ++ b ++ ":" ++ c ++ v ++ d)
  | cons {a : String} {k : List Char} {b c v d r : String} : IsWs a → StrBody k → IsWs b → IsWs c → Val P v → IsWs d →
      Members P r → Members P (a ++ "\"" ++ String.ofList k ++ "\"" ++ b ++ ":" ++ c ++ v ++ d ++ "," ++ r)
end

/-- a JSON text: a value with whitespace around it -/
def Text (P : String → Prop) (s : String) : Prop := ∃ a v b, IsWs a ∧ Val P v ∧ IsWs b ∧ s = a ++ v ++ b

/-! ### small facts -/

theorem ws_empty : IsWs "" := by intro c hc; simp at hc
theorem ws_nl : IsWs "\n" := by intro c hc; simp at hc; simp [hc]
theorem ws_sp : IsWs " " := by intro c hc; simp at hc; simp [hc]
theorem ws_nlnl : IsWs "\n\n" := by intro c hc; simp at hc; simp [hc]

theorem str_eq {s t : String} (h : s.toList = t.toList) : s = t := String.toList_injective h

def AllPlain (s : String) : Prop := ∀ c ∈ s.toList, Plain c
instance (s : String) : Decidable (AllPlain s) := inferInstanceAs (Decidable (∀ c ∈ s.toList, Plain c))

theorem strBody_of_plain : ∀ (l : List Char), (∀ c ∈ l, Plain c) → StrBody l
  | [], _ => .nil
  | c :: t, h => .plain (h c (List.mem_cons_self ..)) (strBody_of_plain t (fun x hx => h x (List.mem_cons_of_mem _ hx)))

theorem allPlain_append {s t : String} (hs : AllPlain s) (ht : AllPlain t) : AllPlain (s ++ t) := by
  intro c hc
  rw [String.toList_append] at hc
  rcases List.mem_append.mp hc with h | h
  · exact hs c h
  · exact ht c h

theorem plain_of_digit (c : Char) (h : c.isDigit = true) : Plain c := by
  obtain ⟨l1, l2⟩ := Char.isDigit_iff_toNat.mp h
  have e0 : '0'.toNat = 48 := by decide
  have e9 : '9'.toNat = 57 := by decide
  rw [e0] at l1; rw [e9] at l2
  refine ⟨?_, ?_, by omega⟩
  · intro e; rw [e] at l1; exact absurd l1 (by decide)
  · intro e; rw [e] at l2; exact absurd l2 (by decide)

theorem allPlain_nat (n : Nat) : AllPlain (toString n) := by
  intro c hc
  apply plain_of_digit
  rw [Nat.toString_eq_repr, Nat.toList_repr] at hc
  exact Nat.isDigit_of_mem_toDigits (by decide) (by decide) hc

/-- the decimal rendering of a natural number is an integer literal -/
theorem natLit (n : Nat) : IsNatLit (toString n) := by
  refine ⟨?_, ?_, ?_⟩
  · rw [Nat.toString_eq_repr, Nat.toList_repr]; exact Nat.toDigits_ne_nil
  · intro c hc
    rw [Nat.toString_eq_repr, Nat.toList_repr] at hc
    exact Nat.isDigit_of_mem_toDigits (by decide) (by decide) hc
  · rw [Nat.toString_eq_repr]
    induction n using Nat.strongRecOn with
    | _ n ih =>
      by_cases hn : n < 10
      · rw [Nat.repr_of_lt hn]
        intro h
        have : n = 0 := by
          have h10 : n = 0 ∨ n = 1 ∨ n = 2 ∨ n = 3 ∨ n = 4 ∨ n = 5 ∨ n = 6 ∨ n = 7 ∨ n = 8 ∨ n = 9 := by omega
          rcases h10 with rfl | rfl | rfl | rfl | rfl | rfl | rfl | rfl | rfl | rfl <;> first | rfl | (simp [Nat.digitChar] at h)
        subst this; rfl
      · intro h
        exfalso
        have hge : 10 ≤ n := by omega
        rw [Nat.repr_eq_repr_append_repr hge, String.toList_append] at h
        have hq := ih (n / 10) (by omega)
        have hne : (n / 10).repr.toList ≠ [] := by rw [Nat.toList_repr]; exact Nat.toDigits_ne_nil
        obtain ⟨c0, t0, hc0⟩ := List.exists_cons_of_ne_nil hne
        rw [hc0] at h hq
        simp only [List.cons_append, List.head?_cons, Option.some.injEq] at h
        subst h
        have := hq rfl
        -- `(n/10).repr = "0"` means `n / 10 = 0`
        have h0 : (n / 10).repr = "0" := str_eq (by rw [hc0, this]; rfl)
        have : n / 10 = 0 := by
          have h1 := congrArg (fun s => Nat.ofDigitChars 10 s.toList 0) h0
          simp only [Nat.toList_repr, Nat.ofDigitChars_ten_toDigits] at h1
          rw [h1]; rfl
        omega

/-! ### escaped strings -/

theorem hexDigit_isHex : ∀ n : Fin 16, IsHex (Export.hexDigit n.val) := by decide

theorem strBody_escape : ∀ (l : List Char), StrBody (l.flatMap Export.escapeChar)
  | [] => .nil
  | c :: t => by
    have ih := strBody_escape t
    rw [List.flatMap_cons]
    unfold Export.escapeChar
    split
    · exact .esc (by simp) ih
    · split
      · exact .esc (by simp) ih
      · split
        · exact .esc (by simp) ih
        · split
          · exact .esc (by simp) ih
          · split
            · exact .esc (by simp) ih
            · split
              · exact .esc (by simp) ih
              · split
                · exact .esc (by simp) ih
                · split
                  · rename_i h32
                    exact .uni (by decide) (by decide) (hexDigit_isHex ⟨c.toNat / 16, by omega⟩)
                      (hexDigit_isHex ⟨c.toNat % 16, by omega⟩) ih
                  · rename_i h1 h2 _ _ _ _ _ h32
                    exact .plain ⟨h1, h2, by omega⟩ ih

/-- what `serde_json` writes for a string is a JSON string -/
theorem val_jsonStr (P : String → Prop) (s : String) : Val P (Export.jsonStr s) := .str (strBody_escape _)

/-! ### arrays and objects from lists of items -/

/-- optional whitespace, then a value -/
def WsVal (P : String → Prop) (s : String) : Prop := ∃ a v, IsWs a ∧ Val P v ∧ s = a ++ v

theorem elems_of (P : String → Prop) (trail : String) (ht : IsWs trail) : ∀ (items : List String), items ≠ [] →
    (∀ x ∈ items, WsVal P x) → Elems P (",".intercalate items ++ trail)
  | [], h, _ => absurd rfl h
  | [x], _, hx => by
    obtain ⟨a, v, ha, hv, rfl⟩ := hx x (by simp)
    rw [String.intercalate_singleton]
    exact .one ha hv ht
  | x :: y :: t, _, hx => by
    obtain ⟨a, v, ha, hv, rfl⟩ := hx x (by simp)
    have ih := elems_of P trail ht (y :: t) (by simp) (fun z hz => hx z (List.mem_cons_of_mem _ hz))
    have := Elems.cons (b := "") ha hv ws_empty ih
    rw [String.intercalate_cons_cons]
    have e : a ++ v ++ "," ++ ",".intercalate (y :: t) ++ trail = a ++ v ++ "" ++ "," ++ (",".intercalate (y :: t) ++ trail) := by
      simp [String.append_assoc]
    rw [e]; exact this

/-- optional whitespace, a key, a colon, a value, optional whitespace -/
def IsMember (P : String → Prop) (s : String) : Prop :=
  ∃ (a : String) (k : List Char) (b c v d : String), IsWs a ∧ StrBody k ∧ IsWs b ∧ IsWs c ∧ Val P v ∧ IsWs d ∧
    s = a ++ "\"" ++ String.ofList k ++ "\"" ++ b ++ ":" ++ c ++ v ++ d

theorem members_of (P : String → Prop) : ∀ (ms : List String), ms ≠ [] → (∀ x ∈ ms, IsMember P x) →
    Members P (",".intercalate ms)
  | [], h, _ => absurd rfl h
  | [x], _, hx => by
    obtain ⟨a, k, b, c, v, d, ha, hk, hb, hc, hv, hd, rfl⟩ := hx x (by simp)
    rw [String.intercalate_singleton]
    exact .one ha hk hb hc hv hd
  | x :: y :: t, _, hx => by
    obtain ⟨a, k, b, c, v, d, ha, hk, hb, hc, hv, hd, rfl⟩ := hx x (by simp)
    have ih := members_of P (y :: t) (by simp) (fun z hz => hx z (List.mem_cons_of_mem _ hz))
    rw [String.intercalate_cons_cons]
    exact .cons ha hk hb hc hv hd ih

/-- `\n` before the first item and `,\n` between items = a comma between the items, each preceded by `\n` -/
theorem nl_intercalate : ∀ (items : List String), items ≠ [] →
    "\n" ++ ",\n".intercalate items = ",".intercalate (items.map ("\n" ++ ·))
  | [], h => absurd rfl h
  | [x], _ => by simp
  | x :: y :: t, _ => by
    have ih := nl_intercalate (y :: t) (by simp)
    rw [String.intercalate_cons_cons, List.map_cons, List.map_cons, String.intercalate_cons_cons, ← List.map_cons, ← ih]
    apply str_eq; simp

theorem intercalate_flatten (sep : String) : ∀ (gs : List (List String)), (∀ g ∈ gs, g ≠ []) →
    sep.intercalate (gs.map sep.intercalate) = sep.intercalate gs.flatten
  | [], _ => rfl
  | [g], _ => by simp
  | g :: h :: t, hne => by
    have ih := intercalate_flatten sep (h :: t) (fun x hx => hne x (List.mem_cons_of_mem _ hx))
    rw [List.map_cons, List.map_cons, String.intercalate_cons_cons, ← List.map_cons, ih]
    have h1 := hne g (by simp)
    have h2 : (h :: t).flatten ≠ [] := by
      have := hne h (by simp)
      simp [List.flatten_cons, this]
    rw [List.flatten_cons (l := g), String.intercalate_append_of_ne_nil h1 h2]

theorem join_commas (a : String) : ∀ (l : List String), a ++ String.join (l.map ("," ++ ·)) = ",".intercalate (a :: l)
  | [] => by simp
  | x :: t => by
    have ih := join_commas x t
    rw [String.intercalate_cons_cons, ← ih]
    simp [String.join_cons, String.append_assoc]

/-! ### the pieces of the document -/

theorem strVal (P : String → Prop) (s : String) (h : AllPlain s) : Val P ("\"" ++ s ++ "\"") := by
  have := Val.str (P := P) (strBody_of_plain s.toList h)
  rwa [String.ofList_toList] at this

theorem member_mk (P : String → Prop) (a : String) (k : List Char) (c v d : String) (ha : IsWs a) (hk : StrBody k) (hc : IsWs c)
    (hv : Val P v) (hd : IsWs d) : IsMember P (a ++ "\"" ++ String.ofList k ++ "\":" ++ c ++ v ++ d) :=
  ⟨a, k, "", c, v, d, ha, hk, ws_empty, hc, hv, hd, str_eq (by simp)⟩

theorem member_plain (P : String → Prop) (key v : String) (hk : AllPlain key) (hv : Val P v) :
    IsMember P ("\"" ++ key ++ "\":" ++ v) := by
  have := member_mk P "" key.toList "" v "" ws_empty (strBody_of_plain _ hk) ws_empty hv ws_empty
  rw [String.ofList_toList] at this
  have e : "" ++ "\"" ++ key ++ "\":" ++ "" ++ v ++ "" = "\"" ++ key ++ "\":" ++ v := str_eq (by simp)
  rwa [e] at this

theorem allPlain_seqStr (s : Compress.Seq) : AllPlain (Export.seqStr s) := by
  intro c hc
  unfold Export.seqStr at hc
  rw [String.toList_ofList] at hc
  obtain ⟨b, _, rfl⟩ := List.mem_map.mp hc
  unfold Export.baseChar
  split <;> decide

theorem allPlain_lit_start : AllPlain "start: " := by decide
theorem allPlain_lit_len : AllPlain ", len: " := by decide
theorem allPlain_lit_rc : AllPlain ", is_rc: false" := by decide

theorem allPlain_sliceDebug (start : Nat) (s : Compress.Seq) : AllPlain (Export.sliceDebug start s) := by
  unfold Export.sliceDebug
  split
  · exact allPlain_seqStr s
  · show AllPlain ("start: " ++ toString start ++ ", len: " ++ toString s.length ++ ", is_rc: false")
    exact allPlain_append (allPlain_append (allPlain_append (allPlain_append allPlain_lit_start (allPlain_nat _)) allPlain_lit_len)
      (allPlain_nat _)) allPlain_lit_rc

/-- an object written without whitespace from its members -/
theorem obj_of_members (P : String → Prop) (ms : List String) (hne : ms ≠ []) (h : ∀ x ∈ ms, IsMember P x) :
    Val P ("{" ++ ",".intercalate ms ++ "}") := .obj (members_of P ms hne h)

theorem val_nodeItem (P : String → Prop) (i len start : Nat) (d : String) (s : Compress.Seq) (hd : Val P d) :
    Val P ("{\"id\":\"" ++ toString i ++ "\",\"L\":" ++ toString len ++ ",\"D\":" ++ d ++ ",\"Se\":\"" ++
      Export.sliceDebug start s ++ "\"}") := by
  have h := obj_of_members P
    ["\"" ++ "id" ++ "\":" ++ ("\"" ++ toString i ++ "\""), "\"" ++ "L" ++ "\":" ++ toString len,
     "\"" ++ "D" ++ "\":" ++ d, "\"" ++ "Se" ++ "\":" ++ ("\"" ++ Export.sliceDebug start s ++ "\"")] (by simp) (by
      intro x hx
      simp only [List.mem_cons, List.mem_nil_iff, or_false] at hx
      rcases hx with rfl | rfl | rfl | rfl
      · exact member_plain P _ _ (by decide) (strVal P _ (allPlain_nat i))
      · exact member_plain P _ _ (by decide) (.num (natLit len))
      · exact member_plain P _ _ (by decide) hd
      · exact member_plain P _ _ (by decide) (strVal P _ (allPlain_sliceDebug start s)))
  have e : "{\"id\":\"" ++ toString i ++ "\",\"L\":" ++ toString len ++ ",\"D\":" ++ d ++ ",\"Se\":\"" ++
      Export.sliceDebug start s ++ "\"}" = "{" ++ ",".intercalate
    ["\"" ++ "id" ++ "\":" ++ ("\"" ++ toString i ++ "\""), "\"" ++ "L" ++ "\":" ++ toString len,
     "\"" ++ "D" ++ "\":" ++ d, "\"" ++ "Se" ++ "\":" ++ ("\"" ++ Export.sliceDebug start s ++ "\"")] ++ "}" := by
    apply str_eq; simp
  rw [e]; exact h

theorem val_linkObj (P : String → Prop) (i t : Nat) (ds : String) (hD : AllPlain ds) :
    Val P ("{\"source\":\"" ++ toString i ++ "\",\"target\":\"" ++ toString t ++ "\",\"D\":\"" ++ ds ++ "\"}") := by
  have h := obj_of_members P
    ["\"" ++ "source" ++ "\":" ++ ("\"" ++ toString i ++ "\""), "\"" ++ "target" ++ "\":" ++ ("\"" ++ toString t ++ "\""),
     "\"" ++ "D" ++ "\":" ++ ("\"" ++ ds ++ "\"")] (by simp) (by
      intro x hx
      simp only [List.mem_cons, List.mem_nil_iff, or_false] at hx
      rcases hx with rfl | rfl | rfl
      · exact member_plain P _ _ (by decide) (strVal P _ (allPlain_nat i))
      · exact member_plain P _ _ (by decide) (strVal P _ (allPlain_nat t))
      · exact member_plain P _ _ (by decide) (strVal P _ hD))
  have e' : "{\"source\":\"" ++ toString i ++ "\",\"target\":\"" ++ toString t ++ "\",\"D\":\"" ++ ds ++ "\"}" =
      "{" ++ ",".intercalate ["\"" ++ "source" ++ "\":" ++ ("\"" ++ toString i ++ "\""), "\"" ++ "target" ++ "\":" ++ ("\"" ++ toString t ++ "\""),
     "\"" ++ "D" ++ "\":" ++ ("\"" ++ ds ++ "\"")] ++ "}" := by
    apply str_eq; simp
  rw [e']; exact h

theorem val_linkJson (P : String → Prop) (i : Nat) (e : Nat × Walk.Dir × Bool) : Val P (Export.linkJson i e) := by
  obtain ⟨t, dd, f⟩ := e
  cases dd
  · exact val_linkObj P i t "L" (by decide)
  · exact val_linkObj P i t "R" (by decide)

/-- an array written as `[\n`, the items separated by `,\n`, `\n]` (or `[\n]` when there is none); every item is a
    comma-separated, non-empty group of values -/
theorem val_array (P : String → Prop) (groups : List (List String)) (hne : ∀ g ∈ groups, g ≠ [])
    (hv : ∀ g ∈ groups, ∀ x ∈ g, Val P x) :
    Val P ("[\n" ++ (if (groups.map ",".intercalate).isEmpty then "" else ",\n".intercalate (groups.map ",".intercalate) ++ "\n") ++ "]") := by
  cases groups with
  | nil =>
    have : Val P ("[" ++ "\n" ++ "]") := .arrE ws_nl
    simpa using this
  | cons g0 gs =>
    have hne' : (g0 :: gs).map ",".intercalate ≠ [] := by simp
    have hemp : ((g0 :: gs).map ",".intercalate).isEmpty = false := by simp
    rw [hemp]
    simp only [Bool.false_eq_true, if_false]
    -- move the line breaks in front of the first value of every group
    let lead : List String → List String := fun g => match g with | [] => [] | o :: r => ("\n" ++ o) :: r
    have hlead : ∀ g, g ≠ [] → "\n" ++ ",".intercalate g = ",".intercalate (lead g) := by
      intro g hg
      obtain ⟨o, r, rfl⟩ := List.exists_cons_of_ne_nil hg
      show "\n" ++ ",".intercalate (o :: r) = ",".intercalate (("\n" ++ o) :: r)
      rw [String.intercalate_cons_append]
    have hmap : ((g0 :: gs).map ",".intercalate).map ("\n" ++ ·) = ((g0 :: gs).map lead).map ",".intercalate := by
      rw [List.map_map, List.map_map]
      apply List.map_congr_left
      intro g hg
      exact hlead g (hne g hg)
    have hleadne : ∀ g ∈ (g0 :: gs).map lead, g ≠ [] := by
      intro g hg
      obtain ⟨g', hg', rfl⟩ := List.mem_map.mp hg
      obtain ⟨o, r, rfl⟩ := List.exists_cons_of_ne_nil (hne g' hg')
      simp [lead]
    have htxt : "[\n" ++ (",\n".intercalate ((g0 :: gs).map ",".intercalate) ++ "\n") ++ "]" =
        "[" ++ (",".intercalate ((g0 :: gs).map lead).flatten ++ "\n") ++ "]" := by
      rw [← intercalate_flatten "," _ hleadne, ← hmap, ← nl_intercalate _ hne']
      apply str_eq; simp
    rw [htxt]
    apply Val.arr
    apply elems_of P "\n" ws_nl
    · obtain ⟨o, r, rfl⟩ := List.exists_cons_of_ne_nil (hne g0 (by simp))
      simp [lead]
    · intro x hx
      obtain ⟨g, hg, hxg⟩ := List.mem_flatten.mp hx
      obtain ⟨g', hg', rfl⟩ := List.mem_map.mp hg
      obtain ⟨o, r, rfl⟩ := List.exists_cons_of_ne_nil (hne g' hg')
      simp only [lead, List.mem_cons] at hxg
      rcases hxg with rfl | hxr
      · exact ⟨"\n", o, ws_nl, hv _ hg' o (by simp), rfl⟩
      · exact ⟨"", x, ws_empty, hv _ hg' x (by simp [hxr]), by simp⟩

theorem val_nodeItems (P : String → Prop) {D : Type} (g : Graph.G D) (fmt : D → String) (hfmt : ∀ n ∈ g.nodes, Val P (fmt n.data)) :
    ∀ x ∈ Export.nodeItems g fmt, Val P x := by
  intro x hx
  unfold Export.nodeItems at hx
  simp only at hx
  obtain ⟨y, hy, rfl⟩ := List.mem_map.mp hx
  have hn : y.1 ∈ g.nodes := by
    have := List.mem_zipIdx hy
    exact this.2.2 ▸ List.getElem_mem _
  exact val_nodeItem P _ _ _ _ _ (hfmt y.1 hn)

/-- **C20 (JSON is well-formed).** For every graph (any number of nodes, including none; any extension bytes, so with or
    without links anywhere), every payload rendering whose results are JSON values and every `rest` object whose values
    are JSON values: whenever the writer returns, the document it writes is a JSON text. -/
theorem C20_json_wellformed (P : String → Prop) {D : Type} (g : Graph.G D) (fmt : D → String)
    (rest : Option (List (String × String))) (hfmt : ∀ n ∈ g.nodes, Val P (fmt n.data))
    (hrest : ∀ kvs, rest = some kvs → ∀ kv ∈ kvs, Val P kv.2) (doc : String)
    (h : Export.toJsonRestImp g fmt rest = some doc) : Text P doc := by
  rw [Export.C20_json_writer_eq_document] at h
  unfold Export.jsonDoc at h
  simp only at h
  cases hm : (List.range g.nodes.length).mapM (fun i => Graph.findEdges g i .R) with
  | none => rw [hm] at h; cases h
  | some all =>
    rw [hm] at h
    simp only [Option.some.injEq] at h
    subst h
    -- the two arrays
    have hA1 := val_array P ((Export.nodeItems g fmt).map fun x => [x]) (by
        intro gr hgr; obtain ⟨x, _, rfl⟩ := List.mem_map.mp hgr; simp) (by
        intro gr hgr x hx
        obtain ⟨y, hy, rfl⟩ := List.mem_map.mp hgr
        simp only [List.mem_cons, List.mem_nil_iff, or_false] at hx
        rw [hx]
        exact val_nodeItems P g fmt hfmt y hy)
    have e1 : ((Export.nodeItems g fmt).map fun x => [x]).map ",".intercalate = Export.nodeItems g fmt := by
      rw [List.map_map]
      conv => rhs; rw [← List.map_id (Export.nodeItems g fmt)]
      apply List.map_congr_left
      intro x _
      simp
    rw [e1] at hA1
    have hA2 := val_array P (((all.zipIdx 0).filter fun x => !x.1.isEmpty).map fun x => x.1.map (Export.linkJson x.2)) (by
        intro gr hgr
        obtain ⟨x, hx, rfl⟩ := List.mem_map.mp hgr
        have := (List.mem_filter.mp hx).2
        intro he
        have : x.1 = [] := by simpa using he
        simp [this] at *) (by
        intro gr hgr o ho
        obtain ⟨x, _, rfl⟩ := List.mem_map.mp hgr
        obtain ⟨e, _, rfl⟩ := List.mem_map.mp ho
        exact val_linkJson P _ e)
    have e2 : ((((all.zipIdx 0).filter fun x => !x.1.isEmpty).map fun x => x.1.map (Export.linkJson x.2)).map ",".intercalate) =
        Export.linkGroups all 0 := by
      unfold Export.linkGroups
      rw [List.map_map]; rfl
    rw [e2] at hA2
    generalize (if (Export.nodeItems g fmt).isEmpty = true then "" else ",\n".intercalate (Export.nodeItems g fmt) ++ "\n") = X1 at hA1 ⊢
    generalize (if (Export.linkGroups all 0).isEmpty = true then "" else ",\n".intercalate (Export.linkGroups all 0) ++ "\n") = X2 at hA2 ⊢
    have m1 := member_mk P "\n" "nodes".toList " " _ "" ws_nl (strBody_of_plain _ (by decide)) ws_sp hA1 ws_empty
    cases rest with
    | none =>
      have m2 := member_mk P "\n" "links".toList " " _ "\n\n" ws_nl (strBody_of_plain _ (by decide)) ws_sp hA2 ws_nlnl
      have hv := obj_of_members P [_, _] (by simp) (by
        intro x hx
        simp only [List.mem_cons, List.mem_nil_iff, or_false] at hx
        rcases hx with rfl | rfl
        · exact m1
        · exact m2)
      refine ⟨"", _, "\n", ws_empty, hv, ws_nl, ?_⟩
      apply str_eq; simp
    | some kvs =>
      have m2 := member_mk P "\n" "links".toList " " _ "\n" ws_nl (strBody_of_plain _ (by decide)) ws_sp hA2 ws_nl
      have hv := obj_of_members P (_ :: _ :: kvs.map fun kv => "\n" ++ "\"" ++ String.ofList (Export.jsonEscape kv.1) ++ "\":" ++ " " ++ kv.2 ++ "\n")
        (by simp) (by
        intro x hx
        simp only [List.mem_cons] at hx
        rcases hx with rfl | rfl | hx
        · exact m1
        · exact m2
        · obtain ⟨kv, hkv, rfl⟩ := List.mem_map.mp hx
          exact member_mk P "\n" _ " " kv.2 "\n" ws_nl (strBody_escape _) ws_sp (hrest kvs rfl kv hkv) ws_nl)
      refine ⟨"", _, "\n", ws_empty, hv, ws_nl, ?_⟩
      rw [← join_commas, List.map_cons, List.map_map]
      have ej : (kvs.map ((fun x => "," ++ x) ∘ fun kv => "\n" ++ "\"" ++ String.ofList (Export.jsonEscape kv.1) ++ "\":" ++ " " ++ kv.2 ++ "\n")) =
          kvs.map fun (kv : String × String) => ",\n" ++ Export.jsonStr kv.1 ++ ": " ++ kv.2 ++ "\n" := by
        apply List.map_congr_left
        intro kv _
        unfold Export.jsonStr
        apply str_eq; simp
      rw [ej]
      generalize String.join (kvs.map fun (kv : String × String) => ",\n" ++ Export.jsonStr kv.1 ++ ": " ++ kv.2 ++ "\n") = R
      apply str_eq; simp [String.join_cons]

/-- non-vacuity: the empty graph and a two-node graph with a link satisfy the hypotheses, and the writer returns -/
example : Text (fun _ => False) "{\n\"nodes\": [\n],\n\"links\": [\n]\n\n}\n" :=
  C20_json_wellformed (fun _ => False) (⟨4, [], false⟩ : Graph.G Nat) (fun d => toString d) none
    (fun n hn => by cases hn) (fun kvs h => by cases h) _ (by decide)

def exG : Graph.G Nat := ⟨4, [⟨[0, 1, 2, 3], ⟨0x40⟩, 7⟩, ⟨[1, 2, 3, 2], ⟨0x01⟩, 9⟩], false⟩

example : (Export.toJsonRestImp exG (fun d => toString d) (some [("a\"b", "1")])).isSome = true := by decide

example (doc : String) (h : Export.toJsonRestImp exG (fun d => toString d) (some [("a\"b", "1")]) = some doc) :
    Text (fun _ => False) doc :=
  C20_json_wellformed (fun _ => False) exG (fun d => toString d) (some [("a\"b", "1")])
    (fun n _ => .num (natLit n.data)) (fun kvs h kv hkv => by
      cases h
      simp only [List.mem_cons, List.mem_nil_iff, or_false] at hkv
      subst hkv
      exact .num (natLit 1)) doc h

end Json
