import Dbg.Model.Export
import Dbg.Spec.C03
import Dbg.Lemmas.GraphSym
import Dbg.Lemmas.GInvCompress
/-! # C20 — Exports and persistence are faithful

Proved for the model of the GFA export (after the repair of D6): every `L` record written for a node is one of the
edges reported from the corresponding side of that node (soundness), and on a graph whose edge lists are symmetric
every adjacency — between different nodes, a circular self-link, and hairpin self-links on either side — is
written at least once (completeness).  The JSON text is compared verbatim with the model and parsed with
`serde_json` by the harness; serde round trips are tested, not proved (derived code is outside the model). -/
namespace Export
open Compress (Seq Node)
open Walk (Dir)
open Graph
variable {D : Type}

/-- side of the source node a record leaves from -/
def GfaLink.side (l : GfaLink) : Dir := if l.plus then .R else .L

/-- **GFA soundness.** Every link written for node `id` is an adjacency of the graph, reported from the side it names. -/
theorem gfa_link_sound (g : G D) (id : Nat) (ls : List GfaLink) (h : nodeLinks g id = some ls) (l : GfaLink) (hl : l ∈ ls) :
    l.src = id ∧ ∃ es f, findEdges g id l.side = some es ∧ (l.dst, l.toSide, f) ∈ es := by
  unfold nodeLinks at h
  cases hL : findEdges g id .L with
  | none => simp [hL] at h
  | some le =>
    cases hR : findEdges g id .R with
    | none => simp [hL, hR] at h
    | some re =>
      simp only [hL, hR, Option.some.injEq] at h
      subst h
      rcases List.mem_append.mp hl with h1 | h1
      · obtain ⟨e, he, rfl⟩ := List.mem_map.mp h1
        exact ⟨rfl, le, e.2.2, by simp [GfaLink.side, hL], (List.mem_filter.mp he).1⟩
      · obtain ⟨e, he, rfl⟩ := List.mem_map.mp h1
        exact ⟨rfl, re, e.2.2, by simp [GfaLink.side, hR], (List.mem_filter.mp he).1⟩

/-- all records of the export -/
def allLinks (g : G D) : Option (List GfaLink) := ((List.range g.nodes.length).mapM (nodeLinks g)).map List.flatten

/-- the edge lists are symmetric: if `(v, s)` is reported from side `d` of `u`, then `(u, d)` is reported from side `s` of `v` -/
def EdgeSym (g : G D) : Prop :=
  ∀ u d v s f es, findEdges g u d = some es → (v, s, f) ∈ es →
    ∃ es' f', findEdges g v s = some es' ∧ (u, d, f') ∈ es'

/-- a record for the adjacency between port `(u,d)` and port `(v,s)`, written from either end -/
def Listed (ls : List GfaLink) (u : Nat) (d : Dir) (v : Nat) (s : Dir) : Prop :=
  (∃ l ∈ ls, l.src = u ∧ l.side = d ∧ l.dst = v ∧ l.toSide = s) ∨ (∃ l ∈ ls, l.src = v ∧ l.side = s ∧ l.dst = u ∧ l.toSide = d)

theorem mem_nodeLinks_left (g : G D) (id : Nat) (ls : List GfaLink) (h : nodeLinks g id = some ls)
    (es : List Edge) (he : findEdges g id .L = some es) (e : Edge) (hm : e ∈ es) (hge : e.1 ≥ id) :
    (⟨id, false, e.1, e.2.1⟩ : GfaLink) ∈ ls := by
  unfold nodeLinks at h
  cases hR : findEdges g id .R with
  | none => simp [he, hR] at h
  | some re =>
    simp only [he, hR, Option.some.injEq] at h
    subst h
    exact List.mem_append_left _ (List.mem_map.mpr ⟨e, List.mem_filter.mpr ⟨hm, by simpa using hge⟩, rfl⟩)

theorem mem_nodeLinks_right (g : G D) (id : Nat) (ls : List GfaLink) (h : nodeLinks g id = some ls)
    (es : List Edge) (he : findEdges g id .R = some es) (e : Edge) (hm : e ∈ es) (hc : e.1 > id ∨ (e.1 = id ∧ e.2.1 = .R)) :
    (⟨id, true, e.1, e.2.1⟩ : GfaLink) ∈ ls := by
  unfold nodeLinks at h
  cases hL : findEdges g id .L with
  | none => simp [hL] at h
  | some le =>
    simp only [hL, he, Option.some.injEq] at h
    subst h
    exact List.mem_append_right _ (List.mem_map.mpr ⟨e, List.mem_filter.mpr ⟨hm, by simpa using hc⟩, rfl⟩)

theorem mapM_some_mem {α β : Type} (f : α → Option β) :
    ∀ (l : List α) (r : List β), l.mapM f = some r → ∀ x ∈ l, ∃ y ∈ r, f x = some y := by
  intro l
  induction l with
  | nil => intro r _ x hx; simp at hx
  | cons a t ih =>
    intro r h x hx
    rw [List.mapM_cons] at h
    cases hfa : f a with
    | none => simp [hfa] at h
    | some b =>
      cases ht : t.mapM f with
      | none => simp [hfa, ht] at h
      | some bs =>
        simp only [hfa, ht, Option.bind_eq_bind, Option.bind_some, Option.pure_def, Option.some.injEq] at h
        subst h
        rcases List.mem_cons.mp hx with rfl | hx'
        · exact ⟨b, by simp, hfa⟩
        · obtain ⟨y, hy, e⟩ := ih bs ht x hx'
          exact ⟨y, by simp [hy], e⟩

theorem mem_allLinks (g : G D) (all : List GfaLink) (h : allLinks g = some all) (id : Nat) (hid : id < g.nodes.length)
    (ls : List GfaLink) (hn : nodeLinks g id = some ls) (l : GfaLink) (hl : l ∈ ls) : l ∈ all := by
  unfold allLinks at h
  cases hm : (List.range g.nodes.length).mapM (nodeLinks g) with
  | none => simp [hm] at h
  | some lss =>
    simp only [hm, Option.map_some, Option.some.injEq] at h
    subst h
    obtain ⟨y, hy, e⟩ := mapM_some_mem (nodeLinks g) _ lss hm id (List.mem_range.mpr hid)
    rw [hn] at e
    simp only [Option.some.injEq] at e
    subst e
    exact List.mem_flatten.mpr ⟨ls, hy, hl⟩

/-- edges are only reported to existing nodes -/
def EdgesInRange (g : G D) : Prop :=
  ∀ u d es, findEdges g u d = some es → ∀ e ∈ es, e.1 < g.nodes.length

/-- **GFA completeness.** On a graph with symmetric edge lists every adjacency — between two nodes, a circular
    self-link, a hairpin self-link on the left or on the right side — is written at least once. -/
theorem gfa_links_complete_of_back (g : G D) (all : List GfaLink) (h : allLinks g = some all)
    (u : Nat) (d : Dir) (v : Nat) (s : Dir) (f : Bool) (es : List Edge) (hu : u < g.nodes.length) (hv : v < g.nodes.length)
    (he : findEdges g u d = some es) (hm : (v, s, f) ∈ es)
    (hback : ∃ es' f', findEdges g v s = some es' ∧ (u, d, f') ∈ es') : Listed all u d v s := by
  have nl : ∀ id, id < g.nodes.length → ∃ ls, nodeLinks g id = some ls := by
    intro id hid
    unfold allLinks at h
    cases hmm : (List.range g.nodes.length).mapM (nodeLinks g) with
    | none => simp [hmm] at h
    | some lss =>
      obtain ⟨y, _, e⟩ := mapM_some_mem (nodeLinks g) _ lss hmm id (List.mem_range.mpr hid)
      exact ⟨y, e⟩
  obtain ⟨lsu, hlu⟩ := nl u hu
  obtain ⟨lsv, hlv⟩ := nl v hv
  -- the record written from `u`'s side, when the filter admits it
  have fromU : (d = .L → v ≥ u → Listed all u d v s) ∧ (d = .R → (v > u ∨ (v = u ∧ s = .R)) → Listed all u d v s) := by
    constructor
    · intro hd hge
      subst hd
      have := mem_nodeLinks_left g u lsu hlu es he (v, s, f) hm hge
      exact Or.inl ⟨_, mem_allLinks g all h u hu lsu hlu _ this, rfl, by simp [GfaLink.side], rfl, rfl⟩
    · intro hd hc
      subst hd
      have := mem_nodeLinks_right g u lsu hlu es he (v, s, f) hm hc
      exact Or.inl ⟨_, mem_allLinks g all h u hu lsu hlu _ this, rfl, by simp [GfaLink.side], rfl, rfl⟩
  -- the reciprocal edge, reported from `v`
  obtain ⟨es', f', he', hm'⟩ := hback
  have fromV : (s = .L → u ≥ v → Listed all u d v s) ∧ (s = .R → (u > v ∨ (u = v ∧ d = .R)) → Listed all u d v s) := by
    constructor
    · intro hs hge
      subst hs
      have := mem_nodeLinks_left g v lsv hlv es' he' (u, d, f') hm' hge
      exact Or.inr ⟨_, mem_allLinks g all h v hv lsv hlv _ this, rfl, by simp [GfaLink.side], rfl, rfl⟩
    · intro hs hc
      subst hs
      have := mem_nodeLinks_right g v lsv hlv es' he' (u, d, f') hm' hc
      exact Or.inr ⟨_, mem_allLinks g all h v hv lsv hlv _ this, rfl, by simp [GfaLink.side], rfl, rfl⟩
  -- case analysis on the order of the two node ids and on the sides
  rcases Nat.lt_trichotomy u v with hlt | heq | hgt
  · cases d with
    | L => exact fromU.1 rfl (by omega)
    | R => exact fromU.2 rfl (Or.inl hlt)
  · subst heq
    cases d with
    | L => exact fromU.1 rfl (by omega)
    | R =>
      cases s with
      | R => exact fromU.2 rfl (Or.inr ⟨rfl, rfl⟩)
      | L => exact fromV.1 rfl (by omega)
  · cases s with
    | L => exact fromV.1 rfl (by omega)
    | R => exact fromV.2 rfl (Or.inl hgt)

theorem gfa_links_complete (g : G D) (hsym : EdgeSym g) (hrange : EdgesInRange g) (all : List GfaLink) (h : allLinks g = some all)
    (u : Nat) (d : Dir) (v : Nat) (s : Dir) (f : Bool) (es : List Edge) (hu : u < g.nodes.length)
    (he : findEdges g u d = some es) (hm : (v, s, f) ∈ es) : Listed all u d v s :=
  gfa_links_complete_of_back g all h u d v s f es hu (hrange u d es he (v, s, f) hm) he hm (hsym u d v s f es he hm)

/-- **GFA completeness from the node-level invariant.** In a graph satisfying `GInv`, every adjacency between two nodes
    neither of which is a single-k-mer node (the two sides of a palindromic one are indistinguishable) is written. -/
theorem gfa_links_complete_ginv (g : G D) (hg : GInv g) (all : List GfaLink) (h : allLinks g = some all)
    (u : Nat) (d : Dir) (v : Nat) (s : Dir) (f : Bool) (es : List Edge)
    (he : findEdges g u d = some es) (hm : (v, s, f) ∈ es)
    (hnu : ∀ nu, g.nodes[u]? = some nu → nu.seq.length ≠ g.K) (hnv : ¬ PalNode g v) : Listed all u d v s := by
  obtain ⟨hus, hvs⟩ := findEdges_nodes g u d es he
  have hu : u < g.nodes.length := by
    obtain ⟨n, hn⟩ := Option.isSome_iff_exists.mp hus; exact getElem?_lt hn
  have hv : v < g.nodes.length := by
    obtain ⟨n, hn⟩ := Option.isSome_iff_exists.mp (hvs _ hm); exact getElem?_lt hn
  obtain ⟨s', es', d', f', he', hm', hs', hd'⟩ := edges_symmetric g hg u d es he v s f hm
  have e1 : s' = s := by rcases hs' with h1 | h1; exact h1; exact absurd h1 hnv
  have e2 : d' = d := by
    rcases hd' with h1 | ⟨nu, h1, h2⟩
    · exact h1
    · exact absurd h2 (hnu nu h1)
  subst e1; subst e2
  exact gfa_links_complete_of_back g all h u d' v s' f es hu hv he hm ⟨es', f', he', hm'⟩

/-- **GFA completeness for built graphs.** In the export of any graph `compress_kmers` builds from a well-formed
    reciprocal table, every adjacency between nodes of more than one k-mer is written (exactly once, with
    `gfa_no_duplicate`). -/
theorem gfa_complete_of_compress {T : Compress.Table D} {K : Nat} {st : Bool} {join : D → D → Bool} (reduce : D → D → D)
    (wf : Compress.WF T K st) (hes2 : Filter.ExtSym2 T st) (hj : ∀ a b, join a b = join b a)
    (out : List (Node D × List Nat)) (ho : Compress.compressKmersC T st join reduce = some out)
    (all : List GfaLink) (h : allLinks (⟨K, out.map (·.1), st⟩ : G D) = some all)
    (u : Nat) (d : Dir) (v : Nat) (s : Dir) (f : Bool) (es : List Edge)
    (he : findEdges (⟨K, out.map (·.1), st⟩ : G D) u d = some es) (hm : (v, s, f) ∈ es)
    (hnu : ∀ nu, (out.map (·.1))[u]? = some nu → nu.seq.length ≠ K) (hnv : ¬ PalNode (⟨K, out.map (·.1), st⟩ : G D) v) :
    Listed all u d v s :=
  gfa_links_complete_ginv _ (Compress.compress_ginv reduce wf hes2 hj out ho) all h u d v s f es he hm hnu hnv

/-- two records name the same pair of ports -/
def SamePorts (a b : GfaLink) : Prop :=
  (a.src = b.src ∧ a.side = b.side ∧ a.dst = b.dst ∧ a.toSide = b.toSide) ∨
  (a.src = b.dst ∧ a.side = b.toSide ∧ a.dst = b.src ∧ a.toSide = b.side)

theorem extend_inj (t : Seq) (b1 b2 : Compress.Base) (d : Dir) (h : Compress.extend t b1 d = Compress.extend t b2 d) : b1 = b2 := by
  cases d with
  | L =>
    have : Compress.extendLeft t b1 = Compress.extendLeft t b2 := h
    unfold Compress.extendLeft at this
    exact (List.cons.inj this).1
  | R =>
    have : Compress.extendRight t b1 = Compress.extendRight t b2 := h
    unfold Compress.extendRight at this
    have := List.append_cancel_left this
    exact (List.cons.inj this).1

/-- the edges reported from one side of a node go to pairwise different ports (for every graph) -/
theorem edges_ports_nodup (g : G D) (u : Nat) (d : Dir) (es : List Edge) (he : findEdges g u d = some es) :
    (es.map fun e => (e.1, e.2.1)).Nodup := by
  unfold findEdges at he
  cases hn : g.nodes[u]? with
  | none => rw [hn] at he; cases he
  | some nd =>
    rw [hn] at he
    simp only [Option.some.injEq] at he
    subst he
    -- distinct bases resolve to distinct ports
    have key : ∀ (bs : List Compress.Base), bs.Nodup →
        ((bs.filterMap fun b => if nd.exts.hasExt d b.val then findLink g (Compress.extend (termKmer g.K nd.seq d) b d) d else none).map
          fun e => (e.1, e.2.1)).Nodup := by
      intro bs
      induction bs with
      | nil => intro _; simp
      | cons b t ih =>
        intro hnd
        rw [List.nodup_cons] at hnd
        rw [List.filterMap_cons]
        cases hb : (if nd.exts.hasExt d b.val then findLink g (Compress.extend (termKmer g.K nd.seq d) b d) d else none) with
        | none => exact ih hnd.2
        | some e =>
          simp only [List.map_cons, List.nodup_cons]
          refine ⟨?_, ih hnd.2⟩
          intro hmem
          obtain ⟨e', he', hpe⟩ := List.mem_map.mp hmem
          rw [List.mem_filterMap] at he'
          obtain ⟨b', hb't, hb'⟩ := he'
          -- both bases resolved to the same port: same flip, hence the same extended k-mer
          have hl1 : findLink g (Compress.extend (termKmer g.K nd.seq d) b d) d = some e := by
            split at hb
            · exact hb
            · cases hb
          have hl2 : findLink g (Compress.extend (termKmer g.K nd.seq d) b' d) d = some e' := by
            split at hb'
            · exact hb'
            · cases hb'
          obtain ⟨n1, hn1, ht1, hf10, hf11⟩ := findLink_sound g _ _ e.1 e.2.1 e.2.2 hl1
          obtain ⟨n2, hn2, ht2, hf20, hf21⟩ := findLink_sound g _ _ e'.1 e'.2.1 e'.2.2 hl2
          simp only [Prod.mk.injEq] at hpe
          have hflip : e'.2.2 = e.2.2 := by
            cases h1 : e.2.2 <;> cases h2 : e'.2.2
            · rfl
            · have a := hf10 h1; have b := (hf21 h2).1; rw [hpe.2, a] at b; cases d <;> simp [Dir.flip] at b
            · have a := (hf11 h1).1; have b := hf20 h2; rw [hpe.2, a] at b; cases d <;> simp [Dir.flip] at b
            · rfl
          rw [hpe.1] at hn2
          rw [hn1] at hn2; cases hn2
          rw [hpe.2, hflip] at ht2
          have hkm : Compress.extend (termKmer g.K nd.seq d) b d = Compress.extend (termKmer g.K nd.seq d) b' d := by
            cases hf : e.2.2
            · rw [hf] at ht1 ht2; simp only [Bool.false_eq_true, if_false] at ht1 ht2; rw [← ht1, ← ht2]
            · rw [hf] at ht1 ht2; simp only [if_true] at ht1 ht2
              have := ht1.symm.trans ht2
              have h' := congrArg Compress.rc this
              rwa [Compress.rc_rc, Compress.rc_rc] at h'
          have := extend_inj _ _ _ _ hkm
          subst this
          exact hnd.1 hb't
    exact key base4 (by decide)

theorem mapM_some_getElem {α β : Type} (f : α → Option β) :
    ∀ (l : List α) (r : List β), l.mapM f = some r → r.length = l.length ∧ ∀ (i : Nat) (h1 : i < l.length) (h2 : i < r.length), f l[i] = some r[i] := by
  intro l
  induction l with
  | nil => intro r h; simp at h; subst h; exact ⟨rfl, fun i h1 => by simp at h1⟩
  | cons a t ih =>
    intro r h
    rw [List.mapM_cons] at h
    cases hfa : f a with
    | none => simp [hfa] at h
    | some b =>
      cases ht : t.mapM f with
      | none => simp [hfa, ht] at h
      | some bs =>
        simp only [hfa, ht, Option.bind_eq_bind, Option.bind_some, Option.pure_def, Option.some.injEq] at h
        subst h
        obtain ⟨hl, hi⟩ := ih bs ht
        refine ⟨by simp [hl], fun i h1 h2 => ?_⟩
        cases i with
        | zero => simpa using hfa
        | succ i => simpa using hi i (by simpa using h1) (by simpa using h2)

/-- what a record of node `id` looks like -/
theorem nodeLinks_shape (g : G D) (id : Nat) (ls : List GfaLink) (h : nodeLinks g id = some ls) (l : GfaLink) (hl : l ∈ ls) :
    l.src = id ∧ (l.plus = false → l.dst ≥ id) ∧ (l.plus = true → (l.dst > id ∨ (l.dst = id ∧ l.toSide = .R))) := by
  unfold nodeLinks at h
  cases hL : findEdges g id .L with
  | none => simp [hL] at h
  | some le =>
    cases hR : findEdges g id .R with
    | none => simp [hL, hR] at h
    | some re =>
      simp only [hL, hR, Option.some.injEq] at h
      subst h
      rcases List.mem_append.mp hl with h1 | h1
      · obtain ⟨e, he, rfl⟩ := List.mem_map.mp h1
        have := (List.mem_filter.mp he).2
        exact ⟨rfl, fun _ => by simpa using this, fun hc => by simp at hc⟩
      · obtain ⟨e, he, rfl⟩ := List.mem_map.mp h1
        have := (List.mem_filter.mp he).2
        exact ⟨rfl, fun hc => by simp at hc, fun _ => by simpa using this⟩

/-- within the records of one node no port pair is named twice -/
theorem nodeLinks_pairwise (g : G D) (id : Nat) (ls : List GfaLink) (h : nodeLinks g id = some ls) :
    ls.Pairwise (fun a b => ¬ SamePorts a b) := by
  have hshape := nodeLinks_shape g id ls h
  unfold nodeLinks at h
  cases hL : findEdges g id .L with
  | none => simp [hL] at h
  | some le =>
    cases hR : findEdges g id .R with
    | none => simp [hL, hR] at h
    | some re =>
      simp only [hL, hR, Option.some.injEq] at h
      have ndL := edges_ports_nodup g id .L le hL
      have ndR := edges_ports_nodup g id .R re hR
      -- records made from a duplicate-free list of edges on one side
      have side : ∀ (es : List Edge) (plus : Bool), (es.map fun e => (e.1, e.2.1)).Nodup →
          (es.map fun e => (⟨id, plus, e.1, e.2.1⟩ : GfaLink)).Pairwise (fun a b => ¬ SamePorts a b) := by
        intro es plus hnd
        rw [List.pairwise_map]
        rw [List.Nodup, List.pairwise_map] at hnd
        apply hnd.imp
        intro e1 e2 hne hsp
        rcases hsp with ⟨_, _, h3, h4⟩ | ⟨h1, h2, h3, h4⟩
        · exact hne (by simp only at h3 h4; exact Prod.ext h3 h4)
        · simp only [GfaLink.side] at h1 h2 h3 h4
          exact hne (by
            apply Prod.ext
            · show e1.1 = e2.1; rw [h3, ← h1]
            · show e1.2.1 = e2.2.1; rw [h4, ← h2])
      subst h
      rw [List.pairwise_append]
      refine ⟨side _ false (ndL.sublist ((List.filter_sublist).map _)), side _ true (ndR.sublist ((List.filter_sublist).map _)), ?_⟩
      intro a ha b hb hsp
      obtain ⟨ea, hea, rfl⟩ := List.mem_map.mp ha
      obtain ⟨eb, heb, rfl⟩ := List.mem_map.mp hb
      have hq := (List.mem_filter.mp heb).2
      rcases hsp with ⟨_, h2, _, _⟩ | ⟨h1, h2, h3, h4⟩
      · simp [GfaLink.side] at h2
      · simp only [GfaLink.side, if_true, Bool.false_eq_true, if_false] at h1 h2 h3 h4
        -- the right-side record would be `(id, R) -> (id, L)`, which the right-side filter never writes
        simp only [decide_eq_true_eq] at hq
        rcases hq with hq | ⟨_, hq⟩
        · omega
        · rw [← h2] at hq; cases hq

/-- **GFA: no adjacency twice.** For every graph, no two `L` records of the export name the same pair of ports (in
    either order): a link between different nodes is written by the lower-numbered node only, a circular self-link from
    the left side only, hairpin self-links once from their own side. -/
theorem gfa_no_duplicate (g : G D) (all : List GfaLink) (h : allLinks g = some all) :
    all.Pairwise (fun a b => ¬ SamePorts a b) := by
  unfold allLinks at h
  cases hm : (List.range g.nodes.length).mapM (nodeLinks g) with
  | none => simp [hm] at h
  | some lss =>
    simp only [hm, Option.map_some, Option.some.injEq] at h
    subst h
    obtain ⟨hlen, hget⟩ := mapM_some_getElem (nodeLinks g) _ lss hm
    simp only [List.length_range] at hlen
    have hnode : ∀ (i : Nat) (hi : i < lss.length), nodeLinks g i = some lss[i] := by
      intro i hi
      have := hget i (by simp; omega) hi
      simpa using this
    rw [List.pairwise_flatten]
    constructor
    · intro ls hls
      obtain ⟨i, hi, rfl⟩ := List.getElem_of_mem hls
      exact nodeLinks_pairwise g i _ (hnode i hi)
    · rw [List.pairwise_iff_getElem]
      intro i j hi hj hij a ha b hb hsp
      obtain ⟨sa, _, _⟩ := nodeLinks_shape g i _ (hnode i hi) a ha
      obtain ⟨sb, fb0, fb1⟩ := nodeLinks_shape g j _ (hnode j hj) b hb
      rcases hsp with ⟨h1, _, _, _⟩ | ⟨h1, _, h3, _⟩
      · omega
      · -- `b` would be written by the higher-numbered node towards the lower-numbered one
        cases hp : b.plus with
        | false => have := fb0 hp; omega
        | true =>
          rcases fb1 hp with h' | ⟨h', _⟩
          · omega
          · omega

/-- one `S` record per node, in order, with the node's sequence (by construction of `write_gfa`) -/
theorem gfa_segment (g : G D) (id : Nat) (txt : String) (h : nodeToGfa g id = some txt) :
    ∃ nd ls, g.nodes[id]? = some nd ∧ nodeLinks g id = some ls ∧
      txt = s!"S\t{id}\t{seqStr nd.seq}\n" ++ String.join (ls.map (renderLink g.K)) := by
  unfold nodeToGfa at h
  cases h1 : g.nodes[id]? with
  | none => simp [h1] at h
  | some nd =>
    cases h2 : nodeLinks g id with
    | none => simp [h1, h2] at h
    | some ls =>
      simp only [h1, h2, Option.some.injEq] at h
      exact ⟨nd, ls, rfl, rfl, h.symm⟩

end Export
