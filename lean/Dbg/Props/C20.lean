import Dbg.Model.Export
import Dbg.Spec.C03
/-! # C20 — Exports and persistence are faithful

Proved for the model of the GFA export (after the repair of D6): every `L` record written for a node is one of the
edges reported from the corresponding side of that node (soundness), and on a graph whose edge lists are symmetric
every adjacency — between different nodes, a circular self-link, and hairpin self-links on either side — is
written at least once (completeness).  The JSON text is compared verbatim with the model and parsed with
`serde_json` by the harness; serde round trips are tested, not proved (derived code is outside the model). -/
namespace Export
open Compress (Seq Node)
open Walk (Dir)
open Graph
variable {D : Type}

/-- side of the source node a record leaves from -/
def GfaLink.side (l : GfaLink) : Dir := if l.plus then .R else .L

/-- **GFA soundness.** Every link written for node `id` is an adjacency of the graph, reported from the side it names. -/
theorem gfa_link_sound (g : G D) (id : Nat) (ls : List GfaLink) (h : nodeLinks g id = some ls) (l : GfaLink) (hl : l ∈ ls) :
    l.src = id ∧ ∃ es f, findEdges g id l.side = some es ∧ (l.dst, l.toSide, f) ∈ es := by
  unfold nodeLinks at h
  cases hL : findEdges g id .L with
  | none => simp [hL] at h
  | some le =>
    cases hR : findEdges g id .R with
    | none => simp [hL, hR] at h
    | some re =>
      simp only [hL, hR, Option.some.injEq] at h
      subst h
      rcases List.mem_append.mp hl with h1 | h1
      · obtain ⟨e, he, rfl⟩ := List.mem_map.mp h1
        exact ⟨rfl, le, e.2.2, by simp [GfaLink.side, hL], (List.mem_filter.mp he).1⟩
      · obtain ⟨e, he, rfl⟩ := List.mem_map.mp h1
        exact ⟨rfl, re, e.2.2, by simp [GfaLink.side, hR], (List.mem_filter.mp he).1⟩

/-- all records of the export -/
def allLinks (g : G D) : Option (List GfaLink) := ((List.range g.nodes.length).mapM (nodeLinks g)).map List.flatten

/-- the edge lists are symmetric: if `(v, s)` is reported from side `d` of `u`, then `(u, d)` is reported from side `s` of `v` -/
def EdgeSym (g : G D) : Prop :=
  ∀ u d v s f es, findEdges g u d = some es → (v, s, f) ∈ es →
    ∃ es' f', findEdges g v s = some es' ∧ (u, d, f') ∈ es'

/-- a record for the adjacency between port `(u,d)` and port `(v,s)`, written from either end -/
def Listed (ls : List GfaLink) (u : Nat) (d : Dir) (v : Nat) (s : Dir) : Prop :=
  (∃ l ∈ ls, l.src = u ∧ l.side = d ∧ l.dst = v ∧ l.toSide = s) ∨ (∃ l ∈ ls, l.src = v ∧ l.side = s ∧ l.dst = u ∧ l.toSide = d)

theorem mem_nodeLinks_left (g : G D) (id : Nat) (ls : List GfaLink) (h : nodeLinks g id = some ls)
    (es : List Edge) (he : findEdges g id .L = some es) (e : Edge) (hm : e ∈ es) (hge : e.1 ≥ id) :
    (⟨id, false, e.1, e.2.1⟩ : GfaLink) ∈ ls := by
  unfold nodeLinks at h
  cases hR : findEdges g id .R with
  | none => simp [he, hR] at h
  | some re =>
    simp only [he, hR, Option.some.injEq] at h
    subst h
    exact List.mem_append_left _ (List.mem_map.mpr ⟨e, List.mem_filter.mpr ⟨hm, by simpa using hge⟩, rfl⟩)

theorem mem_nodeLinks_right (g : G D) (id : Nat) (ls : List GfaLink) (h : nodeLinks g id = some ls)
    (es : List Edge) (he : findEdges g id .R = some es) (e : Edge) (hm : e ∈ es) (hc : e.1 > id ∨ (e.1 = id ∧ e.2.1 = .R)) :
    (⟨id, true, e.1, e.2.1⟩ : GfaLink) ∈ ls := by
  unfold nodeLinks at h
  cases hL : findEdges g id .L with
  | none => simp [hL] at h
  | some le =>
    simp only [hL, he, Option.some.injEq] at h
    subst h
    exact List.mem_append_right _ (List.mem_map.mpr ⟨e, List.mem_filter.mpr ⟨hm, by simpa using hc⟩, rfl⟩)

theorem mapM_some_mem {α β : Type} (f : α → Option β) :
    ∀ (l : List α) (r : List β), l.mapM f = some r → ∀ x ∈ l, ∃ y ∈ r, f x = some y := by
  intro l
  induction l with
  | nil => intro r _ x hx; simp at hx
  | cons a t ih =>
    intro r h x hx
    rw [List.mapM_cons] at h
    cases hfa : f a with
    | none => simp [hfa] at h
    | some b =>
      cases ht : t.mapM f with
      | none => simp [hfa, ht] at h
      | some bs =>
        simp only [hfa, ht, Option.bind_eq_bind, Option.bind_some, Option.pure_def, Option.some.injEq] at h
        subst h
        rcases List.mem_cons.mp hx with rfl | hx'
        · exact ⟨b, by simp, hfa⟩
        · obtain ⟨y, hy, e⟩ := ih bs ht x hx'
          exact ⟨y, by simp [hy], e⟩

theorem mem_allLinks (g : G D) (all : List GfaLink) (h : allLinks g = some all) (id : Nat) (hid : id < g.nodes.length)
    (ls : List GfaLink) (hn : nodeLinks g id = some ls) (l : GfaLink) (hl : l ∈ ls) : l ∈ all := by
  unfold allLinks at h
  cases hm : (List.range g.nodes.length).mapM (nodeLinks g) with
  | none => simp [hm] at h
  | some lss =>
    simp only [hm, Option.map_some, Option.some.injEq] at h
    subst h
    obtain ⟨y, hy, e⟩ := mapM_some_mem (nodeLinks g) _ lss hm id (List.mem_range.mpr hid)
    rw [hn] at e
    simp only [Option.some.injEq] at e
    subst e
    exact List.mem_flatten.mpr ⟨ls, hy, hl⟩

/-- edges are only reported to existing nodes -/
def EdgesInRange (g : G D) : Prop :=
  ∀ u d es, findEdges g u d = some es → ∀ e ∈ es, e.1 < g.nodes.length

/-- **GFA completeness.** On a graph with symmetric edge lists every adjacency — between two nodes, a circular
    self-link, a hairpin self-link on the left or on the right side — is written at least once. -/
theorem gfa_links_complete (g : G D) (hsym : EdgeSym g) (hrange : EdgesInRange g) (all : List GfaLink) (h : allLinks g = some all)
    (u : Nat) (d : Dir) (v : Nat) (s : Dir) (f : Bool) (es : List Edge) (hu : u < g.nodes.length)
    (he : findEdges g u d = some es) (hm : (v, s, f) ∈ es) : Listed all u d v s := by
  have hv : v < g.nodes.length := hrange u d es he (v, s, f) hm
  have nl : ∀ id, id < g.nodes.length → ∃ ls, nodeLinks g id = some ls := by
    intro id hid
    unfold allLinks at h
    cases hmm : (List.range g.nodes.length).mapM (nodeLinks g) with
    | none => simp [hmm] at h
    | some lss =>
      obtain ⟨y, _, e⟩ := mapM_some_mem (nodeLinks g) _ lss hmm id (List.mem_range.mpr hid)
      exact ⟨y, e⟩
  obtain ⟨lsu, hlu⟩ := nl u hu
  obtain ⟨lsv, hlv⟩ := nl v hv
  -- the record written from `u`'s side, when the filter admits it
  have fromU : (d = .L → v ≥ u → Listed all u d v s) ∧ (d = .R → (v > u ∨ (v = u ∧ s = .R)) → Listed all u d v s) := by
    constructor
    · intro hd hge
      subst hd
      have := mem_nodeLinks_left g u lsu hlu es he (v, s, f) hm hge
      exact Or.inl ⟨_, mem_allLinks g all h u hu lsu hlu _ this, rfl, by simp [GfaLink.side], rfl, rfl⟩
    · intro hd hc
      subst hd
      have := mem_nodeLinks_right g u lsu hlu es he (v, s, f) hm hc
      exact Or.inl ⟨_, mem_allLinks g all h u hu lsu hlu _ this, rfl, by simp [GfaLink.side], rfl, rfl⟩
  -- the reciprocal edge, reported from `v`
  obtain ⟨es', f', he', hm'⟩ := hsym u d v s f es he hm
  have fromV : (s = .L → u ≥ v → Listed all u d v s) ∧ (s = .R → (u > v ∨ (u = v ∧ d = .R)) → Listed all u d v s) := by
    constructor
    · intro hs hge
      subst hs
      have := mem_nodeLinks_left g v lsv hlv es' he' (u, d, f') hm' hge
      exact Or.inr ⟨_, mem_allLinks g all h v hv lsv hlv _ this, rfl, by simp [GfaLink.side], rfl, rfl⟩
    · intro hs hc
      subst hs
      have := mem_nodeLinks_right g v lsv hlv es' he' (u, d, f') hm' hc
      exact Or.inr ⟨_, mem_allLinks g all h v hv lsv hlv _ this, rfl, by simp [GfaLink.side], rfl, rfl⟩
  -- case analysis on the order of the two node ids and on the sides
  rcases Nat.lt_trichotomy u v with hlt | heq | hgt
  · cases d with
    | L => exact fromU.1 rfl (by omega)
    | R => exact fromU.2 rfl (Or.inl hlt)
  · subst heq
    cases d with
    | L => exact fromU.1 rfl (by omega)
    | R =>
      cases s with
      | R => exact fromU.2 rfl (Or.inr ⟨rfl, rfl⟩)
      | L => exact fromV.1 rfl (by omega)
  · cases s with
    | L => exact fromV.1 rfl (by omega)
    | R => exact fromV.2 rfl (Or.inl hgt)

/-- one `S` record per node, in order, with the node's sequence (by construction of `write_gfa`) -/
theorem gfa_segment (g : G D) (id : Nat) (txt : String) (h : nodeToGfa g id = some txt) :
    ∃ nd ls, g.nodes[id]? = some nd ∧ nodeLinks g id = some ls ∧
      txt = s!"S\t{id}\t{seqStr nd.seq}\n" ++ String.join (ls.map (renderLink g.K)) := by
  unfold nodeToGfa at h
  cases h1 : g.nodes[id]? with
  | none => simp [h1] at h
  | some nd =>
    cases h2 : nodeLinks g id with
    | none => simp [h1, h2] at h
    | some ls =>
      simp only [h1, h2, Option.some.injEq] at h
      exact ⟨nd, ls, rfl, rfl, h.symm⟩

end Export
