import Dbg.Props.C20
/-! # C20 (further exports) — the dot export and `Debug` of a node

`to_dot` and `Debug for Node` are not named by the property; they are modelled (`Export.toDot`, `Export.nodeDebug`) and
compared with the crate on every export request, and the arrows of the dot text are characterised here. -/
namespace Export
open Compress (Seq Base Exts rc Node)
open Walk (Dir)
open Graph
variable {D : Type}

/-- the arrow that stands for the edge `(v, s)` reported from side `d` of `u`: into `u` for a left edge, out of `u` for a right edge -/
def arrowOf (u : Nat) (d : Dir) (v : Nat) (s : Dir) : DotArrow :=
  match d with
  | .L => ⟨v, u, s⟩
  | .R => ⟨u, v, s⟩

/-- **dot: the arrows under a node are exactly its edges** - one per left edge pointing at the node, one per right edge
    leaving it, coloured by the side of the other node the edge arrives on. -/
theorem dot_arrows_iff (g : G D) (id : Nat) (as : List DotArrow) (h : nodeArrows g id = some as) (a : DotArrow) :
    a ∈ as ↔ ∃ d es v s f, findEdges g id d = some es ∧ (v, s, f) ∈ es ∧ a = arrowOf id d v s := by
  unfold nodeArrows at h
  cases hL : findEdges g id .L with
  | none => simp [hL] at h
  | some le =>
    cases hR : findEdges g id .R with
    | none => simp [hL, hR] at h
    | some re =>
      simp only [hL, hR, Option.some.injEq] at h
      subst h
      constructor
      · intro ha
        rcases List.mem_append.mp ha with h1 | h1
        · obtain ⟨e, he, rfl⟩ := List.mem_map.mp h1
          exact ⟨.L, le, e.1, e.2.1, e.2.2, hL, he, rfl⟩
        · obtain ⟨e, he, rfl⟩ := List.mem_map.mp h1
          exact ⟨.R, re, e.1, e.2.1, e.2.2, hR, he, rfl⟩
      · rintro ⟨d, es, v, s, f, he, hm, rfl⟩
        cases d with
        | L =>
          rw [hL] at he; simp only [Option.some.injEq] at he; subst he
          exact List.mem_append.mpr (Or.inl (List.mem_map.mpr ⟨(v, s, f), hm, rfl⟩))
        | R =>
          rw [hR] at he; simp only [Option.some.injEq] at he; subst he
          exact List.mem_append.mpr (Or.inr (List.mem_map.mpr ⟨(v, s, f), hm, rfl⟩))

/-- **dot: on a graph with symmetric edge lists every adjacency is drawn at both of its ends.** -/
theorem dot_adjacency_at_both_ends (g : G D) (hsym : EdgeSym g) (u : Nat) (d : Dir) (v : Nat) (s : Dir) (f : Bool)
    (es : List Edge) (he : findEdges g u d = some es) (hm : (v, s, f) ∈ es)
    (asu asv : List DotArrow) (hu : nodeArrows g u = some asu) (hv : nodeArrows g v = some asv) :
    arrowOf u d v s ∈ asu ∧ arrowOf v s u d ∈ asv := by
  refine ⟨(dot_arrows_iff g u asu hu _).mpr ⟨d, es, v, s, f, he, hm, rfl⟩, ?_⟩
  obtain ⟨es', f', he', hm'⟩ := hsym u d v s f es he hm
  exact (dot_arrows_iff g v asv hv _).mpr ⟨s, es', u, d, f', he', hm', rfl⟩

theorem mapM_some_len {α β : Type} (f : α → Option β) : ∀ (l : List α) (out : List β), l.mapM f = some out → out.length = l.length := by
  intro l
  induction l with
  | nil => intro out h; cases h; rfl
  | cons a t ih =>
    intro out h
    rw [List.mapM_cons] at h
    cases hfa : f a with
    | none => simp [hfa] at h
    | some b =>
      cases ht : t.mapM f with
      | none => simp [hfa, ht] at h
      | some bs =>
        simp only [hfa, ht, Option.bind_eq_bind, Option.bind_some, Option.pure_def, Option.some.injEq] at h
        subst h
        simp [ih bs ht]

/-- `to_dot` returns (no `unwrap` fails) exactly when every edge lookup does, and then the text is the header, one block per node in
    index order, and the closing brace -/
theorem toDot_eq (g : G D) (label : D → String) (txt : String) (h : toDot g label = some txt) :
    ∃ blocks, (List.range g.nodes.length).mapM (nodeToDot g label) = some blocks ∧ blocks.length = g.nodes.length ∧
      txt = "digraph {\n" ++ String.join blocks ++ "}\n" := by
  unfold toDot at h
  cases hm : (List.range g.nodes.length).mapM (nodeToDot g label) with
  | none => simp [hm] at h
  | some bl =>
    simp only [hm, Option.map_some, Option.some.injEq] at h
    refine ⟨bl, rfl, ?_, h.symm⟩
    have := mapM_some_len (nodeToDot g label) _ bl hm
    simpa using this

end Export
