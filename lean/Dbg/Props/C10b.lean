import Dbg.Lemmas.KmerHd1
import Dbg.Lemmas.KmerExtend
import Dbg.Model.KmerExts
/-! # C10 (continued) — `KmerOneHammingIter` enumerates exactly the Hamming-distance-1 neighbours

Not one of the operations C10 lists, but part of the k-mer API (neighbors.rs): the iterator over a k-mer yields, on the
string level, exactly the `3 K` strings that differ from it in one position (`C10_hd1_strings`, `hd1_sound`,
`hd1_complete`, `hd1_length`). -/
namespace KSpec

theorem hamming_self : ∀ (l : List Nat), hamming l l = 0 := by
  intro l
  induction l with
  | nil => rfl
  | cons a t ih =>
    unfold hamming at ih ⊢
    rw [List.zip_cons_cons, List.countP_cons, ih]
    simp

theorem hamming_cons (a b : Nat) (l m : List Nat) : hamming (a :: l) (b :: m) = hamming l m + (if a != b then 1 else 0) := by
  unfold hamming
  rw [List.zip_cons_cons, List.countP_cons]

theorem hamming_zero : ∀ (l m : List Nat), l.length = m.length → hamming l m = 0 → l = m := by
  intro l
  induction l with
  | nil => intro m h _; cases m with | nil => rfl | cons _ _ => simp at h
  | cons a t ih =>
    intro m h h0
    cases m with
    | nil => simp at h
    | cons b u =>
      rw [hamming_cons] at h0
      by_cases hab : a = b
      · subst hab
        simp only [bne_self_eq_false, Bool.false_eq_true, if_false, Nat.add_zero] at h0
        rw [ih u (by simpa using h) h0]
      · have : (a != b) = true := by simpa using hab
        rw [this] at h0; simp at h0

theorem mem_hd1 (l y : List Nat) :
    y ∈ hd1 l ↔ ∃ p ch, p < l.length ∧ ch < 4 ∧ l.getD p 99 ≠ ch ∧ y = l.set p ch := by
  unfold hd1
  rw [List.mem_flatMap]
  constructor
  · rintro ⟨p, hp, hy⟩
    obtain ⟨ch, hch, hf⟩ := List.mem_filterMap.mp hy
    refine ⟨p, ch, List.mem_range.mp hp, List.mem_range.mp hch, ?_, ?_⟩
    · intro e; rw [if_pos e] at hf; cases hf
    · by_cases e : l.getD p 99 = ch
      · rw [if_pos e] at hf; cases hf
      · rw [if_neg e] at hf; exact (Option.some.inj hf).symm
  · rintro ⟨p, ch, hp, hch, hne, rfl⟩
    exact ⟨p, List.mem_range.mpr hp, List.mem_filterMap.mpr ⟨ch, List.mem_range.mpr hch, by rw [if_neg hne]⟩⟩

/-- every yielded string differs from the source in exactly one position -/
theorem hd1_sound : ∀ (l : List Nat) (y : List Nat), y ∈ hd1 l → y.length = l.length ∧ hamming l y = 1 := by
  intro l y hy
  obtain ⟨p, ch, hp, _, hne, rfl⟩ := (mem_hd1 l y).mp hy
  refine ⟨by simp, ?_⟩
  clear hy
  induction l generalizing p with
  | nil => simp at hp
  | cons a t ih =>
    cases p with
    | zero =>
      rw [List.set_cons_zero, hamming_cons, hamming_self]
      have : a ≠ ch := by simpa using hne
      simp [this]
    | succ q =>
      rw [List.set_cons_succ, hamming_cons]
      have := ih q (by simpa using hp) (by simpa using hne)
      rw [this]; simp

/-- every string of the same length over the four bases that differs in exactly one position is yielded -/
theorem hd1_complete : ∀ (l y : List Nat), y.length = l.length → (∀ b ∈ y, b < 4) → hamming l y = 1 → y ∈ hd1 l := by
  intro l y hlen hb h1
  rw [mem_hd1]
  induction l generalizing y with
  | nil =>
    cases y with
    | nil => simp [hamming] at h1
    | cons _ _ => simp at hlen
  | cons a t ih =>
    cases y with
    | nil => simp at hlen
    | cons b u =>
      rw [hamming_cons] at h1
      by_cases hab : a = b
      · subst hab
        simp only [bne_self_eq_false, Bool.false_eq_true, if_false, Nat.add_zero] at h1
        obtain ⟨p, ch, hp, hch, hne, rfl⟩ := ih u (by simpa using hlen) (fun x hx => hb x (List.mem_cons_of_mem _ hx)) h1
        exact ⟨p + 1, ch, by simpa using hp, hch, by simpa using hne, by simp⟩
      · have hbne : (a != b) = true := by simpa using hab
        rw [hbne] at h1
        simp only [if_true] at h1
        have h0 : hamming t u = 0 := by omega
        have := hamming_zero t u (by simpa using hlen.symm) h0
        subst this
        exact ⟨0, b, by simp, hb b (List.mem_cons_self ..), by simpa using hab, by simp⟩

theorem three_others : ∀ (v : Nat), v < 4 → ∀ (f : Nat → List Nat),
    ((List.range 4).filterMap fun ch => if v = ch then none else some (f ch)).length = 3 := by
  intro v hv f
  have h4 : List.range 4 = [0, 1, 2, 3] := by decide
  rw [h4]
  have : v = 0 ∨ v = 1 ∨ v = 2 ∨ v = 3 := by omega
  rcases this with rfl | rfl | rfl | rfl <;> simp

/-- there are exactly `3 K` of them -/
theorem hd1_length (l : List Nat) (hl : ∀ b ∈ l, b < 4) : (hd1 l).length = 3 * l.length := by
  unfold hd1
  have : ∀ (ps : List Nat), (∀ p ∈ ps, p < l.length) →
      (ps.flatMap fun p => (List.range 4).filterMap fun ch => if l.getD p 99 = ch then none else some (l.set p ch)).length = 3 * ps.length := by
    intro ps
    induction ps with
    | nil => intro _; rfl
    | cons p t ih =>
      intro h
      rw [List.flatMap_cons, List.length_append, ih (fun q hq => h q (List.mem_cons_of_mem _ hq))]
      have hp := h p (List.mem_cons_self ..)
      have hv : l.getD p 99 < 4 := by
        rw [List.getD_eq_getElem?_getD, List.getElem?_eq_getElem hp]
        exact hl _ (List.getElem_mem _)
      rw [three_others _ hv (fun ch => l.set p ch)]
      simp only [List.length_cons]; omega
  have := this (List.range l.length) (fun p hp => List.mem_range.mp hp)
  simpa using this

end KSpec

namespace Kmer

/-- **`KmerOneHammingIter` on strings.** For every k-mer type and every k-mer, the iterator yields, in order, k-mers whose
    strings are exactly `KSpec.hd1` of the source's string: every string at Hamming distance 1, each `hd1_length` = `3 K`
    in total. -/
theorem C10_hd1_strings (c : Cfg) (hc : c.WF) (s : St c) :
    (hd1 c s).map (toSeq c) = KSpec.hd1 (toSeq c s) ∧ (hd1 c s).length = 3 * c.K ∧
    (∀ x ∈ hd1 c s, KSpec.hamming (toSeq c s) (toSeq c x) = 1) ∧
    (∀ y : List Nat, y.length = c.K → (∀ b ∈ y, b < 4) → KSpec.hamming (toSeq c s) y = 1 → ∃ x ∈ hd1 c s, toSeq c x = y) := by
  have h := toSeq_hd1 c hc s
  have hlt := toSeq_lt4 hc s
  refine ⟨h, ?_, ?_, ?_⟩
  · have := congrArg List.length h
    rw [List.length_map, KSpec.hd1_length _ hlt, toSeq_length] at this
    exact this
  · intro x hx
    have : toSeq c x ∈ KSpec.hd1 (toSeq c s) := by rw [← h]; exact List.mem_map_of_mem hx
    exact (KSpec.hd1_sound _ _ this).2
  · intro y hy hb h1
    have := KSpec.hd1_complete (toSeq c s) y (by rw [hy, toSeq_length]) hb h1
    rw [← h] at this
    obtain ⟨x, hx, rfl⟩ := List.mem_map.mp this
    exact ⟨x, hx, rfl⟩

/-- **`get_extensions` on strings**: one k-mer per base of the extension set on that side, ascending, each the string shifted by
    that base on that side -/
theorem C10_getExtensions (c : Cfg) (hc : c.WF) (s : St c) (hs : Inv c s) (e : Compress.Exts) (d : Walk.Dir) :
    (getExtensions c s e d).map (toSeq c) =
      (e.get d).map fun b => match d with
        | .R => KSpec.extendRight (toSeq c s) b
        | .L => KSpec.extendLeft (toSeq c s) b := by
  unfold getExtensions
  rw [List.map_map]
  apply List.map_congr_left
  intro b hb
  have hb4 : b < 4 := by
    unfold Compress.Exts.get at hb
    exact List.mem_range.mp (List.mem_filter.mp hb).1
  cases d with
  | R => simp only [Function.comp, extend, if_true]; exact toSeq_extendRight hc s b hb4
  | L => simp only [Function.comp, extend, Bool.false_eq_true, if_false]; exact toSeq_extendLeft hc s b hb4 hs

end Kmer
