import Dbg.Lemmas.SymProof
import Dbg.Model.Pipeline
/-! # C06 — Strand symmetry when unstranded, strand separation when stranded

Proved so far (string level): the canonical form chosen by `min_rc_flip` is the lexicographic minimum of a k-mer and
its reverse complement, is the same for both, the flip flags of the two are opposite unless the k-mer is its own
reverse complement, and in stranded mode no canonicalisation happens.  The invariance of the table and of the three
pipelines under reverse-complementing any subset of reads is an executable predicate evaluated on the crate's
outputs (partial). -/
namespace Compress

theorem seq_lt_irrefl (x : Seq) : ¬ x < x := List.lt_irrefl x
theorem seq_lt_asymm {x y : Seq} (h : x < y) : ¬ y < x := List.lt_asymm h

/-- every reported key is the lexicographic minimum of the k-mer and its reverse complement -/
theorem C06_key_is_min (x : Seq) :
    ((minRcFlip x).1 = x ∨ (minRcFlip x).1 = rc x) ∧ ¬ x < (minRcFlip x).1 ∧ ¬ rc x < (minRcFlip x).1 := by
  unfold minRcFlip
  by_cases h : x < rc x
  · rw [if_pos h]
    exact ⟨Or.inl rfl, seq_lt_irrefl x, seq_lt_asymm h⟩
  · rw [if_neg h]
    exact ⟨Or.inr rfl, h, seq_lt_irrefl _⟩

/-- a k-mer and its reverse complement have the same canonical form -/
theorem C06_key_rc_invariant (x : Seq) : (minRcFlip (rc x)).1 = (minRcFlip x).1 := by
  unfold minRcFlip
  rw [rc_rc]
  by_cases h1 : x < rc x
  · have h2 : ¬ rc x < x := seq_lt_asymm h1
    simp [h1, h2]
  · by_cases h2 : rc x < x
    · simp [h1, h2]
    · -- neither is smaller: they are equal
      have : x = rc x := by
        rcases Std.lt_trichotomy x (rc x) with h | h | h
        · exact absurd h h1
        · exact h
        · exact absurd h h2
      simp [h1, h2, ← this]

/-- the flip flags of a k-mer and of its reverse complement are opposite, unless the k-mer is its own reverse complement -/
theorem C06_flip_opposite (x : Seq) (hne : x ≠ rc x) : (minRcFlip (rc x)).2 = !(minRcFlip x).2 := by
  unfold minRcFlip
  rw [rc_rc]
  by_cases h1 : x < rc x
  · have h2 : ¬ rc x < x := seq_lt_asymm h1
    simp [h1, h2]
  · have h2 : rc x < x := by
      rcases Std.lt_trichotomy x (rc x) with h | h | h
      · exact absurd h h1
      · exact absurd h hne
      · exact h
    simp [h1, h2]

/-- in stranded mode a k-mer is never replaced by its reverse complement -/
theorem C06_stranded_no_canon (x : Seq) : canonSt true x = (x, false) := by simp [canonSt]

theorem C06_unstranded_canon (x : Seq) : canonSt false x = minRcFlip x := by simp [canonSt]

end Compress
