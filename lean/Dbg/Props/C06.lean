import Dbg.Lemmas.SymProof
import Dbg.Model.Pipeline
import Dbg.Lemmas.FilterRc
import Dbg.Lemmas.LinkCongr
import Dbg.Props.C01
import Dbg.Props.C05
/-! # C06 — Strand symmetry when unstranded, strand separation when stranded

String level: the canonical form chosen by `min_rc_flip` is the lexicographic minimum of a k-mer and its reverse
complement, is the same for both, the flip flags are opposite unless the k-mer is its own reverse complement, and in
stranded mode no canonicalisation happens.  Table level (`C06_filter_rc_invariant`): for every read set (empty boundary
extensions) and every choice of reads to reverse-complement, the unstranded table has the same keys and payloads, and
the same extension set at every k-mer that is not its own reverse complement — proved by showing that a read and its
reverse complement yield the same canonical observations in reverse order.  Graph level (`C06_graph_rc_invariant`): two
tables that agree in this sense induce the same good-link relation (links never read the extension byte of a
palindrome), hence the same partition of k-mers into nodes, node by node. -/
namespace Compress

theorem seq_lt_irrefl (x : Seq) : ¬ x < x := List.lt_irrefl x
theorem seq_lt_asymm {x y : Seq} (h : x < y) : ¬ y < x := List.lt_asymm h

/-- every reported key is the lexicographic minimum of the k-mer and its reverse complement -/
theorem C06_key_is_min (x : Seq) :
    ((minRcFlip x).1 = x ∨ (minRcFlip x).1 = rc x) ∧ ¬ x < (minRcFlip x).1 ∧ ¬ rc x < (minRcFlip x).1 := by
  unfold minRcFlip
  by_cases h : x < rc x
  · rw [if_pos h]
    exact ⟨Or.inl rfl, seq_lt_irrefl x, seq_lt_asymm h⟩
  · rw [if_neg h]
    exact ⟨Or.inr rfl, h, seq_lt_irrefl _⟩

/-- a k-mer and its reverse complement have the same canonical form -/
theorem C06_key_rc_invariant (x : Seq) : (minRcFlip (rc x)).1 = (minRcFlip x).1 := by
  unfold minRcFlip
  rw [rc_rc]
  by_cases h1 : x < rc x
  · have h2 : ¬ rc x < x := seq_lt_asymm h1
    simp [h1, h2]
  · by_cases h2 : rc x < x
    · simp [h1, h2]
    · -- neither is smaller: they are equal
      have : x = rc x := by
        rcases Std.lt_trichotomy x (rc x) with h | h | h
        · exact absurd h h1
        · exact h
        · exact absurd h h2
      simp [h1, h2, ← this]

/-- the flip flags of a k-mer and of its reverse complement are opposite, unless the k-mer is its own reverse complement -/
theorem C06_flip_opposite (x : Seq) (hne : x ≠ rc x) : (minRcFlip (rc x)).2 = !(minRcFlip x).2 := by
  unfold minRcFlip
  rw [rc_rc]
  by_cases h1 : x < rc x
  · have h2 : ¬ rc x < x := seq_lt_asymm h1
    simp [h1, h2]
  · have h2 : rc x < x := by
      rcases Std.lt_trichotomy x (rc x) with h | h | h
      · exact absurd h h1
      · exact absurd h hne
      · exact h
    simp [h1, h2]

/-- in stranded mode a k-mer is never replaced by its reverse complement -/
theorem C06_stranded_no_canon (x : Seq) : canonSt true x = (x, false) := by simp [canonSt]

theorem C06_unstranded_canon (x : Seq) : canonSt false x = minRcFlip x := by simp [canonSt]

/-- **C06 (table).** Replacing any subset of the reads by their reverse complements changes neither the keys nor the
    payloads (counts / label sets) of the unstranded k-mer table, nor the extension set of any k-mer that is not its own
    reverse complement. -/
theorem C06_filter_rc_invariant (K : Nat) (hK : 1 ≤ K) (reads : List (Seq × Exts × Nat)) (hb : Filter.NoBoundary reads)
    (sm : Filter.Summarizer) (m : Nat → Bool) :
    (Filter.refTable K (Filter.flipReads m 0 reads) sm false).map (fun e => (e.key, e.data)) =
      (Filter.refTable K reads sm false).map (fun e => (e.key, e.data)) ∧
    ∀ e ∈ Filter.refTable K (Filter.flipReads m 0 reads) sm false, Filter.palB e.key = false → e ∈ Filter.refTable K reads sm false :=
  Filter.refTable_rc_invariant K hK reads hb sm m

/-- the two tables agree position by position -/
theorem C06_tables_agree (K : Nat) (hK : 1 ≤ K) (reads : List (Seq × Exts × Nat)) (hb : Filter.NoBoundary reads)
    (sm : Filter.Summarizer) (m : Nat → Bool) :
    TableAgree false (Filter.refTable K reads sm false) (Filter.refTable K (Filter.flipReads m 0 reads) sm false) := by
  obtain ⟨h1, h2⟩ := Filter.refTable_rc_invariant K hK reads hb sm m
  have wf := Filter.refTable_wf K hK reads hb sm false
  have hlen : (Filter.refTable K (Filter.flipReads m 0 reads) sm false).length = (Filter.refTable K reads sm false).length := by
    simpa using congrArg List.length h1
  refine ⟨hlen, fun i e e' hi hi' => ?_⟩
  have hkd : (e'.key, e'.data) = (e.key, e.data) := by
    have := congrArg (·[i]?) h1
    simp only [List.getElem?_map, hi, hi', Option.map_some, Option.some.injEq] at this
    exact this
  simp only [Prod.mk.injEq] at hkd
  refine ⟨hkd.1, hkd.2, fun hp => ?_⟩
  simp only [Bool.not_false, Bool.true_and] at hp
  have hnp : Filter.palB e'.key = false := by
    unfold Filter.palB
    rw [hkd.1]
    simpa using notPal_ne hp
  have hmem := h2 e' (List.mem_of_getElem? hi') hnp
  obtain ⟨j, hj⟩ := Filter.mem_getElem? _ e' hmem
  have : j = i := wf.distinct j i e' e hj hi hkd.1
  subst this
  rw [hi] at hj; cases hj; rfl

/-- **C06 (graph).** Two well-formed reciprocal tables that agree (same keys and payloads position by position, same
    extension bytes except at palindromic keys) are compressed into the same partition: the same number of nodes, and
    node by node the same list of canonical k-mers. -/
theorem C06_graph_rc_invariant {D : Type} {T T' : Table D} {K : Nat} {st : Bool} {join : D → D → Bool} (reduce : D → D → D)
    (wf : WF T K st) (hes : ExtSym T st) (wf' : WF T' K st) (hes' : ExtSym T' st) (ha : TableAgree st T T') :
    ∃ out out', compressKmersC T st join reduce = some out ∧ compressKmersC T' st join reduce = some out' ∧
      out'.map (fun x => (windowsOf K x.1.seq).map (fun w => (canonOf st w).1)) =
        out.map (fun x => (windowsOf K x.1.seq).map (fun w => (canonOf st w).1)) := by
  obtain ⟨out, h1, h2, h3⟩ := C01_nodes_are_id_paths (join := join) reduce wf hes
  obtain ⟨out', h1', h2', h3'⟩ := C01_nodes_are_id_paths (join := join) reduce wf' hes'
  refine ⟨out, out', h1, h1', ?_⟩
  have hk : ∀ i, keyOf T' i = keyOf T i := by
    intro i
    unfold keyOf
    cases hi : T[i]? with
    | none =>
      have : T'[i]? = none := by
        apply List.getElem?_eq_none; rw [ha.len]
        cases hd : decide (i < T.length) with
        | true => rw [List.getElem?_eq_getElem (by simpa using hd)] at hi; cases hi
        | false => simpa using hd
      rw [this]
    | some e =>
      obtain ⟨e', he', k, _⟩ := ha.get i e hi
      rw [he']; exact k
  have hids : out'.map (·.2) = out.map (·.2) := by rw [h2, h2', linkOf_congr ha, ha.len]
  have e1 : out.map (fun x => (windowsOf K x.1.seq).map (fun w => (canonOf st w).1)) = (out.map (·.2)).map (fun ids => ids.map (keyOf T)) := by
    rw [List.map_map]
    apply List.map_congr_left
    intro x hx; exact h3 x hx
  have e2 : out'.map (fun x => (windowsOf K x.1.seq).map (fun w => (canonOf st w).1)) = (out'.map (·.2)).map (fun ids => ids.map (keyOf T')) := by
    rw [List.map_map]
    apply List.map_congr_left
    intro x hx; exact h3' x hx
  rw [e1, e2, hids]
  apply List.map_congr_left
  intro ids _
  apply List.map_congr_left
  intro i _; exact hk i

/-- **C06 (stranded separation).** In stranded mode the k-mers seen are exactly the k-mers of the reads as spelled
    (never a reverse complement), and an entry records base `b` on side `d` exactly when its k-mer is followed /
    preceded by `b` in some read as spelled. -/
theorem C06_stranded_separation (K : Nat) (hK : 1 ≤ K) (reads : List (Seq × Exts × Nat)) (hb : Filter.NoBoundary reads)
    (sm : Filter.Summarizer) :
    (∀ k, k ∈ Filter.refAllKmers K reads true ↔ ∃ r ∈ reads, ∃ i, i + K ≤ r.1.length ∧ k = Filter.win r.1 K i) ∧
    (∀ e ∈ Filter.refTable K reads sm true, ∀ d b, Filter.has e.exts d b ↔
      ∃ r ∈ reads, ∃ i, i + K ≤ r.1.length ∧ e.key = Filter.win r.1 K i ∧ Filter.has (Filter.rawE r.1 K i) d b) := by
  constructor
  · intro k
    rw [(Filter.C05_keys_ascending K reads true).2 k]
    constructor
    · rintro ⟨o, ho, rfl⟩
      obtain ⟨r, hr, i, hi, rfl⟩ := (Filter.mem_observations K hK reads hb true o).mp ho
      exact ⟨r, hr, i, hi, rfl⟩
    · rintro ⟨r, hr, i, hi, rfl⟩
      exact ⟨_, (Filter.mem_observations K hK reads hb true _).mpr ⟨r, hr, i, hi, rfl⟩, rfl⟩
  · intro e he d b
    rw [Filter.C05_exts_are_flanks K hK reads hb sm true e he (by simp) d b]
    constructor
    · rintro ⟨r, hr, i, hi, hc⟩
      rcases hc with ⟨h1, h2⟩ | ⟨h0, _⟩
      · exact ⟨r, hr, i, hi, h1, h2⟩
      · cases h0
    · rintro ⟨r, hr, i, hi, h1, h2⟩
      exact ⟨r, hr, i, hi, Or.inl ⟨h1, h2⟩⟩

end Compress
