import Dbg.Lemmas.ShardFinal
/-! # C02 (continued) — the partition does not depend on the order of the table

`compress_kmers` visits the k-mers in the order of the hash map; cycles are cut and nodes oriented accordingly.  The
partition of the k-mers into nodes is nevertheless the same for every order: it is the set of classes of the key-level
good-link relation, which depends only on the content of the table. -/
namespace Compress
open Filter (ExtSym2)
variable {D : Type}

/-- **C02 (uniqueness up to cycle cut and orientation).** For two listings `T1`, `T2` of the same well-formed reciprocal
    table (any two hash orders) and a symmetric join predicate: both compressions return and every node of either result
    has exactly the canonical k-mers of some node of the other. -/
theorem C02_order_independent {T T1 T2 : Table D} {K : Nat} {st : Bool} (wf : WF T K st) (hes2 : ExtSym2 T st)
    (join : D → D → Bool) (hj : ∀ a b, join a b = join b a) (reduce : D → D → D)
    (h1 : T1.Perm T) (h2 : T2.Perm T) :
    ∃ o1 o2, compressKmersC T1 st join reduce = some o1 ∧ compressKmersC T2 st join reduce = some o2 ∧
      SameParts K st (o1.map (·.1)) (o2.map (·.1)) := by
  have wf1 := Filter.wf_perm st _ T1 K h1 wf
  have wf2 := Filter.wf_perm st _ T2 K h2 wf
  have hes1 := Filter.extSym2_perm st _ T1 K h1 wf hes2
  have hes2' := Filter.extSym2_perm st _ T2 K h2 wf hes2
  obtain ⟨o1, ho1, c1⟩ := direct_classes join hj reduce wf wf1 hes1 h1
  obtain ⟨o2, ho2, c2⟩ := direct_classes join hj reduce wf wf2 hes2' h2
  exact ⟨o1, o2, ho1, ho2, sameParts_of_classes c1 c2⟩

end Compress
