import Dbg.Lemmas.IsCompressed2
/-! # C09 (continued) — the result of `compress_graph` passes the crate's own maximality check

`compress_graph` ends with `debug_assert!(dbg.is_compressed(compression) == None)`.  `is_compressed` is modelled
(`Graph.isCompressed`, tied by the `iscomp` requests) and shown to return `None` on the result of an uncensored
re-compression with the constantly-true join predicate of the crate's pipelines: the assertion cannot fire there. -/
namespace CompressGraph
open Compress (Table Node WF compressKmersC)
open Graph (G isCompressed)
variable {D : Type}

/-- **C09 (the final assertion holds).** Build a graph from any well-formed reciprocal table with any symmetric join
    predicate (fully, partially or not at all compressed), then re-compress it without censoring: `compress_graph`
    returns a graph on which `is_compressed` finds no unbranched edge left to merge. -/
theorem C09_is_compressed_after_recompress {T : Table D} {K : Nat} {st : Bool} (wf : WF T K st) (hes2 : Filter.ExtSym2 T st)
    (reduce : D → D → D) (join0 : D → D → Bool) (hj0 : ∀ a b, join0 a b = join0 b a)
    (out : List (Node D × List Nat)) (ho : compressKmersC T st join0 reduce = some out) :
    ∃ g' paths, compressGraph st (⟨K, out.map (·.1), st⟩ : G D) (fun _ _ => true) reduce [] = some (g', paths) ∧
      isCompressed g' (fun _ _ => true) = none := by
  obtain ⟨port, members, pg, _⟩ := Compress.pgraph_of_compress reduce wf hes2.toExtSym hj0 out ho
  exact Compress.pgraph_recompress_isCompressed pg wf hes2 reduce

end CompressGraph
