import Dbg.Lemmas.MspIntervals
/-! # C07 — Minimizer partition covers every k-mer exactly once with a true minimizer

Property theorem for the model `Msp.scan` of `Scanner::scan` (msp.rs 194-276).
`HoldsC07` (Spec/C07.lean) is the executable statement; the same predicate is evaluated by the
driver on the implementation's answers. -/
namespace Msp

theorem mkIntervals_spec (seq : Array Compress.Base) (score : Compress.Seq → Nat) (k p m n : Nat)
    (hp : 1 ≤ p) (hpk : p ≤ k) (hm : m = n - 1 + k) (hn : 1 ≤ n) (hm32 : m < 2 ^ 32) (h16 : 2 * k - p ≤ 65535) :
    ∀ L : List (Nat × MinPos), FwdOK (fun q => score (window seq p q)) (k - p) n L →
      (∀ iv ∈ mkIntervals seq k p m L, IvValid seq (fun q => score (window seq p q)) k p iv) ∧
      ChainValid (fun q => score (window seq p q)) k p m (mkIntervals seq k p m L) ∧
      (mkIntervals seq k p m L).head?.map (·.start) = L.head?.map (·.1) := by
  intro L
  induction L with
  | nil => intro h; exact absurd h (by simp [FwdOK])
  | cons x rest ih =>
    obtain ⟨s, mn⟩ := x
    cases rest with
    | nil =>
      intro h
      have h' : IvOK (fun q => score (window seq p q)) (k - p) s (n - 1) mn := h
      have e1 : s % startMod = s := by
        apply Nat.mod_eq_of_lt; have := h'.hse; simp only [startMod, Gen.mspStartBits]; omega
      have e2 : mn.pos % startMod = mn.pos := by
        apply Nat.mod_eq_of_lt; have := h'.hi; have := h'.hse; simp only [startMod, Gen.mspStartBits]; omega
      have e3 : (m - s) % lenMod = n - 1 + k - s := by
        have := h'.hse; have := h'.lo; have := h'.hi
        rw [Nat.mod_eq_of_lt (by simp only [lenMod, Gen.mspLenBits]; omega)]; omega
      simp only [mkIntervals, e1, e2, e3]
      refine ⟨?_, ?_, by simp⟩
      · intro iv hiv
        simp only [List.mem_singleton] at hiv
        subst hiv
        exact ivValid_of_IvOK seq score k p s (n - 1) mn _ hp hpk h' rfl
      · simp only [ChainValid]; have := h'.hse; omega
    | cons y rest =>
      obtain ⟨s', mn'⟩ := y
      intro h
      obtain ⟨h1, h2, h3, h4⟩ : IvOK (fun q => score (window seq p q)) (k - p) s (s' - 1) mn ∧ s < s' ∧
          (mn.pos < s' ∨ (fun q => score (window seq p q)) (s' + (k - p)) < mn.val) ∧
          FwdOK (fun q => score (window seq p q)) (k - p) n ((s', mn') :: rest) := h
      obtain ⟨ih1, ih2, ih3⟩ := ih h4
      -- the start of the next entry is a k-mer start, hence `< n`
      have hs'n : s' ≤ n - 1 := by
        cases rest with
        | nil => exact (show IvOK _ _ s' (n - 1) mn' from h4).hse
        | cons z _ =>
          obtain ⟨s'', mn''⟩ := z
          have h5 : IvOK _ _ s' (s'' - 1) mn' ∧ s' < s'' ∧ _ ∧ FwdOK _ _ n _ := h4
          have := h5.1.hse
          have hh : ∀ (L : List (Nat × MinPos)) (a : Nat) (b : MinPos),
              FwdOK (fun q => score (window seq p q)) (k - p) n ((a, b) :: L) → a ≤ n - 1 := by
            intro L
            induction L with
            | nil => intro a b hf; exact (show IvOK _ _ a (n - 1) b from hf).hse
            | cons w L ihL =>
              intro a b hf
              obtain ⟨a', b'⟩ := w
              have hf' : IvOK _ _ a (a' - 1) b ∧ a < a' ∧ _ ∧ FwdOK _ _ n ((a', b') :: L) := hf
              have := ihL a' b' hf'.2.2.2
              omega
          exact hh _ _ _ h4
      have e1 : s % startMod = s := by apply Nat.mod_eq_of_lt; simp only [startMod, Gen.mspStartBits]; omega
      have e2 : mn.pos % startMod = mn.pos := by
        apply Nat.mod_eq_of_lt; have := h1.hi; simp only [startMod, Gen.mspStartBits]; omega
      have e3 : (s' + k - 1 - s) % lenMod = s' - 1 + k - s := by
        have := h1.lo; have := h1.hi
        rw [Nat.mod_eq_of_lt (by simp only [lenMod, Gen.mspLenBits]; omega)]; omega
      have hmk : mkIntervals seq k p m ((s, mn) :: (s', mn') :: rest) =
          ⟨s, s' - 1 + k - s, mn.pos, window seq p mn.pos⟩ :: mkIntervals seq k p m ((s', mn') :: rest) := by
        simp only [mkIntervals, e1, e2, e3]
      rw [hmk]
      refine ⟨?_, ?_, by simp⟩
      · intro iv hiv
        rcases List.mem_cons.mp hiv with hiv | hiv
        · subst hiv
          exact ivValid_of_IvOK seq score k p s (s' - 1) mn _ hp hpk h1 rfl
        · exact ih1 iv hiv
      · -- the next interval starts at s'
        have hne : ∃ iv' tl, mkIntervals seq k p m ((s', mn') :: rest) = iv' :: tl ∧ iv'.start = s' := by
          have h0 := ih3
          cases hmk' : mkIntervals seq k p m ((s', mn') :: rest) with
          | nil => rw [hmk'] at h0; simp at h0
          | cons iv' tl =>
            rw [hmk'] at h0
            exact ⟨iv', tl, rfl, by simpa using h0⟩
        obtain ⟨iv', tl, he, hst⟩ := hne
        rw [he] at ih2 ⊢
        refine ⟨by simp only [hst]; exact h2, by simp only [hst]; omega, ?_, ih2⟩
        simp only [hst]
        rcases h3 with h3 | h3
        · exact Or.inl h3
        · right
          have hv := h1.hval
          have : s' + k - p = s' + (k - p) := by omega
          rw [this]; simp only at h3 hv; omega

/-- **C07.** For every sequence, every score function, `1 ≤ p ≤ k ≤ |seq| < 2^32` and
    `2k - p ≤ 65535` (the guard forced by the `u16` length field, finding D7), the scan returns
    intervals that satisfy every clause of the property. -/
theorem C07_scan_valid (seq : Array Compress.Base) (score : Compress.Seq → Nat) (k p : Nat)
    (h₁ : 1 ≤ p) (h₂ : p ≤ k) (h₃ : k ≤ seq.size) (h₄ : seq.size < 2 ^ 32) (h₅ : 2 * k - p ≤ 65535)
    (h₆ : ∀ w, score w < 2 ^ 64) :
    ∃ ivs, scan seq score k p = some ivs ∧ HoldsC07 seq score k p ivs := by
  unfold scan
  have h₄' : seq.size < 2 ^ Gen.mspMaxLenLog := h₄
  have hsc : (fun q => score (window seq p q) % 2 ^ Gen.mspScoreBits) = fun q => score (window seq p q) := by
    funext q; exact Nat.mod_eq_of_lt (h₆ _)
  simp only [h₃, h₄', h₂, and_self, if_true, hsc]
  refine ⟨_, rfl, ?_⟩
  have hf := minPositions_fwd (fun q => score (window seq p q)) (k - p) (seq.size - k + 1) (by omega)
  have := mkIntervals_spec seq score k p seq.size (seq.size - k + 1) h₁ h₂ (by omega) (by omega) h₄ h₅ _ hf.1
  exact ⟨by rw [this.2.2]; exact hf.2, this.1, this.2.1⟩

/-- the Bool form that the driver evaluates -/
theorem C07_scan_holds (seq : Array Compress.Base) (score : Compress.Seq → Nat) (k p : Nat)
    (h₁ : 1 ≤ p) (h₂ : p ≤ k) (h₃ : k ≤ seq.size) (h₄ : seq.size < 2 ^ 32) (h₅ : 2 * k - p ≤ 65535)
    (h₆ : ∀ w, score w < 2 ^ 64) :
    ∃ ivs, scan seq score k p = some ivs ∧ holdsC07 seq score k p ivs = true := by
  obtain ⟨ivs, h, hh⟩ := C07_scan_valid seq score k p h₁ h₂ h₃ h₄ h₅ h₆
  exact ⟨ivs, h, by simp [holdsC07, hh]⟩

/-- the assertions of `scan` are exactly the guard: outside it the scan refuses -/
theorem C07_scan_guard (seq : Array Compress.Base) (score : Compress.Seq → Nat) (k p : Nat) :
    (scan seq score k p).isSome ↔ (k ≤ seq.size ∧ seq.size < 2 ^ 32 ∧ p ≤ k) := by
  simp only [scan, Gen.mspMaxLenLog]
  by_cases h : k ≤ seq.size ∧ seq.size < 2 ^ 32 ∧ p ≤ k <;> simp [h]

/-- "every k-mer start lies in exactly one interval": the starts `iv.start .. iv.start+iv.len-k`
    of a valid chain tile `0 .. m-k`. -/
def kmerStarts (k : Nat) (ivs : List Iv) : List Nat :=
  ivs.flatMap fun iv => List.range' iv.start (iv.len - k + 1)

theorem starts_tile (sc : Nat → Nat) (k p m : Nat) (hk : 1 ≤ k) :
    ∀ (ivs : List Iv) (a : Nat), ChainValid sc k p m ivs → (∀ iv ∈ ivs, k ≤ iv.len) →
      ivs.head?.map (·.start) = some a → kmerStarts k ivs = List.range' a (m - k + 1 - a) := by
  intro ivs
  induction ivs with
  | nil => intro a h; exact absurd h (by simp [ChainValid])
  | cons iv rest ih =>
    intro a hc hl ha
    simp only [List.head?_cons, Option.map_some, Option.some.injEq] at ha
    subst ha
    cases rest with
    | nil =>
      have hc' : iv.start + iv.len = m := hc
      have := hl iv (by simp)
      simp only [kmerStarts, List.flatMap_cons, List.flatMap_nil, List.append_nil]
      congr 1; omega
    | cons iv' rest =>
      obtain ⟨c1, c2, _, c4⟩ : iv.start < iv'.start ∧ iv'.start + k - 1 = iv.start + iv.len ∧ _ ∧
        ChainValid sc k p m (iv' :: rest) := hc
      have h1 := hl iv (by simp)
      have ihh := ih iv'.start c4 (fun iv hiv => hl iv (by simp [hiv])) (by simp)
      -- the rest reaches the end, so iv'.start ≤ m - k
      have hle : ∀ (l : List Iv) (b : Iv), ChainValid sc k p m (b :: l) → (∀ iv ∈ b :: l, k ≤ iv.len) → b.start + k ≤ m := by
        intro l
        induction l with
        | nil => intro b hb hlb; have : b.start + b.len = m := hb; have := hlb b (by simp); omega
        | cons c l ihl =>
          intro b hb hlb
          obtain ⟨d1, _, _, d4⟩ : b.start < c.start ∧ _ ∧ _ ∧ ChainValid sc k p m (c :: l) := hb
          have := ihl c d4 (fun iv hiv => hlb iv (by simp [hiv])); omega
      have h2 := hle rest iv' c4 (fun iv hiv => hl iv (by simp [hiv]))
      simp only [kmerStarts, List.flatMap_cons] at ihh ⊢
      rw [ihh]
      have e1 : iv.len - k + 1 = iv'.start - iv.start := by omega
      have e2 : m - k + 1 - iv.start = (iv'.start - iv.start) + (m - k + 1 - iv'.start) := by omega
      rw [e1, e2, ← List.range'_append_1]
      congr 2; omega

/-- Corollary of C07: the k-mer starts covered by the intervals are exactly `0, 1, …, m-k`, each once. -/
theorem C07_every_kmer_once (seq : Array Compress.Base) (score : Compress.Seq → Nat) (k p : Nat)
    (h₁ : 1 ≤ p) (h₂ : p ≤ k) (h₃ : k ≤ seq.size) (h₄ : seq.size < 2 ^ 32) (h₅ : 2 * k - p ≤ 65535)
    (h₆ : ∀ w, score w < 2 ^ 64) :
    ∃ ivs, scan seq score k p = some ivs ∧ kmerStarts k ivs = List.range (seq.size - k + 1) := by
  obtain ⟨ivs, h, hh⟩ := C07_scan_valid seq score k p h₁ h₂ h₃ h₄ h₅ h₆
  refine ⟨ivs, h, ?_⟩
  have := starts_tile _ k p seq.size (by omega) ivs 0 hh.2.2 (fun iv hiv => (hh.2.1 iv hiv).1) hh.1
  rw [this, List.range_eq_range']; rfl

/-- the hypotheses are satisfiable and the theorem says something on a concrete input -/
example : holdsC07 #[0,1,2,3,0,0,1,3,2,2,1] (fun w => Compress.rank w % 3) 5 2
    ((scan #[0,1,2,3,0,0,1,3,2,2,1] (fun w => Compress.rank w % 3) 5 2).getD []) = true := by decide

/-- D7 (known finding): without the `u16` guard the reported length is truncated; shown on the
    model with the narrowing modulus scaled down would need a 65 536-base witness, so the model
    witness is evaluated by the driver (`scan` request of the known-finding replay), not here. -/
example : (70000 : Nat) % lenMod = 4464 := by decide

end Msp
