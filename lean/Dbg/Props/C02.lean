import Dbg.Props.C01
/-! # C02 — Nodes are exactly the maximal unbranched paths

Proved (ids): two ids share a node of the model iff they are connected by links of `linkOf T` — the
availability-independent part of `try_extend_kmer`: sole extension on the leaving side, not a palindrome,
target present, sole extension on the facing side of the target, `join` accepted.  Reciprocity of `linkOf`
(`linkOf_sym`) is proved from `ExtSym`, symmetry of `join`, and canonical distinct keys. -/
namespace Compress
variable {D : Type}

/-- C02 (ids): same node ⇔ connected by good links -/
theorem C02_components {T : Table D} {K : Nat} {st : Bool} {join : D → D → Bool}
    (wf : WF T K st) (hes : ExtSym T st) (hj : ∀ a b, join a b = join b a) :
    let link := linkOf T st join
    let ns := Walk.compress link (List.range T.length) (List.range T.length)
    ∀ x y, x < T.length → (Walk.Conn link x y ↔ ∃ N ∈ ns, x ∈ N ∧ y ∈ N) :=
  (compress_components_concrete wf hes hj).2.2.1

/-- the link relation is reciprocal -/
theorem C02_link_sym {T : Table D} {K : Nat} {st : Bool} {join : D → D → Bool}
    (wf : WF T K st) (hes : ExtSym T st) (hj : ∀ a b, join a b = join b a) :
    Walk.Sym (linkOf T st join) := linkOf_sym wf hes hj

/-- **C02 (sequences).** Two table k-mers (ids `x`, `y`) have their canonical forms among the k-mers of the same node
    sequence produced by the model of `compress_kmers` iff they are connected by good links. -/
theorem C02_components_seq {T : Table D} {K : Nat} {st : Bool} {join : D → D → Bool} (reduce : D → D → D)
    (wf : WF T K st) (hes : ExtSym T st) (hj : ∀ a b, join a b = join b a) :
    ∃ out, compressKmersC T st join reduce = some out ∧
      ∀ x y, x < T.length → y < T.length →
        (Walk.Conn (linkOf T st join) x y ↔
          ∃ n ∈ out, keyOf T x ∈ (windowsOf K n.1.seq).map (fun w => (canonOf st w).1) ∧
                     keyOf T y ∈ (windowsOf K n.1.seq).map (fun w => (canonOf st w).1)) := by
  obtain ⟨out, h1, h2, h3⟩ := C01_nodes_are_id_paths (join := join) reduce wf hes
  refine ⟨out, h1, ?_⟩
  intro x y hx hy
  have hc := (compress_components_concrete wf hes hj).2.2.1 x y hx
  -- keys are distinct, so membership of a key in a node's key list is membership of the id in its id list
  have key_inj : ∀ (ids : List Nat) (z : Nat), z < T.length → (∀ i ∈ ids, i < T.length) →
      (keyOf T z ∈ ids.map (keyOf T) ↔ z ∈ ids) := by
    intro ids z hz hr
    constructor
    · intro hm
      obtain ⟨i, hi, he⟩ := List.mem_map.mp hm
      have hil := hr i hi
      have : i = z := wf.distinct i z T[i] T[z] (by simp [hil]) (by simp [hz]) (by simpa [keyOf, hil, hz] using he)
      rw [← this]; exact hi
    · intro hm; exact List.mem_map.mpr ⟨z, hm, rfl⟩
  -- ids of every node are in range
  have hrange : ∀ n ∈ out, ∀ i ∈ n.2, i < T.length := by
    intro n hn i hi
    have hcov := (compress_components_concrete wf hes hj).2.1 i
    apply hcov.mp
    rw [← h2]
    exact List.mem_flatten.mpr ⟨n.2, List.mem_map.mpr ⟨n, hn, rfl⟩, hi⟩
  rw [hc]
  constructor
  · rintro ⟨N, hN, hxN, hyN⟩
    rw [← h2] at hN
    obtain ⟨n, hn, rfl⟩ := List.mem_map.mp hN
    refine ⟨n, hn, ?_, ?_⟩
    · rw [h3 n hn]; exact (key_inj n.2 x hx (hrange n hn)).mpr hxN
    · rw [h3 n hn]; exact (key_inj n.2 y hy (hrange n hn)).mpr hyN
  · rintro ⟨n, hn, hxn, hyn⟩
    rw [h3 n hn] at hxn hyn
    refine ⟨n.2, by rw [← h2]; exact List.mem_map.mpr ⟨n, hn, rfl⟩, ?_, ?_⟩
    · exact (key_inj n.2 x hx (hrange n hn)).mp hxn
    · exact (key_inj n.2 y hy (hrange n hn)).mp hyn

/-- **C02 (from reads).** For the table built from any read set (empty boundary extensions, K ≥ 4, any summarizer,
    strandedness and hash-map order): the nodes of the compressed graph are exactly the connected components of the
    good-link relation — two accepted k-mers lie in the same node sequence iff a chain of good links joins them. -/
theorem C02_from_reads (K : Nat) (hK : 4 ≤ K) (reads : List (Seq × Exts × Nat)) (hb : Filter.NoBoundary reads)
    (sm : Filter.Summarizer) (st : Bool) (join : Filter.Payload → Filter.Payload → Bool) (hj : ∀ a b, join a b = join b a)
    (reduce : Filter.Payload → Filter.Payload → Filter.Payload) (T : List (Entry Filter.Payload))
    (hp : T.Perm (Filter.removeCensoredExts st (Filter.refTable K reads sm st))) :
    ∃ out, compressKmersC T st join reduce = some out ∧
      ∀ x y, x < T.length → y < T.length →
        (Walk.Conn (linkOf T st join) x y ↔
          ∃ n ∈ out, keyOf T x ∈ (windowsOf K n.1.seq).map (fun w => (canonOf st w).1) ∧
                     keyOf T y ∈ (windowsOf K n.1.seq).map (fun w => (canonOf st w).1)) := by
  obtain ⟨wf, hes⟩ := Filter.pipeline_table_ok K (by omega) reads hb sm st T hp
  exact C02_components_seq reduce wf hes hj

end Compress
