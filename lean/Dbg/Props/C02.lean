import Dbg.Lemmas.Final
import Dbg.Spec.C01
/-! # C02 — Nodes are exactly the maximal unbranched paths

Proved (ids): two ids share a node of the model iff they are connected by links of `linkOf T` — the
availability-independent part of `try_extend_kmer`: sole extension on the leaving side, not a palindrome,
target present, sole extension on the facing side of the target, `join` accepted.  Reciprocity of `linkOf`
(`linkOf_sym`) is proved from `ExtSym`, symmetry of `join`, and canonical distinct keys. -/
namespace Compress
variable {D : Type}

/-- C02 (ids): same node ⇔ connected by good links -/
theorem C02_components {T : Table D} {K : Nat} {st : Bool} {join : D → D → Bool}
    (wf : WF T K st) (hes : ExtSym T st) (hj : ∀ a b, join a b = join b a) :
    let link := linkOf T st join
    let ns := Walk.compress link (List.range T.length) (List.range T.length)
    ∀ x y, x < T.length → (Walk.Conn link x y ↔ ∃ N ∈ ns, x ∈ N ∧ y ∈ N) :=
  (compress_components_concrete wf hes hj).2.2.1

/-- the link relation is reciprocal -/
theorem C02_link_sym {T : Table D} {K : Nat} {st : Bool} {join : D → D → Bool}
    (wf : WF T K st) (hes : ExtSym T st) (hj : ∀ a b, join a b = join b a) :
    Walk.Sym (linkOf T st join) := linkOf_sym wf hes hj

end Compress
