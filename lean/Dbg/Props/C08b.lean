import Dbg.Model.MspSeq
/-! # C07/C08 (continued) — the deprecated `simple_scan` is `Scanner::scan` with the permutation score

so everything C07 proves about the intervals of `scan` (tiling, minimality of the minimizer, lengths) holds for it, and its
bucket is the canonical rank of the minimizer reduced to 16 bits. -/
namespace Msp
open Compress (Seq Base rc rank)

theorem simpleScan_eq_scan (k p : Nat) (seq : Array Base) (perm : Array Nat) (rcMode : Bool) (out : List (Nat × Nat × Nat))
    (h : simpleScan k p seq perm rcMode = some out) :
    ∃ ivs, scan seq (permScore perm rcMode) k p = some ivs ∧
      out = ivs.map fun iv => (rank (minRc iv.mini) % 2 ^ 16, iv.start, iv.len) := by
  unfold simpleScan at h
  by_cases h1 : ¬ (k ≤ seq.size ∧ p ≤ 8 ∧ seq.size < 2 ^ 32)
  · rw [if_pos h1] at h; cases h
  · rw [if_neg h1] at h
    simp only at h
    by_cases h2 : p ≤ seq.size ∧ ¬ ((List.range (seq.size + 1 - p)).all fun q =>
        decide (rank (window seq p q) < perm.size) && (!rcMode || decide (rank (rc (window seq p q)) < perm.size))) = true
    · rw [if_pos h2] at h; cases h
    · rw [if_neg h2] at h
      cases hs : scan seq (permScore perm rcMode) k p with
      | none => rw [hs] at h; cases h
      | some ivs =>
        rw [hs] at h
        simp only [Option.some.injEq] at h
        exact ⟨ivs, rfl, h.symm⟩

end Msp
