import Dbg.Model.MspSeq
import Dbg.Props.C07
/-! # C07/C08 (continued) — the deprecated `simple_scan` is `Scanner::scan` with the permutation score

so everything C07 proves about the intervals of `scan` (tiling, minimality of the minimizer, lengths) holds for it, and its
bucket is the canonical rank of the minimizer reduced to 16 bits. -/
namespace Msp
open Compress (Seq Base rc rank)

theorem simpleScan_eq_scan (k p : Nat) (seq : Array Base) (perm : Array Nat) (rcMode : Bool) (out : List (Nat × Nat × Nat))
    (h : simpleScan k p seq perm rcMode = some out) :
    ∃ ivs, scan seq (permScore perm rcMode) k p = some ivs ∧
      out = ivs.map fun iv => (rank (minRc iv.mini) % 2 ^ 16, iv.start, iv.len) := by
  unfold simpleScan at h
  by_cases h1 : ¬ (k ≤ seq.size ∧ p ≤ 8 ∧ seq.size < 2 ^ 32)
  · rw [if_pos h1] at h; cases h
  · rw [if_neg h1] at h
    simp only at h
    by_cases h2 : p ≤ seq.size ∧ ¬ ((List.range (seq.size + 1 - p)).all fun q =>
        decide (rank (window seq p q) < perm.size) && (!rcMode || decide (rank (rc (window seq p q)) < perm.size))) = true
    · rw [if_pos h2] at h; cases h
    · rw [if_neg h2] at h
      cases hs : scan seq (permScore perm rcMode) k p with
      | none => rw [hs] at h; cases h
      | some ivs =>
        rw [hs] at h
        simp only [Option.some.injEq] at h
        exact ⟨ivs, rfl, h.symm⟩

/-- **C07 for `simple_scan`.** Inside the guard (1 ≤ p ≤ min k 8, k ≤ |seq| < 2^32, 2k−p ≤ 65535, permutation entries below 2^64 and
    covering every p-mer of the sequence) `simple_scan` returns, and its intervals are those of a scan satisfying the whole of
    C07 for the permutation score — tiling, lengths, minimality and maximal extent — reduced to `(bucket, start, len)`. -/
theorem C07_simple_scan (k p : Nat) (seq : Array Base) (perm : Array Nat) (rcMode : Bool)
    (h₁ : 1 ≤ p) (h₂ : p ≤ k) (h₃ : k ≤ seq.size) (h₄ : seq.size < 2 ^ 32) (h₅ : 2 * k - p ≤ 65535) (h₈ : p ≤ 8)
    (h₆ : ∀ x ∈ perm.toList, x < 2 ^ 64)
    (h₇ : ∀ q, q < seq.size + 1 - p → rank (window seq p q) < perm.size ∧ rank (rc (window seq p q)) < perm.size) :
    ∃ ivs, HoldsC07 seq (permScore perm rcMode) k p ivs ∧
      simpleScan k p seq perm rcMode = some (ivs.map fun iv => (rank (minRc iv.mini) % 2 ^ 16, iv.start, iv.len)) := by
  have hsc : ∀ w, permScore perm rcMode w < 2 ^ 64 := by
    intro w
    have hget : ∀ i : Nat, (perm[i]?).getD 0 < 2 ^ 64 := by
      intro i
      cases hi : perm[i]? with
      | none => simp
      | some x =>
        simp only [Option.getD_some]
        have hlt : i < perm.size := (Array.getElem?_eq_some_iff.mp hi).1
        have hx : perm[i] = x := (Array.getElem?_eq_some_iff.mp hi).2
        exact h₆ x (by rw [← hx]; exact Array.getElem_mem_toList hlt)
    unfold permScore
    simp only
    split
    · exact Nat.lt_of_le_of_lt (Nat.min_le_left _ _) (hget _)
    · exact hget _
  obtain ⟨ivs, hs, hh⟩ := C07_scan_valid seq (permScore perm rcMode) k p h₁ h₂ h₃ h₄ h₅ hsc
  refine ⟨ivs, hh, ?_⟩
  unfold simpleScan
  rw [if_neg (by simp; exact ⟨h₃, h₈, h₄⟩)]
  simp only
  have hin : ((List.range (seq.size + 1 - p)).all fun q =>
      decide (rank (window seq p q) < perm.size) && (!rcMode || decide (rank (rc (window seq p q)) < perm.size))) = true := by
    rw [List.all_eq_true]
    intro q hq
    obtain ⟨a, b⟩ := h₇ q (List.mem_range.mp hq)
    simp [a, b]
  rw [if_neg (by simp [hin]), hs]

end Msp
