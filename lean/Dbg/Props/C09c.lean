import Dbg.Lemmas.Idempotent
import Dbg.Props.C20
/-! # C09 / C03 / C20 — the result of `compress_graph` is again a well-formed graph; re-compression is idempotent

`Compress.pgraph_compressGraph`: the graph returned by `compress_graph` (constantly-true join, no censoring) on a *ported*
graph — the graph `compress_kmers` builds from a table, or the shard graphs side by side — is again ported, into the
pruned table.  Consequences, for every graph built from a well-formed reciprocal table with any symmetric join predicate:
the result satisfies the node-level invariant `GInv` (so its edges are symmetric, `C03_edges_symmetric`, and its GFA
export is complete, `gfa_links_complete_ginv`), `find_link` is complete on it, and compressing it again changes nothing
but node order and orientation. -/
namespace CompressGraph
open Compress (Table WF SameParts Node compressKmersC PGraph)
open Graph (G GInv findLink termKmer)
open Filter (has removeCensoredExts)
variable {D : Type}

/-- **C09 / C03 (the result is well-formed).** `compress_kmers(T, join0)` followed by `compress_graph` returns a graph
    that satisfies `GInv` and `PalEnd`, and on which a recorded node extension resolves through `find_link` iff the k-mer
    it leads to is a key of the table. -/
theorem C09_result_wellformed {T : Table D} {K : Nat} {st : Bool} (wf : WF T K st) (hes2 : Filter.ExtSym2 T st)
    (reduce : D → D → D) (join0 : D → D → Bool) (hj0 : ∀ a b, join0 a b = join0 b a)
    (out : List (Node D × List Nat)) (ho : compressKmersC T st join0 reduce = some out) :
    ∃ g' paths, compressGraph st (⟨K, out.map (·.1), st⟩ : G D) (fun _ _ => true) reduce [] = some (g', paths) ∧
      GInv g' ∧ PalEnd g' ∧
      ∀ (i : Nat) (n : Node D) (s : Walk.Dir) (β : Compress.Base), g'.nodes[i]? = some n → has n.exts s β →
        ((findLink g' (Compress.extend (termKmer g'.K n.seq s) β s) s).isSome ↔
          (Compress.canonSt st (Compress.extend (termKmer g'.K n.seq s) β s)).1 ∈ T.map (·.key)) := by
  obtain ⟨port, members, pg, _⟩ := Compress.pgraph_of_compress reduce wf hes2.toExtSym hj0 out ho
  obtain ⟨g', paths, port', mem', hcg, hK, hst, pg3, _, _⟩ := Compress.pgraph_compressGraph pg wf hes2 reduce
  have wf1 := Filter.wf_removeCensored st T K wf
  have hes1 := Filter.extSym2_removeCensored st T K wf hes2
  have wf2 := Filter.wf_removeCensored st _ K wf1
  have hes2' := Filter.extSym2_removeCensored st _ K wf1 hes1
  have heta := Compress.graph_eta g' K st hK hst
  refine ⟨g', paths, hcg, ?_, ?_, ?_⟩
  · rw [heta]; exact pg3.ginv wf2 hes2'
  · intro i n s hstf hi hrc
    rw [hK] at hrc ⊢
    exact pg3.palEnd i n s (by rw [← hst]; exact hstf) hi hrc
  · intro i n s β hi hβ
    have h := pg3.edge_iff wf2 hes2' i n hi s β hβ
    rw [hK]
    rw [← heta] at h
    rw [h, Compress.keys_pruned, Compress.keys_pruned]

/-- **C09 (idempotence).** Re-compressing an already re-compressed graph changes nothing but node order and orientation:
    both calls return, every node of the second result is exactly one node of the first (each path has one entry), the
    node counts agree and so do the partitions of the k-mers into nodes. -/
theorem C09_idempotent {T : Table D} {K : Nat} {st : Bool} (wf : WF T K st) (hes2 : Filter.ExtSym2 T st)
    (reduce : D → D → D) (join0 : D → D → Bool) (hj0 : ∀ a b, join0 a b = join0 b a)
    (out : List (Node D × List Nat)) (ho : compressKmersC T st join0 reduce = some out) :
    ∃ g' paths g'' paths'', compressGraph st (⟨K, out.map (·.1), st⟩ : G D) (fun _ _ => true) reduce [] = some (g', paths) ∧
      compressGraph st g' (fun _ _ => true) reduce [] = some (g'', paths'') ∧
      (∀ p ∈ paths'', ∃ X, ids p = [X]) ∧ g''.nodes.length = g'.nodes.length ∧ SameParts K st g''.nodes g'.nodes := by
  obtain ⟨port, members, pg, _⟩ := Compress.pgraph_of_compress reduce wf hes2.toExtSym hj0 out ho
  exact Compress.pgraph_recompress_idem pg wf hes2 reduce

/-- **C20 (GFA completeness after re-compression).** In the export of the re-compressed graph every adjacency between
    nodes of more than one k-mer is written. -/
theorem C20_gfa_complete_after_recompress {T : Table D} {K : Nat} {st : Bool} (wf : WF T K st) (hes2 : Filter.ExtSym2 T st)
    (reduce : D → D → D) (join0 : D → D → Bool) (hj0 : ∀ a b, join0 a b = join0 b a)
    (out : List (Node D × List Nat)) (ho : compressKmersC T st join0 reduce = some out) :
    ∃ g' paths, compressGraph st (⟨K, out.map (·.1), st⟩ : G D) (fun _ _ => true) reduce [] = some (g', paths) ∧
      ∀ (all : List Export.GfaLink), Export.allLinks g' = some all →
        ∀ (u : Nat) (d : Walk.Dir) (v : Nat) (s : Walk.Dir) (f : Bool) (es : List Graph.Edge),
          Graph.findEdges g' u d = some es → (v, s, f) ∈ es →
          (∀ nu, g'.nodes[u]? = some nu → nu.seq.length ≠ g'.K) → ¬ Graph.PalNode g' v → Export.Listed all u d v s := by
  obtain ⟨g', paths, hcg, hg, _, _⟩ := C09_result_wellformed wf hes2 reduce join0 hj0 out ho
  exact ⟨g', paths, hcg, fun all h u d v s f es he hm hnu hnv =>
    Export.gfa_links_complete_ginv g' hg all h u d v s f es he hm hnu hnv⟩

end CompressGraph
