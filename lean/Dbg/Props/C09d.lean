import Dbg.Model.Graph
/-! # C09 (continued) — the tip finder that feeds `compress_graph`'s censor list

`CleanGraph::find_bad_nodes` returns, in ascending order and without repetition, exactly the nodes that are dead ends
(no extension on one side, at most one on the other) and satisfy the caller's predicate. -/
namespace Graph
open Compress (Node)
open Walk (Dir)
variable {D : Type}

/-- a dead end: no extension on one side and at most one on the other -/
def IsDeadEnd (n : Node D) : Prop :=
  (n.exts.numExtDir .L = 0 ∧ n.exts.numExtDir .R ≤ 1) ∨ (n.exts.numExtDir .R = 0 ∧ n.exts.numExtDir .L ≤ 1)

theorem testTip_iff (n : Node D) (pred : Node D → Bool) : testTip n pred = true ↔ IsDeadEnd n ∧ pred n = true := by
  unfold testTip IsDeadEnd
  simp only
  split
  · rename_i h
    simp only [Bool.and_eq_true, decide_eq_true_eq] at h
    constructor
    · intro hf; cases hf
    · rintro ⟨h1 | h1, _⟩ <;> omega
  · simp only [Bool.and_eq_true, Bool.or_eq_true, beq_iff_eq, decide_eq_true_eq]

/-- **C09 (censor list from the tip finder).** -/
theorem C09_findBadNodes (g : G D) (pred : Node D → Bool) :
    (∀ i, i ∈ findBadNodes g pred ↔ ∃ n, g.nodes[i]? = some n ∧ IsDeadEnd n ∧ pred n = true) ∧
    (findBadNodes g pred).Pairwise (· < ·) := by
  refine ⟨fun i => ?_, ?_⟩
  · unfold findBadNodes
    rw [List.mem_filter, List.mem_range]
    constructor
    · rintro ⟨hi, h⟩
      cases hn : g.nodes[i]? with
      | none => rw [hn] at h; cases h
      | some n =>
        rw [hn] at h
        exact ⟨n, rfl, (testTip_iff n pred).mp h⟩
    · rintro ⟨n, hn, h⟩
      refine ⟨(List.getElem?_eq_some_iff.mp hn).1, ?_⟩
      rw [hn]; exact (testTip_iff n pred).mpr h
  · unfold findBadNodes
    exact List.Pairwise.filter _ (List.pairwise_lt_range)

end Graph
