import Dbg.Props.C06
import Dbg.Props.C04
import Dbg.Lemmas.Payload
/-! # C06 (continued) — the partition of every pipeline variant is invariant under reverse-complementing reads

From the table-level invariance (`C06_tables_agree`: same keys and payloads, same extension bytes except at
self-complementary keys), the fact that good links never read the byte of a self-complementary k-mer
(`krel_contentW`), and the characterisation of both pipelines as the classes of the key-level good-link relation of the
pruned table (`direct_classes`, `C04_sharded_eq_direct`). -/
namespace Pipeline
open Compress (Seq Exts Node Table SameParts Classes KConn ContentLeW TableAgree canonKeys)
open Filter (refTable plainRead Summarizer removeCensoredExts)

theorem sameParts_symm {D : Type} {K : Nat} {st : Bool} {A B : List (Node D)} (h : SameParts K st A B) : SameParts K st B A :=
  ⟨h.2, h.1⟩

theorem sameParts_trans {D : Type} {K : Nat} {st : Bool} {A B C : List (Node D)} (h1 : SameParts K st A B) (h2 : SameParts K st B C) :
    SameParts K st A C := by
  constructor
  · intro n hn
    obtain ⟨m, hm, e1⟩ := h1.1 n hn
    obtain ⟨l, hl, e2⟩ := h2.1 m hm
    exact ⟨l, hl, fun k => (e1 k).trans (e2 k)⟩
  · intro l hl
    obtain ⟨m, hm, e1⟩ := h2.2 l hl
    obtain ⟨n, hn, e2⟩ := h1.2 m hm
    exact ⟨n, hn, fun k => (e1 k).trans (e2 k)⟩

/-- pruning two agreeing tables gives tables with the same content up to the bytes of self-complementary keys -/
theorem pruned_contentW {D : Type} {st : Bool} {T T' : Table D} (h : TableAgree st T T') :
    ContentLeW st (removeCensoredExts st T) (removeCensoredExts st T') := by
  intro ea hea
  obtain ⟨i, hi⟩ := Compress.mem_index _ ea hea
  obtain ⟨e0, h0, hk, hd, h8, hx⟩ := (Filter.removeCensored_exact st T).2 i ea hi
  obtain ⟨e0', h0', hk', hd', hex'⟩ := h.get i e0 h0
  have hlt : i < (removeCensoredExts st T').length := by
    rw [(Filter.removeCensored_exact st T').1]; exact (List.getElem?_eq_some_iff.mp h0').1
  obtain ⟨e1, h1, hk1, hd1, h81, hx1⟩ := (Filter.removeCensored_exact st T').2 i _ (List.getElem?_eq_getElem hlt)
  rw [h0'] at h1; cases h1
  refine ⟨_, List.getElem_mem hlt, by rw [hk, hk1, hk'], by rw [hd, hd1, hd'], fun hp d => ?_⟩
  apply Compress.dirBits_ext _ _ h8 h81 d
  intro c
  rw [hx d c, hx1 d c, hk', h.keys, hex' (by rw [← hk]; exact hp)]

theorem classes_transfer {E E' : Seq → Seq → Prop} {keys : List Seq} {parts : List (List Seq)}
    (h : Classes E keys parts) (he : ∀ k1 k2, E k1 k2 ↔ E' k1 k2) : Classes E' keys parts :=
  ⟨h.nonempty, h.sub, h.cover, fun P hP k1 hk1 k2 hk2 => (h.same P hP k1 hk1 k2 hk2).trans (he k1 k2)⟩

/-- **the one-pass pipeline yields the classes of the pruned table's good-link relation**, for any hash order -/
theorem direct_pipeline_classes (K : Nat) (hK : 4 ≤ K) (reads : List (Seq × Exts × Nat)) (hb : Filter.NoBoundary reads)
    (st : Bool) (thr : Nat) (dsigma : List Nat)
    (hds : dsigma.Perm (List.range (refTable K reads (.count thr) st).length)) :
    ∃ gd, direct K reads st thr dsigma = some gd ∧
      Classes (KConn (removeCensoredExts st (refTable K reads (.count thr) st)) st (fun _ _ => true))
        ((removeCensoredExts st (refTable K reads (.count thr) st)).map (·.key)) (gd.nodes.map (canonKeys K st)) := by
  have hK1 : 1 ≤ K := by omega
  generalize hR : refTable K reads (.count thr) st = R at *
  have wfR : Compress.WF R K st := by rw [← hR]; exact Filter.refTable_wf K hK1 _ hb _ st
  have hesR : Filter.ExtSym2 R st := by rw [← hR]; exact Filter.refTable_extSym2 K hK1 _ hb _ st
  have wfRp := Filter.wf_removeCensored st R K wfR
  have hesRp := Filter.extSym2_removeCensored st R K wfR hesR
  let Td : Table Filter.Payload := dsigma.filterMap fun i => (removeCensoredExts st R)[i]?
  have hpd : Td.Perm (removeCensoredExts st R) := by
    apply Compress.perm_of_sigma
    rw [(Filter.removeCensored_exact st R).1]; exact hds
  have wfd := Filter.wf_perm st _ Td K hpd wfRp
  have hesd := Filter.extSym2_perm st _ Td K hpd wfRp hesRp
  obtain ⟨outd, hod, hcd⟩ := Compress.direct_classes (fun _ _ => true) (fun _ _ => rfl) sumReduce wfRp wfd hesd hpd
  refine ⟨⟨K, outd.map (·.1), st⟩, ?_, hcd⟩
  unfold direct
  obtain ⟨fr, hfr, ht, _⟩ := Filter.filterKmers_eq_ref K reads (.count thr) st false 4 Gen.filterBytesPerUnit 16 hK (by decide) (by decide)
  rw [hfr]
  simp only
  rw [ht, hR]
  have : Compress.compressKmersC (dsigma.filterMap fun i => (removeCensoredExts st R)[i]?) st (fun _ _ => true) sumReduce = some outd := hod
  rw [this]

/-- **C06 (graph, one-pass pipeline, any hash orders).** Unstranded: replacing any subset of the reads by their reverse
    complements changes the partition of the k-mers into nodes of the one-pass pipeline neither for equal nor for
    different orders of the two hash maps. -/
theorem C06_direct_rc_invariant (K : Nat) (hK : 4 ≤ K) (reads : List (Seq × Exts × Nat)) (hb : Filter.NoBoundary reads)
    (thr : Nat) (m : Nat → Bool) (dsigma dsigma' : List Nat)
    (hds : dsigma.Perm (List.range (refTable K reads (.count thr) false).length))
    (hds' : dsigma'.Perm (List.range (refTable K (Filter.flipReads m 0 reads) (.count thr) false).length)) :
    ∃ gd gd', direct K reads false thr dsigma = some gd ∧ direct K (Filter.flipReads m 0 reads) false thr dsigma' = some gd' ∧
      SameParts K false gd.nodes gd'.nodes := by
  have hK1 : 1 ≤ K := by omega
  have hb' : Filter.NoBoundary (Filter.flipReads m 0 reads) := by
    have : ∀ (k : Nat) (l : List (Seq × Exts × Nat)), Filter.NoBoundary l → Filter.NoBoundary (Filter.flipReads m k l) := by
      intro k l
      induction l generalizing k with
      | nil => intro _ r hr; cases hr
      | cons a t ih =>
        intro h r hr
        unfold Filter.flipReads at hr
        rcases List.mem_cons.mp hr with rfl | hr'
        · split
          · exact h a (List.mem_cons_self ..)
          · exact h a (List.mem_cons_self ..)
        · exact ih (k + 1) (fun r' hr'' => h r' (List.mem_cons_of_mem _ hr'')) r hr'
    exact this 0 reads hb
  obtain ⟨gd, h1, c1⟩ := direct_pipeline_classes K hK reads hb false thr dsigma hds
  obtain ⟨gd', h2, c2⟩ := direct_pipeline_classes K hK (Filter.flipReads m 0 reads) hb' false thr dsigma' hds'
  refine ⟨gd, gd', h1, h2, ?_⟩
  have hag := Compress.C06_tables_agree K hK1 reads hb (.count thr) m
  generalize hR : refTable K reads (.count thr) false = R at *
  generalize hR' : refTable K (Filter.flipReads m 0 reads) (.count thr) false = R' at *
  have wfR : Compress.WF R K false := by rw [← hR]; exact Filter.refTable_wf K hK1 _ hb _ false
  have wfR' : Compress.WF R' K false := by rw [← hR']; exact Filter.refTable_wf K hK1 _ hb' _ false
  have wfRp := Filter.wf_removeCensored false R K wfR
  have wfRp' := Filter.wf_removeCensored false R' K wfR'
  have cw := pruned_contentW hag
  have cw' := pruned_contentW hag.symm
  have hkeys : (removeCensoredExts false R').map (·.key) = (removeCensoredExts false R).map (·.key) := by
    rw [Compress.keys_pruned, Compress.keys_pruned]; exact hag.keys
  rw [hkeys] at c2
  have c2' := classes_transfer c2 (fun k1 k2 =>
    ⟨Compress.kconn_contentW _ wfRp cw' k1 k2, Compress.kconn_contentW _ wfRp' cw k1 k2⟩)
  exact Compress.sameParts_of_classes c1 c2'

/-- the one-pass pipeline: every node carries the saturated sum of the reference table's counts of its k-mers, and lists
    each of its k-mers once -/
theorem direct_pipeline_kdata (K : Nat) (hK : 4 ≤ K) (reads : List (Seq × Exts × Nat)) (hb : Filter.NoBoundary reads)
    (st : Bool) (thr : Nat) (dsigma : List Nat)
    (hds : dsigma.Perm (List.range (refTable K reads (.count thr) st).length)) :
    ∃ gd, direct K reads st thr dsigma = some gd ∧
      ∀ n ∈ gd.nodes, Compress.KData (refTable K reads (.count thr) st) K st n ∧ (canonKeys K st n).Nodup ∧
        ∀ k ∈ canonKeys K st n, k ∈ (refTable K reads (.count thr) st).map (·.key) := by
  have hK1 : 1 ≤ K := by omega
  have hgR := Compress.refTable_goodData K reads thr st
  generalize hR : refTable K reads (.count thr) st = R at *
  have wfR : Compress.WF R K st := by rw [← hR]; exact Filter.refTable_wf K hK1 _ hb _ st
  have hesR : Filter.ExtSym2 R st := by rw [← hR]; exact Filter.refTable_extSym2 K hK1 _ hb _ st
  have wfRp := Filter.wf_removeCensored st R K wfR
  have hesRp := Filter.extSym2_removeCensored st R K wfR hesR
  let Td : Table Filter.Payload := dsigma.filterMap fun i => (removeCensoredExts st R)[i]?
  have hpd : Td.Perm (removeCensoredExts st R) := by
    apply Compress.perm_of_sigma
    rw [(Filter.removeCensored_exact st R).1]; exact hds
  have wfd := Filter.wf_perm st _ Td K hpd wfRp
  have hesd := Filter.extSym2_perm st _ Td K hpd wfRp hesRp
  -- entries of Td are entries of R with the same key and payload
  have hent : ∀ ed ∈ Td, ∃ e0 ∈ R, ed.key = e0.key ∧ ed.data = e0.data := by
    intro ed hed
    obtain ⟨i, hi⟩ := Compress.mem_index _ ed (hpd.mem_iff.mp hed)
    obtain ⟨e0, h0, hk, hd, _⟩ := (Filter.removeCensored_exact st R).2 i ed hi
    exact ⟨e0, List.mem_of_getElem? h0, hk, hd⟩
  have hgd : Compress.GoodData Td := by
    intro e he
    obtain ⟨e0, he0, _, hd⟩ := hent e he
    rw [hd]; exact hgR e0 he0
  obtain ⟨outd, hod, _, _⟩ := Compress.compressKmersC_partition (join := fun _ _ => true) sumReduce wfd hesd.toExtSym (fun _ _ => rfl)
  have hkdd := Compress.compress_kdata wfd hesd.toExtSym (fun _ _ => rfl) hgd outd hod
  obtain ⟨portd, memd, pgd, _⟩ := Compress.pgraph_of_compress sumReduce wfd hesd.toExtSym (fun _ _ => rfl) outd hod
  refine ⟨⟨K, outd.map (·.1), st⟩, ?_, ?_⟩
  · unfold direct
    obtain ⟨fr, hfr, ht, _⟩ := Filter.filterKmers_eq_ref K reads (.count thr) st false 4 Gen.filterBytesPerUnit 16 hK (by decide) (by decide)
    rw [hfr]
    simp only
    rw [ht, hR]
    have : Compress.compressKmersC (dsigma.filterMap fun i => (removeCensoredExts st R)[i]?) st (fun _ _ => true) sumReduce = some outd := hod
    rw [this]
  · intro n hn
    obtain ⟨x, hx, rfl⟩ := List.mem_map.mp hn
    obtain ⟨j, hj, ej⟩ := List.getElem_of_mem hn
    have hsub := Compress.built_keys_sub wfd hesd.toExtSym (fun _ _ => rfl) outd hod x hx
    have hkeyR : ∀ k ∈ canonKeys K st x.1, k ∈ R.map (·.key) ∧ Compress.cntK Td k = Compress.cntK R k := by
      intro k hk
      obtain ⟨ed, hed, hked⟩ := List.mem_map.mp (hsub k hk)
      obtain ⟨e0, he0, hk0, hd0⟩ := hent ed hed
      refine ⟨by rw [← hked, hk0]; exact List.mem_map_of_mem he0, ?_⟩
      rw [← hked, Compress.cntK_of_mem wfd ed hed, hk0, Compress.cntK_of_mem wfR e0 he0, hd0]
    exact ⟨Compress.kdata_congr x.1 (fun k hk => (hkeyR k hk).2) (hkdd x hx),
      pgd.canonKeys_nodup wfd j x.1 (by rw [List.getElem?_eq_getElem hj, ej]), fun k hk => (hkeyR k hk).1⟩

/-- **C06 (payloads, one-pass pipeline).** Unstranded: nodes of the two runs (original reads / partly reverse-complemented
    reads, any hash orders) that have the same k-mers have the same payload. -/
theorem C06_direct_payload_rc_invariant (K : Nat) (hK : 4 ≤ K) (reads : List (Seq × Exts × Nat)) (hb : Filter.NoBoundary reads)
    (thr : Nat) (m : Nat → Bool) (dsigma dsigma' : List Nat)
    (hds : dsigma.Perm (List.range (refTable K reads (.count thr) false).length))
    (hds' : dsigma'.Perm (List.range (refTable K (Filter.flipReads m 0 reads) (.count thr) false).length)) :
    ∃ gd gd', direct K reads false thr dsigma = some gd ∧ direct K (Filter.flipReads m 0 reads) false thr dsigma' = some gd' ∧
      ∀ n ∈ gd.nodes, ∀ n' ∈ gd'.nodes, (∀ k, k ∈ canonKeys K false n ↔ k ∈ canonKeys K false n') → n.data = n'.data := by
  have hK1 : 1 ≤ K := by omega
  have hb' : Filter.NoBoundary (Filter.flipReads m 0 reads) := by
    have : ∀ (k : Nat) (l : List (Seq × Exts × Nat)), Filter.NoBoundary l → Filter.NoBoundary (Filter.flipReads m k l) := by
      intro k l
      induction l generalizing k with
      | nil => intro _ r hr; cases hr
      | cons a t ih =>
        intro h r hr
        unfold Filter.flipReads at hr
        rcases List.mem_cons.mp hr with rfl | hr'
        · split
          · exact h a (List.mem_cons_self ..)
          · exact h a (List.mem_cons_self ..)
        · exact ih (k + 1) (fun r' hr'' => h r' (List.mem_cons_of_mem _ hr'')) r hr'
    exact this 0 reads hb
  obtain ⟨gd, h1, c1⟩ := direct_pipeline_kdata K hK reads hb false thr dsigma hds
  obtain ⟨gd', h2, c2⟩ := direct_pipeline_kdata K hK (Filter.flipReads m 0 reads) hb' false thr dsigma' hds'
  refine ⟨gd, gd', h1, h2, fun n hn n' hn' hk => ?_⟩
  have hag := Compress.C06_tables_agree K hK1 reads hb (.count thr) m
  have wfR := Filter.refTable_wf K hK1 reads hb (.count thr) false
  have wfR' := Filter.refTable_wf K hK1 _ hb' (.count thr) false
  obtain ⟨kd, nd, hsub⟩ := c1 n hn
  obtain ⟨kd', nd', _⟩ := c2 n' hn'
  apply Compress.data_eq_of_same_keys n n' kd kd' nd nd' hk
  intro k hkn
  obtain ⟨e, he, hke⟩ := List.mem_map.mp (hsub k hkn)
  obtain ⟨i, hi⟩ := Compress.mem_index _ e he
  obtain ⟨e', hi', hk', hd', _⟩ := hag.get i e hi
  rw [← hke, Compress.cntK_of_mem wfR e he, ← hk', Compress.cntK_of_mem wfR' e' (List.mem_of_getElem? hi'), hd']

/-- reverse-complement the reads selected by `m` -/
def flipSeqs (m : Nat → Bool) (k : Nat) : List Seq → List Seq
  | [] => []
  | r :: rest => (if m k then Compress.rc r else r) :: flipSeqs m (k + 1) rest

theorem flipReads_plain (m : Nat → Bool) : ∀ (k : Nat) (l : List Seq),
    Filter.flipReads m k (l.map plainRead) = (flipSeqs m k l).map plainRead := by
  intro k l
  induction l generalizing k with
  | nil => rfl
  | cons a t ih =>
    simp only [List.map_cons, Filter.flipReads, flipSeqs]
    rw [ih (k + 1)]
    split <;> rfl

theorem flipSeqs_len (m : Nat → Bool) : ∀ (k : Nat) (l : List Seq) (b : Nat), (∀ r ∈ l, r.length < b) → ∀ r ∈ flipSeqs m k l, r.length < b := by
  intro k l
  induction l generalizing k with
  | nil => intro b _ r hr; cases hr
  | cons a t ih =>
    intro b h r hr
    unfold flipSeqs at hr
    rcases List.mem_cons.mp hr with rfl | hr'
    · split
      · rw [Compress.rc_length]; exact h a (List.mem_cons_self ..)
      · exact h a (List.mem_cons_self ..)
    · exact ih (k + 1) b (fun r' hr'' => h r' (List.mem_cons_of_mem _ hr'')) r hr'

/-- **C06 (graph, every pipeline variant).** Unstranded, every read set, every subset of reads reverse-complemented, every
    configuration inside `msp_sequence`'s contract, with or without sharded pruning, every hash order on either side:
    the sharded (minimizer-partitioned, combined, re-compressed) pipeline run on the original reads and run on the
    modified reads never panics and yields the same partition of the k-mers into nodes; the same holds for the one-pass
    pipeline (`C06_direct_rc_invariant`) and across the two (`C04_sharded_eq_direct`). -/
theorem C06_sharded_rc_invariant (K P : Nat) (reads : List Seq) (perm : Option (Array Nat)) (thr : Nat) (prune prune' : Bool)
    (m : Nat → Bool) (sigmas sigmas' : List (List Nat)) (dsigma dsigma' : List Nat) (cfg : ShardCfg K P reads perm)
    (hs : SigmasOK K P reads perm false thr sigmas dsigma)
    (hs' : SigmasOK K P (flipSeqs m 0 reads) perm false thr sigmas' dsigma') :
    ∃ gs gs', sharded K P reads perm false thr prune sigmas = some gs ∧
      sharded K P (flipSeqs m 0 reads) perm false thr prune' sigmas' = some gs' ∧ SameParts K false gs.nodes gs'.nodes := by
  have cfg' : ShardCfg K P (flipSeqs m 0 reads) perm :=
    ⟨cfg.p1, cfg.pk, cfg.k4, cfg.span, flipSeqs_len m 0 reads _ cfg.short, cfg.psize, cfg.pinj, cfg.pval⟩
  obtain ⟨gs, gd, h1, h2, e1, _⟩ := C04_sharded_eq_direct K P reads perm false thr prune sigmas dsigma cfg hs
  obtain ⟨gs', gd', h1', h2', e1', _⟩ := C04_sharded_eq_direct K P (flipSeqs m 0 reads) perm false thr prune' sigmas' dsigma' cfg' hs'
  have hnb : Filter.NoBoundary (reads.map plainRead) := by
    intro r hr; obtain ⟨r0, _, rfl⟩ := List.mem_map.mp hr; rfl
  obtain ⟨g1, g2, d1, d2, e2⟩ := C06_direct_rc_invariant K cfg.k4 (reads.map plainRead) hnb thr m dsigma dsigma' hs.directOK
    (by rw [flipReads_plain]; exact hs'.directOK)
  rw [flipReads_plain] at d2
  rw [h2] at d1; cases d1
  rw [h2'] at d2; cases d2
  exact ⟨gs, gs', h1, h1', sameParts_trans e1 (sameParts_trans e2 (sameParts_symm e1'))⟩

end Pipeline
