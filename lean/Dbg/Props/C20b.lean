import Dbg.Model.Export
/-! # C20 (continued) — the hand-rolled JSON writer emits the intended document

`toJsonRestImp` follows `to_json_rest` statement by statement: index tests decide between `,\n` and `\n` after a node,
a `wrote_any` flag puts `,\n` before every group of links but the first, `idx < edges.len() - 1` puts `,` after every link
of a group but the last (the dangling comma of defect D5 lived here).  `jsonDoc` is the document it is meant to write:
two arrays whose items are *separated* by commas.  They are equal for every graph, payload rendering and `rest`. -/
namespace Export
open Compress (Seq Node)
open Walk (Dir)
open Graph
variable {D : Type}

/-- a comma after every item but the last one (`idx < n - 1`) = the items separated by commas -/
theorem sepFold {α : Type} (f : α → String) (sep : String) (n : Nat) : ∀ (es : List α) (k : Nat) (acc : String),
    k + es.length = n →
    (es.zipIdx k).foldl (fun acc (ei : α × Nat) => acc ++ f ei.1 ++ (if ei.2 < n - 1 then sep else "")) acc =
      acc ++ sep.intercalate (es.map f) := by
  intro es
  induction es with
  | nil => intro k acc _; simp
  | cons a t ih =>
    intro k acc hk
    rw [List.zipIdx_cons, List.foldl_cons, ih (k + 1) _ (by simp at hk ⊢; omega)]
    cases t with
    | nil =>
      have : ¬ (k < n - 1) := by simp at hk; omega
      simp [this]
    | cons b t' =>
      have : k < n - 1 := by simp at hk; omega
      simp only [this, if_true, List.map_cons]
      rw [String.intercalate_cons_cons]
      simp only [List.map_cons, String.append_assoc]

theorem edgesToJsonImp_eq (i : Nat) (es : List (Nat × Dir × Bool)) :
    edgesToJsonImp i es = ",".intercalate (es.map (linkJson i)) := by
  unfold edgesToJsonImp
  rw [sepFold (linkJson i) "," es.length es 0 "" (by simp)]
  simp

/-- `\n` after the item with index `n - 1`, `,\n` after the others = the items separated by `,\n`, then `\n` -/
theorem nodesFold (n : Nat) : ∀ (items : List String) (k : Nat) (acc : String), k + items.length = n → items ≠ [] →
    (items.zipIdx k).foldl (fun acc (si : String × Nat) => acc ++ si.1 ++ (if si.2 = n - 1 then "\n" else ",\n")) acc =
      acc ++ ",\n".intercalate items ++ "\n" := by
  intro items
  induction items with
  | nil => intro k acc _ h; exact absurd rfl h
  | cons a t ih =>
    intro k acc hk _
    rw [List.zipIdx_cons, List.foldl_cons]
    cases t with
    | nil =>
      have : k = n - 1 := by simp at hk; omega
      simp [this]
    | cons b t' =>
      have : ¬ (k = n - 1) := by simp at hk; omega
      rw [ih (k + 1) _ (by simp at hk ⊢; omega) (by simp)]
      simp only [this, if_false]
      rw [String.intercalate_cons_cons]
      simp only [String.append_assoc]

theorem nodesImp_eq (items : List String) :
    nodesImp items.length items = if items.isEmpty then "" else ",\n".intercalate items ++ "\n" := by
  unfold nodesImp
  cases items with
  | nil => rfl
  | cons a t =>
    rw [nodesFold (a :: t).length (a :: t) 0 "" (by simp) (by simp)]
    simp

theorem linkGroups_cons (es : List (Nat × Dir × Bool)) (t : List (List (Nat × Dir × Bool))) (k : Nat) :
    linkGroups (es :: t) k = if es.isEmpty then linkGroups t (k + 1) else ",".intercalate (es.map (linkJson k)) :: linkGroups t (k + 1) := by
  unfold linkGroups
  rw [List.zipIdx_cons, List.filter_cons]
  cases es.isEmpty <;> simp

/-- the `wrote_any` loop: the groups of the nodes that have right edges, separated by `,\n` -/
theorem linksFold : ∀ (all : List (List (Nat × Dir × Bool))) (k : Nat) (G : List String),
    (all.zipIdx k).foldl (fun (acc : String × Bool) (ei : List (Nat × Dir × Bool) × Nat) =>
      if ei.1.isEmpty then acc
      else ((if acc.2 then acc.1 ++ ",\n" else acc.1) ++ edgesToJsonImp ei.2 ei.1, true)) (",\n".intercalate G, !G.isEmpty) =
    (",\n".intercalate (G ++ linkGroups all k), !(G ++ linkGroups all k).isEmpty) := by
  intro all
  induction all with
  | nil => intro k G; simp [linkGroups]
  | cons es t ih =>
    intro k G
    rw [List.zipIdx_cons, List.foldl_cons, linkGroups_cons]
    by_cases he : es.isEmpty = true
    · simp only [he, if_true]
      exact ih (k + 1) G
    · simp only [he, Bool.false_eq_true, if_false]
      have step : ((if (!G.isEmpty) = true then ",\n".intercalate G ++ ",\n" else ",\n".intercalate G) ++ edgesToJsonImp k es, true) =
          (",\n".intercalate (G ++ [",".intercalate (es.map (linkJson k))]), !(G ++ [",".intercalate (es.map (linkJson k))]).isEmpty) := by
        rw [edgesToJsonImp_eq]
        cases G with
        | nil => simp
        | cons g0 G' =>
          rw [String.intercalate_append_of_ne_nil (by simp) (by simp)]
          simp
      rw [step, ih (k + 1) (G ++ [",".intercalate (es.map (linkJson k))])]
      simp [List.append_assoc]

theorem linksImp_eq (all : List (List (Nat × Dir × Bool))) :
    linksImp all = (",\n".intercalate (linkGroups all 0), !(linkGroups all 0).isEmpty) := by
  unfold linksImp
  have := linksFold all 0 []
  simpa using this

theorem restFold (kvs : List (String × String)) : ∀ (acc : String),
    kvs.foldl (fun acc (kv : String × String) => acc ++ ",\n" ++ jsonStr kv.1 ++ ": " ++ kv.2 ++ "\n") acc =
      acc ++ String.join (kvs.map fun (kv : String × String) => ",\n" ++ jsonStr kv.1 ++ ": " ++ kv.2 ++ "\n") := by
  induction kvs with
  | nil => intro acc; simp
  | cons a t ih =>
    intro acc
    rw [List.foldl_cons, ih]
    simp [String.append_assoc]

/-- **C20 (JSON).** For every graph, payload rendering and `rest` object the writer — with its index tests, its `wrote_any`
    flag and its per-group comma test — emits exactly the document `jsonDoc`: an object whose `nodes` array has one object
    per node and whose `links` array has one object per right-going link, the items of each array separated (never
    followed) by commas; both arrays are empty brackets for empty and link-free graphs. -/
theorem C20_json_writer_eq_document (g : G D) (fmt : D → String) (rest : Option (List (String × String))) :
    toJsonRestImp g fmt rest = jsonDoc g fmt rest := by
  unfold toJsonRestImp jsonDoc
  simp only
  cases hm : (List.range g.nodes.length).mapM (fun i => findEdges g i .R) with
  | none => rfl
  | some all =>
    simp only
    rw [linksImp_eq]
    have hlen : (nodeItems g fmt).length = g.nodes.length := by simp [nodeItems]
    have hn := nodesImp_eq (nodeItems g fmt)
    rw [hlen] at hn
    rw [hn]
    have hl : (if linkGroups all 0 = [] then ",\n".intercalate (linkGroups all 0)
        else ",\n".intercalate (linkGroups all 0) ++ "\n") =
        if linkGroups all 0 = [] then "" else ",\n".intercalate (linkGroups all 0) ++ "\n" := by
      split
      · rename_i h; rw [h]; rfl
      · rfl
    cases rest with
    | none => simp [hl]
    | some kvs =>
      simp only
      rw [restFold kvs ""]
      simp [hl]

/-- the document lists every node: one item per node -/
theorem C20_json_lists_every_node (g : G D) (fmt : D → String) : (nodeItems g fmt).length = g.nodes.length := by
  simp [nodeItems]

/-- the document lists every right-going link: the link objects of the groups, in order, are the link objects of all
    right edge lists (nodes without right edges contribute no group and no object) -/
theorem C20_json_lists_every_link (all : List (List (Nat × Dir × Bool))) (k : Nat) :
    (((all.zipIdx k).filter fun x => !x.1.isEmpty).flatMap fun x => x.1.map (linkJson x.2)) =
      (all.zipIdx k).flatMap fun x => x.1.map (linkJson x.2) := by
  induction all generalizing k with
  | nil => rfl
  | cons es t ih =>
    rw [List.zipIdx_cons, List.filter_cons]
    cases es with
    | nil => simp [ih]
    | cons e es' => simp [ih]

end Export
