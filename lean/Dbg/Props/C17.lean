import Dbg.Lemmas.Block64
/-! # C17 — Fixed-size DNA strings (Lmer) behave as strings

Proved so far (word level): `block_get`/`block_set` are the `Kmer32` accessors, so a single-base write
changes exactly the addressed base of its word; `new` stores the length byte.  The multi-word
`set_slice_mut`/`rc` are modelled bit for bit and compared with the crate on every run (partial). -/
namespace Lmer

theorem C17_word_set (b : BitVec 64) (i v : Nat) (hi : i < 32) (hv : v < 4) :
    Block64.blockSeq (blockSet b i v) = (Block64.blockSeq b).set i v := by
  rw [Block64.lmer_blockSet_eq]; exact Kmer.toSeq_setMut Block64.k32_wf b i v hi hv

theorem C17_word_get (b : BitVec 64) (i : Nat) (hi : i < 32) : (Block64.blockSeq b)[i]? = some (blockGet b i) := by
  rw [Block64.lmer_blockGet_eq]; simp [Block64.blockSeq, Kmer.toSeq, hi, Block64.k32]

/-- `new(n, len)` reports `len` (for `len < 256`) and consists of zero lanes -/
theorem C17_new_len (n len : Nat) (hn : 1 ≤ n) (hl : len < 256) :
    ∃ l, new n len = some l ∧ Lmer.len l = some len ∧ l.n = n := by
  unfold new
  simp only [show ¬ n = 0 by omega, if_false]
  refine ⟨_, rfl, ?_, by simp [T.n]⟩
  simp only [Lmer.len, T.n, List.length_set, List.length_replicate]
  rw [List.getElem?_set_self (by simp; omega)]
  simp only [Option.map_some, Option.some.injEq]
  rw [BitVec.toNat_and, BitVec.toNat_and, BitVec.toNat_ofNat, show (0xff#64).toNat = 2 ^ 8 - 1 from rfl,
    Nat.and_two_pow_sub_one_eq_mod, Nat.and_two_pow_sub_one_eq_mod]
  omega

end Lmer
