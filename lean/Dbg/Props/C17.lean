import Dbg.Lemmas.LmerRefine
import Dbg.Lemmas.IterProofs
/-! # C17 — Fixed-size DNA strings (Lmer) behave as strings

For every word count `n ≥ 1`: `Lmer.toSeq l` (the first `len` lanes of the words) is the string a value
stands for, `Lmer.Inv l` its representation invariant (the stored length fits before the length byte, the
lanes between the end of the string and the length byte are zero).  `new` / `from_slice` establish it;
single-base and packed multi-base writes inside the string and `rc` preserve it, keep the stored length
and word count, and act on `toSeq` as the same operation on a plain list (`C17_history`); every observer
is a function of `toSeq`; the representation is canonical, so derived `==`/`Hash` are those of the string;
`get_kmer` and the k-mer iterators are those of the string (`C17_faithful`, C13). -/
namespace Lmer
open Kmer (Cfg St)

theorem C17_word_set (b : BitVec 64) (i v : Nat) (hi : i < 32) (hv : v < 4) :
    Block64.blockSeq (blockSet b i v) = (Block64.blockSeq b).set i v := by
  rw [Block64.lmer_blockSet_eq]; exact Kmer.toSeq_setMut Block64.k32_wf b i v hi hv

theorem C17_word_get (b : BitVec 64) (i : Nat) (hi : i < 32) : (Block64.blockSeq b)[i]? = some (blockGet b i) := by
  rw [Block64.lmer_blockGet_eq]; simp [Block64.blockSeq, Kmer.toSeq, hi]

/-- `new(n, len)` reports `len` (for `len < 256`) -/
theorem C17_new_len (n len : Nat) (hn : 1 ≤ n) (hl : len < 256) :
    ∃ l, new n len = some l ∧ Lmer.len l = some len ∧ l.n = n := new_len n len hn hl

/-- **C17 (constructors).** `new(len)` is `len` A's; `from_slice(seq)` is `seq` — for every capacity and
    every length up to `max_len = 32n - 4` (and the 255 the length byte can hold). -/
theorem C17_constructors (n : Nat) (hn : 1 ≤ n) :
    (∀ L, L ≤ maxLen n → L < 256 → ∃ l, new n L = some l ∧ Inv l ∧ l.n = n ∧ len l = some L ∧ toSeq l = List.replicate L 0) ∧
    (∀ seq : List Nat, seq.length ≤ maxLen n → seq.length < 256 → (∀ b ∈ seq, b < 4) →
      ∃ l, fromSlice n seq = some l ∧ Inv l ∧ l.n = n ∧ toSeq l = seq) := by
  have hm : ∀ L, L ≤ maxLen n → L + 4 ≤ 32 * n := by intro L h; unfold maxLen at h; omega
  refine ⟨fun L h1 h2 => ?_, fun seq h1 h2 hv => fromSlice_spec n seq hn (hm _ h1) h2 hv⟩
  obtain ⟨l, e, i, hn', hl, s⟩ := new_spec n L hn (hm L h1) h2
  exact ⟨l, e, i, hn', by rw [len_lanes l i.n_pos, hl], s⟩

/-- value-producing operations of a history -/
inductive Op | set (pos v : Nat) | setSlice (pos nB : Nat) (value : BitVec 64) | rc

def run (l : T) : Op → Option T
  | .set pos v => setMut l pos v | .setSlice pos nB value => setSliceMut l pos nB value | .rc => rc l
def runSpec (s : List Nat) : Op → List Nat
  | .set pos v => s.set pos v | .setSlice pos nB value => KSpec.setSlice s pos nB value | .rc => KSpec.rc s
/-- writes inside the string; packed runs of 1..32 bases -/
def Op.ok (s : List Nat) : Op → Prop
  | .set pos v => pos < s.length ∧ v < 4 | .setSlice pos nB _ => 1 ≤ nB ∧ nB ≤ 32 ∧ pos + nB ≤ s.length | .rc => True

theorem C17_step (l : T) (h : Inv l) (op : Op) (hok : op.ok (toSeq l)) :
    ∃ l', run l op = some l' ∧ Inv l' ∧ l'.n = l.n ∧ len l' = len l ∧ toSeq l' = runSpec (toSeq l) op := by
  cases op with
  | set pos v =>
    obtain ⟨l', e, i, n, ln, s⟩ := setMut_spec l h pos v (by rw [← toSeq_length l h]; exact hok.1) hok.2
    exact ⟨l', e, i, n, by rw [len_lanes l' i.n_pos, len_lanes l h.n_pos, ln], s⟩
  | setSlice pos nB value =>
    obtain ⟨l', e, i, n, ln, s⟩ := setSliceMut_spec l h pos nB value hok.1 hok.2.1 (by rw [← toSeq_length l h]; exact hok.2.2)
    exact ⟨l', e, i, n, by rw [len_lanes l' i.n_pos, len_lanes l h.n_pos, ln], s⟩
  | rc =>
    obtain ⟨r, e, i, n, s⟩ := rc_spec l h
    refine ⟨r, e, i, n, ?_, s⟩
    rw [len_spec r i, len_spec l h, s, KSpec.rc_length]

def runAll : List Op → T → Option T
  | [], l => some l
  | op :: ops, l => (run l op).bind (runAll ops)
def specAll : List Op → List Nat → List Nat
  | [], s => s
  | op :: ops, s => specAll ops (runSpec s op)
def okAll : List Op → List Nat → Prop
  | [], _ => True
  | op :: ops, s => op.ok s ∧ okAll ops (runSpec s op)

/-- **C17 (histories).** Any sequence of in-range single-base writes, packed writes (runs crossing a
    word boundary, runs in the word that holds the length byte) and reverse complements changes exactly
    the addressed bases, never the stored length or the word count, and never panics. -/
theorem C17_history (ops : List Op) (l : T) (h : Inv l) (hok : okAll ops (toSeq l)) :
    ∃ l', runAll ops l = some l' ∧ Inv l' ∧ l'.n = l.n ∧ len l' = len l ∧ toSeq l' = specAll ops (toSeq l) := by
  induction ops generalizing l with
  | nil => exact ⟨l, rfl, h, rfl, rfl, rfl⟩
  | cons op ops ih =>
    obtain ⟨l1, e1, i1, n1, len1, s1⟩ := C17_step l h op hok.1
    obtain ⟨l2, e2, i2, n2, len2, s2⟩ := ih l1 i1 (by rw [s1]; exact hok.2)
    exact ⟨l2, by simp only [runAll, e1, Option.bind_some]; exact e2, i2, n2.trans n1, len2.trans len1, by rw [s2, s1]; rfl⟩

/-- **C17 (observers).** -/
theorem C17_observers (l : T) (h : Inv l) :
    len l = some (toSeq l).length ∧ (∀ pos, pos < (toSeq l).length → get l pos = (toSeq l)[pos]?) ∧
    toBytes l = some (toSeq l) ∧ (toSeq l).length ≤ maxLen l.n ∧ (∀ b ∈ toSeq l, b < 4) := by
  refine ⟨len_spec l h, fun pos hp => get_spec l h pos (by rwa [toSeq_length l h] at hp), toBytes_spec l h, ?_, toSeq_lt4 l⟩
  rw [toSeq_length l h]; have := h.fits; unfold maxLen; omega

/-- **C17 (canonical representation).** Same capacity and same bases ⇒ same words: derived `==` / `Hash`
    agree with the plain string. -/
theorem C17_repr_canonical (a b : T) (ha : Inv a) (hb : Inv b) (hn : a.n = b.n) : a = b ↔ toSeq a = toSeq b :=
  ⟨fun h => by rw [h], repr_inj a b ha hb hn⟩

/-- **C17 (routes agree).** Two histories to the same string end in the same words. -/
theorem C17_routes_agree (ops₁ ops₂ : List Op) (a b : T) (ha : Inv a) (hb : Inv b) (hn : a.n = b.n)
    (ok₁ : okAll ops₁ (toSeq a)) (ok₂ : okAll ops₂ (toSeq b)) (h : specAll ops₁ (toSeq a) = specAll ops₂ (toSeq b)) :
    runAll ops₁ a = runAll ops₂ b := by
  obtain ⟨a', ea, ia, na, _, sa⟩ := C17_history ops₁ a ha ok₁
  obtain ⟨b', eb, ib, nb, _, sb⟩ := C17_history ops₂ b hb ok₂
  rw [ea, eb, repr_inj a' b' ia ib (by rw [na, nb, hn]) (by rw [sa, sb, h])]

/-- **C17 / C13 (k-mers).** An `Lmer` is a faithful container: `get_kmer(pos)` spells bases
    `pos..pos+K` for every k-mer configuration, hence (C13) so do its iterators and terminal accessors. -/
theorem C17_faithful (c : Cfg) (hc : c.WF) (l : T) (h : Inv l) : KIter.Faithful (KIter.ofLmer c l) (toSeq l) where
  len := by show (len l).getD 0 = _; rw [len_spec l h]; rfl
  base := toSeq_lt4 l
  get := fun i hi => by
    show get l i = _
    rw [get_spec l h i (by rwa [toSeq_length l h] at hi), List.getElem?_eq_getElem hi]
  kmer := fun pos hp => by
    rw [toSeq_length l h] at hp
    obtain ⟨s, e, i, t⟩ := getKmer_spec c hc l h pos hp
    exact ⟨s, e, i, t⟩

theorem C17_getKmer_guard (c : Cfg) (l : T) (h : Inv l) (pos : Nat) (hp : ¬ pos + c.K ≤ (toSeq l).length) :
    getKmer c l pos = none := getKmer_guard c l h pos (by rwa [toSeq_length l h] at hp)

/-- non-vacuity: a 3-word Lmer at `max_len = 92`, a run crossing the first word boundary, a run in the
    word holding the length byte, then rc -/
example : okAll [.setSlice 20 30 0xDEADBEEF12345678#64, .set 91 3, .setSlice 70 22 0#64, .rc] (List.replicate 92 1) := by
  simp only [okAll, Op.ok, runSpec, KSpec.rc_length, KSpec.setSlice, List.length_map, List.length_zipIdx, List.length_set,
    List.length_replicate]
  decide

end Lmer
