import Dbg.Props.C11
import Dbg.Model.Seq
import Dbg.Lemmas.RcList
import Dbg.Props.C14
import Dbg.Props.C15
import Dbg.Props.C17
/-! # C12 — Reverse complement is coherent across all sequence types

String-level laws (proved once on lists), the packed k-mer instance (from C10/C11), and extension
sets (all 256 values by `decide`, with the masks extracted from lib.rs).  The instances for DnaString,
Lmer and slices (`C12_dnaString`, `C12_lmer`, `C12_slice`) come from their refinement theorems (C14, C17,
C15); `C12_kmers_of_rc` states, for any two faithful containers of a string and of its reverse complement,
that the `i`-th k-mer of the one is the reverse complement of the `(n-K-i)`-th k-mer of the other. -/

namespace Kmer

/-- C12 (k-mers): rc is an involution on storage words, for every shipped configuration -/
theorem C12_kmer_rc_involution (c : Cfg) (hc : c.WF) (hw : c.w ∈ [8, 16, 32, 64, 128]) (s : St c) (hs : Inv c s) :
    rc c (rc c s) = s := by
  apply toSeq_inj hc _ _ (inv_rc hc hw _) hs
  rw [toSeq_rc hc hw, toSeq_rc hc hw, KSpec.rc_rc _ (toSeq_lt4 hc s)]

/-- C12 (canonical form): `min_rc` is the lexicographically smaller of the string and its reverse complement -/
theorem C12_minRc_spec (c : Cfg) (hc : c.WF) (hw : c.w ∈ [8, 16, 32, 64, 128]) (s : St c) (hs : Inv c s) :
    toSeq c (minRc c s) = KSpec.minRc (toSeq c s) := (step_ok c hc hw s hs .minRc trivial).2

/-- C12: the canonical form is the same for a k-mer and its reverse complement -/
theorem C12_minRc_rc (c : Cfg) (hc : c.WF) (hw : c.w ∈ [8, 16, 32, 64, 128]) (s : St c) (hs : Inv c s) :
    minRc c (rc c s) = minRc c s := by
  have hr := C12_kmer_rc_involution c hc hw s hs
  unfold minRc lt
  rw [hr]
  by_cases h1 : s.toNat < (rc c s).toNat
  · have : ¬ (rc c s).toNat < s.toNat := by omega
    simp [h1, this]
  · by_cases h2 : (rc c s).toNat < s.toNat
    · simp [h1, h2]
    · have : s.toNat = (rc c s).toNat := by omega
      have : s = rc c s := BitVec.eq_of_toNat_eq this
      simp [h1, h2, ← this]

/-- C12: `min_rc_flip` returns the canonical form and flags a flip unless `x < rc x` -/
theorem C12_minRcFlip (c : Cfg) (s : St c) :
    (minRcFlip c s).1 = minRc c s ∧ (minRcFlip c s).2 = !(lt c s (rc c s)) := by
  unfold minRcFlip minRc; by_cases h : lt c s (rc c s) = true <;> simp [h]

/-- C12: `is_palindrome` ⇔ the string equals its reverse complement (for odd K never) -/
theorem C12_isPalindrome (c : Cfg) (hc : c.WF) (hw : c.w ∈ [8, 16, 32, 64, 128]) (s : St c) (hs : Inv c s) (hev : c.K % 2 = 0) :
    isPalindrome c s = true ↔ toSeq c s = KSpec.rc (toSeq c s) := by
  unfold isPalindrome
  simp only [hev, beq_self_eq_true, Bool.true_and, beq_iff_eq]
  rw [← toSeq_rc hc hw s]
  exact ⟨fun h => by rw [← h], fun h => toSeq_inj hc _ _ hs (inv_rc hc hw s) h⟩

end Kmer

namespace Compress
open Walk (Dir)

/-- C12 (extension sets): for all 256 values, rc swaps the sides and complements the bases, and is an involution;
    complement and reverse are the two halves -/
theorem C12_exts_rc : ∀ v : Fin 256, ∀ b : Fin 4,
    let e : Exts := ⟨v.val⟩
    e.rc.rc = e ∧ e.rc.val < 256 ∧
    e.rc.hasExt .L b.val = e.hasExt .R (3 - b.val) ∧ e.rc.hasExt .R b.val = e.hasExt .L (3 - b.val) ∧
    e.complement.hasExt .L b.val = e.hasExt .L (3 - b.val) ∧ e.complement.hasExt .R b.val = e.hasExt .R (3 - b.val) ∧
    e.reverse.hasExt .L b.val = e.hasExt .R b.val ∧ e.reverse.hasExt .R b.val = e.hasExt .L b.val := by
  decide +kernel

end Compress

namespace C12
open Kmer (Cfg St)

theorem rc_forms (l : List Nat) : l.reverse.map (3 - ·) = KSpec.rc l := by
  unfold KSpec.rc; rw [List.map_reverse]; rfl

/-- **C12 (DnaString).** `rc` is the reversed, complemented base vector; `rc ∘ rc` is the identity on values. -/
theorem C12_dnaString (d : DnaStr.T) (h : DnaStr.Inv d) :
    ∃ r, DnaStr.rc d = some r ∧ DnaStr.Inv r ∧ DnaStr.toSeq r = KSpec.rc (DnaStr.toSeq d) ∧ DnaStr.rc r = some d := by
  obtain ⟨r, e, i, s⟩ := DnaStr.rc_spec d h
  rw [rc_forms] at s
  obtain ⟨rr, e2, i2, s2⟩ := DnaStr.rc_spec r i
  rw [rc_forms, s, KSpec.rc_rc _ (DnaStr.toSeq_lt4 d h)] at s2
  exact ⟨r, e, i, s, by rw [e2, DnaStr.repr_inj rr d i2 h s2]⟩

/-- **C12 (Lmer).** for every word count -/
theorem C12_lmer (l : Lmer.T) (h : Lmer.Inv l) :
    ∃ r, Lmer.rc l = some r ∧ Lmer.Inv r ∧ r.n = l.n ∧ Lmer.toSeq r = KSpec.rc (Lmer.toSeq l) ∧ Lmer.rc r = some l := by
  obtain ⟨r, e, i, n, s⟩ := Lmer.rc_spec l h
  obtain ⟨rr, e2, i2, n2, s2⟩ := Lmer.rc_spec r i
  rw [s, KSpec.rc_rc _ (Lmer.toSeq_lt4 l)] at s2
  exact ⟨r, e, i, n, s, by rw [e2, Lmer.repr_inj rr l i2 h (n2.trans n) s2]⟩

/-- **C12 (slices).** in either orientation, at every offset -/
theorem C12_slice (d : DnaStr.T) (h : DnaStr.Inv d) (s : DnaStr.Slice) (hv : DnaStr.Slice.Valid d s) :
    DnaStr.Slice.Valid d s.rc ∧ DnaStr.Slice.seq d s.rc = KSpec.rc (DnaStr.Slice.seq d s) ∧ s.rc.rc = s :=
  ⟨(DnaStr.Slice.rc_spec d h s hv).1, (DnaStr.Slice.rc_spec d h s hv).2, DnaStr.Slice.rc_rc s⟩

/-- **C12 (k-mers of the reverse complement).** For any container of a string and any container of its
    reverse complement (of any of the types above, any k-mer configuration): the `i`-th k-mer of the
    latter is the reverse complement of the `(n-K-i)`-th k-mer of the former. -/
theorem C12_kmers_of_rc (c : Cfg) (hc : c.WF) (hw : c.w ∈ [8, 16, 32, 64, 128]) (v v' : KIter.Cont c) (seq : List Nat)
    (hf : KIter.Faithful v seq) (hf' : KIter.Faithful v' (KSpec.rc seq)) (i : Nat) (hi : i + c.K ≤ seq.length) :
    ∃ k, v.getKmer (seq.length - c.K - i) = some k ∧ v'.getKmer i = some (Kmer.rc c k) := by
  obtain ⟨k, e, ki, kt⟩ := hf.kmer (seq.length - c.K - i) (by omega)
  obtain ⟨k', e', ki', kt'⟩ := hf'.kmer i (by rw [KSpec.rc_length]; exact hi)
  refine ⟨k, e, ?_⟩
  rw [e']
  congr 1
  apply Kmer.toSeq_inj hc _ _ ki' (Kmer.inv_rc hc hw k)
  rw [Kmer.toSeq_rc hc hw k, kt, kt']
  unfold KIter.win
  have := KSpec.rc_window seq c.K (seq.length - c.K - i) (by omega)
  rw [this]
  congr 2; omega

end C12
