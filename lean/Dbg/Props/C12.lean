import Dbg.Props.C11
import Dbg.Model.Seq
import Dbg.Lemmas.RcList
/-! # C12 — Reverse complement is coherent across all sequence types

String-level laws (proved once on lists), the packed k-mer instance (from C10/C11), and extension
sets (all 256 values by `decide`, with the masks extracted from lib.rs).  The instances for DnaString,
Lmer and slices follow from their refinement theorems (C14, C17, C15) and are listed there. -/

namespace Kmer

/-- C12 (k-mers): rc is an involution on storage words, for every shipped configuration -/
theorem C12_kmer_rc_involution (c : Cfg) (hc : c.WF) (hw : c.w ∈ [8, 16, 32, 64, 128]) (s : St c) (hs : Inv c s) :
    rc c (rc c s) = s := by
  apply toSeq_inj hc _ _ (inv_rc hc hw _) hs
  rw [toSeq_rc hc hw, toSeq_rc hc hw, KSpec.rc_rc _ (toSeq_lt4 hc s)]

/-- C12 (canonical form): `min_rc` is the lexicographically smaller of the string and its reverse complement -/
theorem C12_minRc_spec (c : Cfg) (hc : c.WF) (hw : c.w ∈ [8, 16, 32, 64, 128]) (s : St c) (hs : Inv c s) :
    toSeq c (minRc c s) = KSpec.minRc (toSeq c s) := (step_ok c hc hw s hs .minRc trivial).2

/-- C12: the canonical form is the same for a k-mer and its reverse complement -/
theorem C12_minRc_rc (c : Cfg) (hc : c.WF) (hw : c.w ∈ [8, 16, 32, 64, 128]) (s : St c) (hs : Inv c s) :
    minRc c (rc c s) = minRc c s := by
  have hr := C12_kmer_rc_involution c hc hw s hs
  unfold minRc lt
  rw [hr]
  by_cases h1 : s.toNat < (rc c s).toNat
  · have : ¬ (rc c s).toNat < s.toNat := by omega
    simp [h1, this]
  · by_cases h2 : (rc c s).toNat < s.toNat
    · simp [h1, h2]
    · have : s.toNat = (rc c s).toNat := by omega
      have : s = rc c s := BitVec.eq_of_toNat_eq this
      simp [h1, h2, ← this]

/-- C12: `min_rc_flip` returns the canonical form and flags a flip unless `x < rc x` -/
theorem C12_minRcFlip (c : Cfg) (s : St c) :
    (minRcFlip c s).1 = minRc c s ∧ (minRcFlip c s).2 = !(lt c s (rc c s)) := by
  unfold minRcFlip minRc; by_cases h : lt c s (rc c s) = true <;> simp [h]

/-- C12: `is_palindrome` ⇔ the string equals its reverse complement (for odd K never) -/
theorem C12_isPalindrome (c : Cfg) (hc : c.WF) (hw : c.w ∈ [8, 16, 32, 64, 128]) (s : St c) (hs : Inv c s) (hev : c.K % 2 = 0) :
    isPalindrome c s = true ↔ toSeq c s = KSpec.rc (toSeq c s) := by
  unfold isPalindrome
  simp only [hev, beq_self_eq_true, Bool.true_and, beq_iff_eq]
  rw [← toSeq_rc hc hw s]
  exact ⟨fun h => by rw [← h], fun h => toSeq_inj hc _ _ hs (inv_rc hc hw s) h⟩

end Kmer

namespace Compress
open Walk (Dir)

/-- C12 (extension sets): for all 256 values, rc swaps the sides and complements the bases, and is an involution;
    complement and reverse are the two halves -/
theorem C12_exts_rc : ∀ v : Fin 256, ∀ b : Fin 4,
    let e : Exts := ⟨v.val⟩
    e.rc.rc = e ∧ e.rc.val < 256 ∧
    e.rc.hasExt .L b.val = e.hasExt .R (3 - b.val) ∧ e.rc.hasExt .R b.val = e.hasExt .L (3 - b.val) ∧
    e.complement.hasExt .L b.val = e.hasExt .L (3 - b.val) ∧ e.complement.hasExt .R b.val = e.hasExt .R (3 - b.val) ∧
    e.reverse.hasExt .L b.val = e.hasExt .R b.val ∧ e.reverse.hasExt .R b.val = e.hasExt .L b.val := by
  decide +kernel

end Compress
