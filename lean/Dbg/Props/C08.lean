import Dbg.Props.C07
import Dbg.Spec.C08
import Dbg.Lemmas.Window
import Dbg.Lemmas.BucketPure
/-! # C08 — Shard assignment is a pure, strand-symmetric function of the k-mer

Theorems about the model `Msp.mspSequence` of `msp_sequence` (msp.rs 279-324). -/
namespace Msp
open Compress (Seq Base rc rank)

/-- `Exts::from_slice_bounds` computes exactly the flank byte -/
theorem flank_bits (l r : Option Base) : ((optBit r) <<< 4) ||| optBit l = optPow 0 l + optPow 4 r := by
  cases l with
  | none => cases r with
    | none => rfl
    | some r => revert r; decide
  | some l => cases r with
    | none => revert l; decide
    | some r => revert l r; decide

theorem extsFromSliceBounds_eq (seq : Array Base) (start len : Nat) :
    extsFromSliceBounds seq start len = flankByte seq start len := by
  unfold extsFromSliceBounds flankByte
  have hr : (if start + len < seq.size then optBit seq[start + len]? else 0) = optBit seq[start + len]? := by
    by_cases h : start + len < seq.size
    · simp [h]
    · have : seq[start + len]? = none := by simp; omega
      simp [h, this, optBit]
  simp only [hr]
  by_cases h0 : start = 0
  · subst h0
    have := flank_bits none seq[0 + len]?
    simpa [optBit, optPow] using this
  · have hpos : start > 0 := by omega
    simp only [hpos, h0, if_true, if_false]
    exact flank_bits _ _

/-- the piece built from an interval -/
def pieceOf (seq : Array Base) (iv : Iv) : Piece :=
  ⟨rank (minRc iv.mini) % 2 ^ 32, extsFromSliceBounds seq iv.start iv.len, window seq iv.len iv.start⟩

/-- every interval of a valid chain ends inside the sequence -/
theorem chain_end_le (sc : Nat → Nat) (k p m : Nat) :
    ∀ (l : List Iv) (b : Iv), ChainValid sc k p m (b :: l) → (∀ iv ∈ b :: l, k ≤ iv.len) → b.start + b.len ≤ m := by
  intro l
  induction l with
  | nil => intro b hb _; have : b.start + b.len = m := hb; omega
  | cons c l ihl =>
    intro b hb hlb
    obtain ⟨_, d2, _, d4⟩ : b.start < c.start ∧ c.start + k - 1 = b.start + b.len ∧ _ ∧ ChainValid sc k p m (c :: l) := hb
    have := ihl c d4 (fun iv hiv => hlb iv (by simp [hiv]))
    have := hlb c (by simp)
    omega

theorem pieces_of_chain (seq : Array Base) (sc : Nat → Nat) (k p : Nat) (hk : 1 ≤ k) :
    ∀ (ivs : List Iv), ChainValid sc k p seq.size ivs → (∀ iv ∈ ivs, k ≤ iv.len) →
      ∀ a, ivs.head?.map (·.start) = some a → PiecesFrom seq k a (ivs.map (pieceOf seq)) := by
  intro ivs
  induction ivs with
  | nil => intro h; exact absurd h (by simp [ChainValid])
  | cons iv rest ih =>
    intro hc hl a ha
    simp only [List.head?_cons, Option.map_some, Option.some.injEq] at ha
    subst ha
    have hend := chain_end_le sc k p seq.size rest iv hc hl
    have hlen : (window seq iv.len iv.start).length = iv.len := window_length seq _ _ hend
    have hkl := hl iv (by simp)
    cases rest with
    | nil =>
      have hc' : iv.start + iv.len = seq.size := hc
      simp only [List.map_cons, List.map_nil, PiecesFrom, pieceOf, hlen]
      exact ⟨hkl, hc', trivial, extsFromSliceBounds_eq _ _ _⟩
    | cons iv' rest =>
      obtain ⟨_, c2, _, c4⟩ : iv.start < iv'.start ∧ iv'.start + k - 1 = iv.start + iv.len ∧ _ ∧
        ChainValid sc k p seq.size (iv' :: rest) := hc
      have ihh := ih c4 (fun iv hiv => hl iv (by simp [hiv])) iv'.start (by simp)
      simp only [List.map_cons] at ihh ⊢
      simp only [PiecesFrom, pieceOf, hlen]
      refine ⟨hkl, hend, trivial, extsFromSliceBounds_eq _ _ _, ?_⟩
      have : iv.start + iv.len - (k - 1) = iv'.start := by omega
      rw [this]; exact ihh

theorem permScore_lt (perm : Array Nat) (rcMode : Bool) (h : ∀ i : Nat, i < perm.size → perm[i]?.getD 0 < 2 ^ 64) (w : Seq) :
    permScore perm rcMode w < 2 ^ 64 := by
  have key : ∀ i : Nat, perm[i]?.getD 0 < 2 ^ 64 := by
    intro i
    by_cases hi : i < perm.size
    · exact h i hi
    · have : perm[i]? = none := by simp; omega
      simp [this]
  unfold permScore
  cases rcMode
  · simpa using key _
  · have h1 := key (rank w)
    simp only [if_true]
    exact Nat.lt_of_le_of_lt (Nat.min_le_left _ _) h1

/-- **C08, pieces.** Every piece is the exact substring of the read at consecutive offsets overlapping by
    k-1, the last one ends at the end of the read, and its boundary extensions are exactly the read's
    flanking bases (none at a read end). Reads shorter than k give no piece. -/
theorem C08_pieces_exact (k p : Nat) (seq : Array Base) (perm : Option (Array Nat)) (rcMode : Bool) (maxLen : Nat)
    (h₁ : 1 ≤ p) (h₂ : p ≤ k) (h₄ : seq.size < 2 ^ 32) (h₅ : 2 * k - p ≤ 65535) (h₆ : 2 * k - p ≤ maxLen)
    (h₇ : 4 ^ p ≤ (perm.getD (Array.range (4 ^ p))).size)
    (h₈ : ∀ i : Nat, i < (perm.getD (Array.range (4 ^ p))).size → (perm.getD (Array.range (4 ^ p)))[i]?.getD 0 < 2 ^ 64) :
    ∃ pieces, mspSequence k p seq perm rcMode maxLen = some pieces ∧
      (if seq.size < k then pieces = [] else PiecesFrom seq k 0 pieces) := by
  unfold mspSequence
  simp only [h₆, not_true_eq_false, if_false]
  by_cases hs : seq.size < k
  · simp [hs]
  · simp only [hs, if_false]
    have h7' : ¬ (perm.getD (Array.range (4 ^ p))).size < 4 ^ p := by omega
    simp only [h7', if_false]
    obtain ⟨ivs, he, hh⟩ := C07_scan_valid seq (permScore (perm.getD (Array.range (4 ^ p))) rcMode) k p h₁ h₂ (by omega) h₄ h₅
      (permScore_lt _ _ h₈)
    rw [he]
    refine ⟨_, rfl, ?_⟩
    exact pieces_of_chain seq _ k p (by omega) ivs hh.2.2 (fun iv hiv => (hh.2.1 iv hiv).1) 0 hh.1

/-- k-mers of tiling pieces, concatenated, are the windows of the read at consecutive starts -/
theorem kmers_of_pieces (seq : Array Base) (k : Nat) (hk : 1 ≤ k) :
    ∀ (pcs : List Piece) (a : Nat), PiecesFrom seq k a pcs →
      pcs.flatMap (fun pc => kmersOfSeq k pc.seq) = (List.range' a (seq.size - k + 1 - a)).map (window seq k) := by
  intro pcs
  induction pcs with
  | nil => intro a h; exact absurd h (by simp [PiecesFrom])
  | cons pc rest ih =>
    intro a h
    have one : ∀ (len : Nat), k ≤ len → a + len ≤ seq.size → pc.seq = window seq len a → pc.seq.length = len →
        kmersOfSeq k pc.seq = (List.range' a (len - k + 1)).map (window seq k) := by
      intro len hkl hle hw hlen
      unfold kmersOfSeq
      simp only [hlen, show ¬ len < k by omega, if_false]
      rw [List.range_eq_range', List.range'_eq_map_range, List.range'_eq_map_range]
      simp only [List.map_map]
      apply List.map_congr_left
      intro j hj
      simp only [List.mem_range] at hj
      simp only [Function.comp, Nat.zero_add]
      rw [hw, window_window seq len a k j (by omega)]
    cases rest with
    | nil =>
      obtain ⟨h1, h2, h3, _⟩ : k ≤ pc.seq.length ∧ a + pc.seq.length = seq.size ∧ pc.seq = window seq pc.seq.length a ∧ _ := h
      simp only [List.flatMap_cons, List.flatMap_nil, List.append_nil]
      rw [one pc.seq.length h1 (by omega) h3 rfl]
      congr 2; omega
    | cons pc' rest =>
      obtain ⟨h1, h2, h3, _, h5⟩ : k ≤ pc.seq.length ∧ a + pc.seq.length ≤ seq.size ∧ pc.seq = window seq pc.seq.length a ∧ _ ∧
        PiecesFrom seq k (a + pc.seq.length - (k - 1)) (pc' :: rest) := h
      have ihh := ih _ h5
      simp only [List.flatMap_cons] at ihh ⊢
      rw [ihh, one pc.seq.length h1 h2 h3 rfl, ← List.map_append]
      congr 1
      have e1 : a + pc.seq.length - (k - 1) = a + (pc.seq.length - k + 1) := by omega
      rw [e1, List.range'_append_1]
      -- the next piece starts inside the read, so the counts add up
      have hnext : a + (pc.seq.length - k + 1) + k ≤ seq.size := by
        cases rest with
        | nil =>
          obtain ⟨g1, g2, _⟩ : k ≤ pc'.seq.length ∧ (a + pc.seq.length - (k - 1)) + pc'.seq.length = seq.size ∧ _ := h5
          omega
        | cons _ _ =>
          obtain ⟨g1, g2, _⟩ : k ≤ pc'.seq.length ∧ (a + pc.seq.length - (k - 1)) + pc'.seq.length ≤ seq.size ∧ _ := h5
          omega
      congr 1; omega

/-- **C08, coverage.** The k-mers of the pieces, in order, are the k-mers of the read, each once. -/
theorem C08_pieces_cover (k p : Nat) (seq : Array Base) (perm : Option (Array Nat)) (rcMode : Bool) (maxLen : Nat)
    (h₁ : 1 ≤ p) (h₂ : p ≤ k) (h₃ : k ≤ seq.size) (h₄ : seq.size < 2 ^ 32) (h₅ : 2 * k - p ≤ 65535) (h₆ : 2 * k - p ≤ maxLen)
    (h₇ : 4 ^ p ≤ (perm.getD (Array.range (4 ^ p))).size)
    (h₈ : ∀ i : Nat, i < (perm.getD (Array.range (4 ^ p))).size → (perm.getD (Array.range (4 ^ p)))[i]?.getD 0 < 2 ^ 64) :
    ∃ pieces, mspSequence k p seq perm rcMode maxLen = some pieces ∧
      pieces.flatMap (fun pc => kmersOfSeq k pc.seq) = (List.range (seq.size - k + 1)).map (window seq k) := by
  obtain ⟨pieces, he, hp⟩ := C08_pieces_exact k p seq perm rcMode maxLen h₁ h₂ h₄ h₅ h₆ h₇ h₈
  refine ⟨pieces, he, ?_⟩
  simp only [show ¬ seq.size < k by omega, if_false] at hp
  rw [kmers_of_pieces seq k (by omega) pieces 0 hp, List.range_eq_range']; rfl

/-- ends of all intervals of a valid chain lie inside the sequence -/
theorem chain_all_end_le (sc : Nat → Nat) (k p m : Nat) :
    ∀ (l : List Iv), ChainValid sc k p m l → (∀ iv ∈ l, k ≤ iv.len) → ∀ iv ∈ l, iv.start + iv.len ≤ m := by
  intro l
  induction l with
  | nil => intro h; exact absurd h (by simp [ChainValid])
  | cons b rest ih =>
    intro hc hl iv hiv
    rcases List.mem_cons.mp hiv with rfl | hiv
    · exact chain_end_le sc k p m rest iv hc hl
    · cases rest with
      | nil => simp at hiv
      | cons c rest' =>
        obtain ⟨_, _, _, c4⟩ : b.start < c.start ∧ _ ∧ _ ∧ ChainValid sc k p m (c :: rest') := hc
        exact ih c4 (fun x hx => hl x (by simp [hx])) iv hiv

/-- **C08 (bucket purity).** With a permutation-based score (injective permutation of the 4^p p-mers), every k-mer of
    every piece lies in the bucket `bucketOf`, which is a function of the k-mer alone: every occurrence of the same k-mer,
    in any read and at any position, is emitted in a piece carrying the same bucket id. -/
theorem C08_bucket_pure (k p : Nat) (seq : Array Base) (perm : Array Nat) (rcMode : Bool) (maxLen : Nat) (pieces : List Piece)
    (h₁ : 1 ≤ p) (h₂ : p ≤ k) (h₃ : k ≤ seq.size) (h₄ : seq.size < 2 ^ 32) (h₅ : 2 * k - p ≤ 65535)
    (hsz : perm.size = 4 ^ p) (hinj : PermInj perm) (h₈ : ∀ i : Nat, i < perm.size → perm[i]?.getD 0 < 2 ^ 64)
    (h : mspSequence k p seq (some perm) rcMode maxLen = some pieces) :
    BucketsPure perm rcMode k p pieces := by
  unfold mspSequence at h
  split at h
  · cases h
  · simp only [show ¬ seq.size < k by omega, if_false, Option.getD_some, show ¬ perm.size < 4 ^ p by omega] at h
    obtain ⟨ivs, he, hh⟩ := C07_scan_valid seq (permScore perm rcMode) k p h₁ h₂ h₃ h₄ h₅ (permScore_lt _ _ h₈)
    rw [he] at h
    simp only [Option.some.injEq] at h
    subst h
    intro pc hpc x hx
    obtain ⟨iv, hiv, rfl⟩ := List.mem_map.mp hpc
    change x ∈ kmersOfSeq k (pieceOf seq iv).seq at hx
    have hvalid := hh.2.1 iv hiv
    have hend := chain_all_end_le _ k p seq.size ivs hh.2.2 (fun iv hiv => (hh.2.1 iv hiv).1) iv hiv
    have hlen : (window seq iv.len iv.start).length = iv.len := window_length seq _ _ hend
    -- x is the k-mer at offset j of the piece
    have hk := hvalid.1
    simp only [pieceOf] at hx
    unfold kmersOfSeq at hx
    rw [hlen] at hx
    simp only [show ¬ iv.len < k by omega, if_false, List.mem_map, List.mem_range] at hx
    obtain ⟨j, hj, rfl⟩ := hx
    rw [window_window seq iv.len iv.start k j (by omega)]
    exact bucket_of_interval perm rcMode k p seq iv h₁ h₂ hsz hinj hvalid hend j (by omega)

/-- **C08 (strand symmetry).** In reverse-complement mode the bucket function does not distinguish a k-mer from its
    reverse complement, so both orientations of a k-mer are sent to the same shard. -/
theorem C08_bucket_strand_symmetric (perm : Array Nat) (p : Nat) (hsz : perm.size = 4 ^ p) (hinj : PermInj perm)
    (x : Seq) (hp : p ≤ x.length) : bucketOf perm true p (rc x) = bucketOf perm true p x :=
  bucketOf_rc perm p hsz hinj x hp

example : ∃ pieces, mspSequence 5 2 #[0,1,2,3,0,0,1,3,2,2,1] none true 28 = some pieces ∧
    holdsC08 (Array.range 16) true 5 2 #[0,1,2,3,0,0,1,3,2,2,1] pieces = true := by decide

end Msp
