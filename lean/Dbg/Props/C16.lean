import Dbg.Model.Avx2
import Dbg.Spec.C10
import Dbg.Lemmas.Avx2Proofs
/-! # C16 — ASCII ingestion is total and path-independent

Table theorems (every one of the 256 byte values, decided by the kernel against the tables regenerated
from the `match` arms of lib.rs on every run); lane theorems about the vector kernels, each intrinsic
transcribed from Intel's pseudo-code: `convert_bases` computes the scalar table on every one of its 32
lanes for every byte value (`C16_convert`), `pack_32_bases` puts the low two bits of byte `i` into bits
`63-2i, 62-2i` (`C16_pack`); hence the vector path of `from_acgt_bytes` (whole 32-byte chunks pushed as
blocks, the tail through `extend`, `len` set at the end) and the scalar path produce the *same value* for
every byte string (`C16_paths_agree`), a well-formed string standing for the bytewise conversion, which
renders back to the upper-cased input with non-ACGT replaced by `A` (`C16_render`); the `str` constructor
agrees on ASCII; the strict constructor returns exactly the maximal ACGT runs (`C16_strict_runs`); the
hashed-N constructor, for any hasher, leaves ACGT untouched and substitutes `h(pos) % 4` (`C16_hashn`). -/
namespace Avx2

def isValid (c : Nat) : Bool := Gen.isValidBase.getD c 0 == 1
def upper (c : Nat) : Nat := if 97 ≤ c ∧ c ≤ 122 then c - 32 else c

/-- `base_to_bits`: A/C/G/T in either case ↦ 0/1/2/3, every other byte ↦ 0 -/
theorem C16_baseToBits_table : ∀ c : Fin 256, baseToBits c.val = KSpec.asciiToBase c.val ∧ baseToBits c.val < 4 := by decide +kernel

/-- `is_valid_base` holds exactly on the eight letters; `dna_only_base_to_bits` is `base_to_bits` there and `None` elsewhere -/
theorem C16_valid_table : ∀ c : Fin 256,
    (isValid c.val = (c.val ∈ [65, 67, 71, 84, 97, 99, 103, 116])) ∧
    (Gen.dnaOnlyBaseToBits.getD c.val 255 = if isValid c.val then baseToBits c.val else 255) := by decide +kernel

/-- rendering back: the upper-cased letter for ACGT, 'A' for everything else -/
theorem C16_render_back : ∀ c : Fin 256,
    DnaStr.bitsToAscii (baseToBits c.val) = (if isValid c.val then upper c.val else 65) ∧
    DnaStr.bitsToBase (baseToBits c.val) = (if isValid c.val then upper c.val else 65) := by decide +kernel

/-- the scalar path is `extend` over the bytewise conversion (definitionally), and the str constructor on
    code points below 256 is the same function -/
theorem C16_scalar_is_bytewise (bytes : List Nat) :
    fromAcgtBytesScalar bytes = DnaStr.fromBytes (bytes.map baseToBits) := rfl

theorem C16_str_agrees (cs : List Nat) (h : ∀ c ∈ cs, c < 256) : fromDnaString cs = fromAcgtBytesScalar cs := by
  unfold fromDnaString fromAcgtBytesScalar
  congr 1
  apply List.map_congr_left
  intro c hc; rw [Nat.mod_eq_of_lt (h c hc)]

/-- `c as u8` aliasing outside Latin-1 (recorded, not a violation: C16 quantifies over ASCII text) -/
example : baseToBits (0x141 % 256) = 0 ∧ isValid (0x141 % 256) = true := by decide

/-- **C16 (convert_bases)**: for any 32 bytes, lane by lane the scalar table; the flag = "all ACGT" -/
theorem C16_convert (input : V) (hv : IsVec input) :
    (convertBases input).1 = input.map baseToBits ∧ (convertBases input).2 = input.all isValidByte := convert_spec input hv

/-- **C16 (pack_32_bases)**: byte `i` (mod 4) becomes base `i` of the block -/
theorem C16_pack (bases : V) (hv : IsVec bases) :
    Block64.blockSeq (BitVec.ofNat 64 (pack32Bases bases)) = bases.map (· % 4) ∧
    pack32Bases bases = sumTo 32 (fun m => (byte bases (31 - m) % 4) * 4 ^ m) := ⟨pack_block bases hv, pack_sum bases hv⟩

/-- **C16 (both paths)**: each path yields a well-formed string standing for the bytewise conversion -/
theorem C16_paths (bytes : List Nat) (hb : ∀ b ∈ bytes, b < 256) :
    (∃ d, fromAcgtBytesVec bytes = some d ∧ DnaStr.Inv d ∧ DnaStr.toSeq d = bytes.map baseToBits) ∧
    (∃ d, fromAcgtBytesScalar bytes = some d ∧ DnaStr.Inv d ∧ DnaStr.toSeq d = bytes.map baseToBits) :=
  ⟨fromAcgtBytesVec_spec bytes hb, fromAcgtBytesScalar_spec bytes⟩

/-- **C16 (path independence)**: for every byte string — every length, every byte value in every
    lane — the vector path and the scalar path return the same `(storage, len)` -/
theorem C16_paths_agree (bytes : List Nat) (hb : ∀ b ∈ bytes, b < 256) : fromAcgtBytesVec bytes = fromAcgtBytesScalar bytes := by
  obtain ⟨d1, e1, i1, s1⟩ := fromAcgtBytesVec_spec bytes hb
  obtain ⟨d2, e2, i2, s2⟩ := fromAcgtBytesScalar_spec bytes
  rw [e1, e2, DnaStr.repr_inj d1 d2 i1 i2 (by rw [s1, s2])]

/-- **C16 (rendering back)**: the upper-cased input with every non-ACGT byte replaced by `A` -/
theorem C16_render (bytes : List Nat) (hb : ∀ b ∈ bytes, b < 256) :
    ∃ d, fromAcgtBytesVec bytes = some d ∧
      DnaStr.toAsciiVec d = some (bytes.map fun c => if isValid c then upper c else 65) ∧
      DnaStr.display d = some (bytes.map fun c => if isValid c then upper c else 65) := by
  obtain ⟨d, e, i, s⟩ := fromAcgtBytesVec_spec bytes hb
  refine ⟨d, e, ?_, ?_⟩
  · rw [DnaStr.toAsciiVec_spec d i, s, List.map_map]
    congr 1
    apply List.map_congr_left
    intro c hc
    exact (C16_render_back ⟨c, hb c hc⟩).1
  · rw [DnaStr.display_spec d i, s, List.map_map]
    congr 1
    apply List.map_congr_left
    intro c hc
    exact (C16_render_back ⟨c, hb c hc⟩).2

/-- **C16 (strict constructor)**: exactly the maximal ACGT runs -/
theorem C16_strict_runs (g0 : List Nat) (segs : List (Nat × List Nat)) (h0 : ∀ c ∈ g0, strictOk c = true)
    (hs : ∀ s ∈ segs, strictOk s.1 = false ∧ ∀ c ∈ s.2, strictOk c = true) :
    fromDnaOnlyString (g0 ++ segs.flatMap (fun s => s.1 :: s.2)) =
      ((g0 :: segs.map (·.2)).filter (fun g => !g.isEmpty)).map (·.map strictBits) := strict_runs g0 segs h0 hs

/-- **C16 (hashed-N constructor)**, for any hasher: ACGT positions are the scalar table, every other
    position is `h(pos) % 4` — a valid base and a function of (read name, position) only -/
theorem C16_hashn (bytes : List Nat) (h : Nat → Nat) :
    ∃ d, fromAcgtBytesHashn bytes h = some d ∧ DnaStr.Inv d ∧
      DnaStr.toSeq d = bytes.zipIdx.map (fun cp => if Gen.hashnArms.getD cp.1 255 = 255 then h cp.2 % 4 else Gen.hashnArms.getD cp.1 255) :=
  hashn_spec bytes h

/-- the inline match of the hashed-N constructor is the strict table (ACGT in either case, nothing else) -/
theorem C16_hashn_arms : Gen.hashnArms = Gen.dnaOnlyBaseToBits := by decide +kernel

/-- non-vacuity: 70 bytes (two vector blocks and a tail) with lower case and invalid bytes -/
example : ∀ b ∈ (List.replicate 33 97 ++ [0, 255, 78] ++ List.replicate 34 116), b < 256 := by
  intro b hb
  simp only [List.mem_append, List.mem_replicate, List.mem_cons, List.mem_nil_iff, or_false] at hb
  omega

end Avx2
