import Dbg.Model.Avx2
import Dbg.Spec.C10
/-! # C16 — ASCII ingestion is total and path-independent

Table theorems (every one of the 256 byte values, decided by the kernel against the tables regenerated
from the `match` arms of lib.rs on every run).  The lane-wise theorem about `convert_bases` /
`pack_32_bases` (vector path = scalar path for every input) is listed as partial; the two paths and the
raw kernels are compared with the model on arbitrary bytes on every run. -/
namespace Avx2

def isValid (c : Nat) : Bool := Gen.isValidBase.getD c 0 == 1
def upper (c : Nat) : Nat := if 97 ≤ c ∧ c ≤ 122 then c - 32 else c

/-- `base_to_bits`: A/C/G/T in either case ↦ 0/1/2/3, every other byte ↦ 0 -/
theorem C16_baseToBits_table : ∀ c : Fin 256, baseToBits c.val = KSpec.asciiToBase c.val ∧ baseToBits c.val < 4 := by decide +kernel

/-- `is_valid_base` holds exactly on the eight letters; `dna_only_base_to_bits` is `base_to_bits` there and `None` elsewhere -/
theorem C16_valid_table : ∀ c : Fin 256,
    (isValid c.val = (c.val ∈ [65, 67, 71, 84, 97, 99, 103, 116])) ∧
    (Gen.dnaOnlyBaseToBits.getD c.val 255 = if isValid c.val then baseToBits c.val else 255) := by decide +kernel

/-- rendering back: the upper-cased letter for ACGT, 'A' for everything else -/
theorem C16_render_back : ∀ c : Fin 256,
    DnaStr.bitsToAscii (baseToBits c.val) = (if isValid c.val then upper c.val else 65) ∧
    DnaStr.bitsToBase (baseToBits c.val) = (if isValid c.val then upper c.val else 65) := by decide +kernel

/-- the scalar path is `extend` over the bytewise conversion (definitionally), and the str constructor on
    code points below 256 is the same function -/
theorem C16_scalar_is_bytewise (bytes : List Nat) :
    fromAcgtBytesScalar bytes = DnaStr.fromBytes (bytes.map baseToBits) := rfl

theorem C16_str_agrees (cs : List Nat) (h : ∀ c ∈ cs, c < 256) : fromDnaString cs = fromAcgtBytesScalar cs := by
  unfold fromDnaString fromAcgtBytesScalar
  congr 1
  apply List.map_congr_left
  intro c hc; rw [Nat.mod_eq_of_lt (h c hc)]

/-- `c as u8` aliasing outside Latin-1 (recorded, not a violation: C16 quantifies over ASCII text) -/
example : baseToBits (0x141 % 256) = 0 ∧ isValid (0x141 % 256) = true := by decide

end Avx2
