import Dbg.Model.CompressGraph
import Dbg.Lemmas.WalkProofs
/-! # C09 — Graph re-compression and node censoring are exact

Proved so far for the model of `CompressFromGraph`: every walk only steps onto available nodes, removes them from the
availability set and never repeats a node; hence a censored node (never available) is never merged into any output
node, and every input node is consumed by at most one output node.  The characterisation of the result as the
maximal unbranched paths of the surviving adjacencies (`C09_char`), no-dangling-extensions, payload and idempotence
are executable predicates evaluated on the crate's result (partial). -/
namespace CompressGraph
open Compress (Seq Exts Node)
open Walk (Dir rm mem_rm)
open Graph
variable {D : Type}

/-- what a finished walk guarantees -/
structure WalkOK (avail : List Nat) (p : List (Nat × Dir)) (avail' : List Nat) : Prop where
  sub : ∀ x ∈ p, x.1 ∈ avail
  rest : ∀ z, z ∈ avail' ↔ (z ∈ avail ∧ z ∉ p.map Prod.fst)
  nodup : (p.map Prod.fst).Nodup

theorem extendNode_ok (g : G D) (st : Bool) (join : D → D → Bool) (avail : List Nat) (cur : Nat) (dir : Dir)
    (p : List (Nat × Dir)) (e : Exts) (a' : List Nat) (h : extendNode g st join avail cur dir = some (p, e, a')) :
    WalkOK avail p a' := by
  fun_induction extendNode g st join avail cur dir generalizing p e a' with
  | case1 avail cur dir nx out hx hmem p0 e0 a0 hrec ih =>
    simp only [Option.some.injEq, Prod.mk.injEq] at h
    obtain ⟨rfl, rfl, rfl⟩ := h
    have ok := ih p0 e0 a0 hrec
    refine ⟨?_, ?_, ?_⟩
    · intro x hx'
      rcases List.mem_cons.mp hx' with rfl | hx'
      · exact hmem
      · exact (mem_rm.mp (ok.sub x hx')).1
    · intro z
      rw [ok.rest z, mem_rm]
      simp only [List.map_cons, List.mem_cons, not_or]
      constructor
      · rintro ⟨⟨h1, h2⟩, h3⟩; exact ⟨h1, h2, h3⟩
      · rintro ⟨h1, h2, h3⟩; exact ⟨⟨h1, h2⟩, h3⟩
    · simp only [List.map_cons, List.nodup_cons]
      refine ⟨?_, ok.nodup⟩
      intro hin
      obtain ⟨x, hx', rfl⟩ := List.mem_map.mp hin
      exact (mem_rm.mp (ok.sub x hx')).2 rfl
  | case2 avail cur dir nx out hx hmem hrec => simp at h
  | case3 avail cur dir nx out hx hmem => simp at h
  | case4 avail cur dir e1 hx =>
    simp only [Option.some.injEq, Prod.mk.injEq] at h
    obtain ⟨rfl, rfl, rfl⟩ := h
    exact ⟨by simp, by simp, by simp⟩
  | case5 avail cur dir hx => simp at h

/-- the ids merged by one output node -/
def ids (path : List (Nat × Dir)) : List Nat := path.map Prod.fst

theorem buildNode_ok (g : G D) (st : Bool) (join : D → D → Bool) (reduce : D → D → D) (avail : List Nat) (seed : Nat)
    (hs : seed ∈ avail) (nd : Node D) (path : List (Nat × Dir)) (a' : List Nat)
    (h : buildNode g st join reduce avail seed = some (nd, path, a')) :
    (∀ i ∈ ids path, i ∈ avail) ∧ (∀ z, z ∈ a' ↔ (z ∈ avail ∧ z ∉ ids path)) ∧ (ids path).Nodup ∧ seed ∈ ids path := by
  unfold buildNode at h
  cases hn : g.nodes[seed]? with
  | none => simp [hn] at h
  | some sn =>
    simp only [hn] at h
    cases hl : extendNode g st join (rm avail seed) seed .L with
    | none => simp [hl] at h
    | some rl =>
      obtain ⟨lpath, lext, a2⟩ := rl
      simp only [hl] at h
      cases hr : extendNode g st join (rm a2 seed) seed .R with
      | none => simp [hr] at h
      | some rr =>
        obtain ⟨rpath, rext, a3⟩ := rr
        simp only [hr] at h
        split at h
        · rename_i dat sq _ _
          simp only [Option.some.injEq, Prod.mk.injEq] at h
          obtain ⟨_, rfl, rfl⟩ := h
          have okl := extendNode_ok g st join _ _ _ _ _ _ hl
          have okr := extendNode_ok g st join _ _ _ _ _ _ hr
          have hids : ids ((lpath.map fun p => (p.1, p.2.flip)).reverse ++ [(seed, Dir.L)] ++ rpath)
              = (lpath.map Prod.fst).reverse ++ [seed] ++ rpath.map Prod.fst := by
            simp [ids, List.map_reverse, Function.comp_def]
          rw [hids]
          have l_in : ∀ i ∈ lpath.map Prod.fst, i ∈ avail ∧ i ≠ seed := by
            intro i hi
            obtain ⟨x, hx, rfl⟩ := List.mem_map.mp hi
            exact mem_rm.mp (okl.sub x hx)
          have r_in : ∀ i ∈ rpath.map Prod.fst, i ∈ avail ∧ i ≠ seed ∧ i ∉ lpath.map Prod.fst := by
            intro i hi
            obtain ⟨x, hx, rfl⟩ := List.mem_map.mp hi
            have h1 := mem_rm.mp (okr.sub x hx)
            have h2 := (okl.rest x.1).mp h1.1
            exact ⟨(mem_rm.mp h2.1).1, h1.2, h2.2⟩
          refine ⟨?_, ?_, ?_, by simp⟩
          · intro i hi
            simp only [List.mem_append, List.mem_reverse, List.mem_singleton] at hi
            rcases hi with (hi | rfl) | hi
            · exact (l_in i hi).1
            · exact hs
            · exact (r_in i hi).1
          · intro z
            rw [okr.rest z, mem_rm, okl.rest z, mem_rm]
            simp only [List.mem_append, List.mem_reverse, List.mem_singleton, not_or]
            constructor
            · rintro ⟨⟨⟨⟨h1, h2⟩, h3⟩, _⟩, h5⟩; exact ⟨h1, ⟨h3, h2⟩, h5⟩
            · rintro ⟨h1, ⟨h3, h2⟩, h5⟩; exact ⟨⟨⟨⟨h1, h2⟩, h3⟩, h2⟩, h5⟩
          · rw [List.append_assoc]
            apply List.nodup_append.mpr
            refine ⟨?_, ?_, ?_⟩
            · exact Walk.nodup_reverse' okl.nodup
            · simp only [List.singleton_append, List.nodup_cons]
              exact ⟨fun hin => (r_in seed hin).2.1 rfl, okr.nodup⟩
            · intro a ha b hb
              simp only [List.mem_reverse] at ha
              simp only [List.singleton_append, List.mem_cons] at hb
              rcases hb with rfl | hb
              · exact fun e => (l_in a ha).2 e
              · exact fun e => (r_in b hb).2.2 (e ▸ ha)
        · simp at h

/-- the loop of `compress_graph`: every output node merges only available input nodes, and no input node is merged twice -/
theorem compressLoop_ok (g : G D) (st : Bool) (join : D → D → Bool) (reduce : D → D → D) :
    ∀ (is avail : List Nat) (out : List (Node D × List (Nat × Dir))),
      compressLoop g st join reduce is avail = some out →
      (∀ np ∈ out, ∀ i ∈ ids np.2, i ∈ avail) ∧ (out.map fun np => ids np.2).flatten.Nodup := by
  intro is
  induction is with
  | nil => intro avail out h; simp only [compressLoop, Option.some.injEq] at h; subst h; simp
  | cons i is ih =>
    intro avail out h
    simp only [compressLoop] at h
    by_cases hi : i ∈ avail
    · simp only [hi, if_true] at h
      cases hb : buildNode g st join reduce avail i with
      | none => simp [hb] at h
      | some r =>
        obtain ⟨nd, path, a'⟩ := r
        simp only [hb] at h
        cases hrest : compressLoop g st join reduce is a' with
        | none => simp [hrest] at h
        | some rest =>
          simp only [hrest, Option.some.injEq] at h
          subst h
          obtain ⟨b1, b2, b3, _⟩ := buildNode_ok g st join reduce avail i hi nd path a' hb
          obtain ⟨r1, r2⟩ := ih a' rest hrest
          refine ⟨?_, ?_⟩
          · intro np hnp j hj
            rcases List.mem_cons.mp hnp with rfl | hnp
            · exact b1 j hj
            · exact ((b2 j).mp (r1 np hnp j hj)).1
          · simp only [List.map_cons, List.flatten_cons]
            apply List.nodup_append.mpr
            refine ⟨b3, r2, ?_⟩
            intro a ha b hb' e
            subst e
            obtain ⟨l, hl, hal⟩ := List.mem_flatten.mp hb'
            obtain ⟨np, hnp, rfl⟩ := List.mem_map.mp hl
            exact ((b2 a).mp (r1 np hnp a hal)).2 ha
    · simp only [hi, if_false] at h
      exact ih avail out h

/-- **C09 (censoring).** No output node of `compress_graph` merges a censored node, and every input node is merged into
    at most one output node. -/
theorem C09_censored_excluded (st : Bool) (g : G D) (join : D → D → Bool) (reduce : D → D → D) (censor : List Nat)
    (g' : G D) (paths : List (List (Nat × Dir))) (h : compressGraph st g join reduce censor = some (g', paths)) :
    (∀ p ∈ paths, ∀ i ∈ ids p, i ∉ censor ∧ i < g.nodes.length) ∧ (paths.map ids).flatten.Nodup := by
  unfold compressGraph at h
  dsimp only at h
  split at h
  · simp at h
  · rename_i nodes hl
    simp only [Option.some.injEq, Prod.mk.injEq] at h
    obtain ⟨_, rfl⟩ := h
    obtain ⟨a, b⟩ := compressLoop_ok _ st join reduce _ _ nodes hl
    refine ⟨?_, by simpa [List.map_map, Function.comp_def] using b⟩
    intro p hp i hi
    obtain ⟨np, hnp, rfl⟩ := List.mem_map.mp hp
    have := a np hnp i hi
    simp only [List.mem_filter, List.mem_range, Bool.not_eq_true', List.contains_eq_mem, decide_eq_false_iff_not] at this
    exact ⟨this.2, this.1⟩

end CompressGraph
