import Dbg.Model.CompressGraph
import Dbg.Lemmas.WalkProofs
import Dbg.Lemmas.GraphSym
import Dbg.Lemmas.GInvCompress
/-! # C09 — Graph re-compression and node censoring are exact

Proved so far for the model of `CompressFromGraph`: every walk only steps onto available nodes, removes them from the
availability set and never repeats a node; hence a censored node (never available) is never merged into any output
node, and every input node is consumed by at most one output node.  The characterisation of the result as the
maximal unbranched paths of the surviving adjacencies (`C09_char`), no-dangling-extensions, payload and idempotence
are executable predicates evaluated on the crate's result (partial). -/
namespace CompressGraph
open Compress (Seq Exts Node)
open Walk (Dir rm mem_rm)
open Graph
variable {D : Type}

/-- what a finished walk guarantees -/
structure WalkOK (avail : List Nat) (p : List (Nat × Dir)) (avail' : List Nat) : Prop where
  sub : ∀ x ∈ p, x.1 ∈ avail
  rest : ∀ z, z ∈ avail' ↔ (z ∈ avail ∧ z ∉ p.map Prod.fst)
  nodup : (p.map Prod.fst).Nodup

theorem extendNode_ok (g : G D) (st : Bool) (join : D → D → Bool) (avail : List Nat) (cur : Nat) (dir : Dir)
    (p : List (Nat × Dir)) (e : Exts) (a' : List Nat) (h : extendNode g st join avail cur dir = some (p, e, a')) :
    WalkOK avail p a' := by
  fun_induction extendNode g st join avail cur dir generalizing p e a' with
  | case1 avail cur dir nx out hx hmem p0 e0 a0 hrec ih =>
    simp only [Option.some.injEq, Prod.mk.injEq] at h
    obtain ⟨rfl, rfl, rfl⟩ := h
    have ok := ih p0 e0 a0 hrec
    refine ⟨?_, ?_, ?_⟩
    · intro x hx'
      rcases List.mem_cons.mp hx' with rfl | hx'
      · exact hmem
      · exact (mem_rm.mp (ok.sub x hx')).1
    · intro z
      rw [ok.rest z, mem_rm]
      simp only [List.map_cons, List.mem_cons, not_or]
      constructor
      · rintro ⟨⟨h1, h2⟩, h3⟩; exact ⟨h1, h2, h3⟩
      · rintro ⟨h1, h2, h3⟩; exact ⟨⟨h1, h2⟩, h3⟩
    · simp only [List.map_cons, List.nodup_cons]
      refine ⟨?_, ok.nodup⟩
      intro hin
      obtain ⟨x, hx', rfl⟩ := List.mem_map.mp hin
      exact (mem_rm.mp (ok.sub x hx')).2 rfl
  | case2 avail cur dir nx out hx hmem hrec => simp at h
  | case3 avail cur dir nx out hx hmem => simp at h
  | case4 avail cur dir e1 hx =>
    simp only [Option.some.injEq, Prod.mk.injEq] at h
    obtain ⟨rfl, rfl, rfl⟩ := h
    exact ⟨by simp, by simp, by simp⟩
  | case5 avail cur dir hx => simp at h

/-- the ids merged by one output node -/
def ids (path : List (Nat × Dir)) : List Nat := path.map Prod.fst

theorem buildNode_ok (g : G D) (st : Bool) (join : D → D → Bool) (reduce : D → D → D) (avail : List Nat) (seed : Nat)
    (hs : seed ∈ avail) (nd : Node D) (path : List (Nat × Dir)) (a' : List Nat)
    (h : buildNode g st join reduce avail seed = some (nd, path, a')) :
    (∀ i ∈ ids path, i ∈ avail) ∧ (∀ z, z ∈ a' ↔ (z ∈ avail ∧ z ∉ ids path)) ∧ (ids path).Nodup ∧ seed ∈ ids path := by
  unfold buildNode at h
  cases hn : g.nodes[seed]? with
  | none => simp [hn] at h
  | some sn =>
    simp only [hn] at h
    cases hl : extendNode g st join (rm avail seed) seed .L with
    | none => simp [hl] at h
    | some rl =>
      obtain ⟨lpath, lext, a2⟩ := rl
      simp only [hl] at h
      cases hr : extendNode g st join (rm a2 seed) seed .R with
      | none => simp [hr] at h
      | some rr =>
        obtain ⟨rpath, rext, a3⟩ := rr
        simp only [hr] at h
        split at h
        · rename_i dat sq _ _
          simp only [Option.some.injEq, Prod.mk.injEq] at h
          obtain ⟨_, rfl, rfl⟩ := h
          have okl := extendNode_ok g st join _ _ _ _ _ _ hl
          have okr := extendNode_ok g st join _ _ _ _ _ _ hr
          have hids : ids ((lpath.map fun p => (p.1, p.2.flip)).reverse ++ [(seed, Dir.L)] ++ rpath)
              = (lpath.map Prod.fst).reverse ++ [seed] ++ rpath.map Prod.fst := by
            simp [ids, List.map_reverse, Function.comp_def]
          rw [hids]
          have l_in : ∀ i ∈ lpath.map Prod.fst, i ∈ avail ∧ i ≠ seed := by
            intro i hi
            obtain ⟨x, hx, rfl⟩ := List.mem_map.mp hi
            exact mem_rm.mp (okl.sub x hx)
          have r_in : ∀ i ∈ rpath.map Prod.fst, i ∈ avail ∧ i ≠ seed ∧ i ∉ lpath.map Prod.fst := by
            intro i hi
            obtain ⟨x, hx, rfl⟩ := List.mem_map.mp hi
            have h1 := mem_rm.mp (okr.sub x hx)
            have h2 := (okl.rest x.1).mp h1.1
            exact ⟨(mem_rm.mp h2.1).1, h1.2, h2.2⟩
          refine ⟨?_, ?_, ?_, by simp⟩
          · intro i hi
            simp only [List.mem_append, List.mem_reverse, List.mem_singleton] at hi
            rcases hi with (hi | rfl) | hi
            · exact (l_in i hi).1
            · exact hs
            · exact (r_in i hi).1
          · intro z
            rw [okr.rest z, mem_rm, okl.rest z, mem_rm]
            simp only [List.mem_append, List.mem_reverse, List.mem_singleton, not_or]
            constructor
            · rintro ⟨⟨⟨⟨h1, h2⟩, h3⟩, _⟩, h5⟩; exact ⟨h1, ⟨h3, h2⟩, h5⟩
            · rintro ⟨h1, ⟨h3, h2⟩, h5⟩; exact ⟨⟨⟨⟨h1, h2⟩, h3⟩, h2⟩, h5⟩
          · rw [List.append_assoc]
            apply List.nodup_append.mpr
            refine ⟨?_, ?_, ?_⟩
            · exact Walk.nodup_reverse' okl.nodup
            · simp only [List.singleton_append, List.nodup_cons]
              exact ⟨fun hin => (r_in seed hin).2.1 rfl, okr.nodup⟩
            · intro a ha b hb
              simp only [List.mem_reverse] at ha
              simp only [List.singleton_append, List.mem_cons] at hb
              rcases hb with rfl | hb
              · exact fun e => (l_in a ha).2 e
              · exact fun e => (r_in b hb).2.2 (e ▸ ha)
        · simp at h

/-- the loop of `compress_graph`: every output node merges only available input nodes, and no input node is merged twice -/
theorem compressLoop_ok (g : G D) (st : Bool) (join : D → D → Bool) (reduce : D → D → D) :
    ∀ (is avail : List Nat) (out : List (Node D × List (Nat × Dir))),
      compressLoop g st join reduce is avail = some out →
      (∀ np ∈ out, ∀ i ∈ ids np.2, i ∈ avail) ∧ (out.map fun np => ids np.2).flatten.Nodup := by
  intro is
  induction is with
  | nil => intro avail out h; simp only [compressLoop, Option.some.injEq] at h; subst h; simp
  | cons i is ih =>
    intro avail out h
    simp only [compressLoop] at h
    by_cases hi : i ∈ avail
    · simp only [hi, if_true] at h
      cases hb : buildNode g st join reduce avail i with
      | none => simp [hb] at h
      | some r =>
        obtain ⟨nd, path, a'⟩ := r
        simp only [hb] at h
        cases hrest : compressLoop g st join reduce is a' with
        | none => simp [hrest] at h
        | some rest =>
          simp only [hrest, Option.some.injEq] at h
          subst h
          obtain ⟨b1, b2, b3, _⟩ := buildNode_ok g st join reduce avail i hi nd path a' hb
          obtain ⟨r1, r2⟩ := ih a' rest hrest
          refine ⟨?_, ?_⟩
          · intro np hnp j hj
            rcases List.mem_cons.mp hnp with rfl | hnp
            · exact b1 j hj
            · exact ((b2 j).mp (r1 np hnp j hj)).1
          · simp only [List.map_cons, List.flatten_cons]
            apply List.nodup_append.mpr
            refine ⟨b3, r2, ?_⟩
            intro a ha b hb' e
            subst e
            obtain ⟨l, hl, hal⟩ := List.mem_flatten.mp hb'
            obtain ⟨np, hnp, rfl⟩ := List.mem_map.mp hl
            exact ((b2 a).mp (r1 np hnp a hal)).2 ha
    · simp only [hi, if_false] at h
      exact ih avail out h

/-- **C09 (censoring).** No output node of `compress_graph` merges a censored node, and every input node is merged into
    at most one output node. -/
theorem C09_censored_excluded (st : Bool) (g : G D) (join : D → D → Bool) (reduce : D → D → D) (censor : List Nat)
    (g' : G D) (paths : List (List (Nat × Dir))) (h : compressGraph st g join reduce censor = some (g', paths)) :
    (∀ p ∈ paths, ∀ i ∈ ids p, i ∉ censor ∧ i < g.nodes.length) ∧ (paths.map ids).flatten.Nodup := by
  unfold compressGraph at h
  dsimp only at h
  split at h
  · simp at h
  · rename_i nodes hl
    simp only [Option.some.injEq, Prod.mk.injEq] at h
    obtain ⟨_, rfl⟩ := h
    obtain ⟨a, b⟩ := compressLoop_ok _ st join reduce _ _ nodes hl
    refine ⟨?_, by simpa [List.map_map, Function.comp_def] using b⟩
    intro p hp i hi
    obtain ⟨np, hnp, rfl⟩ := List.mem_map.mp hp
    have := a np hnp i hi
    simp only [List.mem_filter, List.mem_range, Bool.not_eq_true', List.contains_eq_mem, decide_eq_false_iff_not] at this
    exact ⟨this.2, this.1⟩

end CompressGraph

namespace CompressGraph
open Compress (Seq Exts Node windowsOf)
open Walk (Dir rm mem_rm)
open Graph
variable {D : Type}

/-! ### every step of a walk follows a reported edge; the merged sequence spells the merged nodes -/

theorem nibUniq_has (n : Nat) (b : Compress.Base) (h : Compress.nibUniq n = some b) : Compress.nibHas n b = true := by
  unfold Compress.nibUniq at h
  unfold Compress.nibHas
  split at h
  · cases h; simp only [bne_iff_ne, ne_eq]; show ¬ (n &&& (1 <<< 0) = 0); rename_i h1; simp at h1 ⊢; omega
  · split at h
    · cases h; simp only [bne_iff_ne, ne_eq]; show ¬ (n &&& (1 <<< 1) = 0); rename_i h1; simp at h1 ⊢; omega
    · split at h
      · cases h; simp only [bne_iff_ne, ne_eq]; show ¬ (n &&& (1 <<< 2) = 0); rename_i h1; simp at h1 ⊢; omega
      · split at h
        · cases h; simp only [bne_iff_ne, ne_eq]; show ¬ (n &&& (1 <<< 3) = 0); rename_i h1; simp at h1 ⊢; omega
        · cases h

/-- what a `cand` answer of the static part means -/
theorem staticNode_cand (g : G D) (st : Bool) (join : D → D → Bool) (cur : Nat) (dir : Dir)
    (y : Nat) (inc : Dir) (bad : Bool) (cnt : Nat) (e : Exts) (h : staticNode g st join cur dir = .cand y inc bad cnt e) :
    ∃ (nd nn : Node D) (b : Compress.Base) (fl : Bool), g.nodes[cur]? = some nd ∧ g.nodes[y]? = some nn ∧
      nd.exts.numExtDir dir = 1 ∧ (!st && nd.seq.length == g.K && Compress.isPalindrome (nd.seq.take g.K)) = false ∧
      nd.exts.uniqueExt dir = some b ∧
      findLink g (Compress.extend (termKmer g.K nd.seq dir) b dir) dir = some (y, inc, fl) ∧
      bad = ((!st && Compress.isPalindrome (Compress.extend (termKmer g.K nd.seq dir) b dir)) || !(join nd.data nn.data)) ∧
      cnt = nn.exts.numExtDir inc ∧ e = nd.exts.singleDir dir := by
  unfold staticNode at h
  cases hn : g.nodes[cur]? with
  | none => rw [hn] at h; cases h
  | some nd =>
    rw [hn] at h
    simp only at h
    split at h
    · cases h
    · rename_i hcond
      cases hu : nd.exts.uniqueExt dir with
      | none => rw [hu] at h; cases h
      | some b =>
        rw [hu] at h
        simp only at h
        cases hl : findLink g (Compress.extend (termKmer g.K nd.seq dir) b dir) dir with
        | none => rw [hl] at h; cases h
        | some r =>
          obtain ⟨nextId, incoming, flip⟩ := r
          rw [hl] at h
          simp only at h
          cases hnn : g.nodes[nextId]? with
          | none => rw [hnn] at h; cases h
          | some nn =>
            rw [hnn] at h
            simp only at h
            have key : ∀ (c : Bool) (s1 : StaticN), (if c = true then StaticN.panic else s1) = StaticN.cand y inc bad cnt e → s1 = StaticN.cand y inc bad cnt e := by
              intro c s1 hh; cases c <;> simp at hh; exact hh
            have h' := key _ _ h
            simp only [StaticN.cand.injEq] at h'
            obtain ⟨rfl, rfl, rfl, rfl, rfl⟩ := h'
            simp only [Bool.or_eq_true, bne_iff_ne, ne_eq, not_or, Bool.not_eq_true, Decidable.not_not] at hcond
            exact ⟨nd, nn, b, flip, rfl, hnn, by simpa using hcond.1, hcond.2, hu, hl, rfl, rfl, rfl⟩

/-- a `unique` answer of `try_extend_node` is one of the edges reported from that side -/
theorem tryExtendNode_edge (g : G D) (st : Bool) (join : D → D → Bool) (avail : List Nat) (cur : Nat) (dir : Dir)
    (nx : Nat) (out : Dir) (h : tryExtendNode g st join avail cur dir = .unique nx out) :
    ∃ es f, findEdges g cur dir = some es ∧ (nx, out.flip, f) ∈ es := by
  unfold tryExtendNode at h
  cases hs : staticNode g st join cur dir with
  | panic => rw [hs] at h; cases h
  | terminal e => rw [hs] at h; cases h
  | cand y inc bad cnt e =>
    rw [hs] at h
    simp only at h
    obtain ⟨nd, nn, b, fl, hn, _, _, _, hu, hl, _, _, _⟩ := staticNode_cand g st join cur dir y inc bad cnt e hs
    have hyo : nx = y ∧ out = inc.flip := by
      split at h
      · cases h
      · split at h
        · cases h
        · split at h
          · simp only [ExtModeNode.unique.injEq] at h; exact ⟨h.1.symm, h.2.symm⟩
          · cases h
    obtain ⟨rfl, rfl⟩ := hyo
    refine ⟨_, fl, by unfold findEdges; rw [hn], ?_⟩
    rw [Dir.flip_flip, List.mem_filterMap]
    have hb : nd.exts.hasExt dir b.val = true := by
      rw [Compress.uniqueExt_eq] at hu
      split at hu
      · cases hu
      · have := nibUniq_has _ b hu
        unfold Compress.nibHas at this
        unfold Compress.Exts.hasExt
        simp only [bne_iff_ne, ne_eq] at this
        simp only [decide_eq_true_eq]
        omega
    exact ⟨b, Graph.mem_base4 b, by rw [if_pos hb]; exact hl⟩

/-- entries of a walk, as `sequence_of_path` reads them: each follows an edge out of its predecessor -/
theorem extendNode_chain (g : G D) (st : Bool) (join : D → D → Bool) (avail : List Nat) (cur : Nat) (dir : Dir)
    (p : List (Nat × Dir)) (e : Exts) (a' : List Nat) (h : extendNode g st join avail cur dir = some (p, e, a')) :
    Graph.ChainStep g (cur, dir.flip) p := by
  fun_induction extendNode g st join avail cur dir generalizing p e a' with
  | case1 avail cur dir nx out hx hmem p0 e0 a0 hrec ih =>
    simp only [Option.some.injEq, Prod.mk.injEq] at h
    obtain ⟨rfl, rfl, rfl⟩ := h
    obtain ⟨es, f, he, hm⟩ := tryExtendNode_edge g st join avail cur dir nx out hx
    refine ⟨Or.inl ⟨es, f, by simpa [Dir.flip_flip] using he, hm⟩, ?_⟩
    have := ih p0 e0 a0 hrec
    simpa [Dir.flip_flip] using this
  | case2 avail cur dir nx out hx hmem hrec => simp at h
  | case3 avail cur dir nx out hx hmem => simp at h
  | case4 avail cur dir e1 hx =>
    simp only [Option.some.injEq, Prod.mk.injEq] at h
    obtain ⟨rfl, rfl, rfl⟩ := h
    trivial
  | case5 avail cur dir hx => simp at h

end CompressGraph

namespace CompressGraph
open Compress (Seq Exts Node windowsOf)
open Walk (Dir rm mem_rm)
open Graph
variable {D : Type}

def IsChain (g : G D) : List (Nat × Dir) → Prop
  | [] => True
  | p :: rest => ChainStep g p rest

theorem chainStep_cons_append (g : G D) (p : Nat × Dir) (l1 l2 : List (Nat × Dir)) (q : Nat × Dir)
    (h1 : ChainStep g p (l1 ++ [q])) (h2 : ChainStep g q l2) : ChainStep g p (l1 ++ [q] ++ l2) := by
  induction l1 generalizing p with
  | nil => exact ⟨h1.1, h2⟩
  | cons a t ih => exact ⟨h1.1, ih a h1.2⟩

/-- two chains sharing their junction entry -/
theorem isChain_append (g : G D) (l1 l2 : List (Nat × Dir)) (q : Nat × Dir)
    (h1 : IsChain g (l1 ++ [q])) (h2 : ChainStep g q l2) : IsChain g (l1 ++ [q] ++ l2) := by
  cases l1 with
  | nil => exact h2
  | cons a t => exact chainStep_cons_append g a t l2 q h1 h2

def flip2 (p : Nat × Dir) : Nat × Dir := (p.1, p.2.flip)

theorem stepOK_flip (g : G D) (a b : Nat × Dir) (h : StepOK g a b) : StepOK g (flip2 b) (flip2 a) := by
  rcases h with ⟨es, f, he, hm⟩ | ⟨es, f, he, hm⟩
  · exact Or.inr ⟨es, f, he, by simpa [flip2, Dir.flip_flip] using hm⟩
  · exact Or.inl ⟨es, f, by simpa [flip2, Dir.flip_flip] using he, by simpa [flip2] using hm⟩

/-- a chain read backwards, every entry seen from its other side -/
theorem isChain_reverse (g : G D) (p : Nat × Dir) (rest : List (Nat × Dir)) (h : ChainStep g p rest) :
    IsChain g ((rest.map flip2).reverse ++ [flip2 p]) := by
  induction rest generalizing p with
  | nil => trivial
  | cons q t ih =>
    have h1 := ih q h.2
    simp only [List.map_cons, List.reverse_cons, List.append_assoc, List.singleton_append]
    have : (t.map flip2).reverse ++ flip2 q :: [flip2 p] = ((t.map flip2).reverse ++ [flip2 q]) ++ [flip2 p] := by simp
    rw [this]
    exact isChain_append g _ [flip2 p] (flip2 q) h1 ⟨stepOK_flip g p q h.1, trivial⟩

end CompressGraph

namespace CompressGraph
open Compress (Seq Exts Node windowsOf)
open Walk (Dir rm mem_rm)
open Graph
variable {D : Type}

theorem extendNode_nodes (g : G D) (st : Bool) (join : D → D → Bool) (avail : List Nat) (cur : Nat) (dir : Dir)
    (p : List (Nat × Dir)) (e : Exts) (a' : List Nat) (h : extendNode g st join avail cur dir = some (p, e, a')) :
    ∀ q ∈ p, (g.nodes[q.1]?).isSome := by
  fun_induction extendNode g st join avail cur dir generalizing p e a' with
  | case1 avail cur dir nx out hx hmem p0 e0 a0 hrec ih =>
    simp only [Option.some.injEq, Prod.mk.injEq] at h
    obtain ⟨rfl, rfl, rfl⟩ := h
    obtain ⟨es, f, he, hm⟩ := tryExtendNode_edge g st join avail cur dir nx out hx
    intro q hq
    rcases List.mem_cons.mp hq with rfl | hq'
    · exact (findEdges_nodes g cur dir es he).2 _ hm
    · exact ih p0 e0 a0 hrec q hq'
  | case2 avail cur dir nx out hx hmem hrec => simp at h
  | case3 avail cur dir nx out hx hmem => simp at h
  | case4 avail cur dir e1 hx =>
    simp only [Option.some.injEq, Prod.mk.injEq] at h
    obtain ⟨rfl, rfl, rfl⟩ := h
    intro q hq; cases hq
  | case5 avail cur dir hx => simp at h

/-- **C09 (k-mers and payload of a merged node).** The sequence of a node built by `build_node` spells exactly the
    k-mers of the old nodes on its path, in walking orientation and in order; its payload is the caller's reduction folded
    over the payloads of the left path, then of the right path, starting from the seed's. -/
theorem buildNode_kmers (g : G D) (hK : 1 ≤ g.K) (hl : ∀ (i : Nat) (n : Node D), g.nodes[i]? = some n → g.K ≤ n.seq.length)
    (st : Bool) (join : D → D → Bool) (reduce : D → D → D) (avail : List Nat) (seed : Nat)
    (nd : Node D) (path : List (Nat × Dir)) (a' : List Nat) (h : buildNode g st join reduce avail seed = some (nd, path, a')) :
    windowsOf g.K nd.seq = path.flatMap (orientedKmers g) ∧ IsChain g path ∧ (∀ q ∈ path, (g.nodes[q.1]?).isSome) := by
  unfold buildNode at h
  cases hn : g.nodes[seed]? with
  | none => simp [hn] at h
  | some sn =>
    simp only [hn] at h
    cases hL : extendNode g st join (rm avail seed) seed .L with
    | none => simp [hL] at h
    | some rl =>
      obtain ⟨lpath, lext, a2⟩ := rl
      simp only [hL] at h
      cases hR : extendNode g st join (rm a2 seed) seed .R with
      | none => simp [hR] at h
      | some rr =>
        obtain ⟨rpath, rext, a3⟩ := rr
        simp only [hR] at h
        split at h
        · rename_i dat sq hdat hsq
          simp only [Option.some.injEq, Prod.mk.injEq] at h
          obtain ⟨rfl, rfl, rfl⟩ := h
          have cl := extendNode_chain g st join _ _ _ _ _ _ hL
          have cr := extendNode_chain g st join _ _ _ _ _ _ hR
          have nl := extendNode_nodes g st join _ _ _ _ _ _ hL
          have nr := extendNode_nodes g st join _ _ _ _ _ _ hR
          -- the whole path is a chain
          have hrev := isChain_reverse g (seed, Dir.L.flip) lpath cl
          have hmap : (lpath.map fun p => (p.1, p.2.flip)) = lpath.map flip2 := rfl
          have hchain : IsChain g ((lpath.map fun p => (p.1, p.2.flip)).reverse ++ [(seed, Dir.L)] ++ rpath) := by
            rw [hmap]
            exact isChain_append g _ rpath (seed, Dir.L) (by simpa [flip2, Dir.flip] using hrev) (by simpa [Dir.flip] using cr)
          have hnodes : ∀ q ∈ (lpath.map fun p => (p.1, p.2.flip)).reverse ++ [(seed, Dir.L)] ++ rpath, (g.nodes[q.1]?).isSome := by
            intro q hq
            simp only [List.mem_append, List.mem_reverse, List.mem_map, List.mem_singleton] at hq
            rcases hq with (⟨p, hp, rfl⟩ | rfl) | hq
            · exact nl p hp
            · rw [hn]; rfl
            · exact nr q hq
          refine ⟨?_, hchain, hnodes⟩
          -- `sequence_of_path` on a chain
          cases hpath : (lpath.map fun p => (p.1, p.2.flip)).reverse ++ [(seed, Dir.L)] ++ rpath with
          | nil => simp at hpath
          | cons p0 rest =>
            rw [hpath] at hchain hnodes hsq
            obtain ⟨S, e, w⟩ := walk_sequence g hK hl p0 rest (hnodes p0 (by simp)) (fun q hq => hnodes q (by simp [hq])) hchain
            rw [hsq] at e; cases e
            exact w
        · simp at h

end CompressGraph

namespace CompressGraph
open Compress (Seq Exts Node windowsOf)
open Walk (Dir rm mem_rm)
open Graph
variable {D : Type}

/-! ### `fix_exts` only rewrites extension bytes -/

def sameShape (g g' : G D) : Prop :=
  g'.K = g.K ∧ g'.stranded = g.stranded ∧ g'.nodes.map (·.seq) = g.nodes.map (·.seq) ∧ g'.nodes.map (·.data) = g.nodes.map (·.data)

theorem sameShape_refl (g : G D) : sameShape g g := ⟨rfl, rfl, rfl, rfl⟩
theorem sameShape_trans {g1 g2 g3 : G D} (h1 : sameShape g1 g2) (h2 : sameShape g2 g3) : sameShape g1 g3 :=
  ⟨h2.1.trans h1.1, h2.2.1.trans h1.2.1, h2.2.2.1.trans h1.2.2.1, h2.2.2.2.trans h1.2.2.2⟩

theorem sameShape_setExts (g : G D) (i : Nat) (nd : Node D) (hn : g.nodes[i]? = some nd) (e : Exts) :
    sameShape g { g with nodes := g.nodes.set i { nd with exts := e } } := by
  have hlt : i < g.nodes.length := Graph.getElem?_lt hn
  have hnd : g.nodes[i] = nd := by rw [List.getElem?_eq_getElem hlt] at hn; exact Option.some.inj hn
  refine ⟨rfl, rfl, ?_, ?_⟩
  · show (g.nodes.set i _).map (·.seq) = _
    rw [List.map_set]
    show (g.nodes.map (·.seq)).set i nd.seq = _
    rw [← hnd]
    have : (g.nodes.map (·.seq))[i]'(by simpa using hlt) = g.nodes[i].seq := by simp
    rw [← this, List.set_getElem_self]
  · show (g.nodes.set i _).map (·.data) = _
    rw [List.map_set]
    show (g.nodes.map (·.data)).set i nd.data = _
    rw [← hnd]
    have : (g.nodes.map (·.data))[i]'(by simpa using hlt) = g.nodes[i].data := by simp
    rw [← this, List.set_getElem_self]

theorem fixExts_shape (g : G D) (valid : Option (List Nat)) : sameShape g (fixExts g valid) := by
  unfold fixExts
  -- generalise the start of the fold (the list of indices is computed once, from the original graph)
  have key : ∀ (is : List Nat) (g0 : G D), sameShape g g0 →
      sameShape g (is.foldl (fun (g : G D) i =>
        match getValidExts g i valid, g.nodes[i]? with
        | some e, some nd => { g with nodes := g.nodes.set i { nd with exts := e } }
        | _, _ => g) g0) := by
    intro is
    induction is with
    | nil => intro g0 h; exact h
    | cons i t ih =>
      intro g0 h
      rw [List.foldl_cons]
      apply ih
      split
      · rename_i e nd _ hn
        exact sameShape_trans h (sameShape_setExts g0 i nd hn e)
      · exact h
  exact key _ g (sameShape_refl g)

theorem orientedKmers_shape (g g' : G D) (h : sameShape g g') (p : Nat × Dir) : orientedKmers g' p = orientedKmers g p := by
  unfold orientedKmers
  have hs := congrArg (·[p.1]?) h.2.2.1
  simp only [List.getElem?_map] at hs
  rw [h.1]
  cases h1 : g'.nodes[p.1]? with
  | none =>
    rw [h1] at hs
    cases h2 : g.nodes[p.1]? with
    | none => rfl
    | some n => rw [h2] at hs; cases hs
  | some n' =>
    rw [h1] at hs
    cases h2 : g.nodes[p.1]? with
    | none => rw [h2] at hs; cases hs
    | some n =>
      rw [h2] at hs
      simp only [Option.map_some, Option.some.injEq] at hs
      simp only [hs]

theorem shape_len (g g' : G D) (h : sameShape g g') (hl : ∀ (i : Nat) (n : Node D), g.nodes[i]? = some n → g.K ≤ n.seq.length) :
    ∀ (i : Nat) (n : Node D), g'.nodes[i]? = some n → g'.K ≤ n.seq.length := by
  intro i n hn
  have hs := congrArg (·[i]?) h.2.2.1
  simp only [List.getElem?_map, hn, Option.map_some] at hs
  cases h2 : g.nodes[i]? with
  | none => rw [h2] at hs; cases hs
  | some m =>
    rw [h2] at hs
    simp only [Option.map_some, Option.some.injEq] at hs
    rw [h.1, hs]; exact hl i m h2

/-! ### the loop covers every available node -/

theorem compressLoop_cover (g : G D) (st : Bool) (join : D → D → Bool) (reduce : D → D → D) :
    ∀ (is avail : List Nat) (out : List (Node D × List (Nat × Dir))),
      compressLoop g st join reduce is avail = some out →
      ∀ i ∈ is, i ∈ avail → ∃ np ∈ out, i ∈ ids np.2 := by
  intro is
  induction is with
  | nil => intro avail out _ i hi; cases hi
  | cons j is ih =>
    intro avail out h i hi hia
    simp only [compressLoop] at h
    by_cases hj : j ∈ avail
    · simp only [hj, if_true] at h
      cases hb : buildNode g st join reduce avail j with
      | none => simp [hb] at h
      | some r =>
        obtain ⟨nd, path, a'⟩ := r
        simp only [hb] at h
        cases hrest : compressLoop g st join reduce is a' with
        | none => simp [hrest] at h
        | some rest =>
          simp only [hrest, Option.some.injEq] at h
          subst h
          obtain ⟨_, b2, _, b4⟩ := buildNode_ok g st join reduce avail j hj nd path a' hb
          by_cases hin : i ∈ ids path
          · exact ⟨(nd, path), by simp, hin⟩
          · rcases List.mem_cons.mp hi with rfl | hi'
            · exact absurd b4 hin
            · obtain ⟨np, hnp, hm⟩ := ih a' rest hrest i hi' ((b2 i).mpr ⟨hia, hin⟩)
              exact ⟨np, by simp [hnp], hm⟩
    · simp only [hj, if_false] at h
      rcases List.mem_cons.mp hi with rfl | hi'
      · exact absurd hia hj
      · exact ih avail out h i hi' hia

theorem compressLoop_kmers (g : G D) (hK : 1 ≤ g.K) (hl : ∀ (i : Nat) (n : Node D), g.nodes[i]? = some n → g.K ≤ n.seq.length)
    (st : Bool) (join : D → D → Bool) (reduce : D → D → D) :
    ∀ (is avail : List Nat) (out : List (Node D × List (Nat × Dir))),
      compressLoop g st join reduce is avail = some out →
      ∀ np ∈ out, windowsOf g.K np.1.seq = np.2.flatMap (orientedKmers g) ∧ IsChain g np.2 := by
  intro is
  induction is with
  | nil => intro avail out h np hnp; simp only [compressLoop, Option.some.injEq] at h; subst h; cases hnp
  | cons j is ih =>
    intro avail out h np hnp
    simp only [compressLoop] at h
    by_cases hj : j ∈ avail
    · simp only [hj, if_true] at h
      cases hb : buildNode g st join reduce avail j with
      | none => simp [hb] at h
      | some r =>
        obtain ⟨nd, path, a'⟩ := r
        simp only [hb] at h
        cases hrest : compressLoop g st join reduce is a' with
        | none => simp [hrest] at h
        | some rest =>
          simp only [hrest, Option.some.injEq] at h
          subst h
          rcases List.mem_cons.mp hnp with rfl | hnp'
          · obtain ⟨w, c, _⟩ := buildNode_kmers g hK hl st join reduce avail j nd path a' hb
            exact ⟨w, c⟩
          · exact ih a' rest hrest np hnp'
    · simp only [hj, if_false] at h
      exact ih avail out h np hnp

/-- **C09 (k-mers, coverage).** If `compress_graph` returns, then: it has one new node per returned path; the k-mers of
    every new node are exactly the k-mers of the old nodes on its path, in walking orientation and in order, every step of
    the path following an edge of the (pruned) old graph; every non-censored old node lies on exactly one path and no
    censored node on any. Hence the new graph's k-mers are exactly those of the non-censored nodes, each once. -/
theorem C09_kmers_cover (st : Bool) (g : G D) (hK : 1 ≤ g.K) (hl : ∀ (i : Nat) (n : Node D), g.nodes[i]? = some n → g.K ≤ n.seq.length)
    (join : D → D → Bool) (reduce : D → D → D) (censor : List Nat)
    (g' : G D) (paths : List (List (Nat × Dir))) (h : compressGraph st g join reduce censor = some (g', paths)) :
    g'.nodes.length = paths.length ∧
    (∀ (i : Nat) (n : Node D) (p : List (Nat × Dir)), g'.nodes[i]? = some n → paths[i]? = some p →
      windowsOf g.K n.seq = p.flatMap (orientedKmers g)) ∧
    (∀ i, i < g.nodes.length → i ∉ censor → ∃ p ∈ paths, i ∈ ids p) ∧
    (∀ p ∈ paths, ∀ i ∈ ids p, i ∉ censor ∧ i < g.nodes.length) ∧ (paths.map ids).flatten.Nodup := by
  obtain ⟨hex, hnd⟩ := C09_censored_excluded st g join reduce censor g' paths h
  unfold compressGraph at h
  dsimp only at h
  split at h
  · simp at h
  · rename_i nodes hloop
    simp only [Option.some.injEq, Prod.mk.injEq] at h
    obtain ⟨hg', hp⟩ := h
    have sh1 := fixExts_shape g (some ((List.range g.nodes.length).filter fun i => !censor.contains i))
    have hK1 : 1 ≤ (fixExts g (some ((List.range g.nodes.length).filter fun i => !censor.contains i))).K := by rw [sh1.1]; exact hK
    have hl1 := shape_len g _ sh1 hl
    have hkm := compressLoop_kmers _ hK1 hl1 st join reduce _ _ nodes hloop
    have hcov := compressLoop_cover _ st join reduce _ _ nodes hloop
    have sh2 := fixExts_shape (⟨g.K, nodes.map (·.1), st⟩ : G D) none
    refine ⟨?_, ?_, ?_, hex, hnd⟩
    · rw [← hg', ← hp]
      have := congrArg List.length sh2.2.2.1
      simpa using this
    · intro i n p hn hpi
      rw [← hp, List.getElem?_map] at hpi
      cases hx : nodes[i]? with
      | none => rw [hx] at hpi; cases hpi
      | some x =>
        rw [hx] at hpi
        simp only [Option.map_some, Option.some.injEq] at hpi
        subst hpi
        -- the final `fix_exts` keeps the sequences
        have hs := congrArg (·[i]?) sh2.2.2.1
        rw [← hg'] at hn
        simp only [List.getElem?_map, hn, hx, Option.map_some, Option.some.injEq] at hs
        obtain ⟨w, _⟩ := hkm x (List.mem_of_getElem? hx)
        rw [sh1.1] at w
        rw [hs, w]
        congr 1
        funext q
        exact orientedKmers_shape g _ sh1 q
    · intro i hi hc
      have hmem : i ∈ (List.range g.nodes.length).filter fun i => !censor.contains i := by
        simp only [List.mem_filter, List.mem_range, Bool.not_eq_true', List.contains_eq_mem, decide_eq_false_iff_not]
        exact ⟨hi, hc⟩
      obtain ⟨np, hnp, hm⟩ := hcov i (List.mem_range.mpr hi) hmem
      exact ⟨np.2, by rw [← hp]; exact List.mem_map_of_mem hnp, hm⟩

end CompressGraph

namespace CompressGraph
open Compress (Seq Exts Node windowsOf)
open Walk (Dir rm mem_rm)
open Graph
open Filter (has)
variable {D : Type}

/-! ### `fix_exts` is exact: no extension is left dangling -/

theorem searchKmer_shape (g g' : G D) (h : sameShape g g') (km : Seq) (side : Dir) : searchKmer g' km side = searchKmer g km side := by
  unfold searchKmer
  have e : ∀ (G0 : G D), (G0.nodes.findIdx? fun nd => termKmer G0.K nd.seq side == km) =
      (G0.nodes.map (·.seq)).findIdx? (fun s => termKmer G0.K s side == km) := by
    intro G0; rw [List.findIdx?_map]; rfl
  rw [e g', e g, h.1, h.2.2.1]

theorem findLink_shape (g g' : G D) (h : sameShape g g') (km : Seq) (d : Dir) : findLink g' km d = findLink g km d := by
  unfold findLink
  simp only [searchKmer_shape g g' h, h.2.1]

theorem extOk_shape (g g' : G D) (h : sameShape g g') (nd : Node D) (valid : Option (List Nat)) (d : Dir) (b : Compress.Base) :
    extOk g' nd valid d b ↔ extOk g nd valid d b := by
  unfold extOk
  rw [h.1]
  simp only [findLink_shape g g' h]

theorem getValidExts_lt (g : G D) (id : Nat) (valid : Option (List Nat)) (e : Exts) (h : getValidExts g id valid = some e) :
    e.val < 256 := by
  cases hn : g.nodes[id]? with
  | none => unfold getValidExts at h; rw [hn] at h; cases h
  | some nd =>
    rw [getValidExts_eq g id valid nd hn] at h
    cases h
    have hs : ∀ (acc : Exts) (d : Dir) (b : Nat), acc.val < 2 ^ 8 → (Exts.set acc d b).val < 2 ^ 8 := by
      intro acc d b h
      unfold Exts.set
      exact Nat.or_lt_two_pow h (Nat.mod_lt _ (by decide))
    have hside : ∀ (chk : Nat → Bool) (acc : Exts) (d : Dir) (b : Compress.Base), acc.val < 2 ^ 8 → (sideStep g nd chk acc d b).val < 2 ^ 8 := by
      intro chk acc d b h
      unfold sideStep
      split
      · split
        · split
          · exact hs _ _ _ h
          · exact h
        · exact h
      · exact h
    have : ∀ (bs : List Compress.Base) (acc : Exts), acc.val < 2 ^ 8 →
        (bs.foldl (gveStep g nd (fun t => match valid with | some vs => vs.contains t | none => true)) acc).val < 2 ^ 8 := by
      intro bs
      induction bs with
      | nil => intro acc h; exact h
      | cons b t ih =>
        intro acc h
        rw [List.foldl_cons]
        apply ih
        rw [gveStep_eq]
        exact hside _ _ _ _ (hside _ _ _ _ h)
    exact this base4 ⟨0⟩ (by decide)

/-- the state of the fold of `fix_exts` after the indices `< k` have been processed -/
structure FixInv (g0 g : G D) (valid : Option (List Nat)) (k : Nat) : Prop where
  shape : sameShape g0 g
  done : ∀ (i : Nat) (n0 n : Node D), i < k → g0.nodes[i]? = some n0 → g.nodes[i]? = some n →
    ∀ d b, has n.exts d b ↔ has n0.exts d b ∧ extOk g0 n0 valid d b
  todo : ∀ (i : Nat), k ≤ i → g.nodes[i]? = g0.nodes[i]?
  lt : ∀ (i : Nat) (n : Node D), i < k → g.nodes[i]? = some n → n.exts.val < 256

theorem shape_get (g g' : G D) (h : sameShape g g') (i : Nat) (n' : Node D) (hn : g'.nodes[i]? = some n') :
    ∃ n, g.nodes[i]? = some n ∧ n.seq = n'.seq := by
  have hs := congrArg (·[i]?) h.2.2.1
  simp only [List.getElem?_map, hn, Option.map_some] at hs
  cases h2 : g.nodes[i]? with
  | none => rw [h2] at hs; cases hs
  | some m => rw [h2] at hs; exact ⟨m, rfl, by simpa using hs.symm⟩

theorem fixExts_exact (g0 : G D) (valid : Option (List Nat)) :
    ∀ (i : Nat) (n0 n : Node D), g0.nodes[i]? = some n0 → (fixExts g0 valid).nodes[i]? = some n →
      n.seq = n0.seq ∧ n.data = n0.data ∧ n.exts.val < 256 ∧ ∀ d b, has n.exts d b ↔ has n0.exts d b ∧ extOk g0 n0 valid d b := by
  have key : ∀ (m k : Nat) (g : G D), k + m = g0.nodes.length → FixInv g0 g valid k →
      FixInv g0 ((List.range' k m).foldl (fun (g : G D) i =>
        match getValidExts g i valid, g.nodes[i]? with
        | some e, some nd => { g with nodes := g.nodes.set i { nd with exts := e } }
        | _, _ => g) g) valid (k + m) := by
    intro m
    induction m with
    | zero => intro k g _ h; simpa using h
    | succ m ih =>
      intro k g hkm hinv
      rw [List.range'_succ, List.foldl_cons]
      have hklt : k < g0.nodes.length := by omega
      have hgk : g.nodes[k]? = g0.nodes[k]? := hinv.todo k (Nat.le_refl _)
      have hn0 : g0.nodes[k]? = some g0.nodes[k] := List.getElem?_eq_getElem hklt
      rw [hn0] at hgk
      obtain ⟨e, he, hex⟩ := getValidExts_exact g k valid g0.nodes[k] hgk
      have hstep : (match getValidExts g k valid, g.nodes[k]? with
          | some e, some nd => { g with nodes := g.nodes.set k { nd with exts := e } }
          | _, _ => g) = { g with nodes := g.nodes.set k { g0.nodes[k] with exts := e } } := by
        rw [he, hgk]
      rw [hstep, show k + (m + 1) = (k + 1) + m by omega]
      apply ih (k + 1) _ (by omega)
      have hglen : k < g.nodes.length := Graph.getElem?_lt hgk
      refine ⟨sameShape_trans hinv.shape (sameShape_setExts g k _ hgk e), ?_, ?_, ?_⟩
      · intro i n0 n hi h0 hn d b
        by_cases hik : i = k
        · subst hik
          rw [hn0] at h0; cases h0
          have : (g.nodes.set i { g0.nodes[i] with exts := e })[i]? = some { g0.nodes[i] with exts := e } :=
            List.getElem?_set_self hglen
          have hn' : n = { g0.nodes[i] with exts := e } := by
            have h1 : (g.nodes.set i { g0.nodes[i] with exts := e })[i]? = some n := hn
            rw [this] at h1; exact (Option.some.inj h1).symm
          subst hn'
          show has e d b ↔ _
          rw [hex d b, extOk_shape g0 g hinv.shape]
        · have : (g.nodes.set k { g0.nodes[k] with exts := e })[i]? = g.nodes[i]? := List.getElem?_set_ne (Ne.symm hik)
          have hn' : g.nodes[i]? = some n := by rw [← this]; exact hn
          exact hinv.done i n0 n (by omega) h0 hn' d b
      · intro i hi
        show (g.nodes.set k _)[i]? = _
        rw [List.getElem?_set_ne (by omega)]
        exact hinv.todo i (by omega)
      · intro i n hi hn
        by_cases hik : i = k
        · subst hik
          have h1 : (g.nodes.set i { g0.nodes[i] with exts := e })[i]? = some n := hn
          rw [List.getElem?_set_self hglen] at h1
          have : n = { g0.nodes[i] with exts := e } := (Option.some.inj h1).symm
          subst this
          exact getValidExts_lt g i valid e he
        · have h1 : (g.nodes.set k { g0.nodes[k] with exts := e })[i]? = some n := hn
          rw [List.getElem?_set_ne (Ne.symm hik)] at h1
          exact hinv.lt i n (by omega) h1
  intro i n0 n h0 hn
  have hfin := key g0.nodes.length 0 g0 (by omega) ⟨sameShape_refl g0, fun i _ _ hi => by omega, fun _ _ => rfl, fun i _ hi => by omega⟩
  have hfold : fixExts g0 valid = (List.range' 0 g0.nodes.length).foldl (fun (g : G D) i =>
        match getValidExts g i valid, g.nodes[i]? with
        | some e, some nd => { g with nodes := g.nodes.set i { nd with exts := e } }
        | _, _ => g) g0 := by
    unfold fixExts; rw [List.range_eq_range']; rfl
  rw [hfold] at hn
  rw [Nat.zero_add] at hfin
  have hlt : i < g0.nodes.length := Graph.getElem?_lt h0
  obtain ⟨m, hm, hseq⟩ := shape_get g0 _ hfin.shape i n hn
  rw [h0] at hm; cases hm
  have hdat : n.data = n0.data := by
    have hs := congrArg (·[i]?) hfin.shape.2.2.2
    simp only [List.getElem?_map, hn, h0, Option.map_some, Option.some.injEq] at hs
    exact hs
  exact ⟨hseq.symm, hdat, hfin.lt i n hlt hn, hfin.done i n0 n hlt h0 hn⟩

/-- **C09 (no dangling extension).** In the graph returned by `compress_graph`, every recorded extension of every node
    resolves through `find_link` to a node of that graph. -/
theorem C09_no_dangling (st : Bool) (g : G D) (join : D → D → Bool) (reduce : D → D → D) (censor : List Nat)
    (g' : G D) (paths : List (List (Nat × Dir))) (h : compressGraph st g join reduce censor = some (g', paths))
    (i : Nat) (n : Node D) (hn : g'.nodes[i]? = some n) (d : Dir) (b : Compress.Base) (hb : has n.exts d b) :
    ∃ t s f, findLink g' (Compress.extend (termKmer g'.K n.seq d) b d) d = some (t, s, f) := by
  unfold compressGraph at h
  dsimp only at h
  split at h
  · simp at h
  · rename_i nodes hloop
    simp only [Option.some.injEq, Prod.mk.injEq] at h
    obtain ⟨hg', _⟩ := h
    subst hg'
    have sh := fixExts_shape (⟨g.K, nodes.map (·.1), st⟩ : G D) none
    obtain ⟨n0, hn0, _⟩ := shape_get _ _ sh i n hn
    obtain ⟨hseq, _, _, hex⟩ := fixExts_exact (⟨g.K, nodes.map (·.1), st⟩ : G D) none i n0 n hn0 hn
    obtain ⟨_, t, s, f, hl, _⟩ := (hex d b).mp hb
    refine ⟨t, s, f, ?_⟩
    rw [findLink_shape _ _ sh, sh.1, hseq]
    exact hl

end CompressGraph

namespace CompressGraph
open Compress (Seq Exts Node windowsOf)
open Walk (Dir rm mem_rm)
open Graph
variable {D : Type}

/-- **C09 (payload).** The payload of a merged node is the caller's reduction folded over the payloads of exactly the
    old nodes on its path: seed first, then the left path outwards, then the right path outwards. -/
theorem buildNode_payload (g : G D) (st : Bool) (join : D → D → Bool) (reduce : D → D → D) (avail : List Nat) (seed : Nat)
    (nd : Node D) (path : List (Nat × Dir)) (a' : List Nat) (h : buildNode g st join reduce avail seed = some (nd, path, a')) :
    ∃ (sn : Node D) (lpath rpath : List (Nat × Dir)), g.nodes[seed]? = some sn ∧
      path = (lpath.map fun p => (p.1, p.2.flip)).reverse ++ [(seed, Dir.L)] ++ rpath ∧
      some nd.data = rpath.foldl (payloadFold g reduce) (lpath.foldl (payloadFold g reduce) (some sn.data)) := by
  unfold buildNode at h
  cases hn : g.nodes[seed]? with
  | none => simp [hn] at h
  | some sn =>
    simp only [hn] at h
    cases hL : extendNode g st join (rm avail seed) seed .L with
    | none => simp [hL] at h
    | some rl =>
      obtain ⟨lpath, lext, a2⟩ := rl
      simp only [hL] at h
      cases hR : extendNode g st join (rm a2 seed) seed .R with
      | none => simp [hR] at h
      | some rr =>
        obtain ⟨rpath, rext, a3⟩ := rr
        simp only [hR] at h
        split at h
        · rename_i dat sq hdat hsq
          simp only [Option.some.injEq, Prod.mk.injEq] at h
          obtain ⟨rfl, rfl, rfl⟩ := h
          exact ⟨sn, lpath, rpath, rfl, rfl, hdat.symm⟩
        · simp at h

end CompressGraph

namespace CompressGraph
open Compress (Seq Exts Node windowsOf)
open Walk (Dir rm mem_rm)
open Graph
open Filter (has)
variable {D : Type}

/-! ### the pruned graph `fix_exts(valid)`: what the walks rely on -/

/-- invariant of the graph the walks run on: node sequences as in `GInv`; extension bytes are bytes; every recorded
    extension resolves to a valid node; extensions recorded by valid nodes are reciprocated; a palindromic terminal k-mer
    belongs to a single-k-mer node -/
structure RInv (g : G D) (valid : List Nat) : Prop extends SeqInv g where
  x8 : ∀ (i : Nat) (n : Node D), g.nodes[i]? = some n → n.exts.val < 256
  closed : ∀ (x : Nat) (nd : Node D) (d : Dir) (b : Compress.Base), g.nodes[x]? = some nd → has nd.exts d b →
    ∃ y s f, findLink g (Compress.extend (termKmer g.K nd.seq d) b d) d = some (y, s, f) ∧ y ∈ valid
  recipr : ∀ (u v : Nat) (nu nv : Node D) (d s : Dir) (b : Compress.Base) (f : Bool), u ∈ valid → g.nodes[u]? = some nu →
    g.nodes[v]? = some nv → has nu.exts d b →
    findLink g (Compress.extend (termKmer g.K nu.seq d) b d) d = some (v, s, f) →
    has nv.exts s (Compress.recip (termKmer g.K nu.seq d) d f) ∨
      (PalNode g v ∧ has nv.exts s.flip (Compress.comp (Compress.recip (termKmer g.K nu.seq d) d f)))
  palEnd : ∀ (i : Nat) (n : Node D) (s : Dir), g.stranded = false → g.nodes[i]? = some n →
    Compress.rc (termKmer g.K n.seq s) = termKmer g.K n.seq s → n.seq.length = g.K

end CompressGraph

namespace CompressGraph
open Compress (Seq Exts Node windowsOf)
open Walk (Dir rm mem_rm)
open Graph
open Filter (has)
variable {D : Type}

/-- a palindromic terminal k-mer belongs to a single-k-mer node (true of every graph `compress_kmers` builds) -/
def PalEnd (g : G D) : Prop :=
  ∀ (i : Nat) (n : Node D) (s : Dir), g.stranded = false → g.nodes[i]? = some n →
    Compress.rc (termKmer g.K n.seq s) = termKmer g.K n.seq s → n.seq.length = g.K

theorem palNode_shape (g g' : G D) (h : sameShape g g') (v : Nat) (hp : PalNode g v) : PalNode g' v := by
  obtain ⟨nv, hv, hst, hl, hr⟩ := hp
  have hs := congrArg (·[v]?) h.2.2.1
  simp only [List.getElem?_map, hv, Option.map_some] at hs
  cases h2 : g'.nodes[v]? with
  | none => rw [h2] at hs; cases hs
  | some m =>
    rw [h2] at hs
    simp only [Option.map_some, Option.some.injEq] at hs
    exact ⟨m, h2, by rw [h.2.1]; exact hst, by rw [hs, h.1]; exact hl, by rw [hs]; exact hr⟩

/-- **`fix_exts(valid)` of a well-formed graph satisfies the walk invariant** -/
theorem rinv_fixExts (g0 : G D) (hg : GInv g0) (hpe : PalEnd g0) (valid : List Nat) :
    RInv (fixExts g0 (some valid)) valid := by
  have sh := fixExts_shape g0 (some valid)
  generalize hg1 : fixExts g0 (some valid) = g1 at sh
  -- every node of g1 is a node of g0 with the same sequence, and its byte is the exact pruning of the old one
  have hnode : ∀ (i : Nat) (n1 : Node D), g1.nodes[i]? = some n1 → ∃ n0, g0.nodes[i]? = some n0 ∧ n1.seq = n0.seq ∧
      n1.exts.val < 256 ∧ ∀ d b, has n1.exts d b ↔ has n0.exts d b ∧ extOk g0 n0 (some valid) d b := by
    intro i n1 h1
    obtain ⟨n0, h0, _⟩ := shape_get g0 g1 sh i n1 h1
    rw [← hg1] at h1
    obtain ⟨a, _, c, e⟩ := fixExts_exact g0 (some valid) i n0 n1 h0 h1
    exact ⟨n0, h0, a, c, e⟩
  have hK : g1.K = g0.K := sh.1
  have hfl : ∀ km d, findLink g1 km d = findLink g0 km d := findLink_shape g0 g1 sh
  refine ⟨⟨by rw [hK]; exact hg.kpos, shape_len g0 g1 sh hg.len, ?_, ?_⟩, ?_, ?_, ?_, ?_⟩
  · intro i j ni nj s hi hj ht
    obtain ⟨mi, hmi, ei, _⟩ := hnode i ni hi
    obtain ⟨mj, hmj, ej, _⟩ := hnode j nj hj
    rw [hK, ei, ej] at ht
    exact hg.sameSide i j mi mj s hmi hmj ht
  · intro i j ni nj s hst hi hj ht
    obtain ⟨mi, hmi, ei, _⟩ := hnode i ni hi
    obtain ⟨mj, hmj, ej, _⟩ := hnode j nj hj
    rw [hK, ei, ej] at ht
    rw [sh.2.1] at hst
    have := hg.rcSide i j mi mj s hst hmi hmj ht
    exact ⟨this.1, by rw [ei, hK]; exact this.2⟩
  · intro i n hi
    obtain ⟨_, _, _, c, _⟩ := hnode i n hi
    exact c
  · intro x nd d b hx hb
    obtain ⟨n0, _, e0, _, hex⟩ := hnode x nd hx
    obtain ⟨_, t, s, f, hl, hv⟩ := (hex d b).mp hb
    refine ⟨t, s, f, ?_, by simpa using hv⟩
    rw [hfl, hK, e0]; exact hl
  · intro u v nu nv d s b f huv hu hv hb hl
    obtain ⟨mu, hmu, eu, _, hexu⟩ := hnode u nu hu
    obtain ⟨mv, hmv, ev, _, hexv⟩ := hnode v nv hv
    have hb0 := ((hexu d b).mp hb).1
    rw [hfl, hK, eu] at hl
    rw [hK, eu]
    obtain ⟨hback1, hback2⟩ := back_link g0 hg.toSeqInv u v mu mv d s b f hmu hmv hl
    rcases hg.recipr u v mu mv d s b f hmu hmv hb0 hl with h1 | ⟨hp, h1⟩
    · left
      rw [hexv]
      refine ⟨h1, ?_⟩
      obtain ⟨d', f', hbl, _⟩ := hback1
      exact ⟨u, d', f', hbl, by simpa using huv⟩
    · right
      refine ⟨palNode_shape g0 g1 sh v hp, ?_⟩
      rw [hexv]
      refine ⟨h1, ?_⟩
      obtain ⟨d', f', hbl⟩ := hback2 hp
      exact ⟨u, d', f', hbl, by simpa using huv⟩
  · intro i n s hst hi hr
    obtain ⟨m, hm, e, _⟩ := hnode i n hi
    rw [hK, e] at hr ⊢
    rw [sh.2.1] at hst
    exact hpe i m s hst hm hr

end CompressGraph

namespace CompressGraph
open Compress (Seq Exts Node windowsOf)
open Walk (Dir rm mem_rm)
open Graph
open Filter (has hasExt_iff)
variable {D : Type}

/-! ### on a graph satisfying the walk invariant the walks never panic -/

/-- why the static part of `try_extend_node` can panic -/
theorem staticNode_panic (g : G D) (st : Bool) (join : D → D → Bool) (x : Nat) (d : Dir) (h : staticNode g st join x d = .panic) :
    g.nodes[x]? = none ∨
    ∃ nd, g.nodes[x]? = some nd ∧ nd.exts.numExtDir d = 1 ∧
      (nd.exts.uniqueExt d = none ∨
       ∃ b, nd.exts.uniqueExt d = some b ∧
        (findLink g (Compress.extend (termKmer g.K nd.seq d) b d) d = none ∨
         ∃ y inc fl, findLink g (Compress.extend (termKmer g.K nd.seq d) b d) d = some (y, inc, fl) ∧
          (g.nodes[y]? = none ∨ ∃ nn, g.nodes[y]? = some nn ∧
            (nn.seq.length == g.K || consistentDir d inc fl) = false))) := by
  unfold staticNode at h
  cases hn : g.nodes[x]? with
  | none => exact Or.inl rfl
  | some nd =>
    right
    rw [hn] at h
    simp only at h
    split at h
    · cases h
    · rename_i hcond
      simp only [Bool.or_eq_true, bne_iff_ne, ne_eq, not_or, Bool.not_eq_true, Decidable.not_not] at hcond
      refine ⟨nd, rfl, hcond.1, ?_⟩
      cases hu : nd.exts.uniqueExt d with
      | none => exact Or.inl rfl
      | some b =>
        right
        refine ⟨b, rfl, ?_⟩
        rw [hu] at h
        simp only at h
        cases hl : findLink g (Compress.extend (termKmer g.K nd.seq d) b d) d with
        | none => exact Or.inl rfl
        | some r =>
          obtain ⟨y, inc, fl⟩ := r
          right
          refine ⟨y, inc, fl, rfl, ?_⟩
          rw [hl] at h
          simp only at h
          cases hnn : g.nodes[y]? with
          | none => exact Or.inl rfl
          | some nn =>
            right
            refine ⟨nn, rfl, ?_⟩
            rw [hnn] at h
            simp only at h
            have key : ∀ (c : Bool) (y' : Nat) (i' : Dir) (b' : Bool) (c' : Nat) (e' : Exts),
                (if c = true then StaticN.panic else StaticN.cand y' i' b' c' e') = StaticN.panic → c = true := by
              intro c y' i' b' c' e' hh; cases c <;> simp at hh ⊢
            have := key _ _ _ _ _ _ h
            simpa using this

theorem consistent_of_sound (d inc : Dir) (fl : Bool) (h0 : fl = false → inc = d.flip) (h1 : fl = true → inc = d) :
    consistentDir d inc fl = true := by
  cases fl with
  | false => rw [h0 rfl]; cases d <;> rfl
  | true => rw [h1 rfl]; cases d <;> rfl

theorem nibCnt_pos_of_has (e : Exts) (he : e.val < 256) (d : Dir) (b : Compress.Base) (h : has e d b) : e.numExtDir d ≠ 0 := by
  rw [Compress.numExtDir_eq]
  exact (Compress.nib_table ⟨e.dirBits d, Compress.dirBits_lt e he d⟩ b).2.2.1 h

theorem unique_of_cnt_has (e : Exts) (he : e.val < 256) (d : Dir) (b : Compress.Base) (hc : e.numExtDir d = 1) (h : has e d b) :
    e.uniqueExt d = some b := by
  rw [Compress.uniqueExt_eq]
  rw [Compress.numExtDir_eq] at hc
  simp only [hc, bne_self_eq_false, Bool.false_eq_true, if_false]
  exact (Compress.nib_table ⟨e.dirBits d, Compress.dirBits_lt e he d⟩ b).1 hc h

theorem has_of_unique (e : Exts) (d : Dir) (b : Compress.Base) (h : e.uniqueExt d = some b) : has e d b := by
  rw [Compress.uniqueExt_eq] at h
  split at h
  · cases h
  · exact nibUniq_has _ b h

/-- a palindromic single-k-mer target makes the extended k-mer a palindrome -/
theorem pal_next_of_palNode (g : G D) (v : Nat) (nv : Node D) (hv : g.nodes[v]? = some nv) (hp : PalNode g v)
    (km : Seq) (s : Dir) (f : Bool) (hterm : termKmer g.K nv.seq s = if f then Compress.rc km else km) :
    Compress.rc km = km := by
  obtain ⟨nv', hv', _, hvl, hvp⟩ := hp
  rw [hv] at hv'; cases hv'
  have hx : termKmer g.K nv.seq s = nv.seq := by
    cases s with
    | L => show nv.seq.take g.K = nv.seq; rw [← hvl, List.take_length]
    | R => show nv.seq.drop (nv.seq.length - g.K) = nv.seq; rw [hvl, Nat.sub_self, List.drop_zero]
  rw [hx] at hterm
  cases f with
  | false => simp only [Bool.false_eq_true, if_false] at hterm; rw [← hterm]; exact hvp
  | true =>
    simp only [if_true] at hterm
    have : km = Compress.rc nv.seq := by rw [hterm, Compress.rc_rc]
    rw [this, hvp, hvp]

/-- **no panic**: from a valid node the static part never panics, its target is valid, and an admissible target records at
    least one extension on the entered side -/
theorem static_ok (g : G D) (valid : List Nat) (hr : RInv g valid) (st : Bool) (hst : st = g.stranded) (join : D → D → Bool)
    (x : Nat) (hxv : x ∈ valid) (nd : Node D) (hx : g.nodes[x]? = some nd) (d : Dir) :
    staticNode g st join x d ≠ .panic ∧
    ∀ y inc bad cnt e, staticNode g st join x d = .cand y inc bad cnt e → y ∈ valid ∧ (bad = false → 1 ≤ cnt) := by
  constructor
  · intro hp
    rcases staticNode_panic g st join x d hp with h | ⟨nd', hx', hc, h⟩
    · rw [hx] at h; cases h
    · rw [hx] at hx'; cases hx'
      have h8 := hr.x8 x nd hx
      -- a count of one gives a unique extension
      obtain ⟨c, hc'⟩ := (Compress.nib_table ⟨nd.exts.dirBits d, Compress.dirBits_lt nd.exts h8 d⟩ 0).2.2.2 (by rw [← Compress.numExtDir_eq]; exact hc)
      have hu : nd.exts.uniqueExt d = some c := by
        rw [Compress.uniqueExt_eq, ← Compress.numExtDir_eq, hc]; simpa using hc'
      rcases h with h | ⟨b, hb, h⟩
      · rw [hu] at h; cases h
      · rw [hu] at hb; cases hb
        obtain ⟨y, s, f, hl, _⟩ := hr.closed x nd d c hx (has_of_unique _ _ _ hu)
        rcases h with h | ⟨y', inc, fl, hl', h⟩
        · rw [hl] at h; cases h
        · rw [hl] at hl'; cases hl'
          obtain ⟨nn, hnn, _, hf0, hf1⟩ := findLink_sound g _ _ _ _ _ hl
          rcases h with h | ⟨nn', hnn', h⟩
          · rw [hnn] at h; cases h
          · have := consistent_of_sound d s f hf0 (fun hh => (hf1 hh).1)
            rw [this] at h; simp at h
  · intro y inc bad cnt e hs
    obtain ⟨nd', nn, b, fl, hx', hy, hc, _, hu, hl, hbad, hcnt, _⟩ := staticNode_cand g st join x d y inc bad cnt e hs
    rw [hx] at hx'; cases hx'
    have hb := has_of_unique _ _ _ hu
    obtain ⟨y', s', f', hl', hyv⟩ := hr.closed x nd d b hx hb
    rw [hl] at hl'; cases hl'
    refine ⟨hyv, fun hbf => ?_⟩
    rw [hcnt]
    have hne : nn.exts.numExtDir inc ≠ 0 := by
      rcases hr.recipr x y nd nn d inc b fl hxv hx hy hb hl with h1 | ⟨hp, _⟩
      · exact nibCnt_pos_of_has nn.exts (hr.x8 y nn hy) inc _ h1
      · -- a palindromic target would have been refused
        exfalso
        obtain ⟨nn', hnn', hterm, _, _⟩ := findLink_sound g _ _ _ _ _ hl
        rw [hy] at hnn'; cases hnn'
        have hrc := pal_next_of_palNode g y nn hy hp _ inc fl hterm
        have hstf : st = false := by rw [hst]; exact hp.choose_spec.2.1
        rw [hbad, hstf, Compress.isPal_of_rc _ hrc] at hbf
        simp at hbf
    omega

end CompressGraph

namespace CompressGraph
open Compress (Seq Exts Node windowsOf)
open Walk (Dir rm mem_rm)
open Graph
open Filter (has hasExt_iff)
variable {D : Type}

/-! ### the good-link relation of the pruned graph, its symmetry, and the walks as its abstract walks -/

theorem staticNode_intro (g : G D) (st : Bool) (join : D → D → Bool) (x : Nat) (d : Dir) (nd nn : Node D) (b : Compress.Base)
    (y : Nat) (inc : Dir) (fl : Bool) (hx : g.nodes[x]? = some nd) (hc : nd.exts.numExtDir d = 1)
    (hsp : (!st && nd.seq.length == g.K && Compress.isPalindrome (nd.seq.take g.K)) = false)
    (hu : nd.exts.uniqueExt d = some b)
    (hl : findLink g (Compress.extend (termKmer g.K nd.seq d) b d) d = some (y, inc, fl)) (hy : g.nodes[y]? = some nn)
    (hcons : consistentDir d inc fl = true) :
    staticNode g st join x d = .cand y inc ((!st && Compress.isPalindrome (Compress.extend (termKmer g.K nd.seq d) b d)) || !(join nd.data nn.data))
      (nn.exts.numExtDir inc) (nd.exts.singleDir d) := by
  unfold staticNode
  rw [hx]
  simp only
  rw [if_neg (by simp [hc, hsp])]
  rw [hu]
  simp only
  rw [hl]
  simp only
  rw [hy]
  simp only [hcons, Bool.or_true, Bool.not_true, Bool.false_eq_true, if_false]

/-- the availability-independent good-link relation between valid nodes -/
def glinkV (g : G D) (st : Bool) (join : D → D → Bool) (valid : List Nat) : Walk.Link := fun x d =>
  if x ∈ valid then
    match staticNode g st join x d with
    | .cand y inc false 1 _ => if y ∈ valid then some (y, inc.flip) else none
    | _ => none
  else none

theorem glinkV_some (g : G D) (st : Bool) (join : D → D → Bool) (valid : List Nat) (x : Nat) (d : Dir) (y : Nat) (o : Dir)
    (h : glinkV g st join valid x d = some (y, o)) :
    x ∈ valid ∧ y ∈ valid ∧ ∃ e, staticNode g st join x d = .cand y o.flip false 1 e := by
  unfold glinkV at h
  by_cases hx : x ∈ valid
  · rw [if_pos hx] at h
    split at h
    · rename_i y' inc e hs
      by_cases hy : y' ∈ valid
      · rw [if_pos hy] at h
        simp only [Option.some.injEq, Prod.mk.injEq] at h
        obtain ⟨rfl, rfl⟩ := h
        exact ⟨hx, hy, e, by rw [Dir.flip_flip]; exact hs⟩
      · rw [if_neg hy] at h; cases h
    · cases h
  · rw [if_neg hx] at h; cases h

theorem glinkV_intro (g : G D) (st : Bool) (join : D → D → Bool) (valid : List Nat) (x : Nat) (d : Dir) (y : Nat) (inc : Dir) (e : Exts)
    (hx : x ∈ valid) (hy : y ∈ valid) (hs : staticNode g st join x d = .cand y inc false 1 e) :
    glinkV g st join valid x d = some (y, inc.flip) := by
  unfold glinkV
  rw [if_pos hx, hs]
  simp only
  rw [if_pos hy]

/-- **the good-link relation is symmetric** (join symmetric; the flag passed to the walk is the graph's own) -/
theorem glinkV_sym (g : G D) (valid : List Nat) (hr : RInv g valid) (st : Bool) (hst : st = g.stranded) (join : D → D → Bool)
    (hj : ∀ a b, join a b = join b a) : Walk.Sym (glinkV g st join valid) := by
  intro x d y o h
  obtain ⟨hxv, hyv, e, hs⟩ := glinkV_some g st join valid x d y o h
  obtain ⟨nd, nn, b, fl, hx, hy, hc, hsp, hu, hl, hbad, hcnt, _⟩ := staticNode_cand g st join x d y o.flip false 1 e hs
  have hb := has_of_unique _ _ _ hu
  have hbad' : (!st && Compress.isPalindrome (Compress.extend (termKmer g.K nd.seq d) b d)) = false ∧ join nd.data nn.data = true := by
    have := hbad.symm
    simp only [Bool.or_eq_false_iff, Bool.not_eq_false'] at this
    exact this
  obtain ⟨nn', hnn', hterm, hf0, hf1⟩ := findLink_sound g _ _ _ _ _ hl
  rw [hy] at hnn'; cases hnn'
  -- `y` is not a palindromic single-k-mer node, so it records the reciprocal base on the entered side
  have hnotpal : ¬ PalNode g y := by
    intro hp
    have hrc := pal_next_of_palNode g y nn hy hp _ o.flip fl hterm
    have hstf : st = false := by rw [hst]; exact hp.choose_spec.2.1
    have := hbad'.1
    rw [hstf, Compress.isPal_of_rc _ hrc] at this
    simp at this
  have hrec : has nn.exts o.flip (Compress.recip (termKmer g.K nd.seq d) d fl) := by
    rcases hr.recipr x y nd nn d o.flip b fl hxv hx hy hb hl with h1 | ⟨hp, _⟩
    · exact h1
    · exact absurd hp hnotpal
  have hur : nn.exts.uniqueExt o.flip = some (Compress.recip (termKmer g.K nd.seq d) d fl) :=
    unique_of_cnt_has nn.exts (hr.x8 y nn hy) o.flip _ hcnt.symm hrec
  -- the way back
  obtain ⟨⟨d', f', hbl, hd'⟩, _⟩ := back_link g hr.toSeqInv x y nd nn d o.flip b fl hx hy hl
  have hxnotsingle : ¬ (g.stranded = false ∧ nd.seq.length = g.K ∧ Compress.rc nd.seq = nd.seq) := by
    rintro ⟨h1, h2, h3⟩
    have : (!st && nd.seq.length == g.K && Compress.isPalindrome (nd.seq.take g.K)) = true := by
      rw [hst, h1, ← h2, List.take_length, Compress.isPal_of_rc _ h3]; simp
    rw [this] at hsp; cases hsp
  have hdd : d' = d := by rcases hd' with h1 | h1; exact h1; exact absurd h1 hxnotsingle
  subst hdd
  -- `y` is not refused as a single palindromic node either
  have hysp : (!st && nn.seq.length == g.K && Compress.isPalindrome (nn.seq.take g.K)) = false := by
    cases hh : (!st && nn.seq.length == g.K && Compress.isPalindrome (nn.seq.take g.K)) with
    | false => rfl
    | true =>
      exfalso
      simp only [Bool.and_eq_true, Bool.not_eq_true', beq_iff_eq] at hh
      obtain ⟨⟨h1, h2⟩, h3⟩ := hh
      rw [← h2, List.take_length] at h3
      unfold Compress.isPalindrome at h3
      simp only [Bool.and_eq_true, beq_iff_eq] at h3
      exact hnotpal ⟨nn, hy, by rw [← hst]; exact h1, h2, h3.2.symm⟩
  obtain ⟨nx', hnx', hterm', hf0', hf1'⟩ := findLink_sound g _ _ _ _ _ hbl
  rw [hx] at hnx'; cases hnx'
  have hcons := consistent_of_sound o.flip d' f' hf0' (fun hh => (hf1' hh).1)
  have hst2 := staticNode_intro g st join y o.flip nn nd _ x d' f' hy hcnt.symm hysp hur hbl hx hcons
  -- the step back is admissible: its k-mer is not a palindrome, `join` is symmetric, `x` has one extension on `d`
  have hbad2 : ((!st && Compress.isPalindrome (Compress.extend (termKmer g.K nn.seq o.flip)
      (Compress.recip (termKmer g.K nd.seq d') d' fl) o.flip)) || !(join nn.data nd.data)) = false := by
    have hjn : join nn.data nd.data = true := by rw [hj]; exact hbad'.2
    rw [hjn]
    simp only [Bool.not_true, Bool.or_false]
    cases hh : (!st && Compress.isPalindrome (Compress.extend (termKmer g.K nn.seq o.flip)
        (Compress.recip (termKmer g.K nd.seq d') d' fl) o.flip)) with
    | false => rfl
    | true =>
      exfalso
      simp only [Bool.and_eq_true, Bool.not_eq_true'] at hh
      obtain ⟨h1, h2⟩ := hh
      unfold Compress.isPalindrome at h2
      simp only [Bool.and_eq_true, beq_iff_eq] at h2
      have hkrc : Compress.rc (Compress.extend (termKmer g.K nn.seq o.flip) (Compress.recip (termKmer g.K nd.seq d') d' fl) o.flip) =
          Compress.extend (termKmer g.K nn.seq o.flip) (Compress.recip (termKmer g.K nd.seq d') d' fl) o.flip := h2.2.symm
      -- then the end k-mer of `x` is a palindrome, so `x` is a single-k-mer node
      have hendpal : Compress.rc (termKmer g.K nd.seq d') = termKmer g.K nd.seq d' := by
        cases f' with
        | false =>
          simp only [Bool.false_eq_true, if_false] at hterm'
          rw [hterm']; exact hkrc
        | true =>
          simp only [if_true] at hterm'
          rw [hterm', Compress.rc_rc]; exact hkrc.symm
      have hsingle := hr.palEnd x nd d' (by rw [← hst]; exact h1) hx hendpal
      apply hxnotsingle
      refine ⟨by rw [← hst]; exact h1, hsingle, ?_⟩
      have : termKmer g.K nd.seq d' = nd.seq := by
        cases d' with
        | L => show nd.seq.take g.K = nd.seq; rw [← hsingle, List.take_length]
        | R => show nd.seq.drop (nd.seq.length - g.K) = nd.seq; rw [hsingle, Nat.sub_self, List.drop_zero]
      rw [this] at hendpal; exact hendpal
  rw [hbad2, hc] at hst2
  have := glinkV_intro g st join valid y o.flip x d' _ hyv hxv hst2
  exact this

end CompressGraph

namespace CompressGraph
open Compress (Seq Exts Node windowsOf)
open Walk (Dir rm mem_rm)
open Graph
open Filter (has hasExt_iff)
variable {D : Type}

theorem tryExtendNode_of_static (g : G D) (st : Bool) (join : D → D → Bool) (avail : List Nat) (x : Nat) (d : Dir)
    (y : Nat) (inc : Dir) (bad : Bool) (cnt : Nat) (e : Exts) (hs : staticNode g st join x d = .cand y inc bad cnt e) :
    tryExtendNode g st join avail x d =
      (if !(avail.contains y) || bad then .terminal e else if cnt == 0 then .panic
       else if cnt == 1 then .unique y inc.flip else .terminal e) := by
  unfold tryExtendNode; rw [hs]

/-- **the walks of `compress_graph` are the abstract walks over the good-link relation** -/
theorem extendNode_refines (g : G D) (valid : List Nat) (hr : RInv g valid) (st : Bool) (hst : st = g.stranded) (join : D → D → Bool)
    (avail : List Nat) (x : Nat) (d : Dir) :
    (∀ z ∈ avail, z ∈ valid) → x ∈ valid → (g.nodes[x]?).isSome →
    ∃ e, extendNode g st join avail x d =
      some ((Walk.walk (glinkV g st join valid) avail x d).1.map flip2, e, (Walk.walk (glinkV g st join valid) avail x d).2) := by
  fun_induction Walk.walk (glinkV g st join valid) avail x d with
  | case1 avail x d y d' hl hy r ih =>
    intro hav hxv hxn
    obtain ⟨_, hyv, e0, hs⟩ := glinkV_some g st join valid x d y d' hl
    obtain ⟨_, nn, _, _, _, hyn, _⟩ := staticNode_cand g st join x d y d'.flip false 1 e0 hs
    have ht : tryExtendNode g st join avail x d = .unique y d' := by
      rw [tryExtendNode_of_static g st join avail x d y d'.flip false 1 e0 hs]
      simp [hy, Dir.flip_flip]
    obtain ⟨e, ih⟩ := ih (fun z hz => hav z (mem_rm.mp hz).1) hyv (by rw [hyn]; rfl)
    unfold extendNode
    split
    · rename_i nx out heq
      rw [ht] at heq
      simp only [ExtModeNode.unique.injEq] at heq
      obtain ⟨rfl, rfl⟩ := heq
      simp only [hy, dite_true]
      rw [ih]
      exact ⟨e, by simp only [List.map_cons, flip2, Dir.flip_flip]; rfl⟩
    · rename_i e1 heq; rw [ht] at heq; cases heq
    · rename_i heq; rw [ht] at heq; cases heq
  | case2 avail x d y d' hl hy =>
    intro hav hxv hxn
    obtain ⟨_, hyv, e0, hs⟩ := glinkV_some g st join valid x d y d' hl
    have ht : tryExtendNode g st join avail x d = .terminal e0 := by
      rw [tryExtendNode_of_static g st join avail x d y d'.flip false 1 e0 hs]
      simp [hy]
    unfold extendNode
    split
    · rename_i nx out heq; rw [ht] at heq; cases heq
    · rename_i e1 heq; rw [ht] at heq; cases heq; exact ⟨e0, rfl⟩
    · rename_i heq; rw [ht] at heq; cases heq
  | case3 avail x d hl =>
    intro hav hxv hxn
    obtain ⟨nd, hx⟩ := Option.isSome_iff_exists.mp hxn
    obtain ⟨hnp, hcand⟩ := static_ok g valid hr st hst join x hxv nd hx d
    have ht : ∃ e0, tryExtendNode g st join avail x d = .terminal e0 := by
      cases hs : staticNode g st join x d with
      | panic => exact absurd hs hnp
      | terminal e0 => exact ⟨e0, by unfold tryExtendNode; rw [hs]⟩
      | cand y inc bad cnt e0 =>
        obtain ⟨hyv, hcnt⟩ := hcand y inc bad cnt e0 hs
        rw [tryExtendNode_of_static g st join avail x d y inc bad cnt e0 hs]
        by_cases hc1 : (!(avail.contains y) || bad) = true
        · exact ⟨e0, by rw [if_pos hc1]⟩
        · rw [if_neg hc1]
          simp only [Bool.or_eq_true, Bool.not_eq_true', not_or, Bool.not_eq_false, Bool.not_eq_true] at hc1
          have hb : bad = false := hc1.2
          have h1 := hcnt hb
          rw [if_neg (by simp; omega)]
          by_cases hc2 : cnt = 1
          · -- then it would be a good link
            exfalso
            subst hc2; subst hb
            have := glinkV_intro g st join valid x d y inc e0 hxv hyv hs
            rw [hl] at this; cases this
          · exact ⟨e0, by rw [if_neg (by simpa using hc2)]⟩
    obtain ⟨e0, ht⟩ := ht
    unfold extendNode
    split
    · rename_i nx out heq; rw [ht] at heq; cases heq
    · rename_i e1 heq; rw [ht] at heq; cases heq; exact ⟨e0, rfl⟩
    · rename_i heq; rw [ht] at heq; cases heq

end CompressGraph

namespace CompressGraph
open Compress (Seq Exts Node windowsOf)
open Walk (Dir rm mem_rm)
open Graph
open Filter (has hasExt_iff)
variable {D : Type}

theorem payload_fold_some (g : G D) (reduce : D → D → D) (p : List (Nat × Dir)) (hn : ∀ q ∈ p, (g.nodes[q.1]?).isSome) (d0 : D) :
    ∃ d, p.foldl (payloadFold g reduce) (some d0) = some d := by
  induction p generalizing d0 with
  | nil => exact ⟨d0, rfl⟩
  | cons q t ih =>
    obtain ⟨n, hq⟩ := Option.isSome_iff_exists.mp (hn q (by simp))
    rw [List.foldl_cons]
    have : payloadFold g reduce (some d0) q = some (reduce d0 n.data) := by unfold payloadFold; rw [hq]; rfl
    rw [this]
    exact ih (fun x hx => hn x (by simp [hx])) _

theorem walk_rest_sub (link : Walk.Link) : ∀ (a : List Nat) (x : Nat) (d : Dir) (z : Nat), z ∈ (Walk.walk link a x d).2 → z ∈ a := by
  intro a x d
  fun_induction Walk.walk link a x d with
  | case1 a x d y d' hl hy r ih => intro z hz; exact (mem_rm.mp (ih z hz)).1
  | case2 a x d y d' hl hy => intro z hz; exact hz
  | case3 a x d hl => intro z hz; exact hz

/-- **`build_node` never panics** on the pruned graph and consumes exactly the nodes of the abstract `build` -/
theorem buildNode_refines (g : G D) (valid : List Nat) (hr : RInv g valid) (st : Bool) (hst : st = g.stranded) (join : D → D → Bool)
    (reduce : D → D → D) (avail : List Nat) (hav : ∀ z ∈ avail, z ∈ valid) (seed : Nat) (hs : seed ∈ avail)
    (hsn : (g.nodes[seed]?).isSome) :
    ∃ nd path, buildNode g st join reduce avail seed = some (nd, path, (Walk.build (glinkV g st join valid) avail seed).2) ∧
      ids path = (Walk.build (glinkV g st join valid) avail seed).1 := by
  obtain ⟨sn, hsn'⟩ := Option.isSome_iff_exists.mp hsn
  generalize hlink : glinkV g st join valid = link
  have hsv : seed ∈ valid := hav seed hs
  obtain ⟨el, hL⟩ := extendNode_refines g valid hr st hst join (rm avail seed) seed .L
    (fun z hz => hav z (mem_rm.mp hz).1) hsv hsn
  rw [hlink] at hL
  generalize hlw : Walk.walk link (rm avail seed) seed .L = lw at hL
  have hnot : seed ∉ lw.2 := by
    intro h
    rw [← hlw] at h
    exact (mem_rm.mp (walk_rest_sub link _ _ _ seed h)).2 rfl
  have hrm : rm lw.2 seed = lw.2 := Compress.rm_of_not_mem _ _ hnot
  have hsub2 : ∀ z ∈ lw.2, z ∈ valid := by
    intro z hz
    rw [← hlw] at hz
    exact hav z (mem_rm.mp (walk_rest_sub link _ _ _ z hz)).1
  obtain ⟨er, hR⟩ := extendNode_refines g valid hr st hst join lw.2 seed .R hsub2 hsv hsn
  rw [hlink] at hR
  generalize hrw : Walk.walk link lw.2 seed .R = rw at hR
  have hbuild : Walk.build link avail seed = ((lw.1.map Prod.fst).reverse ++ [seed] ++ rw.1.map Prod.fst, rw.2) := by
    unfold Walk.build; simp only [hlw, hrw]
  rw [hbuild]
  -- payload and sequence never fail
  have nl := extendNode_nodes g st join _ _ _ _ _ _ hL
  have nr := extendNode_nodes g st join _ _ _ _ _ _ hR
  obtain ⟨dl, hdl⟩ := payload_fold_some g reduce (lw.1.map flip2) nl sn.data
  obtain ⟨dr, hdr⟩ := payload_fold_some g reduce (rw.1.map flip2) nr dl
  have cl := extendNode_chain g st join _ _ _ _ _ _ hL
  have cr := extendNode_chain g st join _ _ _ _ _ _ hR
  have hrev := isChain_reverse g (seed, Dir.L.flip) (lw.1.map flip2) cl
  have hchain : IsChain g (((lw.1.map flip2).map flip2).reverse ++ [(seed, Dir.L)] ++ rw.1.map flip2) :=
    isChain_append g _ _ (seed, Dir.L) (by simpa [flip2, Dir.flip] using hrev) (by simpa [Dir.flip] using cr)
  have hnodes : ∀ q ∈ ((lw.1.map flip2).map flip2).reverse ++ [(seed, Dir.L)] ++ rw.1.map flip2, (g.nodes[q.1]?).isSome := by
    intro q hq
    simp only [List.mem_append, List.mem_reverse, List.mem_singleton] at hq
    rcases hq with (hq | rfl) | hq
    · obtain ⟨p, hp, rfl⟩ := List.mem_map.mp hq
      exact nl p hp
    · exact hsn
    · exact nr q hq
  have hseq : ∃ S, sequenceOfPath g (((lw.1.map flip2).map flip2).reverse ++ [(seed, Dir.L)] ++ rw.1.map flip2) = some S := by
    cases hpath : ((lw.1.map flip2).map flip2).reverse ++ [(seed, Dir.L)] ++ rw.1.map flip2 with
    | nil => simp at hpath
    | cons p0 rest =>
      rw [hpath] at hchain hnodes
      obtain ⟨S, e, _⟩ := walk_sequence g hr.kpos hr.len p0 rest (hnodes p0 (by simp)) (fun q hq => hnodes q (by simp [hq])) hchain
      exact ⟨S, e⟩
  obtain ⟨S, hS⟩ := hseq
  refine ⟨?nd, ((lw.1.map flip2).map flip2).reverse ++ [(seed, Dir.L)] ++ rw.1.map flip2, ?h1, ?h2⟩
  case h1 =>
    unfold buildNode
    rw [hsn']
    simp only
    rw [hL]
    simp only
    rw [hrm, hR]
    simp only
    have hmapeq : (List.map (fun p => (p.1, p.2.flip)) (List.map flip2 lw.1)) = (lw.1.map flip2).map flip2 := rfl
    rw [hmapeq, hS]
    rw [hdl, hdr]
  case h2 =>
    simp [ids, List.map_reverse, List.map_map, Function.comp_def, flip2]

end CompressGraph

namespace CompressGraph
open Compress (Seq Exts Node windowsOf)
open Walk (Dir rm mem_rm)
open Graph
open Filter (has hasExt_iff)
variable {D : Type}

theorem compressLoop_refines (g : G D) (valid : List Nat) (hr : RInv g valid) (st : Bool) (hst : st = g.stranded)
    (join : D → D → Bool) (reduce : D → D → D) :
    ∀ (is avail : List Nat), (∀ z ∈ avail, z ∈ valid) → (∀ i ∈ is, (g.nodes[i]?).isSome) →
      ∃ out, compressLoop g st join reduce is avail = some out ∧
        out.map (fun np => ids np.2) = Walk.compress (glinkV g st join valid) is avail := by
  intro is
  induction is with
  | nil => intro avail _ _; exact ⟨[], rfl, rfl⟩
  | cons i is ih =>
    intro avail hav hnodes
    by_cases hi : i ∈ avail
    · obtain ⟨nd, path, hb, hids⟩ := buildNode_refines g valid hr st hst join reduce avail hav i hi (hnodes i (by simp))
      have hok := buildNode_ok g st join reduce avail i hi nd path _ hb
      obtain ⟨out, ho, hm⟩ := ih (Walk.build (glinkV g st join valid) avail i).2
        (fun z hz => hav z ((hok.2.1 z).mp hz).1) (fun j hj => hnodes j (by simp [hj]))
      refine ⟨(nd, path) :: out, ?_, ?_⟩
      · simp only [compressLoop, hi, if_true, hb, ho]
      · simp only [Walk.compress, hi, if_true, List.map_cons, hm, hids]
    · obtain ⟨out, ho, hm⟩ := ih avail hav (fun j hj => hnodes j (by simp [hj]))
      exact ⟨out, by simp only [compressLoop, hi, if_false, ho], by simp only [Walk.compress, hi, if_false, hm]⟩

/-- the statement of C09 for one graph: `compress_graph` returns; its paths are the abstract compression over the good-link
    relation of the pruned graph; two non-censored nodes share a path iff good links connect them -/
def Recompressed (g0 : G D) (join : D → D → Bool) (reduce : D → D → D) (censor : List Nat) : Prop :=
  let valid := (List.range g0.nodes.length).filter fun i => !censor.contains i
  let link := glinkV (fixExts g0 (some valid)) g0.stranded join valid
  ∃ g' paths, compressGraph g0.stranded g0 join reduce censor = some (g', paths) ∧
    paths.map ids = Walk.compress link (List.range g0.nodes.length) valid ∧
    ∀ x y, x ∈ valid → y ∈ valid → (Walk.Conn link x y ↔ ∃ p ∈ paths, x ∈ ids p ∧ y ∈ ids p)

/-- **C09 (characterisation).** For every graph satisfying the node-level invariant (`GInv`; palindromic terminal k-mers
    only in single-k-mer nodes) and every censor set, with a symmetric `join` and the graph's own strandedness:
    `compress_graph` **returns** (no panic), its paths are those of the abstract compression over the good-link relation
    of the pruned graph, and two non-censored nodes lie on the same path **iff** they are connected by good links — the new
    nodes are exactly the maximal unbranched paths of the surviving adjacencies. -/
theorem C09_char (g0 : G D) (hg : GInv g0) (hpe : PalEnd g0) (join : D → D → Bool) (hj : ∀ a b, join a b = join b a)
    (reduce : D → D → D) (censor : List Nat) : Recompressed g0 join reduce censor := by
  unfold Recompressed
  intro valid link
  have hr := rinv_fixExts g0 hg hpe valid
  have sh := fixExts_shape g0 (some valid)
  have hstr : g0.stranded = (fixExts g0 (some valid)).stranded := sh.2.1.symm
  have hlen : (fixExts g0 (some valid)).nodes.length = g0.nodes.length := by
    have := congrArg List.length sh.2.2.1
    simpa using this
  obtain ⟨out, ho, hm⟩ := compressLoop_refines (fixExts g0 (some valid)) valid hr g0.stranded hstr join reduce
    (List.range g0.nodes.length) valid (fun z hz => hz)
    (fun i hi => by
      rw [List.mem_range] at hi
      rw [List.getElem?_eq_getElem (by rw [hlen]; exact hi)]; rfl)
  have hsym := glinkV_sym (fixExts g0 (some valid)) valid hr g0.stranded hstr join hj
  have ok := Walk.compress_ok link hsym (List.range g0.nodes.length) valid
  refine ⟨fixExts ⟨g0.K, out.map (·.1), g0.stranded⟩ none, out.map (·.2), ?_, ?_, ?_⟩
  · unfold compressGraph
    dsimp only
    rw [ho]
  · rw [List.map_map]; exact hm
  · intro x y hx hy
    have hpaths : ∀ (N : List Nat), N ∈ Walk.compress link (List.range g0.nodes.length) valid ↔ ∃ p ∈ out.map (·.2), ids p = N := by
      intro N
      rw [← hm]
      simp only [List.mem_map]
      constructor
      · rintro ⟨np, hnp, rfl⟩; exact ⟨np.2, ⟨np, hnp, rfl⟩, rfl⟩
      · rintro ⟨p, ⟨np, hnp, rfl⟩, rfl⟩; exact ⟨np, hnp, rfl⟩
    have hxr : x ∈ List.range g0.nodes.length := (List.mem_filter.mp hx).1
    constructor
    · intro hc
      have : ∃ N ∈ Walk.compress link (List.range g0.nodes.length) valid, x ∈ N ∧ y ∈ N := by
        clear hy
        induction hc with
        | refl =>
          obtain ⟨N, hN, hxN⟩ := ok.cover x hxr hx
          exact ⟨N, hN, hxN, hxN⟩
        | step _ r ih =>
          obtain ⟨N, hN, hxN, hyN⟩ := ih
          obtain ⟨d, d', hl⟩ := r
          rcases ok.sealed N hN _ hyN d _ d' hl with h | h
          · exact ⟨N, hN, hxN, h⟩
          · exact absurd (glinkV_some _ _ _ _ _ _ _ _ hl).2.1 h
      obtain ⟨N, hN, hxN, hyN⟩ := this
      obtain ⟨p, hp, rfl⟩ := (hpaths N).mp hN
      exact ⟨p, hp, hxN, hyN⟩
    · rintro ⟨p, hp, hxp, hyp⟩
      exact ok.conn (ids p) ((hpaths _).mpr ⟨p, hp, rfl⟩) x hxp y hyp

end CompressGraph

namespace CompressGraph
open Compress (Seq Exts Node windowsOf)
open Walk (Dir rm mem_rm)
open Graph
variable {D : Type}

/-- graphs built by `compress_kmers` have palindromic terminal k-mers only in single-k-mer nodes -/
theorem palEnd_of_compress {T : Compress.Table D} {K : Nat} {st : Bool} {join : D → D → Bool} (reduce : D → D → D)
    (wf : Compress.WF T K st) (hes : Compress.ExtSym T st)
    (out : List (Node D × List Nat)) (ho : Compress.compressKmersC T st join reduce = some out) :
    PalEnd (⟨K, out.map (·.1), st⟩ : G D) := by
  intro i n s hst hn hrc
  have hst' : st = false := hst
  subst hst'
  have hprov := Compress.compressLoopC_prov T false join reduce (List.range T.length) (List.range T.length) out
    (fun i hi => List.mem_range.mp hi) ho
  rw [List.getElem?_map] at hn
  cases hx : out[i]? with
  | none => rw [hx] at hn; cases hn
  | some x =>
    rw [hx] at hn
    simp only [Option.map_some, Option.some.injEq] at hn
    subst hn
    obtain ⟨av, seed, a', hseed, hb⟩ := hprov x (List.mem_of_getElem? hx)
    obtain ⟨_, hp⟩ := Compress.built_node_ports (join := join) reduce wf hes av seed hseed x.1 x.2 a' hb
    obtain ⟨e, hpe⟩ := hp s
    have hrce : Compress.rc e.key = e.key := by
      have ht := hpe.term
      have hrc' : Compress.rc (termKmer K x.1.seq s) = termKmer K x.1.seq s := hrc
      rw [ht] at hrc'
      by_cases hsame : (Compress.nodePort T false join av seed s).2 = s
      · simpa [hsame] using hrc'
      · simp only [hsame, if_false, Compress.rc_rc] at hrc'
        exact hrc'.symm
    exact (Compress.pal_port_single (join := join) reduce wf hes av seed hseed x.1 x.2 a' hb s e hpe hrce).1

attribute [irreducible] Recompressed

/-- **C09 for graphs built from k-mer tables.** Re-compressing (with any censor set) the graph `compress_kmers` built from
    a well-formed reciprocal table never panics and yields exactly the maximal unbranched paths of the surviving good links. -/
theorem C09_char_of_built {T : Compress.Table D} {K : Nat} {st : Bool} {join : D → D → Bool} (reduce : D → D → D)
    (wf : Compress.WF T K st) (hes2 : Filter.ExtSym2 T st) (hj : ∀ a b, join a b = join b a)
    (out : List (Node D × List Nat)) (ho : Compress.compressKmersC T st join reduce = some out) (censor : List Nat) :
    Recompressed (⟨K, out.map (·.1), st⟩ : G D) join reduce censor := by
  have h1 := Compress.compress_ginv reduce wf hes2 hj out ho
  have h2 := palEnd_of_compress reduce wf hes2.toExtSym out ho
  exact C09_char _ h1 h2 join hj reduce censor

end CompressGraph
