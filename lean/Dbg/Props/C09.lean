import Dbg.Model.Export
import Dbg.Model.CompressGraph
