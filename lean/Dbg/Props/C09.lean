import Dbg.Model.CompressGraph
import Dbg.Lemmas.WalkProofs
import Dbg.Lemmas.GraphSym
/-! # C09 — Graph re-compression and node censoring are exact

Proved so far for the model of `CompressFromGraph`: every walk only steps onto available nodes, removes them from the
availability set and never repeats a node; hence a censored node (never available) is never merged into any output
node, and every input node is consumed by at most one output node.  The characterisation of the result as the
maximal unbranched paths of the surviving adjacencies (`C09_char`), no-dangling-extensions, payload and idempotence
are executable predicates evaluated on the crate's result (partial). -/
namespace CompressGraph
open Compress (Seq Exts Node)
open Walk (Dir rm mem_rm)
open Graph
variable {D : Type}

/-- what a finished walk guarantees -/
structure WalkOK (avail : List Nat) (p : List (Nat × Dir)) (avail' : List Nat) : Prop where
  sub : ∀ x ∈ p, x.1 ∈ avail
  rest : ∀ z, z ∈ avail' ↔ (z ∈ avail ∧ z ∉ p.map Prod.fst)
  nodup : (p.map Prod.fst).Nodup

theorem extendNode_ok (g : G D) (st : Bool) (join : D → D → Bool) (avail : List Nat) (cur : Nat) (dir : Dir)
    (p : List (Nat × Dir)) (e : Exts) (a' : List Nat) (h : extendNode g st join avail cur dir = some (p, e, a')) :
    WalkOK avail p a' := by
  fun_induction extendNode g st join avail cur dir generalizing p e a' with
  | case1 avail cur dir nx out hx hmem p0 e0 a0 hrec ih =>
    simp only [Option.some.injEq, Prod.mk.injEq] at h
    obtain ⟨rfl, rfl, rfl⟩ := h
    have ok := ih p0 e0 a0 hrec
    refine ⟨?_, ?_, ?_⟩
    · intro x hx'
      rcases List.mem_cons.mp hx' with rfl | hx'
      · exact hmem
      · exact (mem_rm.mp (ok.sub x hx')).1
    · intro z
      rw [ok.rest z, mem_rm]
      simp only [List.map_cons, List.mem_cons, not_or]
      constructor
      · rintro ⟨⟨h1, h2⟩, h3⟩; exact ⟨h1, h2, h3⟩
      · rintro ⟨h1, h2, h3⟩; exact ⟨⟨h1, h2⟩, h3⟩
    · simp only [List.map_cons, List.nodup_cons]
      refine ⟨?_, ok.nodup⟩
      intro hin
      obtain ⟨x, hx', rfl⟩ := List.mem_map.mp hin
      exact (mem_rm.mp (ok.sub x hx')).2 rfl
  | case2 avail cur dir nx out hx hmem hrec => simp at h
  | case3 avail cur dir nx out hx hmem => simp at h
  | case4 avail cur dir e1 hx =>
    simp only [Option.some.injEq, Prod.mk.injEq] at h
    obtain ⟨rfl, rfl, rfl⟩ := h
    exact ⟨by simp, by simp, by simp⟩
  | case5 avail cur dir hx => simp at h

/-- the ids merged by one output node -/
def ids (path : List (Nat × Dir)) : List Nat := path.map Prod.fst

theorem buildNode_ok (g : G D) (st : Bool) (join : D → D → Bool) (reduce : D → D → D) (avail : List Nat) (seed : Nat)
    (hs : seed ∈ avail) (nd : Node D) (path : List (Nat × Dir)) (a' : List Nat)
    (h : buildNode g st join reduce avail seed = some (nd, path, a')) :
    (∀ i ∈ ids path, i ∈ avail) ∧ (∀ z, z ∈ a' ↔ (z ∈ avail ∧ z ∉ ids path)) ∧ (ids path).Nodup ∧ seed ∈ ids path := by
  unfold buildNode at h
  cases hn : g.nodes[seed]? with
  | none => simp [hn] at h
  | some sn =>
    simp only [hn] at h
    cases hl : extendNode g st join (rm avail seed) seed .L with
    | none => simp [hl] at h
    | some rl =>
      obtain ⟨lpath, lext, a2⟩ := rl
      simp only [hl] at h
      cases hr : extendNode g st join (rm a2 seed) seed .R with
      | none => simp [hr] at h
      | some rr =>
        obtain ⟨rpath, rext, a3⟩ := rr
        simp only [hr] at h
        split at h
        · rename_i dat sq _ _
          simp only [Option.some.injEq, Prod.mk.injEq] at h
          obtain ⟨_, rfl, rfl⟩ := h
          have okl := extendNode_ok g st join _ _ _ _ _ _ hl
          have okr := extendNode_ok g st join _ _ _ _ _ _ hr
          have hids : ids ((lpath.map fun p => (p.1, p.2.flip)).reverse ++ [(seed, Dir.L)] ++ rpath)
              = (lpath.map Prod.fst).reverse ++ [seed] ++ rpath.map Prod.fst := by
            simp [ids, List.map_reverse, Function.comp_def]
          rw [hids]
          have l_in : ∀ i ∈ lpath.map Prod.fst, i ∈ avail ∧ i ≠ seed := by
            intro i hi
            obtain ⟨x, hx, rfl⟩ := List.mem_map.mp hi
            exact mem_rm.mp (okl.sub x hx)
          have r_in : ∀ i ∈ rpath.map Prod.fst, i ∈ avail ∧ i ≠ seed ∧ i ∉ lpath.map Prod.fst := by
            intro i hi
            obtain ⟨x, hx, rfl⟩ := List.mem_map.mp hi
            have h1 := mem_rm.mp (okr.sub x hx)
            have h2 := (okl.rest x.1).mp h1.1
            exact ⟨(mem_rm.mp h2.1).1, h1.2, h2.2⟩
          refine ⟨?_, ?_, ?_, by simp⟩
          · intro i hi
            simp only [List.mem_append, List.mem_reverse, List.mem_singleton] at hi
            rcases hi with (hi | rfl) | hi
            · exact (l_in i hi).1
            · exact hs
            · exact (r_in i hi).1
          · intro z
            rw [okr.rest z, mem_rm, okl.rest z, mem_rm]
            simp only [List.mem_append, List.mem_reverse, List.mem_singleton, not_or]
            constructor
            · rintro ⟨⟨⟨⟨h1, h2⟩, h3⟩, _⟩, h5⟩; exact ⟨h1, ⟨h3, h2⟩, h5⟩
            · rintro ⟨h1, ⟨h3, h2⟩, h5⟩; exact ⟨⟨⟨⟨h1, h2⟩, h3⟩, h2⟩, h5⟩
          · rw [List.append_assoc]
            apply List.nodup_append.mpr
            refine ⟨?_, ?_, ?_⟩
            · exact Walk.nodup_reverse' okl.nodup
            · simp only [List.singleton_append, List.nodup_cons]
              exact ⟨fun hin => (r_in seed hin).2.1 rfl, okr.nodup⟩
            · intro a ha b hb
              simp only [List.mem_reverse] at ha
              simp only [List.singleton_append, List.mem_cons] at hb
              rcases hb with rfl | hb
              · exact fun e => (l_in a ha).2 e
              · exact fun e => (r_in b hb).2.2 (e ▸ ha)
        · simp at h

/-- the loop of `compress_graph`: every output node merges only available input nodes, and no input node is merged twice -/
theorem compressLoop_ok (g : G D) (st : Bool) (join : D → D → Bool) (reduce : D → D → D) :
    ∀ (is avail : List Nat) (out : List (Node D × List (Nat × Dir))),
      compressLoop g st join reduce is avail = some out →
      (∀ np ∈ out, ∀ i ∈ ids np.2, i ∈ avail) ∧ (out.map fun np => ids np.2).flatten.Nodup := by
  intro is
  induction is with
  | nil => intro avail out h; simp only [compressLoop, Option.some.injEq] at h; subst h; simp
  | cons i is ih =>
    intro avail out h
    simp only [compressLoop] at h
    by_cases hi : i ∈ avail
    · simp only [hi, if_true] at h
      cases hb : buildNode g st join reduce avail i with
      | none => simp [hb] at h
      | some r =>
        obtain ⟨nd, path, a'⟩ := r
        simp only [hb] at h
        cases hrest : compressLoop g st join reduce is a' with
        | none => simp [hrest] at h
        | some rest =>
          simp only [hrest, Option.some.injEq] at h
          subst h
          obtain ⟨b1, b2, b3, _⟩ := buildNode_ok g st join reduce avail i hi nd path a' hb
          obtain ⟨r1, r2⟩ := ih a' rest hrest
          refine ⟨?_, ?_⟩
          · intro np hnp j hj
            rcases List.mem_cons.mp hnp with rfl | hnp
            · exact b1 j hj
            · exact ((b2 j).mp (r1 np hnp j hj)).1
          · simp only [List.map_cons, List.flatten_cons]
            apply List.nodup_append.mpr
            refine ⟨b3, r2, ?_⟩
            intro a ha b hb' e
            subst e
            obtain ⟨l, hl, hal⟩ := List.mem_flatten.mp hb'
            obtain ⟨np, hnp, rfl⟩ := List.mem_map.mp hl
            exact ((b2 a).mp (r1 np hnp a hal)).2 ha
    · simp only [hi, if_false] at h
      exact ih avail out h

/-- **C09 (censoring).** No output node of `compress_graph` merges a censored node, and every input node is merged into
    at most one output node. -/
theorem C09_censored_excluded (st : Bool) (g : G D) (join : D → D → Bool) (reduce : D → D → D) (censor : List Nat)
    (g' : G D) (paths : List (List (Nat × Dir))) (h : compressGraph st g join reduce censor = some (g', paths)) :
    (∀ p ∈ paths, ∀ i ∈ ids p, i ∉ censor ∧ i < g.nodes.length) ∧ (paths.map ids).flatten.Nodup := by
  unfold compressGraph at h
  dsimp only at h
  split at h
  · simp at h
  · rename_i nodes hl
    simp only [Option.some.injEq, Prod.mk.injEq] at h
    obtain ⟨_, rfl⟩ := h
    obtain ⟨a, b⟩ := compressLoop_ok _ st join reduce _ _ nodes hl
    refine ⟨?_, by simpa [List.map_map, Function.comp_def] using b⟩
    intro p hp i hi
    obtain ⟨np, hnp, rfl⟩ := List.mem_map.mp hp
    have := a np hnp i hi
    simp only [List.mem_filter, List.mem_range, Bool.not_eq_true', List.contains_eq_mem, decide_eq_false_iff_not] at this
    exact ⟨this.2, this.1⟩

end CompressGraph

namespace CompressGraph
open Compress (Seq Exts Node windowsOf)
open Walk (Dir rm mem_rm)
open Graph
variable {D : Type}

/-! ### every step of a walk follows a reported edge; the merged sequence spells the merged nodes -/

theorem nibUniq_has (n : Nat) (b : Compress.Base) (h : Compress.nibUniq n = some b) : Compress.nibHas n b = true := by
  unfold Compress.nibUniq at h
  unfold Compress.nibHas
  split at h
  · cases h; simp only [bne_iff_ne, ne_eq]; show ¬ (n &&& (1 <<< 0) = 0); rename_i h1; simp at h1 ⊢; omega
  · split at h
    · cases h; simp only [bne_iff_ne, ne_eq]; show ¬ (n &&& (1 <<< 1) = 0); rename_i h1; simp at h1 ⊢; omega
    · split at h
      · cases h; simp only [bne_iff_ne, ne_eq]; show ¬ (n &&& (1 <<< 2) = 0); rename_i h1; simp at h1 ⊢; omega
      · split at h
        · cases h; simp only [bne_iff_ne, ne_eq]; show ¬ (n &&& (1 <<< 3) = 0); rename_i h1; simp at h1 ⊢; omega
        · cases h

/-- what a `cand` answer of the static part means -/
theorem staticNode_cand (g : G D) (st : Bool) (join : D → D → Bool) (cur : Nat) (dir : Dir)
    (y : Nat) (inc : Dir) (bad : Bool) (cnt : Nat) (e : Exts) (h : staticNode g st join cur dir = .cand y inc bad cnt e) :
    ∃ (nd nn : Node D) (b : Compress.Base) (fl : Bool), g.nodes[cur]? = some nd ∧ g.nodes[y]? = some nn ∧
      nd.exts.numExtDir dir = 1 ∧ (!st && nd.seq.length == g.K && Compress.isPalindrome (nd.seq.take g.K)) = false ∧
      nd.exts.uniqueExt dir = some b ∧
      findLink g (Compress.extend (termKmer g.K nd.seq dir) b dir) dir = some (y, inc, fl) ∧
      bad = ((!st && Compress.isPalindrome (Compress.extend (termKmer g.K nd.seq dir) b dir)) || !(join nd.data nn.data)) ∧
      cnt = nn.exts.numExtDir inc ∧ e = nd.exts.singleDir dir := by
  unfold staticNode at h
  cases hn : g.nodes[cur]? with
  | none => rw [hn] at h; cases h
  | some nd =>
    rw [hn] at h
    simp only at h
    split at h
    · cases h
    · rename_i hcond
      cases hu : nd.exts.uniqueExt dir with
      | none => rw [hu] at h; cases h
      | some b =>
        rw [hu] at h
        simp only at h
        cases hl : findLink g (Compress.extend (termKmer g.K nd.seq dir) b dir) dir with
        | none => rw [hl] at h; cases h
        | some r =>
          obtain ⟨nextId, incoming, flip⟩ := r
          rw [hl] at h
          simp only at h
          cases hnn : g.nodes[nextId]? with
          | none => rw [hnn] at h; cases h
          | some nn =>
            rw [hnn] at h
            simp only at h
            have key : ∀ (c : Bool) (s1 : StaticN), (if c = true then StaticN.panic else s1) = StaticN.cand y inc bad cnt e → s1 = StaticN.cand y inc bad cnt e := by
              intro c s1 hh; cases c <;> simp at hh; exact hh
            have h' := key _ _ h
            simp only [StaticN.cand.injEq] at h'
            obtain ⟨rfl, rfl, rfl, rfl, rfl⟩ := h'
            simp only [Bool.or_eq_true, bne_iff_ne, ne_eq, not_or, Bool.not_eq_true, Decidable.not_not] at hcond
            exact ⟨nd, nn, b, flip, rfl, hnn, by simpa using hcond.1, hcond.2, hu, hl, rfl, rfl, rfl⟩

/-- a `unique` answer of `try_extend_node` is one of the edges reported from that side -/
theorem tryExtendNode_edge (g : G D) (st : Bool) (join : D → D → Bool) (avail : List Nat) (cur : Nat) (dir : Dir)
    (nx : Nat) (out : Dir) (h : tryExtendNode g st join avail cur dir = .unique nx out) :
    ∃ es f, findEdges g cur dir = some es ∧ (nx, out.flip, f) ∈ es := by
  unfold tryExtendNode at h
  cases hs : staticNode g st join cur dir with
  | panic => rw [hs] at h; cases h
  | terminal e => rw [hs] at h; cases h
  | cand y inc bad cnt e =>
    rw [hs] at h
    simp only at h
    obtain ⟨nd, nn, b, fl, hn, _, _, _, hu, hl, _, _, _⟩ := staticNode_cand g st join cur dir y inc bad cnt e hs
    have hyo : nx = y ∧ out = inc.flip := by
      split at h
      · cases h
      · split at h
        · cases h
        · split at h
          · simp only [ExtModeNode.unique.injEq] at h; exact ⟨h.1.symm, h.2.symm⟩
          · cases h
    obtain ⟨rfl, rfl⟩ := hyo
    refine ⟨_, fl, by unfold findEdges; rw [hn], ?_⟩
    rw [Dir.flip_flip, List.mem_filterMap]
    have hb : nd.exts.hasExt dir b.val = true := by
      rw [Compress.uniqueExt_eq] at hu
      split at hu
      · cases hu
      · have := nibUniq_has _ b hu
        unfold Compress.nibHas at this
        unfold Compress.Exts.hasExt
        simp only [bne_iff_ne, ne_eq] at this
        simp only [decide_eq_true_eq]
        omega
    exact ⟨b, Graph.mem_base4 b, by rw [if_pos hb]; exact hl⟩

/-- entries of a walk, as `sequence_of_path` reads them: each follows an edge out of its predecessor -/
theorem extendNode_chain (g : G D) (st : Bool) (join : D → D → Bool) (avail : List Nat) (cur : Nat) (dir : Dir)
    (p : List (Nat × Dir)) (e : Exts) (a' : List Nat) (h : extendNode g st join avail cur dir = some (p, e, a')) :
    Graph.ChainStep g (cur, dir.flip) p := by
  fun_induction extendNode g st join avail cur dir generalizing p e a' with
  | case1 avail cur dir nx out hx hmem p0 e0 a0 hrec ih =>
    simp only [Option.some.injEq, Prod.mk.injEq] at h
    obtain ⟨rfl, rfl, rfl⟩ := h
    obtain ⟨es, f, he, hm⟩ := tryExtendNode_edge g st join avail cur dir nx out hx
    refine ⟨Or.inl ⟨es, f, by simpa [Dir.flip_flip] using he, hm⟩, ?_⟩
    have := ih p0 e0 a0 hrec
    simpa [Dir.flip_flip] using this
  | case2 avail cur dir nx out hx hmem hrec => simp at h
  | case3 avail cur dir nx out hx hmem => simp at h
  | case4 avail cur dir e1 hx =>
    simp only [Option.some.injEq, Prod.mk.injEq] at h
    obtain ⟨rfl, rfl, rfl⟩ := h
    trivial
  | case5 avail cur dir hx => simp at h

end CompressGraph

namespace CompressGraph
open Compress (Seq Exts Node windowsOf)
open Walk (Dir rm mem_rm)
open Graph
variable {D : Type}

def IsChain (g : G D) : List (Nat × Dir) → Prop
  | [] => True
  | p :: rest => ChainStep g p rest

theorem chainStep_cons_append (g : G D) (p : Nat × Dir) (l1 l2 : List (Nat × Dir)) (q : Nat × Dir)
    (h1 : ChainStep g p (l1 ++ [q])) (h2 : ChainStep g q l2) : ChainStep g p (l1 ++ [q] ++ l2) := by
  induction l1 generalizing p with
  | nil => exact ⟨h1.1, h2⟩
  | cons a t ih => exact ⟨h1.1, ih a h1.2⟩

/-- two chains sharing their junction entry -/
theorem isChain_append (g : G D) (l1 l2 : List (Nat × Dir)) (q : Nat × Dir)
    (h1 : IsChain g (l1 ++ [q])) (h2 : ChainStep g q l2) : IsChain g (l1 ++ [q] ++ l2) := by
  cases l1 with
  | nil => exact h2
  | cons a t => exact chainStep_cons_append g a t l2 q h1 h2

def flip2 (p : Nat × Dir) : Nat × Dir := (p.1, p.2.flip)

theorem stepOK_flip (g : G D) (a b : Nat × Dir) (h : StepOK g a b) : StepOK g (flip2 b) (flip2 a) := by
  rcases h with ⟨es, f, he, hm⟩ | ⟨es, f, he, hm⟩
  · exact Or.inr ⟨es, f, he, by simpa [flip2, Dir.flip_flip] using hm⟩
  · exact Or.inl ⟨es, f, by simpa [flip2, Dir.flip_flip] using he, by simpa [flip2] using hm⟩

/-- a chain read backwards, every entry seen from its other side -/
theorem isChain_reverse (g : G D) (p : Nat × Dir) (rest : List (Nat × Dir)) (h : ChainStep g p rest) :
    IsChain g ((rest.map flip2).reverse ++ [flip2 p]) := by
  induction rest generalizing p with
  | nil => trivial
  | cons q t ih =>
    have h1 := ih q h.2
    simp only [List.map_cons, List.reverse_cons, List.append_assoc, List.singleton_append]
    have : (t.map flip2).reverse ++ flip2 q :: [flip2 p] = ((t.map flip2).reverse ++ [flip2 q]) ++ [flip2 p] := by simp
    rw [this]
    exact isChain_append g _ [flip2 p] (flip2 q) h1 ⟨stepOK_flip g p q h.1, trivial⟩

end CompressGraph

namespace CompressGraph
open Compress (Seq Exts Node windowsOf)
open Walk (Dir rm mem_rm)
open Graph
variable {D : Type}

theorem extendNode_nodes (g : G D) (st : Bool) (join : D → D → Bool) (avail : List Nat) (cur : Nat) (dir : Dir)
    (p : List (Nat × Dir)) (e : Exts) (a' : List Nat) (h : extendNode g st join avail cur dir = some (p, e, a')) :
    ∀ q ∈ p, (g.nodes[q.1]?).isSome := by
  fun_induction extendNode g st join avail cur dir generalizing p e a' with
  | case1 avail cur dir nx out hx hmem p0 e0 a0 hrec ih =>
    simp only [Option.some.injEq, Prod.mk.injEq] at h
    obtain ⟨rfl, rfl, rfl⟩ := h
    obtain ⟨es, f, he, hm⟩ := tryExtendNode_edge g st join avail cur dir nx out hx
    intro q hq
    rcases List.mem_cons.mp hq with rfl | hq'
    · exact (findEdges_nodes g cur dir es he).2 _ hm
    · exact ih p0 e0 a0 hrec q hq'
  | case2 avail cur dir nx out hx hmem hrec => simp at h
  | case3 avail cur dir nx out hx hmem => simp at h
  | case4 avail cur dir e1 hx =>
    simp only [Option.some.injEq, Prod.mk.injEq] at h
    obtain ⟨rfl, rfl, rfl⟩ := h
    intro q hq; cases hq
  | case5 avail cur dir hx => simp at h

/-- **C09 (k-mers and payload of a merged node).** The sequence of a node built by `build_node` spells exactly the
    k-mers of the old nodes on its path, in walking orientation and in order; its payload is the caller's reduction folded
    over the payloads of the left path, then of the right path, starting from the seed's. -/
theorem buildNode_kmers (g : G D) (hK : 1 ≤ g.K) (hl : ∀ (i : Nat) (n : Node D), g.nodes[i]? = some n → g.K ≤ n.seq.length)
    (st : Bool) (join : D → D → Bool) (reduce : D → D → D) (avail : List Nat) (seed : Nat)
    (nd : Node D) (path : List (Nat × Dir)) (a' : List Nat) (h : buildNode g st join reduce avail seed = some (nd, path, a')) :
    windowsOf g.K nd.seq = path.flatMap (orientedKmers g) ∧ IsChain g path ∧ (∀ q ∈ path, (g.nodes[q.1]?).isSome) := by
  unfold buildNode at h
  cases hn : g.nodes[seed]? with
  | none => simp [hn] at h
  | some sn =>
    simp only [hn] at h
    cases hL : extendNode g st join (rm avail seed) seed .L with
    | none => simp [hL] at h
    | some rl =>
      obtain ⟨lpath, lext, a2⟩ := rl
      simp only [hL] at h
      cases hR : extendNode g st join (rm a2 seed) seed .R with
      | none => simp [hR] at h
      | some rr =>
        obtain ⟨rpath, rext, a3⟩ := rr
        simp only [hR] at h
        split at h
        · rename_i dat sq hdat hsq
          simp only [Option.some.injEq, Prod.mk.injEq] at h
          obtain ⟨rfl, rfl, rfl⟩ := h
          have cl := extendNode_chain g st join _ _ _ _ _ _ hL
          have cr := extendNode_chain g st join _ _ _ _ _ _ hR
          have nl := extendNode_nodes g st join _ _ _ _ _ _ hL
          have nr := extendNode_nodes g st join _ _ _ _ _ _ hR
          -- the whole path is a chain
          have hrev := isChain_reverse g (seed, Dir.L.flip) lpath cl
          have hmap : (lpath.map fun p => (p.1, p.2.flip)) = lpath.map flip2 := rfl
          have hchain : IsChain g ((lpath.map fun p => (p.1, p.2.flip)).reverse ++ [(seed, Dir.L)] ++ rpath) := by
            rw [hmap]
            exact isChain_append g _ rpath (seed, Dir.L) (by simpa [flip2, Dir.flip] using hrev) (by simpa [Dir.flip] using cr)
          have hnodes : ∀ q ∈ (lpath.map fun p => (p.1, p.2.flip)).reverse ++ [(seed, Dir.L)] ++ rpath, (g.nodes[q.1]?).isSome := by
            intro q hq
            simp only [List.mem_append, List.mem_reverse, List.mem_map, List.mem_singleton] at hq
            rcases hq with (⟨p, hp, rfl⟩ | rfl) | hq
            · exact nl p hp
            · rw [hn]; rfl
            · exact nr q hq
          refine ⟨?_, hchain, hnodes⟩
          -- `sequence_of_path` on a chain
          cases hpath : (lpath.map fun p => (p.1, p.2.flip)).reverse ++ [(seed, Dir.L)] ++ rpath with
          | nil => simp at hpath
          | cons p0 rest =>
            rw [hpath] at hchain hnodes hsq
            obtain ⟨S, e, w⟩ := walk_sequence g hK hl p0 rest (hnodes p0 (by simp)) (fun q hq => hnodes q (by simp [hq])) hchain
            rw [hsq] at e; cases e
            exact w
        · simp at h

end CompressGraph

namespace CompressGraph
open Compress (Seq Exts Node windowsOf)
open Walk (Dir rm mem_rm)
open Graph
variable {D : Type}

/-! ### `fix_exts` only rewrites extension bytes -/

def sameShape (g g' : G D) : Prop :=
  g'.K = g.K ∧ g'.stranded = g.stranded ∧ g'.nodes.map (·.seq) = g.nodes.map (·.seq) ∧ g'.nodes.map (·.data) = g.nodes.map (·.data)

theorem sameShape_refl (g : G D) : sameShape g g := ⟨rfl, rfl, rfl, rfl⟩
theorem sameShape_trans {g1 g2 g3 : G D} (h1 : sameShape g1 g2) (h2 : sameShape g2 g3) : sameShape g1 g3 :=
  ⟨h2.1.trans h1.1, h2.2.1.trans h1.2.1, h2.2.2.1.trans h1.2.2.1, h2.2.2.2.trans h1.2.2.2⟩

theorem sameShape_setExts (g : G D) (i : Nat) (nd : Node D) (hn : g.nodes[i]? = some nd) (e : Exts) :
    sameShape g { g with nodes := g.nodes.set i { nd with exts := e } } := by
  have hlt : i < g.nodes.length := Graph.getElem?_lt hn
  have hnd : g.nodes[i] = nd := by rw [List.getElem?_eq_getElem hlt] at hn; exact Option.some.inj hn
  refine ⟨rfl, rfl, ?_, ?_⟩
  · show (g.nodes.set i _).map (·.seq) = _
    rw [List.map_set]
    show (g.nodes.map (·.seq)).set i nd.seq = _
    rw [← hnd]
    have : (g.nodes.map (·.seq))[i]'(by simpa using hlt) = g.nodes[i].seq := by simp
    rw [← this, List.set_getElem_self]
  · show (g.nodes.set i _).map (·.data) = _
    rw [List.map_set]
    show (g.nodes.map (·.data)).set i nd.data = _
    rw [← hnd]
    have : (g.nodes.map (·.data))[i]'(by simpa using hlt) = g.nodes[i].data := by simp
    rw [← this, List.set_getElem_self]

theorem fixExts_shape (g : G D) (valid : Option (List Nat)) : sameShape g (fixExts g valid) := by
  unfold fixExts
  -- generalise the start of the fold (the list of indices is computed once, from the original graph)
  have key : ∀ (is : List Nat) (g0 : G D), sameShape g g0 →
      sameShape g (is.foldl (fun (g : G D) i =>
        match getValidExts g i valid, g.nodes[i]? with
        | some e, some nd => { g with nodes := g.nodes.set i { nd with exts := e } }
        | _, _ => g) g0) := by
    intro is
    induction is with
    | nil => intro g0 h; exact h
    | cons i t ih =>
      intro g0 h
      rw [List.foldl_cons]
      apply ih
      split
      · rename_i e nd _ hn
        exact sameShape_trans h (sameShape_setExts g0 i nd hn e)
      · exact h
  exact key _ g (sameShape_refl g)

theorem orientedKmers_shape (g g' : G D) (h : sameShape g g') (p : Nat × Dir) : orientedKmers g' p = orientedKmers g p := by
  unfold orientedKmers
  have hs := congrArg (·[p.1]?) h.2.2.1
  simp only [List.getElem?_map] at hs
  rw [h.1]
  cases h1 : g'.nodes[p.1]? with
  | none =>
    rw [h1] at hs
    cases h2 : g.nodes[p.1]? with
    | none => rfl
    | some n => rw [h2] at hs; cases hs
  | some n' =>
    rw [h1] at hs
    cases h2 : g.nodes[p.1]? with
    | none => rw [h2] at hs; cases hs
    | some n =>
      rw [h2] at hs
      simp only [Option.map_some, Option.some.injEq] at hs
      simp only [hs]

theorem shape_len (g g' : G D) (h : sameShape g g') (hl : ∀ (i : Nat) (n : Node D), g.nodes[i]? = some n → g.K ≤ n.seq.length) :
    ∀ (i : Nat) (n : Node D), g'.nodes[i]? = some n → g'.K ≤ n.seq.length := by
  intro i n hn
  have hs := congrArg (·[i]?) h.2.2.1
  simp only [List.getElem?_map, hn, Option.map_some] at hs
  cases h2 : g.nodes[i]? with
  | none => rw [h2] at hs; cases hs
  | some m =>
    rw [h2] at hs
    simp only [Option.map_some, Option.some.injEq] at hs
    rw [h.1, hs]; exact hl i m h2

/-! ### the loop covers every available node -/

theorem compressLoop_cover (g : G D) (st : Bool) (join : D → D → Bool) (reduce : D → D → D) :
    ∀ (is avail : List Nat) (out : List (Node D × List (Nat × Dir))),
      compressLoop g st join reduce is avail = some out →
      ∀ i ∈ is, i ∈ avail → ∃ np ∈ out, i ∈ ids np.2 := by
  intro is
  induction is with
  | nil => intro avail out _ i hi; cases hi
  | cons j is ih =>
    intro avail out h i hi hia
    simp only [compressLoop] at h
    by_cases hj : j ∈ avail
    · simp only [hj, if_true] at h
      cases hb : buildNode g st join reduce avail j with
      | none => simp [hb] at h
      | some r =>
        obtain ⟨nd, path, a'⟩ := r
        simp only [hb] at h
        cases hrest : compressLoop g st join reduce is a' with
        | none => simp [hrest] at h
        | some rest =>
          simp only [hrest, Option.some.injEq] at h
          subst h
          obtain ⟨_, b2, _, b4⟩ := buildNode_ok g st join reduce avail j hj nd path a' hb
          by_cases hin : i ∈ ids path
          · exact ⟨(nd, path), by simp, hin⟩
          · rcases List.mem_cons.mp hi with rfl | hi'
            · exact absurd b4 hin
            · obtain ⟨np, hnp, hm⟩ := ih a' rest hrest i hi' ((b2 i).mpr ⟨hia, hin⟩)
              exact ⟨np, by simp [hnp], hm⟩
    · simp only [hj, if_false] at h
      rcases List.mem_cons.mp hi with rfl | hi'
      · exact absurd hia hj
      · exact ih avail out h i hi' hia

theorem compressLoop_kmers (g : G D) (hK : 1 ≤ g.K) (hl : ∀ (i : Nat) (n : Node D), g.nodes[i]? = some n → g.K ≤ n.seq.length)
    (st : Bool) (join : D → D → Bool) (reduce : D → D → D) :
    ∀ (is avail : List Nat) (out : List (Node D × List (Nat × Dir))),
      compressLoop g st join reduce is avail = some out →
      ∀ np ∈ out, windowsOf g.K np.1.seq = np.2.flatMap (orientedKmers g) ∧ IsChain g np.2 := by
  intro is
  induction is with
  | nil => intro avail out h np hnp; simp only [compressLoop, Option.some.injEq] at h; subst h; cases hnp
  | cons j is ih =>
    intro avail out h np hnp
    simp only [compressLoop] at h
    by_cases hj : j ∈ avail
    · simp only [hj, if_true] at h
      cases hb : buildNode g st join reduce avail j with
      | none => simp [hb] at h
      | some r =>
        obtain ⟨nd, path, a'⟩ := r
        simp only [hb] at h
        cases hrest : compressLoop g st join reduce is a' with
        | none => simp [hrest] at h
        | some rest =>
          simp only [hrest, Option.some.injEq] at h
          subst h
          rcases List.mem_cons.mp hnp with rfl | hnp'
          · obtain ⟨w, c, _⟩ := buildNode_kmers g hK hl st join reduce avail j nd path a' hb
            exact ⟨w, c⟩
          · exact ih a' rest hrest np hnp'
    · simp only [hj, if_false] at h
      exact ih avail out h np hnp

/-- **C09 (k-mers, coverage).** If `compress_graph` returns, then: it has one new node per returned path; the k-mers of
    every new node are exactly the k-mers of the old nodes on its path, in walking orientation and in order, every step of
    the path following an edge of the (pruned) old graph; every non-censored old node lies on exactly one path and no
    censored node on any. Hence the new graph's k-mers are exactly those of the non-censored nodes, each once. -/
theorem C09_kmers_cover (st : Bool) (g : G D) (hK : 1 ≤ g.K) (hl : ∀ (i : Nat) (n : Node D), g.nodes[i]? = some n → g.K ≤ n.seq.length)
    (join : D → D → Bool) (reduce : D → D → D) (censor : List Nat)
    (g' : G D) (paths : List (List (Nat × Dir))) (h : compressGraph st g join reduce censor = some (g', paths)) :
    g'.nodes.length = paths.length ∧
    (∀ (i : Nat) (n : Node D) (p : List (Nat × Dir)), g'.nodes[i]? = some n → paths[i]? = some p →
      windowsOf g.K n.seq = p.flatMap (orientedKmers g)) ∧
    (∀ i, i < g.nodes.length → i ∉ censor → ∃ p ∈ paths, i ∈ ids p) ∧
    (∀ p ∈ paths, ∀ i ∈ ids p, i ∉ censor ∧ i < g.nodes.length) ∧ (paths.map ids).flatten.Nodup := by
  obtain ⟨hex, hnd⟩ := C09_censored_excluded st g join reduce censor g' paths h
  unfold compressGraph at h
  dsimp only at h
  split at h
  · simp at h
  · rename_i nodes hloop
    simp only [Option.some.injEq, Prod.mk.injEq] at h
    obtain ⟨hg', hp⟩ := h
    have sh1 := fixExts_shape g (some ((List.range g.nodes.length).filter fun i => !censor.contains i))
    have hK1 : 1 ≤ (fixExts g (some ((List.range g.nodes.length).filter fun i => !censor.contains i))).K := by rw [sh1.1]; exact hK
    have hl1 := shape_len g _ sh1 hl
    have hkm := compressLoop_kmers _ hK1 hl1 st join reduce _ _ nodes hloop
    have hcov := compressLoop_cover _ st join reduce _ _ nodes hloop
    have sh2 := fixExts_shape (⟨g.K, nodes.map (·.1), st⟩ : G D) none
    refine ⟨?_, ?_, ?_, hex, hnd⟩
    · rw [← hg', ← hp]
      have := congrArg List.length sh2.2.2.1
      simpa using this
    · intro i n p hn hpi
      rw [← hp, List.getElem?_map] at hpi
      cases hx : nodes[i]? with
      | none => rw [hx] at hpi; cases hpi
      | some x =>
        rw [hx] at hpi
        simp only [Option.map_some, Option.some.injEq] at hpi
        subst hpi
        -- the final `fix_exts` keeps the sequences
        have hs := congrArg (·[i]?) sh2.2.2.1
        rw [← hg'] at hn
        simp only [List.getElem?_map, hn, hx, Option.map_some, Option.some.injEq] at hs
        obtain ⟨w, _⟩ := hkm x (List.mem_of_getElem? hx)
        rw [sh1.1] at w
        rw [hs, w]
        congr 1
        funext q
        exact orientedKmers_shape g _ sh1 q
    · intro i hi hc
      have hmem : i ∈ (List.range g.nodes.length).filter fun i => !censor.contains i := by
        simp only [List.mem_filter, List.mem_range, Bool.not_eq_true', List.contains_eq_mem, decide_eq_false_iff_not]
        exact ⟨hi, hc⟩
      obtain ⟨np, hnp, hm⟩ := hcov i (List.mem_range.mpr hi) hmem
      exact ⟨np.2, by rw [← hp]; exact List.mem_map_of_mem hnp, hm⟩

end CompressGraph

namespace CompressGraph
open Compress (Seq Exts Node windowsOf)
open Walk (Dir rm mem_rm)
open Graph
open Filter (has)
variable {D : Type}

/-! ### `fix_exts` is exact: no extension is left dangling -/

theorem searchKmer_shape (g g' : G D) (h : sameShape g g') (km : Seq) (side : Dir) : searchKmer g' km side = searchKmer g km side := by
  unfold searchKmer
  have e : ∀ (G0 : G D), (G0.nodes.findIdx? fun nd => termKmer G0.K nd.seq side == km) =
      (G0.nodes.map (·.seq)).findIdx? (fun s => termKmer G0.K s side == km) := by
    intro G0; rw [List.findIdx?_map]; rfl
  rw [e g', e g, h.1, h.2.2.1]

theorem findLink_shape (g g' : G D) (h : sameShape g g') (km : Seq) (d : Dir) : findLink g' km d = findLink g km d := by
  unfold findLink
  simp only [searchKmer_shape g g' h, h.2.1]

theorem extOk_shape (g g' : G D) (h : sameShape g g') (nd : Node D) (valid : Option (List Nat)) (d : Dir) (b : Compress.Base) :
    extOk g' nd valid d b ↔ extOk g nd valid d b := by
  unfold extOk
  rw [h.1]
  simp only [findLink_shape g g' h]

/-- the state of the fold of `fix_exts` after the indices `< k` have been processed -/
structure FixInv (g0 g : G D) (valid : Option (List Nat)) (k : Nat) : Prop where
  shape : sameShape g0 g
  done : ∀ (i : Nat) (n0 n : Node D), i < k → g0.nodes[i]? = some n0 → g.nodes[i]? = some n →
    ∀ d b, has n.exts d b ↔ has n0.exts d b ∧ extOk g0 n0 valid d b
  todo : ∀ (i : Nat), k ≤ i → g.nodes[i]? = g0.nodes[i]?

theorem shape_get (g g' : G D) (h : sameShape g g') (i : Nat) (n' : Node D) (hn : g'.nodes[i]? = some n') :
    ∃ n, g.nodes[i]? = some n ∧ n.seq = n'.seq := by
  have hs := congrArg (·[i]?) h.2.2.1
  simp only [List.getElem?_map, hn, Option.map_some] at hs
  cases h2 : g.nodes[i]? with
  | none => rw [h2] at hs; cases hs
  | some m => rw [h2] at hs; exact ⟨m, rfl, by simpa using hs.symm⟩

theorem fixExts_exact (g0 : G D) (valid : Option (List Nat)) :
    ∀ (i : Nat) (n0 n : Node D), g0.nodes[i]? = some n0 → (fixExts g0 valid).nodes[i]? = some n →
      n.seq = n0.seq ∧ n.data = n0.data ∧ ∀ d b, has n.exts d b ↔ has n0.exts d b ∧ extOk g0 n0 valid d b := by
  have key : ∀ (m k : Nat) (g : G D), k + m = g0.nodes.length → FixInv g0 g valid k →
      FixInv g0 ((List.range' k m).foldl (fun (g : G D) i =>
        match getValidExts g i valid, g.nodes[i]? with
        | some e, some nd => { g with nodes := g.nodes.set i { nd with exts := e } }
        | _, _ => g) g) valid (k + m) := by
    intro m
    induction m with
    | zero => intro k g _ h; simpa using h
    | succ m ih =>
      intro k g hkm hinv
      rw [List.range'_succ, List.foldl_cons]
      have hklt : k < g0.nodes.length := by omega
      have hgk : g.nodes[k]? = g0.nodes[k]? := hinv.todo k (Nat.le_refl _)
      have hn0 : g0.nodes[k]? = some g0.nodes[k] := List.getElem?_eq_getElem hklt
      rw [hn0] at hgk
      obtain ⟨e, he, hex⟩ := getValidExts_exact g k valid g0.nodes[k] hgk
      have hstep : (match getValidExts g k valid, g.nodes[k]? with
          | some e, some nd => { g with nodes := g.nodes.set k { nd with exts := e } }
          | _, _ => g) = { g with nodes := g.nodes.set k { g0.nodes[k] with exts := e } } := by
        rw [he, hgk]
      rw [hstep, show k + (m + 1) = (k + 1) + m by omega]
      apply ih (k + 1) _ (by omega)
      have hglen : k < g.nodes.length := Graph.getElem?_lt hgk
      refine ⟨sameShape_trans hinv.shape (sameShape_setExts g k _ hgk e), ?_, ?_⟩
      · intro i n0 n hi h0 hn d b
        by_cases hik : i = k
        · subst hik
          rw [hn0] at h0; cases h0
          have : (g.nodes.set i { g0.nodes[i] with exts := e })[i]? = some { g0.nodes[i] with exts := e } :=
            List.getElem?_set_self hglen
          have hn' : n = { g0.nodes[i] with exts := e } := by
            have h1 : (g.nodes.set i { g0.nodes[i] with exts := e })[i]? = some n := hn
            rw [this] at h1; exact (Option.some.inj h1).symm
          subst hn'
          show has e d b ↔ _
          rw [hex d b, extOk_shape g0 g hinv.shape]
        · have : (g.nodes.set k { g0.nodes[k] with exts := e })[i]? = g.nodes[i]? := List.getElem?_set_ne (Ne.symm hik)
          have hn' : g.nodes[i]? = some n := by rw [← this]; exact hn
          exact hinv.done i n0 n (by omega) h0 hn' d b
      · intro i hi
        show (g.nodes.set k _)[i]? = _
        rw [List.getElem?_set_ne (by omega)]
        exact hinv.todo i (by omega)
  intro i n0 n h0 hn
  have hfin := key g0.nodes.length 0 g0 (by omega) ⟨sameShape_refl g0, fun i _ _ hi => by omega, fun _ _ => rfl⟩
  have hfold : fixExts g0 valid = (List.range' 0 g0.nodes.length).foldl (fun (g : G D) i =>
        match getValidExts g i valid, g.nodes[i]? with
        | some e, some nd => { g with nodes := g.nodes.set i { nd with exts := e } }
        | _, _ => g) g0 := by
    unfold fixExts; rw [List.range_eq_range']; rfl
  rw [hfold] at hn
  rw [Nat.zero_add] at hfin
  have hlt : i < g0.nodes.length := Graph.getElem?_lt h0
  obtain ⟨m, hm, hseq⟩ := shape_get g0 _ hfin.shape i n hn
  rw [h0] at hm; cases hm
  have hdat : n.data = n0.data := by
    have hs := congrArg (·[i]?) hfin.shape.2.2.2
    simp only [List.getElem?_map, hn, h0, Option.map_some, Option.some.injEq] at hs
    exact hs
  exact ⟨hseq.symm, hdat, hfin.done i n0 n hlt h0 hn⟩

/-- **C09 (no dangling extension).** In the graph returned by `compress_graph`, every recorded extension of every node
    resolves through `find_link` to a node of that graph. -/
theorem C09_no_dangling (st : Bool) (g : G D) (join : D → D → Bool) (reduce : D → D → D) (censor : List Nat)
    (g' : G D) (paths : List (List (Nat × Dir))) (h : compressGraph st g join reduce censor = some (g', paths))
    (i : Nat) (n : Node D) (hn : g'.nodes[i]? = some n) (d : Dir) (b : Compress.Base) (hb : has n.exts d b) :
    ∃ t s f, findLink g' (Compress.extend (termKmer g'.K n.seq d) b d) d = some (t, s, f) := by
  unfold compressGraph at h
  dsimp only at h
  split at h
  · simp at h
  · rename_i nodes hloop
    simp only [Option.some.injEq, Prod.mk.injEq] at h
    obtain ⟨hg', _⟩ := h
    subst hg'
    have sh := fixExts_shape (⟨g.K, nodes.map (·.1), st⟩ : G D) none
    obtain ⟨n0, hn0, _⟩ := shape_get _ _ sh i n hn
    obtain ⟨hseq, _, hex⟩ := fixExts_exact (⟨g.K, nodes.map (·.1), st⟩ : G D) none i n0 n hn0 hn
    obtain ⟨_, t, s, f, hl, _⟩ := (hex d b).mp hb
    refine ⟨t, s, f, ?_⟩
    rw [findLink_shape _ _ sh, sh.1, hseq]
    exact hl

end CompressGraph

namespace CompressGraph
open Compress (Seq Exts Node windowsOf)
open Walk (Dir rm mem_rm)
open Graph
variable {D : Type}

/-- payload fold of `build_node`: the seed's payload, then the left path's, then the right path's -/
def payloadFold (g : G D) (reduce : D → D → D) (acc : Option D) (p : Nat × Dir) : Option D :=
  match acc, (g.nodes[p.1]?).map (·.data) with
  | some d, some x => some (reduce d x)
  | _, _ => none

/-- **C09 (payload).** The payload of a merged node is the caller's reduction folded over the payloads of exactly the
    old nodes on its path: seed first, then the left path outwards, then the right path outwards. -/
theorem buildNode_payload (g : G D) (st : Bool) (join : D → D → Bool) (reduce : D → D → D) (avail : List Nat) (seed : Nat)
    (nd : Node D) (path : List (Nat × Dir)) (a' : List Nat) (h : buildNode g st join reduce avail seed = some (nd, path, a')) :
    ∃ (sn : Node D) (lpath rpath : List (Nat × Dir)), g.nodes[seed]? = some sn ∧
      path = (lpath.map fun p => (p.1, p.2.flip)).reverse ++ [(seed, Dir.L)] ++ rpath ∧
      some nd.data = rpath.foldl (payloadFold g reduce) (lpath.foldl (payloadFold g reduce) (some sn.data)) := by
  unfold buildNode at h
  cases hn : g.nodes[seed]? with
  | none => simp [hn] at h
  | some sn =>
    simp only [hn] at h
    cases hL : extendNode g st join (rm avail seed) seed .L with
    | none => simp [hL] at h
    | some rl =>
      obtain ⟨lpath, lext, a2⟩ := rl
      simp only [hL] at h
      cases hR : extendNode g st join (rm a2 seed) seed .R with
      | none => simp [hR] at h
      | some rr =>
        obtain ⟨rpath, rext, a3⟩ := rr
        simp only [hR] at h
        split at h
        · rename_i dat sq hdat hsq
          simp only [Option.some.injEq, Prod.mk.injEq] at h
          obtain ⟨rfl, rfl, rfl⟩ := h
          exact ⟨sn, lpath, rpath, rfl, rfl, hdat.symm⟩
        · simp at h

end CompressGraph
