import Dbg.Spec.C05
/-! # C05 — K-mer counting/filtering equals reference grouping for any pass count (theorems: see below) -/
