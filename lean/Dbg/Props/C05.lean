import Dbg.Spec.C05
/-! # C05 — K-mer counting/filtering equals reference grouping for any pass count

Proved so far: the pass planning tiles the 256 buckets — for every memory budget (every number of slices ≥ 1)
each bucket lies in exactly one pass — and there are at most 256 passes; the saturating count is
`min n 65535`.  The equality of `filterKmers` with the pass-free reference `refTable` (for all read sets) is
stated (`C05_filter_eq_ref_full`) and decided on every run by evaluating the reference on the crate's
output for pass counts 1..256; its proof is not yet written. -/
namespace Filter
open Compress (Seq Exts Entry)

theorem mem_bucketRanges (slices lo hi : Nat) :
    (lo, hi) ∈ bucketRanges slices ↔ (lo < 256 ∧ lo % (256 / slices + 1) = 0 ∧ hi = lo + (256 / slices + 1)) := by
  unfold bucketRanges
  simp only [List.mem_filterMap, List.mem_range]
  constructor
  · rintro ⟨i, hi, h⟩
    split at h
    · rename_i hm
      simp only [Option.some.injEq, Prod.mk.injEq] at h
      obtain ⟨rfl, rfl⟩ := h
      exact ⟨hi, hm, rfl⟩
    · exact absurd h (by simp)
  · rintro ⟨h1, h2, rfl⟩
    exact ⟨lo, h1, by simp [h2]⟩

/-- **C05 (pass planning).** Every bucket `b < 256` lies in exactly one of the planned ranges. -/
theorem C05_ranges_tile (slices b : Nat) (hb : b < 256) :
    ∃ lo hi, (lo, hi) ∈ bucketRanges slices ∧ lo ≤ b ∧ b < hi ∧
      ∀ lo' hi', (lo', hi') ∈ bucketRanges slices → lo' ≤ b → b < hi' → lo' = lo ∧ hi' = hi := by
  have hsz : 0 < 256 / slices + 1 := Nat.succ_pos _
  generalize hs : 256 / slices + 1 = sz at hsz
  have hm := Nat.mod_lt b hsz
  have hd := Nat.div_add_mod b sz
  have hmul : sz * (b / sz) % sz = 0 := Nat.mul_mod_right sz (b / sz)
  refine ⟨sz * (b / sz), sz * (b / sz) + sz, ?_, by omega, by omega, ?_⟩
  · rw [mem_bucketRanges, hs]; exact ⟨by omega, hmul, rfl⟩
  · intro lo' hi' hmem h1 h2
    rw [mem_bucketRanges, hs] at hmem
    obtain ⟨_, m0, rfl⟩ := hmem
    have e1 : lo' = sz * (lo' / sz) := by have := Nat.div_add_mod lo' sz; omega
    have e2 : b / sz = lo' / sz := by
      apply Nat.div_eq_of_lt_le
      · rw [Nat.mul_comm]; omega
      · rw [Nat.mul_comm, Nat.mul_add]; omega
    constructor
    · rw [e2]; exact e1
    · rw [e2]; omega

/-- at most 256 passes -/
theorem C05_passes_le (slices : Nat) : (bucketRanges slices).length ≤ 256 := by
  unfold bucketRanges
  exact Nat.le_trans (List.length_filterMap_le _ _) (by simp)

/-- `CountFilter`: the reported count is the number of observations capped at 65535, the k-mer is accepted iff that is ≥ n -/
theorem C05_count_summary (n : Nat) (obs : List (Exts × Nat)) :
    (summarize (.count n) obs).2.2 = [min obs.length 65535] ∧ ((summarize (.count n) obs).1 = true ↔ n ≤ min obs.length 65535) := by
  simp [summarize, Gen.countSaturation]

/-- Full statement (not yet proved): for every read set, K ≥ 4, every memory budget ≥ 1 the table and the all-k-mers list
    equal the pass-free reference. -/
def C05_filter_eq_ref_full : Prop :=
  ∀ (K : Nat) (reads : List (Seq × Exts × Nat)) (sm : Summarizer) (st ra : Bool) (mem bpu sz : Nat),
    4 ≤ K → 1 ≤ mem → 1 ≤ bpu → (∀ r ∈ reads, ∀ b ∈ r.1, b.val < 4) →
    ∃ r, filterKmers K reads sm st ra mem bpu sz = some r ∧ r.table = refTable K reads sm st ∧
      r.allKmers = (if ra then refAllKmers K reads st else [])

end Filter
