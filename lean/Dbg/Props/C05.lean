import Dbg.Lemmas.FilterProofs
import Dbg.Lemmas.FilterSym
/-! # C05 — K-mer counting/filtering equals reference grouping for any pass count

Proved so far: the pass planning tiles the 256 buckets — for every memory budget (every number of slices ≥ 1)
each bucket lies in exactly one pass — and there are at most 256 passes; the saturating count is
`min n 65535`.  `C05_filter_eq_ref` is the main theorem: the bucket-pass algorithm (planning, per-pass bucket
filling, stable sort, run grouping, summarising) equals the pass-free reference grouping for every read set and every
budget; pass independence is a corollary.  The same reference is evaluated on the crate's output on every run. -/
namespace Filter
open Compress (Seq Exts Entry)

/-- **C05 (pass planning).** For every memory budget the planned ranges, each cut at 256, enumerate the buckets
    0..255 in ascending order, each exactly once. -/
theorem C05_ranges_tile (slices : Nat) :
    (bucketRanges slices).flatMap (fun p => List.range' p.1 (min p.2 256 - p.1)) = List.range 256 :=
  bucketRanges_enum slices

/-- at most 256 passes -/
theorem C05_passes_le (slices : Nat) : (bucketRanges slices).length ≤ 256 := by
  unfold bucketRanges; simpa using rangesFrom_length (256 / slices + 1) 0

/-- every planned range starts at a multiple of its size below 256 and has that size -/
theorem C05_range_shape (slices lo hi : Nat) (h : (lo, hi) ∈ bucketRanges slices) :
    lo < 256 ∧ hi = lo + (256 / slices + 1) ∧ lo % (256 / slices + 1) = 0 := by
  unfold bucketRanges at h
  obtain ⟨_, b, c, d⟩ := mem_rangesFrom _ 0 lo hi h
  exact ⟨b, c, by simpa using d⟩

/-- `CountFilter`: the reported count is the number of observations capped at 65535, the k-mer is accepted iff that is ≥ n -/
theorem C05_count_summary (n : Nat) (obs : List (Exts × Nat)) :
    (summarize (.count n) obs).2.2 = [min obs.length 65535] ∧ ((summarize (.count n) obs).1 = true ↔ n ≤ min obs.length 65535) := by
  simp [summarize, Gen.countSaturation]

/-- **C05 (main theorem).** For every read set and per-read labels, K ≥ 4, both strandedness and report_all values,
    both summarizers and every memory budget ≥ 1 — i.e. every number of bucket passes — the table is exactly the
    reference grouping (distinct canonical k-mers ascending, each summarised once over its observations in input order,
    kept iff the summarizer accepts it) and the all-k-mers list is every distinct k-mer in ascending order. -/
theorem C05_filter_eq_ref (K : Nat) (reads : List (Seq × Exts × Nat)) (sm : Summarizer) (st ra : Bool) (mem bpu sz : Nat)
    (hK : 4 ≤ K) (hm : 1 ≤ mem) (hb : 1 ≤ bpu) :
    ∃ r, filterKmers K reads sm st ra mem bpu sz = some r ∧ r.table = refTable K reads sm st ∧
      r.allKmers = (if ra then refAllKmers K reads st else []) :=
  filterKmers_eq_ref K reads sm st ra mem bpu sz hK hm hb

/-- **C05 (pass independence).** The result does not depend on the memory budget, the bytes per unit or the element size,
    i.e. on how many bucket passes are made. -/
theorem C05_pass_independent (K : Nat) (reads : List (Seq × Exts × Nat)) (sm : Summarizer) (st ra : Bool)
    (m₁ b₁ s₁ m₂ b₂ s₂ : Nat) (hK : 4 ≤ K) (h1 : 1 ≤ m₁) (h2 : 1 ≤ b₁) (h3 : 1 ≤ m₂) (h4 : 1 ≤ b₂) :
    ∃ r₁ r₂, filterKmers K reads sm st ra m₁ b₁ s₁ = some r₁ ∧ filterKmers K reads sm st ra m₂ b₂ s₂ = some r₂ ∧
      r₁.table = r₂.table ∧ r₁.allKmers = r₂.allKmers := by
  obtain ⟨r₁, e1, t1, a1⟩ := C05_filter_eq_ref K reads sm st ra m₁ b₁ s₁ hK h1 h2
  obtain ⟨r₂, e2, t2, a2⟩ := C05_filter_eq_ref K reads sm st ra m₂ b₂ s₂ hK h3 h4
  exact ⟨r₁, r₂, e1, e2, by rw [t1, t2], by rw [a1, a2]⟩

/-- the reference lists every distinct k-mer exactly once, in strictly ascending order -/
theorem C05_keys_ascending (K : Nat) (reads : List (Seq × Exts × Nat)) (st : Bool) :
    (refAllKmers K reads st).Pairwise (· < ·) ∧
    ∀ k, k ∈ refAllKmers K reads st ↔ ∃ o ∈ observations K reads st, o.1 = k := by
  have h := distinctKeys_spec (observations K reads st)
  have e : refAllKmers K reads st = distinctKeys (observations K reads st) := by
    simp [refAllKmers, refGroups, List.map_map, Function.comp_def]
  rw [e]; exact h

/-- **C05 (extensions are the observed flanks).** With empty boundary extensions, an entry of the table records
    base `b` on side `d` exactly when its k-mer occurs in some read (as spelled or, unstranded, as the reverse
    complement of what is spelled) with `b` next to it on that side (`Occ`); palindromic k-mers excepted
    (their two strands coincide, so both orientations of every occurrence are recorded). -/
theorem C05_exts_are_flanks (K : Nat) (hK : 1 ≤ K) (reads : List (Seq × Exts × Nat)) (hb : NoBoundary reads) (sm : Summarizer) (st : Bool)
    (e : Entry Payload) (he : e ∈ refTable K reads sm st) (hp : (!st && Compress.isPalindrome e.key) = false)
    (d : Walk.Dir) (b : Compress.Base) : has e.exts d b ↔ Occ K reads st e.key d b := by
  constructor
  · exact table_occ K hK reads hb sm st e he d b
  · intro h
    obtain ⟨x, hx⟩ := mem_getElem? _ e he
    have wf := refTable_wf K hK reads hb sm st
    have hc := Compress.canonSt_self (st := st) (x := e.key) (fun hst => wf.canon hst x e hx) hp
    have := occ_table K hK reads hb sm st e.key d b h e he false hc hp
    simpa [Compress.condFlip] using this

/-- **C05 (the table is well-formed and reciprocal).** What `filter_kmers` delivers from reads with empty boundary
    extensions — also after `remove_censored_exts` and in any order (the hash map's) — satisfies the hypotheses of the
    graph-construction theorems (C01, C02, C09): keys of length K, distinct, canonical; extensions reciprocal. -/
theorem C05_table_wf (K : Nat) (hK : 1 ≤ K) (reads : List (Seq × Exts × Nat)) (hb : NoBoundary reads) (sm : Summarizer) (st : Bool)
    (T : List (Entry Payload)) (hp : T.Perm (removeCensoredExts st (refTable K reads sm st))) :
    Compress.WF T K st ∧ Compress.ExtSym T st := pipeline_table_ok K hK reads hb sm st T hp

/-- the hypotheses are those of every real call: K ≥ 4 (Kmer4 is the smallest type `bucket` can read), memory_size ≥ 1 -/
example : (4 : Nat) ≤ 5 ∧ (1 : Nat) ≤ 1 := by decide

end Filter
