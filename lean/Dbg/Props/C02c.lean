import Dbg.Lemmas.IsCompressed
import Dbg.Lemmas.Adjacency
/-! # C02 (continued) — the built graph passes the crate's own maximality check

The crate's tests use `is_compressed(spec) == None` as their oracle for "fully compressed".  For the graph
`compress_kmers` builds from a closed table (extensions lead to present k-mers: what `remove_censored_exts` delivers)
with the constantly-true join predicate, `is_compressed` indeed returns `None`: an unbranched edge it would report is a
good link between the end ports of two different nodes, but nodes are the connected components of good links. -/
namespace Compress
open Walk (Dir Conn)
open Filter (ExtSym2)
open Graph (G isCompressed)
variable {D : Type}

theorem fromSingleDirs_lt (l r : Exts) : (Exts.fromSingleDirs l r).val < 256 := by
  unfold Exts.fromSingleDirs
  show ((r.val <<< 4) % 256 ||| (l.val &&& 0xf)) < 2 ^ 8
  apply Nat.or_lt_two_pow
  · exact Nat.mod_lt _ (by decide)
  · exact Nat.lt_of_le_of_lt Nat.and_le_right (by decide)

theorem buildNodeC_x8 (T : Table D) (st : Bool) (join : D → D → Bool) (reduce : D → D → D) (avail : List Nat) (seed : Nat)
    (r : Node D × List Nat × List Nat) (h : buildNodeC T st join reduce avail seed = some r) : r.1.exts.val < 256 := by
  unfold buildNodeC at h
  cases h0 : T[seed]? with
  | none => rw [h0] at h; cases h
  | some es =>
    rw [h0] at h
    simp only at h
    cases h1 : walkC T st join (Walk.rm avail seed) seed .L with
    | none => rw [h1] at h; cases h
    | some w1 =>
      obtain ⟨lpath, lext, a2⟩ := w1
      rw [h1] at h
      simp only at h
      cases h2 : leftFold T reduce lpath es.key es.data with
      | none => rw [h2] at h; cases h
      | some f1 =>
        obtain ⟨seqL, datL⟩ := f1
        rw [h2] at h
        simp only at h
        cases h3 : walkC T st join (Walk.rm a2 seed) seed .R with
        | none => rw [h3] at h; cases h
        | some w2 =>
          obtain ⟨rpath, rext, a3⟩ := w2
          rw [h3] at h
          simp only at h
          cases h4 : rightFold T reduce rpath seqL datL with
          | none => rw [h4] at h; cases h
          | some f2 =>
            obtain ⟨seqR, datR⟩ := f2
            rw [h4] at h
            simp only [Option.some.injEq] at h
            subst h
            exact fromSingleDirs_lt _ _

theorem compressLoopC_x8 (T : Table D) (st : Bool) (join : D → D → Bool) (reduce : D → D → D) :
    ∀ (is avail : List Nat) (out : List (Node D × List Nat)), compressLoopC T st join reduce is avail = some out →
      ∀ x ∈ out, x.1.exts.val < 256 := by
  intro is
  induction is with
  | nil => intro avail out h x hx; simp [compressLoopC] at h; subst h; cases hx
  | cons i t ih =>
    intro avail out h x hx
    unfold compressLoopC at h
    split at h
    · cases hb : buildNodeC T st join reduce avail i with
      | none => rw [hb] at h; cases h
      | some r =>
        obtain ⟨nd, ids, avail'⟩ := r
        rw [hb] at h
        simp only at h
        cases hr : compressLoopC T st join reduce t avail' with
        | none => rw [hr] at h; cases h
        | some rest =>
          rw [hr] at h
          simp only [Option.some.injEq] at h
          subst h
          rcases List.mem_cons.mp hx with rfl | hx'
          · exact buildNodeC_x8 T st join reduce avail i _ hb
          · exact ih avail' rest hr x hx'
    · exact ih avail out h x hx

/-- **C02 (the crate's own check agrees).** For every well-formed, reciprocal, closed table, in any hash order, the graph
    built with the constantly-true join predicate passes `is_compressed`. -/
theorem C02_is_compressed {T : Table D} {K : Nat} {st : Bool} (wf : WF T K st) (hes2 : ExtSym2 T st) (hcl : Closed T st)
    (reduce : D → D → D) (out : List (Node D × List Nat))
    (ho : compressKmersC T st (fun _ _ => true) reduce = some out) :
    isCompressed (⟨K, out.map (·.1), st⟩ : G D) (fun _ _ => true) = none := by
  obtain ⟨port, members, pg, hmem⟩ := pgraph_of_compress reduce wf hes2.toExtSym (fun _ _ => rfl) out ho
  have hx8 : ∀ (i : Nat) (n : Node D), (out.map (·.1))[i]? = some n → n.exts.val < 256 := by
    intro i n hi
    obtain ⟨x, hx, rfl⟩ := List.mem_map.mp (List.mem_of_getElem? hi)
    exact compressLoopC_x8 T st _ reduce _ _ out ho x hx
  apply pg.isCompressed_none wf hes2 hcl hx8
  intro X Y d o hX hY hl
  -- the two end ports are connected, hence in the same component, hence in the same node
  have hx := pg.portMem X d hX
  have hy := pg.portMem Y o hY
  have hc : Conn (linkOf T st (fun _ _ => true)) (port X d).1 (port Y o).1 := Conn.step (Conn.refl _) ⟨_, _, hl⟩
  obtain ⟨out', ho', hm, _⟩ := compressLoopC_spec (join := fun _ _ => true) reduce wf hes2.toExtSym (List.range T.length) (List.range T.length)
    (fun i hi => List.mem_range.mp hi)
  have e : out' = out := by
    have h1 : compressKmersC T st (fun _ _ => true) reduce = some out' := ho'
    rw [ho] at h1; exact (Option.some.inj h1).symm
  subst e
  have hcomp := (compress_components_concrete (join := fun (_ _ : D) => true) wf hes2.toExtSym (fun _ _ => rfl)).2.2.1
  rw [← hm] at hcomp
  have hxlt : (port X d).1 < T.length := pg.inRange X hX _ hx
  obtain ⟨N, hN, h1, h2⟩ := (hcomp _ _ hxlt).mp hc
  obtain ⟨z, hz, rfl⟩ := List.mem_map.mp hN
  obtain ⟨k, hk, ek⟩ := List.getElem_of_mem hz
  have hkz : out'[k]? = some z := by rw [List.getElem?_eq_getElem hk, ek]
  have hmk := hmem k z hkz
  have hk' : k < (out'.map (·.1)).length := by simpa using hk
  have e1 := pg.disjoint X k hX hk' _ hx (by rw [hmk]; exact h1)
  have e2 := pg.disjoint Y k hY hk' _ hy (by rw [hmk]; exact h2)
  omega

/-- from reads: the pruned k-mer table of any read set, listed in any hash order, compresses to a graph on which
    `is_compressed` returns `None` — what the crate's own tests assert on their samples -/
theorem C02_is_compressed_from_reads (K : Nat) (hK : 1 ≤ K) (reads : List (Seq × Exts × Nat)) (hb : Filter.NoBoundary reads)
    (sm : Filter.Summarizer) (st : Bool) (reduce : Filter.Payload → Filter.Payload → Filter.Payload)
    (Td : Table Filter.Payload) (hperm : Td.Perm (Filter.removeCensoredExts st (Filter.refTable K reads sm st))) :
    ∃ out, compressKmersC Td st (fun _ _ => true) reduce = some out ∧
      isCompressed (⟨K, out.map (·.1), st⟩ : G Filter.Payload) (fun _ _ => true) = none := by
  have wfR := Filter.refTable_wf K hK reads hb sm st
  have hesR := Filter.refTable_extSym2 K hK reads hb sm st
  have wfRp := Filter.wf_removeCensored st _ K wfR
  have hesRp := Filter.extSym2_removeCensored st _ K wfR hesR
  have wfd := Filter.wf_perm st _ Td K hperm wfRp
  have hesd := Filter.extSym2_perm st _ Td K hperm wfRp hesRp
  have hcl := closed_perm hperm (closed_pruned st _)
  obtain ⟨out, ho, _, _⟩ := compressKmersC_partition (join := fun _ _ => true) reduce wfd hesd.toExtSym (fun _ _ => rfl)
  exact ⟨out, ho, C02_is_compressed wfd hesd hcl reduce out ho⟩

end Compress
