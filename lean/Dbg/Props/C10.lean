import Dbg.Lemmas.KmerExtend
import Dbg.Lemmas.KmerRc
import Dbg.Lemmas.KmerOrder
import Dbg.Lemmas.KmerSlice
import Dbg.Lemmas.KmerMore
import Dbg.Lemmas.KmerCount
/-! # C10 — Packed k-mers behave as length-K strings

`Kmer.toSeq c s` is the string read from storage `s` by the model of `get`; every theorem says that an
operation of the packed model (`Dbg/Model/Kmer.lean`, generic in storage width and K) commutes with the
corresponding operation on plain lists (`Dbg/Spec/C10.lean`).  All theorems hold for every well-formed
configuration (`1 ≤ K`, `2K ≤ w`, full-width types use all lanes), hence for all shipped types
(`shipped_wf`, decided on the table regenerated from kmer.rs). -/
namespace Kmer

instance (c : Cfg) : Decidable c.WF :=
  if h : 1 ≤ c.K ∧ 2 * c.K ≤ c.w ∧ (c.var = false → c.w = 2 * c.K) then isTrue ⟨h.1, h.2.1, h.2.2⟩
  else isFalse fun hc => h ⟨hc.hK, hc.hw, hc.hint⟩

/-- every k-mer type of the table (18 aliases + `VarIntKmer<u64,K31>`, `<u8,K4>` — the one `VarIntKmer` that fills its
    storage —, `<u16,K4>`, `<u128,K31>`) is a well-formed configuration with a
    storage width for which a `reverse_by_twos` ladder exists -/
theorem shipped_wf : ∀ e ∈ Gen.shipped, (Cfg.mk e.2.1 e.2.2.1 e.2.2.2).WF ∧ e.2.1 ∈ [8, 16, 32, 64, 128] := by decide

theorem shipped_count : Gen.shipped.length = 25 := by decide

/-- C10 (write a base): `set_mut` refines `List.set`, for all k-mer values, positions and bases -/
theorem C10_set (c : Cfg) (hc : c.WF) (s : St c) (pos v : Nat) (hp : pos < c.K) (hv : v < 4) :
    toSeq c (setMut c s pos v) = (toSeq c s).set pos v := toSeq_setMut hc s pos v hp hv

/-- C10 (read a base): `get` reads the `pos`-th entry of the string -/
theorem C10_get (c : Cfg) (s : St c) (pos : Nat) (hp : pos < c.K) : (toSeq c s)[pos]? = some (get c s pos) := by
  simp [toSeq, hp]

/-- C10 (shift a base in from the right) -/
theorem C10_extendRight (c : Cfg) (hc : c.WF) (s : St c) (v : Nat) (hv : v < 4) :
    toSeq c (extendRight c s v) = KSpec.extendRight (toSeq c s) v ∧ Inv c (extendRight c s v) :=
  ⟨toSeq_extendRight hc s v hv, inv_extendRight hc s v hv⟩

/-- C10 (shift a base in from the left); needs the representation invariant on the input -/
theorem C10_extendLeft (c : Cfg) (hc : c.WF) (s : St c) (v : Nat) (hv : v < 4) (hs : Inv c s) :
    toSeq c (extendLeft c s v) = KSpec.extendLeft (toSeq c s) v ∧ Inv c (extendLeft c s v) :=
  ⟨toSeq_extendLeft hc s v hv hs, inv_extendLeft hc s v hv hs⟩

theorem C10_set_inv (c : Cfg) (hc : c.WF) (s : St c) (pos v : Nat) (hp : pos < c.K) (hv : v < 4) (hs : Inv c s) :
    Inv c (setMut c s pos v) := inv_setMut hc s pos v hp hv hs

theorem inv_empty (c : Cfg) : Inv c (empty c) := by intro i _; simp [empty]

/-- C10 (construction from bytes): `from_bytes` spells the first K bytes -/
theorem C10_fromBytes (c : Cfg) (hc : c.WF) (bytes : List Nat) (hl : c.K ≤ bytes.length) (hb : ∀ b ∈ bytes, b < 4) :
    ∃ s, fromBytes c bytes = some s ∧ toSeq c s = bytes.take c.K ∧ Inv c s := by
  unfold fromBytes
  simp only [show ¬ bytes.length < c.K by omega, if_false]
  refine ⟨_, rfl, ?_⟩
  -- writing a prefix of length n ≤ K base by base
  have key : ∀ (n : Nat), n ≤ c.K → n ≤ bytes.length → ∀ (s0 : St c), Inv c s0 →
      let r := ((bytes.take n).zipIdx).foldl (fun s (bi : Nat × Nat) => setMut c s bi.2 bi.1) s0
      Inv c r ∧ ∀ q, q < c.K → get c r q = if q < n then bytes.getD q 0 else get c s0 q := by
    intro n
    induction n with
    | zero => intro _ _ s0 h0; simp [h0]
    | succ n ih =>
      intro hn hl s0 h0
      have hlt : n < bytes.length := by omega
      have e : (bytes.take (n + 1)).zipIdx = (bytes.take n).zipIdx ++ [(bytes[n], n)] := by
        rw [List.take_succ_eq_append_getElem hlt, List.zipIdx_append]; simp; omega
      simp only [e, List.foldl_append, List.foldl_cons, List.foldl_nil]
      obtain ⟨i1, i2⟩ := ih (by omega) (by omega) s0 h0
      have hbn : bytes[n] < 4 := hb _ (List.getElem_mem hlt)
      refine ⟨inv_setMut hc _ n _ (by omega) hbn i1, ?_⟩
      intro q hq
      rw [get_setMut hc _ n _ q (by omega) hq hbn, i2 q hq]
      by_cases h1 : q = n
      · subst h1; simp [hlt]
      · by_cases h2 : q < n
        · have : q < n + 1 := by omega
          simp [h1, h2, this]
        · have : ¬ q < n + 1 := by omega
          simp [h1, h2, this]
  obtain ⟨k1, k2⟩ := key c.K (Nat.le_refl _) hl (empty c) (inv_empty c)
  refine ⟨?_, k1⟩
  apply List.ext_getElem
  · simp [toSeq]; omega
  · intro q h1 h2
    simp only [toSeq, List.length_map, List.length_range] at h1
    simp only [toSeq, List.getElem_map, List.getElem_range, List.getElem_take]
    rw [k2 q h1]
    have : q < bytes.length := by omega
    simp [h1, this]

/-- C10 (reverse complement): `rc` refines reverse complement of the string and re-establishes the invariant,
    for every storage width that has a `reverse_by_twos` ladder (masks and shifts extracted from kmer.rs) -/
theorem C10_rc (c : Cfg) (hc : c.WF) (hw : c.w ∈ [8, 16, 32, 64, 128]) (s : St c) :
    toSeq c (rc c s) = KSpec.rc (toSeq c s) ∧ Inv c (rc c s) :=
  ⟨toSeq_rc hc hw s, inv_rc hc hw s⟩

/-- C10 (packed run): `set_slice_mut(pos, n, value)` replaces exactly bases `pos..pos+n` by the run packed into the
    top `2n` bits of `value` (base j = bits 63-2j, 62-2j); every other bit of `value` is irrelevant; for all
    `1 ≤ n ≤ 32`, `pos + n ≤ K` -/
theorem C10_setSlice (c : Cfg) (hc : c.WF) (s : St c) (pos n : Nat) (value : BitVec 64)
    (hn1 : 1 ≤ n) (hn32 : n ≤ 32) (hpn : pos + n ≤ c.K) :
    toSeq c (setSliceMut c s pos n value) = KSpec.setSlice (toSeq c s) pos n value ∧
    (Inv c s → Inv c (setSliceMut c s pos n value)) :=
  ⟨toSeq_setSliceMut hc s pos n value hn1 hn32 hpn, inv_setSliceMut hc s pos n value hn1 hn32 hpn⟩

/-- C10 (rank): under the invariant `to_u64` is the base-4 value of the string (K ≤ 32 so that it fits) -/
theorem C10_toU64 (c : Cfg) (hc : c.WF) (hK : c.K ≤ 32) (s : St c) (hs : Inv c s) :
    toU64 c s = some (Lex.val (toSeq c s)) := by
  have h1 := toNat_lt_of_inv s hs
  have h2 : (4 : Nat) ^ c.K ≤ 4 ^ 32 := Nat.pow_le_pow_right (by decide) hK
  unfold toU64
  rw [if_pos (by have : (4:Nat) ^ 32 = 2 ^ 64 := by decide
                 omega), toNat_eq_val hc s hs]

/-- C10 (construction from a rank): for ranks below 4^K, `from_u64` spells the K base-4 digits of the rank and the
    round trip with `to_u64` is the identity (K ≤ 32) -/
theorem C10_fromU64 (c : Cfg) (hc : c.WF) (v : Nat) (hv : v < 4 ^ c.K) :
    ∃ s, fromU64 c v = some s ∧ toSeq c s = KSpec.digits4 c.K v ∧ Inv c s := fromU64_spec hc v hv

theorem C10_u64_roundtrip (c : Cfg) (hc : c.WF) (hK : c.K ≤ 32) (v : Nat) (hv : v < 4 ^ c.K) :
    ∃ s, fromU64 c v = some s ∧ toU64 c s = some v := by
  obtain ⟨s, h1, h2, h3⟩ := fromU64_spec hc v hv
  refine ⟨s, h1, ?_⟩
  rw [C10_toU64 c hc hK s h3, h2, val_digits4 c.K v hv]

/-- C10 (text rendering) -/
theorem C10_toString (c : Cfg) (hc : c.WF) (s : St c) : toStr c s = KSpec.toText (toSeq c s) := toStr_spec hc s

/-- C10 (construction from ASCII): `from_ascii` is `from_bytes` of the bytewise conversion -/
theorem C10_fromAscii (c : Cfg) (hc : c.WF) (bytes : List Nat) (hl : c.K ≤ bytes.length) :
    ∃ s, fromAscii c bytes = some s ∧ toSeq c s = (bytes.take c.K).map baseToBits ∧ Inv c s := by
  rw [fromAscii_eq]
  have hb : ∀ b ∈ bytes.map baseToBits, b < 4 := by
    intro b hb
    obtain ⟨ch, _, rfl⟩ := List.mem_map.mp hb
    unfold baseToBits
    by_cases h : ch < 256
    · have : ∀ x : Fin 256, Gen.baseToBits.getD x.val 0 < 4 := by decide +kernel
      exact this ⟨ch, h⟩
    · have hlen : Gen.baseToBits.length = 256 := by decide +kernel
      have : Gen.baseToBits[ch]? = none := List.getElem?_eq_none (by rw [hlen]; omega)
      simp [List.getD_eq_getElem?_getD, this]
  obtain ⟨s, h1, h2, h3⟩ := C10_fromBytes c hc (bytes.map baseToBits) (by simpa using hl) hb
  exact ⟨s, h1, by rw [h2, List.map_take], h3⟩

/-- C10 (bulk construction): `kmers_from_bytes` yields exactly the n-K+1 windows in order (none if n < K) -/
theorem C10_kmersFromBytes (c : Cfg) (hc : c.WF) (str : List Nat) (hb : ∀ b ∈ str, b < 4) :
    (kmersFromBytes c str).map (toSeq c) = KSpec.windows c.K str := kmersFromBytes_spec hc str hb

/-- C10 (Hamming distance): the number of positions at which the two strings differ -/
theorem C10_hamming (c : Cfg) (hc : c.WF) (hw : c.w ∈ [8, 16, 32, 64, 128]) (s t : St c) (hs : Inv c s) (ht : Inv c t) :
    hammingDist c s t = KSpec.hamming (toSeq c s) (toSeq c t) := hammingDist_spec hc hw s t hs ht

/-- C10 (AT / GC counts); the unused bits of partial-width types are masked, so no invariant is needed -/
theorem C10_atCount (c : Cfg) (hc : c.WF) (hw : c.w ∈ [8, 16, 32, 64, 128]) (s : St c) :
    atCount c s = KSpec.atCount (toSeq c s) := atCount_spec hc hw s
theorem C10_gcCount (c : Cfg) (hc : c.WF) (hw : c.w ∈ [8, 16, 32, 64, 128]) (s : St c) :
    gcCount c s = KSpec.gcCount (toSeq c s) := gcCount_spec hc hw s

/-- C10 (bulk construction from ASCII) -/
theorem C10_kmersFromAscii (c : Cfg) (hc : c.WF) (str : List Nat) (hb : ∀ b ∈ str.map baseToBits, b < 4) :
    (kmersFromAscii c str).map (toSeq c) = KSpec.windows c.K (str.map baseToBits) := kmersFromBytes_spec hc _ hb

/-- the hypotheses are satisfiable: Kmer5 (u16, partial width) -/
example : toSeq ⟨16, 5, true⟩ (extendRight ⟨16, 5, true⟩ 0x1B#16 2) = KSpec.extendRight (toSeq ⟨16, 5, true⟩ 0x1B#16) 2 := by decide

end Kmer
