import Dbg.Props.C19
import Dbg.Model.Boom
/-! # C19 (continued) — exact lookups for every hash function a builder may produce

`Props/C19` shows that an index meeting the exact-lookup contract is unique.  Here the contract itself is derived for the
model of `BoomHashMap` (`Model/Boom`): whatever minimal perfect hash function the (serial or parallel) builder came up
with - it is a universally quantified parameter, arbitrary on k-mers that were never inserted - `get` answers exactly the
node whose terminal k-mer is the query and `None` otherwise, provided the slots hold the pairs (terminal k-mer of node i, i)
in the order that function dictates (`layoutOK`, `Slotted`).  Those two facts are what `create_map` establishes; they are
decidable, and the driver evaluates them on the layout of the real maps after every run (request field `layout=`), so the
part left to trust is `Mphf` itself: that its function is injective on the inserted keys with ranks below their number. -/
namespace Boom
open Compress (Seq Node)
open Walk (Dir)
open Graph

variable {D : Type}

theorem layout_sound (g : G D) (side : Dir) (keys : List Seq) (vals : List Nat) (h : layoutOK g side keys vals = true)
    (pos : Nat) (k : Seq) (v : Nat) (hk : keys[pos]? = some k) (hv : vals[pos]? = some v) :
    ∃ nd, g.nodes[v]? = some nd ∧ termKmer g.K nd.seq side = k := by
  simp only [layoutOK, Bool.and_eq_true, List.all_eq_true, List.mem_range] at h
  have hlt : pos < keys.length := by
    rcases Nat.lt_or_ge pos keys.length with h1 | h1
    · exact h1
    · rw [List.getElem?_eq_none h1] at hk; cases hk
  have := h.1.2 pos hlt
  rw [hk, hv] at this
  cases hn : g.nodes[v]? with
  | none => simp [hn] at this
  | some nd => simp only [hn, beq_iff_eq] at this; exact ⟨nd, rfl, this⟩

theorem layout_complete (g : G D) (side : Dir) (keys : List Seq) (vals : List Nat) (h : layoutOK g side keys vals = true)
    (i : Nat) (nd : Node D) (hn : g.nodes[i]? = some nd) :
    ∃ pos : Nat, keys[pos]? = some (termKmer g.K nd.seq side) ∧ vals[pos]? = some i := by
  simp only [layoutOK, Bool.and_eq_true, List.all_eq_true, List.mem_range] at h
  have hlt : i < g.nodes.length := by
    rcases Nat.lt_or_ge i g.nodes.length with h1 | h1
    · exact h1
    · rw [List.getElem?_eq_none h1] at hn; cases hn
  have := h.2 i hlt
  rw [hn] at this
  simp only [List.any_eq_true, List.mem_range, Bool.and_eq_true, beq_iff_eq] at this
  obtain ⟨pos, _, h1, h2⟩ := this
  exact ⟨pos, h1, h2⟩

/-- the index a pair of maps implements (`search_kmer`): left map for `Dir::Left`, right map for `Dir::Right`;
    a panic is mapped to `none` here and excluded separately by `get_no_panic` -/
def index (bl br : Map) (km : Seq) (side : Dir) : Option Nat :=
  match side with
  | .L => (bl.get km).join
  | .R => (br.get km).join

theorem get_no_panic (b : Map) (hr : b.InRange) (hl : b.keys.length = b.vals.length) (km : Seq) : (b.get km).isSome := by
  unfold Map.get
  cases h : b.tryHash km with
  | none => rfl
  | some pos =>
    have hp := hr km pos h
    have hk : b.keys[pos]? = some b.keys[pos] := List.getElem?_eq_getElem hp
    have hv : b.vals[pos]? = some (b.vals[pos]'(hl ▸ hp)) := List.getElem?_eq_getElem (hl ▸ hp)
    simp only [hk, hv]
    split <;> rfl

theorem get_exact (g : G D) (side : Dir) (b : Map) (hs : b.Slotted) (hl : layoutOK g side b.keys b.vals = true) :
    (∀ km i, (b.get km).join = some i → ∃ nd, g.nodes[i]? = some nd ∧ termKmer g.K nd.seq side = km) ∧
    (∀ km, (b.get km).join = none → ∀ nd ∈ g.nodes, termKmer g.K nd.seq side ≠ km) := by
  constructor
  · intro km i h
    unfold Map.get at h
    cases h1 : b.tryHash km with
    | none => simp [h1] at h
    | some pos =>
      simp only [h1] at h
      cases h2 : b.keys[pos]? with
      | none => simp [h2] at h
      | some hk =>
        simp only [h2] at h
        by_cases he : km = hk
        · subst he
          cases h3 : b.vals[pos]? with
          | none => simp [h3] at h
          | some v =>
            simp [h3] at h
            subst h
            exact layout_sound g side b.keys b.vals hl pos km v h2 h3
        · simp [he] at h
  · intro km h nd hm he
    obtain ⟨i, hi⟩ := List.getElem?_of_mem hm
    obtain ⟨pos, p1, p2⟩ := layout_complete g side b.keys b.vals hl i nd hi
    rw [he] at p1
    have := hs pos km p1
    unfold Map.get at h
    simp [this, p1, p2] at h

/-- **C19 (any hash function).** For every pair of maps whose slots hold the node ends in the order their own hash
    functions dictate - whichever functions those are - `search_kmer` meets the exact-lookup contract. -/
theorem C19_boom_exact (g : G D) (bl br : Map) (hsl : bl.Slotted) (hsr : br.Slotted)
    (hl : layoutOK g .L bl.keys bl.vals = true) (hr : layoutOK g .R br.keys br.vals = true) :
    ExactIndex g (index bl br) := by
  have L := get_exact g .L bl hsl hl
  have R := get_exact g .R br hsr hr
  constructor
  · intro km side i h
    cases side with
    | L => exact L.1 km i h
    | R => exact R.1 km i h
  · intro km side h
    cases side with
    | L => exact L.2 km h
    | R => exact R.2 km h

/-- **C19 (schedule independence, at the level of this crate).** Two finished graphs over the same nodes - one from
    `finish_serial`, one from `finish` under any thread count and schedule, each with its own hash functions and its own
    slot order - answer every link query identically, and identically to the model's list lookup. -/
theorem C19_builders_agree (g : G D) (hd : TermDistinct g) (bl₁ br₁ bl₂ br₂ : Map)
    (h₁ : bl₁.Slotted ∧ br₁.Slotted ∧ layoutOK g .L bl₁.keys bl₁.vals = true ∧ layoutOK g .R br₁.keys br₁.vals = true)
    (h₂ : bl₂.Slotted ∧ br₂.Slotted ∧ layoutOK g .L bl₂.keys bl₂.vals = true ∧ layoutOK g .R br₂.keys br₂.vals = true)
    (kmer : Seq) (dir : Dir) :
    findLinkWith g (index bl₁ br₁) kmer dir = findLinkWith g (index bl₂ br₂) kmer dir ∧
    findLinkWith g (index bl₁ br₁) kmer dir = findLink g kmer dir := by
  have e1 := C19_boom_exact g bl₁ br₁ h₁.1 h₁.2.1 h₁.2.2.1 h₁.2.2.2
  have e2 := C19_boom_exact g bl₂ br₂ h₂.1 h₂.2.1 h₂.2.2.1 h₂.2.2.2
  refine ⟨C19_queries_determined g hd _ _ e1 e2 kmer dir, ?_⟩
  rw [findLink_eq_with]
  exact C19_queries_determined g hd _ _ e1 (searchKmer_exact g) kmer dir

/-- the executable slot test is sound for the slots it saw: where `get_key_id` answered `pos` for `keys[pos]`, the hash
    function maps that key to that slot -/
theorem slots_of_keyIds (b : Map) (h : ∀ pos k, b.keys[pos]? = some k → b.getKeyId k = some (some pos)) :
    b.Slotted := by
  intro pos k hk
  have := h pos k hk
  unfold Map.getKeyId at this
  cases h1 : b.tryHash k with
  | none => simp [h1] at this
  | some p =>
    simp only [h1] at this
    cases h2 : b.keys[p]? with
    | none => simp [h2] at this
    | some hk2 =>
      simp only [h2] at this
      by_cases he : k = hk2
      · simp [he] at this; rw [this]
      · simp [he] at this

/-- non-vacuity: a two-node graph, a hash function that swaps the slots and answers slot 0 for every absent k-mer -/
example :
    let g : G Unit := ⟨2, [⟨[0, 1, 2], ⟨0⟩, ()⟩, ⟨[3, 3], ⟨0⟩, ()⟩], false⟩
    let b : Map := ⟨fun k => if k = [0, 1] then some 1 else some 0, [[3, 3], [0, 1]], [1, 0]⟩
    b.Slotted ∧ layoutOK g .L b.keys b.vals = true ∧ b.get [0, 1] = some (some 0) ∧ b.get [2, 2] = some none := by
  refine ⟨?_, by decide, by decide, by decide⟩
  intro pos k hk
  match pos, hk with
  | 0, hk => simp at hk; subst hk; decide
  | 1, hk => simp at hk; subst hk; decide
  | n + 2, hk => simp at hk

end Boom
