import Dbg.Props.C19
import Dbg.Model.Boom
import Dbg.Lemmas.BoomCreate
/-! # C19 (continued) — exact lookups for every hash function a builder may produce

`Props/C19` shows that an index meeting the exact-lookup contract is unique.  Here the contract itself is derived for the
model of `BoomHashMap` (`Model/Boom`): whatever minimal perfect hash function the (serial or parallel) builder came up
with - it is a universally quantified parameter, arbitrary on k-mers that were never inserted - `get` answers exactly the
node whose terminal k-mer is the query and `None` otherwise, provided the slots hold the pairs (terminal k-mer of node i, i)
in the order that function dictates (`layoutOK`, `Slotted`).  Those two facts are what `create_map` establishes; they are
decidable, and the driver evaluates them on the layout of the real maps after every run (request field `layout=`), so the
part left to trust is `Mphf` itself: that its function is injective on the inserted keys with ranks below their number. -/
namespace Boom
open Compress (Seq Node)
open Walk (Dir)
open Graph

variable {D : Type}

theorem layout_sound (g : G D) (side : Dir) (keys : List Seq) (vals : List Nat) (h : layoutOK g side keys vals = true)
    (pos : Nat) (k : Seq) (v : Nat) (hk : keys[pos]? = some k) (hv : vals[pos]? = some v) :
    ∃ nd, g.nodes[v]? = some nd ∧ termKmer g.K nd.seq side = k := by
  simp only [layoutOK, Bool.and_eq_true, List.all_eq_true, List.mem_range] at h
  have hlt : pos < keys.length := by
    rcases Nat.lt_or_ge pos keys.length with h1 | h1
    · exact h1
    · rw [List.getElem?_eq_none h1] at hk; cases hk
  have := h.1.2 pos hlt
  rw [hk, hv] at this
  cases hn : g.nodes[v]? with
  | none => simp [hn] at this
  | some nd => simp only [hn, beq_iff_eq] at this; exact ⟨nd, rfl, this⟩

theorem layout_complete (g : G D) (side : Dir) (keys : List Seq) (vals : List Nat) (h : layoutOK g side keys vals = true)
    (i : Nat) (nd : Node D) (hn : g.nodes[i]? = some nd) :
    ∃ pos : Nat, keys[pos]? = some (termKmer g.K nd.seq side) ∧ vals[pos]? = some i := by
  simp only [layoutOK, Bool.and_eq_true, List.all_eq_true, List.mem_range] at h
  have hlt : i < g.nodes.length := by
    rcases Nat.lt_or_ge i g.nodes.length with h1 | h1
    · exact h1
    · rw [List.getElem?_eq_none h1] at hn; cases hn
  have := h.2 i hlt
  rw [hn] at this
  simp only [List.any_eq_true, List.mem_range, Bool.and_eq_true, beq_iff_eq] at this
  obtain ⟨pos, _, h1, h2⟩ := this
  exact ⟨pos, h1, h2⟩

/-- the index a pair of maps implements (`search_kmer`): left map for `Dir::Left`, right map for `Dir::Right`;
    a panic is mapped to `none` here and excluded separately by `get_no_panic` -/
def index (bl br : Map) (km : Seq) (side : Dir) : Option Nat :=
  match side with
  | .L => (bl.get km).join
  | .R => (br.get km).join

theorem get_no_panic (b : Map) (hr : b.InRange) (hl : b.keys.length = b.vals.length) (km : Seq) : (b.get km).isSome := by
  unfold Map.get
  cases h : b.tryHash km with
  | none => rfl
  | some pos =>
    have hp := hr km pos h
    have hk : b.keys[pos]? = some b.keys[pos] := List.getElem?_eq_getElem hp
    have hv : b.vals[pos]? = some (b.vals[pos]'(hl ▸ hp)) := List.getElem?_eq_getElem (hl ▸ hp)
    simp only [hk, hv]
    split <;> rfl

theorem get_exact (g : G D) (side : Dir) (b : Map) (hs : b.Slotted) (hl : layoutOK g side b.keys b.vals = true) :
    (∀ km i, (b.get km).join = some i → ∃ nd, g.nodes[i]? = some nd ∧ termKmer g.K nd.seq side = km) ∧
    (∀ km, (b.get km).join = none → ∀ nd ∈ g.nodes, termKmer g.K nd.seq side ≠ km) := by
  constructor
  · intro km i h
    unfold Map.get at h
    cases h1 : b.tryHash km with
    | none => simp [h1] at h
    | some pos =>
      simp only [h1] at h
      cases h2 : b.keys[pos]? with
      | none => simp [h2] at h
      | some hk =>
        simp only [h2] at h
        by_cases he : km = hk
        · subst he
          cases h3 : b.vals[pos]? with
          | none => simp [h3] at h
          | some v =>
            simp [h3] at h
            subst h
            exact layout_sound g side b.keys b.vals hl pos km v h2 h3
        · simp [he] at h
  · intro km h nd hm he
    obtain ⟨i, hi⟩ := List.getElem?_of_mem hm
    obtain ⟨pos, p1, p2⟩ := layout_complete g side b.keys b.vals hl i nd hi
    rw [he] at p1
    have := hs pos km p1
    unfold Map.get at h
    simp [this, p1, p2] at h

/-- **C19 (any hash function).** For every pair of maps whose slots hold the node ends in the order their own hash
    functions dictate - whichever functions those are - `search_kmer` meets the exact-lookup contract. -/
theorem C19_boom_exact (g : G D) (bl br : Map) (hsl : bl.Slotted) (hsr : br.Slotted)
    (hl : layoutOK g .L bl.keys bl.vals = true) (hr : layoutOK g .R br.keys br.vals = true) :
    ExactIndex g (index bl br) := by
  have L := get_exact g .L bl hsl hl
  have R := get_exact g .R br hsr hr
  constructor
  · intro km side i h
    cases side with
    | L => exact L.1 km i h
    | R => exact R.1 km i h
  · intro km side h
    cases side with
    | L => exact L.2 km h
    | R => exact R.2 km h

/-- **C19 (schedule independence, at the level of this crate).** Two finished graphs over the same nodes - one from
    `finish_serial`, one from `finish` under any thread count and schedule, each with its own hash functions and its own
    slot order - answer every link query identically, and identically to the model's list lookup. -/
theorem C19_builders_agree (g : G D) (hd : TermDistinct g) (bl₁ br₁ bl₂ br₂ : Map)
    (h₁ : bl₁.Slotted ∧ br₁.Slotted ∧ layoutOK g .L bl₁.keys bl₁.vals = true ∧ layoutOK g .R br₁.keys br₁.vals = true)
    (h₂ : bl₂.Slotted ∧ br₂.Slotted ∧ layoutOK g .L bl₂.keys bl₂.vals = true ∧ layoutOK g .R br₂.keys br₂.vals = true)
    (kmer : Seq) (dir : Dir) :
    findLinkWith g (index bl₁ br₁) kmer dir = findLinkWith g (index bl₂ br₂) kmer dir ∧
    findLinkWith g (index bl₁ br₁) kmer dir = findLink g kmer dir := by
  have e1 := C19_boom_exact g bl₁ br₁ h₁.1 h₁.2.1 h₁.2.2.1 h₁.2.2.2
  have e2 := C19_boom_exact g bl₂ br₂ h₂.1 h₂.2.1 h₂.2.2.1 h₂.2.2.2
  refine ⟨C19_queries_determined g hd _ _ e1 e2 kmer dir, ?_⟩
  rw [findLink_eq_with]
  exact C19_queries_determined g hd _ _ e1 (searchKmer_exact g) kmer dir

/-- the executable slot test is sound for the slots it saw: where `get_key_id` answered `pos` for `keys[pos]`, the hash
    function maps that key to that slot -/
theorem slots_of_keyIds (b : Map) (h : ∀ pos k, b.keys[pos]? = some k → b.getKeyId k = some (some pos)) :
    b.Slotted := by
  intro pos k hk
  have := h pos k hk
  unfold Map.getKeyId at this
  cases h1 : b.tryHash k with
  | none => simp [h1] at this
  | some p =>
    simp only [h1] at this
    cases h2 : b.keys[p]? with
    | none => simp [h2] at this
    | some hk2 =>
      simp only [h2] at this
      by_cases he : k = hk2
      · simp [he] at this; rw [this]
      · simp [he] at this

/-- non-vacuity: a two-node graph, a hash function that swaps the slots and answers slot 0 for every absent k-mer -/
example :
    let g : G Unit := ⟨2, [⟨[0, 1, 2], ⟨0⟩, ()⟩, ⟨[3, 3], ⟨0⟩, ()⟩], false⟩
    let b : Map := ⟨fun k => if k = [0, 1] then some 1 else some 0, [[3, 3], [0, 1]], [1, 0]⟩
    b.Slotted ∧ layoutOK g .L b.keys b.vals = true ∧ b.get [0, 1] = some (some 0) ∧ b.get [2, 2] = some none := by
  refine ⟨?_, by decide, by decide, by decide⟩
  intro pos k hk
  match pos, hk with
  | 0, hk => simp at hk; subst hk; decide
  | 1, hk => simp at hk; subst hk; decide
  | n + 2, hk => simp at hk

/-! ### `create_map` included: from a minimal perfect hash to exact lookups -/

theorem range_getElem?_eq_some (n i v : Nat) : (List.range n)[i]? = some v ↔ i < n ∧ v = i := by
  by_cases h : i < n
  · rw [List.getElem?_range h]; constructor
    · intro e; exact ⟨h, (Option.some.inj e).symm⟩
    · rintro ⟨_, rfl⟩; rfl
  · rw [List.getElem?_eq_none (by simpa using h)]; constructor
    · intro e; cases e
    · rintro ⟨h', _⟩; exact absurd h' h

theorem layoutOK_of_perm (g : G D) (side : Dir) (keys : List Seq) (vals : List Nat) (hlen : keys.length = vals.length)
    (hp : (keys.zip vals).Perm ((endKeys g side).zip (List.range g.nodes.length))) :
    layoutOK g side keys vals = true := by
  have hz : ∀ (k : Seq) (v : Nat), (k, v) ∈ (endKeys g side).zip (List.range g.nodes.length) ↔
      ∃ nd, g.nodes[v]? = some nd ∧ termKmer g.K nd.seq side = k := by
    intro k v
    constructor
    · intro h
      obtain ⟨i, hi⟩ := List.getElem?_of_mem h
      have := List.getElem?_zip_eq_some.mp hi
      simp only [endKeys, List.getElem?_map, Option.map_eq_some_iff, range_getElem?_eq_some] at this
      obtain ⟨⟨nd, h1, h2⟩, _, h4⟩ := this
      subst h4
      exact ⟨nd, h1, h2⟩
    · rintro ⟨nd, h1, h2⟩
      have hv : v < g.nodes.length := by
        rcases Nat.lt_or_ge v g.nodes.length with h | h
        · exact h
        · rw [List.getElem?_eq_none h] at h1; cases h1
      apply List.mem_of_getElem? (i := v)
      rw [List.getElem?_zip_eq_some]
      simp only [endKeys, List.getElem?_map, h1, Option.map_some, h2, range_getElem?_eq_some]
      exact ⟨trivial, hv, trivial⟩
  simp only [layoutOK, Bool.and_eq_true, List.all_eq_true, List.mem_range, beq_iff_eq]
  refine ⟨⟨hlen, ?_⟩, ?_⟩
  · intro pos hpos
    have hk : keys[pos]? = some keys[pos] := List.getElem?_eq_getElem hpos
    have hv : vals[pos]? = some (vals[pos]'(hlen ▸ hpos)) := List.getElem?_eq_getElem (hlen ▸ hpos)
    rw [hk, hv]
    have hm : (keys[pos], vals[pos]'(hlen ▸ hpos)) ∈ keys.zip vals :=
      List.mem_of_getElem? (i := pos) (List.getElem?_zip_eq_some.mpr ⟨hk, hv⟩)
    obtain ⟨nd, h1, h2⟩ := (hz _ _).mp (hp.mem_iff.mp hm)
    simp only [h1, h2, beq_self_eq_true]
  · intro i hi
    have hn : g.nodes[i]? = some g.nodes[i] := List.getElem?_eq_getElem hi
    rw [hn]
    have hm := hp.mem_iff.mpr ((hz (termKmer g.K g.nodes[i].seq side) i).mpr ⟨_, hn, rfl⟩)
    obtain ⟨pos, hpos⟩ := List.getElem?_of_mem hm
    have h12 := List.getElem?_zip_eq_some.mp hpos
    have hlt : pos < keys.length := by
      rcases Nat.lt_or_ge pos keys.length with h | h
      · exact h
      · rw [List.getElem?_eq_none h] at h12; cases h12.1
    simp only [List.any_eq_true, List.mem_range, Bool.and_eq_true, beq_iff_eq]
    exact ⟨pos, hlt, h12.1, h12.2⟩

/-- **C19 (`finish` / `finish_serial`, end to end above `Mphf`).** For every graph and every pair of functions that are
    minimal perfect hashes on the nodes' first / last k-mers - whatever they answer for other k-mers, whichever builder,
    thread count and schedule produced them - `create_map` returns (its loops terminate, nothing panics), and the maps it
    builds answer `search_kmer` exactly: the node whose terminal k-mer is the query, `None` when there is none. -/
theorem C19_finish_exact (g : G D) (thl thr : Seq → Option Nat)
    (hl : MPH thl (endKeys g .L)) (hr : MPH thr (endKeys g .R)) :
    ∃ bl br, Map.create thl (endKeys g .L) (List.range g.nodes.length) = some bl ∧
             Map.create thr (endKeys g .R) (List.range g.nodes.length) = some br ∧
             ExactIndex g (index bl br) := by
  obtain ⟨bl, a1, _, a3, a4, a5⟩ := create_spec thl (endKeys g .L) (List.range g.nodes.length) (by simp [endKeys]) hl
  obtain ⟨br, b1, _, b3, b4, b5⟩ := create_spec thr (endKeys g .R) (List.range g.nodes.length) (by simp [endKeys]) hr
  exact ⟨bl, br, a1, b1, C19_boom_exact g bl br a3 b3 (layoutOK_of_perm g .L _ _ a5 a4) (layoutOK_of_perm g .R _ _ b5 b4)⟩

/-- a minimal perfect hash exists only on distinct keys, so `TermDistinct` is implied and the index is *the* lookup -/
theorem C19_finish_eq_search (g : G D) (thl thr : Seq → Option Nat)
    (hl : MPH thl (endKeys g .L)) (hr : MPH thr (endKeys g .R)) :
    ∃ bl br, Map.create thl (endKeys g .L) (List.range g.nodes.length) = some bl ∧
             Map.create thr (endKeys g .R) (List.range g.nodes.length) = some br ∧
             ∀ km side, index bl br km side = searchKmer g km side := by
  obtain ⟨bl, br, h1, h2, h3⟩ := C19_finish_exact g thl thr hl hr
  refine ⟨bl, br, h1, h2, C19_index_unique g ?_ _ h3⟩
  intro side i j ni nj hi hj he
  have key : ∀ (th : Seq → Option Nat), MPH th (endKeys g side) → i = j := by
    intro th hm
    have hp := List.pairwise_iff_getElem.mp hm.2
    have hil : i < g.nodes.length := by
      rcases Nat.lt_or_ge i g.nodes.length with h | h
      · exact h
      · rw [List.getElem?_eq_none h] at hi; cases hi
    have hjl : j < g.nodes.length := by
      rcases Nat.lt_or_ge j g.nodes.length with h | h
      · exact h
      · rw [List.getElem?_eq_none h] at hj; cases hj
    have ei : g.nodes[i] = ni := by rw [List.getElem?_eq_getElem hil] at hi; exact Option.some.inj hi
    have ej : g.nodes[j] = nj := by rw [List.getElem?_eq_getElem hjl] at hj; exact Option.some.inj hj
    rcases Nat.lt_trichotomy i j with h | h | h
    · have := hp i j (by simpa [endKeys] using hil) (by simpa [endKeys] using hjl) h
      simp only [endKeys, List.getElem_map, ei, ej, he] at this
      exact absurd rfl this
    · exact h
    · have := hp j i (by simpa [endKeys] using hjl) (by simpa [endKeys] using hil) h
      simp only [endKeys, List.getElem_map, ei, ej, he] at this
      exact absurd rfl this
  cases side with
  | L => exact key thl hl
  | R => exact key thr hr

/-- **C19 (no panic).** `index` maps the index panic of `self.keys[pos]` to "absent"; this theorem closes that gap: when the
    hash function's ranks stay below the number of nodes for *every* k-mer (what `Mphf::try_hash` returns is the rank of a set
    bit among the keys' bits), no lookup in the maps `finish` builds panics - so `C19_finish_eq_search` speaks about the
    answers the real `get` gives, for present and absent k-mers. -/
theorem C19_finish_no_panic (g : G D) (thl thr : Seq → Option Nat)
    (hl : MPH thl (endKeys g .L)) (hr : MPH thr (endKeys g .R))
    (rl : ∀ k pos, thl k = some pos → pos < g.nodes.length) (rr : ∀ k pos, thr k = some pos → pos < g.nodes.length) :
    ∃ bl br, Map.create thl (endKeys g .L) (List.range g.nodes.length) = some bl ∧
             Map.create thr (endKeys g .R) (List.range g.nodes.length) = some br ∧
             ∀ km, (bl.get km).isSome ∧ (br.get km).isSome := by
  obtain ⟨bl, a1, a2, _, a4, a5⟩ := create_spec thl (endKeys g .L) (List.range g.nodes.length) (by simp [endKeys]) hl
  obtain ⟨br, b1, b2, _, b4, b5⟩ := create_spec thr (endKeys g .R) (List.range g.nodes.length) (by simp [endKeys]) hr
  have len : ∀ (b : Map) (side : Dir), (b.keys.zip b.vals).Perm ((endKeys g side).zip (List.range g.nodes.length)) →
      b.keys.length = b.vals.length → b.keys.length = g.nodes.length := by
    intro b side hp he
    have := hp.length_eq
    simp only [List.length_zip, endKeys, List.length_map, List.length_range] at this
    omega
  refine ⟨bl, br, a1, b1, fun km => ⟨?_, ?_⟩⟩
  · apply get_no_panic bl _ a5
    intro k pos h
    rw [a2] at h
    rw [len bl .L a4 a5]; exact rl k pos h
  · apply get_no_panic br _ b5
    intro k pos h
    rw [b2] at h
    rw [len br .R b4 b5]; exact rr k pos h

/-- non-vacuity of `C19_finish_exact`: three nodes, a hash that sends their first k-mers to slots 2, 0, 1 and every
    other k-mer to slot 1; `create_map` runs to completion and puts the pairs where the hash says -/
example :
    let g : G Unit := ⟨2, [⟨[0, 1, 2], ⟨0⟩, ()⟩, ⟨[3, 3], ⟨0⟩, ()⟩, ⟨[2, 0, 0], ⟨0⟩, ()⟩], false⟩
    let th : Seq → Option Nat := fun k => if k = [0, 1] then some 2 else if k = [3, 3] then some 0 else some 1
    (Map.create th (endKeys g .L) (List.range 3)).map (fun b => (b.keys, b.vals)) = some ([[3, 3], [2, 0], [0, 1]], [1, 2, 0]) := by
  decide

end Boom
