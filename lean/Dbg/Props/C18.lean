import Dbg.Model.Export
import Dbg.Spec.C01
import Dbg.Props.C01
/-! # C18 — Node k-mer iteration obeys the iterator contract

`NIter` (Model/Export.lean) is the model of `NodeKmerIter` after the repair of D3.  It is proved to be simulated by
a cursor into the list of the node's k-mers, for every node and every finite sequence of `next()` / `nth(n)`
calls (any `n`, on both sides of the short-skip threshold and of the remaining count). -/
namespace Export
open Compress (Seq Base extendRight windowsOf)

/-- the `i`-th k-mer of a node sequence -/
def win (K : Nat) (s : Seq) (i : Nat) : Seq := (s.drop i).take K

theorem windowsOf_length (K : Nat) (s : Seq) (h : K ≤ s.length) : (windowsOf K s).length = s.length + 1 - K := by
  unfold windowsOf; simp [show ¬ s.length < K by omega]; omega

theorem windowsOf_get (K : Nat) (s : Seq) (i : Nat) (h : K ≤ s.length) (hi : i < s.length + 1 - K) :
    (windowsOf K s)[i]? = some (win K s i) := by
  unfold windowsOf win
  simp only [show ¬ s.length < K by omega, if_false]
  rw [List.getElem?_map, List.getElem?_range (by omega)]; rfl

theorem windowsOf_get_none (K : Nat) (s : Seq) (i : Nat) (h : K ≤ s.length) (hi : s.length + 1 - K ≤ i) :
    (windowsOf K s)[i]? = none := by
  apply List.getElem?_eq_none; rw [windowsOf_length K s h]; exact hi

/-- sliding the window by one base is `extend_right` -/
theorem win_succ (K : Nat) (s : Seq) (i : Nat) (hK : 1 ≤ K) (h : i + K < s.length) (b : Base) (hb : s[i + K]? = some b) :
    extendRight (win K s i) b = win K s (i + 1) := by
  unfold extendRight win
  apply List.ext_getElem
  · simp; omega
  · intro j h1 h2
    simp only [List.length_take, List.length_drop] at h2
    by_cases hj : j < K - 1
    · rw [List.getElem_append_left (by simp; omega)]
      simp only [List.getElem_tail, List.getElem_take, List.getElem_drop]
      congr 1; omega
    · have hj' : j = K - 1 := by simp at h1; omega
      subst hj'
      rw [List.getElem_append_right (by simp; omega)]
      simp only [List.getElem_take, List.getElem_drop]
      have : s[i + K]? = some s[i + 1 + (K - 1)] := by
        rw [List.getElem?_eq_getElem (by omega)]; congr 2; omega
      rw [hb] at this
      simp at this ⊢
      exact this

/-- simulation invariant between the iterator state and a cursor `i` -/
structure Sim (K : Nat) (s : Seq) (it : NIter) (i : Nat) : Prop where
  hK : it.K = K
  hs : it.seq = s
  hn : it.numKmers = s.length + 1 - K
  hi : it.kmerId = i
  hle : i ≤ s.length + 1 - K
  hk : i < s.length + 1 - K → it.kmer = win K s i

theorem start_sim (K : Nat) (s : Seq) (h : K ≤ s.length) :
    ∃ it, NIter.start K s = some it ∧ Sim K s it 0 := by
  unfold NIter.start
  simp only [show ¬ s.length + 1 < K by omega, if_false]
  refine ⟨_, rfl, rfl, rfl, rfl, rfl, by omega, ?_⟩
  intro h0; simp [h0, win]

/-- `next()` answers `L[i]?` and advances the cursor by one (capped) -/
theorem next_sim (K : Nat) (s : Seq) (hK : 1 ≤ K) (h : K ≤ s.length) (it : NIter) (i : Nat) (hs : Sim K s it i) :
    (it.next).2 = (windowsOf K s)[i]? ∧ Sim K s (it.next).1 (min (i + 1) (s.length + 1 - K)) := by
  obtain ⟨sK, ss, sn, si, sle, sk⟩ := hs
  unfold NIter.next
  by_cases he : it.numKmers = it.kmerId
  · have : i = s.length + 1 - K := by omega
    simp only [he, if_true]
    refine ⟨(windowsOf_get_none K s i h (by omega)).symm, sK, ss, sn, by omega, by omega, fun hh => absurd hh (by omega)⟩
  · have hlt : i < s.length + 1 - K := by omega
    simp only [he, if_false]
    refine ⟨by rw [windowsOf_get K s i h hlt, sk hlt], sK, ss, sn, by simp only [si]; omega, by omega, ?_⟩
    intro h2
    have h3 : i + 1 < s.length + 1 - K := by omega
    have e1 : min (i + 1) (s.length + 1 - K) = i + 1 := by omega
    rw [e1]
    simp only [si, sn, h3, if_true, sK, ss]
    have hidx : i + 1 + K - 1 = i + K := by omega
    rw [hidx]
    have hb : i + K < s.length := by omega
    rw [List.getElem?_eq_getElem hb]
    simp only
    rw [sk hlt]
    exact win_succ K s i hK hb _ (List.getElem?_eq_getElem hb)

/-- `j` single steps move the cursor by `j` (capped) -/
theorem steps_sim (K : Nat) (s : Seq) (hK : 1 ≤ K) (h : K ≤ s.length) :
    ∀ (j : Nat) (it : NIter) (i : Nat), Sim K s it i →
      Sim K s ((List.range j).foldl (fun (x : NIter) _ => x.next.1) it) (min (i + j) (s.length + 1 - K)) := by
  intro j
  induction j with
  | zero => intro it i hs; have := hs.hle; simpa [show min i (s.length + 1 - K) = i by omega] using hs
  | succ j ih =>
    intro it i hs
    rw [List.range_succ, List.foldl_append]
    simp only [List.foldl_cons, List.foldl_nil]
    have h1 := ih it i hs
    have h2 := (next_sim K s hK h _ _ h1).2
    have e : min (min (i + j) (s.length + 1 - K) + 1) (s.length + 1 - K) = min (i + (j + 1)) (s.length + 1 - K) := by omega
    rw [e] at h2; exact h2

/-- `nth(n)` answers `L[i+n]?` and moves the cursor to `i+n+1` (capped), whichever branch is taken -/
theorem nth_sim (K : Nat) (s : Seq) (hK : 1 ≤ K) (h : K ≤ s.length) (it : NIter) (i n : Nat) (hs : Sim K s it i) :
    (it.nth n).2 = (windowsOf K s)[i + n]? ∧ Sim K s (it.nth n).1 (min (i + n + 1) (s.length + 1 - K)) := by
  unfold NIter.nth
  by_cases hshort : n ≤ Gen.nodeIterSkipThreshold
  · simp only [hshort, if_true]
    have h1 := steps_sim K s hK h n it i hs
    obtain ⟨a, b⟩ := next_sim K s hK h _ _ h1
    refine ⟨?_, ?_⟩
    · rw [a]
      by_cases hc : i + n < s.length + 1 - K
      · rw [show min (i + n) (s.length + 1 - K) = i + n by omega]
      · rw [windowsOf_get_none K s _ h (by omega), windowsOf_get_none K s _ h (by omega)]
    · have e : min (min (i + n) (s.length + 1 - K) + 1) (s.length + 1 - K) = min (i + n + 1) (s.length + 1 - K) := by omega
      rw [e] at b; exact b
  · simp only [hshort, if_false]
    obtain ⟨sK, ss, sn, si, sle, sk⟩ := hs
    by_cases hpast : n ≥ it.numKmers - it.kmerId
    · simp only [hpast, if_true]
      refine ⟨(windowsOf_get_none K s _ h (by omega)).symm, sK, ss, sn, by simp only [sn]; omega, by omega, fun hh => absurd hh (by omega)⟩
    · simp only [hpast, if_false]
      have hlt : i + n < s.length + 1 - K := by omega
      have hs' : Sim K s { it with kmerId := it.kmerId + n, kmer := (it.seq.drop (it.kmerId + n)).take it.K } (i + n) :=
        ⟨sK, ss, sn, by simp only [si], by omega, fun _ => by simp only [ss, sK, si, win]⟩
      exact next_sim K s hK h _ _ hs'

inductive Call | next | nth (n : Nat)

def runCall (it : NIter) : Call → NIter × Option Seq
  | .next => it.next
  | .nth n => it.nth n

/-- the specification: a cursor into the list `L` of the node's k-mers -/
def specCall (L : List Seq) (i : Nat) : Call → Nat × Option Seq
  | .next => (min (i + 1) L.length, L[i]?)
  | .nth n => (min (i + n + 1) L.length, L[i + n]?)

def answers (it : NIter) : List Call → List (Option Seq)
  | [] => []
  | c :: cs => (runCall it c).2 :: answers (runCall it c).1 cs

def specAnswers (L : List Seq) (i : Nat) : List Call → List (Option Seq)
  | [] => []
  | c :: cs => (specCall L i c).2 :: specAnswers L (specCall L i c).1 cs

theorem answers_sim (K : Nat) (s : Seq) (hK : 1 ≤ K) (h : K ≤ s.length) (calls : List Call) :
    ∀ (it : NIter) (i : Nat), Sim K s it i → answers it calls = specAnswers (windowsOf K s) i calls := by
  induction calls with
  | nil => intros; rfl
  | cons c cs ih =>
    intro it i hs
    have hl := windowsOf_length K s h
    cases c with
    | next =>
      obtain ⟨a, b⟩ := next_sim K s hK h it i hs
      simp only [answers, specAnswers, runCall, specCall, a, hl]
      rw [ih _ _ b]
    | nth n =>
      obtain ⟨a, b⟩ := nth_sim K s hK h it i n hs
      simp only [answers, specAnswers, runCall, specCall, a, hl]
      rw [ih _ _ b]

/-- **C18 (contract).** For every node (length ≥ K ≥ 1) and every finite sequence of `next()` / `nth(n)` calls the
    iterator answers exactly like a cursor into the list of the node's `n-K+1` k-mers: the k-mers in order, and
    end-of-iteration — never another node's k-mer, a panic or an endless stream — once a step or skip reaches past
    the last one. -/
theorem C18_refines (K : Nat) (s : Seq) (hK : 1 ≤ K) (h : K ≤ s.length) (calls : List Call) :
    ∃ it, NIter.start K s = some it ∧ answers it calls = specAnswers (windowsOf K s) 0 calls := by
  obtain ⟨it, e, hs⟩ := start_sim K s h
  exact ⟨it, e, answers_sim K s hK h calls it 0 hs⟩

/-- **C18 (count up front).** A fresh iterator reports exactly the number of k-mers of the node. -/
theorem C18_len_upfront (K : Nat) (s : Seq) (h : K ≤ s.length) :
    ∃ it, NIter.start K s = some it ∧ it.sizeHint = ((windowsOf K s).length, some (windowsOf K s).length) := by
  obtain ⟨it, e, hs⟩ := start_sim K s h
  exact ⟨it, e, by simp [NIter.sizeHint, hs.hn, windowsOf_length K s h]⟩

/-- once the end is reached every further call answers end-of-iteration -/
theorem C18_end_is_sticky (L : List Seq) (i : Nat) (hi : L.length ≤ i) (calls : List Call) :
    ∀ o ∈ specAnswers L i calls, o = none := by
  induction calls generalizing i with
  | nil => intro o ho; simp [specAnswers] at ho
  | cons c cs ih =>
    intro o ho
    simp only [specAnswers, List.mem_cons] at ho
    rcases ho with rfl | ho
    · cases c <;> simp [specCall] <;> omega
    · apply ih _ _ o ho
      cases c <;> simp [specCall] <;> omega

theorem flatMap_congr_mem {α β} (l : List α) (f g : α → List β) (h : ∀ a ∈ l, f a = g a) : l.flatMap f = l.flatMap g := by
  induction l with
  | nil => rfl
  | cons a t ih => rw [List.flatMap_cons, List.flatMap_cons, h a (by simp), ih (fun x hx => h x (by simp [hx]))]

theorem specAnswers_drain (L : List Seq) (i m : Nat) (hi : i ≤ L.length) (hm : i + m = L.length + 1) :
    specAnswers L i (List.replicate m .next) = (L.drop i).map some ++ [none] := by
  induction m generalizing i with
  | zero => omega
  | succ m ih =>
    simp only [List.replicate_succ, specAnswers, specCall]
    by_cases hlt : i < L.length
    · rw [show min (i + 1) L.length = i + 1 by omega, ih (i + 1) (by omega) (by omega), List.getElem?_eq_getElem hlt]
      rw [List.drop_eq_getElem_cons hlt]; simp only [List.map_cons, List.cons_append]
    · have hi' : i = L.length := by omega
      have hm0 : m = 0 := by omega
      subst hm0
      rw [List.getElem?_eq_none (by omega), List.drop_eq_nil_of_le (by omega)]
      simp [specAnswers]

/-- the k-mers a node yields when its iterator is drained (one call past the reported count) -/
def drained (K : Nat) (s : Seq) : List (Option Seq) :=
  match NIter.start K s with
  | some it => answers it (List.replicate (it.numKmers + 1) .next)
  | none => []

/-- draining yields the node's k-mers in order, then end-of-iteration -/
theorem C18_drain (K : Nat) (s : Seq) (hK : 1 ≤ K) (h : K ≤ s.length) :
    drained K s = (windowsOf K s).map some ++ [none] := by
  obtain ⟨it, e, hs⟩ := start_sim K s h
  unfold drained
  rw [e]
  simp only
  rw [answers_sim K s hK h _ it 0 hs, hs.hn, ← windowsOf_length K s h]
  exact specAnswers_drain (windowsOf K s) 0 _ (by omega) (by omega)

/-- **C18 (all nodes).** Draining the iterator of every node of a compressed graph visits every k-mer of the table
    exactly once (canonically): the visited k-mers are a permutation of the table's keys, so they are pairwise distinct
    (each occupies its own perfect-hash slot). -/
theorem C18_all_nodes {D : Type} {T : Compress.Table D} {K : Nat} {st : Bool} {join : D → D → Bool} (reduce : D → D → D)
    (wf : Compress.WF T K st) (hes : Compress.ExtSym T st) (hj : ∀ a b, join a b = join b a) :
    ∃ out, Compress.compressKmersC T st join reduce = some out ∧
      (out.flatMap fun x => ((drained K x.1.seq).filterMap id).map (fun w => (Compress.canonOf st w).1)).Perm (T.map (·.key)) ∧
      (out.flatMap fun x => ((drained K x.1.seq).filterMap id).map (fun w => (Compress.canonOf st w).1)).Nodup := by
  obtain ⟨out, h1, h2, h3⟩ := Compress.C01_partition (join := join) reduce wf hes hj
  have hd : ∀ x ∈ out, (drained K x.1.seq).filterMap id = windowsOf K x.1.seq := by
    intro x hx
    rw [C18_drain K x.1.seq wf.kpos (h3 x hx), List.filterMap_append]
    simp [List.filterMap_map, Function.comp_def]
  have heq : (out.flatMap fun x => ((drained K x.1.seq).filterMap id).map (fun w => (Compress.canonOf st w).1)) =
      (out.flatMap fun x => (windowsOf K x.1.seq).map (fun w => (Compress.canonOf st w).1)) := by
    apply flatMap_congr_mem
    intro x hx; rw [hd x hx]
  have hnd : (T.map (·.key)).Nodup := by
    rw [List.Nodup, List.pairwise_iff_getElem]
    intro i j hi hj hij
    simp only [List.getElem_map]
    intro hk
    simp only [List.length_map] at hi hj
    have := wf.distinct i j T[i] T[j] (List.getElem?_eq_getElem hi) (List.getElem?_eq_getElem hj) hk
    omega
  refine ⟨out, h1, ?_, ?_⟩
  · rw [heq]; exact h2
  · rw [heq]; exact h2.nodup_iff.mpr hnd

example : ∃ it, NIter.start 3 [0,1,2,3,0] = some it ∧
    answers it [.nth 6, .next, .next] = [none, none, none] := ⟨_, rfl, by decide⟩

end Export
