import Dbg.Lemmas.Assemble
import Dbg.Lemmas.FilterSym
import Dbg.Lemmas.NodeExts
import Dbg.Lemmas.NoExts
/-! # C01 — Compressed graph is a lossless partition of the input k-mer set

Theorems about the model `Compress.compressKmersC` of `compress_kmers_with_hash` (the table is listed in the hash map's
index order; the from-slice and no-exts entry points are wrappers that build such a table), for **every**
well-formed table with reciprocal extensions (`WF`, `ExtSym` — what `filter_kmers` delivers) and a symmetric join
predicate, with no bound on the number of k-mers, K ≥ 1, stranded and unstranded:

* `C01_partition` — graph construction never panics; every node has at least K bases; the canonical k-mers of all node
  sequences are a permutation of the table's keys (each input k-mer in exactly one node at exactly one offset, nothing
  foreign);
* `C01_node_assembly` — the k-mers of a node's sequence are exactly the oriented keys of the ids on its left path
  (reversed), its seed and its right path, consecutive ones overlapping by K-1 (each is the previous one extended by one
  base), and its payload is the caller's reduction folded over the payloads of exactly those k-mers, left path first;
* `C01_ids_partition`, `C01_walk_no_panic` — the id-level facts the above rest on.

Not yet proved: the recorded-steps clause in its bit-level form (`stepsOK`), evaluated on the crate's nodes. -/
namespace Compress
open Walk (Dir)
variable {D : Type}

/-- **C01 (lossless partition).** -/
theorem C01_partition {T : Table D} {K : Nat} {st : Bool} {join : D → D → Bool} (reduce : D → D → D)
    (wf : WF T K st) (hes : ExtSym T st) (hj : ∀ a b, join a b = join b a) :
    ∃ out, compressKmersC T st join reduce = some out ∧
      (out.flatMap fun x => (windowsOf K x.1.seq).map (fun w => (canonOf st w).1)).Perm (T.map (·.key)) ∧
      ∀ x ∈ out, K ≤ x.1.seq.length :=
  compressKmersC_partition reduce wf hes hj

/-- **C01 (node assembly and payload).** -/
theorem C01_node_assembly {T : Table D} {K : Nat} {st : Bool} {join : D → D → Bool} (reduce : D → D → D)
    (wf : WF T K st) (hes : ExtSym T st) (avail : List Nat) (seed : Nat) (es : Entry D) (hseed : T[seed]? = some es) :
    ∃ nd, buildNodeC T st join reduce avail seed =
        some (nd, (Walk.build (linkOf T st join) avail seed).1, (Walk.build (linkOf T st join) avail seed).2) ∧
      windowsOf K nd.seq = ((leftW T st join avail seed).1.map (oL T)).reverse ++ [es.key] ++ (rightW T st join avail seed).1.map (oR T) ∧
      nd.data = ((leftW T st join avail seed).1 ++ (rightW T st join avail seed).1).foldl
        (fun a p => match T[p.1]? with | some e => reduce a e.data | none => a) es.data ∧
      ChainL es.key ((leftW T st join avail seed).1.map (oL T)) ∧ ChainR es.key ((rightW T st join avail seed).1.map (oR T)) := by
  obtain ⟨nd, h1, h2, h3⟩ := buildNodeC_spec (join := join) reduce wf hes avail seed es hseed
  exact ⟨nd, h1, h2, h3, (walk_chainL T st join (Walk.rm avail seed) seed .L es hseed).1,
    walk_chainR T st join (leftW T st join avail seed).2 seed .R es hseed⟩

/-- C01 (ids): the id-nodes form a partition of the table -/
theorem C01_ids_partition {T : Table D} {K : Nat} {st : Bool} {join : D → D → Bool}
    (wf : WF T K st) (hes : ExtSym T st) (hj : ∀ a b, join a b = join b a) :
    let ns := Walk.compress (linkOf T st join) (List.range T.length) (List.range T.length)
    ns.flatten.Nodup ∧ (∀ z, z ∈ ns.flatten ↔ z < T.length) :=
  let h := compress_components_concrete wf hes hj
  ⟨h.1, h.2.1⟩

/-- C01: on reciprocal tables the code-shaped walk never reaches the "unreachable" panic and computes the abstract walk -/
theorem C01_walk_no_panic {T : Table D} {K : Nat} {st : Bool} {join : D → D → Bool}
    (wf : WF T K st) (hes : ExtSym T st) (hj : ∀ a b, join a b = join b a) (avail : List Nat) (x : Nat) (d : Dir) :
    ∃ e, walkC T st join avail x d =
      some ((Walk.walk (linkOf T st join) avail x d).1, e, (Walk.walk (linkOf T st join) avail x d).2) :=
  (compress_components_concrete wf hes hj).2.2.2 avail x d

/-- the model's id lists are those of the abstract loop, and a node's canonical k-mers are the keys of its ids -/
theorem C01_nodes_are_id_paths {T : Table D} {K : Nat} {st : Bool} {join : D → D → Bool} (reduce : D → D → D)
    (wf : WF T K st) (hes : ExtSym T st) :
    ∃ out, compressKmersC T st join reduce = some out ∧
      out.map (·.2) = Walk.compress (linkOf T st join) (List.range T.length) (List.range T.length) ∧
      ∀ x ∈ out, (windowsOf K x.1.seq).map (fun w => (canonOf st w).1) = x.2.map (keyOf T) := by
  obtain ⟨out, h1, h2, h3⟩ := compressLoopC_spec (join := join) reduce wf hes (List.range T.length) (List.range T.length)
    (fun i hi => List.mem_range.mp hi)
  exact ⟨out, h1, h2, fun x hx => (h3 x hx).1⟩

/-- **C01 (recorded steps).** Every step between consecutive k-mers of a node — along the left path and along the
    right path of `build_node` — is a good link: the k-mer being left records exactly one extension on that side
    (the base of the step), the k-mer being entered records exactly one extension on the facing side, neither is a
    palindrome (unstranded), and `join` accepted the pair. -/
theorem C01_steps_recorded (T : Table D) (st : Bool) (join : D → D → Bool) (avail : List Nat) (seed : Nat) :
    LinkedFrom (linkOf T st join) seed .L (leftW T st join avail seed).1 ∧
    LinkedFrom (linkOf T st join) seed .R (rightW T st join avail seed).1 ∧
    ∀ x d y d', linkOf T st join x d = some (y, d') → ∃ ex ey b, LinkFacts T st join x d y d' ex ey b :=
  ⟨walk_linked _ _ _ _, walk_linked _ _ _ _, fun _ _ _ _ h => linkOf_inv T st join h⟩

/-- **C01 (from reads).** For every read set (empty boundary extensions), every K ≥ 4, both summarizers, every
    memory budget, stranded or not, and whatever order the hash map lists the table in: filtering, pruning and
    compressing never panics, and the canonical k-mers of the node sequences are a permutation of the k-mers the
    filter accepted — each in exactly one node at exactly one offset, nothing foreign. -/
theorem C01_from_reads (K : Nat) (hK : 4 ≤ K) (reads : List (Seq × Exts × Nat)) (hb : Filter.NoBoundary reads)
    (sm : Filter.Summarizer) (st ra : Bool) (mem bpu sz : Nat) (hm : 1 ≤ mem) (hbp : 1 ≤ bpu)
    (join : Filter.Payload → Filter.Payload → Bool) (hj : ∀ a b, join a b = join b a) (reduce : Filter.Payload → Filter.Payload → Filter.Payload)
    (T : List (Entry Filter.Payload)) :
    ∃ r, Filter.filterKmers K reads sm st ra mem bpu sz = some r ∧
      (T.Perm (Filter.removeCensoredExts st r.table) →
        ∃ out, compressKmersC T st join reduce = some out ∧
          (out.flatMap fun x => (windowsOf K x.1.seq).map (fun w => (canonOf st w).1)).Perm (r.table.map (·.key)) ∧
          ∀ x ∈ out, K ≤ x.1.seq.length) := by
  obtain ⟨r, e, ht, _⟩ := Filter.filterKmers_eq_ref K reads sm st ra mem bpu sz hK hm hbp
  refine ⟨r, e, fun hp => ?_⟩
  rw [ht] at hp ⊢
  obtain ⟨wf, hes⟩ := Filter.pipeline_table_ok K (by omega) reads hb sm st T hp
  obtain ⟨out, h1, h2, h3⟩ := compressKmersC_partition reduce wf hes hj
  refine ⟨out, h1, h2.trans ?_, h3⟩
  have : (Filter.removeCensoredExts st (Filter.refTable K reads sm st)).map (·.key) = (Filter.refTable K reads sm st).map (·.key) := by
    unfold Filter.removeCensoredExts; simp [List.map_map, Function.comp_def]
  rw [← this]
  exact hp.map _

/-- **C01 (`compress_kmers_no_exts`, stranded or not).** For every list of pairwise distinct k-mers of length K (canonical ones when
    unstranded) with payloads and every symmetric join, the entry point that discovers the extensions itself (by membership of
    the neighbour - of its canonical form when unstranded) never panics and partitions exactly the given k-mers into nodes — its
    table is well-formed and reciprocal by construction (`noExts_table_ok`), in whatever order the hash map lists it.
    (Before the repair of D9 the stranded case looked neighbours up by canonical form: non-reciprocal tables, `unreachable` panic.) -/
theorem C01_no_exts (st : Bool) (K : Nat) (hK : 1 ≤ K) (kd : List (Seq × D)) (hlen : ∀ p ∈ kd, p.1.length = K)
    (hnd : (kd.map (·.1)).Nodup) (hcan : st = false → ∀ p ∈ kd, ¬ rc p.1 < p.1) (join : D → D → Bool) (hj : ∀ a b, join a b = join b a)
    (reduce : D → D → D) (T : Table D) (hp : T.Perm (noExtsTable st kd)) :
    ∃ out, compressKmersC T st join reduce = some out ∧
      (out.flatMap fun x => (windowsOf K x.1.seq).map (fun w => (canonOf st w).1)).Perm (kd.map (·.1)) ∧
      ∀ x ∈ out, K ≤ x.1.seq.length := by
  obtain ⟨wf0, hes0⟩ := noExts_table_ok st K hK kd hlen hnd hcan
  have wf := Filter.wf_perm st _ T K hp wf0
  have hes := (Filter.extSym2_perm st _ T K hp wf0 hes0).toExtSym
  obtain ⟨out, h1, h2, h3⟩ := compressKmersC_partition reduce wf hes hj
  refine ⟨out, h1, h2.trans ?_, h3⟩
  rw [← noExts_keys st kd]
  exact hp.map _

/-- the hypotheses are satisfiable: a three-k-mer chain ACG → CGT (palindrome-free, stranded) -/
example : partitionOK 3 true ([⟨[0,1,2], ⟨0x80⟩, 1⟩, ⟨[1,2,3], ⟨0x01⟩, 1⟩] : Table Nat)
    [⟨[0,1,2,3], ⟨0⟩, 2⟩] = true := by decide

end Compress

namespace Compress
/-- D9, the witness: the two 4-mers of the read `CAATG`, stranded. Looking neighbours up by canonical form (what
    `compress_kmers_no_exts` did in both modes) records `G` to the right of `CAAT` but nothing to the left of `AATG` (first example; the walk then panics, as the
    crate did). Looked up as given, the two k-mers form the one node `CAATG`. -/
example : (discoverExts false [[0, 0, 3, 2], [1, 0, 0, 3]] [1, 0, 0, 3]).val = 0x40 ∧
    (discoverExts false [[0, 0, 3, 2], [1, 0, 0, 3]] [0, 0, 3, 2]).val = 0x00 := by decide
example : (discoverExts true [[0, 0, 3, 2], [1, 0, 0, 3]] [1, 0, 0, 3]).val = 0x40 ∧
    (discoverExts true [[0, 0, 3, 2], [1, 0, 0, 3]] [0, 0, 3, 2]).val = 0x02 := by decide
example : (compressKmersC (noExtsTable true [(([0, 0, 3, 2] : Seq), (1 : Nat)), ([1, 0, 0, 3], 1)]) true (fun _ _ => true) (· + ·)).map
    (fun out => out.map (·.1.seq)) = some [[1, 0, 0, 3, 2]] := by decide +kernel
end Compress
