import Dbg.Lemmas.Final
import Dbg.Spec.C01
/-! # C01 — Compressed graph is a lossless partition of the input k-mer set

The theorem proved so far is at the level of k-mer *ids*: on every well-formed table with reciprocal
extensions and a symmetric join predicate, the id-nodes visited by the model of `compress_kmers` (seed,
walk left, walk right, mark unavailable) are duplicate-free and cover exactly `0..n-1`, and the code-shaped
walk (`walkC`: availability tested before the incoming count, the "unreachable" panic) never panics and equals
the abstract walk.  What is not yet proved is the string assembly: that the windows of the assembled node
sequence are the keys of the path ids (`partitionOK` on sequences), the recorded-step clause and the payload
fold; these are decided by evaluating `partitionOK / stepsOK / payloadOK` on the crate's output. -/
namespace Compress
open Walk (Dir)
variable {D : Type}

/-- C01 (ids): the id-nodes form a partition of the table -/
theorem C01_ids_partition {T : Table D} {K : Nat} {st : Bool} {join : D → D → Bool}
    (wf : WF T K st) (hes : ExtSym T st) (hj : ∀ a b, join a b = join b a) :
    let ns := Walk.compress (linkOf T st join) (List.range T.length) (List.range T.length)
    ns.flatten.Nodup ∧ (∀ z, z ∈ ns.flatten ↔ z < T.length) :=
  let h := compress_components_concrete wf hes hj
  ⟨h.1, h.2.1⟩

/-- C01: on reciprocal tables the code-shaped walk never reaches the "unreachable" panic and computes the abstract walk -/
theorem C01_walk_no_panic {T : Table D} {K : Nat} {st : Bool} {join : D → D → Bool}
    (wf : WF T K st) (hes : ExtSym T st) (hj : ∀ a b, join a b = join b a) (avail : List Nat) (x : Nat) (d : Dir) :
    ∃ e, walkC T st join avail x d =
      some ((Walk.walk (linkOf T st join) avail x d).1, e, (Walk.walk (linkOf T st join) avail x d).2) :=
  (compress_components_concrete wf hes hj).2.2.2 avail x d

/-- the hypotheses are satisfiable: a three-k-mer chain ACG → CGT (palindrome-free, stranded) -/
example : partitionOK 3 true ([⟨[0,1,2], ⟨0x80⟩, 1⟩, ⟨[1,2,3], ⟨0x01⟩, 1⟩] : Table Nat)
    [⟨[0,1,2,3], ⟨0⟩, 2⟩] = true := by decide

end Compress
