import Dbg.Lemmas.ShardFinal
/-! # C09 (continued) — re-compressing a less compressed graph gives the partition of direct compression

A consequence of the re-compression theorem for ported graphs (`Compress.pgraph_recompress`): build the graph from a
k-mer table with **any** symmetric join predicate that joins *less* than the final one — in particular never: the
one-k-mer-per-node graph — and re-compress it (constantly-true join, no censoring): the result has the same partition of
the k-mers into nodes as compressing the (pruned) table directly. -/
namespace CompressGraph
open Compress (Table WF SameParts Node compressKmersC)
variable {D : Type}

/-- **C09 (partially compressed graphs).** For every well-formed table `T` reciprocal towards present neighbours, every
    symmetric `join0` and every hash order `Td` of the pruned table: `compress_kmers(T, join0)` then `compress_graph`
    never panics and yields the same partition as `compress_kmers(prune T)` in one pass. With `join0 = fun _ _ => false`
    the intermediate graph has one k-mer per node. -/
theorem C09_recompress_eq_direct {T : Table D} {K : Nat} {st : Bool} (wf : WF T K st) (hes2 : Filter.ExtSym2 T st)
    (reduce : D → D → D) (join0 : D → D → Bool) (hj0 : ∀ a b, join0 a b = join0 b a)
    (Td : Table D) (hperm : Td.Perm (Filter.removeCensoredExts st T)) :
    ∃ out g' paths outd, compressKmersC T st join0 reduce = some out ∧
      compressGraph st (⟨K, out.map (·.1), st⟩ : Graph.G D) (fun _ _ => true) reduce [] = some (g', paths) ∧
      compressKmersC Td st (fun _ _ => true) reduce = some outd ∧
      SameParts K st g'.nodes (outd.map (·.1)) := by
  have sw : Compress.Sandwich st [T].flatten T := by
    have : [T].flatten = T := by simp
    rw [this]; exact Compress.sandwich_refl T wf
  obtain ⟨outs, g', paths, outd, hb, hcg, hod, hs⟩ :=
    Compress.sharded_eq_direct_abstract wf hes2 [T] sw reduce join0 hj0 Td hperm
  cases outs with
  | nil => exact absurd hb (by simp [Compress.AllBuilt])
  | cons out rest =>
    cases rest with
    | cons _ _ => exact absurd hb.2 (by simp [Compress.AllBuilt])
    | nil =>
      refine ⟨out, g', paths, outd, hb.1, ?_, hod, hs⟩
      have : ([out].map fun o => o.map (·.1)).flatten = out.map (·.1) := by simp
      rw [this] at hcg
      exact hcg

end CompressGraph
