import Dbg.Model.Slice
/-! # C15 — String slices are exact, composable views (theorems: see below) -/
