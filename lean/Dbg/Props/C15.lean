import Dbg.Lemmas.SliceRefine
/-! # C15 — String slices are exact, composable views

`Slice.seq d s` is the substring of the plain base vector `toSeq d` a view stands for (window
`start .. start+length`, reverse-complemented when `is_rc`); `Slice.Valid d s` says the view lies
inside its backing string (every constructor yields such views, and the interval assertions are exactly
`a ≤ b ≤ length`).  For every well-formed backing string (C14's invariant) and every valid view:
reads, renderings (bytes, ASCII, text, Debug), `to_owned`, `==` and `get_kmer` are those of `seq`;
`slice`, `rc`, prefix/suffix/interval act on `seq` as `drop/take` and reverse complement — hence, by
induction, so does any interleaving at any nesting depth (`C15_history`); `hamming_dist` is the number
of differing positions for every length and offset and either orientation. -/
namespace DnaStr.Slice
open Kmer (Cfg St)

/-- **C15 (observers).** -/
theorem C15_observers (d : T) (h : Inv d) (s : Slice) (hv : Valid d s) :
    (seq d s).length = s.length ∧ (∀ i, i < s.length → get d s i = (seq d s)[i]?) ∧
    bytes d s = some (seq d s) ∧ ascii d s = some ((seq d s).map bitsToAscii) ∧
    display d s = some ((seq d s).map bitsToBase) ∧ (s.length < 256 → debug d s = some ((seq d s).map bitsToBase)) ∧
    (∃ d', toOwned d s = some d' ∧ Inv d' ∧ toSeq d' = seq d s) :=
  ⟨seq_length d h s hv, get_spec d h s hv, bytes_spec d h s hv, ascii_spec d h s hv, display_spec d h s hv,
   debug_spec d h s hv, toOwned_spec d h s hv⟩

/-- **C15 (equality)** of two views, of the same or different strings -/
theorem C15_eq (d1 : T) (h1 : Inv d1) (s1 : Slice) (v1 : Valid d1 s1) (d2 : T) (h2 : Inv d2) (s2 : Slice) (v2 : Valid d2 s2) :
    eq d1 s1 d2 s2 = some (decide (seq d1 s1 = seq d2 s2)) := eq_spec d1 h1 s1 v1 d2 h2 s2 v2

/-- **C15 (constructors).** prefix / suffix / interval views of a string -/
theorem C15_constructors (d : T) :
    (∀ k, k ≤ d.len → ∃ s, prefix_ d k = some s ∧ Valid d s ∧ seq d s = (toSeq d).take k) ∧
    (∀ k, k ≤ d.len → ∃ s, suffix_ d k = some s ∧ Valid d s ∧ seq d s = ((toSeq d).drop (d.len - k)).take k) ∧
    (∀ a b, a ≤ b → b ≤ d.len → ∃ s, sliceOf d a b = some s ∧ Valid d s ∧ seq d s = ((toSeq d).drop a).take (b - a)) :=
  ⟨prefix_seq d, suffix_seq d, sliceOf_seq d⟩

/-- view operations of a history -/
inductive VOp | slice (a b : Nat) | rc

def runV (s : Slice) : VOp → Option Slice
  | .slice a b => s.slice a b | .rc => some s.rc
def specV (l : List Nat) : VOp → List Nat
  | .slice a b => (l.drop a).take (b - a) | .rc => KSpec.rc l
def VOp.ok (l : List Nat) : VOp → Prop
  | .slice a b => a ≤ b ∧ b ≤ l.length | .rc => True
def runAllV : List VOp → Slice → Option Slice
  | [], s => some s
  | op :: ops, s => (runV s op).bind (runAllV ops)
def specAllV : List VOp → List Nat → List Nat
  | [], l => l
  | op :: ops, l => specAllV ops (specV l op)
def okAllV : List VOp → List Nat → Prop
  | [], _ => True
  | op :: ops, l => op.ok l ∧ okAllV ops (specV l op)

/-- **C15 (histories).** Any interleaving of `slice` and `rc`, to any depth, yields a valid view that
    stands for the same operations applied to the plain base vector. -/
theorem C15_history (d : T) (h : Inv d) (ops : List VOp) (s : Slice) (hv : Valid d s) (hok : okAllV ops (seq d s)) :
    ∃ s', runAllV ops s = some s' ∧ Valid d s' ∧ seq d s' = specAllV ops (seq d s) := by
  induction ops generalizing s with
  | nil => exact ⟨s, rfl, hv, rfl⟩
  | cons op ops ih =>
    have step : ∃ s1, runV s op = some s1 ∧ Valid d s1 ∧ seq d s1 = specV (seq d s) op := by
      cases op with
      | slice a b =>
        obtain ⟨s1, e, v, t⟩ := slice_spec d h s hv a b hok.1.1 (by rw [← seq_length d h s hv]; exact hok.1.2)
        exact ⟨s1, e, v, t⟩
      | rc => exact ⟨s.rc, rfl, (rc_spec d h s hv).1, (rc_spec d h s hv).2⟩
    obtain ⟨s1, e1, v1, t1⟩ := step
    obtain ⟨s2, e2, v2, t2⟩ := ih s1 v1 (by rw [t1]; exact hok.2)
    exact ⟨s2, by simp only [runAllV, e1, Option.bind_some]; exact e2, v2, by rw [t2, t1]; rfl⟩

/-- the interval assertions are exactly `a ≤ b ≤ length` (outside them `slice` panics) -/
theorem C15_slice_guard (s : Slice) (a b : Nat) : (s.slice a b).isSome ↔ (a ≤ b ∧ b ≤ s.length) := slice_isSome s a b

/-- **C15 (k-mers).** `get_kmer(pos)` of a view spells bases `pos..pos+K` of the view, in either orientation -/
theorem C15_getKmer (c : Cfg) (hc : c.WF) (hw : c.w ∈ [8, 16, 32, 64, 128]) (d : T) (h : Inv d) (s : Slice) (hv : Valid d s)
    (pos : Nat) :
    (pos + c.K ≤ s.length → ∃ k, getKmer c d s pos = some k ∧ Kmer.Inv c k ∧ Kmer.toSeq c k = ((seq d s).drop pos).take c.K) ∧
    (¬ pos + c.K ≤ s.length → getKmer c d s pos = none) :=
  ⟨getKmer_spec c hc hw d h s hv pos, getKmer_guard c d s pos⟩

/-- **C15 (Hamming distance).** For two equal-length views — any lengths (block path and tail), any
    offsets, either orientation — `hamming_dist` is the number of differing positions; unequal lengths are refused. -/
theorem C15_hamming (d1 : T) (h1 : Inv d1) (s1 : Slice) (v1 : Valid d1 s1) (d2 : T) (h2 : Inv d2) (s2 : Slice) (v2 : Valid d2 s2) :
    (s1.length = s2.length → hammingDist d1 s1 d2 s2 = some (KSpec.hamming (seq d1 s1) (seq d2 s2))) ∧
    (s1.length ≠ s2.length → hammingDist d1 s1 d2 s2 = none) :=
  ⟨hammingDist_spec d1 h1 s1 v1 d2 h2 s2 v2, hammingDist_guard d1 s1 d2 s2⟩

/-- non-vacuity: a nested, twice reverse-complemented view of a 1100-base string, long enough for the block path -/
example : okAllV [.slice 3 1090, .rc, .slice 10 1060, .rc, .rc] (List.replicate 1100 1) := by
  simp only [okAllV, VOp.ok, specV, KSpec.rc_length, List.length_take, List.length_drop, List.length_replicate]
  decide

end DnaStr.Slice
