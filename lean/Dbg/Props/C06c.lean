import Dbg.Props.C06b
import Dbg.Lemmas.Adjacency
/-! # C06 (continued) — the adjacencies of the finished graph are strand-invariant

The adjacencies of the one-pass pipeline's graph are the recorded extensions of the pruned table (`PGraph.adj_iff`); a
recorded extension between two retained k-mers is an occurrence of the corresponding (K+1)-mer in the reads, on either
strand (`Occ`), and reverse-complementing a read turns each occurrence into the occurrence of its reverse complement.
K-mers equal to their own reverse complement need no exception here: whichever side the table records their flanks on,
the canonical neighbour is the same. -/
namespace Pipeline
open Compress (Seq Base Exts rc comp Entry Table canonSt extend condFlip minRcFlip Closed AdjK AdjKS AdjGS)
open Filter (refTable removeCensoredExts has Occ NoBoundary flipReads win rawE)
open Walk (Dir)

theorem rc_extend (u : Seq) (b : Base) (d : Dir) : rc (extend u b d) = extend (rc u) (comp b) d.flip := by
  cases d
  · exact Compress.rc_extendLeft u b
  · exact Compress.rc_extendRight u b

/-- the canonical neighbour does not depend on the strand the k-mer is read on -/
theorem canon_extend_flip (u : Seq) (b : Base) (d : Dir) (f : Bool) :
    (canonSt false (extend (Compress.rcIf f u) (if f then comp b else b) (condFlip d f))).1 = (canonSt false (extend u b d)).1 := by
  cases f
  · simp [Compress.rcIf, condFlip]
  · simp only [Compress.rcIf, condFlip, if_true]
    rw [← rc_extend]
    simp only [canonSt, Bool.false_eq_true, if_false]
    exact Filter.minRcFlip_rc_key _

theorem canon_key_self (x : Seq) (h : ¬ (rc x < x)) : (canonSt false x).1 = x := by
  simp only [canonSt, Bool.false_eq_true, if_false]
  unfold minRcFlip
  split
  · rfl
  · rename_i h2
    rcases Filter.seq_tri x (rc x) with h3 | h3 | h3
    · exact absurd h3 h2
    · exact h3.symm
    · exact absurd h3 h

/-- occurrences are strand-symmetric -/
theorem occ_flip_one (K : Nat) (hK : 1 ≤ K) (s : Seq) (E : Exts) (lab : Nat) (u : Seq) (d : Dir) (b : Base) :
    Occ K [(rc s, E, lab)] false u d b ↔ Occ K [(s, E, lab)] false u d b := by
  have key : ∀ (s : Seq), Occ K [(s, E, lab)] false u d b → Occ K [(rc s, E, lab)] false u d b := by
    intro s ⟨r, hr, i, hi, hc⟩
    simp only [List.mem_singleton] at hr
    subst hr
    simp only at hi hc
    have hlen : (rc s).length = s.length := by simp [rc]
    refine ⟨_, List.mem_singleton.mpr rfl, s.length - K - i, by simp only [hlen]; omega, ?_⟩
    simp only
    have hw := Filter.win_rc s K (s.length - K - i) (by omega)
    have hE := Filter.rawE_rc s K (s.length - K - i) (by omega)
    have hidx : s.length - K - (s.length - K - i) = i := by omega
    rw [hidx] at hw hE
    have h8 : (rawE s K i).val < 256 := Filter.rawE_lt _ _ _
    rcases hc with ⟨h1, h2⟩ | ⟨_, h1, h2⟩
    · right
      refine ⟨trivial, by rw [hw, Compress.rc_rc]; exact h1, ?_⟩
      rw [hE, Filter.has_rc _ h8, Dir.flip_flip, Compress.comp_comp]; exact h2
    · left
      refine ⟨by rw [hw]; exact h1, ?_⟩
      rw [hE, Filter.has_rc _ h8]; exact h2
  constructor
  · intro h
    have := key (rc s) h
    rwa [Compress.rc_rc] at this
  · exact key s

theorem occ_cons (K : Nat) (r : Seq × Exts × Nat) (rest : List (Seq × Exts × Nat)) (u : Seq) (d : Dir) (b : Base) :
    Occ K (r :: rest) false u d b ↔ Occ K [r] false u d b ∨ Occ K rest false u d b := by
  constructor
  · rintro ⟨x, hx, i, hi, hc⟩
    rcases List.mem_cons.mp hx with rfl | hx'
    · exact Or.inl ⟨x, List.mem_singleton.mpr rfl, i, hi, hc⟩
    · exact Or.inr ⟨x, hx', i, hi, hc⟩
  · rintro (⟨x, hx, i, hi, hc⟩ | ⟨x, hx, i, hi, hc⟩)
    · exact ⟨x, by rw [List.mem_singleton.mp hx]; exact List.mem_cons_self .., i, hi, hc⟩
    · exact ⟨x, List.mem_cons_of_mem _ hx, i, hi, hc⟩

theorem occ_flip (K : Nat) (hK : 1 ≤ K) (m : Nat → Bool) (u : Seq) (d : Dir) (b : Base) :
    ∀ (reads : List (Seq × Exts × Nat)) (k : Nat), Occ K (flipReads m k reads) false u d b ↔ Occ K reads false u d b := by
  intro reads
  induction reads with
  | nil => intro k; exact Iff.rfl
  | cons r rest ih =>
    intro k
    unfold flipReads
    rw [occ_cons, occ_cons (r := r), ih (k + 1)]
    by_cases hm : m k = true
    · rw [if_pos hm, occ_flip_one K hK r.1 r.2.1 r.2.2]
    · rw [if_neg hm]

/-- the key-level adjacencies of the pruned reference table, in terms of the reads -/
def OAdj (K : Nat) (reads : List (Seq × Exts × Nat)) (keys : List Seq) (k1 k2 : Seq) : Prop :=
  k1 ∈ keys ∧ k2 ∈ keys ∧ ∃ u d b, Occ K reads false u d b ∧ (canonSt false u).1 = k1 ∧ (canonSt false (extend u b d)).1 = k2

theorem adjK_occ (K : Nat) (hK : 1 ≤ K) (reads : List (Seq × Exts × Nat)) (hb : NoBoundary reads) (sm : Filter.Summarizer)
    (k1 k2 : Seq) :
    AdjK (removeCensoredExts false (refTable K reads sm false)) false k1 k2 ↔
      OAdj K reads ((refTable K reads sm false).map (·.key)) k1 k2 := by
  have wf := Filter.refTable_wf K hK reads hb sm false
  generalize hR : refTable K reads sm false = R at *
  constructor
  · rintro ⟨e, he, d, b, hk, hb', ht⟩
    obtain ⟨x, hx⟩ := Compress.mem_index _ e he
    obtain ⟨e0, h0, hk0, _, _, hex⟩ := (Filter.removeCensored_exact false R).2 x e hx
    obtain ⟨h1, h2⟩ := (hex d b).mp hb'
    have he0 : e0 ∈ R := List.mem_of_getElem? h0
    refine ⟨by rw [← hk, hk0]; exact List.mem_map_of_mem he0, ?_, e0.key, d, b, ?_, ?_, by rw [← hk0]; exact ht⟩
    · rw [← ht, hk0, ← Filter.extTarget_eq]; exact h2
    · exact Filter.table_occ K hK reads hb sm false e0 (by rw [hR]; exact he0) d b h1
    · rw [← hk, hk0]
      exact canon_key_self _ (wf.canon rfl x e0 h0)
  · rintro ⟨hk1, hk2, u, d, b, hocc, hc1, hc2⟩
    obtain ⟨e1, he1, hke1⟩ := List.mem_map.mp hk1
    obtain ⟨x, hx⟩ := Compress.mem_index _ e1 he1
    have hlen := (Filter.removeCensored_exact false R).1
    obtain ⟨e, hxe⟩ : ∃ e, (removeCensoredExts false R)[x]? = some e :=
      ⟨_, List.getElem?_eq_getElem (by rw [hlen]; exact (List.getElem?_eq_some_iff.mp hx).1)⟩
    obtain ⟨e0, h0, hk0, _, _, hex⟩ := (Filter.removeCensored_exact false R).2 x e hxe
    rw [hx] at h0; cases h0
    have hcu : canonSt false u = (e1.key, (canonSt false u).2) := by rw [hke1, ← hc1]
    have hkey : e1.key = Compress.rcIf (canonSt false u).2 u := by rw [hke1, ← hc1]; exact Compress.canonSt_rcIf false u
    -- the table records the flank on one side or (palindromic key) possibly on the other
    have hrec : ∃ d' b', has e1.exts d' b' ∧ (canonSt false (extend e1.key b' d')).1 = k2 := by
      by_cases hp : rc e1.key = e1.key
      · rcases Filter.occ_table_pal K hK reads hb sm u d b hocc e1 (by rw [hR]; exact he1) _ hcu hp with h | h
        · exact ⟨_, _, h, by rw [hkey, canon_extend_flip]; exact hc2⟩
        · refine ⟨_, _, h, ?_⟩
          have : extend e1.key (comp (if (canonSt false u).2 then comp b else b)) (condFlip d (canonSt false u).2).flip =
              rc (extend e1.key (if (canonSt false u).2 then comp b else b) (condFlip d (canonSt false u).2)) := by
            rw [rc_extend, hp]
          rw [this]
          simp only [canonSt, Bool.false_eq_true, if_false]
          rw [Filter.minRcFlip_rc_key]
          have h2 := canon_extend_flip u b d (canonSt false u).2
          simp only [canonSt, Bool.false_eq_true, if_false] at h2 hc2
          rw [hkey]
          simp only [canonSt, Bool.false_eq_true, if_false]
          rw [h2]; exact hc2
      · have hnp : (!false && Compress.isPalindrome e1.key) = false := by
          simp only [Bool.not_false, Bool.true_and]
          unfold Compress.isPalindrome
          have : (e1.key == rc e1.key) = false := by
            rw [beq_eq_false_iff_ne]; exact fun h => hp h.symm
          rw [this, Bool.and_false]
        exact ⟨_, _, Filter.occ_table K hK reads hb sm false u d b hocc e1 (by rw [hR]; exact he1) _ hcu hnp,
          by rw [hkey, canon_extend_flip]; exact hc2⟩
    obtain ⟨d', b', hh, ht⟩ := hrec
    refine ⟨e, List.mem_of_getElem? hxe, d', b', by rw [hk0]; exact hke1, ?_, by rw [hk0]; exact ht⟩
    rw [hex d' b']
    exact ⟨hh, by rw [Filter.extTarget_eq, ht]; exact hk2⟩

theorem adjK_perm {D : Type} {A B : Table D} {st : Bool} (hp : A.Perm B) (k1 k2 : Seq) : AdjK A st k1 k2 ↔ AdjK B st k1 k2 :=
  ⟨fun ⟨e, he, r⟩ => ⟨e, hp.mem_iff.mp he, r⟩, fun ⟨e, he, r⟩ => ⟨e, hp.mem_iff.mpr he, r⟩⟩

/-- **the one-pass pipeline's adjacencies are the recorded extensions of the pruned table**, for any hash order -/
theorem direct_pipeline_adj (K : Nat) (hK : 4 ≤ K) (reads : List (Seq × Exts × Nat)) (hb : NoBoundary reads)
    (st : Bool) (thr : Nat) (dsigma : List Nat)
    (hds : dsigma.Perm (List.range (refTable K reads (.count thr) st).length)) :
    ∃ gd, direct K reads st thr dsigma = some gd ∧
      ∀ k1 k2, AdjGS K st gd.nodes k1 k2 ↔ AdjKS (removeCensoredExts st (refTable K reads (.count thr) st)) st k1 k2 := by
  have hK1 : 1 ≤ K := by omega
  generalize hR : refTable K reads (.count thr) st = R at *
  have wfR : Compress.WF R K st := by rw [← hR]; exact Filter.refTable_wf K hK1 _ hb _ st
  have hesR : Filter.ExtSym2 R st := by rw [← hR]; exact Filter.refTable_extSym2 K hK1 _ hb _ st
  have wfRp := Filter.wf_removeCensored st R K wfR
  have hesRp := Filter.extSym2_removeCensored st R K wfR hesR
  let Td : Table Filter.Payload := dsigma.filterMap fun i => (removeCensoredExts st R)[i]?
  have hpd : Td.Perm (removeCensoredExts st R) := by
    apply Compress.perm_of_sigma
    rw [(Filter.removeCensored_exact st R).1]; exact hds
  have wfd := Filter.wf_perm st _ Td K hpd wfRp
  have hesd := Filter.extSym2_perm st _ Td K hpd wfRp hesRp
  obtain ⟨outd, hod, _, _⟩ := Compress.compressKmersC_partition (join := fun _ _ => true) sumReduce wfd hesd.toExtSym (fun _ _ => rfl)
  obtain ⟨portd, memd, pgd, _⟩ := Compress.pgraph_of_compress sumReduce wfd hesd.toExtSym (fun _ _ => rfl) outd hod
  refine ⟨⟨K, outd.map (·.1), st⟩, ?_, fun k1 k2 => ?_⟩
  · unfold direct
    obtain ⟨fr, hfr, ht, _⟩ := Filter.filterKmers_eq_ref K reads (.count thr) st false 4 Gen.filterBytesPerUnit 16 hK (by decide) (by decide)
    rw [hfr]
    simp only
    rw [ht, hR]
    have : Compress.compressKmersC (dsigma.filterMap fun i => (removeCensoredExts st R)[i]?) st (fun _ _ => true) sumReduce = some outd := hod
    rw [this]
  · show AdjGS K st (outd.map (·.1)) k1 k2 ↔ _
    rw [pgd.adj_iff wfd hesd (Compress.closed_perm hpd (Compress.closed_pruned st R)) (fun _ _ => rfl) k1 k2]
    unfold AdjKS
    rw [adjK_perm hpd, adjK_perm hpd]

/-- **C06 (adjacencies, one-pass pipeline).** Unstranded: replacing any subset of the reads by their reverse complements
    does not change the set of adjacencies of the finished graph (unordered pairs of canonical k-mers: steps inside nodes
    and resolved edges between node ends), for equal or different hash orders — k-mers equal to their own reverse complement
    included. -/
theorem C06_direct_adjacency_rc_invariant (K : Nat) (hK : 4 ≤ K) (reads : List (Seq × Exts × Nat)) (hb : NoBoundary reads)
    (thr : Nat) (m : Nat → Bool) (dsigma dsigma' : List Nat)
    (hds : dsigma.Perm (List.range (refTable K reads (.count thr) false).length))
    (hds' : dsigma'.Perm (List.range (refTable K (flipReads m 0 reads) (.count thr) false).length)) :
    ∃ gd gd', direct K reads false thr dsigma = some gd ∧ direct K (flipReads m 0 reads) false thr dsigma' = some gd' ∧
      ∀ k1 k2, AdjGS K false gd.nodes k1 k2 ↔ AdjGS K false gd'.nodes k1 k2 := by
  have hK1 : 1 ≤ K := by omega
  have hb' := Filter.flip_noBoundary m reads hb 0
  obtain ⟨gd, h1, a1⟩ := direct_pipeline_adj K hK reads hb false thr dsigma hds
  obtain ⟨gd', h2, a2⟩ := direct_pipeline_adj K hK (flipReads m 0 reads) hb' false thr dsigma' hds'
  refine ⟨gd, gd', h1, h2, fun k1 k2 => ?_⟩
  have hkeys : (refTable K (flipReads m 0 reads) (.count thr) false).map (·.key) = (refTable K reads (.count thr) false).map (·.key) :=
    (Compress.C06_tables_agree K hK1 reads hb (.count thr) m).keys
  have hO : ∀ a b, OAdj K (flipReads m 0 reads) ((refTable K (flipReads m 0 reads) (.count thr) false).map (·.key)) a b ↔
      OAdj K reads ((refTable K reads (.count thr) false).map (·.key)) a b := by
    intro a b
    unfold OAdj
    rw [hkeys]
    constructor
    · rintro ⟨x, y, u, d, c, ho, r⟩
      exact ⟨x, y, u, d, c, (occ_flip K hK1 m u d c reads 0).mp ho, r⟩
    · rintro ⟨x, y, u, d, c, ho, r⟩
      exact ⟨x, y, u, d, c, (occ_flip K hK1 m u d c reads 0).mpr ho, r⟩
  rw [a1, a2]
  unfold AdjKS
  rw [adjK_occ K hK1 _ hb', adjK_occ K hK1 _ hb', adjK_occ K hK1 _ hb, adjK_occ K hK1 _ hb, hO, hO]

end Pipeline
