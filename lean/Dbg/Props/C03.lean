import Dbg.Spec.C03
import Dbg.Lemmas.GraphProofs
import Dbg.Lemmas.GraphSym
import Dbg.Lemmas.GInvCompress
/-! # C03 — Extensions and edges denote exactly the real adjacencies, symmetrically

Proved so far, for every graph of the model (any nodes, any K): a link returned by `find_link` points to a node whose
terminal k-mer on the reported side is the queried k-mer (reverse-complemented iff flagged flipped), the arrival side
is the facing side for unflipped links and the same side for flipped ones, flipped links occur only unstranded;
hence every reported edge is justified by an extension bit with a K-1 overlap (`edges_justified`), and extension
pruning does not change link lookups.  Symmetry, adjacency-set equality with the (K+1)-mers of the reads, pruning
exactness and the walk/sequence clauses are executable predicates evaluated on the crate's answers (partial). -/
namespace Graph
open Compress (Seq Base Exts rc extend Node)
open Walk (Dir)
variable {D : Type}

/-- **C03 (pruning, k-mer tables).** `remove_censored_exts` keeps keys and payloads and keeps a recorded extension
    exactly when its (canonical) target is a valid k-mer; the sharded variant drops an extension exactly when its target
    was seen (`all_kmers`) but is not valid. -/
theorem C03_prune_exact {P : Type} (st : Bool) (T : List (Compress.Entry P)) (all : List Seq) :
    ((Filter.removeCensoredExts st T).length = T.length ∧
      ∀ (x : Nat) (e1 : Compress.Entry P), (Filter.removeCensoredExts st T)[x]? = some e1 →
        ∃ e0 : Compress.Entry P, T[x]? = some e0 ∧ e1.key = e0.key ∧ e1.data = e0.data ∧ e1.exts.val < 256 ∧
          ∀ d b, Filter.has e1.exts d b ↔ Filter.has e0.exts d b ∧ Filter.extTarget st e0.key b d ∈ T.map (·.key)) ∧
    ((Filter.removeCensoredExtsSharded st T all).length = T.length ∧
      ∀ (x : Nat) (e1 : Compress.Entry P), (Filter.removeCensoredExtsSharded st T all)[x]? = some e1 →
        ∃ e0 : Compress.Entry P, T[x]? = some e0 ∧ e1.key = e0.key ∧ e1.data = e0.data ∧
          ∀ d b, Filter.has e1.exts d b ↔ Filter.has e0.exts d b ∧
            ¬ (Filter.extTarget st e0.key b d ∉ T.map (·.key) ∧ Filter.extTarget st e0.key b d ∈ all)) :=
  ⟨Filter.removeCensored_exact st T, Filter.removeCensoredSharded_exact st T all⟩

/-- **C03 (pruning, graph).** `get_valid_exts` reports an extension exactly when it is recorded, its extended
    terminal k-mer resolves through `find_link`, and the node it resolves to is valid. -/
theorem C03_valid_exts_exact (g : G D) (id : Nat) (valid : Option (List Nat)) (nd : Node D) (h : g.nodes[id]? = some nd) :
    ∃ e, getValidExts g id valid = some e ∧
      ∀ d b, Filter.has e d b ↔ Filter.has nd.exts d b ∧ extOk g nd valid d b := getValidExts_exact g id valid nd h

/-- every reported edge comes from a recorded extension whose extended terminal k-mer `find_link` resolved -/
theorem C03_edges_justified (g : G D) (id : Nat) (d : Dir) (es : List (Nat × Dir × Bool)) (h : findEdges g id d = some es)
    (e : Nat × Dir × Bool) (he : e ∈ es) :
    ∃ nd b, g.nodes[id]? = some nd ∧ Filter.has nd.exts d b ∧ findLink g (extend (termKmer g.K nd.seq d) b d) d = some e := by
  unfold findEdges at h
  cases hn : g.nodes[id]? with
  | none => rw [hn] at h; cases h
  | some nd =>
    rw [hn] at h
    simp only [Option.some.injEq] at h
    subst h
    rw [List.mem_filterMap] at he
    obtain ⟨b, _, hb⟩ := he
    by_cases hh : nd.exts.hasExt d b.val = true
    · rw [if_pos hh] at hb
      exact ⟨nd, b, rfl, (Filter.hasExt_iff nd.exts d b).mp hh, hb⟩
    · rw [if_neg hh] at hb; cases hb

/-- **C03 (walks).** For any walk whose steps follow reported edges (in either direction) through a graph whose nodes
    have at least `K` bases: `sequence_of_path` never panics and the k-mers of the spelled sequence are exactly the k-mers
    of the walked nodes in walking orientation, in order (every step is a `K-1` overlap: `edge_overlap`). -/
theorem C03_walk_sequence (g : G D) (hK : 1 ≤ g.K) (hl : ∀ (i : Nat) (n : Node D), g.nodes[i]? = some n → g.K ≤ n.seq.length)
    (p0 : Nat × Dir) (rest : List (Nat × Dir)) (h0 : (g.nodes[p0.1]?).isSome) (hall : ∀ p ∈ rest, (g.nodes[p.1]?).isSome)
    (hch : ChainStep g p0 rest) :
    ∃ S, sequenceOfPath g (p0 :: rest) = some S ∧ Compress.windowsOf g.K S = (p0 :: rest).flatMap (orientedKmers g) :=
  walk_sequence g hK hl p0 rest h0 hall hch

/-- **C03 (best path).** `max_path` returns a walk for every graph, score and solidity predicate: consecutive entries
    follow reported edges, every node exists, no node is visited twice. -/
theorem C03_maxPath_walk (g : G D) (score : D → Int) (solid : D → Bool) : IsWalk g (maxPath g score solid) :=
  maxPath_walk g score solid

/-- the spelled best path consists of exactly the k-mers of its nodes -/
theorem C03_maxPath_sequence (g : G D) (hK : 1 ≤ g.K) (hl : ∀ (i : Nat) (n : Node D), g.nodes[i]? = some n → g.K ≤ n.seq.length)
    (score : D → Int) (solid : D → Bool) (p0 : Nat × Dir) (rest : List (Nat × Dir)) (hp : maxPath g score solid = p0 :: rest) :
    ∃ S, sequenceOfPath g (maxPath g score solid) = some S ∧
      Compress.windowsOf g.K S = (maxPath g score solid).flatMap (orientedKmers g) := by
  have hw := maxPath_walk g score solid
  rw [hp] at hw ⊢
  exact walk_sequence g hK hl p0 rest (hw.nodes p0 (by simp)) (fun p h => hw.nodes p (by simp [h])) (hw.chain p0 rest rfl)

/-- **C03 (symmetry).** In every graph satisfying the node-level invariant `GInv` (nodes of at least K bases, terminal
    k-mers identify their node and side, extensions reciprocal — a palindromic single-k-mer node records them from either
    strand): whenever `(v, s, f)` is reported from side `d` of `u`, node `v` reports `u` back, from the facing side `s`
    arriving at side `d` — the two sides of a palindromic single-k-mer node counting as one.  `GInv` is decidable
    (`ginvOK`, `ginvOK_sound`) and is evaluated on every graph the crate builds in the pipeline requests. -/
theorem C03_edges_symmetric (g : G D) (hg : GInv g) (u : Nat) (d : Dir) (es : List (Nat × Dir × Bool))
    (he : findEdges g u d = some es) (v : Nat) (s : Dir) (f : Bool) (hm : (v, s, f) ∈ es) : ReachesBack g u d v s :=
  edges_symmetric g hg u d es he v s f hm

theorem C03_ginv_decidable (g : G D) (h : ginvOK g = true) : GInv g := ginvOK_sound g h

/-- non-vacuity: two nodes ACGT→CGTA-like chain satisfies the invariant (K = 3, stranded) -/
example : ginvOK (⟨3, [⟨[0,1,2,3], ⟨0x10⟩, ()⟩, ⟨[2,3,0,0], ⟨0x02⟩, ()⟩], true⟩ : G Unit) = true := by decide

/-- **C03 (the invariant holds for built graphs).** For every well-formed table that is reciprocal towards every present
    neighbour (`ExtSym2`, what `filter_kmers` + `remove_censored_exts` deliver from reads: `pipeline_table_ok2`) and every
    symmetric join predicate, the nodes `compress_kmers` produces form a graph satisfying `GInv`. -/
theorem C03_ginv_of_compress {T : Compress.Table D} {K : Nat} {st : Bool} {join : D → D → Bool} (reduce : D → D → D)
    (wf : Compress.WF T K st) (hes2 : Filter.ExtSym2 T st) (hj : ∀ a b, join a b = join b a)
    (out : List (Node D × List Nat)) (ho : Compress.compressKmersC T st join reduce = some out) :
    GInv (⟨K, out.map (·.1), st⟩ : G D) := Compress.compress_ginv reduce wf hes2 hj out ho

/-- **C03 (symmetry, from reads).** For every read set (empty boundary extensions), K ≥ 4, both summarizers, stranded or
    not, any hash order: in the graph built by filter → prune → compress every reported edge is reported back (the two sides
    of a palindromic single-k-mer node counting as one). -/
theorem C03_edges_symmetric_from_reads (K : Nat) (hK : 4 ≤ K) (reads : List (Seq × Exts × Nat)) (hb : Filter.NoBoundary reads)
    (sm : Filter.Summarizer) (st : Bool) (join : Filter.Payload → Filter.Payload → Bool) (hj : ∀ a b, join a b = join b a)
    (reduce : Filter.Payload → Filter.Payload → Filter.Payload) (T : List (Compress.Entry Filter.Payload))
    (hp : T.Perm (Filter.removeCensoredExts st (Filter.refTable K reads sm st)))
    (out : List (Node Filter.Payload × List Nat)) (ho : Compress.compressKmersC T st join reduce = some out)
    (u : Nat) (d : Dir) (es : List (Nat × Dir × Bool))
    (he : findEdges (⟨K, out.map (·.1), st⟩ : G Filter.Payload) u d = some es) (v : Nat) (s : Dir) (f : Bool) (hm : (v, s, f) ∈ es) :
    ReachesBack (⟨K, out.map (·.1), st⟩ : G Filter.Payload) u d v s := by
  obtain ⟨wf, hes2⟩ := Filter.pipeline_table_ok2 K (by omega) reads hb sm st T hp
  exact edges_symmetric _ (Compress.compress_ginv reduce wf hes2 hj out ho) u d es he v s f hm

end Graph
