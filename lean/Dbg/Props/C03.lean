import Dbg.Spec.C03
import Dbg.Lemmas.GraphProofs
import Dbg.Lemmas.Beam
import Dbg.Lemmas.MaxPathFuel
import Dbg.Lemmas.GraphSym
import Dbg.Lemmas.GInvCompress
import Dbg.Lemmas.EdgeComplete
/-! # C03 — Extensions and edges denote exactly the real adjacencies, symmetrically

Proved so far, for every graph of the model (any nodes, any K): a link returned by `find_link` points to a node whose
terminal k-mer on the reported side is the queried k-mer (reverse-complemented iff flagged flipped), the arrival side
is the facing side for unflipped links and the same side for flipped ones, flipped links occur only unstranded;
hence every reported edge is justified by an extension bit with a K-1 overlap (`edges_justified`), and extension
pruning does not change link lookups.  Symmetry, adjacency-set equality with the (K+1)-mers of the reads, pruning
exactness and the walk/sequence clauses are executable predicates evaluated on the crate's answers (partial). -/
namespace Graph
open Compress (Seq Base Exts rc extend Node)
open Walk (Dir)
variable {D : Type}

/-- **C03 (pruning, k-mer tables).** `remove_censored_exts` keeps keys and payloads and keeps a recorded extension
    exactly when its (canonical) target is a valid k-mer; the sharded variant drops an extension exactly when its target
    was seen (`all_kmers`) but is not valid. -/
theorem C03_prune_exact {P : Type} (st : Bool) (T : List (Compress.Entry P)) (all : List Seq) :
    ((Filter.removeCensoredExts st T).length = T.length ∧
      ∀ (x : Nat) (e1 : Compress.Entry P), (Filter.removeCensoredExts st T)[x]? = some e1 →
        ∃ e0 : Compress.Entry P, T[x]? = some e0 ∧ e1.key = e0.key ∧ e1.data = e0.data ∧ e1.exts.val < 256 ∧
          ∀ d b, Filter.has e1.exts d b ↔ Filter.has e0.exts d b ∧ Filter.extTarget st e0.key b d ∈ T.map (·.key)) ∧
    ((Filter.removeCensoredExtsSharded st T all).length = T.length ∧
      ∀ (x : Nat) (e1 : Compress.Entry P), (Filter.removeCensoredExtsSharded st T all)[x]? = some e1 →
        ∃ e0 : Compress.Entry P, T[x]? = some e0 ∧ e1.key = e0.key ∧ e1.data = e0.data ∧
          ∀ d b, Filter.has e1.exts d b ↔ Filter.has e0.exts d b ∧
            ¬ (Filter.extTarget st e0.key b d ∉ T.map (·.key) ∧ Filter.extTarget st e0.key b d ∈ all)) :=
  ⟨Filter.removeCensored_exact st T, Filter.removeCensoredSharded_exact st T all⟩

/-- **C03 (pruning, graph).** `get_valid_exts` reports an extension exactly when it is recorded, its extended
    terminal k-mer resolves through `find_link`, and the node it resolves to is valid. -/
theorem C03_valid_exts_exact (g : G D) (id : Nat) (valid : Option (List Nat)) (nd : Node D) (h : g.nodes[id]? = some nd) :
    ∃ e, getValidExts g id valid = some e ∧
      ∀ d b, Filter.has e d b ↔ Filter.has nd.exts d b ∧ extOk g nd valid d b := getValidExts_exact g id valid nd h

/-- every reported edge comes from a recorded extension whose extended terminal k-mer `find_link` resolved -/
theorem C03_edges_justified (g : G D) (id : Nat) (d : Dir) (es : List (Nat × Dir × Bool)) (h : findEdges g id d = some es)
    (e : Nat × Dir × Bool) (he : e ∈ es) :
    ∃ nd b, g.nodes[id]? = some nd ∧ Filter.has nd.exts d b ∧ findLink g (extend (termKmer g.K nd.seq d) b d) d = some e := by
  unfold findEdges at h
  cases hn : g.nodes[id]? with
  | none => rw [hn] at h; cases h
  | some nd =>
    rw [hn] at h
    simp only [Option.some.injEq] at h
    subst h
    rw [List.mem_filterMap] at he
    obtain ⟨b, _, hb⟩ := he
    by_cases hh : nd.exts.hasExt d b.val = true
    · rw [if_pos hh] at hb
      exact ⟨nd, b, rfl, (Filter.hasExt_iff nd.exts d b).mp hh, hb⟩
    · rw [if_neg hh] at hb; cases hb

/-- **C03 (walks).** For any walk whose steps follow reported edges (in either direction) through a graph whose nodes
    have at least `K` bases: `sequence_of_path` never panics and the k-mers of the spelled sequence are exactly the k-mers
    of the walked nodes in walking orientation, in order (every step is a `K-1` overlap: `edge_overlap`). -/
theorem C03_walk_sequence (g : G D) (hK : 1 ≤ g.K) (hl : ∀ (i : Nat) (n : Node D), g.nodes[i]? = some n → g.K ≤ n.seq.length)
    (p0 : Nat × Dir) (rest : List (Nat × Dir)) (h0 : (g.nodes[p0.1]?).isSome) (hall : ∀ p ∈ rest, (g.nodes[p.1]?).isSome)
    (hch : ChainStep g p0 rest) :
    ∃ S, sequenceOfPath g (p0 :: rest) = some S ∧ Compress.windowsOf g.K S = (p0 :: rest).flatMap (orientedKmers g) :=
  walk_sequence g hK hl p0 rest h0 hall hch

/-- **C03 (best path).** `max_path` returns a walk for every graph, score and solidity predicate: consecutive entries
    follow reported edges, every node exists, no node is visited twice. -/
theorem C03_maxPath_walk (g : G D) (score : D → Int) (solid : D → Bool) : IsWalk g (maxPath g score solid) :=
  maxPath_walk g score solid

/-- the spelled best path consists of exactly the k-mers of its nodes -/
theorem C03_maxPath_sequence (g : G D) (hK : 1 ≤ g.K) (hl : ∀ (i : Nat) (n : Node D), g.nodes[i]? = some n → g.K ≤ n.seq.length)
    (score : D → Int) (solid : D → Bool) (p0 : Nat × Dir) (rest : List (Nat × Dir)) (hp : maxPath g score solid = p0 :: rest) :
    ∃ S, sequenceOfPath g (maxPath g score solid) = some S ∧
      Compress.windowsOf g.K S = (maxPath g score solid).flatMap (orientedKmers g) := by
  have hw := maxPath_walk g score solid
  rw [hp] at hw ⊢
  exact walk_sequence g hK hl p0 rest (hw.nodes p0 (by simp)) (fun p h => hw.nodes p (by simp [h])) (hw.chain p0 rest rfl)

/-- **the fuel of the model of `max_path` is adequate**: each step of the greedy walk takes a node that was not used before,
    so from any start node both arms give the same result for every amount of fuel from `nodes.length` on — the
    `loop` of the crate ends after at most `nodes.length` steps per direction. -/
theorem C03_maxPath_fuel (g : G D) (score : D → Int) (solid : D → Bool) (best : Nat) (hbest : best < g.nodes.length)
    (f : Nat) (hf : g.nodes.length ≤ f) :
    maxPathArm g score solid false f (best, .L) [best] [(best, .L)] =
      maxPathArm g score solid false g.nodes.length (best, .L) [best] [(best, .L)] ∧
    maxPathArm g score solid true f (best, .R) (maxPathArm g score solid false g.nodes.length (best, .L) [best] [(best, .L)]).2
        (maxPathArm g score solid false g.nodes.length (best, .L) [best] [(best, .L)]).1 =
      maxPathArm g score solid true g.nodes.length (best, .R) (maxPathArm g score solid false g.nodes.length (best, .L) [best] [(best, .L)]).2
        (maxPathArm g score solid false g.nodes.length (best, .L) [best] [(best, .L)]).1 := by
  have h0 : [best].Nodup := by simp
  have h1 : ∀ u ∈ [best], u < g.nodes.length := by
    intro u hu; simp only [List.mem_cons, List.mem_nil_iff, or_false] at hu; subst hu; exact hbest
  obtain ⟨r1, r2, r3⟩ := arm_used g score solid false g.nodes.length (best, .L) [best] [(best, .L)] h0 h1
  refine ⟨arm_fuel g score solid false f g.nodes.length _ _ _ h0 h1 (by omega) (by omega), ?_⟩
  exact arm_fuel g score solid true f g.nodes.length _ _ _ r1 r2 (by omega) (by omega)

/-- **C03 (beam search).** Every path `max_path_beam` returns — for every graph, beam width and score — is a trail:
    consecutive entries follow reported edges and every node exists (a node may occur twice: the search keeps paths
    that just closed a cycle). -/
theorem C03_maxPathBeam_trail (g : G D) (beam : Nat) (score : D → Int) (path : List (Nat × Dir))
    (h : maxPathBeam g beam score = some path) : IsTrail g path :=
  maxPathBeam_trail g beam score path h

/-- the spelled beam path consists of exactly the k-mers of its nodes, in walking orientation and order -/
theorem C03_maxPathBeam_sequence (g : G D) (hK : 1 ≤ g.K) (hl : ∀ (i : Nat) (n : Node D), g.nodes[i]? = some n → g.K ≤ n.seq.length)
    (beam : Nat) (score : D → Int) (p0 : Nat × Dir) (rest : List (Nat × Dir)) (hp : maxPathBeam g beam score = some (p0 :: rest)) :
    ∃ S, sequenceOfPath g (p0 :: rest) = some S ∧ Compress.windowsOf g.K S = (p0 :: rest).flatMap (orientedKmers g) := by
  have hw := maxPathBeam_trail g beam score _ hp
  exact walk_sequence g hK hl p0 rest (hw.nodes p0 (by simp)) (fun p h => hw.nodes p (by simp [h])) (hw.chain p0 rest rfl)

/-- **the beam search terminates** on every non-empty graph within `nodes.length + 1` rounds (an active path repeats no
    node), independently of the fuel of the model; the only way to panic is `states[0]` on an empty beam. -/
theorem C03_maxPathBeam_terminates (g : G D) (beam : Nat) (score : D → Int) (hne : g.nodes.isEmpty = false) :
    (∃ sts, beamLoop g score beam (g.nodes.length + 2) (beamInit g score) = some sts ∧
      maxPathBeam g beam score = sts.head?.map (·.path)) ∧
    ∀ fuel, g.nodes.length + 1 ≤ fuel →
      beamLoop g score beam fuel (beamInit g score) = beamLoop g score beam (g.nodes.length + 2) (beamInit g score) :=
  ⟨maxPathBeam_returns g beam score hne, fun fuel hf => maxPathBeam_fuel g beam score fuel hf⟩

/-- **the beam search returns** on every non-empty graph whose recorded extensions all resolve (every side that records an
    extension has an edge), for every beam width ≥ 1.  (With a dangling extension the search can drop its only state and
    `states[0]` panics — node `ACGT`, right extension `A` recorded, no such node: confirmed on the crate; `max_path` has no
    such problem.  Pruned pipeline graphs are resolving: `Compress.PGraph.resolving`.) -/
theorem C03_maxPathBeam_returns (g : G D) (hr : Resolving g) (hne : g.nodes.isEmpty = false) (beam : Nat) (hb : 1 ≤ beam)
    (score : D → Int) : ∃ path, maxPathBeam g beam score = some path ∧ IsTrail g path := by
  obtain ⟨path, h⟩ := maxPathBeam_some g hr hne beam hb score
  exact ⟨path, h, maxPathBeam_trail g beam score path h⟩

/-- **C03 (symmetry).** In every graph satisfying the node-level invariant `GInv` (nodes of at least K bases, terminal
    k-mers identify their node and side, extensions reciprocal — a palindromic single-k-mer node records them from either
    strand): whenever `(v, s, f)` is reported from side `d` of `u`, node `v` reports `u` back, from the facing side `s`
    arriving at side `d` — the two sides of a palindromic single-k-mer node counting as one.  `GInv` is decidable
    (`ginvOK`, `ginvOK_sound`) and is evaluated on every graph the crate builds in the pipeline requests. -/
theorem C03_edges_symmetric (g : G D) (hg : GInv g) (u : Nat) (d : Dir) (es : List (Nat × Dir × Bool))
    (he : findEdges g u d = some es) (v : Nat) (s : Dir) (f : Bool) (hm : (v, s, f) ∈ es) : ReachesBack g u d v s :=
  edges_symmetric g hg u d es he v s f hm

theorem C03_ginv_decidable (g : G D) (h : ginvOK g = true) : GInv g := ginvOK_sound g h

/-- non-vacuity: two nodes ACGT→CGTA-like chain satisfies the invariant (K = 3, stranded) -/
example : ginvOK (⟨3, [⟨[0,1,2,3], ⟨0x10⟩, ()⟩, ⟨[2,3,0,0], ⟨0x02⟩, ()⟩], true⟩ : G Unit) = true := by decide

/-- **C03 (the invariant holds for built graphs).** For every well-formed table that is reciprocal towards every present
    neighbour (`ExtSym2`, what `filter_kmers` + `remove_censored_exts` deliver from reads: `pipeline_table_ok2`) and every
    symmetric join predicate, the nodes `compress_kmers` produces form a graph satisfying `GInv`. -/
theorem C03_ginv_of_compress {T : Compress.Table D} {K : Nat} {st : Bool} {join : D → D → Bool} (reduce : D → D → D)
    (wf : Compress.WF T K st) (hes2 : Filter.ExtSym2 T st) (hj : ∀ a b, join a b = join b a)
    (out : List (Node D × List Nat)) (ho : Compress.compressKmersC T st join reduce = some out) :
    GInv (⟨K, out.map (·.1), st⟩ : G D) := Compress.compress_ginv reduce wf hes2 hj out ho

/-- **C03 (symmetry, from reads).** For every read set (empty boundary extensions), K ≥ 4, both summarizers, stranded or
    not, any hash order: in the graph built by filter → prune → compress every reported edge is reported back (the two sides
    of a palindromic single-k-mer node counting as one). -/
theorem C03_edges_symmetric_from_reads (K : Nat) (hK : 4 ≤ K) (reads : List (Seq × Exts × Nat)) (hb : Filter.NoBoundary reads)
    (sm : Filter.Summarizer) (st : Bool) (join : Filter.Payload → Filter.Payload → Bool) (hj : ∀ a b, join a b = join b a)
    (reduce : Filter.Payload → Filter.Payload → Filter.Payload) (T : List (Compress.Entry Filter.Payload))
    (hp : T.Perm (Filter.removeCensoredExts st (Filter.refTable K reads sm st)))
    (out : List (Node Filter.Payload × List Nat)) (ho : Compress.compressKmersC T st join reduce = some out)
    (u : Nat) (d : Dir) (es : List (Nat × Dir × Bool))
    (he : findEdges (⟨K, out.map (·.1), st⟩ : G Filter.Payload) u d = some es) (v : Nat) (s : Dir) (f : Bool) (hm : (v, s, f) ∈ es) :
    ReachesBack (⟨K, out.map (·.1), st⟩ : G Filter.Payload) u d v s := by
  obtain ⟨wf, hes2⟩ := Filter.pipeline_table_ok2 K (by omega) reads hb sm st T hp
  exact edges_symmetric _ (Compress.compress_ginv reduce wf hes2 hj out ho) u d es he v s f hm

/-- **C03 (edges = recorded extensions towards present k-mers).** In the graph `compress_kmers` builds from any
    well-formed table that is reciprocal towards present neighbours: an extension recorded on a node side resolves through
    `find_link` — is reported as an edge — **iff** the canonical form of the k-mer it leads to is a key of the table.
    (`⇐` is the completeness of `find_link`, which inspects node ends only: the target k-mer of an extension recorded at a
    node end is itself at a node end, on the facing side — `Compress.ext_target_port`.) -/
theorem C03_edges_complete {T : Compress.Table D} {K : Nat} {st : Bool} {join : D → D → Bool} (reduce : D → D → D)
    (wf : Compress.WF T K st) (hes2 : Filter.ExtSym2 T st) (hj : ∀ a b, join a b = join b a)
    (out : List (Node D × List Nat)) (ho : Compress.compressKmersC T st join reduce = some out)
    (X : Node D × List Nat) (hX : X ∈ out) (s : Dir) (β : Base) (hβ : Filter.has X.1.exts s β) :
    (findLink (⟨K, out.map (·.1), st⟩ : G D) (extend (termKmer K X.1.seq s) β s) s).isSome ↔
      (Compress.canonSt st (extend (termKmer K X.1.seq s) β s)).1 ∈ T.map (·.key) :=
  Compress.edge_iff_target_present reduce wf hes2 hj out ho X hX s β hβ

theorem occ_rc (K : Nat) (reads : List (Seq × Exts × Nat)) (u : Seq) (d : Dir) (b : Base)
    (h : Filter.Occ K reads false u d.flip (Compress.comp b)) : Filter.Occ K reads false (rc u) d b := by
  obtain ⟨r, hr, i, hi, hc⟩ := h
  refine ⟨r, hr, i, hi, ?_⟩
  rcases hc with ⟨h1, h2⟩ | ⟨_, h1, h2⟩
  · right
    exact ⟨rfl, by rw [h1], h2⟩
  · left
    rw [Dir.flip_flip, Compress.comp_comp] at h2
    exact ⟨by rw [h1, Compress.rc_rc], h2⟩

/-- **C03 (from reads: no dangling extension, every extension an observed adjacency).** In the graph built by
    filter → prune → compress from any read set (empty boundary extensions, K ≥ 4, both summarizers, stranded or not, any
    hash order), every extension recorded on a node side (i) resolves through `find_link` to a node, and (ii) is a
    (K+1)-mer of the input: the node's terminal k-mer occurs in a read (as spelled or, unstranded, reverse-complemented)
    with that base next to it on that side. -/
theorem C03_exts_resolve_from_reads (K : Nat) (hK : 4 ≤ K) (reads : List (Seq × Exts × Nat)) (hb : Filter.NoBoundary reads)
    (sm : Filter.Summarizer) (st : Bool) (join : Filter.Payload → Filter.Payload → Bool) (hj : ∀ a b, join a b = join b a)
    (reduce : Filter.Payload → Filter.Payload → Filter.Payload) (T : List (Compress.Entry Filter.Payload))
    (hp : T.Perm (Filter.removeCensoredExts st (Filter.refTable K reads sm st)))
    (out : List (Node Filter.Payload × List Nat)) (ho : Compress.compressKmersC T st join reduce = some out)
    (X : Node Filter.Payload × List Nat) (hX : X ∈ out) (s : Dir) (β : Base) (hβ : Filter.has X.1.exts s β) :
    (findLink (⟨K, out.map (·.1), st⟩ : G Filter.Payload) (extend (termKmer K X.1.seq s) β s) s).isSome ∧
      Filter.Occ K reads st (termKmer K X.1.seq s) s β := by
  obtain ⟨wf, hes2⟩ := Filter.pipeline_table_ok2 K (by omega) reads hb sm st T hp
  obtain ⟨p, ex, np⟩ := Compress.node_port_exists reduce wf hes2.toExtSym hj out ho X hX s
  have hbx := (np.exts β).mp hβ
  obtain ⟨_, hcan⟩ := Compress.node_target X.1 s p ex np β
  -- the entry in the pruned reference table
  have hexT : ex ∈ T := List.mem_of_getElem? np.ent
  have hexR : ex ∈ Filter.removeCensoredExts st (Filter.refTable K reads sm st) := hp.mem_iff.mp hexT
  obtain ⟨x', hx'⟩ := Filter.mem_getElem? _ _ hexR
  obtain ⟨e0, h0, hk, _, _, hx⟩ := (Filter.removeCensored_exact st (Filter.refTable K reads sm st)).2 x' ex hx'
  obtain ⟨h1, h2⟩ := (hx p.2 (if p.2 = s then β else Compress.comp β)).mp hbx
  constructor
  · rw [C03_edges_complete reduce wf hes2 hj out ho X hX s β hβ, hcan, ← Filter.extTarget_eq, hk]
    have hkeys : ((Filter.removeCensoredExts st (Filter.refTable K reads sm st)).map (·.key)) = (Filter.refTable K reads sm st).map (·.key) := by
      simp [Filter.removeCensoredExts, List.map_map, Function.comp_def]
    exact (hp.map (·.key)).mem_iff.mpr (by rw [hkeys]; exact h2)
  · have hocc := Filter.table_occ K (by omega) reads hb sm st e0 (List.mem_of_getElem? h0) p.2 _ h1
    rw [np.term, hk]
    by_cases h : p.2 = s
    · simp only [h, if_true] at hocc ⊢
      exact hocc
    · have hst' : st = false := by
        cases st with
        | false => rfl
        | true => exact absurd (np.strand rfl) h
      subst hst'
      have hs : p.2 = s.flip := by
        cases hh : p.2 <;> cases hs : s <;> simp_all [Dir.flip]
      simp only [h, if_false] at hocc ⊢
      rw [hs] at hocc
      exact occ_rc K reads e0.key s β hocc

theorem isPal_false_of_ne (x : Seq) (h : rc x ≠ x) : Compress.isPalindrome x = false := by
  unfold Compress.isPalindrome
  cases hh : (x == rc x) with
  | false => simp
  | true => exact absurd (by simpa using hh : x = rc x).symm h

/-- **C03 (from reads: every observed adjacency between retained k-mers is recorded).** Conversely, in the same graph: if
    the terminal k-mer on side `s` of a node occurs in a read with base `β` next to it on that side, the k-mer this leads
    to was retained, and the terminal k-mer is not its own reverse complement (unstranded; the two sides of a palindromic
    single-k-mer node count as one and are excluded here), then the node records `β` on side `s` — and, by
    `C03_exts_resolve_from_reads`, reports the edge. -/
theorem C03_observed_adjacency_recorded (K : Nat) (hK : 4 ≤ K) (reads : List (Seq × Exts × Nat)) (hb : Filter.NoBoundary reads)
    (sm : Filter.Summarizer) (st : Bool) (join : Filter.Payload → Filter.Payload → Bool) (hj : ∀ a b, join a b = join b a)
    (reduce : Filter.Payload → Filter.Payload → Filter.Payload) (T : List (Compress.Entry Filter.Payload))
    (hp : T.Perm (Filter.removeCensoredExts st (Filter.refTable K reads sm st)))
    (out : List (Node Filter.Payload × List Nat)) (ho : Compress.compressKmersC T st join reduce = some out)
    (X : Node Filter.Payload × List Nat) (hX : X ∈ out) (s : Dir) (β : Base)
    (hocc : Filter.Occ K reads st (termKmer K X.1.seq s) s β)
    (htgt : (Compress.canonSt st (extend (termKmer K X.1.seq s) β s)).1 ∈ (Filter.refTable K reads sm st).map (·.key))
    (hnp : st = true ∨ rc (termKmer K X.1.seq s) ≠ termKmer K X.1.seq s) :
    Filter.has X.1.exts s β := by
  obtain ⟨wf, hes2⟩ := Filter.pipeline_table_ok2 K (by omega) reads hb sm st T hp
  obtain ⟨p, ex, np⟩ := Compress.node_port_exists reduce wf hes2.toExtSym hj out ho X hX s
  obtain ⟨_, hcan⟩ := Compress.node_target X.1 s p ex np β
  rw [np.exts β]
  have hexT : ex ∈ T := List.mem_of_getElem? np.ent
  have hexR : ex ∈ Filter.removeCensoredExts st (Filter.refTable K reads sm st) := hp.mem_iff.mp hexT
  obtain ⟨x', hx'⟩ := Filter.mem_getElem? _ _ hexR
  obtain ⟨e0, h0, hk, _, _, hx⟩ := (Filter.removeCensored_exact st (Filter.refTable K reads sm st)).2 x' ex hx'
  rw [hx]
  have hcanon : st = false → ¬ (rc ex.key < ex.key) := fun h => wf.canon h p.1 ex np.ent
  refine ⟨?_, by rw [← hk, Filter.extTarget_eq, ← hcan]; exact htgt⟩
  have he0 : e0 ∈ Filter.refTable K reads sm st := List.mem_of_getElem? h0
  by_cases h : p.2 = s
  · -- the k-mer lies in the node as spelled
    have hterm : termKmer K X.1.seq s = ex.key := by rw [np.term, if_pos h]
    rw [hterm] at hocc hnp
    have hpal : (!st && Compress.isPalindrome ex.key) = false := by
      rcases hnp with h1 | h1
      · rw [h1]; rfl
      · rw [isPal_false_of_ne _ h1]; simp
    have hc := Compress.canonSt_self hcanon hpal
    rw [hk] at hc hpal
    have := Filter.occ_table K (by omega) reads hb sm st e0.key s β (by rw [← hk]; exact hocc) e0 he0 false hc hpal
    simpa [h, Compress.condFlip] using this
  · have hst' : st = false := by
      cases st with
      | false => rfl
      | true => exact absurd (np.strand rfl) h
    subst hst'
    have hs : p.2 = s.flip := by
      cases hh : p.2 <;> cases hs : s <;> simp_all [Dir.flip]
    have hterm : termKmer K X.1.seq s = rc ex.key := by rw [np.term, if_neg h]
    rw [hterm] at hocc hnp
    have hne : rc ex.key ≠ ex.key := by
      rcases hnp with h1 | h1
      · cases h1
      · intro e; apply h1; rw [Compress.rc_rc, e]
    have hpal := isPal_false_of_ne _ hne
    have hc : Compress.canonSt false (rc ex.key) = (ex.key, true) := by
      simp only [Compress.canonSt, Bool.false_eq_true, if_false]
      exact Compress.canonSt_rc (hcanon rfl) hpal
    rw [hk] at hc hpal
    have := Filter.occ_table K (by omega) reads hb sm false (rc e0.key) s β (by rw [← hk]; exact hocc) e0 he0 true hc (by simp [hpal])
    have hne' : ¬ (s.flip = s) := by cases s <;> simp [Dir.flip]
    simpa [hs, hne', Compress.condFlip] using this

/-- **C03 (link lookups are exact).** For every graph, every k-mer and side: the answer of `find_link` satisfies the
    executable predicate `linkExact` that the check evaluates on the crate's answers — an answer names a node whose terminal
    k-mer on the reported side is the queried k-mer (reverse-complemented iff flagged flipped, flipped only unstranded,
    arrival side determined by the flip), and `none` is answered only when no node carries it. -/
theorem C03_link_exact (g : G D) (km : Seq) (d : Dir) : linkExact g km d (findLink g km d) = true := by
  cases h : findLink g km d with
  | some e =>
    obtain ⟨v, s, f⟩ := e
    obtain ⟨nd, hv, hterm, hf0, hf1⟩ := findLink_sound g km d v s f h
    unfold linkExact
    simp only [hv]
    cases f with
    | false =>
      simp only [Bool.false_eq_true, if_false] at hterm ⊢
      have hs := hf0 rfl
      subst hs
      simp [hterm]
    | true =>
      simp only [if_true] at hterm ⊢
      obtain ⟨h1, h2⟩ := hf1 rfl
      subst h1
      simp [h2, hterm]
  | none =>
    unfold linkExact
    simp only [List.all_eq_true, Bool.and_eq_true, bne_iff_ne, ne_eq, Bool.or_eq_true]
    intro n hn
    unfold findLink at h
    cases d with
    | L =>
      simp only at h
      cases h1 : searchKmer g km .R with
      | some i => rw [h1] at h; cases h
      | none =>
        rw [h1] at h
        have hA : ¬ termKmer g.K n.seq .R = km := by
          intro e
          have := (searchKmer_complete g km .R).mpr ⟨n, hn, e⟩
          rw [h1] at this; cases this
        refine ⟨hA, ?_⟩
        cases hst : g.stranded with
        | true => left; rfl
        | false =>
          right
          simp only [hst, Bool.not_false, if_true] at h
          cases h2 : searchKmer g (rc km) .L with
          | some i => rw [h2] at h; cases h
          | none =>
            intro e
            have := (searchKmer_complete g (rc km) .L).mpr ⟨n, hn, e⟩
            rw [h2] at this; cases this
    | R =>
      simp only at h
      cases h1 : searchKmer g km .L with
      | some i => rw [h1] at h; cases h
      | none =>
        rw [h1] at h
        have hA : ¬ termKmer g.K n.seq .L = km := by
          intro e
          have := (searchKmer_complete g km .L).mpr ⟨n, hn, e⟩
          rw [h1] at this; cases this
        refine ⟨hA, ?_⟩
        cases hst : g.stranded with
        | true => left; rfl
        | false =>
          right
          simp only [hst, Bool.not_false, if_true] at h
          cases h2 : searchKmer g (rc km) .R with
          | some i => rw [h2] at h; cases h
          | none =>
            intro e
            have := (searchKmer_complete g (rc km) .R).mpr ⟨n, hn, e⟩
            rw [h2] at this; cases this

end Graph
