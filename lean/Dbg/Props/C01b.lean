import Dbg.Props.C01
import Dbg.Lemmas.BoomCreate
/-! # C01 (continued) — the hash-map glue of `compress_kmers_with_hash`

`compress_kmers_with_hash` reads its input through a `BoomHashMap2<K, Exts, D>`: ids are slots, `get_key_id` turns a
neighbouring k-mer into an id.  The model of `Props/C01` takes the table *in slot order* and looks ids up by position
(`findId`); the theorems there hold for every order.  Here the two are joined above `Mphf`: for every function that is a
minimal perfect hash on the table's keys - arbitrary on other k-mers, whichever builder and schedule produced it -
`create_map` terminates with a table that is a permutation of the rows, and `get_key_id` on it *is* `findId`, for present
and absent k-mers alike.  So the partition theorems apply to the table the real map holds. -/
namespace Compress
variable {D : Type}

/-- `BoomHashMap2::new(keys, exts, data)`: the rows in the slot order the hash function dictates -/
def hashTable (th : Seq → Option Nat) (T : Table D) : Option (Table D) :=
  (Boom.createTable th (T.map fun e => (e.key, e))).map fun R => R.map (·.2)

/-- **C01 (hash-map glue).** -/
theorem C01_hash_index (th : Seq → Option Nat) (T : Table D) (hm : Boom.MPH th (T.map (·.key)))
    (hr : ∀ k pos, th k = some pos → pos < T.length) :
    ∃ T', hashTable th T = some T' ∧ T'.Perm T ∧ ∀ k, Boom.keyIdOf th (T'.map (·.key)) k = some (findId T' k) := by
  have hm' : Boom.MPH th ((T.map fun e => (e.key, e)).map (·.1)) := by
    simpa [List.map_map, Function.comp_def] using hm
  obtain ⟨R, e1, e2, e3⟩ := Boom.createTable_spec th (T.map fun e => (e.key, e)) hm'
  have hfst : ∀ r ∈ R, r.1 = r.2.key := by
    intro r hr'
    have := e2.mem_iff.mp hr'
    simp only [List.mem_map] at this
    obtain ⟨e, _, rfl⟩ := this
    rfl
  have hkeys : (R.map (·.2)).map (·.key) = R.map (·.1) := by
    rw [List.map_map]
    exact List.map_congr_left fun r hr' => (hfst r hr').symm
  have hperm : (R.map (·.2)).Perm T := by
    have := e2.map (·.2)
    simpa [List.map_map, Function.comp_def] using this
  refine ⟨R.map (·.2), by simp only [hashTable, e1, Option.map_some], hperm, ?_⟩
  intro k
  rw [hkeys, Boom.keyId_exact th (R.map (·.1)) e3 (by
    intro k pos h
    have := hr k pos h
    have hl := hperm.length_eq
    simp only [List.length_map] at hl ⊢
    omega) k]
  congr 1
  rw [← hkeys, findId, List.findIdx?_map]
  rfl

/-- **C01 through the real index.** Well-formed reciprocal table, any minimal perfect hash on its keys: the map is built,
    its lookups are the model's, and the graph built over its slot order is a lossless partition of the table's keys. -/
theorem C01_partition_hashed {T : Table D} {K : Nat} {st : Bool} {join : D → D → Bool} (reduce : D → D → D)
    (th : Seq → Option Nat) (hm : Boom.MPH th (T.map (·.key))) (hr : ∀ k pos, th k = some pos → pos < T.length)
    (wf : ∀ T', T'.Perm T → WF T' K st) (hes : ∀ T', T'.Perm T → ExtSym T' st) (hj : ∀ a b, join a b = join b a) :
    ∃ T' out, hashTable th T = some T' ∧ (∀ k, Boom.keyIdOf th (T'.map (·.key)) k = some (findId T' k)) ∧
      compressKmersC T' st join reduce = some out ∧
      (out.flatMap fun x => (windowsOf K x.1.seq).map (fun w => (canonOf st w).1)).Perm (T.map (·.key)) ∧
      ∀ x ∈ out, K ≤ x.1.seq.length := by
  obtain ⟨T', h1, h2, h3⟩ := C01_hash_index th T hm hr
  obtain ⟨out, o1, o2, o3⟩ := C01_partition (join := join) reduce (wf T' h2) (hes T' h2) hj
  exact ⟨T', out, h1, h3, o1, o2.trans (h2.map (·.key)), o3⟩

end Compress
