import Dbg.Lemmas.DnaRefine
/-! # C14 — Growable DNA string is a faithful sequence container

`DnaStr.toSeq d` (the first `len` lanes of the storage blocks) is the base vector a value stands for and
`DnaStr.Inv d` the representation invariant of the anchor (`blocks = ⌈len/32⌉`, all lanes from `len` on
are zero).  Every constructor / mutator establishes or preserves `Inv` and acts on `toSeq` as the same
operation acts on a plain vector (`C14_history`, for every finite history); every observer is a function
of `toSeq` (`C14_observers`); the representation is canonical (`C14_repr_canonical`), so derived
`==`/`Hash` are those of the base vector, and derived `Ord` is its lexicographic order with a proper
prefix first (`C14_cmp_lex`); a packed set returns every added sequence unchanged (`C14_packed_set`). -/
namespace DnaStr

theorem C14_block_set (b : BitVec 64) (i v : Nat) (hi : i < 32) (hv : v < 4) :
    Block64.blockSeq (blockSet b (2 * i) v) = (Block64.blockSeq b).set i v := Block64.dna_blockSet_spec b i v hi hv

theorem C14_block_get (b : BitVec 64) (i : Nat) (hi : i < 32) :
    (Block64.blockSeq b)[i]? = some (blockGet b (2 * i)) := Block64.dna_blockGet_spec b i hi

/-- per-block order: integer order of two blocks = lexicographic order of their 32 bases -/
theorem C14_block_order (a b : BitVec 64) : a.toNat < b.toNat ↔ Block64.blockSeq a < Block64.blockSeq b := block_lt a b

/-- `blank(n)` has ⌈n/32⌉ zero blocks -/
theorem C14_blank (n : Nat) : Inv (blank n) ∧ toSeq (blank n) = List.replicate n 0 := blank_spec n

/-- construction and mutation operations of a history -/
inductive Op
  | push (v : Nat) | extend (bytes : List Nat) | pushBytes (bytes : List Nat) (n : Nat) | set (i v : Nat)
  | clear | blank (n : Nat) | fromBytes (bytes : List Nat) | reverse | rc

/-- the implementation -/
def run (d : T) : Op → Option T
  | .push v => push d v | .extend bs => extend d bs | .pushBytes bs n => pushBytes d bs n | .set i v => setMut d i v
  | .clear => some (clear d) | .blank n => some (blank n) | .fromBytes bs => fromBytes bs | .reverse => reverse d | .rc => rc d

/-- the same operation on a plain vector of bases -/
def runSpec (l : List Nat) : Op → List Nat
  | .push v => l ++ [v] | .extend bs => l ++ bs | .pushBytes bs n => l ++ unpackBytes bs n | .set i v => l.set i v
  | .clear => [] | .blank n => List.replicate n 0 | .fromBytes bs => bs | .reverse => l.reverse | .rc => l.reverse.map (3 - ·)

/-- the arguments the crate documents: base values below 4, `set` inside the string, `push_bytes` within its bytes -/
def Op.ok (l : List Nat) : Op → Prop
  | .push v => v < 4 | .extend bs => ∀ b ∈ bs, b < 4 | .pushBytes bs n => n ≤ bs.length * 4 | .set i v => i < l.length ∧ v < 4
  | .clear => True | .blank _ => True | .fromBytes bs => ∀ b ∈ bs, b < 4 | .reverse => True | .rc => True

theorem C14_step (d : T) (h : Inv d) (op : Op) (hok : op.ok (toSeq d)) :
    ∃ d', run d op = some d' ∧ Inv d' ∧ toSeq d' = runSpec (toSeq d) op := by
  cases op with
  | push v => obtain ⟨d', e, i, s, _⟩ := push_spec d h v hok; exact ⟨d', e, i, s⟩
  | extend bs => obtain ⟨d', e, i, s, _⟩ := extend_spec bs d h hok; exact ⟨d', e, i, s⟩
  | pushBytes bs n => obtain ⟨d', e, i, s, _⟩ := (pushBytes_spec d h bs n).1 hok; exact ⟨d', e, i, s⟩
  | set i v =>
    obtain ⟨d', e, i', s, _⟩ := setMut_spec d h i v (by rw [← toSeq_length d h]; exact hok.1) hok.2
    exact ⟨d', e, i', s⟩
  | clear => exact ⟨_, rfl, (inv_clear d).1, (inv_clear d).2⟩
  | blank n => exact ⟨_, rfl, (blank_spec n).1, (blank_spec n).2⟩
  | fromBytes bs => obtain ⟨d', e, i, s, _⟩ := fromBytes_spec bs hok; exact ⟨d', e, i, s⟩
  | reverse => exact reverse_spec d h
  | rc => exact rc_spec d h

def runAll : List Op → T → Option T
  | [], d => some d
  | op :: ops, d => (run d op).bind (runAll ops)
def specAll : List Op → List Nat → List Nat
  | [], l => l
  | op :: ops, l => specAll ops (runSpec l op)
def okAll : List Op → List Nat → Prop
  | [], _ => True
  | op :: ops, l => op.ok l ∧ okAll ops (runSpec l op)

/-- **C14 (histories).** After any finite sequence of in-range construction / mutation operations the
    value satisfies the representation invariant and stands for exactly the plain vector obtained by the
    same operations; no operation panics. -/
theorem C14_history (ops : List Op) (d : T) (h : Inv d) (hok : okAll ops (toSeq d)) :
    ∃ d', runAll ops d = some d' ∧ Inv d' ∧ toSeq d' = specAll ops (toSeq d) := by
  induction ops generalizing d with
  | nil => exact ⟨d, rfl, h, rfl⟩
  | cons op ops ih =>
    obtain ⟨d1, e1, i1, s1⟩ := C14_step d h op hok.1
    obtain ⟨d2, e2, i2, s2⟩ := ih d1 i1 (by rw [s1]; exact hok.2)
    exact ⟨d2, by simp only [runAll, e1, Option.bind_some]; exact e2, i2, by rw [s2, s1]; rfl⟩

/-- **C14 (observers).** Length, every base, iteration / bytes, ASCII and text renderings of a
    well-formed value are those of its base vector; an index past the end of storage panics, and
    `push_bytes` panics exactly when asked for more fields than its bytes hold. -/
theorem C14_observers (d : T) (h : Inv d) :
    d.len = (toSeq d).length ∧ (∀ i, i < d.len → get d i = (toSeq d)[i]?) ∧ toBytes d = some (toSeq d) ∧
    toAsciiVec d = some ((toSeq d).map bitsToAscii) ∧ display d = some ((toSeq d).map bitsToBase) ∧
    (∀ b ∈ toSeq d, b < 4) :=
  ⟨(toSeq_length d h).symm, get_spec d h, toBytes_spec d h, toAsciiVec_spec d h, display_spec d h, toSeq_lt4 d h⟩

/-- **C14 (canonical representation).** Two well-formed values with the same bases are the same
    `(storage, len)` pair — so derived `==` and `Hash` depend only on the base sequence. -/
theorem C14_repr_canonical (a b : T) (ha : Inv a) (hb : Inv b) : a = b ↔ toSeq a = toSeq b :=
  ⟨fun h => by rw [h], repr_inj a b ha hb⟩

/-- **C14 (ordering).** Derived `Ord` over `(storage, len)` is the lexicographic order of the base
    vectors, a proper prefix sorting first. -/
theorem C14_cmp_lex (a b : T) (ha : Inv a) (hb : Inv b) :
    (cmp a b = .lt ↔ toSeq a < toSeq b) ∧ (cmp a b = .eq ↔ toSeq a = toSeq b) :=
  ⟨cmp_lt_iff a b ha hb, cmp_eq_iff a b ha hb⟩

/-- **C14 (routes agree).** Two histories that produce the same plain vector produce the same value. -/
theorem C14_routes_agree (ops₁ ops₂ : List Op) (d₁ d₂ : T) (h₁ : Inv d₁) (h₂ : Inv d₂)
    (ok₁ : okAll ops₁ (toSeq d₁)) (ok₂ : okAll ops₂ (toSeq d₂))
    (h : specAll ops₁ (toSeq d₁) = specAll ops₂ (toSeq d₂)) : runAll ops₁ d₁ = runAll ops₂ d₂ := by
  obtain ⟨a, ea, ia, sa⟩ := C14_history ops₁ d₁ h₁ ok₁
  obtain ⟨b, eb, ib, sb⟩ := C14_history ops₂ d₂ h₂ ok₂
  rw [ea, eb, repr_inj a b ia ib (by rw [sa, sb, h])]

/-- **C14 (ndiffs).** The packed difference count of two equal-length values is the number of differing positions. -/
theorem C14_ndiffs (a b : T) (ha : Inv a) (hb : Inv b) (hl : a.len = b.len) :
    ndiffs a b = some (KSpec.hamming (toSeq a) (toSeq b)) := ndiffs_spec a b ha hb hl

/-- **C14 (push_bytes guard).** -/
theorem C14_pushBytes_guard (d : T) (bytes : List Nat) (n : Nat) (hn : ¬ n ≤ bytes.length * 4) (h : Inv d) :
    pushBytes d bytes n = none := (pushBytes_spec d h bytes n).2 hn

/-- **C14 (packed set).** After adding sequences one by one (each shorter than 2³² bases, the width of
    the stored length), `get(i)` returns the `i`-th added sequence unchanged. -/
theorem C14_packed_set (seqs : List (List Nat)) (hv : ∀ s ∈ seqs, (∀ b ∈ s, b < 4) ∧ s.length < 2 ^ 32) :
    ∃ ps, seqs.foldl (fun acc s => acc.bind (PSet.add · s)) (some PSet.new) = some ps ∧
      ∀ i (hi : i < seqs.length), PSet.get ps i = some seqs[i] := by
  have key : ∀ (rest added : List (List Nat)) (ps : PSet), PSet.Inv ps added →
      (∀ s ∈ rest, (∀ b ∈ s, b < 4) ∧ s.length < 2 ^ 32) →
      ∃ ps', rest.foldl (fun acc s => acc.bind (PSet.add · s)) (some ps) = some ps' ∧ PSet.Inv ps' (added ++ rest) := by
    intro rest
    induction rest with
    | nil => intro added ps h _; exact ⟨ps, rfl, by simpa using h⟩
    | cons s rest ih =>
      intro added ps h hr
      obtain ⟨ps1, e1, i1⟩ := PSet.add_spec ps added h s (hr s (by simp)).1 (hr s (by simp)).2
      obtain ⟨ps2, e2, i2⟩ := ih (added ++ [s]) ps1 i1 (fun t ht => hr t (by simp [ht]))
      exact ⟨ps2, by simp only [List.foldl_cons, Option.bind_some, e1]; exact e2, by simpa using i2⟩
  obtain ⟨ps, e, i⟩ := key seqs [] PSet.new PSet.inv_new hv
  refine ⟨ps, e, fun j hj => ?_⟩
  have := PSet.get_spec ps ([] ++ seqs) i j (by simpa using hj)
  simpa using this

/-- non-vacuity: a mixed history that crosses a block boundary by both paths -/
example : okAll [.extend (List.replicate 31 1), .push 2, .extend [3, 0, 1], .set 32 2, .pushBytes [0xE4] 4, .rc] (toSeq new) := by
  simp [okAll, Op.ok, runSpec, toSeq_new]

end DnaStr
