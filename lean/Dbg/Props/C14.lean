import Dbg.Model.Slice
/-! # C14 — Growable DNA string is a faithful sequence container (theorems: see below) -/
