import Dbg.Lemmas.Block64
import Dbg.Lemmas.KmerOrder
/-! # C14 — Growable DNA string is a faithful sequence container

Proved so far (block level): a storage block is a `Kmer32` word, `set_by_addr` changes exactly one base of
it and `get_by_addr` reads it (so all of C10/C11 applies per block: in particular the per-block order
embedding used by the derived `Ord`).  The history theorem over `push`/`extend`/… is modelled and compared
with the crate (raw storage words) on every run; it is listed as partial. -/
namespace DnaStr

theorem C14_block_set (b : BitVec 64) (i v : Nat) (hi : i < 32) (hv : v < 4) :
    Block64.blockSeq (blockSet b (2 * i) v) = (Block64.blockSeq b).set i v := Block64.dna_blockSet_spec b i v hi hv

theorem C14_block_get (b : BitVec 64) (i : Nat) (hi : i < 32) :
    (Block64.blockSeq b)[i]? = some (blockGet b (2 * i)) := Block64.dna_blockGet_spec b i hi

/-- per-block order: integer order of two blocks = lexicographic order of their 32 bases -/
theorem C14_block_order (a b : BitVec 64) : a.toNat < b.toNat ↔ Block64.blockSeq a < Block64.blockSeq b :=
  Kmer.lt_iff_lex Block64.k32_wf a b (fun i hi => BitVec.getLsbD_of_ge _ _ (by simpa [Block64.k32] using hi))
    (fun i hi => BitVec.getLsbD_of_ge _ _ (by simpa [Block64.k32] using hi))

/-- `blank(n)` has ⌈n/32⌉ zero blocks -/
theorem C14_blank (n : Nat) : (blank n).len = n ∧ (blank n).storage = List.replicate ((n + 31) / 32) 0#64 := by
  unfold blank
  refine ⟨rfl, ?_⟩
  simp only [show Gen.dnaWidth = 2 from rfl]
  congr 1
  have h1 : (n * 2) >>> 6 = n * 2 / 64 := Nat.shiftRight_eq_div_pow _ 6
  have h2 : (n * 2) &&& 0x3F = n * 2 % 64 := Nat.and_two_pow_sub_one_eq_mod _ 6
  simp only [h1, h2]
  by_cases h : n * 2 % 64 > 0
  · simp only [h, if_true]; omega
  · simp only [h, if_false]; omega

end DnaStr
