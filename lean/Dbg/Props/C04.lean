import Dbg.Model.Pipeline
