import Dbg.Lemmas.IsCompressed2
import Dbg.Props.C08
import Dbg.Props.C02
import Dbg.Props.C09
import Dbg.Model.Pipeline
import Dbg.Lemmas.ShardTables
import Dbg.Lemmas.ShardPipeline
import Dbg.Lemmas.Idempotent
import Dbg.Lemmas.Payload
import Dbg.Lemmas.Adjacency
/-! # C04 — Sharded assembly equals unsharded assembly

**Proved** (`C04_sharded_eq_direct`, last theorem of this file): for every read set and every configuration inside
`msp_sequence`'s contract, neither pipeline panics and the sharded pipeline produces the same partition of the retained
k-mers into nodes as the one-pass pipeline.  Both sides are the classes of the key-level good-link relation of the pruned
reference table.  The chain:

 (i)   every k-mer occurrence of every read lies in exactly one piece, with its true flanks (`C04_link_pieces` = C08);
 (ii)  same k-mer ⇒ same shard, in either strand (`Msp.C08_bucket_pure`, `Msp.C08_bucket_strand_symmetric`);
 (iii) TABLE LEVEL: every shard's `filter_kmers` table is, row for row, the part of the one-pass table in its bucket
       (`C04_shard_tables`, `C04_shard_filter`; `Lemmas/ShardTables`);
 (iv)  the shard tables (pruned the sharded way or not, in any hash order), concatenated, are *sandwiched* between the
       pruned and the full one-pass table (`Compress.shard_sandwich`), hence well-formed and reciprocal, and after pruning
       have the content of the pruned one-pass table (`Lemmas/Sandwich`);
 (v)   the graphs built from the shards, side by side, are *ported* into the concatenated table (`Lemmas/PGraph*`): each
       node is a chain of good links with two end ports; this gives the node-level invariant `GInv` of the combined graph
       and the completeness of `find_link` on it;
 (vi)  `fix_exts` ports the combined graph into the pruned table, node-level good links are exactly the k-mer-level good
       links between end ports (`glink_to_link`, `link_to_glink`), so re-compression (`C09_char`) merges two shard nodes
       iff their k-mers are connected by good links of the pruned table (`Compress.pgraph_recompress`);
 (vii) the canonical k-mers of a re-compressed node are those of the nodes on its path (`final_keys`; stranded graphs are
       never walked reverse-complemented: `compressGraph_dirs_stranded`);
 (viii) good links at the level of keys depend only on the content of a table (`krel_content`), so both pipelines yield
       the classes of one relation (`sharded_classes`, `direct_classes`, `sameParts_of_classes`).

Still decided by execution only (on both real pipelines): equality of the payload totals per node and of the adjacencies. -/
namespace Pipeline
open Compress (Seq Exts Node)

/-- link (i): the pieces of a read tile it exactly -/
def C04_link_pieces := @Msp.C08_pieces_cover

/-- link (iii): per-shard compression yields the components of the shard's good links -/
def C04_link_shard {D : Type} := @Compress.C02_components D

/-- link (iv), first half: re-compression merges every input node at most once and only non-censored ones -/
def C04_link_recompress {D : Type} := @CompressGraph.C09_censored_excluded D

/-! ## The shard tables are the one-pass table, cut by bucket -/

open Filter (observations refTable refAllKmers pieceRead plainRead TilesRead AllTile Summarizer)
open Msp (Piece bucketOf PermInj mspSequence)

theorem mapM_some_cons {α β} (f : α → Option β) (a : α) (l : List α) (out : List β) (h : (a :: l).mapM f = some out) :
    ∃ b bs, f a = some b ∧ l.mapM f = some bs ∧ out = b :: bs := by
  rw [List.mapM_cons] at h
  cases hb : f a with
  | none => rw [hb] at h; cases h
  | some b =>
    rw [hb] at h
    cases hbs : l.mapM f with
    | none => rw [hbs] at h; cases h
    | some bs =>
      rw [hbs] at h
      exact ⟨b, bs, rfl, rfl, by cases h; rfl⟩

theorem allTile_of_mapM (K : Nat) (f : Seq → Option (List Piece)) :
    ∀ (reads : List Seq) (pss : List (List Piece)), reads.mapM f = some pss →
      (∀ r ∈ reads, ∀ ps, f r = some ps → TilesRead K r.toArray ps) → AllTile K reads pss := by
  intro reads
  induction reads with
  | nil => intro pss h _; cases h; trivial
  | cons r rs ih =>
    intro pss h ht
    obtain ⟨b, bs, h1, h2, rfl⟩ := mapM_some_cons f r rs pss h
    exact ⟨ht r (List.mem_cons_self ..) b h1, ih bs h2 (fun r' hr' => ht r' (List.mem_cons_of_mem _ hr'))⟩

theorem mem_of_mapM {α β} (f : α → Option β) :
    ∀ (l : List α) (out : List β), l.mapM f = some out → ∀ b ∈ out, ∃ a ∈ l, f a = some b := by
  intro l
  induction l with
  | nil => intro out h b hb; cases h; cases hb
  | cons a l ih =>
    intro out h b hb
    obtain ⟨b0, bs, h1, h2, rfl⟩ := mapM_some_cons f a l out h
    rcases List.mem_cons.mp hb with rfl | hb'
    · exact ⟨a, List.mem_cons_self .., h1⟩
    · obtain ⟨a', ha', e⟩ := ih bs h2 b hb'
      exact ⟨a', List.mem_cons_of_mem _ ha', e⟩

theorem eraseDups_nodup : ∀ (n : Nat) (l : List Nat), l.length ≤ n → l.eraseDups.Nodup := by
  intro n
  induction n with
  | zero => intro l h; have : l = [] := List.length_eq_zero_iff.mp (by omega); subst this; simp
  | succ n ih =>
    intro l h
    cases l with
    | nil => simp
    | cons a as =>
      rw [List.eraseDups_cons, List.nodup_cons]
      refine ⟨?_, ih _ (by have := List.length_filter_le (fun b => !b == a) as; simp at h; omega)⟩
      rw [List.mem_eraseDups, List.mem_filter]
      rintro ⟨_, h2⟩
      simp at h2

/-- the insertion loop of `shards` over a duplicate-free list: strictly ascending, same elements -/
theorem sortBuckets_spec : ∀ (bs acc : List Nat), acc.Pairwise (· < ·) → bs.Nodup → (∀ b ∈ bs, b ∉ acc) →
    (bs.foldl (fun acc b => (acc.takeWhile (· < b)) ++ [b] ++ (acc.dropWhile (· < b))) acc).Pairwise (· < ·) ∧
    ∀ y, y ∈ bs.foldl (fun acc b => (acc.takeWhile (· < b)) ++ [b] ++ (acc.dropWhile (· < b))) acc ↔ y ∈ acc ∨ y ∈ bs := by
  intro bs
  induction bs with
  | nil => intro acc h _ _; exact ⟨h, fun y => by simp⟩
  | cons b bs ih =>
    intro acc h hn hd
    rw [List.nodup_cons] at hn
    have hb : b ∉ acc := hd b (List.mem_cons_self ..)
    have hins := Filter.insL_spec acc b h
    have e : Filter.insL acc b = (acc.takeWhile (· < b)) ++ [b] ++ (acc.dropWhile (· < b)) := by
      unfold Filter.insL; rw [if_neg (by simpa using hb)]
    rw [e] at hins
    rw [List.foldl_cons]
    obtain ⟨i1, i2⟩ := ih _ hins.1 hn.2 (fun b' hb' hc => by
      rcases (hins.2 b').mp hc with rfl | hc'
      · exact hn.1 hb'
      · exact hd b' (List.mem_cons_of_mem _ hb') hc')
    refine ⟨i1, fun y => ?_⟩
    rw [i2 y, hins.2 y, List.mem_cons]
    constructor
    · rintro ((h1 | h1) | h1)
      · exact Or.inr (Or.inl h1)
      · exact Or.inl h1
      · exact Or.inr (Or.inr h1)
    · rintro (h1 | h1 | h1)
      · exact Or.inl (Or.inr h1)
      · exact Or.inl (Or.inl h1)
      · exact Or.inr h1

/-- the conditions under which `msp_sequence` is within its contract for every read (the C08 hypotheses) -/
structure ShardCfg (K P : Nat) (reads : List Seq) (perm : Option (Array Nat)) : Prop where
  p1 : 1 ≤ P
  pk : P ≤ K
  k4 : 4 ≤ K
  span : 2 * K - P ≤ 65535
  short : ∀ r ∈ reads, r.length < 2 ^ 32
  psize : (perm.getD (Array.range (4 ^ P))).size = 4 ^ P
  pinj : PermInj (perm.getD (Array.range (4 ^ P)))
  pval : ∀ i : Nat, i < (perm.getD (Array.range (4 ^ P))).size → (perm.getD (Array.range (4 ^ P)))[i]?.getD 0 < 2 ^ 64

theorem mspSequence_getD (K P : Nat) (seq : Array Compress.Base) (perm : Option (Array Nat)) (rcMode : Bool) (m : Nat) :
    mspSequence K P seq perm rcMode m = mspSequence K P seq (some (perm.getD (Array.range (4 ^ P)))) rcMode m := by
  cases perm <;> rfl

theorem mapM_total {α β} (f : α → Option β) : ∀ (l : List α), (∀ a ∈ l, ∃ b, f a = some b) → ∃ out, l.mapM f = some out := by
  intro l
  induction l with
  | nil => intro _; exact ⟨[], rfl⟩
  | cons a l ih =>
    intro h
    obtain ⟨b, hb⟩ := h a (List.mem_cons_self ..)
    obtain ⟨bs, hbs⟩ := ih (fun a' ha' => h a' (List.mem_cons_of_mem _ ha'))
    exact ⟨b :: bs, by rw [List.mapM_cons, hb, hbs]; rfl⟩

theorem mem_observations_map {K : Nat} {st : Bool} (all : List Piece) (o : Seq × Exts × Nat)
    (h : o ∈ observations K (all.map pieceRead) st) : ∃ pc ∈ all, o ∈ observations K [pieceRead pc] st := by
  unfold observations at h ⊢
  rw [List.mem_flatMap] at h
  obtain ⟨r, hr, ho⟩ := h
  rw [List.mem_map] at hr
  obtain ⟨pc, hpc, rfl⟩ := hr
  exact ⟨pc, hpc, by simpa using ho⟩

/-- **C04, table level.** For every read set and every configuration inside `msp_sequence`'s contract: the shards are
    produced (no panic), their bucket numbers are strictly ascending (so the shards are key-disjoint), and for every
    shard the reference table of the shard's pieces is, row for row, the part of the one-pass reference table whose keys
    fall into the shard's bucket — same keys, same extension sets, same counts/labels, same order — and the shard's
    list of all k-mers is the corresponding part of the one-pass list.  Every row of the one-pass table lies in the
    shard of its key's bucket. -/
theorem C04_shard_tables (K P : Nat) (reads : List Seq) (perm : Option (Array Nat)) (st : Bool) (sm : Summarizer)
    (cfg : ShardCfg K P reads perm) :
    ∃ shs, shards K P reads perm (!st) = some shs ∧
      (shs.map (·.1)).Pairwise (· < ·) ∧
      (∀ sh ∈ shs,
        refTable K sh.2 sm st = (refTable K (reads.map plainRead) sm st).filter
          (fun e => bucketOf (perm.getD (Array.range (4 ^ P))) (!st) P e.key == sh.1) ∧
        refAllKmers K sh.2 st = (refAllKmers K (reads.map plainRead) st).filter
          (fun k => bucketOf (perm.getD (Array.range (4 ^ P))) (!st) P k == sh.1)) ∧
      (∀ k ∈ refAllKmers K (reads.map plainRead) st,
        ∃ sh ∈ shs, sh.1 = bucketOf (perm.getD (Array.range (4 ^ P))) (!st) P k) := by
  have hK1 : 1 ≤ K := by have := cfg.k4; omega
  -- every read is split, and split into a tiling
  have hsplit : ∀ r ∈ reads, ∃ ps, mspSequence K P r.toArray perm (!st) (2 ^ 64 - 1) = some ps ∧ TilesRead K r.toArray ps := by
    intro r hr
    have hsz : r.toArray.size < 2 ^ 32 := by simpa using cfg.short r hr
    exact Msp.C08_pieces_exact K P r.toArray perm (!st) (2 ^ 64 - 1) cfg.p1 cfg.pk hsz cfg.span
      (by have := cfg.span; omega) (by rw [cfg.psize]; exact Nat.le_refl _) cfg.pval
  obtain ⟨pss, hpss⟩ := mapM_total (fun r : Seq => mspSequence K P r.toArray perm (!st) (2 ^ 64 - 1)) reads
    (fun r hr => by obtain ⟨ps, h1, _⟩ := hsplit r hr; exact ⟨ps, h1⟩)
  have htile : AllTile K reads pss := allTile_of_mapM K _ reads pss hpss (fun r hr ps hps => by
    obtain ⟨ps', h1, h2⟩ := hsplit r hr
    rw [h1] at hps; cases hps; exact h2)
  -- purity of every piece
  have hpure : ∀ pc ∈ pss.flatten, ∀ o ∈ observations K [pieceRead pc] st,
      bucketOf (perm.getD (Array.range (4 ^ P))) (!st) P o.1 = pc.bucket := by
    intro pc hpc
    rw [List.mem_flatten] at hpc
    obtain ⟨ps, hps, hpc⟩ := hpc
    obtain ⟨r, hr, hf⟩ := mem_of_mapM _ reads pss hpss ps hps
    apply Filter.piece_obs_bucket K P cfg.pk _ cfg.psize cfg.pinj st pc
    obtain ⟨ps', h1, h2⟩ := hsplit r hr
    have e : ps' = ps := Option.some.inj (h1.symm.trans hf)
    subst e
    by_cases hs : r.toArray.size < K
    · unfold TilesRead at h2; rw [if_pos hs] at h2; subst h2; cases hpc
    · rw [mspSequence_getD] at h1
      exact Msp.C08_bucket_pure K P r.toArray _ (!st) (2 ^ 64 - 1) ps' cfg.p1 cfg.pk (by omega)
        (by simpa using cfg.short r hr) cfg.span cfg.psize cfg.pinj cfg.pval h1 pc hpc
  have hobs := Filter.reads_observations K hK1 st reads pss htile
  -- the bucket list
  have hsorted := sortBuckets_spec ((pss.flatten.map (·.bucket)).eraseDups) [] List.Pairwise.nil
    (eraseDups_nodup _ _ (Nat.le_refl _)) (fun _ _ h => by cases h)
  refine ⟨_, by unfold shards; simp only; rw [hpss], ?_, ?_, ?_⟩
  · rw [List.map_map]
    have : ((fun (x : Nat × List (Seq × Exts × Nat)) => x.1) ∘ fun b =>
        (b, ((pss.flatten.filter (·.bucket == b)).map fun pc => (pc.seq, (⟨pc.exts⟩ : Exts), 0)))) = id := by
      funext b; rfl
    rw [this, List.map_id]
    exact hsorted.1
  · intro sh hsh
    rw [List.mem_map] at hsh
    obtain ⟨b, _, rfl⟩ := hsh
    simp only
    apply Filter.table_restrict K _ _ sm st (fun k => bucketOf (perm.getD (Array.range (4 ^ P))) (!st) P k == b)
    rw [← hobs]
    exact Filter.shard_observations K st pss.flatten (·.bucket == b)
      (fun k => bucketOf (perm.getD (Array.range (4 ^ P))) (!st) P k == b) (fun pc hpc o ho => by
      show (bucketOf (perm.getD (Array.range (4 ^ P))) (!st) P o.1 == b) = (pc.bucket == b)
      rw [hpure pc hpc o ho])
  · intro k hk
    unfold refAllKmers at hk
    rw [Filter.refGroups_eq, Filter.groupsOf, List.map_map, List.mem_map] at hk
    obtain ⟨k', hk', rfl⟩ := hk
    obtain ⟨o, ho, e⟩ := ((Filter.distinctKeys_spec _).2 k').mp hk'
    rw [← hobs] at ho
    obtain ⟨pc, hpc, hopc⟩ := mem_observations_map _ o ho
    have hb := hpure pc hpc o hopc
    have hmem : pc.bucket ∈ (pss.flatten.map (·.bucket)).eraseDups := by
      rw [List.mem_eraseDups]; exact List.mem_map_of_mem hpc
    refine ⟨_, List.mem_map_of_mem ((hsorted.2 pc.bucket).mpr (Or.inr hmem)), ?_⟩
    simp only [Function.comp, Filter.obsOf]
    rw [← e, hb]

/-- the same for the model of `filter_kmers` itself (any memory budget, hence any number of bucket passes, on either side) -/
theorem C04_shard_filter (K P : Nat) (reads : List Seq) (perm : Option (Array Nat)) (st : Bool) (sm : Summarizer)
    (cfg : ShardCfg K P reads perm) (ra : Bool) (mem mem' bpu sz : Nat) (hm : 1 ≤ mem) (hm' : 1 ≤ mem') (hb : 1 ≤ bpu) :
    ∃ shs full, shards K P reads perm (!st) = some shs ∧
      Filter.filterKmers K (reads.map plainRead) sm st ra mem' bpu sz = some full ∧
      ∀ sh ∈ shs, ∃ part, Filter.filterKmers K sh.2 sm st ra mem bpu sz = some part ∧
        part.table = full.table.filter (fun e => bucketOf (perm.getD (Array.range (4 ^ P))) (!st) P e.key == sh.1) ∧
        part.allKmers = full.allKmers.filter (fun k => bucketOf (perm.getD (Array.range (4 ^ P))) (!st) P k == sh.1) := by
  obtain ⟨shs, h1, _, h3, _⟩ := C04_shard_tables K P reads perm st sm cfg
  obtain ⟨full, f1, f2, f3⟩ := Filter.filterKmers_eq_ref K (reads.map plainRead) sm st ra mem' bpu sz cfg.k4 hm' hb
  refine ⟨shs, full, h1, f1, fun sh hsh => ?_⟩
  obtain ⟨part, p1, p2, p3⟩ := Filter.filterKmers_eq_ref K sh.2 sm st ra mem bpu sz cfg.k4 hm hb
  refine ⟨part, p1, ?_, ?_⟩
  · rw [p2, f2]; exact (h3 sh hsh).1
  · rw [p3, f3]
    cases ra with
    | true => simp only [if_true]; exact (h3 sh hsh).2
    | false => simp

theorem permInj_range (n : Nat) : PermInj (Array.range n) := by
  intro i j hi hj h
  simp only [Array.size_range] at hi hj
  rw [Array.getElem?_eq_getElem (by simpa using hi), Array.getElem?_eq_getElem (by simpa using hj)] at h
  simpa using h

/-- the hypotheses are satisfiable: the default permutation with any `1 ≤ P ≤ K`, `4 ≤ K`, `2K - P ≤ 65535` and reads
    shorter than 2^32 -/
theorem shardCfg_default (K P : Nat) (reads : List Seq) (h1 : 1 ≤ P) (h2 : P ≤ K) (h3 : 4 ≤ K) (h4 : 2 * K - P ≤ 65535)
    (h5 : ∀ r ∈ reads, r.length < 2 ^ 32) (h6 : 4 ^ P ≤ 2 ^ 64) : ShardCfg K P reads none where
  p1 := h1
  pk := h2
  k4 := h3
  span := h4
  short := h5
  psize := by simp
  pinj := permInj_range _
  pval := by
    intro i hi
    simp only [Option.getD_none, Array.size_range] at hi ⊢
    rw [Array.getElem?_eq_getElem (by simpa using hi)]
    simp; omega

/-! ## The end-to-end theorem -/

open Compress (SameParts AllBuilt AllPerm shardT0 Table)

theorem mapM_of_allBuilt {α D : Type} (st : Bool) (join : D → D → Bool) (reduce : D → D → D) (tbl : α → Table D)
    (body : α → Option (List (Node D))) :
    ∀ (l : List α) (outs : List (List (Node D × List Nat))),
      (∀ x ∈ l, body x = (Compress.compressKmersC (tbl x) st join reduce).map fun o => o.map (·.1)) →
      AllBuilt st join reduce (l.map tbl) outs → l.mapM body = some (outs.map fun o => o.map (·.1)) := by
  intro l
  induction l with
  | nil => intro outs _ h; cases outs with
    | nil => rfl
    | cons _ _ => exact absurd h (by simp [AllBuilt])
  | cons x xs ih =>
    intro outs hbody h
    cases outs with
    | nil => exact absurd h (by simp [AllBuilt])
    | cons o os =>
      obtain ⟨h1, h2⟩ : Compress.compressKmersC (tbl x) st join reduce = some o ∧ AllBuilt st join reduce (xs.map tbl) os := h
      rw [List.mapM_cons, hbody x (List.mem_cons_self ..), h1, ih os (fun y hy => hbody y (List.mem_cons_of_mem _ hy)) h2]
      rfl

theorem allPerm_of_sigmas {D : Type} (T0 : Nat → Table D) :
    ∀ (bs : List Nat) (sigmas : List (List Nat)), sigmas.length = bs.length →
      (∀ (i : Nat) (b : Nat) (sg : List Nat), bs[i]? = some b → sigmas[i]? = some sg → sg.Perm (List.range (T0 b).length)) →
      AllPerm ((bs.zip sigmas).map fun p => p.2.filterMap fun i => (T0 p.1)[i]?) (bs.map T0) := by
  intro bs
  induction bs with
  | nil => intro sigmas _ _; simp [AllPerm]
  | cons b bs ih =>
    intro sigmas hl hp
    cases sigmas with
    | nil => simp at hl
    | cons sg sgs =>
      simp only [List.zip_cons_cons, List.map_cons]
      exact ⟨Compress.perm_of_sigma _ sg (hp 0 b sg rfl rfl),
        ih sgs (by simpa using hl) (fun i b' sg' h1 h2 => hp (i + 1) b' sg' (by simpa using h1) (by simpa using h2))⟩

theorem refTable_keys_sub_all (K : Nat) (reads : List (Seq × Exts × Nat)) (sm : Summarizer) (st : Bool) :
    ∀ e ∈ refTable K reads sm st, e.key ∈ refAllKmers K reads st := by
  intro e he
  unfold refTable at he
  obtain ⟨g, hg, hr⟩ := List.mem_filterMap.mp he
  unfold refAllKmers
  refine List.mem_map.mpr ⟨g, hg, ?_⟩
  obtain ⟨k, obs⟩ := g
  simp only at hr
  split at hr
  · cases hr; rfl
  · cases hr

/-- the hash-map orders handed to the model are permutations of the table positions (the harness reads them back from
    the real maps) -/
structure SigmasOK (K P : Nat) (reads : List Seq) (perm : Option (Array Nat)) (st : Bool) (thr : Nat)
    (sigmas : List (List Nat)) (dsigma : List Nat) : Prop where
  shardsOK : ∀ shs, shards K P reads perm (!st) = some shs → sigmas.length = shs.length ∧
    ∀ (i : Nat) (sh : Nat × List (Seq × Exts × Nat)) (sg : List Nat), shs[i]? = some sh → sigmas[i]? = some sg →
      sg.Perm (List.range (refTable K sh.2 (.count thr) st).length)
  directOK : dsigma.Perm (List.range (refTable K (reads.map plainRead) (.count thr) st).length)

/-- what the two pipeline models compute, in terms of the reference table `R`, the shard tables `Ts` (in hash-map order)
    and the one-pass table `Td` (in hash-map order) -/
structure PipeSetup (K P : Nat) (reads : List Seq) (perm : Option (Array Nat)) (st : Bool) (thr : Nat) (prune : Bool)
    (sigmas : List (List Nat)) (dsigma : List Nat) (R : Table Filter.Payload) (Ts : List (Table Filter.Payload))
    (Td : Table Filter.Payload) : Prop where
  hR : R = refTable K (reads.map plainRead) (.count thr) st
  wfR : Compress.WF R K st
  hesR : Filter.ExtSym2 R st
  sw : Compress.Sandwich st Ts.flatten R
  hpd : Td.Perm (Filter.removeCensoredExts st R)
  shardedEq : ∀ outs g' paths, AllBuilt st (fun _ _ => true) sumReduce Ts outs →
    CompressGraph.compressGraph st (⟨K, (outs.map fun o => o.map (·.1)).flatten, st⟩ : Graph.G Filter.Payload) (fun _ _ => true) sumReduce [] = some (g', paths) →
    sharded K P reads perm st thr prune sigmas = some g'
  directEq : ∀ outd, Compress.compressKmersC Td st (fun _ _ => true) sumReduce = some outd →
    direct K (reads.map plainRead) st thr dsigma = some ⟨K, outd.map (·.1), st⟩

theorem pipe_setup (K P : Nat) (reads : List Seq) (perm : Option (Array Nat)) (st : Bool) (thr : Nat) (prune : Bool)
    (sigmas : List (List Nat)) (dsigma : List Nat) (cfg : ShardCfg K P reads perm)
    (hs : SigmasOK K P reads perm st thr sigmas dsigma) :
    ∃ R Ts Td, PipeSetup K P reads perm st thr prune sigmas dsigma R Ts Td := by
  have hK1 : 1 ≤ K := by have := cfg.k4; omega
  have hnb : Filter.NoBoundary (reads.map plainRead) := by
    intro r hr; obtain ⟨r0, _, rfl⟩ := List.mem_map.mp hr; rfl
  generalize hR : refTable K (reads.map plainRead) (Summarizer.count thr) st = R at *
  generalize hallR : refAllKmers K (reads.map plainRead) st = allR at *
  have wfR : Compress.WF R K st := by rw [← hR]; exact Filter.refTable_wf K hK1 _ hnb (Summarizer.count thr) st
  have hesR : Filter.ExtSym2 R st := by rw [← hR]; exact Filter.refTable_extSym2 K hK1 _ hnb (Summarizer.count thr) st
  obtain ⟨shs, hshards, hasc, htab, hcov⟩ := C04_shard_tables K P reads perm st (Summarizer.count thr) cfg
  rw [hR, hallR] at htab
  rw [hallR] at hcov
  obtain ⟨hslen, hsperm⟩ := hs.shardsOK shs hshards
  generalize hf : (fun k => bucketOf (perm.getD (Array.range (4 ^ P))) (!st) P k) = f at *
  have htab' : ∀ sh ∈ shs, refTable K sh.2 (Summarizer.count thr) st = R.filter (fun e => f e.key == sh.1) ∧
      refAllKmers K sh.2 st = allR.filter (fun k => f k == sh.1) := by
    intro sh hsh; rw [← hf]; exact htab sh hsh
  -- the shard tables in hash-map order
  let T0 : Nat → Table Filter.Payload := shardT0 st prune R allR f
  let Ts : List (Table Filter.Payload) := (shs.zip sigmas).map fun p => p.2.filterMap fun i => (T0 p.1.1)[i]?
  have hbsnd : (shs.map (·.1)).Nodup := hasc.imp (fun h => Nat.ne_of_lt h)
  have hT0len : ∀ sh ∈ shs, (T0 sh.1).length = (refTable K sh.2 (Summarizer.count thr) st).length := by
    intro sh hsh
    show (shardT0 st prune R allR f sh.1).length = _
    have := congrArg List.length (Compress.shardT0_keys st prune R allR f sh.1)
    simp only [List.length_map] at this
    rw [this, (htab' sh hsh).1]
  have hperm : AllPerm Ts ((shs.map (·.1)).map T0) := by
    have h := allPerm_of_sigmas T0 (shs.map (·.1)) sigmas (by simpa using hslen) (fun i b sg hb hsg => by
      rw [List.getElem?_map] at hb
      cases hsh : shs[i]? with
      | none => rw [hsh] at hb; cases hb
      | some sh =>
        rw [hsh] at hb
        simp only [Option.map_some, Option.some.injEq] at hb
        subst hb
        rw [hT0len sh (List.mem_of_getElem? hsh)]
        exact hsperm i sh sg hsh hsg)
    have e : ((shs.map (·.1)).zip sigmas).map (fun p => p.2.filterMap fun i => (T0 p.1)[i]?) = Ts := by
      show _ = (shs.zip sigmas).map _
      rw [List.zip_map_left, List.map_map]
      rfl
    rw [e] at h; exact h
  have hcovR : ∀ e ∈ R, f e.key ∈ shs.map (·.1) := by
    intro e he
    have : e.key ∈ allR := by
      rw [← hallR]; rw [← hR] at he; exact refTable_keys_sub_all K _ (Summarizer.count thr) st e he
    obtain ⟨sh, hsh, hb⟩ := hcov e.key this
    rw [← hf]; simp only; rw [← hb]; exact List.mem_map_of_mem hsh
  have sw := Compress.shard_sandwich R wfR allR f (shs.map (·.1)) hbsnd hcovR prune Ts hperm
  -- the one-pass table in hash-map order
  let Td : Table Filter.Payload := dsigma.filterMap fun i => (Filter.removeCensoredExts st R)[i]?
  have hpd : Td.Perm (Filter.removeCensoredExts st R) := by
    apply Compress.perm_of_sigma
    rw [(Filter.removeCensored_exact st R).1, ← hR]; exact hs.directOK
  refine ⟨R, Ts, Td, hR.symm, wfR, hesR, sw, hpd, ?_, ?_⟩
  · intro outs g' paths hb hcg
    unfold sharded
    rw [hshards]
    simp only
    have hbody : ∀ x ∈ shs.zip sigmas, shardGraph K st thr prune x.1.2 x.2 =
        (Compress.compressKmersC (x.2.filterMap fun i => (T0 x.1.1)[i]?) st (fun _ _ => true) sumReduce).map fun o => o.map (·.1) := by
      intro x hx
      have hsh : x.1 ∈ shs := (List.of_mem_zip hx).1
      obtain ⟨fr, hfr, ht, ha⟩ := Filter.filterKmers_eq_ref K x.1.2 (Summarizer.count thr) st prune 4 Gen.filterBytesPerUnit 16 cfg.k4 (by decide) (by decide)
      unfold shardGraph
      rw [hfr]
      simp only
      have e : (if prune then Filter.removeCensoredExtsSharded st fr.table fr.allKmers else fr.table) = T0 x.1.1 := by
        show _ = shardT0 st prune R allR f x.1.1
        unfold shardT0
        rw [ht, ha, (htab' x.1 hsh).1]
        cases prune
        · rfl
        · simp only [if_true]; rw [(htab' x.1 hsh).2]
      rw [e]
      cases Compress.compressKmersC (x.2.filterMap fun i => (T0 x.1.1)[i]?) st (fun _ _ => true) sumReduce <;> rfl
    have hm := mapM_of_allBuilt st (fun _ _ => true) sumReduce
      (fun (x : (Nat × List (Seq × Exts × Nat)) × List Nat) => x.2.filterMap fun i => (T0 x.1.1)[i]?) _ (shs.zip sigmas) outs hbody hb
    rw [hm]
    simp only [combine]
    rw [hcg]
    rfl
  · intro outd hod
    unfold direct
    obtain ⟨fr, hfr, ht, _⟩ := Filter.filterKmers_eq_ref K (reads.map plainRead) (Summarizer.count thr) st false 4 Gen.filterBytesPerUnit 16 cfg.k4 (by decide) (by decide)
    have e : (reads.map plainRead) = reads.map fun r => (r, (⟨0⟩ : Exts), 0) := rfl
    rw [hfr]
    simp only
    rw [ht, hR]
    have : Compress.compressKmersC (dsigma.filterMap fun i => (Filter.removeCensoredExts st R)[i]?) st (fun _ _ => true) sumReduce = some outd := hod
    rw [this]


/-- **C04 (partition).** For every read set, every configuration inside `msp_sequence`'s contract (`1 ≤ P ≤ K`, `K ≥ 4`,
    the default or any injective minimizer permutation), stranded or not, every count threshold, with or without the
    sharded pruning step, and every order in which the hash maps list their keys: **neither pipeline panics, and the
    sharded pipeline — minimizer partition, per-shard filter (and pruning), per-shard compression, combination,
    re-compression — produces the same partition of the retained k-mers into nodes as the one-pass pipeline**: every node
    of either graph has exactly the canonical k-mers of some node of the other.  Moreover the sharded pipeline's final
    graph satisfies the node-level invariant `GInv` (symmetric edges, complete `find_link`, complete GFA export). -/
theorem C04_sharded_eq_direct (K P : Nat) (reads : List Seq) (perm : Option (Array Nat)) (st : Bool) (thr : Nat) (prune : Bool)
    (sigmas : List (List Nat)) (dsigma : List Nat) (cfg : ShardCfg K P reads perm)
    (hs : SigmasOK K P reads perm st thr sigmas dsigma) :
    ∃ gs gd, sharded K P reads perm st thr prune sigmas = some gs ∧
      direct K (reads.map plainRead) st thr dsigma = some gd ∧ SameParts K st gs.nodes gd.nodes ∧
      Graph.GInv gs ∧ CompressGraph.PalEnd gs := by
  obtain ⟨R, Ts, Td, ps⟩ := pipe_setup K P reads perm st thr prune sigmas dsigma cfg hs
  obtain ⟨outs, g', paths, outd, hb, hcg, hod, hsame⟩ := Compress.sharded_eq_direct_abstract ps.wfR ps.hesR Ts ps.sw sumReduce (fun _ _ => true) (fun _ _ => rfl) Td ps.hpd
  obtain ⟨outs2, g2, paths2, hb2, hcg2, hginv, hpalend⟩ := Compress.sharded_result_ginv ps.wfR ps.hesR Ts ps.sw sumReduce (fun _ _ => true) (fun _ _ => rfl)
  have houts := Compress.allBuilt_unique _ _ Ts outs outs2 hb hb2
  subst houts
  rw [hcg] at hcg2
  have hg2 : g' = g2 := by have := Option.some.inj hcg2; exact congrArg Prod.fst this
  subst hg2
  exact ⟨g', ⟨K, outd.map (·.1), st⟩, ps.shardedEq outs g' paths hb hcg, ps.directEq outd hod, hsame, hginv, hpalend⟩

/-- **C04 (the final graph is fully compressed by the crate's own check).** Under the same hypotheses `is_compressed` returns
    `None` on the sharded pipeline's final graph: the `debug_assert!` that ends `compress_graph` cannot fire in the pipeline, and
    the assertion the crate's sharded tests make on their samples holds for every read set. -/
theorem C04_final_is_compressed (K P : Nat) (reads : List Seq) (perm : Option (Array Nat)) (st : Bool) (thr : Nat) (prune : Bool)
    (sigmas : List (List Nat)) (dsigma : List Nat) (cfg : ShardCfg K P reads perm)
    (hs : SigmasOK K P reads perm st thr sigmas dsigma) :
    ∃ gs, sharded K P reads perm st thr prune sigmas = some gs ∧ Graph.isCompressed gs (fun _ _ => true) = none := by
  obtain ⟨R, Ts, Td, ps⟩ := pipe_setup K P reads perm st thr prune sigmas dsigma cfg hs
  obtain ⟨outs, g', paths, hb, hcg, hic⟩ := Compress.sharded_result_isCompressed ps.wfR ps.hesR Ts ps.sw sumReduce (fun _ _ => true) (fun _ _ => rfl)
  exact ⟨g', ps.shardedEq outs g' paths hb hcg, hic⟩

/-- **C04 (payload totals).** Under the same hypotheses: a node of the sharded pipeline's final graph and a node of the
    one-pass graph that have the same k-mers have the same payload — the count total of the node, saturating at 2^32-1,
    whatever the order in which shards, walks and re-compression folded the counts.  (By `C04_sharded_eq_direct` every node
    of either graph has such a partner.) -/
theorem C04_payloads_agree (K P : Nat) (reads : List Seq) (perm : Option (Array Nat)) (st : Bool) (thr : Nat) (prune : Bool)
    (sigmas : List (List Nat)) (dsigma : List Nat) (cfg : ShardCfg K P reads perm)
    (hs : SigmasOK K P reads perm st thr sigmas dsigma) :
    ∃ gs gd, sharded K P reads perm st thr prune sigmas = some gs ∧
      direct K (reads.map plainRead) st thr dsigma = some gd ∧
      ∀ n ∈ gs.nodes, ∀ m ∈ gd.nodes, (∀ k, k ∈ Compress.canonKeys K st n ↔ k ∈ Compress.canonKeys K st m) → n.data = m.data := by
  obtain ⟨R, Ts, Td, ps⟩ := pipe_setup K P reads perm st thr prune sigmas dsigma cfg hs
  have hgR : Compress.GoodData R := by rw [ps.hR]; exact Compress.refTable_goodData K _ thr st
  obtain ⟨outs, g', paths, outd, hb, hcg, hod, hdata⟩ :=
    Compress.sharded_payload_abstract ps.wfR ps.hesR hgR Ts ps.sw (fun _ _ => true) (fun _ _ => rfl) Td ps.hpd
  exact ⟨g', ⟨K, outd.map (·.1), st⟩, ps.shardedEq outs g' paths hb hcg, ps.directEq outd hod, hdata⟩

/-- **C04 (adjacencies).** Under the same hypotheses the two final graphs have the same adjacencies: as unordered pairs of
    canonical k-mers, the steps between consecutive k-mers inside nodes together with the edges `find_link` resolves
    between node ends are, in both graphs, exactly the extensions recorded in the pruned reference table. -/
theorem C04_adjacencies_agree (K P : Nat) (reads : List Seq) (perm : Option (Array Nat)) (st : Bool) (thr : Nat) (prune : Bool)
    (sigmas : List (List Nat)) (dsigma : List Nat) (cfg : ShardCfg K P reads perm)
    (hs : SigmasOK K P reads perm st thr sigmas dsigma) :
    ∃ gs gd, sharded K P reads perm st thr prune sigmas = some gs ∧
      direct K (reads.map plainRead) st thr dsigma = some gd ∧
      ∀ k1 k2, Compress.AdjGS K st gs.nodes k1 k2 ↔ Compress.AdjGS K st gd.nodes k1 k2 := by
  obtain ⟨R, Ts, Td, ps⟩ := pipe_setup K P reads perm st thr prune sigmas dsigma cfg hs
  obtain ⟨outs, g', paths, outd, hb, hcg, hod, hadj⟩ :=
    Compress.sharded_adjacency_abstract ps.wfR ps.hesR Ts ps.sw sumReduce (fun _ _ => true) (fun _ _ => rfl) Td ps.hpd
  exact ⟨g', ⟨K, outd.map (·.1), st⟩, ps.shardedEq outs g' paths hb hcg, ps.directEq outd hod, hadj⟩

/-- the hypotheses on the hash orders are satisfiable: the identity orders -/
theorem sigmasOK_identity (K P : Nat) (reads : List Seq) (perm : Option (Array Nat)) (st : Bool) (thr : Nat)
    (cfg : ShardCfg K P reads perm) :
    ∃ sigmas dsigma, SigmasOK K P reads perm st thr sigmas dsigma := by
  obtain ⟨shs, hshards, _⟩ := C04_shard_tables K P reads perm st (.count thr) cfg
  refine ⟨shs.map fun sh => List.range (refTable K sh.2 (.count thr) st).length, List.range _, ?_, List.Perm.refl _⟩
  intro shs' h
  rw [hshards] at h
  cases h
  refine ⟨by simp, fun i sh sg hsh hsg => ?_⟩
  rw [List.getElem?_map, hsh] at hsg
  simp only [Option.map_some, Option.some.injEq] at hsg
  rw [← hsg]

end Pipeline
