import Dbg.Props.C08
import Dbg.Props.C02
import Dbg.Props.C09
import Dbg.Model.Pipeline
/-! # C04 — Sharded assembly equals unsharded assembly

The full statement (`C04_sharded_eq_direct_full`) is the deepest chain of the project: both pipelines equal the
connected components of the good-link relation of the pruned reference table.  Its links, and their status:

 (i)   every k-mer occurrence of every read lies in exactly one piece, with its true flanks — PROVED (`C04_link_pieces`,
       = C08_pieces_cover / C08_pieces_exact);
 (ii)  same k-mer ⇒ same shard, in either strand (bucket purity) — PROVED (`Msp.C08_bucket_pure`, `Msp.C08_bucket_strand_symmetric`);
 (iii) each shard's nodes are the components of the good links inside the shard — PROVED at id level (`C04_link_shard`, = C02_components);
 (iv)  re-compression of the combined graph merges exactly along surviving node-level links and never duplicates or
       drops a node — partly PROVED (`C04_link_recompress`, = C09_censored_excluded), characterisation missing;
 (v)   components of components are components — not yet proved.

Until (iv), (v) are closed the property is decided by evaluating the equality of canonical partitions, payload
totals and adjacencies on the two real pipelines, and by diffing both with the composed model. -/
namespace Pipeline
open Compress (Seq Exts Node)

/-- canonical partition of a graph: the set of canonical k-mer sets of its nodes -/
def partitionOf (g : Graph.G Filter.Payload) : List (List Seq) :=
  g.nodes.map fun n => Compress.sortSeqs ((Compress.windowsOf g.K n.seq).map fun w => (Compress.canonOf g.stranded w).1)

def SamePartition (a b : Graph.G Filter.Payload) : Prop :=
  (∀ p ∈ partitionOf a, p ∈ partitionOf b) ∧ (∀ p ∈ partitionOf b, p ∈ partitionOf a)

/-- Full statement of C04 (to be proved). -/
def C04_sharded_eq_direct_full : Prop :=
  ∀ (K P : Nat) (reads : List Seq) (perm : Option (Array Nat)) (stranded : Bool) (thr : Nat) (prune : Bool)
    (sigmas : List (List Nat)) (dsigma : List Nat) (gs gd : Graph.G Filter.Payload),
    1 ≤ P → P < K →
    sharded K P reads perm stranded thr prune sigmas = some gs →
    direct K (reads.map fun r => (r, (⟨0⟩ : Exts), 0)) stranded thr dsigma = some gd →
    SamePartition gs gd

/-- link (i): the pieces of a read tile it exactly -/
def C04_link_pieces := @Msp.C08_pieces_cover

/-- link (iii): per-shard compression yields the components of the shard's good links -/
def C04_link_shard {D : Type} := @Compress.C02_components D

/-- link (iv), first half: re-compression merges every input node at most once and only non-censored ones -/
def C04_link_recompress {D : Type} := @CompressGraph.C09_censored_excluded D

end Pipeline
