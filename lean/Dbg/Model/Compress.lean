import Dbg.Model.Seq
/-! String-level model of `CompressFromHash` (compression.rs 355-583). -/
namespace Compress
open Walk (Dir rm mem_rm rm_length_lt)

structure Entry (D : Type) where
  key : Seq
  exts : Exts
  data : D

abbrev Table (D : Type) := List (Entry D)

def findId {D} (T : Table D) (k : Seq) : Option Nat := T.findIdx? (·.key == k)

/-- `min_rc_flip` when unstranded, identity when stranded -/
def canonSt (stranded : Bool) (raw : Seq) : Seq × Bool := if stranded then (raw, false) else minRcFlip raw

inductive Static
  | blocked (e : Exts)
  | absent (e : Exts)
  | cand (y : Nat) (d' : Dir) (ok panic : Bool) (e : Exts)

/-- everything `try_extend_kmer` computes that does not depend on availability -/
def staticStep {D} (T : Table D) (stranded : Bool) (join : D → D → Bool) (x : Nat) (d : Dir) : Static :=
  match T[x]? with
  | none => .blocked ⟨0⟩          -- unreachable: ids come from the table
  | some ex =>
    if ex.exts.numExtDir d != 1 || (!stranded && isPalindrome ex.key) then .blocked (ex.exts.singleDir d)
    else match ex.exts.uniqueExt d with
      | none => .blocked (ex.exts.singleDir d)
      | some b =>
        let nf := canonSt stranded (extend ex.key b d)
        match findId T nf.1 with
        | none => .absent (ex.exts.singleDir d)
        | some y =>
          match T[y]? with
          | none => .absent (ex.exts.singleDir d)
          | some ey =>
            let isPal := !stranded && isPalindrome nf.1
            let cnt := ey.exts.numExtDir (condFlip d.flip nf.2)
            .cand y (condFlip d nf.2) (join ex.data ey.data && cnt == 1 && !isPal) (cnt == 0 && !isPal)
              (ex.exts.singleDir d)

inductive ExtMode
  | unique (y : Nat) (d : Dir)
  | terminal (e : Exts)
  | panic

/-- `try_extend_kmer` in the code's order: availability is tested before the incoming count -/
def tryExtend {D} (T : Table D) (stranded : Bool) (join : D → D → Bool) (avail : List Nat) (x : Nat) (d : Dir) : ExtMode :=
  match staticStep T stranded join x d with
  | .blocked e => .terminal e
  | .absent e => .terminal e
  | .cand y d' ok panic e =>
    if y ∉ avail then .terminal e
    else if panic then .panic
    else if ok then .unique y d' else .terminal e

/-- `extend_kmer`; `none` = the "unreachable" panic -/
def walkC {D} (T : Table D) (stranded : Bool) (join : D → D → Bool) (avail : List Nat) (x : Nat) (d : Dir) :
    Option (List (Nat × Dir) × Exts × List Nat) :=
  match h : tryExtend T stranded join avail x d with
  | .unique y d' =>
    if hy : y ∈ avail then
      match walkC T stranded join (rm avail y) y d' with
      | some (p, e, a) => some ((y, d') :: p, e, a)
      | none => none
    else none   -- cannot happen: tryExtend only returns available ids
  | .terminal e => some ([], e, avail)
  | .panic => none
termination_by avail.length
decreasing_by exact rm_length_lt hy

/-- the abstract link induced by a table -/
def linkOf {D} (T : Table D) (stranded : Bool) (join : D → D → Bool) : Walk.Link := fun x d =>
  match staticStep T stranded join x d with
  | .cand y d' true false _ => some (y, d')
  | _ => none

def NoPanic {D} (T : Table D) (stranded : Bool) (join : D → D → Bool) : Prop :=
  ∀ x d y d' ok e, staticStep T stranded join x d ≠ .cand y d' ok true e

end Compress
