import Dbg.Model.Seq
/-! String-level model of `CompressFromHash` (compression.rs 355-583). -/
namespace Compress
open Walk (Dir rm mem_rm rm_length_lt)

structure Entry (D : Type) where
  key : Seq
  exts : Exts
  data : D

abbrev Table (D : Type) := List (Entry D)

def findId {D} (T : Table D) (k : Seq) : Option Nat := T.findIdx? (·.key == k)

/-- `min_rc_flip` when unstranded, identity when stranded -/
def canonSt (stranded : Bool) (raw : Seq) : Seq × Bool := if stranded then (raw, false) else minRcFlip raw

inductive Static
  | blocked (e : Exts)
  | absent (e : Exts)
  | cand (y : Nat) (d' : Dir) (ok panic : Bool) (e : Exts)

/-- everything `try_extend_kmer` computes that does not depend on availability -/
def staticStep {D} (T : Table D) (stranded : Bool) (join : D → D → Bool) (x : Nat) (d : Dir) : Static :=
  match T[x]? with
  | none => .blocked ⟨0⟩          -- unreachable: ids come from the table
  | some ex =>
    if ex.exts.numExtDir d != 1 || (!stranded && isPalindrome ex.key) then .blocked (ex.exts.singleDir d)
    else match ex.exts.uniqueExt d with
      | none => .blocked (ex.exts.singleDir d)
      | some b =>
        let nf := canonSt stranded (extend ex.key b d)
        match findId T nf.1 with
        | none => .absent (ex.exts.singleDir d)
        | some y =>
          match T[y]? with
          | none => .absent (ex.exts.singleDir d)
          | some ey =>
            let isPal := !stranded && isPalindrome nf.1
            let cnt := ey.exts.numExtDir (condFlip d.flip nf.2)
            .cand y (condFlip d nf.2) (join ex.data ey.data && cnt == 1 && !isPal) (cnt == 0 && !isPal)
              (ex.exts.singleDir d)

inductive ExtMode
  | unique (y : Nat) (d : Dir)
  | terminal (e : Exts)
  | panic

/-- `try_extend_kmer` in the code's order: availability is tested before the incoming count -/
def tryExtend {D} (T : Table D) (stranded : Bool) (join : D → D → Bool) (avail : List Nat) (x : Nat) (d : Dir) : ExtMode :=
  match staticStep T stranded join x d with
  | .blocked e => .terminal e
  | .absent e => .terminal e
  | .cand y d' ok panic e =>
    if y ∉ avail then .terminal e
    else if panic then .panic
    else if ok then .unique y d' else .terminal e

/-- `extend_kmer`; `none` = the "unreachable" panic -/
def walkC {D} (T : Table D) (stranded : Bool) (join : D → D → Bool) (avail : List Nat) (x : Nat) (d : Dir) :
    Option (List (Nat × Dir) × Exts × List Nat) :=
  match h : tryExtend T stranded join avail x d with
  | .unique y d' =>
    if hy : y ∈ avail then
      match walkC T stranded join (rm avail y) y d' with
      | some (p, e, a) => some ((y, d') :: p, e, a)
      | none => none
    else none   -- cannot happen: tryExtend only returns available ids
  | .terminal e => some ([], e, avail)
  | .panic => none
termination_by avail.length
decreasing_by exact rm_length_lt hy

/-- the abstract link induced by a table -/
def linkOf {D} (T : Table D) (stranded : Bool) (join : D → D → Bool) : Walk.Link := fun x d =>
  match staticStep T stranded join x d with
  | .cand y d' true false _ => some (y, d')
  | _ => none

def NoPanic {D} (T : Table D) (stranded : Bool) (join : D → D → Bool) : Prop :=
  ∀ x d y d' ok e, staticStep T stranded join x d ≠ .cand y d' ok true e

end Compress

/-! ## Node assembly (`build_node`, compression.rs 453-520) and the driver loop (523-566) -/
namespace Compress
open Walk (Dir rm)

structure Node (D : Type) where
  seq : Seq
  exts : Exts
  data : D
deriving Repr

/-- `Exts::from_single_dirs(left, right)`: `(right.val << 4) | (left.val & 0xf)` on `u8` -/
def Exts.fromSingleDirs (l r : Exts) : Exts := ⟨((r.val <<< 4) % 256) ||| (l.val &&& 0xf)⟩

/-- the k-mer of an entry as spelled along the left path (`Dir::Left => next_kmer, Dir::Right => next_kmer.rc()`) -/
def orientL {D} (e : Entry D) (d : Dir) : Seq := match d with | .L => e.key | .R => rc e.key
/-- … and along the right path (`Dir::Left => next_kmer.rc(), Dir::Right => next_kmer`) -/
def orientR {D} (e : Entry D) (d : Dir) : Seq := match d with | .R => e.key | .L => rc e.key

/-- one step of the left-path loop: `push_front(oriented.get(0))`, reduce the payload -/
def leftStep {D} (T : Table D) (reduce : D → D → D) (acc : Option (Seq × D)) (p : Nat × Dir) : Option (Seq × D) :=
  match acc, T[p.1]? with
  | some (sq, dat), some e =>
    match (orientL e p.2).head? with
    | some b => some (b :: sq, reduce dat e.data)
    | none => none
  | _, _ => none

/-- fold of the left path -/
def leftFold {D} (T : Table D) (reduce : D → D → D) (path : List (Nat × Dir)) (seq0 : Seq) (d0 : D) : Option (Seq × D) :=
  path.foldl (leftStep T reduce) (some (seq0, d0))

/-- one step of the right-path loop: `push_back(oriented.get(K-1))`, reduce the payload -/
def rightStep {D} (T : Table D) (reduce : D → D → D) (acc : Option (Seq × D)) (p : Nat × Dir) : Option (Seq × D) :=
  match acc, T[p.1]? with
  | some (sq, dat), some e =>
    match (orientR e p.2).getLast? with
    | some b => some (sq ++ [b], reduce dat e.data)
    | none => none
  | _, _ => none

/-- fold of the right path -/
def rightFold {D} (T : Table D) (reduce : D → D → D) (path : List (Nat × Dir)) (seq0 : Seq) (d0 : D) : Option (Seq × D) :=
  path.foldl (rightStep T reduce) (some (seq0, d0))

/-- `build_node(seed_id)`: the node, the ids it consumed (left path reversed, seed, right path) and the
    remaining availability; `none` = the "unreachable" panic -/
def buildNodeC {D} (T : Table D) (st : Bool) (join : D → D → Bool) (reduce : D → D → D) (avail : List Nat) (seed : Nat) :
    Option (Node D × List Nat × List Nat) :=
  match T[seed]? with
  | none => none
  | some es =>
    match walkC T st join (rm avail seed) seed .L with
    | none => none
    | some (lpath, lext, a2) =>
      match leftFold T reduce lpath es.key es.data with
      | none => none
      | some (seqL, datL) =>
        let leftExtend := match lpath.getLast? with
          | none => lext
          | some (_, .L) => lext
          | some (_, .R) => lext.complement
        match walkC T st join (rm a2 seed) seed .R with
        | none => none
        | some (rpath, rext, a3) =>
          match rightFold T reduce rpath seqL datL with
          | none => none
          | some (seqR, datR) =>
            let rightExtend := match rpath.getLast? with
              | none => rext
              | some (_, .L) => rext.complement
              | some (_, .R) => rext
            some (⟨seqR, Exts.fromSingleDirs leftExtend rightExtend, datR⟩,
                  (lpath.map Prod.fst).reverse ++ [seed] ++ rpath.map Prod.fst, a3)

/-- the loop of `compress_kmers` over ids `is` -/
def compressLoopC {D} (T : Table D) (st : Bool) (join : D → D → Bool) (reduce : D → D → D) :
    List Nat → List Nat → Option (List (Node D × List Nat))
  | [], _ => some []
  | i :: is, avail =>
    if i ∈ avail then
      match buildNodeC T st join reduce avail i with
      | none => none
      | some (nd, ids, avail') =>
        match compressLoopC T st join reduce is avail' with
        | none => none
        | some rest => some ((nd, ids) :: rest)
    else compressLoopC T st join reduce is avail

/-- `compress_kmers_with_hash` over a table listed in index order; `none` = panic -/
def compressKmersC {D} (T : Table D) (st : Bool) (join : D → D → Bool) (reduce : D → D → D) : Option (List (Node D × List Nat)) :=
  compressLoopC T st join reduce (List.range T.length) (List.range T.length)

/-- extension discovery of `compress_kmers_no_exts`: a neighbour is looked up as given when stranded, by its canonical form
    otherwise (after the repair of D9; before it the canonical form was used in both modes) -/
def discoverExts (st : Bool) (keys : List Seq) (k : Seq) : Exts :=
  let can := fun (x : Seq) => (canonSt st x).1
  let l := (List.range 4).foldl (fun acc b => match (if h : b < 4 then some (⟨b, h⟩ : Base) else none) with
    | some bb => if keys.contains (can (extendLeft k bb)) then acc ||| (1 <<< b) else acc
    | none => acc) 0
  let r := (List.range 4).foldl (fun acc b => match (if h : b < 4 then some (⟨b, h⟩ : Base) else none) with
    | some bb => if keys.contains (can (extendRight k bb)) then acc ||| (1 <<< (b + 4)) else acc
    | none => acc) 0
  ⟨l ||| r⟩

end Compress
