import Dbg.Model.Lmer
import Dbg.Model.Graph
/-! The JSON text `serde_json::to_string` writes for the crate's `#[derive(Serialize)]` types (kmer.rs 231/438, lib.rs 577,
    dna_string.rs 72/762, vmer.rs 27, graph.rs 43): structs are objects with the fields in declaration order, integers are
    decimal numbers, vectors and fixed arrays are arrays, `PhantomData` is `null`, `bool` is `true`/`false`.
    Texts are lists of characters; the driver prints them with `String.ofList`. -/
namespace Serde

/-- a fixed piece of text -/
def lit (s : String) : List Char := s.toList

/-- a decimal number -/
def num (n : Nat) : List Char := Nat.toDigits 10 n

/-- the items of an array after the first: each preceded by a comma -/
def arrTail {α : Type} (e : α → List Char) : List α → List Char
  | [] => []
  | a :: t => ',' :: e a ++ arrTail e t

/-- an array `[x,y,…]` -/
def arr {α : Type} (e : α → List Char) : List α → List Char
  | [] => ['[', ']']
  | a :: t => '[' :: e a ++ arrTail e t ++ [']']

def bool (b : Bool) : List Char := if b then lit "true" else lit "false"

/-- `IntKmer<T>` has the one field `storage`; `VarIntKmer<T,KS>` also the `PhantomData` field -/
def kmer (c : Kmer.Cfg) (s : Kmer.St c) : List Char :=
  lit "{\"storage\":" ++ num s.toNat ++ (if c.var then lit ",\"phantom\":null}" else lit "}")

def exts (e : Compress.Exts) : List Char := lit "{\"val\":" ++ num e.val ++ lit "}"

def dna (d : DnaStr.T) : List Char :=
  lit "{\"storage\":" ++ arr (fun (b : DnaStr.Block) => num b.toNat) d.storage ++ lit ",\"len\":" ++ num d.len ++ lit "}"

def lmer (l : Lmer.T) : List Char := lit "{\"storage\":" ++ arr (fun (b : Lmer.Block) => num b.toNat) l.storage ++ lit "}"

def pset (s : DnaStr.PSet) : List Char :=
  lit "{\"sequence\":" ++ dna s.sequence ++ lit ",\"start\":" ++ arr num s.start ++ lit ",\"length\":" ++ arr num s.length ++ lit "}"

/-- `BaseGraph<K, D>` as stored: the packed sequences, one extension byte and one payload per node, the strandedness flag -/
structure Base (D : Type) where
  sequences : DnaStr.PSet
  exts : List Compress.Exts
  data : List D
  stranded : Bool

def baseGraph {D : Type} (ed : D → List Char) (g : Base D) : List Char :=
  lit "{\"sequences\":" ++ pset g.sequences ++ lit ",\"exts\":" ++ arr exts g.exts ++ lit ",\"data\":" ++ arr ed g.data ++
    lit ",\"stranded\":" ++ bool g.stranded ++ lit ",\"phantom\":null}"

/-- `BaseGraph::add` for every node of a graph value (the representation the serializer sees) -/
def baseOf {D : Type} (g : Graph.G D) : Option (Base D) :=
  (g.nodes.foldl (fun (acc : Option DnaStr.PSet) nd => acc.bind (·.add (nd.seq.map (·.val)))) (some DnaStr.PSet.new)).map fun ps =>
    ⟨ps, g.nodes.map (·.exts), g.nodes.map (·.data), g.stranded⟩

end Serde
