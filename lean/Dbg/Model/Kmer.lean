import Dbg.Gen.Consts
/-! Bit-level model of `IntKmer<T>` and `VarIntKmer<T, KS>` (kmer.rs 96-661) and of the `Kmer`/`Mer`
    trait defaults (lib.rs 184-327), generic in the storage width `w` and in `K`.
    `none` = the Rust code panics (an `unwrap()` on a failed integer conversion). -/
namespace Kmer

/-- configuration of a k-mer type: storage bits, K, `VarIntKmer` (true) or `IntKmer` (false) -/
structure Cfg where
  w : Nat
  K : Nat
  var : Bool
deriving Repr, DecidableEq

def Cfg.ofName (name : String) : Option Cfg :=
  match Gen.shipped.find? (·.1 == name) with
  | some (_, w, k, v) => some ⟨w, k, v⟩
  | none => none

/-- the ladder of `reverse_by_twos` for width `w`, as extracted from kmer.rs -/
def revLayers (w : Nat) : List (Nat × Nat × Nat × Nat) :=
  if w = 8 then Gen.rev8 else if w = 16 then Gen.rev16 else if w = 32 then Gen.rev32
  else if w = 64 then Gen.rev64 else if w = 128 then Gen.rev128 else []

def lowerOfTwo (w : Nat) : Nat :=
  if w = 8 then Gen.lowerOfTwo8 else if w = 16 then Gen.lowerOfTwo16 else if w = 32 then Gen.lowerOfTwo32
  else if w = 64 then Gen.lowerOfTwo64 else if w = 128 then Gen.lowerOfTwo128 else 0

/-- one ladder step `((r & m1) << s1) | ((r >> s2) & m2)` -/
def ladderStep {w : Nat} (r : BitVec w) (l : Nat × Nat × Nat × Nat) : BitVec w :=
  ((r &&& BitVec.ofNat w l.1) <<< l.2.1) ||| ((r >>> l.2.2.2) &&& BitVec.ofNat w l.2.2.1)

/-- `IntHelp::reverse_by_twos` -/
def revTwos {w : Nat} (x : BitVec w) : BitVec w := (revLayers w).foldl ladderStep x

/-- `count_ones` -/
def popcount {w : Nat} (x : BitVec w) : Nat := (List.range w).countP (fun i => x.getLsbD i)

variable (c : Cfg)

abbrev St := BitVec c.w

/-- `addr(pos) = (K - 1 - pos) * 2` -/
def addr (pos : Nat) : Nat := (c.K - 1 - pos) * 2

/-- `get(pos)`: `to_byte(storage >> bit & msk)` -/
def get (s : St c) (pos : Nat) : Nat := ((s >>> addr c pos) &&& 3#c.w).toNat

/-- `set_mut(pos, v)`; `v : u8` -/
def setMut (s : St c) (pos v : Nat) : St c :=
  (s &&& ~~~((3#c.w) <<< addr c pos)) ||| (BitVec.ofNat c.w v <<< addr c pos)

/-- `top_mask(n_bases)` (kmer.rs 271-280 / 524-536) -/
def topMask (n : Nat) : St c :=
  if c.var then
    let maskBits := n * 2 + (c.w - c.K * 2)
    if maskBits > 0 then ((1#c.w <<< maskBits) - 1#c.w) <<< (c.w - maskBits) else 0#c.w
  else
    if n > 0 then ((1#c.w <<< (n * 2)) - 1#c.w) <<< (c.w - n * 2) else 0#c.w

/-- `bottom_mask(n_bases)` -/
def bottomMask (n : Nat) : St c :=
  if n > 0 then (1#c.w <<< (n * 2)) - 1#c.w else 0#c.w

/-- `set_slice_mut(pos, n_bases, value)`; bases packed into the upper-most bits of `value : u64` -/
def setSliceMut (s : St c) (pos n : Nat) (value : BitVec 64) : St c :=
  let v : St c :=
    if c.w < 64 then (value >>> (64 - c.w)).setWidth c.w
    else if c.w > 64 then (value.setWidth c.w) <<< (c.w - 64)
    else value.setWidth c.w
  let mask := topMask c pos ||| bottomMask c (c.K - (pos + n))
  let shift := if c.var then 2 * pos + (c.w - c.K * 2) else 2 * pos
  let slide := v >>> shift
  (s &&& mask) ||| (slide &&& ~~~mask)

/-- `rc()` -/
def rc (s : St c) : St c :=
  let new := ~~~(revTwos s)
  if c.var && c.K < c.w / 2 then new >>> (2 * (c.w / 2 - c.K)) else new

/-- `extend_left(v)` -/
def extendLeft (s : St c) (v : Nat) : St c :=
  if c.var then setMut c (s >>> 2) 0 v
  else (s >>> 2) ||| (BitVec.ofNat c.w v <<< ((c.K - 1) * 2))

/-- `extend_right(v)` -/
def extendRight (s : St c) (v : Nat) : St c :=
  if c.var then setMut c ((s <<< 2) &&& ~~~(topMask c 0)) (c.K - 1) v
  else setMut c (s <<< 2) (c.K - 1) v

/-- `to_u64()`: `T::to_u64(&storage).unwrap()` -/
def toU64 (s : St c) : Option Nat := if s.toNat < 2 ^ 64 then some s.toNat else none

/-- `from_u64(v)`: `T::from_u64(v).unwrap()` -/
def fromU64 (v : Nat) : Option (St c) := if v < 2 ^ c.w then some (BitVec.ofNat c.w v) else none

/-- `hamming_dist` -/
def hammingDist (s t : St c) : Nat :=
  let d := s ^^^ t
  popcount ((d ||| (d >>> 1)) &&& BitVec.ofNat c.w (lowerOfTwo c.w))

/-- `at_count` -/
def atCount (s : St c) : Nat :=
  let mix := ~~~((s >>> 1) ^^^ s)
  if c.var then popcount (mix &&& ~~~(topMask c 0) &&& BitVec.ofNat c.w (lowerOfTwo c.w))
  else popcount (mix &&& BitVec.ofNat c.w (lowerOfTwo c.w))

/-- `gc_count` -/
def gcCount (s : St c) : Nat :=
  let mix := (s >>> 1) ^^^ s
  if c.var then popcount (mix &&& ~~~(topMask c 0) &&& BitVec.ofNat c.w (lowerOfTwo c.w))
  else popcount (mix &&& BitVec.ofNat c.w (lowerOfTwo c.w))

/-! ### trait defaults (lib.rs) -/

def empty : St c := 0#c.w

/-- `from_bytes`: `none` when fewer than K bytes (explicit panic) -/
def fromBytes (bytes : List Nat) : Option (St c) :=
  if bytes.length < c.K then none
  else some (((bytes.take c.K).zipIdx).foldl (fun s (bi : Nat × Nat) => setMut c s bi.2 bi.1) (empty c))

def baseToBits (ch : Nat) : Nat := Gen.baseToBits.getD ch 0

def fromAscii (bytes : List Nat) : Option (St c) :=
  if bytes.length < c.K then none
  else some (((bytes.take c.K).zipIdx).foldl (fun s (bi : Nat × Nat) => setMut c s bi.2 (baseToBits bi.1)) (empty c))

/-- the bases as a list (`iter()` / the positions read by `to_string`) -/
def toSeq (s : St c) : List Nat := (List.range c.K).map (get c s)

/-- `to_string()` as character codes -/
def toStr (s : St c) : List Nat := (toSeq c s).map fun b => Gen.bitsToBase.getD b 88

/-- `kmers_from_bytes` -/
def kmersFromBytes (str : List Nat) : List (St c) :=
  if str.length < c.K then []
  else
    let k0 := ((str.take c.K).zipIdx).foldl (fun s (bi : Nat × Nat) => setMut c s bi.2 bi.1) (empty c)
    let step := fun (acc : List (St c) × St c) (v : Nat) =>
      let k' := extendRight c acc.2 v
      (k' :: acc.1, k')
    ((str.drop c.K).foldl step ([k0], k0)).1.reverse

def kmersFromAscii (str : List Nat) : List (St c) := kmersFromBytes c (str.map baseToBits)

/-- derived `Ord`/`PartialOrd`: comparison of the storage integer -/
def lt (s t : St c) : Bool := s.toNat < t.toNat

def minRcFlip (s : St c) : St c × Bool :=
  let r := rc c s
  if lt c s r then (s, false) else (r, true)

def minRc (s : St c) : St c :=
  let r := rc c s
  if lt c s r then s else r

def isPalindrome (s : St c) : Bool := c.K % 2 == 0 && s == rc c s

/-- `extend(v, dir)`; `dirRight = true` for `Dir::Right` -/
def extend (s : St c) (v : Nat) (dirRight : Bool) : St c :=
  if dirRight then extendRight c s v else extendLeft c s v

/-! ### `KmerOneHammingIter` (neighbors.rs): all k-mers at Hamming distance 1 -/

/-- iterator state: the source k-mer, the position being mutated, the next base to try (`u8`) -/
structure HIter where
  source : St c
  position : Nat
  ch : Nat

/-- `Iterator::next` (recursive in the source as well): skip the base already there, move on after base 3 -/
def HIter.next (it : HIter c) : HIter c × Option (St c) :=
  if c.K ≤ it.position then (it, none)
  else if 4 ≤ it.ch then HIter.next ⟨it.source, it.position + 1, 0⟩
  else if get c it.source it.position = it.ch then HIter.next ⟨it.source, it.position, it.ch + 1⟩
  else (⟨it.source, it.position, it.ch + 1⟩, some (setMut c it.source it.position it.ch))
termination_by (c.K - it.position, 5 - it.ch)
decreasing_by
  · simp_wf; apply Prod.Lex.left; omega
  · simp_wf; apply Prod.Lex.right; omega

/-- `KmerOneHammingIter::new(kmer).collect()`, at most `fuel` items -/
def HIter.collect : Nat → HIter c → List (St c)
  | 0, _ => []
  | fuel + 1, it =>
    match HIter.next c it with
    | (_, none) => []
    | (it', some x) => x :: HIter.collect fuel it'

/-- all neighbours, in iteration order (there are at most `3 K`) -/
def hd1 (s : St c) : List (St c) := HIter.collect c (4 * c.K) ⟨s, 0, 0⟩

end Kmer
