import Dbg.Model.Graph
/-! Model of `boomphf::hashmap::BoomHashMap<K, u32>` as `graph.rs` uses it (`finish` / `finish_serial` build it from the
    parallel arrays "terminal k-mer of node i" / "i"; `search_kmer` reads it through `get`).

    What is modelled: the *slot layout* - `keys[pos]`, `values[pos]` after `create_map` has moved every pair to the slot the
    minimal perfect hash function gives its key - and `get` with its key verification, statement by statement.
    What is a parameter: `tryHash`, the hash function some run of `Mphf::new` / `Mphf::new_parallel` produced.  It is an
    arbitrary function here: which function comes out depends on the builder, the thread count and the schedule, and for
    a k-mer that was never inserted it may answer `none` or any slot ("Querying for a new key will yield `Some` with a random
    value, or `None`", says the crate).  The theorems of `Props/C19b` quantify over all of them. -/
namespace Boom
open Compress (Seq Node)
open Walk (Dir)
open Graph (G termKmer)

structure Map where
  /-- `Mphf::try_hash`: arbitrary on absent keys -/
  tryHash : Seq → Option Nat
  keys : List Seq
  vals : List Nat

/-- `BoomHashMap::get`: outer `none` = the index panic of `self.keys[pos]` / `self.values[pos]` -/
def Map.get (b : Map) (k : Seq) : Option (Option Nat) :=
  match b.tryHash k with
  | none => some none
  | some pos =>
    match b.keys[pos]? with
    | none => none
    | some hk =>
      if k == hk then (match b.vals[pos]? with | some v => some (some v) | none => none)
      else some none

/-- `BoomHashMap::get_key_id` (same shape; answers the slot) -/
def Map.getKeyId (b : Map) (k : Seq) : Option (Option Nat) :=
  match b.tryHash k with
  | none => some none
  | some pos =>
    match b.keys[pos]? with
    | none => none
    | some hk => if k == hk then some (some pos) else some none

/-- what `create_map` establishes: every stored key sits in the slot its hash names -/
def Map.Slotted (b : Map) : Prop := ∀ pos k, b.keys[pos]? = some k → b.tryHash k = some pos

/-- the assumption on `Mphf::try_hash` that keeps `get` from indexing out of bounds: a rank is below the number of keys -/
def Map.InRange (b : Map) : Prop := ∀ k pos, b.tryHash k = some pos → pos < b.keys.length

variable {D : Type}

/-- the (key, value) slots hold exactly the pairs (terminal k-mer of node i, i), in any order (executable; the driver
    evaluates it on the layout the real maps have after every run) -/
def layoutOK (g : G D) (side : Dir) (keys : List Seq) (vals : List Nat) : Bool :=
  keys.length == vals.length &&
  (List.range keys.length).all (fun pos =>
    match keys[pos]?, vals[pos]? with
    | some k, some v => (match g.nodes[v]? with | some nd => termKmer g.K nd.seq side == k | none => false)
    | _, _ => false) &&
  (List.range g.nodes.length).all (fun i =>
    match g.nodes[i]? with
    | some nd => (List.range keys.length).any (fun pos => keys[pos]? == some (termKmer g.K nd.seq side) && vals[pos]? == some i)
    | none => false)

/-- executable form of `Slotted` on an observed layout: `ids[pos]` is what `get_key_id(keys[pos])` answered -/
def slotsOK (keys : List Seq) (ids : List (Option Nat)) : Bool :=
  keys.length == ids.length && (List.range keys.length).all (fun pos => ids[pos]? == some (some pos))

/-! ### `create_map`: the cycle sort that moves every (key, value) pair to the slot the hash function names -/

/-- the inner `loop { … }` of `create_map` at position `i`; `none` = a panic (`Mphf::hash` unwraps a `None`,
    `Vec::swap` out of bounds) or the fuel ran out (the real loop has none: `createMap_spec` shows `size + 1` suffices) -/
def settle {V : Type} (th : Seq → Option Nat) (i : Nat) : Nat → Array (Seq × V) → Option (Array (Seq × V))
  | 0, _ => none
  | fuel + 1, ps =>
    if hi : i < ps.size then
      match th ps[i].1 with
      | none => none
      | some slot =>
        if i = slot then some ps
        else if hs : slot < ps.size then settle th i fuel (ps.swap i slot hi hs)
        else none
    else none

/-- `for i in 0..keys.len() { loop { … } }` -/
def createLoop {V : Type} (th : Seq → Option Nat) : Nat → Nat → Array (Seq × V) → Option (Array (Seq × V))
  | 0, _, ps => some ps
  | r + 1, i, ps =>
    match settle th i (ps.size + 1) ps with
    | none => none
    | some ps' => createLoop th r (i + 1) ps'

/-- `BoomHashMap::create_map(keys, values, mphf)` -/
def Map.create (th : Seq → Option Nat) (keys : List Seq) (vals : List Nat) : Option Map :=
  let ps := (keys.zip vals).toArray
  (createLoop th ps.size 0 ps).map fun ps' => ⟨th, ps'.toList.map (·.1), ps'.toList.map (·.2)⟩

/-- `BoomHashMap2::create_map(keys, values, aux_values, mphf)`: the same loop with two value arrays swapped in lockstep;
    a table row is (key, (extensions, payload)) -/
def createTable {V : Type} (th : Seq → Option Nat) (rows : List (Seq × V)) : Option (List (Seq × V)) :=
  (createLoop th rows.length 0 rows.toArray).map (·.toList)

/-- `get_key_id` over a bare key array -/
def keyIdOf (th : Seq → Option Nat) (keys : List Seq) (k : Seq) : Option (Option Nat) :=
  match th k with
  | none => some none
  | some pos =>
    match keys[pos]? with
    | none => none
    | some hk => if k == hk then some (some pos) else some none

/-- the parallel arrays `finish` / `finish_serial` hand to `BoomHashMap::new(_parallel)` -/
def endKeys (g : G D) (side : Dir) : List Seq := g.nodes.map fun nd => termKmer g.K nd.seq side

end Boom
