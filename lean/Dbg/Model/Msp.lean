/-! Prototype: model of `Scanner::scan` (msp.rs 194-276) over abstract position scores. -/
namespace Msp

structure MinPos where
  val : Nat
  pos : Nat
deriving Repr, DecidableEq

/-- `a ≤ b` in the order of msp.rs 127-141: by score, ties: larger position is smaller. -/
def mpLe (a b : MinPos) : Bool := a.val < b.val || (a.val == b.val && b.pos ≤ a.pos)
/-- `std::cmp::min(a, b)` -/
def mpMin (a b : MinPos) : MinPos := if mpLe a b then a else b

def mp (sc : Nat → Nat) (q : Nat) : MinPos := ⟨sc q, q⟩

/-- `find_min(start, stop)`: positions start..=stop -/
def findMin (sc : Nat → Nat) (start : Nat) : Nat → MinPos
  | 0 => mp sc start
  | n + 1 => mpMin (findMin sc start n) (mp sc (start + n + 1))

/-- body of the `for i in 1..(m-k+1)` loop; `acc` is `min_positions` reversed. -/
def scanLoop (sc : Nat → Nat) (d : Nat) : List Nat → MinPos → List (Nat × MinPos) → List (Nat × MinPos)
  | [], _, acc => acc
  | i :: is, mn, acc =>
    let e := mp sc (i + d)
    if i > mn.pos then
      let mn' := findMin sc i d
      scanLoop sc d is mn' ((i, mn') :: acc)
    else if e.val < mn.val then scanLoop sc d is e ((i, e) :: acc)
    else scanLoop sc d is mn acc

/-- `min_positions`, reversed, for `n` k-mers (n ≥ 1), window width d = k - p -/
def minPositions (sc : Nat → Nat) (d n : Nat) : List (Nat × MinPos) :=
  let m0 := findMin sc 0 d
  scanLoop sc d (List.range' 1 (n - 1)) m0 [(0, m0)]

end Msp
