import Dbg.Gen.Consts
import Dbg.Model.Seq
/-! Model of `Scanner::scan` (msp.rs 194-276) over abstract position scores. -/
namespace Msp

structure MinPos where
  val : Nat
  pos : Nat
deriving Repr, DecidableEq

/-- `a ≤ b` in the order of msp.rs 127-141: by score, ties: larger position is smaller. -/
def mpLe (a b : MinPos) : Bool := a.val < b.val || (a.val == b.val && b.pos ≤ a.pos)
/-- `std::cmp::min(a, b)` -/
def mpMin (a b : MinPos) : MinPos := if mpLe a b then a else b

def mp (sc : Nat → Nat) (q : Nat) : MinPos := ⟨sc q, q⟩

/-- `find_min(start, stop)`: positions start..=stop -/
def findMin (sc : Nat → Nat) (start : Nat) : Nat → MinPos
  | 0 => mp sc start
  | n + 1 => mpMin (findMin sc start n) (mp sc (start + n + 1))

/-- body of the `for i in 1..(m-k+1)` loop; `acc` is `min_positions` reversed. -/
def scanLoop (sc : Nat → Nat) (d : Nat) : List Nat → MinPos → List (Nat × MinPos) → List (Nat × MinPos)
  | [], _, acc => acc
  | i :: is, mn, acc =>
    let e := mp sc (i + d)
    if i > mn.pos then
      let mn' := findMin sc i d
      scanLoop sc d is mn' ((i, mn') :: acc)
    else if e.val < mn.val then scanLoop sc d is e ((i, e) :: acc)
    else scanLoop sc d is mn acc

/-- `min_positions`, reversed, for `n` k-mers (n ≥ 1), window width d = k - p -/
def minPositions (sc : Nat → Nat) (d n : Nat) : List (Nat × MinPos) :=
  let m0 := findMin sc 0 d
  scanLoop sc d (List.range' 1 (n - 1)) m0 [(0, m0)]

end Msp

/-! ## Interval synthesis (msp.rs 248-275) and the executable scan over a base sequence -/
namespace Msp

/-- `MspIntervalP` with the k-mer field spelled as bases -/
structure Iv where
  start : Nat
  len : Nat
  mpos : Nat
  mini : Compress.Seq
deriving Repr, DecidableEq

/-- the p-mer at position `q` (`get_kmer::<P>(q)`); bases are `Nat`s `< 4` -/
def window (seq : Array Compress.Base) (p q : Nat) : Compress.Seq := (seq.extract q (q + p)).toList

/-- Narrowing moduli of `start as u32`, `len as u16`, `minimizer_pos as u32`
    (checked against the field types by the constant extractor). -/
def startMod : Nat := 2 ^ Gen.mspStartBits
def lenMod : Nat := 2 ^ Gen.mspLenBits

/-- the two loops at msp.rs 248-275 over the forward `min_positions` vector -/
def mkIntervals (seq : Array Compress.Base) (k p m : Nat) : List (Nat × MinPos) → List Iv
  | [] => []
  | [(s, mn)] => [⟨s % startMod, (m - s) % lenMod, mn.pos % startMod, window seq p mn.pos⟩]
  | (s, mn) :: (s', mn') :: rest =>
    ⟨s % startMod, (s' + k - 1 - s) % lenMod, mn.pos % startMod, window seq p mn.pos⟩ ::
      mkIntervals seq k p m ((s', mn') :: rest)

/-- `Scanner::scan`; `none` = one of the two assertions fails, or `k < p` (usize underflow) -/
def scan (seq : Array Compress.Base) (score : Compress.Seq → Nat) (k p : Nat) : Option (List Iv) :=
  let m := seq.size
  if k ≤ m ∧ m < 2 ^ Gen.mspMaxLenLog ∧ p ≤ k then
    -- the score is cached in `MinPos.val`, whose width is extracted from the source
    let sc := fun q => score (window seq p q) % 2 ^ Gen.mspScoreBits
    some (mkIntervals seq k p m (minPositions sc (k - p) (m - k + 1)).reverse)
  else none

end Msp
