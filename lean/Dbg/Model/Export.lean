import Dbg.Model.Graph
/-! String-level models of the GFA / JSON exports (graph.rs 538-695, 1057-1092, with the repairs of D5 and D6)
    and of `NodeKmerIter` (graph.rs 880-1006, with the repair of D3). -/
namespace Export
open Compress (Seq Base Exts rc Node extendRight)
open Walk (Dir)
open Graph

variable {D : Type}

def baseChar (b : Base) : Char := match b.val with | 0 => 'A' | 1 => 'C' | 2 => 'G' | _ => 'T'
def seqStr (s : Seq) : String := String.ofList (s.map baseChar)

/-- an `L` record: leaving node `src` through its right (`plus = true`) or left side, arriving at side `toSide` of `dst` -/
structure GfaLink where
  src : Nat
  plus : Bool
  dst : Nat
  toSide : Dir
deriving Repr, DecidableEq

/-- the `L` records written for node `id`: left edges to nodes with `target ≥ id`, right edges with `target > id` or a
    right-side hairpin (`target = id` arriving on the right side) -/
def nodeLinks (g : G D) (id : Nat) : Option (List GfaLink) :=
  match findEdges g id .L, findEdges g id .R with
  | some le, some re =>
    some ((le.filter fun e => decide (e.1 ≥ id)).map (fun e => ⟨id, false, e.1, e.2.1⟩) ++
          (re.filter fun e => decide (e.1 > id ∨ (e.1 = id ∧ e.2.1 = .R))).map (fun e => ⟨id, true, e.1, e.2.1⟩))
  | _, _ => none

def renderLink (K : Nat) (l : GfaLink) : String :=
  s!"L\t{l.src}\t{if l.plus then "+" else "-"}\t{l.dst}\t{match l.toSide with | .L => "+" | .R => "-"}\t{K - 1}M\n"

/-- `node_to_gfa` without tags -/
def nodeToGfa (g : G D) (id : Nat) : Option String :=
  match g.nodes[id]?, nodeLinks g id with
  | some nd, some ls => some (s!"S\t{id}\t{seqStr nd.seq}\n" ++ String.join (ls.map (renderLink g.K)))
  | _, _ => none

/-- `write_gfa` -/
def writeGfa (g : G D) : Option String :=
  ((List.range g.nodes.length).mapM (nodeToGfa g)).map fun ls => "H\tVN:Z:debruijn-rs\n" ++ String.join ls

/-- `Debug` of the node's slice inside the packed sequence set (summary form from 256 bases on) -/
def sliceDebug (start : Nat) (s : Seq) : String :=
  if s.length < Gen.sliceDebugLimit then seqStr s else s!"start: {start}, len: {s.length}, is_rc: false"

/-- `to_json_rest(fmt, writer, rest)`; `fmt` renders a payload as JSON text, `rest` is a list of (key, rendered value) -/
def toJsonRest (g : G D) (fmt : D → String) (rest : Option (List (String × String))) : Option String :=
  let n := g.nodes.length
  let starts := (g.nodes.foldl (fun (acc : List Nat × Nat) nd => (acc.1 ++ [acc.2], acc.2 + nd.seq.length)) ([], 0)).1
  let nodeJson := fun (i : Nat) (nd : Node D) =>
    "{\"id\":\"" ++ toString i ++ "\",\"L\":" ++ toString nd.seq.length ++ ",\"D\":" ++ fmt nd.data ++ ",\"Se\":\"" ++
      sliceDebug (starts.getD i 0) nd.seq ++ "\"}" ++ (if i + 1 = n then "\n" else ",\n")
  let nodesTxt := String.join (g.nodes.zipIdx.map fun (nd, i) => nodeJson i nd)
  match (List.range n).mapM (fun i => findEdges g i .R) with
  | none => none
  | some allEdges =>
    let groups := (allEdges.zipIdx.filter fun (es, _) => !es.isEmpty).map fun (es, i) =>
      ",".intercalate (es.map fun (t, d, _) =>
        "{\"source\":\"" ++ toString i ++ "\",\"target\":\"" ++ toString t ++ "\",\"D\":\"" ++ (match d with | .L => "L" | .R => "R") ++ "\"}")
    let linksTxt := if groups.isEmpty then "" else ",\n".intercalate groups ++ "\n"
    let restTxt := match rest with
      | some kvs => String.join (kvs.map fun (k, v) => ",\n\"" ++ k ++ "\": " ++ v ++ "\n")
      | none => "\n"
    some ("{\n\"nodes\": [\n" ++ nodesTxt ++ "],\n\"links\": [\n" ++ linksTxt ++ "]\n" ++ restTxt ++ "}\n")

/-! ### NodeKmerIter -/

structure NIter where
  kmerId : Nat
  kmer : Seq
  numKmers : Nat
  seq : Seq
  K : Nat

/-- `NodeKmer::into_iter`; `none` = `len - K + 1` underflows -/
def NIter.start (K : Nat) (s : Seq) : Option NIter :=
  if s.length + 1 < K then none
  else
    let num := s.length + 1 - K
    some ⟨0, if num > 0 then s.take K else List.replicate K 0, num, s, K⟩

def NIter.sizeHint (it : NIter) : Nat × Option Nat := (it.numKmers, some it.numKmers)

def NIter.next (it : NIter) : NIter × Option Seq :=
  if it.numKmers = it.kmerId then (it, none)
  else
    let cur := it.kmer
    let id' := it.kmerId + 1
    let km' := if id' < it.numKmers then
        (match it.seq[id' + it.K - 1]? with | some b => extendRight it.kmer b | none => it.kmer)
      else it.kmer
    ({ it with kmerId := id', kmer := km' }, some cur)

/-- `nth(n)`, as repaired (D3): short skips step base by base, long skips jump, a skip past the end ends the iteration -/
def NIter.nth (it : NIter) (n : Nat) : NIter × Option Seq :=
  if n ≤ Gen.nodeIterSkipThreshold then
    ((List.range n).foldl (fun (i : NIter) _ => i.next.1) it).next
  else
    if n ≥ it.numKmers - it.kmerId then ({ it with kmerId := it.numKmers }, none)
    else
      let id' := it.kmerId + n
      ({ it with kmerId := id', kmer := (it.seq.drop id').take it.K }).next

end Export
