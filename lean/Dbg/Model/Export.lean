import Dbg.Model.Graph
import Dbg.Model.ExtsOps
/-! String-level models of the GFA / JSON exports (graph.rs 538-695, 1057-1092, with the repairs of D5 and D6)
    and of `NodeKmerIter` (graph.rs 880-1006, with the repair of D3). -/
namespace Export
open Compress (Seq Base Exts rc Node extendRight)
open Walk (Dir)
open Graph

variable {D : Type}

def baseChar (b : Base) : Char := match b.val with | 0 => 'A' | 1 => 'C' | 2 => 'G' | _ => 'T'
def seqStr (s : Seq) : String := String.ofList (s.map baseChar)

/-- an `L` record: leaving node `src` through its right (`plus = true`) or left side, arriving at side `toSide` of `dst` -/
structure GfaLink where
  src : Nat
  plus : Bool
  dst : Nat
  toSide : Dir
deriving Repr, DecidableEq

/-- the `L` records written for node `id`: left edges to nodes with `target ≥ id`, right edges with `target > id` or a
    right-side hairpin (`target = id` arriving on the right side) -/
def nodeLinks (g : G D) (id : Nat) : Option (List GfaLink) :=
  match findEdges g id .L, findEdges g id .R with
  | some le, some re =>
    some ((le.filter fun e => decide (e.1 ≥ id)).map (fun e => ⟨id, false, e.1, e.2.1⟩) ++
          (re.filter fun e => decide (e.1 > id ∨ (e.1 = id ∧ e.2.1 = .R))).map (fun e => ⟨id, true, e.1, e.2.1⟩))
  | _, _ => none

def renderLink (K : Nat) (l : GfaLink) : String :=
  s!"L\t{l.src}\t{if l.plus then "+" else "-"}\t{l.dst}\t{match l.toSide with | .L => "+" | .R => "-"}\t{K - 1}M\n"

/-- `node_to_gfa` without tags -/
def nodeToGfa (g : G D) (id : Nat) : Option String :=
  match g.nodes[id]?, nodeLinks g id with
  | some nd, some ls => some (s!"S\t{id}\t{seqStr nd.seq}\n" ++ String.join (ls.map (renderLink g.K)))
  | _, _ => none

/-- `write_gfa` -/
def writeGfa (g : G D) : Option String :=
  ((List.range g.nodes.length).mapM (nodeToGfa g)).map fun ls => "H\tVN:Z:debruijn-rs\n" ++ String.join ls

/-- `node_to_gfa` with a tag function: the `S` line carries the tags as a further tab-separated field -/
def nodeToGfaTags (g : G D) (tagf : Nat → Node D → String) (id : Nat) : Option String :=
  match g.nodes[id]?, nodeLinks g id with
  | some nd, some ls => some (s!"S\t{id}\t{seqStr nd.seq}\t{tagf id nd}\n" ++ String.join (ls.map (renderLink g.K)))
  | _, _ => none

/-- `to_gfa_with_tags` (the text written to the file) -/
def writeGfaTags (g : G D) (tagf : Nat → Node D → String) : Option String :=
  ((List.range g.nodes.length).mapM (nodeToGfaTags g tagf)).map fun ls => "H\tVN:Z:debruijn-rs\n" ++ String.join ls

/-! #### the dot export and `Debug` of a node (graph.rs 493-536, 1113-1130) -/

/-- an arrow line `n<src> -> n<dst> [color=…]`; blue = the edge arrives on a left side, red = on a right side -/
structure DotArrow where
  src : Nat
  dst : Nat
  color : Dir
deriving Repr, DecidableEq

/-- arrows written under node `id`: one per left edge, pointing at `id`; one per right edge, leaving `id` -/
def nodeArrows (g : G D) (id : Nat) : Option (List DotArrow) :=
  match findEdges g id .L, findEdges g id .R with
  | some le, some re => some (le.map (fun e => ⟨e.1, id, e.2.1⟩) ++ re.map (fun e => ⟨id, e.1, e.2.1⟩))
  | _, _ => none

def renderArrow (a : DotArrow) : String :=
  "n" ++ toString a.src ++ " -> n" ++ toString a.dst ++ " [color=" ++ (match a.color with | .L => "blue" | .R => "red") ++ "]\n"

/-- `node_to_dot` -/
def nodeToDot (g : G D) (label : D → String) (id : Nat) : Option String :=
  match g.nodes[id]?, nodeArrows g id with
  | some nd, some as =>
    some ("n" ++ toString id ++ " [label=\"id:" ++ toString id ++ " len:" ++ toString nd.seq.length ++ "  " ++ label nd.data ++
      "\",style=filled]\n" ++ String.join (as.map renderArrow))
  | _, _ => none

/-- `to_dot` (the text written to the file) -/
def toDot (g : G D) (label : D → String) : Option String :=
  ((List.range g.nodes.length).mapM (nodeToDot g label)).map fun ls => "digraph {\n" ++ String.join ls ++ "}\n"

def edgeDebug (e : Nat × Dir × Bool) : String :=
  "(" ++ toString e.1 ++ ", " ++ (match e.2.1 with | .L => "Left" | .R => "Right") ++ ", " ++ (if e.2.2 then "true" else "false") ++ ")"

/-- `Debug` of a `SmallVec` of edges: a list in square brackets -/
def edgesDebug (es : List (Nat × Dir × Bool)) : String := "[" ++ ", ".intercalate (es.map edgeDebug) ++ "]"

/-- `Debug for Node`: id, extension byte, both edge lists, the *length* of the sequence, the payload -/
def nodeDebug (g : G D) (dataDebug : D → String) (id : Nat) : Option String :=
  match g.nodes[id]?, findEdges g id .L, findEdges g id .R with
  | some nd, some le, some re =>
    some ("Node { id:" ++ toString id ++ ", Exts: " ++ String.ofList (nd.exts.debug.map Char.ofNat) ++ ", L:" ++ edgesDebug le ++
      " R:" ++ edgesDebug re ++ ", Seq: " ++ toString nd.seq.length ++ ", Data: " ++ dataDebug nd.data ++ " }")
  | _, _, _ => none

/-- `Debug` of the node's slice inside the packed sequence set (summary form from 256 bases on) -/
def sliceDebug (start : Nat) (s : Seq) : String :=
  if s.length < Gen.sliceDebugLimit then seqStr s else s!"start: {start}, len: {s.length}, is_rc: false"

/-! #### JSON strings as serde_json writes them (`format_escaped_str`) -/

def hexDigit (n : Nat) : Char := "0123456789abcdef".toList.getD n '0'

/-- the escape of one character: `\"`, `\\`, `\b \t \n \f \r`, `\u00XX` for the other control characters, the character itself otherwise -/
def escapeChar (c : Char) : List Char :=
  if c = '"' then ['\\', '"']
  else if c = '\\' then ['\\', '\\']
  else if c.toNat = 8 then ['\\', 'b']
  else if c.toNat = 9 then ['\\', 't']
  else if c.toNat = 10 then ['\\', 'n']
  else if c.toNat = 12 then ['\\', 'f']
  else if c.toNat = 13 then ['\\', 'r']
  else if c.toNat < 32 then ['\\', 'u', '0', '0', hexDigit (c.toNat / 16), hexDigit (c.toNat % 16)]
  else [c]

def jsonEscape (s : String) : List Char := s.toList.flatMap escapeChar

/-- `serde_json::to_writer(w, &str)` -/
def jsonStr (s : String) : String := "\"" ++ String.ofList (jsonEscape s) ++ "\""

/-- `Node::to_json` of every node: id, length, rendered payload, `Debug` of the sequence slice -/
def nodeItems (g : G D) (fmt : D → String) : List String :=
  let starts := (g.nodes.foldl (fun (acc : List Nat × Nat) nd => (acc.1 ++ [acc.2], acc.2 + nd.seq.length)) ([], 0)).1
  g.nodes.zipIdx.map fun x =>
    "{\"id\":\"" ++ toString x.2 ++ "\",\"L\":" ++ toString x.1.seq.length ++ ",\"D\":" ++ fmt x.1.data ++ ",\"Se\":\"" ++
      sliceDebug (starts.getD x.2 0) x.1.seq ++ "\"}"

/-! #### the JSON writer as written: comma logic with flags and index tests (graph.rs 640-690, 1080-1103) -/

def linkJson (i : Nat) (e : Nat × Dir × Bool) : String :=
  "{\"source\":\"" ++ toString i ++ "\",\"target\":\"" ++ toString e.1 ++ "\",\"D\":\"" ++ (match e.2.1 with | .L => "L" | .R => "R") ++ "\"}"

/-- `Node::edges_to_json`: one object per right edge, a comma after each but the last (`idx < edges.len() - 1`) -/
def edgesToJsonImp (i : Nat) (es : List (Nat × Dir × Bool)) : String :=
  es.zipIdx.foldl (fun acc (ei : (Nat × Dir × Bool) × Nat) =>
    acc ++ linkJson i ei.1 ++ (if ei.2 < es.length - 1 then "," else "")) ""

/-- the `links` loop: skip nodes without right edges; `wrote_any` puts `,\n` before every group but the first -/
def linksImp (allEdges : List (List (Nat × Dir × Bool))) : String × Bool :=
  allEdges.zipIdx.foldl (fun (acc : String × Bool) (ei : List (Nat × Dir × Bool) × Nat) =>
    if ei.1.isEmpty then acc
    else ((if acc.2 then acc.1 ++ ",\n" else acc.1) ++ edgesToJsonImp ei.2 ei.1, true)) ("", false)

/-- the `nodes` loop: `\n` after the last node (`i == len - 1`), `,\n` after the others -/
def nodesImp (n : Nat) (items : List String) : String :=
  items.zipIdx.foldl (fun acc (si : String × Nat) => acc ++ si.1 ++ (if si.2 = n - 1 then "\n" else ",\n")) ""

/-- `to_json_rest` statement by statement -/
def toJsonRestImp (g : G D) (fmt : D → String) (rest : Option (List (String × String))) : Option String :=
  let n := g.nodes.length
  let nodesTxt := nodesImp n (nodeItems g fmt)
  match (List.range n).mapM (fun i => findEdges g i .R) with
  | none => none
  | some allEdges =>
    let (links, wroteAny) := linksImp allEdges
    let linksTxt := if wroteAny then links ++ "\n" else links
    let restTxt := match rest with
      | some kvs => kvs.foldl (fun acc (kv : String × String) => acc ++ ",\n" ++ jsonStr kv.1 ++ ": " ++ kv.2 ++ "\n") ""
      | none => "\n"
    some ("{\n\"nodes\": [\n" ++ nodesTxt ++ "],\n" ++ "\"links\": [\n" ++ linksTxt ++ "]\n" ++ restTxt ++ "}\n")

/-! #### the document it is meant to write: arrays are their items separated by commas -/

/-- the link objects of every node that has right edges, comma-separated per node -/
def linkGroups (allEdges : List (List (Nat × Dir × Bool))) (k : Nat) : List String :=
  ((allEdges.zipIdx k).filter fun x => !x.1.isEmpty).map fun x => ",".intercalate (x.1.map (linkJson x.2))

/-- the JSON document of a graph: object with the array `nodes` (one object per node), the array `links` (one object per
    right edge, grouped by source node) and the members of `rest` -/
def jsonDoc (g : G D) (fmt : D → String) (rest : Option (List (String × String))) : Option String :=
  let n := g.nodes.length
  match (List.range n).mapM (fun i => findEdges g i .R) with
  | none => none
  | some allEdges =>
    let groups := linkGroups allEdges 0
    let arr := fun (items : List String) => if items.isEmpty then "" else ",\n".intercalate items ++ "\n"
    let restTxt := match rest with
      | some kvs => String.join (kvs.map fun (kv : String × String) => ",\n" ++ jsonStr kv.1 ++ ": " ++ kv.2 ++ "\n")
      | none => "\n"
    some ("{\n\"nodes\": [\n" ++ arr (nodeItems g fmt) ++ "],\n" ++ "\"links\": [\n" ++ arr groups ++ "]\n" ++ restTxt ++ "}\n")

/-! ### NodeKmerIter -/

structure NIter where
  kmerId : Nat
  kmer : Seq
  numKmers : Nat
  seq : Seq
  K : Nat

/-- `NodeKmer::into_iter`; `none` = `len - K + 1` underflows -/
def NIter.start (K : Nat) (s : Seq) : Option NIter :=
  if s.length + 1 < K then none
  else
    let num := s.length + 1 - K
    some ⟨0, if num > 0 then s.take K else List.replicate K 0, num, s, K⟩

def NIter.sizeHint (it : NIter) : Nat × Option Nat := (it.numKmers, some it.numKmers)

def NIter.next (it : NIter) : NIter × Option Seq :=
  if it.numKmers = it.kmerId then (it, none)
  else
    let cur := it.kmer
    let id' := it.kmerId + 1
    let km' := if id' < it.numKmers then
        (match it.seq[id' + it.K - 1]? with | some b => extendRight it.kmer b | none => it.kmer)
      else it.kmer
    ({ it with kmerId := id', kmer := km' }, some cur)

/-- `nth(n)`, as repaired (D3): short skips step base by base, long skips jump, a skip past the end ends the iteration -/
def NIter.nth (it : NIter) (n : Nat) : NIter × Option Seq :=
  if n ≤ Gen.nodeIterSkipThreshold then
    ((List.range n).foldl (fun (i : NIter) _ => i.next.1) it).next
  else
    if n ≥ it.numKmers - it.kmerId then ({ it with kmerId := it.numKmers }, none)
    else
      let id' := it.kmerId + n
      ({ it with kmerId := id', kmer := (it.seq.drop id').take it.K }).next

end Export
