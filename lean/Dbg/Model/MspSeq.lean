import Dbg.Model.Msp
/-! Model of `msp_sequence` (msp.rs 279-324) and `MspIntervalP::bucket` (msp.rs 110-118). -/
namespace Msp
open Compress (Seq Base rc rank)

/-- `min_rc`: the smaller of a k-mer and its reverse complement (derived `Ord` = lexicographic) -/
def minRc (x : Seq) : Seq := if x < rc x then x else rc x

/-- the score closure of `msp_sequence`; `perm` is indexed by rank -/
def permScore (perm : Array Nat) (rcMode : Bool) (w : Seq) : Nat :=
  let a := perm[rank w]?.getD 0
  if rcMode then min a (perm[rank (rc w)]?.getD 0) else a

/-- `Exts::from_slice_bounds` (lib.rs 645-660) as the byte `(r << 4) | l` -/
def optBit (o : Option Base) : Nat := match o with | some b => 1 <<< b.val | none => 0

def extsFromSliceBounds (seq : Array Base) (start len : Nat) : Nat :=
  let l := if start > 0 then optBit seq[start - 1]? else 0
  let r := if start + len < seq.size then optBit seq[start + len]? else 0
  (r <<< 4) ||| l

structure Piece where
  bucket : Nat
  exts : Nat
  seq : Seq
deriving Repr, DecidableEq

/-- `msp_sequence::<P, V>(k, seq, permutation, rc)`; `maxLen = V::max_len()`; `perm = none` is the
    default identity permutation; `none` = a panic (capacity assertion, or a perm index out of range) -/
def mspSequence (k p : Nat) (seq : Array Base) (perm : Option (Array Nat)) (rcMode : Bool) (maxLen : Nat) :
    Option (List Piece) :=
  if ¬ (2 * k - p ≤ maxLen) then none
  else if seq.size < k then some []
  else
    let perm := perm.getD (Array.range (4 ^ p))
    if perm.size < 4 ^ p then none else
    match scan seq (permScore perm rcMode) k p with
    | none => none
    | some ivs => some (ivs.map fun iv =>
        ⟨rank (minRc iv.mini) % 2 ^ 32, extsFromSliceBounds seq iv.start iv.len, window seq iv.len iv.start⟩)

/-- the deprecated `simple_scan::<V, P>(k, seq, permutation, rc)` (msp.rs 61-97): `Scanner::scan` with the permutation score,
    every interval reduced to `(bucket as u16, start, len)`; `none` = one of its three assertions, a permutation index out
    of range, or a panic of `scan` -/
def simpleScan (k p : Nat) (seq : Array Base) (perm : Array Nat) (rcMode : Bool) : Option (List (Nat × Nat × Nat)) :=
  if ¬ (k ≤ seq.size ∧ p ≤ 8 ∧ seq.size < 2 ^ 32) then none
  else
    -- every p-mer of the sequence is scored: an index outside the permutation panics
    let inRange := (List.range (seq.size + 1 - p)).all fun q =>
      decide (rank (window seq p q) < perm.size) && (!rcMode || decide (rank (rc (window seq p q)) < perm.size))
    if p ≤ seq.size ∧ ¬ inRange then none
    else match scan seq (permScore perm rcMode) k p with
      | none => none
      | some ivs => some (ivs.map fun iv => (rank (minRc iv.mini) % 2 ^ 16, iv.start, iv.len))

end Msp
