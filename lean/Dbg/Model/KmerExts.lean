import Dbg.Model.Kmer
import Dbg.Model.ExtsOps
/-! `Kmer::get_extensions(exts, dir)` (lib.rs 221-224): the k-mer extended by every base of the extension set on that side. -/
namespace Kmer
variable (c : Cfg)

def getExtensions (s : St c) (e : Compress.Exts) (d : Walk.Dir) : List (St c) :=
  (e.get d).map fun b => extend c s b (match d with | .R => true | .L => false)

end Kmer
