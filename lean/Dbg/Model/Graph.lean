import Dbg.Model.Compress
/-! String-level model of `BaseGraph` / `DebruijnGraph` (graph.rs 40-491): node lookup by terminal k-mer,
    `find_link`, `find_edges`, `get_valid_exts` / `fix_exts`, `max_path`, `sequence_of_path`.
    The two `BoomHashMap`s of a finished graph are modelled by their contract: exact lookup among the
    nodes' first (left map) / last (right map) k-mers. -/
namespace Graph
open Compress (Seq Base Exts rc extend minRcFlip Node)
open Walk (Dir)

structure G (D : Type) where
  K : Nat
  nodes : List (Node D)
  stranded : Bool

variable {D : Type}

/-- `sequence.term_kmer(dir)` -/
def termKmer (K : Nat) (s : Seq) : Dir → Seq
  | .L => s.take K
  | .R => s.drop (s.length - K)

/-- `search_kmer(kmer, side)`: the node whose `side`-terminal k-mer is `kmer` -/
def searchKmer (g : G D) (kmer : Seq) (side : Dir) : Option Nat :=
  g.nodes.findIdx? fun nd => termKmer g.K nd.seq side == kmer

/-- `find_link(kmer, dir)` with the code's priority: facing side unflipped first, then (unstranded only) same side flipped -/
def findLink (g : G D) (kmer : Seq) (dir : Dir) : Option (Nat × Dir × Bool) :=
  match dir with
  | .L =>
    match searchKmer g kmer .R with
    | some idx => some (idx, .R, false)
    | none =>
      if !g.stranded then
        match searchKmer g (rc kmer) .L with
        | some idx => some (idx, .L, true)
        | none => none
      else none
  | .R =>
    match searchKmer g kmer .L with
    | some idx => some (idx, .L, false)
    | none =>
      if !g.stranded then
        match searchKmer g (rc kmer) .R with
        | some idx => some (idx, .R, true)
        | none => none
      else none

def base4 : List Base := [0, 1, 2, 3]

/-- `find_edges(node_id, dir)` -/
def findEdges (g : G D) (id : Nat) (dir : Dir) : Option (List (Nat × Dir × Bool)) :=
  match g.nodes[id]? with
  | none => none
  | some nd =>
    let kmer := termKmer g.K nd.seq dir
    some (base4.filterMap fun b =>
      if nd.exts.hasExt dir b.val then findLink g (extend kmer b dir) dir else none)

/-- `Exts::set(dir, pos)` -/
def Exts.set (e : Exts) (d : Dir) (b : Nat) : Exts := ⟨e.val ||| ((1 <<< (b + (match d with | .R => 4 | .L => 0))) % 256)⟩

/-- `get_valid_exts(node_id, valid_nodes)`; `valid = none` means every node is valid -/
def getValidExts (g : G D) (id : Nat) (valid : Option (List Nat)) : Option Exts :=
  match g.nodes[id]? with
  | none => none
  | some nd =>
    let chk := fun (t : Nat) => match valid with | some vs => vs.contains t | none => true
    let lk := termKmer g.K nd.seq .L
    let rk := termKmer g.K nd.seq .R
    some (base4.foldl (fun (acc : Exts) b =>
      let acc := if nd.exts.hasExt .L b.val then
          (match findLink g (Compress.extendLeft lk b) .L with
           | some (t, _, _) => if chk t then Exts.set acc .L b.val else acc
           | none => acc) else acc
      if nd.exts.hasExt .R b.val then
          (match findLink g (Compress.extendRight rk b) .R with
           | some (t, _, _) => if chk t then Exts.set acc .R b.val else acc
           | none => acc) else acc) ⟨0⟩)

/-- `fix_exts(valid_nodes)`: sequential update (harmless: `find_link` does not read extensions) -/
def fixExts (g : G D) (valid : Option (List Nat)) : G D :=
  (List.range g.nodes.length).foldl (fun (g : G D) i =>
    match getValidExts g i valid, g.nodes[i]? with
    | some e, some nd => { g with nodes := g.nodes.set i { nd with exts := e } }
    | _, _ => g) g

/-- one node of `sequence_of_path`: the whole oriented sequence for the first node, all but its first `K-1` bases after that -/
def seqStep (g : G D) (acc : Option Seq) (pi : (Nat × Dir) × Nat) : Option Seq :=
  match acc, g.nodes[pi.1.1]? with
  | some sq, some nd =>
    let s := match pi.1.2 with | .L => nd.seq | .R => rc nd.seq
    let start := if pi.2 = 0 then 0 else g.K - 1
    some (sq ++ s.drop start)
  | _, _ => none

/-- `sequence_of_path(path)` -/
def sequenceOfPath (g : G D) (path : List (Nat × Dir)) : Option Seq :=
  path.zipIdx.foldl (seqStep g) (some [])

def optScore (g : G D) (score : D → Int) (c : Option (Nat × Dir)) : Int :=
  match c with
  | none => 0
  | some (id, _) => match g.nodes[id]? with | some nd => score nd.data | none => 0

def nodeSolid (g : G D) (solid : D → Bool) (id : Nat) : Bool :=
  match g.nodes[id]? with | some nd => solid nd.data | none => false

def pickNext (g : G D) (score : D → Int) (solid : D → Bool) (edges : List (Nat × Dir × Bool)) : Option (Nat × Dir) × Nat :=
  edges.foldl (fun (acc : Option (Nat × Dir) × Nat) (e : Nat × Dir × Bool) =>
    let cand : Option (Nat × Dir) := some (e.1, e.2.1)
    let sp := if nodeSolid g solid e.1 then acc.2 + 1 else acc.2
    (if optScore g score acc.1 < optScore g score cand then cand else acc.1, sp)) (none, 0)

/-- one arm of the greedy walk of `max_path`; scores are integers (exactly representable `f32`s) -/
def maxPathArm (g : G D) (score : D → Int) (solid : D → Bool) (doFlip : Bool) :
    Nat → (Nat × Dir) → List Nat → List (Nat × Dir) → List (Nat × Dir) × List Nat
  | 0, _, used, path => (path, used)
  | fuel + 1, cur, used, path =>
    match findEdges g cur.1 cur.2.flip with
    | none => (path, used)
    | some edges =>
      let (next, solidPaths) := pickNext g score solid edges
      if solidPaths > 1 then (path, used)
      else match next with
        | some (nid, ninc) =>
          if used.contains nid then (path, used)
          else
            let path' := if doFlip then (nid, ninc.flip) :: path else path ++ [(nid, ninc)]
            maxPathArm g score solid doFlip fuel (nid, ninc) (nid :: used) path'
        | none => (path, used)

/-- `max_path(score, solid_path)`; the walk visits each node at most once, so `nodes.length` steps of fuel suffice -/
def maxPath (g : G D) (score : D → Int) (solid : D → Bool) : List (Nat × Dir) :=
  if g.nodes.isEmpty then []
  else
    -- strict `>` from f32::MIN: the first maximal score wins
    let best := (g.nodes.zipIdx.foldl (fun (acc : Nat × Option Int) (ni : Node D × Nat) =>
      match acc.2 with
      | none => (ni.2, some (score ni.1.data))
      | some bs => if score ni.1.data > bs then (ni.2, some (score ni.1.data)) else acc) (0, none)).1
    let (p1, u1) := maxPathArm g score solid false g.nodes.length (best, .L) [best] [(best, .L)]
    (maxPathArm g score solid true g.nodes.length (best, .R) u1 p1).1

/-- a state of the beam search of `max_path_beam`: the path so far (entries `(node, side it was entered from)`), its
    score and its status (0 = Active, 1 = End, 2 = Cycle) -/
structure BState where
  path : List (Nat × Dir)
  score : Int
  status : Nat

/-- `expand_state`: one successor per edge on the exit side of the last node of the path; `none` = a panic -/
def expandState (g : G D) (score : D → Int) (s : BState) : Option (List BState) :=
  match s.path.getLast? with
  | none => none
  | some cur =>
    match findEdges g cur.1 cur.2.flip with
    | none => none
    | some edges => edges.mapM fun e =>
      match g.nodes[e.1]? with
      | none => none
      | some nn =>
        let status : Option Nat :=
          if s.path.any (fun p => p.1 == e.1) then some 2
          else match findEdges g e.1 e.2.1.flip with
            | none => none
            | some es => some (if es.isEmpty then 1 else 0)
        status.map fun st => ⟨s.path ++ [(e.1, e.2.1)], s.score + score nn.data, st⟩

/-- one round of the `while active` loop: expand the active states, keep the others, stable sort by descending score,
    truncate to the beam width; the flag tells whether any state was active -/
def beamRound (g : G D) (score : D → Int) (beam : Nat) (states : List BState) : Option (List BState × Bool) :=
  match states.mapM (fun s => if s.status == 0 then expandState g score s else some [s]) with
  | none => none
  | some parts => some ((parts.flatten.mergeSort (fun a b => decide (b.score ≤ a.score))).take beam, states.any (·.status == 0))

def beamLoop (g : G D) (score : D → Int) (beam : Nat) : Nat → List BState → Option (List BState)
  | 0, _ => none
  | fuel + 1, states =>
    match beamRound g score beam states with
    | none => none
    | some (ns, active) => if active then beamLoop g score beam fuel ns else some ns

/-- the initial states: one per node without extensions on some side, else node 0 -/
def beamInit (g : G D) (score : D → Int) : List BState :=
  let sts := g.nodes.zipIdx.filterMap fun (ni : Node D × Nat) =>
    let nl := ni.1.exts.numExtDir .L
    let nr := ni.1.exts.numExtDir .R
    if nl == 0 || nr == 0 then
      some ⟨[(ni.2, if nl > 0 then Dir.R else Dir.L)], score ni.1.data, if nl == 0 && nr == 0 then 1 else 0⟩
    else none
  if sts.isEmpty then
    match g.nodes[0]? with
    | some n => [⟨[(0, .L)], score n.data, 0⟩]
    | none => []
  else sts

/-- `max_path_beam(beam, score, _)`; `none` = a panic (`states[0]` on an empty beam, or a dangling extension). An active
    path never repeats a node, so it is expanded at most `nodes.length` times. -/
def maxPathBeam (g : G D) (beam : Nat) (score : D → Int) : Option (List (Nat × Dir)) :=
  if g.nodes.isEmpty then some []
  else match beamLoop g score beam (g.nodes.length + 2) (beamInit g score) with
    | none => none
    | some sts => sts.head?.map (·.path)

/-- `CleanGraph::test_tip`: no extension on one side, at most one on the other, and the caller's predicate -/
def testTip (n : Node D) (pred : Node D → Bool) : Bool :=
  let nl := n.exts.numExtDir .L
  let nr := n.exts.numExtDir .R
  if nr > 0 && nl > 0 then false
  else ((nl == 0 && nr ≤ 1) || (nr == 0 && nl ≤ 1)) && pred n

/-- `CleanGraph::find_bad_nodes` -/
def findBadNodes (g : G D) (pred : Node D → Bool) : List Nat :=
  (List.range g.nodes.length).filter fun i => match g.nodes[i]? with | some n => testTip n pred | none => false

/-- a node that is a single k-mer equal to its own reverse complement (`is_compressed` tests this regardless of strandedness) -/
def palSingle (g : G D) (n : Node D) : Bool := n.seq.length == g.K && Compress.isPalindrome (n.seq.take g.K)

/-- one probe of `is_compressed`: node `i`, side `dir` -/
def isCompressedAt (g : G D) (join : D → D → Bool) (i : Nat) (dir : Dir) : Option (Nat × Nat) :=
  match g.nodes[i]?, findEdges g i dir with
  | some n, some [e] =>
    match g.nodes[e.1]?, findEdges g e.1 e.2.1 with
    | some nx, some [_] =>
      if palSingle g n || palSingle g nx || i == e.1 then none
      else if join n.data nx.data then some (i, e.1) else none
    | _, _ => none
  | _, _ => none

/-- `is_compressed(spec)`: the first pair of nodes joined by an unbranched edge the spec would merge, if any -/
def isCompressed (g : G D) (join : D → D → Bool) : Option (Nat × Nat) :=
  (List.range g.nodes.length).findSome? fun i => [Dir.L, Dir.R].findSome? fun dir => isCompressedAt g join i dir

end Graph
