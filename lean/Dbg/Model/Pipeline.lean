import Dbg.Model.MspSeq
import Dbg.Model.Filter
import Dbg.Model.CompressGraph
/-! Composition of the Layer-1 models into the two assembly pipelines (cf. test.rs and the crate's documentation):
    direct  = filter → prune → compress → finish;
    sharded = minimizer partition → per-shard filter (→ sharded prune) → per-shard compress → combine → finish → compress_graph. -/
namespace Pipeline
open Compress (Seq Base Exts Entry Node Table)
open Filter (Payload)

def sumReduce (a b : Payload) : Payload := [min (a.headD 0 + b.headD 0) (2 ^ 32 - 1)]

/-- `BaseGraph::combine`: concatenation; `none` = mixed strandedness panic (not reachable here: one flag) -/
def combine {D} (gs : List (List (Node D))) : List (Node D) := gs.flatten

/-- the direct pipeline; `sigma` = index order of the hash map built from the pruned, key-sorted table -/
def direct (K : Nat) (reads : List (Seq × Exts × Nat)) (stranded : Bool) (thr : Nat) (sigma : List Nat) :
    Option (Graph.G Payload) :=
  match Filter.filterKmers K reads (.count thr) stranded false 4 Gen.filterBytesPerUnit 16 with
  | none => none
  | some fr =>
    let T0 := Filter.removeCensoredExts stranded fr.table
    let T := sigma.filterMap fun i => T0[i]?
    match Compress.compressKmersC T stranded (fun _ _ => true) sumReduce with
    | none => none
    | some ns => some ⟨K, ns.map (·.1), stranded⟩

/-- the pieces of all reads grouped by bucket, buckets ascending, pieces in read order (each piece twice with labels 0/1
    is not needed here: one label) -/
def shards (K P : Nat) (reads : List Seq) (perm : Option (Array Nat)) (rcMode : Bool) : Option (List (Nat × List (Seq × Exts × Nat))) :=
  let pieces? := reads.mapM fun r => Msp.mspSequence K P r.toArray perm rcMode (2 ^ 64 - 1)
  match pieces? with
  | none => none
  | some pss =>
    let all := pss.flatten
    let buckets := (all.map (·.bucket)).eraseDups
    let sorted := buckets.foldl (fun acc b => (acc.takeWhile (· < b)) ++ [b] ++ (acc.dropWhile (· < b))) []
    some (sorted.map fun b => (b, (all.filter (·.bucket == b)).map fun pc => (pc.seq, (⟨pc.exts⟩ : Exts), 0)))

/-- one shard: filter (→ sharded prune) → hash-map order → compress -/
def shardGraph (K : Nat) (stranded : Bool) (thr : Nat) (prune : Bool) (seqs : List (Seq × Exts × Nat)) (sigma : List Nat) :
    Option (List (Node Payload)) :=
  match Filter.filterKmers K seqs (.count thr) stranded prune 4 Gen.filterBytesPerUnit 16 with
  | none => none
  | some fr =>
    let T0 := if prune then Filter.removeCensoredExtsSharded stranded fr.table fr.allKmers else fr.table
    let T := sigma.filterMap fun i => T0[i]?
    match Compress.compressKmersC T stranded (fun _ _ => true) sumReduce with
    | some ns => some (ns.map (·.1))
    | none => none

/-- the sharded pipeline; `sigmas` = per shard (in bucket order) the index order of its hash map -/
def sharded (K P : Nat) (reads : List Seq) (perm : Option (Array Nat)) (stranded : Bool) (thr : Nat) (prune : Bool)
    (sigmas : List (List Nat)) : Option (Graph.G Payload) :=
  match shards K P reads perm (!stranded) with
  | none => none
  | some shs =>
    match (shs.zip sigmas).mapM fun x => shardGraph K stranded thr prune x.1.2 x.2 with
    | none => none
    | some gs =>
      let combined : Graph.G Payload := ⟨K, combine gs, stranded⟩
      (CompressGraph.compressGraph stranded combined (fun _ _ => true) sumReduce []).map (·.1)

end Pipeline
