import Dbg.Model.DnaString
import Dbg.Model.Kmer
/-! Models of `DnaString::get_kmer` (dna_string.rs 123-153), `DnaStringSlice` (541-758, with the repairs of
    D1 and D2), and the k-mer iterators of lib.rs 365-422, 768-842. -/
namespace DnaStr
open Kmer (Cfg St)

/-- the block walk shared by `DnaString::get_kmer` and `Lmer::get_kmer` -/
def walkBlocks (c : Cfg) (storage : List Block) (block kmerPos blockPos : Nat) (kmer : St c) : Option (St c) :=
  if h : kmerPos < c.K then
    let nb := min (c.K - kmerPos) (32 - blockPos)
    if hnb : nb = 0 then none else      -- cannot happen (blockPos < 32); keeps the recursion well-founded
    match storage[block]? with
    | none => none
    | some v =>
      let val := v <<< (2 * blockPos)
      walkBlocks c storage (block + 1) (kmerPos + nb) 0 (Kmer.setSliceMut c kmer kmerPos nb val)
  else some kmer
termination_by c.K - kmerPos
decreasing_by omega

/-- `DnaString::get_kmer::<K>(pos)` -/
def getKmer (c : Cfg) (d : T) (pos : Nat) : Option (St c) :=
  if pos > d.len ∨ d.len - pos < c.K then none      -- assertion (usize underflow counts as failure)
  else walkBlocks c d.storage (addr pos).1 0 (pos % 32) (Kmer.empty c)

structure Slice where
  start : Nat
  length : Nat
  isRc : Bool
deriving Repr, DecidableEq

/-- `crate::complement(b) = (!b) & 3` on a `u8` -/
def complement (b : Nat) : Nat := (255 - b % 256) &&& Gen.complementMask

def prefix_ (d : T) (k : Nat) : Option Slice := if k ≤ d.len then some ⟨0, k, false⟩ else none
def suffix_ (d : T) (k : Nat) : Option Slice := if k ≤ d.len then some ⟨d.len - k, k, false⟩ else none
/-- `DnaString::slice(start, end)`; `end < start` underflows (panic in the checked profile) -/
def sliceOf (d : T) (s e : Nat) : Option Slice :=
  if s ≤ d.len ∧ e ≤ d.len ∧ s ≤ e then some ⟨s, e - s, false⟩ else none

namespace Slice

def get (d : T) (s : Slice) (i : Nat) : Option Nat :=
  if !s.isRc then DnaStr.get d (i + s.start)
  else if s.start + s.length < 1 + i then none     -- usize underflow
  else (DnaStr.get d (s.start + s.length - 1 - i)).map complement

def rc (s : Slice) : Slice := { s with isRc := !s.isRc }

/-- `DnaStringSlice::slice(start, end)` -/
def slice (s : Slice) (a b : Nat) : Option Slice :=
  if a ≤ s.length ∧ b ≤ s.length ∧ a ≤ b then
    if !s.isRc then some ⟨s.start + a, b - a, s.isRc⟩
    else some ⟨s.start + s.length - b, b - a, s.isRc⟩
  else none

def bytes (d : T) (s : Slice) : Option (List Nat) := (List.range s.length).mapM (get d s)
def ascii (d : T) (s : Slice) : Option (List Nat) := (bytes d s).map (·.map bitsToAscii)
def toDnaString (d : T) (s : Slice) : Option (List Nat) := (bytes d s).map (·.map bitsToBase)
def display (d : T) (s : Slice) : Option (List Nat) := toDnaString d s

/-- `to_owned()`: push base by base -/
def toOwned (d : T) (s : Slice) : Option T :=
  match bytes d s with
  | none => none
  | some bs => bs.foldl (fun acc b => acc.bind (push · b)) (some DnaStr.new)

/-- `PartialEq` -/
def eq (d1 : T) (s1 : Slice) (d2 : T) (s2 : Slice) : Option Bool :=
  if s2.length ≠ s1.length then some false
  else match bytes d1 s1, bytes d2 s2 with
    | some a, some b => some (a == b)
    | _, _ => none

/-- `get_kmer::<K>(pos)` -/
def getKmer (c : Cfg) (d : T) (s : Slice) (pos : Nat) : Option (St c) :=
  if ¬ (pos + c.K ≤ s.length) then none     -- debug_assert (checked profile)
  else if !s.isRc then DnaStr.getKmer c d (s.start + pos)
  else (DnaStr.getKmer c d (s.start + s.length - c.K - pos)).map (Kmer.rc c)

/-- `Debug`, as repaired (D2): the displayed bases for lengths < 256, a summary otherwise -/
def debug (d : T) (s : Slice) : Option (List Nat) :=
  if s.length < Gen.sliceDebugLimit then toDnaString d s
  else some (s!"start: {s.start}, len: {s.length}, is_rc: {s.isRc}".toList.map Char.toNat)

abbrev kmer32 : Cfg := ⟨64, 32, false⟩

/-- one whole 32-base block of `hamming_dist`: `get_kmer::<Kmer32>` on both views, `count_diff_2_bit_packed` -/
def hamBlockStep (d1 : T) (s1 : Slice) (d2 : T) (s2 : Slice) (acc : Option Nat) (blk : Nat) : Option Nat :=
  match acc, getKmer kmer32 d1 s1 (blk * 32), getKmer kmer32 d2 s2 (blk * 32) with
  | some n, some b1, some b2 => some (n + countDiff2Bit b1 b2)
  | _, _, _ => none

/-- one trailing base of `hamming_dist` -/
def hamTailStep (d1 : T) (s1 : Slice) (d2 : T) (s2 : Slice) (acc : Option Nat) (pos : Nat) : Option Nat :=
  match acc, get d1 s1 pos, get d2 s2 pos with
  | some n, some a, some b => some (if a != b then n + 1 else n)
  | _, _, _ => none

/-- `hamming_dist`, as repaired (D1): whole 32-base blocks through `get_kmer::<Kmer32>` and
    `count_diff_2_bit_packed`, the tail base by base -/
def hammingDist (d1 : T) (s1 : Slice) (d2 : T) (s2 : Slice) : Option Nat :=
  if s1.length ≠ s2.length then none
  else
    let whole := s1.length >>> 5
    let blocks := (List.range whole).foldl (hamBlockStep d1 s1 d2 s2) (some 0)
    (List.range' (whole <<< 5) (s1.length - (whole <<< 5))).foldl (hamTailStep d1 s1 d2 s2) blocks

end Slice
end DnaStr
