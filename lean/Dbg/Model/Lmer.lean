import Dbg.Model.Slice
/-! Bit-level model of `Lmer<[u64; n]>` (vmer.rs 16-167), generic in the number of words `n`. The length
    lives in the low 8 bits of the last word. `none` = index panic / failed assertion. -/
namespace Lmer
open Kmer (Cfg St)

abbrev Block := BitVec 64

/-- storage words; `n = storage.length` -/
structure T where
  storage : List Block
deriving Repr, DecidableEq

abbrev k32 : Cfg := ⟨64, 32, false⟩

/-- `block_set(kmer, pos, val)` -/
def blockSet (b : Block) (pos val : Nat) : Block :=
  let offset := (31 - pos) * 2
  (b &&& ~~~((3#64) <<< offset)) ||| (BitVec.ofNat 64 val <<< offset)

/-- `block_get(kmer, pos)` -/
def blockGet (b : Block) (pos : Nat) : Nat := ((b >>> ((31 - pos) * 2)) &&& 3#64).toNat

def T.n (l : T) : Nat := l.storage.length

def len (l : T) : Option Nat := (l.storage[l.n - 1]?).map fun w => (w &&& 0xff#64).toNat

def get (l : T) (pos : Nat) : Option Nat := (l.storage[pos / 32]?).map fun w => blockGet w (pos % 32)

def setMut (l : T) (pos val : Nat) : Option T :=
  match l.storage[pos / 32]? with
  | some w => some ⟨l.storage.set (pos / 32) (blockSet w (pos % 32) val)⟩
  | none => none

/-- `max_len() = (n*64 - 8) / 2` -/
def maxLen (n : Nat) : Nat := (n * 64 - 8) / 2

/-- `new(len)`: all-zero words, `len & 0xff` in the last one -/
def new (n len : Nat) : Option T :=
  if n = 0 then none else some ⟨(List.replicate n 0#64).set (n - 1) (BitVec.ofNat 64 (len % 2 ^ 64) &&& 0xff#64)⟩

/-- `set_slice_mut(pos, n_bases, value)` -/
def setSliceMut (l : T) (pos nBases : Nat) (value : Block) : Option T :=
  let b0 := pos / 32
  let blockPos := pos % 32
  let topMask : Block := Kmer.topMask k32 blockPos
  let bottom0 : Block := Kmer.bottomMask k32 (32 - (blockPos + nBases))
  let bottomMask := if b0 == l.n - 1 then bottom0 ||| 0xFF#64 else bottom0
  let mask := topMask ||| bottomMask
  let nb0 := 32 - blockPos
  let valueTop := value >>> (blockPos * 2)
  match l.storage[b0]? with
  | none => none
  | some w0 =>
    let st := l.storage.set b0 ((w0 &&& mask) ||| (valueTop &&& ~~~mask))
    if nBases > nb0 then
      let nb1 := nBases - nb0
      let bm : Block := Kmer.bottomMask k32 (32 - nb1)
      let valueBottom := value <<< (nb0 * 2)
      match st[b0 + 1]? with
      | none => none
      | some w1 => some ⟨st.set (b0 + 1) ((w1 &&& bm) ||| (valueBottom &&& ~~~bm))⟩
    else some ⟨st⟩

/-- the loop of `rc()` -/
def rcLoop (l : T) (total : Nat) (block pos : Nat) (acc : T) : Option T :=
  if h : pos < total then
    let nb := min 32 (total - pos)
    match l.storage[block]? with
    | none => none
    | some v0 =>
      let v := if block == l.n - 1 then v0 &&& ~~~(0xFF#64) else v0
      let vRc := (~~~(Kmer.revTwos v)) <<< (64 - nb * 2)
      match setSliceMut acc (total - pos - nb) nb vRc with
      | none => none
      | some acc' => rcLoop l total (block + 1) (pos + nb) acc'
  else some acc
termination_by total - pos
decreasing_by omega

def rc (l : T) : Option T :=
  match len l with
  | none => none
  | some total =>
    match new l.n total with
    | none => none
    | some blank => rcLoop l total 0 0 blank

/-- `from_slice(seq)`: `new(len)` then `set_mut` each base -/
def fromSlice (n : Nat) (seq : List Nat) : Option T :=
  match new n seq.length with
  | none => none
  | some l0 => seq.zipIdx.foldl (fun acc (bi : Nat × Nat) => acc.bind (setMut · bi.2 bi.1)) (some l0)

def toBytes (l : T) : Option (List Nat) :=
  match len l with
  | none => none
  | some total => (List.range total).mapM (get l)

/-- `get_kmer::<K>(pos)` -/
def getKmer (c : Cfg) (l : T) (pos : Nat) : Option (St c) :=
  match len l with
  | none => none
  | some total =>
    if pos > total ∨ total - pos < c.K then none
    else DnaStr.walkBlocks c l.storage (pos / 32) 0 (pos % 32) (Kmer.empty c)

end Lmer
