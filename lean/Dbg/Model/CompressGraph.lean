import Dbg.Model.Graph
/-! String-level model of `CompressFromGraph` (compression.rs 100-349): re-compression of a graph with
    optional node censoring. `none` = a panic of the real code. -/
namespace CompressGraph
open Compress (Seq Base Exts rc extend isPalindrome Node)
open Walk (Dir rm rm_length_lt)
open Graph

variable {D : Type}

inductive ExtModeNode
  | unique (next : Nat) (outgoing : Dir)
  | terminal (e : Exts)
  | panic

/-- the orientation test of `try_extend_node`: leaving through `dir`, a link arrives on the facing side unless flipped -/
def consistentDir (dir incoming : Dir) (flip : Bool) : Bool :=
  match dir, incoming, flip with
  | .L, .R, false => true | .L, .L, true => true | .R, .L, false => true | .R, .R, true => true
  | _, _, _ => false

/-- everything `try_extend_node` computes that does not depend on availability -/
inductive StaticN
  | panic
  | terminal (e : Exts)
  /-- a resolved unique extension: target `y` entered on side `incoming`; `bad` = the target k-mer is a palindrome
      (unstranded) or `join` refused; `cnt` = number of extensions of the target on the entered side -/
  | cand (y : Nat) (incoming : Dir) (bad : Bool) (cnt : Nat) (e : Exts)

def staticNode (g : G D) (st : Bool) (join : D → D → Bool) (node : Nat) (dir : Dir) : StaticN :=
  match g.nodes[node]? with
  | none => .panic
  | some nd =>
    if nd.exts.numExtDir dir != 1 || (!st && nd.seq.length == g.K && isPalindrome (nd.seq.take g.K)) then
      .terminal (nd.exts.singleDir dir)
    else
      match nd.exts.uniqueExt dir with
      | none => .panic
      | some b =>
        let endKmer := termKmer g.K nd.seq dir
        let nextKmer := extend endKmer b dir
        match findLink g nextKmer dir with
        | none => .panic                                   -- "No kmer"
        | some (nextId, incoming, flip) =>
          match g.nodes[nextId]? with
          | none => .panic
          | some nn =>
            let consistent := nn.seq.length == g.K || consistentDir dir incoming flip
            if !consistent then .panic
            else .cand nextId incoming ((!st && isPalindrome nextKmer) || !(join nd.data nn.data)) (nn.exts.numExtDir incoming)
                  (nd.exts.singleDir dir)

/-- `try_extend_node(node, dir)`: availability of the target is tested before its incoming count -/
def tryExtendNode (g : G D) (st : Bool) (join : D → D → Bool) (avail : List Nat) (node : Nat) (dir : Dir) : ExtModeNode :=
  match staticNode g st join node dir with
  | .panic => .panic
  | .terminal e => .terminal e
  | .cand y incoming bad cnt e =>
    if !(avail.contains y) || bad then .terminal e
    else if cnt == 0 then .panic
    else if cnt == 1 then .unique y incoming.flip
    else .terminal e

/-- `extend_node`: the path of `(node, incoming side)` and the terminal extensions -/
def extendNode (g : G D) (st : Bool) (join : D → D → Bool) (avail : List Nat) (cur : Nat) (dir : Dir) :
    Option (List (Nat × Dir) × Exts × List Nat) :=
  match tryExtendNode g st join avail cur dir with
  | .unique nx out =>
    if h : nx ∈ avail then
      match extendNode g st join (rm avail nx) nx out with
      | some (p, e, a) => some ((nx, out.flip) :: p, e, a)
      | none => none
    else none     -- cannot happen: `unique` is only returned for available nodes
  | .terminal e => some ([], e, avail)
  | .panic => none
termination_by avail.length
decreasing_by exact rm_length_lt h

/-- payload fold of `build_node`: the reduction over the payloads of the nodes on a path -/
def payloadFold (g : G D) (reduce : D → D → D) (acc : Option D) (p : Nat × Dir) : Option D :=
  match acc, (g.nodes[p.1]?).map (·.data) with
  | some d, some x => some (reduce d x)
  | _, _ => none

/-- `build_node(seed)` -/
def buildNode (g : G D) (st : Bool) (join : D → D → Bool) (reduce : D → D → D) (avail : List Nat) (seed : Nat) :
    Option (Node D × List (Nat × Dir) × List Nat) :=
  match g.nodes[seed]? with
  | none => none
  | some sn =>
    match extendNode g st join (rm avail seed) seed .L with
    | none => none
    | some (lpath, lext, a2) =>
      match extendNode g st join (rm a2 seed) seed .R with
      | none => none
      | some (rpath, rext, a3) =>
        let nodePath := (lpath.map fun p => (p.1, p.2.flip)).reverse ++ [(seed, Dir.L)] ++ rpath
        match rpath.foldl (payloadFold g reduce) (lpath.foldl (payloadFold g reduce) (some sn.data)), sequenceOfPath g nodePath with
        | some dat, some sq =>
          let leftExtend := match lpath.getLast? with
            | none => lext | some (_, .L) => lext.complement | some (_, .R) => lext
          let rightExtend := match rpath.getLast? with
            | none => rext | some (_, .L) => rext | some (_, .R) => rext.complement
          some (⟨sq, Compress.Exts.fromSingleDirs leftExtend rightExtend, dat⟩, nodePath, a3)
        | _, _ => none

def compressLoop (g : G D) (st : Bool) (join : D → D → Bool) (reduce : D → D → D) :
    List Nat → List Nat → Option (List (Node D × List (Nat × Dir)))
  | [], _ => some []
  | i :: is, avail =>
    if i ∈ avail then
      match buildNode g st join reduce avail i with
      | none => none
      | some (nd, path, avail') =>
        match compressLoop g st join reduce is avail' with
        | none => none
        | some rest => some ((nd, path) :: rest)
    else compressLoop g st join reduce is avail

/-- `compress_graph(stranded, spec, old_graph, censor_nodes)`: the new graph (after the final `fix_exts`) and, per
    new node, the path of old nodes it merges -/
def compressGraph (stranded : Bool) (g : G D) (join : D → D → Bool) (reduce : D → D → D) (censor : List Nat) :
    Option (G D × List (List (Nat × Dir))) :=
  let n := g.nodes.length
  let avail := (List.range n).filter fun i => !censor.contains i
  let g1 := fixExts g (some avail)
  -- the walk's palindrome tests use the `stranded` argument; node lookups use the old graph's own flag
  match compressLoop g1 stranded join reduce (List.range n) avail with
  | none => none
  | some nodes =>
    let g2 : G D := ⟨g.K, nodes.map (·.1), stranded⟩
    some (fixExts g2 none, nodes.map (·.2))

end CompressGraph
