import Dbg.Model.DnaString
/-! Model of the AVX2 kernels (bitops_avx2.rs 9-132) and of the ASCII constructors of `DnaString`
    (dna_string.rs 187-278). A 256-bit vector is a list of 32 bytes (index = byte position, 0 = lowest).
    The semantics of the eleven intrinsics are transcribed from Intel's pseudo-code. -/
namespace Avx2

abbrev V := List Nat   -- 32 bytes

def byte (v : V) (i : Nat) : Nat := v.getD i 0

/-- `_mm256_shuffle_epi8(a, b)`: per 128-bit lane, zero where the control byte has its MSB set -/
def shuffleEpi8 (a b : V) : V :=
  (List.range 32).map fun i =>
    let c := byte b i
    if c &&& 0x80 ≠ 0 then 0 else byte a ((i / 16) * 16 + (c &&& 0x0F))

/-- `_mm256_permute4x64_epi64(a, imm8)` -/
def permute4x64 (a : V) (imm : Nat) : V :=
  (List.range 32).map fun i =>
    let j := i / 8
    let srcChunk := (imm >>> (2 * j)) &&& 3
    byte a (srcChunk * 8 + i % 8)

/-- 16-bit word `k` of a vector -/
def word16 (a : V) (k : Nat) : Nat := byte a (2 * k) + 256 * byte a (2 * k + 1)

def ofWords16 (f : Nat → Nat) : V :=
  (List.range 32).map fun i => let w := f (i / 2) % 65536; if i % 2 = 0 then w % 256 else w / 256

/-- `_mm256_slli_epi16(a, n)` -/
def slliEpi16 (a : V) (n : Nat) : V := ofWords16 fun k => (word16 a k <<< n) % 65536
/-- `_mm256_srli_epi16(a, n)` -/
def srliEpi16 (a : V) (n : Nat) : V := ofWords16 fun k => word16 a k >>> n

/-- `_mm256_unpacklo_epi8(a, b)` -/
def unpackloEpi8 (a b : V) : V :=
  (List.range 32).map fun i =>
    let lane := i / 16; let p := i % 16
    if p % 2 = 0 then byte a (lane * 16 + p / 2) else byte b (lane * 16 + p / 2)
/-- `_mm256_unpackhi_epi8(a, b)` -/
def unpackhiEpi8 (a b : V) : V :=
  (List.range 32).map fun i =>
    let lane := i / 16; let p := i % 16
    if p % 2 = 0 then byte a (lane * 16 + 8 + p / 2) else byte b (lane * 16 + 8 + p / 2)

/-- `_mm256_movemask_epi8(a)` as an unsigned 32-bit value -/
def movemaskEpi8 (a : V) : Nat := (List.range 32).foldl (fun acc i => acc + ((byte a i) / 128) * 2 ^ i) 0

def andSi256 (a b : V) : V := (List.range 32).map fun i => byte a i &&& byte b i
/-- `_mm256_andnot_si256(a, b) = (!a) & b` -/
def andnotSi256 (a b : V) : V := (List.range 32).map fun i => (255 - byte a i) &&& byte b i
def cmpeqEpi8 (a b : V) : V := (List.range 32).map fun i => if byte a i = byte b i then 255 else 0
def set1Epi8 (x : Nat) : V := List.replicate 32 x
def zero : V := List.replicate 32 0
/-- `_mm256_testc_si256(a, b)`: CF = ((!a) & b) == 0 -/
def testcSi256 (a b : V) : Bool := (andnotSi256 a b).all (· == 0)

/-- `pack_32_bases` -/
def pack32Bases (bases : V) : Nat :=
  let reversed := shuffleEpi8 bases Gen.avxReverseMask
  let permuted := permute4x64 reversed Gen.avxPermuteImm
  let firstBits := slliEpi16 permuted Gen.avxShifts.1
  let secondBits := slliEpi16 permuted Gen.avxShifts.2
  let loHalf := unpackloEpi8 firstBits secondBits
  let hiHalf := unpackhiEpi8 firstBits secondBits
  (movemaskEpi8 hiHalf <<< 32) ||| movemaskEpi8 loHalf

/-- the 64-bit constant `lut_hi` -/
def lutHi : Nat := Gen.avxHiLutChars.foldl (fun acc ch => acc ||| (1 <<< (ch - 64))) 0

/-- `_mm256_set_epi64x(lut_hi, 0, lut_hi, 0)` -/
def hiLut : V := (List.range 32).map fun i => if (i / 8) % 2 = 1 then (lutHi >>> (8 * (i % 8))) &&& 0xFF else 0

/-- `convert_bases`: the converted lanes and the validity flag -/
def convertBases (input : V) : V × Bool :=
  let loMask := set1Epi8 Gen.avxLoMask
  let hi := andSi256 (srliEpi16 input Gen.avxHiShift) loMask
  let hiLookup := shuffleEpi8 hiLut hi
  let loLookup := shuffleEpi8 Gen.avxLoLut input
  let mask := cmpeqEpi8 (andSi256 loLookup hiLookup) zero
  let valid := testcSi256 zero mask
  let shuffled := shuffleEpi8 Gen.avxLut input
  (andnotSi256 mask shuffled, valid)

def baseToBits (ch : Nat) : Nat := Gen.baseToBits.getD ch 0

/-- `from_acgt_bytes`, scalar path -/
def fromAcgtBytesScalar (bytes : List Nat) : Option DnaStr.T := DnaStr.extend DnaStr.new (bytes.map baseToBits)

/-- the chunk loop of the vector path -/
def vecLoop (d : DnaStr.T) (bytes : List Nat) : Option DnaStr.T :=
  if h : bytes = [] then some d
  else
    let chunk := bytes.take 32
    if chunk.length = 32 then
      let packed := pack32Bases (convertBases chunk).1
      vecLoop { d with storage := d.storage ++ [BitVec.ofNat 64 packed] } (bytes.drop 32)
    else
      match DnaStr.extend d (chunk.map baseToBits) with
      | some d' => vecLoop d' (bytes.drop 32)
      | none => none
termination_by bytes.length
decreasing_by
  all_goals
    have : 0 < bytes.length := List.length_pos_iff.mpr h
    simp only [List.length_drop]; omega

/-- `from_acgt_bytes`, vector path: whole chunks pushed as blocks, the tail through `extend`, `len` set at the end -/
def fromAcgtBytesVec (bytes : List Nat) : Option DnaStr.T :=
  (vecLoop DnaStr.new bytes).map fun d => { d with len := bytes.length }

/-- `from_dna_string` on code points (`c as u8` truncates) -/
def fromDnaString (cs : List Nat) : Option DnaStr.T := DnaStr.extend DnaStr.new (cs.map fun c => baseToBits (c % 256))

/-- `from_dna_only_string`: maximal runs of ACGT characters -/
def fromDnaOnlyString (cs : List Nat) : List (List Nat) :=
  let step := fun (acc : List (List Nat) × List Nat) (c : Nat) =>
    match Gen.dnaOnlyBaseToBits.getD (c % 256) 255 with
    | 255 => if acc.2.isEmpty then acc else (acc.2.reverse :: acc.1, [])
    | b => (acc.1, b :: acc.2)
  let (runs, cur) := cs.foldl step ([], [])
  (if cur.isEmpty then runs else cur.reverse :: runs).reverse

/-- one base of `from_acgt_bytes_hashn`: the inline match, the hashed arm for every other byte -/
def hashnBase (h : Nat → Nat) (cp : Nat × Nat) : Nat :=
  match Gen.hashnArms.getD cp.1 255 with
  | 255 => h cp.2 % 4
  | b => b

/-- `from_acgt_bytes_hashn(bytes, read_name)`: the hasher seeded with the read name is a parameter
    `h : position → u64` (`DefaultHasher` is outside the model); every base is pushed -/
def fromAcgtBytesHashn (bytes : List Nat) (h : Nat → Nat) : Option DnaStr.T :=
  bytes.zipIdx.foldl (fun acc (cp : Nat × Nat) => acc.bind fun d => DnaStr.push d (hashnBase h cp)) (some DnaStr.new)

end Avx2
