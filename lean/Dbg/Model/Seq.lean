import Dbg.Model.Walk
import Dbg.Gen.Consts
/-! Sequence-level vocabulary shared by all Layer-1 models: bases, strings, reverse complement,
    extension by a base, canonical form, extension sets (lib.rs 577-749). -/
namespace Compress
open Walk (Dir)

abbrev Base := Fin 4
abbrev Seq := List Base

def comp (b : Base) : Base := ⟨3 - b.val, by omega⟩
def rc (s : Seq) : Seq := (s.map comp).reverse
def extendLeft (x : Seq) (b : Base) : Seq := b :: x.dropLast
def extendRight (x : Seq) (b : Base) : Seq := x.tail ++ [b]
def extend (x : Seq) (b : Base) : Dir → Seq
  | .L => extendLeft x b
  | .R => extendRight x b

/-- base-4 rank of a k-mer (`to_u64`), first base most significant -/
def rank (w : Seq) : Nat := w.foldl (fun a b => a * 4 + b.val) 0

/-- `min_rc_flip`: `(min, flip)`, flip is true unless `x < rc x` -/
def minRcFlip (x : Seq) : Seq × Bool := if x < rc x then (x, false) else (rc x, true)
def isPalindrome (x : Seq) : Bool := x.length % 2 == 0 && x == rc x
def condFlip (d : Dir) (b : Bool) : Dir := if b then d.flip else d

/-- extension byte, lib.rs 577-749 -/
structure Exts where
  val : Nat
deriving DecidableEq, Repr
def Exts.dirBits (e : Exts) : Dir → Nat
  | .R => e.val >>> 4
  | .L => e.val &&& 0xf
def Exts.numExtDir (e : Exts) (d : Dir) : Nat :=
  let b := e.dirBits d
  (b &&& 1) + ((b &&& 2) >>> 1) + ((b &&& 4) >>> 2) + ((b &&& 8) >>> 3)
/-- `Exts::complement` (swap bits, swap pairs) with the extracted masks -/
def Exts.complement (e : Exts) : Exts :=
  ⟨Gen.extsComplement.foldl (fun r (ms : Nat × Nat) => (((r &&& ms.1) <<< ms.2) ||| ((r >>> ms.2) &&& ms.1)) % 256) e.val⟩
/-- `Exts::reverse` -/
def Exts.reverse (e : Exts) : Exts := ⟨(((e.val &&& Gen.extsReverse.1) <<< Gen.extsReverse.2.1) ||| (e.val >>> Gen.extsReverse.2.2)) % 256⟩
/-- `Exts::rc` -/
def Exts.rc (e : Exts) : Exts := e.reverse.complement
/-- `Exts::merge(left, right)` -/
def Exts.merge (l r : Exts) : Exts := ⟨(l.val &&& Gen.extsMerge.1) ||| (r.val &&& Gen.extsMerge.2)⟩
def Exts.hasExt (e : Exts) (d : Dir) (b : Nat) : Bool := (e.dirBits d &&& (1 <<< b)) > 0

def Exts.singleDir (e : Exts) (d : Dir) : Exts := ⟨e.dirBits d⟩
def Exts.uniqueExt (e : Exts) (d : Dir) : Option Base :=
  if e.numExtDir d != 1 then none
  else
    let b := e.dirBits d
    if b &&& 1 > 0 then some 0 else if b &&& 2 > 0 then some 1 else if b &&& 4 > 0 then some 2
    else if b &&& 8 > 0 then some 3 else none

end Compress
