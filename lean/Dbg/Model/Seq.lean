import Dbg.Model.Walk
/-! Sequence-level vocabulary shared by all Layer-1 models: bases, strings, reverse complement,
    extension by a base, canonical form, extension sets (lib.rs 577-749). -/
namespace Compress
open Walk (Dir)

abbrev Base := Fin 4
abbrev Seq := List Base

def comp (b : Base) : Base := ⟨3 - b.val, by omega⟩
def rc (s : Seq) : Seq := (s.map comp).reverse
def extendLeft (x : Seq) (b : Base) : Seq := b :: x.dropLast
def extendRight (x : Seq) (b : Base) : Seq := x.tail ++ [b]
def extend (x : Seq) (b : Base) : Dir → Seq
  | .L => extendLeft x b
  | .R => extendRight x b

/-- base-4 rank of a k-mer (`to_u64`), first base most significant -/
def rank (w : Seq) : Nat := w.foldl (fun a b => a * 4 + b.val) 0

/-- `min_rc_flip`: `(min, flip)`, flip is true unless `x < rc x` -/
def minRcFlip (x : Seq) : Seq × Bool := if x < rc x then (x, false) else (rc x, true)
def isPalindrome (x : Seq) : Bool := x.length % 2 == 0 && x == rc x
def condFlip (d : Dir) (b : Bool) : Dir := if b then d.flip else d

/-- extension byte, lib.rs 577-749 -/
structure Exts where
  val : Nat
deriving DecidableEq, Repr
def Exts.dirBits (e : Exts) : Dir → Nat
  | .R => e.val >>> 4
  | .L => e.val &&& 0xf
def Exts.numExtDir (e : Exts) (d : Dir) : Nat :=
  let b := e.dirBits d
  (b &&& 1) + ((b &&& 2) >>> 1) + ((b &&& 4) >>> 2) + ((b &&& 8) >>> 3)
def Exts.singleDir (e : Exts) (d : Dir) : Exts := ⟨e.dirBits d⟩
def Exts.uniqueExt (e : Exts) (d : Dir) : Option Base :=
  if e.numExtDir d != 1 then none
  else
    let b := e.dirBits d
    if b &&& 1 > 0 then some 0 else if b &&& 2 > 0 then some 1 else if b &&& 4 > 0 then some 2
    else if b &&& 8 > 0 then some 3 else none

end Compress
