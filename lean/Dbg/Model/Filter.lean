import Dbg.Model.Graph
/-! String-level model of `filter_kmers` (filter.rs 139-231) with its bucket-pass planning, the two shipped
    summarizers (40-101), `KmerExtsIter` at string level, and the two pruning functions (238-306). -/
namespace Filter
open Compress (Seq Base Exts rc minRcFlip Entry Table extend)
open Walk (Dir)

/-- payload of a table entry: `[count]` for `CountFilter`, the sorted distinct labels for `CountFilterSet` -/
abbrev Payload := List Nat

/-- the (k-mer, extensions) stream of one read: `iter_kmer_exts::<K>(seq_exts)` -/
def kmerExtsOf (K : Nat) (s : Seq) (e : Exts) : List (Seq × Exts) :=
  if s.length < K then []
  else
    let a := s.toArray            -- positional reads in O(1)
    let n := s.length - K + 1
    (List.range n).map fun i =>
      let left : Exts := if i = 0 then e else ⟨match a[i - 1]? with | some b => 1 <<< b.val | none => 0⟩
      let right : Exts := if i + 1 = n then e else ⟨match a[i + K]? with | some b => 1 <<< (b.val + 4) | none => 0⟩
      ((a.extract i (i + K)).toList, Exts.merge left right)

/-- `bucket(kmer)`: the first four bases as a number 0..255 -/
def bucket (k : Seq) : Nat :=
  ((k.getD 0 0).val <<< 6) ||| ((k.getD 1 0).val <<< 4) ||| ((k.getD 2 0).val <<< 2) ||| (k.getD 3 0).val

inductive Summarizer | count (n : Nat) | set (n : Nat)

/-- `summarize` over the observations of one k-mer, in input order -/
def summarize (sm : Summarizer) (obs : List (Exts × Nat)) : Bool × Exts × Payload :=
  let allExts : Exts := ⟨obs.foldl (fun a o => a ||| o.1.val) 0⟩
  match sm with
  | .count n =>
    let c := min obs.length Gen.countSaturation     -- `saturating_add` on u16
    (decide (c ≥ n), allExts, [c])
  | .set n =>
    let labels := (obs.map (·.2))
    let sorted := labels.foldl (fun acc x => if acc.contains x then acc else
        (acc.takeWhile (· < x)) ++ [x] ++ (acc.dropWhile (· < x))) []
    (decide (obs.length ≥ n), allExts, sorted)

/-- insertion of `x` in front of the first element whose key is not smaller -/
def insertByKey (x : Seq × Exts × Nat) : List (Seq × Exts × Nat) → List (Seq × Exts × Nat)
  | [] => [x]
  | y :: ys => if y.1 < x.1 then y :: insertByKey x ys else x :: y :: ys

/-- stable sort by key (the contract of `sort_by_key`): elements are inserted from the last to the first, each in front
    of the elements with an equal or larger key, so equal keys keep their input order -/
def sortByKey (l : List (Seq × Exts × Nat)) : List (Seq × Exts × Nat) := l.foldr insertByKey []

/-- maximal runs of equal keys (`group_by`) -/
def groupRuns : List (Seq × Exts × Nat) → List (Seq × List (Exts × Nat))
  | [] => []
  | x :: xs =>
    match groupRuns xs with
    | (k, obs) :: rest => if k == x.1 then (k, (x.2.1, x.2.2) :: obs) :: rest else (x.1, [(x.2.1, x.2.2)]) :: (k, obs) :: rest
    | [] => [(x.1, [(x.2.1, x.2.2)])]

/-- the loop `while start < 256 { push(start..start+sz); start += sz }` -/
def rangesFrom (sz : Nat) (start : Nat) : List (Nat × Nat) :=
  if h : start < 256 ∧ 0 < sz then (start, start + sz) :: rangesFrom sz (start + sz) else []
termination_by 256 - start
decreasing_by omega

/-- the bucket ranges planned from the memory budget: `sz = 256 / slices + 1` -/
def bucketRanges (slices : Nat) : List (Nat × Nat) := rangesFrom (256 / slices + 1) 0

structure Result where
  table : List (Entry Payload)      -- valid k-mers in generation order (before the hash map reorders them)
  allKmers : List Seq
  passes : Nat

/-- `filter_kmers`; `none` = division by zero (`memory_size = 0`) -/
def filterKmers (K : Nat) (reads : List (Seq × Exts × Nat)) (sm : Summarizer) (stranded reportAll : Bool)
    (memorySize bytesPerUnit sizeOfPair : Nat) : Option Result :=
  let inputKmers := (reads.map fun r => r.1.length - (K - 1)).foldl (· + ·) 0
  let kmerMem := inputKmers * sizeOfPair
  let maxMem := memorySize * bytesPerUnit
  if maxMem = 0 then none else
  let slices := kmerMem / maxMem + 1
  let ranges := bucketRanges slices
  -- all observations, canonicalised, in input order
  let obsAll : List (Seq × Exts × Nat) := reads.flatMap fun r =>
    (kmerExtsOf K r.1 r.2.1).map fun (km, ex) =>
      if !stranded then
        let (mk, flip) := minRcFlip km
        (mk, if flip then ex.rc else ex, r.2.2)
      else (km, ex, r.2.2)
  let perRange := ranges.map fun (lo, hi) =>
    -- buckets `b` with `lo ≤ b < hi` (there are 256 buckets)
    (List.range' lo (min hi 256 - lo)).flatMap fun b =>
      groupRuns (sortByKey (obsAll.filter fun o => bucket o.1 == b))
  let groups := perRange.flatten
  let table := groups.filterMap fun (k, obs) =>
    let (valid, ex, dat) := summarize sm obs
    if valid then some ⟨k, ex, dat⟩ else none
  some ⟨table, if reportAll then groups.map (·.1) else [], ranges.length⟩

/-- canonical target of extension `b` of `kmer` on side `dir` -/
def extTarget (stranded : Bool) (kmer : Seq) (b : Base) (dir : Dir) : Seq :=
  if stranded then extend kmer b dir else (minRcFlip (extend kmer b dir)).1

def keepBits (e : Exts) (keep : Dir → Base → Bool) : Exts :=
  [Dir.L, Dir.R].foldl (fun acc d =>
    Graph.base4.foldl (fun acc b => if e.hasExt d b.val ∧ keep d b then Graph.Exts.set acc d b.val else acc) acc) ⟨0⟩

/-- `remove_censored_exts(stranded, valid_kmers)` on a slice sorted by key (binary search = membership) -/
def removeCensoredExts {D} (stranded : Bool) (valid : List (Entry D)) : List (Entry D) :=
  let keys := valid.map (·.key)
  valid.map fun en => { en with exts := keepBits en.exts fun d b => keys.contains (extTarget stranded en.key b d) }

/-- `remove_censored_exts_sharded(stranded, valid_kmers, all_kmers)` -/
def removeCensoredExtsSharded {D} (stranded : Bool) (valid : List (Entry D)) (all : List Seq) : List (Entry D) :=
  let keys := valid.map (·.key)
  valid.map fun en => { en with exts := keepBits en.exts fun d b =>
    let t := extTarget stranded en.key b d
    !(!keys.contains t && all.contains t) }

end Filter
