/-! Prototype: abstract seed-and-walk compression (compression.rs 446-583) over k-mer ids.
    `link x d = some (y, d')` is the static part of `try_extend_kmer` (unique ext, no palindrome,
    present, unique incoming, join ok): walking from `x` in direction `d` reaches `y`, continue in `d'`. -/
namespace Walk

inductive Dir | L | R
deriving DecidableEq, Repr

def Dir.flip : Dir → Dir
  | .L => .R
  | .R => .L

@[simp] theorem Dir.flip_flip (d : Dir) : d.flip.flip = d := by cases d <;> rfl

abbrev Link := Nat → Dir → Option (Nat × Dir)

def rm (avail : List Nat) (y : Nat) : List Nat := avail.filter (· != y)

theorem mem_rm {avail : List Nat} {y z : Nat} : z ∈ rm avail y ↔ z ∈ avail ∧ z ≠ y := by
  simp [rm]

theorem rm_length_lt {avail : List Nat} {y : Nat} (h : y ∈ avail) : (rm avail y).length < avail.length := by
  unfold rm
  apply List.length_filter_lt_length_iff_exists.mpr
  exact ⟨y, h, by simp⟩

/-- `extend_kmer`: returns the path `(id, next_dir)` and the remaining availability. -/
def walk (link : Link) (avail : List Nat) (x : Nat) (d : Dir) : List (Nat × Dir) × List Nat :=
  match link x d with
  | some (y, d') =>
    if h : y ∈ avail then
      let r := walk link (rm avail y) y d'
      ((y, d') :: r.1, r.2)
    else ([], avail)
  | none => ([], avail)
termination_by avail.length
decreasing_by exact rm_length_lt h

/-- `build_node` -/
def build (link : Link) (avail : List Nat) (seed : Nat) : List Nat × List Nat :=
  let a1 := rm avail seed
  let l := walk link a1 seed .L
  let r := walk link l.2 seed .R
  ((l.1.map Prod.fst).reverse ++ [seed] ++ r.1.map Prod.fst, r.2)

/-- outer loop of `compress_kmers` -/
def compress (link : Link) : List Nat → List Nat → List (List Nat)
  | [], _ => []
  | i :: is, avail =>
    if i ∈ avail then
      let b := build link avail i
      b.1 :: compress link is b.2
    else compress link is avail

end Walk
