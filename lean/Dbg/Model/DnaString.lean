import Dbg.Gen.Consts
/-! Bit-level model of `DnaString` (dna_string.rs 72-539) and `PackedDnaStringSet` (769-822):
    storage blocks are `BitVec 64`, 32 bases per block, base `i` of a block in bits `63-2i, 62-2i`.
    `none` = the Rust code panics (slice index out of bounds, failed assertion). -/
namespace DnaStr

abbrev Block := BitVec 64

structure T where
  storage : List Block
  len : Nat
deriving Repr, DecidableEq

def new : T := ⟨[], 0⟩

/-- `addr(i) = (i*2 / 64, i*2 % 64)` -/
def addr (i : Nat) : Nat × Nat := (i * Gen.dnaWidth / Gen.dnaBlockBits, i * Gen.dnaWidth % Gen.dnaBlockBits)

/-- `(block >> (62 - bit)) & MASK` -/
def blockGet (b : Block) (bit : Nat) : Nat := ((b >>> (62 - bit)) &&& BitVec.ofNat 64 Gen.dnaMask).toNat

/-- `set_by_addr` on one block: or the mask in, xor it out, or the masked value in -/
def blockSet (b : Block) (bit : Nat) (value : Nat) : Block :=
  let mask : Block := BitVec.ofNat 64 Gen.dnaMask <<< (62 - bit)
  (((b ||| mask) ^^^ mask) ||| ((BitVec.ofNat 64 value &&& BitVec.ofNat 64 Gen.dnaMask) <<< (62 - bit)))

def get (d : T) (i : Nat) : Option Nat :=
  let (blk, bit) := addr i
  match d.storage[blk]? with
  | some b => some (blockGet b bit)
  | none => none

def setMut (d : T) (i value : Nat) : Option T :=
  let (blk, bit) := addr i
  match d.storage[blk]? with
  | some b => some { d with storage := d.storage.set blk (blockSet b bit value) }
  | none => none

/-- `push(value)` -/
def push (d : T) (value : Nat) : Option T :=
  let (blk, bit) := addr d.len
  let st := if bit == 0 && blk ≥ d.storage.length then d.storage ++ [0#64] else d.storage
  match st[blk]? with
  | some b => some ⟨st.set blk (blockSet b bit value), d.len + 1⟩
  | none => none

/-- pack up to 32 bases into a block (phase 2 of `extend`); `none` = `assert!(b < 4)` fails -/
def packChunk (chunk : List Nat) : Option Block :=
  chunk.zipIdx.foldl (fun acc (bi : Nat × Nat) =>
    match acc with
    | none => none
    | some v => if bi.1 < 4 then some (v ||| (BitVec.ofNat 64 bi.1 <<< (62 - 2 * bi.2))) else none) (some 0#64)

/-- phase 2 of `extend`: whole chunks of at most 32 -/
def extendChunks (d : T) (bytes : List Nat) : Option T :=
  if h : bytes = [] then some d
  else
    let chunk := bytes.take 32
    match packChunk chunk with
    | none => none
    | some v => extendChunks ⟨d.storage ++ [v], d.len + chunk.length⟩ (bytes.drop 32)
termination_by bytes.length
decreasing_by
  have : 0 < bytes.length := List.length_pos_iff.mpr h
  simp only [List.length_drop]; omega

/-- `extend(bytes)` -/
def extend (d : T) : List Nat → Option T
  | [] => some d
  | b :: rest =>
    if d.len % 32 != 0 then
      match push d b with
      | some d' => extend d' rest
      | none => none
    else extendChunks d (b :: rest)

def fromBytes (bytes : List Nat) : Option T := extend new bytes

/-- `blank(n)` -/
def blank (n : Nat) : T :=
  let blocks := ((n * Gen.dnaWidth) >>> 6) + (if (n * Gen.dnaWidth) &&& 0x3F > 0 then 1 else 0)
  ⟨List.replicate blocks 0#64, n⟩

def clear (_ : T) : T := ⟨[], 0⟩

/-- `push_bytes(bytes, seq_length)`: 2-bit fields, least significant first -/
def pushBytes (d : T) (bytes : List Nat) (n : Nat) : Option T :=
  if ¬ (n ≤ bytes.length * 8 / Gen.dnaWidth) then none
  else (List.range n).foldl (fun acc i =>
    match acc with
    | none => none
    | some d =>
      match bytes[(i * Gen.dnaWidth) / 8]? with
      | some v => push d ((v >>> ((i * Gen.dnaWidth) % 8)) &&& (Gen.dnaMask % 256))
      | none => none) (some d)

/-- `iter().collect()` / `to_bytes()` -/
def toBytes (d : T) : Option (List Nat) := (List.range d.len).mapM (get d)

def bitsToAscii (b : Nat) : Nat := Gen.bitsToAscii.getD b 88
def bitsToBase (b : Nat) : Nat := Gen.bitsToBase.getD b 88

def toAsciiVec (d : T) : Option (List Nat) := (toBytes d).map (·.map bitsToAscii)
def display (d : T) : Option (List Nat) := (toBytes d).map (·.map bitsToBase)

/-- `reverse()`: collect, then push in reverse order -/
def reverse (d : T) : Option T :=
  match toBytes d with
  | none => none
  | some vs => vs.reverse.foldl (fun acc v => acc.bind (push · v)) (some new)

/-- `rc()`: extend by `3 - get(i)` for `i` descending -/
def rc (d : T) : Option T :=
  match toBytes d with
  | none => none
  | some vs => extend new (vs.reverse.map (3 - ·))

def popcount64 (x : Block) : Nat := (List.range 64).countP (fun i => x.getLsbD i)

def countDiff2Bit (a b : Block) : Nat :=
  let d := a ^^^ b
  popcount64 ((d ||| (d >>> 1)) &&& BitVec.ofNat 64 Gen.dnaLowerOfTwo)

/-- `ndiffs(b1, b2)`; `none` = the length assertion or an index panic -/
def ndiffs (a b : T) : Option Nat :=
  if a.len ≠ b.len then none
  else if b.storage.length < a.storage.length then none
  else some ((a.storage.zip b.storage).foldl (fun acc p => acc + countDiff2Bit p.1 p.2) 0)

/-- derived `Ord`: `Vec<u64>` lexicographic (a proper prefix first), then `len` -/
def cmpStorage : List Block → List Block → Ordering
  | [], [] => .eq
  | [], _ :: _ => .lt
  | _ :: _, [] => .gt
  | a :: as, b :: bs => if a.toNat < b.toNat then .lt else if b.toNat < a.toNat then .gt else cmpStorage as bs

def cmp (a b : T) : Ordering :=
  match cmpStorage a.storage b.storage with
  | .eq => compare a.len b.len
  | o => o

/-! `PackedDnaStringSet` -/
structure PSet where
  sequence : T
  start : List Nat
  length : List Nat
deriving Repr

def PSet.new : PSet := ⟨DnaStr.new, [], []⟩

def PSet.add (s : PSet) (seq : List Nat) : Option PSet :=
  match seq.foldl (fun acc b => acc.bind (push · b)) (some s.sequence) with
  | some d => some ⟨d, s.start ++ [s.sequence.len], s.length ++ [seq.length % 2 ^ 32]⟩
  | none => none

/-- the bases of the `i`-th slice -/
def PSet.get (s : PSet) (i : Nat) : Option (List Nat) :=
  match s.start[i]?, s.length[i]? with
  | some st, some ln => (List.range ln).mapM fun j => DnaStr.get s.sequence (st + j)
  | _, _ => none

end DnaStr
