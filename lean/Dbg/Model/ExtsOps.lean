import Dbg.Model.Graph
/-! The remaining operations of `Exts` (lib.rs 585-768): an extension set is a byte, low nibble = left extensions, high
    nibble = right extensions, bit `b` of a nibble = base `b`.  (`dir_bits`, `num_ext_dir`, `has_ext`, `single_dir`,
    `get_unique_extension`, `complement`, `reverse`, `rc`, `merge` are in Model/Seq, `set` in Model/Graph,
    `from_single_dirs` in Model/Compress.) -/
namespace Compress
open Walk (Dir)

/-- `Exts::add` -/
def Exts.add (e v : Exts) : Exts := ⟨e.val ||| v.val⟩

/-- `Exts::get(dir)`: the bases present on a side, ascending -/
def Exts.get (e : Exts) (d : Dir) : List Nat := (List.range 4).filter fun i => (e.dirBits d &&& (1 <<< i)) > 0

/-- `Exts::mk_left`, `mk_right`, `mk` -/
def Exts.mkLeft (b : Nat) : Exts := Graph.Exts.set ⟨0⟩ .L b
def Exts.mkRight (b : Nat) : Exts := Graph.Exts.set ⟨0⟩ .R b
def Exts.mkBoth (l r : Nat) : Exts := Exts.merge (Exts.mkLeft l) (Exts.mkRight r)

/-- `Exts::from_slice_bounds(src, start, length)` / `from_dna_string`: the bases just outside the window;
    `none` = index out of bounds -/
def Exts.fromSliceBounds (src : List Nat) (start length : Nat) : Option Exts :=
  let l : Option Nat := if start > 0 then (src[start - 1]?).map (fun b => (1 <<< b) % 256) else some 0
  let r : Option Nat := if start + length < src.length then (src[start + length]?).map (fun b => (1 <<< b) % 256) else some 0
  match l, r with
  | some l, some r => some ⟨((r <<< 4) % 256) ||| l⟩
  | _, _ => none

/-- `Debug for Exts`: left bases, `|`, right bases -/
def Exts.debug (e : Exts) : List Nat :=
  (e.get .L).map (fun b => Gen.bitsToBase.getD b 88) ++ [124] ++ (e.get .R).map (fun b => Gen.bitsToBase.getD b 88)

end Compress
