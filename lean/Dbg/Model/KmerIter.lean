import Dbg.Model.Lmer
/-! Models of the `Vmer` trait defaults (`first_kmer`, `last_kmer`, `term_kmer`, `iter_kmers`,
    `iter_kmer_exts`; lib.rs 365-422) and of `KmerIter` / `KmerExtsIter` (lib.rs 768-842), over an
    abstract container given by its length, `get` and `get_kmer`; plus the byte wrappers
    `DnaBytes` / `DnaSlice` (lib.rs 428-536). -/
namespace KIter
open Kmer (Cfg St)

/-- a sequence container as seen by the trait defaults -/
structure Cont (c : Cfg) where
  len : Nat
  get : Nat → Option Nat
  getKmer : Nat → Option (St c)

variable {c : Cfg}

def firstKmer (v : Cont c) : Option (St c) := v.getKmer 0
/-- `get_kmer(len - K)`: `len < K` underflows -/
def lastKmer (v : Cont c) : Option (St c) := if v.len < c.K then none else v.getKmer (v.len - c.K)
def termKmer (v : Cont c) (right : Bool) : Option (St c) := if right then lastKmer v else firstKmer v

/-- the loop of `KmerIter::next`, run to exhaustion -/
def iterLoop (v : Cont c) (pos : Nat) (kmer : St c) (acc : List (St c)) : Option (List (St c)) :=
  if h : pos ≤ v.len then
    if pos < v.len then
      match v.get pos with
      | some b => iterLoop v (pos + 1) (Kmer.extendRight c kmer b) (kmer :: acc)
      | none => none
    else iterLoop v (pos + 1) kmer (kmer :: acc)
  else some acc.reverse
termination_by v.len + 1 - pos
decreasing_by all_goals omega

/-- `iter_kmers::<K>().collect()` -/
def iterKmers (v : Cont c) : Option (List (St c)) :=
  if v.len ≥ c.K then
    match firstKmer v with
    | some k0 => iterLoop v c.K k0 []
    | none => none
  else iterLoop v c.K (Kmer.empty c) []

/-- extension bytes -/
def mkLeft (b : Nat) : Nat := (1 <<< b) % 256
def mkRight (b : Nat) : Nat := (1 <<< (b + 4)) % 256
def merge (l r : Nat) : Nat := (l &&& Gen.extsMerge.1) ||| (r &&& Gen.extsMerge.2)

def extsLoop (v : Cont c) (exts : Nat) (pos : Nat) (kmer : St c) (acc : List (St c × Nat)) : Option (List (St c × Nat)) :=
  if h : pos ≤ v.len then
    let nextBase? := if pos < v.len then v.get pos else some 0
    let curLeft? := if pos == c.K then some exts else (v.get (pos - c.K - 1)).map mkLeft
    match nextBase?, curLeft? with
    | some nb, some cl =>
      let cr := if pos < v.len then mkRight nb else exts
      extsLoop v exts (pos + 1) (Kmer.extendRight c kmer nb) ((kmer, merge cl cr) :: acc)
    | _, _ => none
  else some acc.reverse
termination_by v.len + 1 - pos
decreasing_by omega

/-- `iter_kmer_exts::<K>(seq_exts).collect()` -/
def iterKmerExts (v : Cont c) (exts : Nat) : Option (List (St c × Nat)) :=
  if v.len ≥ c.K then
    match firstKmer v with
    | some k0 => extsLoop v exts c.K k0 []
    | none => none
  else extsLoop v exts c.K (Kmer.empty c) []

/-! containers -/

def ofDnaString (c : Cfg) (d : DnaStr.T) : Cont c := ⟨d.len, DnaStr.get d, DnaStr.getKmer c d⟩
def ofSlice (c : Cfg) (d : DnaStr.T) (s : DnaStr.Slice) : Cont c := ⟨s.length, DnaStr.Slice.get d s, DnaStr.Slice.getKmer c d s⟩
def ofLmer (c : Cfg) (l : Lmer.T) : Cont c := ⟨(Lmer.len l).getD 0, Lmer.get l, Lmer.getKmer c l⟩
/-- `DnaBytes` / `DnaSlice`: `get_kmer(pos) = K::from_bytes(&self.0[pos..pos+K])` (slice bound panics) -/
def ofBytes (c : Cfg) (bs : List Nat) : Cont c :=
  ⟨bs.length, fun i => bs[i]?, fun pos => if pos + c.K ≤ bs.length then Kmer.fromBytes c ((bs.drop pos).take c.K) else none⟩

end KIter
