import Dbg.Lemmas.Recompress
/-! Connectivity: nodes joined by node-level good links = k-mers joined by k-mer-level good links of the pruned table. -/
namespace Compress
open Walk (Dir rm Conn Rel)
open Filter (has hasExt_iff ExtSym2 removeCensoredExts)
open Graph (termKmer findLink searchKmer fixExts)
open CompressGraph (glinkV glinkV_some)
variable {D : Type}

theorem linkOf_mono {T : Table D} {st : Bool} (join0 joinK : D → D → Bool) (hle : ∀ a b, join0 a b = true → joinK a b = true)
    (x : Nat) (d : Dir) (r : Nat × Dir) (h : linkOf T st join0 x d = some r) : linkOf T st joinK x d = some r := by
  obtain ⟨y, d'⟩ := r
  obtain ⟨ex, ey, b, f⟩ := linkOf_inv T st join0 h
  exact linkOf_intro T st joinK ⟨f.hx, f.cntx, f.palx, f.uniq, f.hfind, f.hy, f.hd', f.cnty, hle _ _ f.hjoin, f.paly⟩

section
variable {T : Table D} {K : Nat} {st : Bool} {join0 : D → D → Bool} {nodes : List (Node D)}
  {port : Nat → Dir → Nat × Dir} {members : Nat → List Nat} {lk : Walk.Link}

/-- the members of one node are joined by k-mer-level good links -/
theorem PGraph.members_conn (pg : PGraph T K st join0 nodes port members lk) (joinK : D → D → Bool)
    (hle : ∀ a b, join0 a b = true → joinK a b = true) (i : Nat) (hi : i < nodes.length) (x y : Nat)
    (hx : x ∈ members i) (hy : y ∈ members i) : Conn (linkOf T st joinK) x y := by
  have := conn_map lk (linkOf T st joinK) (fun z => z) (fun z z' ⟨d, d', hr⟩ =>
    ⟨d, d', linkOf_mono join0 joinK hle z d _ (pg.lkSub _ _ _ _ hr)⟩) x y (pg.connM i hi x hx y hy)
  exact this

/-- k-mers joined by good links lie in nodes joined by node-level good links -/
theorem PGraph.conn_nodes_of_kmers (pg : PGraph T K st join0 nodes port members lk) (wf : WF T K st) (hes2 : ExtSym2 T st)
    (hx8 : ∀ (i : Nat) (n : Node D), nodes[i]? = some n → n.exts.val < 256)
    (join joinK : D → D → Bool) (hjc : JoinCompat (U := T) (K := K) (st := st) nodes port join joinK)
    (hle : ∀ a b, join0 a b = true → joinK a b = true)
    (x y : Nat) (hc : Conn (linkOf T st joinK) x y) (X : Nat) (hX : X < nodes.length) (hxX : x ∈ members X) :
    ∃ Y, Y < nodes.length ∧ y ∈ members Y ∧
      Conn (glinkV (⟨K, nodes, st⟩ : Graph.G D) st join (List.range nodes.length)) X Y := by
  induction hc with
  | refl => exact ⟨X, hX, hxX, Conn.refl _⟩
  | @step z y _ r ih =>
    obtain ⟨Z, hZ, hzZ, hcZ⟩ := ih
    obtain ⟨d, d', hl⟩ := r
    by_cases hL : (z, d) = port Z .L
    · have hl' : linkOf T st joinK (port Z .L).1 (port Z .L).2 = some (y, d') := by rw [← hL]; exact hl
      obtain ⟨Y, o, hg, hp⟩ := pg.link_to_glink wf hes2 hx8 join joinK hjc Z hZ .L y d' hl'
      obtain ⟨_, hYv, _⟩ := glinkV_some _ st join _ Z .L Y o hg
      have hYlt : Y < nodes.length := List.mem_range.mp hYv
      refine ⟨Y, hYlt, ?_, Conn.step hcZ ⟨.L, o, hg⟩⟩
      have := pg.portMem Y o.flip hYlt
      rw [hp] at this; exact this
    by_cases hR : (z, d) = port Z .R
    · have hl' : linkOf T st joinK (port Z .R).1 (port Z .R).2 = some (y, d') := by rw [← hR]; exact hl
      obtain ⟨Y, o, hg, hp⟩ := pg.link_to_glink wf hes2 hx8 join joinK hjc Z hZ .R y d' hl'
      obtain ⟨_, hYv, _⟩ := glinkV_some _ st join _ Z .R Y o hg
      have hYlt : Y < nodes.length := List.mem_range.mp hYv
      refine ⟨Y, hYlt, ?_, Conn.step hcZ ⟨.R, o, hg⟩⟩
      have := pg.portMem Y o.flip hYlt
      rw [hp] at this; exact this
    · obtain ⟨w', dw, h1, h2, _, _⟩ := pg.inner Z hZ z hzZ d hL hR
      have h3 := linkOf_mono join0 joinK hle z d _ (pg.lkSub _ _ _ _ h1)
      rw [hl] at h3
      have : y = w' := by have := Option.some.inj h3; exact congrArg Prod.fst this
      subst this
      exact ⟨Z, hZ, h2, hcZ⟩

/-- nodes joined by node-level good links consist of k-mers joined by good links -/
theorem PGraph.conn_kmers_of_nodes (pg : PGraph T K st join0 nodes port members lk) (wf : WF T K st) (hes2 : ExtSym2 T st)
    (hcl : Closed T st) (hx8 : ∀ (i : Nat) (n : Node D), nodes[i]? = some n → n.exts.val < 256)
    (join joinK : D → D → Bool) (hjc : JoinCompat (U := T) (K := K) (st := st) nodes port join joinK)
    (hle : ∀ a b, join0 a b = true → joinK a b = true)
    (X Y : Nat) (hc : Conn (glinkV (⟨K, nodes, st⟩ : Graph.G D) st join (List.range nodes.length)) X Y) (hX : X < nodes.length) :
    Y < nodes.length ∧ ∀ x ∈ members X, ∀ y ∈ members Y, Conn (linkOf T st joinK) x y := by
  induction hc with
  | refl => exact ⟨hX, fun x hx y hy => pg.members_conn joinK hle X hX x y hx hy⟩
  | @step Z Y _ r ih =>
    obtain ⟨hZ, hcZ⟩ := ih
    obtain ⟨d, o, hg⟩ := r
    obtain ⟨_, hYv, _⟩ := glinkV_some _ st join _ Z d Y o hg
    have hYlt : Y < nodes.length := List.mem_range.mp hYv
    have hl := pg.glink_to_link wf hes2 hcl hx8 join joinK hjc _ Z d Y o hg
    refine ⟨hYlt, fun x hx y hy => ?_⟩
    have h1 := hcZ x hx (port Z d).1 (pg.portMem Z d hZ)
    have h2 : Conn (linkOf T st joinK) (port Z d).1 (port Y o.flip).1 := Conn.step (Conn.refl _) ⟨_, _, hl⟩
    have h3 := pg.members_conn joinK hle Y hYlt (port Y o.flip).1 y (pg.portMem Y o.flip hYlt) hy
    exact Conn.trans _ (Conn.trans _ h1 h2) h3

end

end Compress

namespace Compress
open Walk (Dir rm Conn Rel)
open Filter (has hasExt_iff ExtSym2 removeCensoredExts)
open Graph (termKmer findLink searchKmer fixExts)
open CompressGraph (glinkV glinkV_some ids)
variable {D : Type}

theorem graph_eta (g : Graph.G D) (K : Nat) (st : Bool) (h1 : g.K = K) (h2 : g.stranded = st) : g = ⟨K, g.nodes, st⟩ := by
  cases g; simp_all

theorem compress_nonempty (link : Walk.Link) : ∀ (is avail : List Nat), ∀ N ∈ Walk.compress link is avail, N ≠ [] := by
  intro is
  induction is with
  | nil => intro avail N h; simp [Walk.compress] at h
  | cons i is ih =>
    intro avail N h
    simp only [Walk.compress] at h
    by_cases hi : i ∈ avail
    · simp only [hi, if_true] at h
      rcases List.mem_cons.mp h with rfl | h'
      · unfold Walk.build; simp
      · exact ih _ N h'
    · simp only [hi, if_false] at h
      exact ih _ N h

/-- **re-compression of a ported graph.**  For a graph ported into a well-formed reciprocal table `U` (in particular the
    concatenation of the graphs built from key-disjoint shards of `U`), with constantly-true join predicates as in the
    crate's pipelines: `compress_graph` returns, every old node lies on a path, and two old nodes lie on the same path —
    are merged into the same new node — **iff** their k-mers are joined by good links of the *pruned* table `U`. -/
theorem pgraph_recompress {U : Table D} {K : Nat} {st : Bool} {join0 : D → D → Bool} {nodes : List (Node D)}
    {port : Nat → Dir → Nat × Dir} {members : Nat → List Nat} {lk : Walk.Link}
    (pg : PGraph U K st join0 nodes port members lk) (wf : WF U K st) (hes2 : ExtSym2 U st)
    (reduce : D → D → D) (join joinK : D → D → Bool) (hjT : ∀ a b, join a b = true) (hjK : ∀ a b, joinK a b = true) :
    ∃ g' paths, CompressGraph.compressGraph st (⟨K, nodes, st⟩ : Graph.G D) join reduce [] = some (g', paths) ∧
      (∀ p ∈ paths, p ≠ []) ∧
      ∀ X Y, X < nodes.length → Y < nodes.length →
        (((∃ p ∈ paths, X ∈ ids p ∧ Y ∈ ids p) ↔
          ∀ x ∈ members X, ∀ y ∈ members Y, Conn (linkOf (removeCensoredExts st U) st joinK) x y) ∧
         ((∃ p ∈ paths, X ∈ ids p ∧ Y ∈ ids p) ↔
          ∃ x ∈ members X, ∃ y ∈ members Y, Conn (linkOf (removeCensoredExts st U) st joinK) x y)) := by
  have hg := pg.ginv wf hes2
  have hpe : CompressGraph.PalEnd (⟨K, nodes, st⟩ : Graph.G D) := fun i n s hst hi hrc => pg.palEnd i n s hst hi hrc
  have hj : ∀ a b, join a b = join b a := fun a b => by rw [hjT, hjT]
  have hrec := CompressGraph.C09_char (⟨K, nodes, st⟩ : Graph.G D) hg hpe join hj reduce []
  unfold CompressGraph.Recompressed at hrec
  have hvalid : ((List.range (⟨K, nodes, st⟩ : Graph.G D).nodes.length).filter fun i => !([] : List Nat).contains i) = List.range nodes.length := by
    simp
  rw [hvalid] at hrec
  obtain ⟨g', paths, hcg, hpaths, hconn⟩ := hrec
  refine ⟨g', paths, hcg, ?_, ?_⟩
  · intro p hp he
    have : ids p ∈ paths.map ids := List.mem_map_of_mem hp
    rw [hpaths] at this
    exact compress_nonempty _ _ _ _ this (by rw [he]; rfl)
  -- the fixed graph, ported into the pruned table
  have pg1 := pgraph_fix pg wf hes2 (some (List.range nodes.length)) (fun t ht => by simpa using ht)
  have sh := CompressGraph.fixExts_shape (⟨K, nodes, st⟩ : Graph.G D) (some (List.range nodes.length))
  generalize hg1 : fixExts (⟨K, nodes, st⟩ : Graph.G D) (some (List.range nodes.length)) = g1 at *
  have heta := graph_eta g1 K st sh.1 sh.2.1
  have hlen1 : g1.nodes.length = nodes.length := shape_length _ g1 sh
  have hx8 : ∀ (i : Nat) (n : Node D), g1.nodes[i]? = some n → n.exts.val < 256 := by
    intro i n h
    obtain ⟨n0, h0, _⟩ := CompressGraph.shape_get _ g1 sh i n h
    rw [← hg1] at h
    exact (CompressGraph.fixExts_exact _ _ i n0 n h0 h).2.2.1
  have wf1 := Filter.wf_removeCensored st U K wf
  have hes1 := Filter.extSym2_removeCensored st U K wf hes2
  have hjc : JoinCompat (U := removeCensoredExts st U) (K := K) (st := st) g1.nodes port join joinK := by
    intro i j ni nj s s' ei ej _ _ _ _; rw [hjT, hjK]
  have hle : ∀ a b, join0 a b = true → joinK a b = true := fun a b _ => hjK a b
  have hlink : glinkV g1 st join (List.range nodes.length) =
      glinkV (⟨K, g1.nodes, st⟩ : Graph.G D) st join (List.range g1.nodes.length) := by
    rw [hlen1]; congr 1
  intro X Y hX hY
  have hst0 : (⟨K, nodes, st⟩ : Graph.G D).stranded = st := rfl
  rw [hst0, hlink] at hconn
  rw [← hconn X Y (List.mem_range.mpr hX) (List.mem_range.mpr hY)]
  have hX1 : X < g1.nodes.length := by rw [hlen1]; exact hX
  have hY1 : Y < g1.nodes.length := by rw [hlen1]; exact hY
  have fwd := fun hc => (pg1.conn_kmers_of_nodes wf1 hes1 (closed_pruned st U) hx8 join joinK hjc hle X Y hc hX1).2
  have bwd : (∃ x ∈ members X, ∃ y ∈ members Y, Conn (linkOf (removeCensoredExts st U) st joinK) x y) →
      Conn (glinkV (⟨K, g1.nodes, st⟩ : Graph.G D) st join (List.range g1.nodes.length)) X Y := by
    rintro ⟨x, hx, y, hy, hxy⟩
    obtain ⟨Y', hY', hyY', hc⟩ := pg1.conn_nodes_of_kmers wf1 hes1 hx8 join joinK hjc hle _ _ hxy X hX1 hx
    have := pg1.sameNode Y Y' hY1 hY' _ hy hyY'
    subst this
    exact hc
  have hx := pg1.portMem X .L hX1
  have hy := pg1.portMem Y .L hY1
  exact ⟨⟨fwd, fun hall => bwd ⟨_, hx, _, hy, hall _ hx _ hy⟩⟩, ⟨fun hc => ⟨_, hx, _, hy, fwd hc _ hx _ hy⟩, bwd⟩⟩

end Compress
