import Dbg.Lemmas.GraphProofs
/-! `max_path_beam`: every state of the beam search is a walk along reported edges. -/
namespace Graph
open Compress (Seq Node)
open Walk (Dir)
variable {D : Type}

theorem mapM_cons_some {α β} (f : α → Option β) (a : α) (l : List α) (out : List β) (h : (a :: l).mapM f = some out) :
    ∃ b bs, f a = some b ∧ l.mapM f = some bs ∧ out = b :: bs := by
  rw [List.mapM_cons] at h
  cases hb : f a with
  | none => rw [hb] at h; cases h
  | some b =>
    rw [hb] at h
    cases hbs : l.mapM f with
    | none => rw [hbs] at h; cases h
    | some bs =>
      rw [hbs] at h
      exact ⟨b, bs, rfl, rfl, by cases h; rfl⟩

theorem mapM_mem {α β} (f : α → Option β) :
    ∀ (l : List α) (out : List β), l.mapM f = some out → ∀ b ∈ out, ∃ a ∈ l, f a = some b := by
  intro l
  induction l with
  | nil => intro out h b hb; cases h; cases hb
  | cons a l ih =>
    intro out h b hb
    obtain ⟨b0, bs, h1, h2, rfl⟩ := mapM_cons_some f a l out h
    rcases List.mem_cons.mp hb with rfl | hb'
    · exact ⟨a, List.mem_cons_self .., h1⟩
    · obtain ⟨a', ha', e⟩ := ih bs h2 b hb'
      exact ⟨a', List.mem_cons_of_mem _ ha', e⟩

/-- a trail: consecutive entries follow reported edges and every node exists (a node may repeat: the beam search keeps
    paths that closed a cycle) -/
structure IsTrail (g : G D) (path : List (Nat × Dir)) : Prop where
  chain : ∀ p rest, path = p :: rest → ChainStep g p rest
  nodes : ∀ p ∈ path, (g.nodes[p.1]?).isSome

def StOK (g : G D) (s : BState) : Prop := s.path ≠ [] ∧ IsTrail g s.path

theorem expandState_ok (g : G D) (score : D → Int) (s : BState) (hs : StOK g s) (l : List BState)
    (h : expandState g score s = some l) : ∀ t ∈ l, StOK g t := by
  unfold expandState at h
  obtain ⟨hne, hw⟩ := hs
  obtain ⟨p0, rest, hpr⟩ := List.exists_cons_of_ne_nil hne
  cases hlast : s.path.getLast? with
  | none => rw [hlast] at h; cases h
  | some cur =>
    rw [hlast] at h
    simp only at h
    cases he : findEdges g cur.1 cur.2.flip with
    | none => rw [he] at h; cases h
    | some edges =>
      rw [he] at h
      simp only at h
      intro t ht
      obtain ⟨e, hem, hte⟩ := mapM_mem _ edges l h t ht
      cases hn : g.nodes[e.1]? with
      | none => rw [hn] at hte; cases hte
      | some nn =>
        rw [hn] at hte
        simp only [Option.map_eq_some_iff] at hte
        obtain ⟨st, _, rfl⟩ := hte
        refine ⟨by simp, ?_, ?_⟩
        · intro p r hpe
          simp only at hpe
          rw [hpr, List.cons_append] at hpe
          cases hpe
          apply chainStep_append g p0 rest (e.1, e.2.1) (hw.chain p0 rest hpr)
          have hl : (p0 :: rest).getLast (by simp) = cur := by
            rw [hpr, List.getLast?_eq_getLast (by simp)] at hlast
            exact Option.some.inj hlast
          rw [hl]
          exact Or.inl ⟨edges, e.2.2, he, hem⟩
        · intro p hp
          rcases List.mem_append.mp hp with h1 | h1
          · exact hw.nodes p h1
          · simp only [List.mem_cons, List.mem_nil_iff, or_false] at h1; subst h1
            simp [hn]

theorem beamRound_ok (g : G D) (score : D → Int) (beam : Nat) (states : List BState) (hs : ∀ s ∈ states, StOK g s)
    (ns : List BState) (a : Bool) (h : beamRound g score beam states = some (ns, a)) : ∀ s ∈ ns, StOK g s := by
  unfold beamRound at h
  cases hm : states.mapM (fun s => if s.status == 0 then expandState g score s else some [s]) with
  | none => rw [hm] at h; cases h
  | some parts =>
    rw [hm] at h
    simp only [Option.some.injEq, Prod.mk.injEq] at h
    obtain ⟨rfl, _⟩ := h
    intro s hsm
    have h1 := List.mem_of_mem_take hsm
    have h2 : s ∈ parts.flatten := (List.mergeSort_perm _ _).mem_iff.mp h1
    obtain ⟨part, hp, hsp⟩ := List.mem_flatten.mp h2
    obtain ⟨s0, hs0, hf⟩ := mapM_mem _ states parts hm part hp
    by_cases hst : (s0.status == 0) = true
    · rw [if_pos hst] at hf
      exact expandState_ok g score s0 (hs s0 hs0) part hf s hsp
    · rw [if_neg hst] at hf
      simp only [Option.some.injEq] at hf
      rw [← hf] at hsp
      simp only [List.mem_cons, List.mem_nil_iff, or_false] at hsp
      rw [hsp]; exact hs s0 hs0

theorem beamLoop_ok (g : G D) (score : D → Int) (beam : Nat) : ∀ (fuel : Nat) (states : List BState),
    (∀ s ∈ states, StOK g s) → ∀ out, beamLoop g score beam fuel states = some out → ∀ s ∈ out, StOK g s := by
  intro fuel
  induction fuel with
  | zero => intro states _ out h; cases h
  | succ fuel ih =>
    intro states hs out h
    unfold beamLoop at h
    cases hr : beamRound g score beam states with
    | none => rw [hr] at h; cases h
    | some r =>
      obtain ⟨ns, a⟩ := r
      rw [hr] at h
      simp only at h
      have hns := beamRound_ok g score beam states hs ns a hr
      by_cases ha : a = true
      · rw [if_pos ha] at h; exact ih ns hns out h
      · rw [if_neg ha] at h; cases h; exact hns

theorem beamInit_ok (g : G D) (score : D → Int) : ∀ s ∈ beamInit g score, StOK g s := by
  intro s hs
  have single : ∀ (i : Nat) (d : Dir), (g.nodes[i]?).isSome → IsTrail g [(i, d)] := by
    intro i d hi
    refine ⟨fun p r h => ?_, fun p hp => ?_⟩
    · cases h; trivial
    · simp only [List.mem_cons, List.mem_nil_iff, or_false] at hp; subst hp; exact hi
  unfold beamInit at hs
  simp only at hs
  split at hs
  · cases hn : g.nodes[0]? with
    | none => rw [hn] at hs; cases hs
    | some n =>
      rw [hn] at hs
      simp only [List.mem_cons, List.mem_nil_iff, or_false] at hs
      subst hs
      exact ⟨by simp, single 0 .L (by simp [hn])⟩
  · obtain ⟨ni, hni, hf⟩ := List.mem_filterMap.mp hs
    split at hf
    · cases hf
      have := List.mem_zipIdx hni
      refine ⟨by simp, single _ _ ?_⟩
      obtain ⟨h1, h2, h3⟩ := this
      simp only [Nat.zero_add] at h2 h3
      rw [List.getElem?_eq_getElem h2]; rfl
    · cases hf

/-- **every path `max_path_beam` returns is a trail**: consecutive entries follow reported edges, every node exists -/
theorem maxPathBeam_trail (g : G D) (beam : Nat) (score : D → Int) (path : List (Nat × Dir))
    (h : maxPathBeam g beam score = some path) : IsTrail g path := by
  unfold maxPathBeam at h
  split at h
  · cases h; exact ⟨fun p r h => (by cases h), fun p hp => (by cases hp)⟩
  · cases hl : beamLoop g score beam (g.nodes.length + 2) (beamInit g score) with
    | none => rw [hl] at h; cases h
    | some sts =>
      rw [hl] at h
      simp only at h
      cases sts with
      | nil => cases h
      | cons s0 rest =>
        simp only [List.head?_cons, Option.map_some, Option.some.injEq] at h
        subst h
        exact (beamLoop_ok g score beam _ _ (beamInit_ok g score) _ hl s0 (List.mem_cons_self ..)).2

/-! ### termination: the `while active` loop ends after at most `nodes.length + 1` rounds -/

/-- an active state of age `a` has `a + 1` entries and repeats no node -/
def ActOK (a : Nat) (s : BState) : Prop := s.status = 0 → s.path.length = a + 1 ∧ (s.path.map (·.1)).Nodup

theorem expandState_act (g : G D) (score : D → Int) (a : Nat) (s : BState) (hs : ActOK a s) (hst : s.status = 0)
    (l : List BState) (h : expandState g score s = some l) : ∀ t ∈ l, ActOK (a + 1) t := by
  unfold expandState at h
  obtain ⟨hlen, hnd⟩ := hs hst
  cases hlast : s.path.getLast? with
  | none => rw [hlast] at h; cases h
  | some cur =>
    rw [hlast] at h
    simp only at h
    cases he : findEdges g cur.1 cur.2.flip with
    | none => rw [he] at h; cases h
    | some edges =>
      rw [he] at h
      simp only at h
      intro t ht
      obtain ⟨e, hem, hte⟩ := mapM_mem _ edges l h t ht
      cases hn : g.nodes[e.1]? with
      | none => rw [hn] at hte; cases hte
      | some nn =>
        rw [hn] at hte
        simp only at hte
        by_cases hc : (s.path.any fun p => p.1 == e.1) = true
        · rw [if_pos hc] at hte
          simp only [Option.map_some, Option.some.injEq] at hte
          subst hte
          intro h0; cases h0
        · rw [if_neg hc] at hte
          simp only [Option.map_eq_some_iff] at hte
          obtain ⟨st, _, rfl⟩ := hte
          intro _
          refine ⟨by simp [hlen], ?_⟩
          simp only [List.map_append, List.map_cons, List.map_nil]
          rw [List.nodup_append]
          refine ⟨hnd, by simp, ?_⟩
          intro x hx y hy
          simp only [List.mem_cons, List.mem_nil_iff, or_false] at hy
          subst hy
          intro hxy
          apply hc
          obtain ⟨p, hp, rfl⟩ := List.mem_map.mp hx
          rw [List.any_eq_true]
          exact ⟨p, hp, by simp [hxy]⟩

theorem beamRound_act (g : G D) (score : D → Int) (beam : Nat) (a : Nat) (states : List BState)
    (hs : ∀ s ∈ states, ActOK a s) (ns : List BState) (act : Bool) (h : beamRound g score beam states = some (ns, act)) :
    (∀ s ∈ ns, ActOK (a + 1) s) ∧ (act = true → ∃ s ∈ states, s.status = 0) := by
  unfold beamRound at h
  cases hm : states.mapM (fun s => if s.status == 0 then expandState g score s else some [s]) with
  | none => rw [hm] at h; cases h
  | some parts =>
    rw [hm] at h
    simp only [Option.some.injEq, Prod.mk.injEq] at h
    obtain ⟨rfl, rfl⟩ := h
    refine ⟨fun s hsm => ?_, fun ha => ?_⟩
    · have h1 := List.mem_of_mem_take hsm
      have h2 : s ∈ parts.flatten := (List.mergeSort_perm _ _).mem_iff.mp h1
      obtain ⟨part, hp, hsp⟩ := List.mem_flatten.mp h2
      obtain ⟨s0, hs0, hf⟩ := mapM_mem _ states parts hm part hp
      by_cases hst : (s0.status == 0) = true
      · rw [if_pos hst] at hf
        exact expandState_act g score a s0 (hs s0 hs0) (by simpa using hst) part hf s hsp
      · rw [if_neg hst] at hf
        simp only [Option.some.injEq] at hf
        rw [← hf] at hsp
        simp only [List.mem_cons, List.mem_nil_iff, or_false] at hsp
        rw [hsp]
        intro h0; rw [h0] at hst; simp at hst
    · obtain ⟨s, hs', hst⟩ := List.any_eq_true.mp ha
      exact ⟨s, hs', by simpa using hst⟩

/-- an active trail that repeats no node has at most `nodes.length` entries -/
theorem active_length_le (g : G D) (s : BState) (hok : StOK g s) (hnd : (s.path.map (·.1)).Nodup) :
    s.path.length ≤ g.nodes.length := by
  have hsub : s.path.map (·.1) ⊆ List.range g.nodes.length := by
    intro x hx
    obtain ⟨p, hp, rfl⟩ := List.mem_map.mp hx
    have := hok.2.nodes p hp
    rw [List.mem_range]
    obtain ⟨n, hn⟩ := Option.isSome_iff_exists.mp this
    exact (List.getElem?_eq_some_iff.mp hn).1
  have := List.Nodup.length_le_of_subset hnd hsub
  simpa using this

/-- **the loop terminates**: with enough fuel for the remaining ages the result does not depend on the fuel -/
theorem beamLoop_fuel (g : G D) (score : D → Int) (beam : Nat) : ∀ (f1 f2 a : Nat) (states : List BState),
    g.nodes.length + 1 ≤ f1 + a → g.nodes.length + 1 ≤ f2 + a → 1 ≤ f1 → 1 ≤ f2 →
    (∀ s ∈ states, StOK g s) → (∀ s ∈ states, ActOK a s) →
    beamLoop g score beam f1 states = beamLoop g score beam f2 states := by
  intro f1
  induction f1 with
  | zero => intro f2 a states _ _ h; omega
  | succ f1 ih =>
    intro f2 a states h1 h2 _ h4 hok hact
    obtain ⟨f2, rfl⟩ : ∃ k, f2 = k + 1 := ⟨f2 - 1, by omega⟩
    unfold beamLoop
    cases hr : beamRound g score beam states with
    | none => rfl
    | some r =>
      obtain ⟨ns, act⟩ := r
      simp only
      by_cases ha : act = true
      · rw [if_pos ha, if_pos ha]
        obtain ⟨hact', hex⟩ := beamRound_act g score beam a states hact ns act hr
        obtain ⟨s, hs, hst⟩ := hex ha
        obtain ⟨hlen, hnd⟩ := hact s hs hst
        have := active_length_le g s (hok s hs) hnd
        exact ih f2 (a + 1) ns (by omega) (by omega) (by omega) (by omega)
          (beamRound_ok g score beam states hok ns act hr) hact'
      · rw [if_neg ha, if_neg ha]

theorem beamInit_act (g : G D) (score : D → Int) : ∀ s ∈ beamInit g score, ActOK 0 s := by
  intro s hs
  unfold beamInit at hs
  simp only at hs
  split at hs
  · cases hn : g.nodes[0]? with
    | none => rw [hn] at hs; cases hs
    | some n =>
      rw [hn] at hs
      simp only [List.mem_cons, List.mem_nil_iff, or_false] at hs
      subst hs
      intro _; simp
  · obtain ⟨ni, hni, hf⟩ := List.mem_filterMap.mp hs
    split at hf
    · cases hf; intro _; simp
    · cases hf

/-- **`max_path_beam` terminates**: any amount of fuel beyond `nodes.length + 1` rounds gives the same answer -/
theorem maxPathBeam_fuel (g : G D) (beam : Nat) (score : D → Int) (fuel : Nat) (hf : g.nodes.length + 1 ≤ fuel) :
    beamLoop g score beam fuel (beamInit g score) = beamLoop g score beam (g.nodes.length + 2) (beamInit g score) :=
  beamLoop_fuel g score beam fuel (g.nodes.length + 2) 0 _ (by omega) (by omega) (by omega) (by omega)
    (beamInit_ok g score) (beamInit_act g score)

theorem mapM_all_some {α β} (f : α → Option β) : ∀ (l : List α), (∀ a ∈ l, ∃ b, f a = some b) → ∃ out, l.mapM f = some out := by
  intro l
  induction l with
  | nil => intro _; exact ⟨[], rfl⟩
  | cons a l ih =>
    intro h
    obtain ⟨b, hb⟩ := h a (List.mem_cons_self ..)
    obtain ⟨bs, hbs⟩ := ih (fun x hx => h x (List.mem_cons_of_mem _ hx))
    exact ⟨b :: bs, by rw [List.mapM_cons, hb, hbs]; rfl⟩

/-- no edge lookup panics (true of every graph whose extensions resolve) -/
def EdgesTotal (g : G D) : Prop := ∀ (i : Nat) (d : Dir), (g.nodes[i]?).isSome → ∃ es, findEdges g i d = some es

theorem expandState_total (g : G D) (hE : EdgesTotal g) (score : D → Int) (s : BState) (hs : StOK g s) :
    ∃ l, expandState g score s = some l := by
  unfold expandState
  obtain ⟨hne, hw⟩ := hs
  obtain ⟨cur, hlast⟩ : ∃ c, s.path.getLast? = some c := ⟨_, List.getLast?_eq_getLast hne⟩
  rw [hlast]
  simp only
  obtain ⟨edges, he⟩ := hE cur.1 cur.2.flip (hw.nodes cur (List.mem_of_getLast? hlast))
  rw [he]
  simp only
  apply mapM_all_some
  intro e hem
  have hn := (findEdges_nodes g cur.1 cur.2.flip edges he).2 e hem
  obtain ⟨nn, hnn⟩ := Option.isSome_iff_exists.mp hn
  rw [hnn]
  simp only
  split
  · exact ⟨_, rfl⟩
  · obtain ⟨es, hes⟩ := hE e.1 e.2.1.flip hn
    rw [hes]; exact ⟨_, rfl⟩

theorem beamRound_total (g : G D) (hE : EdgesTotal g) (score : D → Int) (beam : Nat) (states : List BState)
    (hs : ∀ s ∈ states, StOK g s) : ∃ r, beamRound g score beam states = some r := by
  unfold beamRound
  obtain ⟨parts, hp⟩ := mapM_all_some (fun s => if s.status == 0 then expandState g score s else some [s]) states (fun s hsm => by
    split
    · exact expandState_total g hE score s (hs s hsm)
    · exact ⟨_, rfl⟩)
  rw [hp]; exact ⟨_, rfl⟩

/-- **the beam search returns** on every graph whose edge lookups do not panic -/
theorem beamLoop_some (g : G D) (hE : EdgesTotal g) (score : D → Int) (beam : Nat) : ∀ (f a : Nat) (states : List BState),
    g.nodes.length + 1 ≤ f + a → 1 ≤ f → (∀ s ∈ states, StOK g s) → (∀ s ∈ states, ActOK a s) →
    ∃ out, beamLoop g score beam f states = some out := by
  intro f
  induction f with
  | zero => intro a states _ h; omega
  | succ f ih =>
    intro a states h1 _ hok hact
    unfold beamLoop
    obtain ⟨r, hr⟩ := beamRound_total g hE score beam states hok
    obtain ⟨ns, act⟩ := r
    rw [hr]
    simp only
    by_cases ha : act = true
    · rw [if_pos ha]
      obtain ⟨hact', hex⟩ := beamRound_act g score beam a states hact ns act hr
      obtain ⟨s, hs, hst⟩ := hex ha
      obtain ⟨hlen, hnd⟩ := hact s hs hst
      have := active_length_le g s (hok s hs) hnd
      exact ih (a + 1) ns (by omega) (by omega) (beamRound_ok g score beam states hok ns act hr) hact'
    · rw [if_neg ha]; exact ⟨_, rfl⟩

theorem edgesTotal (g : G D) : EdgesTotal g := by
  intro i d hi
  obtain ⟨n, hn⟩ := Option.isSome_iff_exists.mp hi
  unfold findEdges
  rw [hn]; exact ⟨_, rfl⟩

/-- **`max_path_beam` always leaves its loop**: the loop ends within `nodes.length + 1` rounds with some list of states, and
    the answer is the path of the first of them (the only panic left is `states[0]` on an empty list: beam width 0) -/
theorem maxPathBeam_returns (g : G D) (beam : Nat) (score : D → Int) (hne : g.nodes.isEmpty = false) :
    ∃ sts, beamLoop g score beam (g.nodes.length + 2) (beamInit g score) = some sts ∧
      maxPathBeam g beam score = sts.head?.map (·.path) := by
  obtain ⟨sts, h⟩ := beamLoop_some g (edgesTotal g) score beam (g.nodes.length + 2) 0 (beamInit g score) (by omega) (by omega)
    (beamInit_ok g score) (beamInit_act g score)
  refine ⟨sts, h, ?_⟩
  unfold maxPathBeam
  rw [hne, h]
  simp

end Graph

/-! ### when does the beam search return?  On graphs whose extensions all resolve, with a beam of at least one state -/
namespace Graph
open Compress (Seq Node)
open Walk (Dir)
variable {D : Type}

/-- every side of a node that records an extension has at least one resolvable edge (true when all extensions resolve) -/
def Resolving (g : G D) : Prop :=
  ∀ (i : Nat) (n : Node D) (d : Dir), g.nodes[i]? = some n → 0 < n.exts.numExtDir d → ∃ es, findEdges g i d = some es ∧ es ≠ []

/-- an active state can be expanded: the exit side of its last node has an edge -/
def ActiveOK (g : G D) (s : BState) : Prop :=
  s.status = 0 → ∃ cur es, s.path.getLast? = some cur ∧ findEdges g cur.1 cur.2.flip = some es ∧ es ≠ []

theorem mapM_length {α β} (f : α → Option β) : ∀ (l : List α) (out : List β), l.mapM f = some out → out.length = l.length := by
  intro l
  induction l with
  | nil => intro out h; cases h; rfl
  | cons a t ih =>
    intro out h
    obtain ⟨b, bs, _, h2, rfl⟩ := mapM_cons_some f a t out h
    simp [ih bs h2]

theorem expandState_active (g : G D) (score : D → Int) (s : BState) (hst : s.status = 0) (ha : ActiveOK g s)
    (l : List BState) (h : expandState g score s = some l) : l ≠ [] ∧ ∀ t ∈ l, ActiveOK g t := by
  obtain ⟨cur, es, hlast, he, hne⟩ := ha hst
  unfold expandState at h
  rw [hlast] at h
  simp only at h
  rw [he] at h
  simp only at h
  constructor
  · intro hl
    have := mapM_length _ es l h
    rw [hl] at this
    exact hne (List.length_eq_zero_iff.mp this.symm)
  · intro t ht
    obtain ⟨e, _, hte⟩ := mapM_mem _ es l h t ht
    cases hn : g.nodes[e.1]? with
    | none => rw [hn] at hte; cases hte
    | some nn =>
      rw [hn] at hte
      simp only at hte
      by_cases hc : (s.path.any fun p => p.1 == e.1) = true
      · rw [if_pos hc] at hte
        simp only [Option.map_some, Option.some.injEq] at hte
        subst hte
        intro h0; cases h0
      · rw [if_neg hc] at hte
        cases he2 : findEdges g e.1 e.2.1.flip with
        | none => rw [he2] at hte; cases hte
        | some es2 =>
          rw [he2] at hte
          simp only [Option.map_some, Option.some.injEq] at hte
          subst hte
          intro h0
          simp only at h0
          have hne2 : es2 ≠ [] := by
            intro e0; rw [e0] at h0; simp at h0
          exact ⟨(e.1, e.2.1), es2, by simp, he2, hne2⟩

theorem beamRound_active (g : G D) (score : D → Int) (beam : Nat) (hb : 1 ≤ beam) (states : List BState)
    (hne : states ≠ []) (ha : ∀ s ∈ states, ActiveOK g s) (ns : List BState) (act : Bool)
    (h : beamRound g score beam states = some (ns, act)) : ns ≠ [] ∧ ∀ s ∈ ns, ActiveOK g s := by
  unfold beamRound at h
  cases hm : states.mapM (fun s => if s.status == 0 then expandState g score s else some [s]) with
  | none => rw [hm] at h; cases h
  | some parts =>
    rw [hm] at h
    simp only [Option.some.injEq, Prod.mk.injEq] at h
    obtain ⟨rfl, _⟩ := h
    -- every part is non-empty and consists of expandable states
    have hparts : ∀ part ∈ parts, part ≠ [] ∧ ∀ t ∈ part, ActiveOK g t := by
      intro part hp
      obtain ⟨s0, hs0, hf⟩ := mapM_mem _ states parts hm part hp
      by_cases hst : (s0.status == 0) = true
      · rw [if_pos hst] at hf
        exact expandState_active g score s0 (by simpa using hst) (ha s0 hs0) part hf
      · rw [if_neg hst] at hf
        simp only [Option.some.injEq] at hf
        subst hf
        refine ⟨by simp, fun t ht => ?_⟩
        simp only [List.mem_cons, List.mem_nil_iff, or_false] at ht
        subst ht
        exact ha _ hs0
    have hflat : parts.flatten ≠ [] := by
      obtain ⟨s0, t0, hst⟩ := List.exists_cons_of_ne_nil hne
      have hlen := mapM_length _ states parts hm
      have hpne : parts ≠ [] := by
        intro e; rw [e, hst] at hlen; simp at hlen
      obtain ⟨p0, pt, hp⟩ := List.exists_cons_of_ne_nil hpne
      obtain ⟨x, xs, hx⟩ := List.exists_cons_of_ne_nil (hparts p0 (by rw [hp]; simp)).1
      rw [hp, List.flatten_cons, hx]; simp
    constructor
    · intro e
      have hlen : ((parts.flatten.mergeSort fun a b => decide (b.score ≤ a.score)).take beam).length = 0 := by rw [e]; rfl
      rw [List.length_take, List.length_mergeSort] at hlen
      have : 0 < parts.flatten.length := List.length_pos_iff.mpr hflat
      omega
    · intro s hs
      have h1 := List.mem_of_mem_take hs
      have h2 : s ∈ parts.flatten := (List.mergeSort_perm _ _).mem_iff.mp h1
      obtain ⟨part, hp, hsp⟩ := List.mem_flatten.mp h2
      exact (hparts part hp).2 s hsp

theorem beamLoop_nonempty (g : G D) (score : D → Int) (beam : Nat) (hb : 1 ≤ beam) : ∀ (fuel : Nat) (states : List BState),
    states ≠ [] → (∀ s ∈ states, ActiveOK g s) → ∀ out, beamLoop g score beam fuel states = some out → out ≠ [] := by
  intro fuel
  induction fuel with
  | zero => intro states _ _ out h; cases h
  | succ fuel ih =>
    intro states hne ha out h
    unfold beamLoop at h
    cases hr : beamRound g score beam states with
    | none => rw [hr] at h; cases h
    | some r =>
      obtain ⟨ns, act⟩ := r
      rw [hr] at h
      simp only at h
      obtain ⟨hne', ha'⟩ := beamRound_active g score beam hb states hne ha ns act hr
      by_cases hact : act = true
      · rw [if_pos hact] at h; exact ih ns hne' ha' out h
      · rw [if_neg hact] at h; cases h; exact hne'

theorem beamInit_active (g : G D) (hr : Resolving g) (hne : g.nodes.isEmpty = false) (score : D → Int) :
    beamInit g score ≠ [] ∧ ∀ s ∈ beamInit g score, ActiveOK g s := by
  unfold beamInit
  simp only
  split
  · rename_i hemp
    -- no node without extensions on a side: start at node 0, which has extensions on both sides
    obtain ⟨n0, t, hn⟩ : ∃ n0 t, g.nodes = n0 :: t := by
      cases hg : g.nodes with
      | nil => rw [hg] at hne; simp at hne
      | cons a t => exact ⟨a, t, rfl⟩
    have h0 : g.nodes[0]? = some n0 := by rw [hn]; rfl
    rw [h0]
    refine ⟨by simp, fun s hs => ?_⟩
    simp only [List.mem_cons, List.mem_nil_iff, or_false] at hs
    subst hs
    intro _
    have hboth : ¬ ((n0.exts.numExtDir .L == 0 || n0.exts.numExtDir .R == 0) = true) := by
      intro hc
      have hmem : (n0, 0) ∈ g.nodes.zipIdx := by rw [hn]; simp [List.zipIdx_cons]
      have : ((g.nodes.zipIdx.filterMap fun (ni : Node D × Nat) =>
          if (ni.1.exts.numExtDir .L == 0 || ni.1.exts.numExtDir .R == 0) = true then
            some (⟨[(ni.2, if ni.1.exts.numExtDir .L > 0 then Dir.R else Dir.L)], score ni.1.data,
              if (ni.1.exts.numExtDir .L == 0 && ni.1.exts.numExtDir .R == 0) = true then 1 else 0⟩ : BState)
          else none)).isEmpty = true := hemp
      rw [List.isEmpty_iff] at this
      have hm : (⟨[((n0, 0).2, if (n0, 0).1.exts.numExtDir .L > 0 then Dir.R else Dir.L)], score (n0, 0).1.data,
              if ((n0, 0).1.exts.numExtDir .L == 0 && (n0, 0).1.exts.numExtDir .R == 0) = true then 1 else 0⟩ : BState) ∈
          (g.nodes.zipIdx.filterMap fun (ni : Node D × Nat) =>
          if (ni.1.exts.numExtDir .L == 0 || ni.1.exts.numExtDir .R == 0) = true then
            some (⟨[(ni.2, if ni.1.exts.numExtDir .L > 0 then Dir.R else Dir.L)], score ni.1.data,
              if (ni.1.exts.numExtDir .L == 0 && ni.1.exts.numExtDir .R == 0) = true then 1 else 0⟩ : BState)
          else none) :=
        List.mem_filterMap.mpr ⟨(n0, 0), hmem, by simp only; rw [if_pos hc]⟩
      rw [this] at hm
      cases hm
    simp only [Bool.or_eq_true, beq_iff_eq, not_or] at hboth
    obtain ⟨es, he, hne'⟩ := hr 0 n0 .R h0 (by omega)
    exact ⟨(0, .L), es, rfl, he, hne'⟩
  · rename_i hnemp
    refine ⟨by intro e; rw [e] at hnemp; simp at hnemp, fun s hs => ?_⟩
    obtain ⟨ni, hni, hf⟩ := List.mem_filterMap.mp hs
    split at hf
    · rename_i hcond
      simp only [Option.some.injEq] at hf
      subst hf
      intro hst
      simp only at hst
      have hidx := List.mem_zipIdx hni
      obtain ⟨_, h2, h3⟩ := hidx
      simp only [Nat.zero_add] at h2 h3
      have hnode : g.nodes[ni.2]? = some ni.1 := by rw [List.getElem?_eq_getElem h2, h3]; simp
      have hnot : ¬ ((ni.1.exts.numExtDir .L == 0 && ni.1.exts.numExtDir .R == 0) = true) := by
        intro hc; rw [if_pos hc] at hst; cases hst
      simp only [Bool.and_eq_true, beq_iff_eq, not_and] at hnot
      simp only [Bool.or_eq_true, beq_iff_eq] at hcond
      by_cases hl : ni.1.exts.numExtDir .L > 0
      · obtain ⟨es, he, hne'⟩ := hr ni.2 ni.1 .L hnode hl
        refine ⟨(ni.2, .R), es, ?_, he, hne'⟩
        simp only [hl, if_true, List.getLast?_singleton]
      · have hl0 : ni.1.exts.numExtDir .L = 0 := by omega
        have hr0 : 0 < ni.1.exts.numExtDir .R := by have := hnot hl0; omega
        obtain ⟨es, he, hne'⟩ := hr ni.2 ni.1 .R hnode hr0
        refine ⟨(ni.2, .L), es, ?_, he, hne'⟩
        simp only [hl, if_false, List.getLast?_singleton]
    · cases hf

/-- **`max_path_beam` returns** on every non-empty graph whose recorded extensions all resolve, for every beam width ≥ 1
    (with a dangling extension the only state can be dropped and `states[0]` panics: a node `ACGT` with right extension `A`
    recorded and no such node is the smallest case, confirmed on the crate) -/
theorem maxPathBeam_some (g : G D) (hr : Resolving g) (hne : g.nodes.isEmpty = false) (beam : Nat) (hb : 1 ≤ beam) (score : D → Int) :
    ∃ path, maxPathBeam g beam score = some path := by
  obtain ⟨sts, hl, hm⟩ := maxPathBeam_returns g beam score hne
  obtain ⟨hi1, hi2⟩ := beamInit_active g hr hne score
  have := beamLoop_nonempty g score beam hb _ _ hi1 hi2 sts hl
  obtain ⟨s0, t, rfl⟩ := List.exists_cons_of_ne_nil this
  exact ⟨s0.path, by rw [hm]; rfl⟩

end Graph
