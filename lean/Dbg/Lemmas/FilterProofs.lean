import Dbg.Spec.C05
import Dbg.Lemmas.SeqLemmas
/-! Proof that `filter_kmers` (bucket passes, stable sort, run grouping) equals the pass-free reference grouping. -/
namespace Filter
open Compress (Seq Base Exts Entry)

abbrev Ob := Seq × Exts × Nat

theorem seq_lt_trans {a b c : Seq} (h1 : a < b) (h2 : b < c) : a < c := List.lt_trans h1 h2
theorem seq_lt_irrefl (a : Seq) : ¬ a < a := List.lt_irrefl a
theorem seq_tri (a b : Seq) : a < b ∨ a = b ∨ b < a := Std.lt_trichotomy a b

/-- strictly ascending lists with the same members are equal -/
theorem asc_unique : ∀ (l1 l2 : List Seq), l1.Pairwise (· < ·) → l2.Pairwise (· < ·) → (∀ x, x ∈ l1 ↔ x ∈ l2) → l1 = l2 := by
  intro l1
  induction l1 with
  | nil =>
    intro l2 _ _ h
    cases l2 with
    | nil => rfl
    | cons b t => exact absurd ((h b).mpr (by simp)) (by simp)
  | cons a t1 ih =>
    intro l2 p1 p2 h
    cases l2 with
    | nil => exact absurd ((h a).mp (by simp)) (by simp)
    | cons b t2 =>
      rw [List.pairwise_cons] at p1 p2
      have hab : a = b := by
        rcases List.mem_cons.mp ((h a).mp (by simp)) with e | ha
        · exact e
        · rcases List.mem_cons.mp ((h b).mpr (by simp)) with e | hb
          · exact e.symm
          · exact absurd (seq_lt_trans (p1.1 b hb) (p2.1 a ha)) (seq_lt_irrefl a)
      subst hab
      congr 1
      apply ih t2 p1.2 p2.2
      intro x
      constructor
      · intro hx
        rcases List.mem_cons.mp ((h x).mp (by simp [hx])) with e | hx2
        · exact absurd (e ▸ p1.1 x hx) (seq_lt_irrefl _)
        · exact hx2
      · intro hx
        rcases List.mem_cons.mp ((h x).mpr (by simp [hx])) with e | hx2
        · exact absurd (e ▸ p2.1 x hx) (seq_lt_irrefl _)
        · exact hx2

/-! ### distinct keys -/

theorem mem_insertKey (x y : Seq) (l : List Seq) : y ∈ insertKey x l ↔ y = x ∨ y ∈ l := by
  induction l with
  | nil => simp [insertKey]
  | cons a t ih =>
    simp only [insertKey]
    by_cases h1 : x < a
    · simp [h1]
    · by_cases h2 : x = a
      · subst h2; simp [h1]
      · simp only [h1, h2, if_false, List.mem_cons, ih]
        constructor
        · rintro (h | h | h) <;> simp [h]
        · rintro (h | h | h) <;> simp [h]

theorem asc_insertKey (x : Seq) (l : List Seq) (h : l.Pairwise (· < ·)) : (insertKey x l).Pairwise (· < ·) := by
  induction l with
  | nil => simp [insertKey]
  | cons a t ih =>
    rw [List.pairwise_cons] at h
    simp only [insertKey]
    by_cases h1 : x < a
    · simp only [h1, if_true, List.pairwise_cons]
      refine ⟨?_, h.1, h.2⟩
      intro y hy
      rcases List.mem_cons.mp hy with rfl | hy
      · exact h1
      · exact seq_lt_trans h1 (h.1 y hy)
    · by_cases h2 : x = a
      · subst h2; simp only [h1, if_false, if_true, List.pairwise_cons]; exact h
      · simp only [h1, h2, if_false, List.pairwise_cons]
        refine ⟨?_, ih h.2⟩
        intro y hy
        rcases (mem_insertKey x y t).mp hy with rfl | hy
        · rcases seq_tri y a with h3 | h3 | h3
          · exact absurd h3 h1
          · exact absurd h3 h2
          · exact h3
        · exact h.1 y hy

theorem distinctKeys_spec (obs : List Ob) :
    (distinctKeys obs).Pairwise (· < ·) ∧ ∀ k, k ∈ distinctKeys obs ↔ ∃ o ∈ obs, o.1 = k := by
  unfold distinctKeys
  -- generalise the accumulator
  have : ∀ (l : List Ob) (acc : List Seq), acc.Pairwise (· < ·) →
      (l.foldl (fun acc o => insertKey o.1 acc) acc).Pairwise (· < ·) ∧
      ∀ k, k ∈ l.foldl (fun acc o => insertKey o.1 acc) acc ↔ (k ∈ acc ∨ ∃ o ∈ l, o.1 = k) := by
    intro l
    induction l with
    | nil => intro acc h; exact ⟨h, by simp⟩
    | cons o t ih =>
      intro acc h
      obtain ⟨i1, i2⟩ := ih (insertKey o.1 acc) (asc_insertKey o.1 acc h)
      refine ⟨i1, ?_⟩
      intro k
      rw [List.foldl_cons, i2 k, mem_insertKey]
      constructor
      · rintro ((h | h) | ⟨o', ho', e⟩)
        · exact Or.inr ⟨o, by simp, h.symm⟩
        · exact Or.inl h
        · exact Or.inr ⟨o', by simp [ho'], e⟩
      · rintro (h | ⟨o', ho', e⟩)
        · exact Or.inl (Or.inr h)
        · rcases List.mem_cons.mp ho' with rfl | ho'
          · exact Or.inl (Or.inl e.symm)
          · exact Or.inr ⟨o', ho', e⟩
  obtain ⟨a, b⟩ := this obs [] (by simp)
  exact ⟨a, fun k => by rw [b k]; simp⟩

/-! ### the stable sort -/

theorem filter_insertByKey (x : Ob) (l : List Ob) (k : Seq) :
    (insertByKey x l).filter (fun o => o.1 == k) = (if x.1 == k then [x] else []) ++ l.filter (fun o => o.1 == k) := by
  induction l with
  | nil => by_cases h : x.1 == k <;> simp [insertByKey, h]
  | cons y ys ih =>
    simp only [insertByKey]
    by_cases hlt : y.1 < x.1
    · simp only [hlt, if_true, List.filter_cons, ih]
      by_cases hx : x.1 == k
      · -- then y.1 ≠ k
        have hy : (y.1 == k) = false := by
          have : y.1 ≠ k := fun e => by
            have hxk : x.1 = k := by simpa using hx
            rw [e, hxk] at hlt; exact seq_lt_irrefl _ hlt
          simpa using this
        simp [hx, hy]
      · simp [hx]
    · simp only [hlt, if_false, List.filter_cons]
      by_cases hx : x.1 == k <;> simp [hx]

theorem filter_sortByKey (l : List Ob) (k : Seq) :
    (sortByKey l).filter (fun o => o.1 == k) = l.filter (fun o => o.1 == k) := by
  unfold sortByKey
  induction l with
  | nil => rfl
  | cons x t ih =>
    rw [List.foldr_cons, filter_insertByKey, ih, List.filter_cons]
    by_cases hx : x.1 == k <;> simp [hx]

theorem mem_insertByKey (x y : Ob) (l : List Ob) : y ∈ insertByKey x l ↔ y = x ∨ y ∈ l := by
  induction l with
  | nil => simp [insertByKey]
  | cons a t ih =>
    simp only [insertByKey]
    by_cases h : a.1 < x.1
    · simp only [h, if_true, List.mem_cons, ih]
      constructor
      · rintro (h | h | h) <;> simp [h]
      · rintro (h | h | h) <;> simp [h]
    · simp [h]

theorem mem_sortByKey (l : List Ob) (y : Ob) : y ∈ sortByKey l ↔ y ∈ l := by
  unfold sortByKey
  induction l with
  | nil => simp
  | cons x t ih => rw [List.foldr_cons, mem_insertByKey, ih]; simp

/-- non-decreasing keys -/
def SortedK (l : List Ob) : Prop := l.Pairwise (fun a b => ¬ b.1 < a.1)

theorem sorted_insertByKey (x : Ob) (l : List Ob) (h : SortedK l) : SortedK (insertByKey x l) := by
  unfold SortedK at *
  induction l with
  | nil => simp [insertByKey]
  | cons a t ih =>
    rw [List.pairwise_cons] at h
    simp only [insertByKey]
    by_cases hlt : a.1 < x.1
    · simp only [hlt, if_true, List.pairwise_cons]
      refine ⟨?_, ih h.2⟩
      intro y hy
      rcases (mem_insertByKey x y t).mp hy with rfl | hy
      · exact fun h' => seq_lt_irrefl _ (seq_lt_trans hlt h')
      · exact h.1 y hy
    · simp only [hlt, if_false, List.pairwise_cons]
      refine ⟨?_, h.1, h.2⟩
      intro y hy
      rcases List.mem_cons.mp hy with rfl | hy
      · exact hlt
      · intro h'
        -- y.1 < x.1 and ¬ a.1 < x.1, with ¬ y.1 < a.1
        rcases seq_tri a.1 x.1 with h1 | h1 | h1
        · exact hlt h1
        · exact h.1 y hy (h1 ▸ h')
        · exact h.1 y hy (seq_lt_trans h' h1)

theorem sorted_sortByKey (l : List Ob) : SortedK (sortByKey l) := by
  unfold sortByKey
  induction l with
  | nil => simp [SortedK]
  | cons x t ih => rw [List.foldr_cons]; exact sorted_insertByKey x _ ih

/-! ### run grouping of a sorted list -/

def snd2 (o : Ob) : Exts × Nat := (o.2.1, o.2.2)

theorem groupRuns_spec : ∀ (S : List Ob), SortedK S →
    ((groupRuns S).map (·.1)).Pairwise (· < ·) ∧
    (∀ k, k ∈ (groupRuns S).map (·.1) ↔ ∃ o ∈ S, o.1 = k) ∧
    (∀ g ∈ groupRuns S, g.2 = (S.filter (fun o => o.1 == g.1)).map snd2) := by
  intro S
  induction S with
  | nil => intro _; simp [groupRuns]
  | cons x xs ih =>
    intro hs
    unfold SortedK at hs
    rw [List.pairwise_cons] at hs
    obtain ⟨ia, ib, ic⟩ := ih hs.2
    cases hg : groupRuns xs with
    | nil =>
      -- no keys, hence xs = []
      have hxs : xs = [] := by
        cases xs with
        | nil => rfl
        | cons y ys =>
          have := (ib y.1).mpr ⟨y, by simp, rfl⟩
          rw [hg] at this; simp at this
      subst hxs
      simp [groupRuns, snd2]
      intro k; exact eq_comm
    | cons kg rest =>
      obtain ⟨k, obs⟩ := kg
      rw [hg] at ia ib ic
      simp only [List.map_cons, List.pairwise_cons] at ia
      have hk_mem : ∃ o ∈ xs, o.1 = k := (ib k).mp (by simp)
      obtain ⟨ok, hok, hokk⟩ := hk_mem
      have hxk : ¬ k < x.1 := by rw [← hokk]; exact hs.1 ok hok
      by_cases he : k == x.1
      · have hkx : k = x.1 := by simpa using he
        have hG : groupRuns (x :: xs) = (k, (x.2.1, x.2.2) :: obs) :: rest := by
          simp only [groupRuns, hg, he, if_true]
        rw [hG]
        refine ⟨by simpa using ia, ?_, ?_⟩
        · intro k'
          simp only [List.map_cons]
          rw [show (k :: rest.map (·.1)) = ((k, obs) :: rest).map (·.1) from rfl, ib k']
          constructor
          · rintro ⟨o, ho, e⟩; exact ⟨o, by simp [ho], e⟩
          · rintro ⟨o, ho, e⟩
            rcases List.mem_cons.mp ho with rfl | ho
            · exact ⟨ok, hok, by rw [hokk, hkx, e]⟩
            · exact ⟨o, ho, e⟩
        · intro g hgm
          rcases List.mem_cons.mp hgm with rfl | hgm
          · have := ic (k, obs) (by simp)
            simp only at this ⊢
            rw [List.filter_cons]
            simp [← hkx, this, snd2]
          · have hne : g.1 ≠ x.1 := by
              intro e
              have := ia.1 g.1 (List.mem_map.mpr ⟨g, hgm, rfl⟩)
              rw [e, ← hkx] at this; exact seq_lt_irrefl _ this
            rw [ic g (by simp [hgm]), List.filter_cons]
            have : (x.1 == g.1) = false := by simpa using fun e => hne e.symm
            simp [this]
      · have hne : k ≠ x.1 := by simpa using he
        have hlt : x.1 < k := by
          rcases seq_tri x.1 k with h | h | h
          · exact h
          · exact absurd h.symm hne
          · exact absurd h hxk
        have hG : groupRuns (x :: xs) = (x.1, [(x.2.1, x.2.2)]) :: (k, obs) :: rest := by
          simp only [groupRuns, hg, he]; rfl
        rw [hG]
        -- no element of xs has key x.1
        have hnone : ∀ o ∈ xs, o.1 ≠ x.1 := by
          intro o ho e
          have hm : o.1 ∈ ((k, obs) :: rest).map (·.1) := (ib o.1).mpr ⟨o, ho, rfl⟩
          simp only [List.map_cons, List.mem_cons] at hm
          rcases hm with h | h
          · rw [e] at h; exact seq_lt_irrefl _ (h ▸ hlt)
          · have := ia.1 o.1 h
            rw [e] at this; exact seq_lt_irrefl _ (seq_lt_trans hlt this)
        refine ⟨?_, ?_, ?_⟩
        · simp only [List.map_cons, List.pairwise_cons]
          refine ⟨?_, ia⟩
          intro y hy
          rcases List.mem_cons.mp hy with rfl | hy
          · exact hlt
          · exact seq_lt_trans hlt (ia.1 y hy)
        · intro k'
          simp only [List.map_cons, List.mem_cons]
          rw [show (k' = k ∨ k' ∈ rest.map (·.1)) ↔ k' ∈ ((k, obs) :: rest).map (·.1) from by simp, ib k']
          constructor
          · rintro (h | ⟨o, ho, e⟩)
            · exact ⟨x, by simp, h.symm⟩
            · exact ⟨o, by simp [ho], e⟩
          · rintro ⟨o, ho, e⟩
            rcases ho with rfl | ho
            · exact Or.inl e.symm
            · exact Or.inr ⟨o, ho, e⟩
        · intro g hgm
          rcases List.mem_cons.mp hgm with rfl | hgm
          · simp only [List.filter_cons, beq_self_eq_true, if_true, List.map_cons, snd2]
            have : xs.filter (fun o => o.1 == x.1) = [] := by
              apply List.filter_eq_nil_iff.mpr
              intro o ho; simpa using hnone o ho
            rw [this]; rfl
          · have hgk : g.1 ∈ ((k, obs) :: rest).map (·.1) := List.mem_map.mpr ⟨g, hgm, rfl⟩
            have hne2 : x.1 ≠ g.1 := by
              intro e
              simp only [List.map_cons, List.mem_cons] at hgk
              rcases hgk with h | h
              · rw [← e] at h; exact seq_lt_irrefl _ (h ▸ hlt)
              · have := ia.1 g.1 h
                rw [← e] at this; exact seq_lt_irrefl _ (seq_lt_trans hlt this)
            rw [ic g hgm, List.filter_cons]
            have : (x.1 == g.1) = false := by simpa using hne2
            simp [this]

/-! ### the planned ranges enumerate the buckets in order -/

theorem rangesFrom_enum (sz : Nat) (hsz : 0 < sz) (start : Nat) (hs : start ≤ 256) :
    (rangesFrom sz start).flatMap (fun p => List.range' p.1 (min p.2 256 - p.1)) = List.range' start (256 - start) := by
  fun_induction rangesFrom sz start with
  | case1 start h ih =>
    simp only [List.flatMap_cons]
    by_cases hle : start + sz ≤ 256
    · rw [ih hle, show min (start + sz) 256 - start = sz by omega,
        show 256 - start = sz + (256 - (start + sz)) by omega, ← List.range'_append_1]
    · -- the last range is cut at 256; the recursion stops
      have hstop : rangesFrom sz (start + sz) = [] := by
        rw [rangesFrom]; simp; omega
      rw [hstop]
      simp only [List.flatMap_nil, List.append_nil]
      congr 1; omega
  | case2 start h =>
    have : start = 256 := by omega
    subst this; simp

theorem bucketRanges_enum (slices : Nat) :
    (bucketRanges slices).flatMap (fun p => List.range' p.1 (min p.2 256 - p.1)) = List.range 256 := by
  unfold bucketRanges
  rw [rangesFrom_enum _ (Nat.succ_pos _) 0 (by omega), List.range_eq_range']

theorem rangesFrom_length (sz : Nat) (start : Nat) : (rangesFrom sz start).length ≤ 256 - start := by
  fun_induction rangesFrom sz start with
  | case1 start h ih => simp only [List.length_cons]; omega
  | case2 start h => simp

theorem mem_rangesFrom (sz start lo hi : Nat) (h : (lo, hi) ∈ rangesFrom sz start) :
    start ≤ lo ∧ lo < 256 ∧ hi = lo + sz ∧ (lo - start) % sz = 0 := by
  fun_induction rangesFrom sz start with
  | case1 start hh ih =>
    rcases List.mem_cons.mp h with e | h'
    · simp only [Prod.mk.injEq] at e
      obtain ⟨rfl, rfl⟩ := e
      exact ⟨Nat.le_refl _, hh.1, rfl, by simp⟩
    · obtain ⟨a, b, c, d⟩ := ih h'
      refine ⟨by omega, b, c, ?_⟩
      have : lo - start = (lo - (start + sz)) + sz := by omega
      rw [this, Nat.add_mod_right]; exact d
  | case2 start hh => simp at h

/-! ### buckets are monotone in the key order -/

theorem bucket4_val : ∀ a b c d : Fin 4,
    ((a.val <<< 6) ||| (b.val <<< 4) ||| (c.val <<< 2) ||| d.val) = 64 * a.val + 16 * b.val + 4 * c.val + d.val := by decide

theorem bucket_cons4 (a b c d : Base) (r : Seq) : bucket (a :: b :: c :: d :: r) = 64 * a.val + 16 * b.val + 4 * c.val + d.val := by
  simp [bucket, bucket4_val]

theorem bucket_lt_256 (k : Seq) : bucket k < 256 := by
  unfold bucket
  have h : ∀ i, (k.getD i 0).val < 4 := fun i => (k.getD i 0).isLt
  have := bucket4_val (k.getD 0 0) (k.getD 1 0) (k.getD 2 0) (k.getD 3 0)
  rw [this]
  have := h 0; have := h 1; have := h 2; have := h 3
  omega

/-- a smaller bucket means a smaller key (keys of length ≥ 4) -/
theorem bucket_mono (k1 k2 : Seq) (h1 : 4 ≤ k1.length) (h2 : 4 ≤ k2.length) (h : bucket k1 < bucket k2) : k1 < k2 := by
  match k1, k2, h1, h2 with
  | a :: b :: c :: d :: r, a' :: b' :: c' :: d' :: r', _, _ =>
    rw [bucket_cons4, bucket_cons4] at h
    have ha := a.isLt; have hb := b.isLt; have hc := c.isLt; have hd := d.isLt
    have ha' := a'.isLt; have hb' := b'.isLt; have hc' := c'.isLt; have hd' := d'.isLt
    rw [List.cons_lt_cons_iff, List.cons_lt_cons_iff, List.cons_lt_cons_iff, List.cons_lt_cons_iff]
    by_cases e1 : a = a'
    · right; refine ⟨e1, ?_⟩
      by_cases e2 : b = b'
      · right; refine ⟨e2, ?_⟩
        by_cases e3 : c = c'
        · right; refine ⟨e3, ?_⟩
          left
          subst e1 e2 e3
          exact Fin.lt_def.mpr (by omega)
        · left
          subst e1 e2
          have : c.val ≠ c'.val := fun e => e3 (Fin.ext e)
          exact Fin.lt_def.mpr (by omega)
      · left
        subst e1
        have : b.val ≠ b'.val := fun e => e2 (Fin.ext e)
        exact Fin.lt_def.mpr (by omega)
    · left
      have : a.val ≠ a'.val := fun e => e1 (Fin.ext e)
      exact Fin.lt_def.mpr (by omega)

/-! ### the groups of all passes are the reference groups -/

/-- the reference value of a key: its observations in input order -/
def obsOf (obs : List Ob) (k : Seq) : Seq × List (Exts × Nat) := (k, (obs.filter fun o => o.1 == k).map snd2)

/-- one bucket: sort + group = distinct keys of the bucket with their observations in input order -/
theorem bucket_groups (L : List Ob) : groupRuns (sortByKey L) = (distinctKeys L).map (obsOf L) := by
  obtain ⟨ga, gb, gc⟩ := groupRuns_spec (sortByKey L) (sorted_sortByKey L)
  obtain ⟨da, db⟩ := distinctKeys_spec L
  have hkeys : (groupRuns (sortByKey L)).map (·.1) = distinctKeys L := by
    apply asc_unique _ _ ga da
    intro k
    rw [gb k, db k]
    constructor
    · rintro ⟨o, ho, e⟩; exact ⟨o, (mem_sortByKey L o).mp ho, e⟩
    · rintro ⟨o, ho, e⟩; exact ⟨o, (mem_sortByKey L o).mpr ho, e⟩
  rw [← hkeys, List.map_map]
  conv => lhs; rw [← List.map_id (groupRuns (sortByKey L))]
  apply List.map_congr_left
  intro g hg
  simp only [id, Function.comp, obsOf]
  rw [← filter_sortByKey L g.1, ← gc g hg]

theorem filter_filter_key (obs : List Ob) (b : Nat) (k : Seq) (hb : bucket k = b) :
    (obs.filter fun o => bucket o.1 == b).filter (fun o => o.1 == k) = obs.filter fun o => o.1 == k := by
  rw [List.filter_filter]
  apply List.filter_congr
  intro o _
  by_cases h : o.1 == k
  · have : o.1 = k := by simpa using h
    simp [this, hb]
  · simp [h]

/-- all passes together -/
theorem all_groups (obs : List Ob) (hlen : ∀ o ∈ obs, 4 ≤ o.1.length) :
    (List.range 256).flatMap (fun b => groupRuns (sortByKey (obs.filter fun o => bucket o.1 == b))) =
      (distinctKeys obs).map (obsOf obs) := by
  -- per bucket
  have h1 : ∀ b, groupRuns (sortByKey (obs.filter fun o => bucket o.1 == b)) =
      (distinctKeys (obs.filter fun o => bucket o.1 == b)).map (obsOf obs) := by
    intro b
    rw [bucket_groups]
    apply List.map_congr_left
    intro k hk
    obtain ⟨o, ho, e⟩ := ((distinctKeys_spec _).2 k).mp hk
    have hbk : bucket k = b := by
      have := (List.mem_filter.mp ho).2
      rw [← e]; simpa using this
    simp only [obsOf]
    rw [filter_filter_key obs b k hbk]
  simp only [h1]
  rw [← List.map_flatMap]
  congr 1
  -- the concatenation over buckets of the per-bucket distinct keys is the global list of distinct keys
  apply asc_unique _ _ _ (distinctKeys_spec obs).1
  · intro k
    rw [(distinctKeys_spec obs).2 k]
    simp only [List.mem_flatMap, List.mem_range]
    constructor
    · rintro ⟨b, _, hk⟩
      obtain ⟨o, ho, e⟩ := ((distinctKeys_spec _).2 k).mp hk
      exact ⟨o, (List.mem_filter.mp ho).1, e⟩
    · rintro ⟨o, ho, e⟩
      refine ⟨bucket k, bucket_lt_256 k, ?_⟩
      exact ((distinctKeys_spec _).2 k).mpr ⟨o, List.mem_filter.mpr ⟨ho, by simp [e]⟩, e⟩
  · rw [List.pairwise_flatMap]
    refine ⟨fun b _ => (distinctKeys_spec _).1, ?_⟩
    apply List.Pairwise.imp _ List.pairwise_lt_range
    intro b1 b2 hlt x hx y hy
    obtain ⟨ox, hox, ex⟩ := ((distinctKeys_spec _).2 x).mp hx
    obtain ⟨oy, hoy, ey⟩ := ((distinctKeys_spec _).2 y).mp hy
    have hbx : bucket x = b1 := by have := (List.mem_filter.mp hox).2; rw [← ex]; simpa using this
    have hby : bucket y = b2 := by have := (List.mem_filter.mp hoy).2; rw [← ey]; simpa using this
    apply bucket_mono x y
    · rw [← ex]; exact hlen ox (List.mem_filter.mp hox).1
    · rw [← ey]; exact hlen oy (List.mem_filter.mp hoy).1
    · omega

/-! ### `filter_kmers` = reference -/

theorem kmerExtsOf_len (K : Nat) (s : Seq) (e : Exts) : ∀ x ∈ kmerExtsOf K s e, x.1.length = K := by
  intro x hx
  unfold kmerExtsOf at hx
  split at hx
  · simp at hx
  · rename_i hl
    simp only [List.mem_map, List.mem_range] at hx
    obtain ⟨i, hi, rfl⟩ := hx
    simp; omega

theorem observations_len (K : Nat) (reads : List (Seq × Exts × Nat)) (st : Bool) : ∀ o ∈ observations K reads st, o.1.length = K := by
  intro o ho
  unfold observations at ho
  simp only [List.mem_flatMap, List.mem_map] at ho
  obtain ⟨r, _, x, hx, rfl⟩ := ho
  have := kmerExtsOf_len K r.1 r.2.1 x hx
  obtain ⟨km, ex⟩ := x
  simp only at this ⊢
  by_cases hs : st = true
  · simp [hs, this]
  · simp only [hs, Bool.false_eq_true, if_false]
    by_cases hlt : km < Compress.rc km
    · simp [hlt, this]
    · simp [hlt, this, Compress.rc_length]

/-- the observation stream of the model is the one of the reference -/
theorem obsAll_eq (K : Nat) (reads : List (Seq × Exts × Nat)) (st : Bool) :
    (reads.flatMap fun r => (kmerExtsOf K r.1 r.2.1).map fun (km, ex) =>
      if !st then
        let (mk, flip) := Compress.minRcFlip km
        (mk, if flip then ex.rc else ex, r.2.2)
      else (km, ex, r.2.2)) = observations K reads st := by
  unfold observations
  rw [List.flatMap_def, List.flatMap_def]
  congr 1
  apply List.map_congr_left
  intro r _
  apply List.map_congr_left
  intro x _
  obtain ⟨km, ex⟩ := x
  cases st with
  | true => simp
  | false =>
    simp only [Bool.not_false, if_true, Bool.false_eq_true, if_false, Compress.minRcFlip]
    by_cases hlt : km < Compress.rc km <;> simp [hlt]

/-- **C05.** For every read set, every K ≥ 4, every memory budget ≥ 1 (every number of bucket passes), both summarizers,
    both strandedness and report_all values: the table contains exactly the reference groups that the summarizer accepts,
    each summarised once over its observations in input order, in ascending key order; the all-k-mers list is every
    distinct k-mer in ascending order. -/
theorem filterKmers_eq_ref (K : Nat) (reads : List (Seq × Exts × Nat)) (sm : Summarizer) (st ra : Bool) (mem bpu sz : Nat)
    (hK : 4 ≤ K) (hm : 1 ≤ mem) (hb : 1 ≤ bpu) :
    ∃ r, filterKmers K reads sm st ra mem bpu sz = some r ∧ r.table = refTable K reads sm st ∧
      r.allKmers = (if ra then refAllKmers K reads st else []) := by
  unfold filterKmers
  have hmm : ¬ (mem * bpu = 0) := by
    intro h; rcases Nat.mul_eq_zero.mp h with h | h <;> omega
  simp only [hmm, if_false]
  refine ⟨_, rfl, ?_, ?_⟩ <;> simp only
  all_goals rw [obsAll_eq K reads st]
  all_goals
    have hg : ((bucketRanges ((reads.map fun r => r.1.length - (K - 1)).foldl (· + ·) 0 * sz / (mem * bpu) + 1)).map fun (lo, hi) =>
        (List.range' lo (min hi 256 - lo)).flatMap fun b =>
          groupRuns (sortByKey ((observations K reads st).filter fun o => bucket o.1 == b))).flatten =
        (distinctKeys (observations K reads st)).map (obsOf (observations K reads st)) := by
      rw [← List.flatMap_def]
      have : ∀ (rs : List (Nat × Nat)),
          (rs.flatMap fun (p : Nat × Nat) => (List.range' p.1 (min p.2 256 - p.1)).flatMap fun b =>
            groupRuns (sortByKey ((observations K reads st).filter fun o => bucket o.1 == b))) =
          (rs.flatMap fun p => List.range' p.1 (min p.2 256 - p.1)).flatMap fun b =>
            groupRuns (sortByKey ((observations K reads st).filter fun o => bucket o.1 == b)) := by
        intro rs; rw [List.flatMap_assoc]
      rw [this, bucketRanges_enum]
      exact all_groups _ (fun o ho => by rw [observations_len K reads st o ho]; exact hK)
    rw [hg]
  · rfl
  · cases ra <;> simp [refAllKmers, refGroups, obsOf, snd2, List.map_map, Function.comp_def]

end Filter
