import Dbg.Lemmas.KmerBits
import Dbg.Lemmas.Lex
/-! The storage integer of a k-mer is the base-4 value of its string; hence `==`, `cmp` (derived on
    `storage`) are equality and lexicographic order of strings. -/
namespace Kmer
variable {c : Cfg}

theorem get_arith (hc : c.WF) (s : St c) (pos : Nat) : get c s pos = (s.toNat / 2 ^ (addr c pos)) % 4 := by
  have hw2 : 2 ≤ c.w := by have := hc.hK; have := hc.hw; omega
  unfold get
  rw [BitVec.toNat_and, BitVec.toNat_ofNat, BitVec.toNat_ushiftRight]
  have h3 : 3 % 2 ^ c.w = 3 := by
    apply Nat.mod_eq_of_lt
    have : 2 ^ 2 ≤ 2 ^ c.w := Nat.pow_le_pow_right (by decide) hw2
    omega
  rw [h3, show (3 : Nat) = 2 ^ 2 - 1 from rfl, Nat.and_two_pow_sub_one_eq_mod, Nat.shiftRight_eq_div_pow]

theorem toNat_lt_of_inv (s : St c) (h : Inv c s) : s.toNat < 4 ^ c.K := by
  have : s.toNat < 2 ^ (2 * c.K) := by
    apply Nat.lt_pow_two_of_testBit
    intro i hi
    rw [BitVec.testBit_toNat]; exact h i hi
  rwa [Nat.pow_mul] at this

theorem val_append_single (l : List Nat) (d : Nat) : Lex.val (l ++ [d]) = 4 * Lex.val l + d := by
  simp [Lex.val, List.foldl_append]

theorem val_prefix (hc : c.WF) (s : St c) (h : Inv c s) :
    ∀ n, n ≤ c.K → Lex.val ((List.range n).map (get c s)) = s.toNat / 4 ^ (c.K - n) := by
  intro n
  induction n with
  | zero =>
    intro _
    have := toNat_lt_of_inv s h
    simp [Lex.val, Nat.div_eq_of_lt this]
  | succ n ih =>
    intro hn
    rw [List.range_succ, List.map_append, List.map_cons, List.map_nil, val_append_single, ih (by omega), get_arith hc]
    have ea : 2 ^ addr c n = 4 ^ (c.K - (n + 1)) := by
      unfold addr
      rw [show (c.K - 1 - n) * 2 = 2 * (c.K - (n + 1)) by omega, Nat.pow_mul]
    rw [ea]
    have e4 : 4 ^ (c.K - n) = 4 ^ (c.K - (n + 1)) * 4 := by
      rw [show c.K - n = (c.K - (n + 1)) + 1 by omega, Nat.pow_succ]
    rw [e4, ← Nat.div_div_eq_div_mul]
    omega

/-- the storage integer is the base-4 value of the string -/
theorem toNat_eq_val (hc : c.WF) (s : St c) (h : Inv c s) : s.toNat = Lex.val (toSeq c s) := by
  have := val_prefix hc s h c.K (Nat.le_refl _)
  simp only [Nat.sub_self, Nat.pow_zero, Nat.div_one] at this
  exact this.symm

theorem toSeq_length (s : St c) : (toSeq c s).length = c.K := by simp [toSeq]

theorem toSeq_lt4 (hc : c.WF) (s : St c) : ∀ d ∈ toSeq c s, d < 4 := by
  intro d hd
  simp only [toSeq, List.mem_map, List.mem_range] at hd
  obtain ⟨q, _, rfl⟩ := hd
  exact get_lt hc s q

/-- equal strings ⇒ equal storage (so `==` and `Hash`, derived on `storage`, depend on the string only) -/
theorem toSeq_inj (hc : c.WF) (s t : St c) (hs : Inv c s) (ht : Inv c t) (h : toSeq c s = toSeq c t) : s = t := by
  apply BitVec.eq_of_toNat_eq
  rw [toNat_eq_val hc s hs, toNat_eq_val hc t ht, h]

/-- derived `Ord` on storage is the lexicographic order A<C<G<T of the strings -/
theorem lt_iff_lex (hc : c.WF) (s t : St c) (hs : Inv c s) (ht : Inv c t) :
    s.toNat < t.toNat ↔ toSeq c s < toSeq c t := by
  rw [toNat_eq_val hc s hs, toNat_eq_val hc t ht]
  exact Lex.val_lt_iff_lex _ _ (by simp [toSeq_length]) (toSeq_lt4 hc s) (toSeq_lt4 hc t)

end Kmer
