import Dbg.Lemmas.FilterSym
import Dbg.Lemmas.LinkInv
import Dbg.Lemmas.EndPorts
/-! Pruning (`remove_censored_exts`) and good links: the pruned table is closed (every recorded extension leads to a
    present k-mer), and every good link of the unpruned table is a good link of the pruned one. -/
namespace Compress
open Walk (Dir)
open Filter (has hasExt_iff ExtSym2 removeCensoredExts extTarget)
variable {D : Type}

theorem nibble_ext : ∀ n m : Fin 16, (∀ b : Base, nibHas n.val b = nibHas m.val b) → n = m := by decide +kernel

theorem nibble_comp : ∀ n m : Fin 16, (∀ b : Base, nibHas n.val b = nibHas m.val (comp b)) →
    nibCnt n.val = nibCnt m.val ∧ ∀ c : Base, (nibUniq n.val = some c → nibCnt n.val = 1 → nibUniq m.val = some (comp c)) := by
  decide +kernel

/-- two extension bytes with the same extensions on side `d` have the same bits there -/
theorem dirBits_ext (e1 e2 : Exts) (h1 : e1.val < 256) (h2 : e2.val < 256) (d : Dir)
    (h : ∀ b, has e1 d b ↔ has e2 d b) : e1.dirBits d = e2.dirBits d := by
  have := nibble_ext ⟨e1.dirBits d, dirBits_lt e1 h1 d⟩ ⟨e2.dirBits d, dirBits_lt e2 h2 d⟩ (fun b => by
    have := h b
    unfold has at this
    cases h3 : nibHas (e1.dirBits d) b <;> cases h4 : nibHas (e2.dirBits d) b <;> simp_all)
  exact congrArg Fin.val this

/-- the pruned table is closed -/
theorem pruned_closed (st : Bool) (U : Table D) (x : Nat) (e : Entry D) (hx : (removeCensoredExts st U)[x]? = some e)
    (d : Dir) (b : Base) (hb : has e.exts d b) : ∃ y, findId (removeCensoredExts st U) (canonSt st (extend e.key b d)).1 = some y := by
  obtain ⟨e0, _, hk, _, _, hx'⟩ := (Filter.removeCensored_exact st U).2 x e hx
  obtain ⟨_, h2⟩ := (hx' d b).mp hb
  rw [Filter.findId_removeCensored, hk, ← Filter.extTarget_eq]
  exact findId_isSome_of_mem' U _ h2
where
  findId_isSome_of_mem' (T : Table D) (k : Seq) (h : k ∈ T.map (·.key)) : ∃ y, findId T k = some y := by
    unfold findId
    apply Option.isSome_iff_exists.mp
    rw [List.findIdx?_isSome, List.any_eq_true]
    obtain ⟨e, he, hk⟩ := List.mem_map.mp h
    exact ⟨e, he, by simp [hk]⟩

/-- **pruning keeps good links** -/
theorem linkOf_prune {U : Table D} {K : Nat} {st : Bool} (join : D → D → Bool) (wf : WF U K st) (hes2 : ExtSym2 U st)
    (x : Nat) (d : Dir) (y : Nat) (d' : Dir) (h : linkOf U st join x d = some (y, d')) :
    linkOf (removeCensoredExts st U) st join x d = some (y, d') := by
  obtain ⟨ex, ey, b, f⟩ := linkOf_inv U st join h
  have hxlt : x < U.length := (List.getElem?_eq_some_iff.mp f.hx).1
  have hylt : y < U.length := (List.getElem?_eq_some_iff.mp f.hy).1
  have hlen : (removeCensoredExts st U).length = U.length := (Filter.removeCensored_exact st U).1
  obtain ⟨ex', hx'⟩ : ∃ e, (removeCensoredExts st U)[x]? = some e := ⟨_, List.getElem?_eq_getElem (by rw [hlen]; exact hxlt)⟩
  obtain ⟨ey', hy'⟩ : ∃ e, (removeCensoredExts st U)[y]? = some e := ⟨_, List.getElem?_eq_getElem (by rw [hlen]; exact hylt)⟩
  obtain ⟨ex0, hx0, hkx, hdx, h8x, hexx⟩ := (Filter.removeCensored_exact st U).2 x ex' hx'
  obtain ⟨ey0, hy0, hky, hdy, h8y, hexy⟩ := (Filter.removeCensored_exact st U).2 y ey' hy'
  rw [f.hx] at hx0; cases hx0
  rw [f.hy] at hy0; cases hy0
  obtain ⟨eyf, hyf, hkeyf⟩ := findId_some f.hfind
  rw [f.hy] at hyf; cases hyf
  have hxne : ex.key ≠ [] := by
    intro e
    have := wf.len x ex f.hx
    rw [e] at this
    have := wf.kpos
    simp at *; omega
  -- the bits of `x` on side `d` are unchanged: its only extension there leads to `y`, which is present
  have tx := nib_table ⟨ex.exts.dirBits d, dirBits_lt _ (wf.ext8 x ex f.hx) d⟩
  have hasx : has ex.exts d b := (tx b).2.1 f.cntx f.uniq
  have hbx : ex'.exts.dirBits d = ex.exts.dirBits d := by
    apply dirBits_ext ex'.exts ex.exts h8x (wf.ext8 x ex f.hx) d
    intro c
    rw [hexx d c]
    constructor
    · exact fun h => h.1
    · intro hc
      refine ⟨hc, ?_⟩
      have : c = b := by
        have h1 := (tx c).1 f.cntx hc
        have h2 := f.uniq
        rw [h1] at h2; exact Option.some.inj h2
      subst this
      rw [Filter.extTarget_eq, ← hkeyf]
      exact List.mem_map_of_mem (List.mem_of_getElem? f.hy)
  -- the bits of `y` on the facing side are unchanged: its only extension there leads back to `x`
  have hasy : has ey.exts (condFlip d.flip (canonSt st (extend ex.key b d)).2) (recip ex.key d (canonSt st (extend ex.key b d)).2) := by
    rcases hes2 x ex d b y ey f.hx hasx f.hfind f.hy with h1 | ⟨hp, _⟩
    · exact h1
    · rw [hkeyf, f.paly] at hp; cases hp
  have ty := nib_table ⟨ey.exts.dirBits (condFlip d.flip (canonSt st (extend ex.key b d)).2), dirBits_lt _ (wf.ext8 y ey f.hy) _⟩
  have hby : ey'.exts.dirBits (condFlip d.flip (canonSt st (extend ex.key b d)).2) =
      ey.exts.dirBits (condFlip d.flip (canonSt st (extend ex.key b d)).2) := by
    apply dirBits_ext ey'.exts ey.exts h8y (wf.ext8 y ey f.hy)
    intro c
    rw [hexy _ c]
    constructor
    · exact fun h => h.1
    · intro hc
      refine ⟨hc, ?_⟩
      have : c = recip ex.key d (canonSt st (extend ex.key b d)).2 := by
        have h1 := (ty c).1 f.cnty hc
        have h2 := (ty _).1 f.cnty hasy
        rw [h1] at h2; exact Option.some.inj h2
      subst this
      rw [Filter.extTarget_eq, hkeyf,
        Filter.canon_back_key (st := st) (x := ex.key) (b := b) (d := d) hxne (fun h => wf.canon h x ex f.hx)]
      exact List.mem_map_of_mem (List.mem_of_getElem? f.hx)
  apply linkOf_intro (removeCensoredExts st U) st join (ex := ex') (ey := ey') (b := b)
  refine ⟨hx', by rw [hbx]; exact f.cntx, by rw [hkx]; exact f.palx, by rw [hbx]; exact f.uniq, ?_, hy', ?_, ?_, ?_, ?_⟩
  · rw [Filter.findId_removeCensored, hkx]; exact f.hfind
  · rw [hkx]; exact f.hd'
  · rw [hkx, hby]; exact f.cnty
  · rw [hdx, hdy]; exact f.hjoin
  · rw [hkx]; exact f.paly

end Compress
