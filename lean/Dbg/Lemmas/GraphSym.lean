import Dbg.Lemmas.GraphProofs
import Dbg.Lemmas.Recip
/-! Edge symmetry of a finished graph from its node-level invariant. -/
namespace Graph
open Compress (Seq Base Exts rc extend Node recip)
open Walk (Dir)
open Filter (has hasExt_iff)
variable {D : Type}

/-- the palindromic single-k-mer node: the only node whose two ends cannot be told apart -/
def PalNode (g : G D) (u : Nat) : Prop :=
  ∃ nu, g.nodes[u]? = some nu ∧ g.stranded = false ∧ nu.seq.length = g.K ∧ rc nu.seq = nu.seq

/-- node-level invariant of the graphs the crate builds: nodes have at least `K` bases; a terminal k-mer identifies its
    node and side (unstranded: up to reverse complement, a single-k-mer node being the only node whose two ends coincide);
    recorded extensions are reciprocal (a palindromic single-k-mer node records them as seen from either strand) -/
structure SeqInv (g : G D) : Prop where
  kpos : 1 ≤ g.K
  len : ∀ (i : Nat) (n : Node D), g.nodes[i]? = some n → g.K ≤ n.seq.length
  sameSide : ∀ (i j : Nat) (ni nj : Node D) (s : Dir), g.nodes[i]? = some ni → g.nodes[j]? = some nj →
    termKmer g.K ni.seq s = termKmer g.K nj.seq s → i = j
  rcSide : ∀ (i j : Nat) (ni nj : Node D) (s : Dir), g.stranded = false → g.nodes[i]? = some ni → g.nodes[j]? = some nj →
    termKmer g.K ni.seq s.flip = rc (termKmer g.K nj.seq s) → i = j ∧ ni.seq.length = g.K

structure GInv (g : G D) : Prop extends SeqInv g where
  recipr : ∀ (u v : Nat) (nu nv : Node D) (d s : Dir) (b : Base) (f : Bool), g.nodes[u]? = some nu → g.nodes[v]? = some nv →
    has nu.exts d b → findLink g (extend (termKmer g.K nu.seq d) b d) d = some (v, s, f) →
    has nv.exts s (recip (termKmer g.K nu.seq d) d f) ∨
      (PalNode g v ∧ has nv.exts s.flip (Compress.comp (recip (termKmer g.K nu.seq d) d f)))

theorem getElem?_lt {α} {l : List α} {i : Nat} {a : α} (h : l[i]? = some a) : i < l.length := by
  cases hd : decide (i < l.length) with
  | true => simpa using hd
  | false => rw [List.getElem?_eq_none (by simpa using hd)] at h; cases h

theorem mem_base4 (b : Base) : b ∈ base4 := by
  rcases b with ⟨x, hx⟩
  have : x = 0 ∨ x = 1 ∨ x = 2 ∨ x = 3 := by omega
  rcases this with rfl | rfl | rfl | rfl <;> simp [base4]

theorem mem_dirs (d : Dir) : d ∈ [Dir.L, Dir.R] := by cases d <;> simp

theorem searchKmer_unique (g : G D) (hg : SeqInv g) (u : Nat) (nu : Node D) (hu : g.nodes[u]? = some nu) (s : Dir) :
    searchKmer g (termKmer g.K nu.seq s) s = some u := by
  unfold searchKmer
  rw [List.findIdx?_eq_some_iff_getElem]
  have hlt : u < g.nodes.length := getElem?_lt hu
  have hnu : g.nodes[u] = nu := by rw [List.getElem?_eq_getElem hlt] at hu; exact Option.some.inj hu
  refine ⟨hlt, by simp [hnu], ?_⟩
  intro j hj
  have hjl : j < g.nodes.length := by omega
  intro hcontra
  have := hg.sameSide j u g.nodes[j] nu s (List.getElem?_eq_getElem hjl) hu (by simpa using hcontra)
  omega

theorem termKmer_ne_nil (g : G D) (hg : SeqInv g) (u : Nat) (nu : Node D) (hu : g.nodes[u]? = some nu) (s : Dir) :
    termKmer g.K nu.seq s ≠ [] := by
  have h1 := hg.len u nu hu
  have h2 := hg.kpos
  intro e
  have := congrArg List.length e
  cases s with
  | L => rw [show termKmer g.K nu.seq .L = nu.seq.take g.K from rfl, List.length_take, List.length_nil] at this; omega
  | R => rw [show termKmer g.K nu.seq .R = nu.seq.drop (nu.seq.length - g.K) from rfl, List.length_drop, List.length_nil] at this; omega

/-- looking up the end k-mer of `u` from the facing side finds `u`, unflipped -/
theorem lookup_direct (g : G D) (hg : SeqInv g) (u : Nat) (nu : Node D) (hu : g.nodes[u]? = some nu) (d : Dir) :
    findLink g (termKmer g.K nu.seq d) d.flip = some (u, d, false) := by
  have hsk := searchKmer_unique g hg u nu hu d
  unfold findLink
  cases d with
  | L => simp only [Dir.flip]; rw [hsk]
  | R => simp only [Dir.flip]; rw [hsk]

/-- looking up the reverse complement of the end k-mer of `u` from the same side finds `u` flipped — or, when `u` is a
    single-k-mer node whose k-mer is its own reverse complement, `u` through its other side -/
theorem lookup_flipped (g : G D) (hg : SeqInv g) (hst : g.stranded = false) (u : Nat) (nu : Node D) (hu : g.nodes[u]? = some nu) (d : Dir) :
    findLink g (rc (termKmer g.K nu.seq d)) d = some (u, d, true) ∨
      (nu.seq.length = g.K ∧ rc nu.seq = nu.seq ∧ findLink g (rc (termKmer g.K nu.seq d)) d = some (u, d.flip, false)) := by
  by_cases hfirst : (searchKmer g (rc (termKmer g.K nu.seq d)) d.flip).isSome
  · obtain ⟨w, hw⟩ := Option.isSome_iff_exists.mp hfirst
    obtain ⟨nw, hnw, htw⟩ := searchKmer_sound g _ _ _ hw
    obtain ⟨hwu, hlen⟩ := hg.rcSide w u nw nu d hst hnw hu htw
    subst hwu
    rw [hu] at hnw; cases hnw
    right
    have hx : ∀ side, termKmer g.K nu.seq side = nu.seq := by
      intro side
      cases side with
      | L => show nu.seq.take g.K = nu.seq; rw [← hlen, List.take_length]
      | R => show nu.seq.drop (nu.seq.length - g.K) = nu.seq; rw [hlen, Nat.sub_self, List.drop_zero]
    have hrcw : rc nu.seq = nu.seq := by rw [hx, hx] at htw; exact htw.symm
    refine ⟨hlen, hrcw, ?_⟩
    unfold findLink
    cases d with
    | L => simp only [Dir.flip] at hw ⊢; rw [hw]
    | R => simp only [Dir.flip] at hw ⊢; rw [hw]
  · left
    have hnone : searchKmer g (rc (termKmer g.K nu.seq d)) d.flip = none := by
      cases hh : searchKmer g (rc (termKmer g.K nu.seq d)) d.flip with
      | none => rfl
      | some w => rw [hh] at hfirst; exact absurd rfl hfirst
    have hsk := searchKmer_unique g hg u nu hu d
    unfold findLink
    cases d with
    | L =>
      simp only [Dir.flip] at hnone ⊢
      rw [hnone, hst]
      simp only [Bool.not_false, if_true, Compress.rc_rc]
      rw [hsk]
    | R =>
      simp only [Dir.flip] at hnone ⊢
      rw [hnone, hst]
      simp only [Bool.not_false, if_true, Compress.rc_rc]
      rw [hsk]

/-- `v` reports an edge back to `u`: from the facing side `s` (or from either side if `v` is a palindromic single-k-mer
    node), arriving at side `d` of `u` (or at either side if `u` is a single-k-mer node whose k-mer is its own reverse
    complement) -/
def ReachesBack (g : G D) (u : Nat) (d : Dir) (v : Nat) (s : Dir) : Prop :=
  ∃ s' es' d' f', findEdges g v s' = some es' ∧ (u, d', f') ∈ es' ∧ (s' = s ∨ PalNode g v) ∧
    (d' = d ∨ ∃ nu, g.nodes[u]? = some nu ∧ nu.seq.length = g.K)

theorem mem_findEdges (g : G D) (v : Nat) (nv : Node D) (hv : g.nodes[v]? = some nv) (s : Dir) (r : Base) (hr : has nv.exts s r)
    (e : Nat × Dir × Bool) (hl : findLink g (extend (termKmer g.K nv.seq s) r s) s = some e) :
    ∃ es, findEdges g v s = some es ∧ e ∈ es := by
  refine ⟨_, by unfold findEdges; rw [hv], ?_⟩
  rw [List.mem_filterMap]
  exact ⟨r, mem_base4 r, by rw [if_pos ((hasExt_iff _ _ _).mpr hr)]; exact hl⟩

/-- **edges are symmetric**: if `(v, s, f)` is reported from side `d` of `u`, then `v` reports `u` back -/
theorem edges_symmetric (g : G D) (hg : GInv g) (u : Nat) (d : Dir) (es : List (Nat × Dir × Bool))
    (he : findEdges g u d = some es) (v : Nat) (s : Dir) (f : Bool) (hm : (v, s, f) ∈ es) : ReachesBack g u d v s := by
  have hunpack : ∃ (nu : Node D) (b : Base), g.nodes[u]? = some nu ∧ has nu.exts d b ∧
      findLink g (extend (termKmer g.K nu.seq d) b d) d = some (v, s, f) := by
    unfold findEdges at he
    cases hn : g.nodes[u]? with
    | none => rw [hn] at he; cases he
    | some nd =>
      rw [hn] at he
      simp only [Option.some.injEq] at he
      subst he
      rw [List.mem_filterMap] at hm
      obtain ⟨b, _, hb⟩ := hm
      by_cases hh : nd.exts.hasExt d b.val = true
      · rw [if_pos hh] at hb
        exact ⟨nd, b, rfl, (hasExt_iff nd.exts d b).mp hh, hb⟩
      · rw [if_neg hh] at hb; cases hb
  obtain ⟨nu, b, hu, hb, hl⟩ := hunpack
  obtain ⟨nv, hv, hterm, hf0, hf1⟩ := findLink_sound g _ _ _ _ _ hl
  have hne := termKmer_ne_nil g hg.toSeqInv u nu hu d
  -- abbreviations: the end k-mer of `u`, the k-mer it extends to
  generalize ht : termKmer g.K nu.seq d = t at *
  rcases hg.recipr u v nu nv d s b f hu hv hb (by rw [ht]; exact hl) with hrec | ⟨hpal, hrec⟩
  · -- the ordinary case: `v` records the reciprocal base on the facing side
    rw [ht] at hrec
    cases f with
    | false =>
      have hs : s = d.flip := hf0 rfl
      subst hs
      simp only [Bool.false_eq_true, if_false] at hterm
      have hk : extend (termKmer g.K nv.seq d.flip) (recip t d false) d.flip = t := by rw [hterm, Compress.extend_back _ b d hne]
      obtain ⟨es', he', hm'⟩ := mem_findEdges g v nv hv d.flip _ hrec (u, d, false)
        (by rw [hk, ← ht]; exact lookup_direct g hg.toSeqInv u nu hu d)
      exact ⟨d.flip, es', d, false, he', hm', Or.inl rfl, Or.inl rfl⟩
    | true =>
      obtain ⟨hs, hst⟩ := hf1 rfl
      subst hs
      simp only [if_true] at hterm
      have hk : extend (termKmer g.K nv.seq s) (recip t s true) s = rc t := by rw [hterm, Compress.extend_back_flip _ b s hne]
      rcases lookup_flipped g hg.toSeqInv hst u nu hu s with h1 | ⟨hlen, _, h1⟩
      · obtain ⟨es', he', hm'⟩ := mem_findEdges g v nv hv s _ hrec (u, s, true) (by rw [hk, ← ht]; exact h1)
        exact ⟨s, es', s, true, he', hm', Or.inl rfl, Or.inl rfl⟩
      · obtain ⟨es', he', hm'⟩ := mem_findEdges g v nv hv s _ hrec (u, s.flip, false) (by rw [hk, ← ht]; exact h1)
        exact ⟨s, es', s.flip, false, he', hm', Or.inl rfl, Or.inr ⟨nu, hu, hlen⟩⟩
  · -- `v` is a palindromic single-k-mer node and records the base as seen from the other strand, on its other side
    rw [ht] at hrec
    obtain ⟨nv', hv', hst, hvl, hvp⟩ := hpal
    rw [hv] at hv'; cases hv'
    have hx : ∀ side, termKmer g.K nv.seq side = nv.seq := by
      intro side
      cases side with
      | L => show nv.seq.take g.K = nv.seq; rw [← hvl, List.take_length]
      | R => show nv.seq.drop (nv.seq.length - g.K) = nv.seq; rw [hvl, Nat.sub_self, List.drop_zero]
    rw [hx] at hterm
    -- the k-mer `u` extends to is the (self-complementary) k-mer of `v`
    have hkm : extend t b d = nv.seq ∧ rc (extend t b d) = nv.seq := by
      cases f with
      | false => simp only [Bool.false_eq_true, if_false] at hterm; exact ⟨hterm.symm, by rw [← hterm]; exact hvp⟩
      | true =>
        simp only [if_true] at hterm
        have : extend t b d = rc nv.seq := by rw [hterm, Compress.rc_rc]
        exact ⟨by rw [this, hvp], hterm.symm⟩
    have hpalv : PalNode g v := ⟨nv, hv, hst, hvl, hvp⟩
    cases f with
    | false =>
      have hs : s = d.flip := hf0 rfl
      subst hs
      -- from side `d` of `v` with the complemented base: the reverse complement of the end of `u`
      have hk : extend (termKmer g.K nv.seq d.flip.flip) (Compress.comp (recip t d false)) d.flip.flip = rc t := by
        rw [hx, Dir.flip_flip, ← hkm.2]
        exact Compress.extend_back_flip t b d hne
      rcases lookup_flipped g hg.toSeqInv hst u nu hu d with h1 | ⟨hlen, _, h1⟩
      · obtain ⟨es', he', hm'⟩ := mem_findEdges g v nv hv d.flip.flip _ hrec (u, d, true)
          (by rw [hk, Dir.flip_flip, ← ht]; exact h1)
        exact ⟨d.flip.flip, es', d, true, he', hm', Or.inr hpalv, Or.inl rfl⟩
      · obtain ⟨es', he', hm'⟩ := mem_findEdges g v nv hv d.flip.flip _ hrec (u, d.flip, false)
          (by rw [hk, Dir.flip_flip, ← ht]; exact h1)
        exact ⟨d.flip.flip, es', d.flip, false, he', hm', Or.inr hpalv, Or.inr ⟨nu, hu, hlen⟩⟩
    | true =>
      obtain ⟨hs, _⟩ := hf1 rfl
      subst hs
      have hcc : Compress.comp (recip t s true) = recip t s false := by
        unfold recip; simp only [if_true, Bool.false_eq_true, if_false]
        exact Filter.comp_comp _
      have hk : extend (termKmer g.K nv.seq s.flip) (Compress.comp (recip t s true)) s.flip = t := by
        rw [hx, hcc, ← hkm.1]
        exact Compress.extend_back t b s hne
      obtain ⟨es', he', hm'⟩ := mem_findEdges g v nv hv s.flip _ hrec (u, s, false)
        (by rw [hk, ← ht]; exact lookup_direct g hg.toSeqInv u nu hu s)
      exact ⟨s.flip, es', s, false, he', hm', Or.inr hpalv, Or.inl rfl⟩

end Graph

namespace Graph
open Compress (Seq Base Exts rc extend Node recip)
open Walk (Dir)
open Filter (has hasExt_iff)
variable {D : Type}

/-- executable form of `PalNode` -/
def palNodeB (g : G D) (v : Nat) : Bool :=
  match g.nodes[v]? with
  | some n => !g.stranded && n.seq.length == g.K && rc n.seq == n.seq
  | none => false

theorem palNodeB_sound (g : G D) (v : Nat) (h : palNodeB g v = true) : PalNode g v := by
  unfold palNodeB at h
  cases hn : g.nodes[v]? with
  | none => rw [hn] at h; cases h
  | some n =>
    rw [hn] at h
    simp only [Bool.and_eq_true, Bool.not_eq_true', beq_iff_eq] at h
    exact ⟨n, hn, h.1.1, h.1.2, h.2⟩

/-- executable form of `GInv` (evaluated by the driver on the graphs the crate builds) -/
def ginvOK (g : G D) : Bool :=
  decide (1 ≤ g.K) &&
  g.nodes.all (fun n => decide (g.K ≤ n.seq.length)) &&
  (List.range g.nodes.length).all (fun i => (List.range g.nodes.length).all fun j => [Dir.L, Dir.R].all fun s =>
    match g.nodes[i]?, g.nodes[j]? with
    | some ni, some nj =>
      (termKmer g.K ni.seq s != termKmer g.K nj.seq s || i == j) &&
      (g.stranded || termKmer g.K ni.seq s.flip != rc (termKmer g.K nj.seq s) || (i == j && ni.seq.length == g.K))
    | _, _ => true) &&
  (List.range g.nodes.length).all (fun u => [Dir.L, Dir.R].all fun d => base4.all fun b =>
    match g.nodes[u]? with
    | some nu =>
      !nu.exts.hasExt d b.val ||
      (match findLink g (extend (termKmer g.K nu.seq d) b d) d with
       | some (v, s, f) =>
         (match g.nodes[v]? with
          | some nv => nv.exts.hasExt s (recip (termKmer g.K nu.seq d) d f).val ||
              (palNodeB g v && nv.exts.hasExt s.flip (Compress.comp (recip (termKmer g.K nu.seq d) d f)).val)
          | none => true)
       | none => true)
    | none => true)

/-- the executable check implies the invariant -/
theorem ginvOK_sound (g : G D) (h : ginvOK g = true) : GInv g := by
  unfold ginvOK at h
  simp only [Bool.and_eq_true, decide_eq_true_eq, List.all_eq_true] at h
  obtain ⟨⟨⟨hk, hlen⟩, hends⟩, hrec⟩ := h
  refine ⟨⟨hk, ?_, ?_, ?_⟩, ?_⟩
  · intro i n hi
    exact hlen n (List.mem_of_getElem? hi)
  · intro i j ni nj s hi hj ht
    have := hends i (List.mem_range.mpr (getElem?_lt hi)) j (List.mem_range.mpr (getElem?_lt hj)) s (mem_dirs s)
    rw [hi, hj] at this
    simp only [Bool.and_eq_true, Bool.or_eq_true, bne_iff_ne, ne_eq, beq_iff_eq] at this
    rcases this.1 with h1 | h1
    · exact absurd ht h1
    · exact h1
  · intro i j ni nj s hst hi hj ht
    have := hends i (List.mem_range.mpr (getElem?_lt hi)) j (List.mem_range.mpr (getElem?_lt hj)) s (mem_dirs s)
    rw [hi, hj] at this
    simp only [Bool.and_eq_true, Bool.or_eq_true, bne_iff_ne, ne_eq, beq_iff_eq, hst, Bool.false_eq_true, false_or] at this
    rcases this.2 with h1 | h1
    · exact absurd ht h1
    · exact h1
  · intro u v nu nv d s b f hu hv hb hl
    have := hrec u (List.mem_range.mpr (getElem?_lt hu)) d (mem_dirs d) b (mem_base4 b)
    rw [hu] at this
    simp only [Bool.or_eq_true, Bool.not_eq_true'] at this
    rcases this with h1 | h1
    · have := (hasExt_iff nu.exts d b).mpr hb
      rw [h1] at this; cases this
    · rw [hl] at h1
      simp only [hv, Bool.or_eq_true, Bool.and_eq_true] at h1
      rcases h1 with h2 | ⟨h2, h3⟩
      · exact Or.inl ((hasExt_iff _ _ _).mp h2)
      · exact Or.inr ⟨palNodeB_sound g v h2, (hasExt_iff _ _ _).mp h3⟩

end Graph

namespace Graph
open Compress (Seq Base Exts rc extend Node recip)
open Walk (Dir)
open Filter (has hasExt_iff)
variable {D : Type}

/-- **the reciprocal base leads back**: if extending the end of `u` on side `d` by `b` resolves to `(v, s, f)`, then
    extending the end of `v` on side `s` by the reciprocal base resolves to `u`; and if `v` is a palindromic single-k-mer
    node, so does extending its other side by the complemented reciprocal base -/
theorem back_link (g : G D) (hg : SeqInv g) (u v : Nat) (nu nv : Node D) (d s : Dir) (b : Base) (f : Bool)
    (hu : g.nodes[u]? = some nu) (hv : g.nodes[v]? = some nv)
    (hl : findLink g (extend (termKmer g.K nu.seq d) b d) d = some (v, s, f)) :
    (∃ d' f', findLink g (extend (termKmer g.K nv.seq s) (recip (termKmer g.K nu.seq d) d f) s) s = some (u, d', f') ∧
      (d' = d ∨ (g.stranded = false ∧ nu.seq.length = g.K ∧ rc nu.seq = nu.seq))) ∧
    (PalNode g v → ∃ d' f', findLink g (extend (termKmer g.K nv.seq s.flip)
        (Compress.comp (recip (termKmer g.K nu.seq d) d f)) s.flip) s.flip = some (u, d', f')) := by
  obtain ⟨nv', hv', hterm, hf0, hf1⟩ := findLink_sound g _ _ _ _ _ hl
  rw [hv] at hv'; cases hv'
  have hne := termKmer_ne_nil g hg u nu hu d
  generalize ht : termKmer g.K nu.seq d = t at *
  constructor
  · cases f with
    | false =>
      have hs : s = d.flip := hf0 rfl
      subst hs
      simp only [Bool.false_eq_true, if_false] at hterm
      have hk : extend (termKmer g.K nv.seq d.flip) (recip t d false) d.flip = t := by rw [hterm, Compress.extend_back _ b d hne]
      exact ⟨d, false, by rw [hk, ← ht]; exact lookup_direct g hg u nu hu d, Or.inl rfl⟩
    | true =>
      obtain ⟨hs, hst⟩ := hf1 rfl
      subst hs
      simp only [if_true] at hterm
      have hk : extend (termKmer g.K nv.seq s) (recip t s true) s = rc t := by rw [hterm, Compress.extend_back_flip _ b s hne]
      rcases lookup_flipped g hg hst u nu hu s with h1 | ⟨hlen, hrcu, h1⟩
      · exact ⟨s, true, by rw [hk, ← ht]; exact h1, Or.inl rfl⟩
      · exact ⟨s.flip, false, by rw [hk, ← ht]; exact h1, Or.inr ⟨hst, hlen, hrcu⟩⟩
  · intro hpal
    obtain ⟨nv', hv', hst, hvl, hvp⟩ := hpal
    rw [hv] at hv'; cases hv'
    have hx : ∀ side, termKmer g.K nv.seq side = nv.seq := by
      intro side
      cases side with
      | L => show nv.seq.take g.K = nv.seq; rw [← hvl, List.take_length]
      | R => show nv.seq.drop (nv.seq.length - g.K) = nv.seq; rw [hvl, Nat.sub_self, List.drop_zero]
    rw [hx] at hterm
    have hkm : extend t b d = nv.seq ∧ rc (extend t b d) = nv.seq := by
      cases f with
      | false => simp only [Bool.false_eq_true, if_false] at hterm; exact ⟨hterm.symm, by rw [← hterm]; exact hvp⟩
      | true =>
        simp only [if_true] at hterm
        have : extend t b d = rc nv.seq := by rw [hterm, Compress.rc_rc]
        exact ⟨by rw [this, hvp], hterm.symm⟩
    cases f with
    | false =>
      have hs : s = d.flip := hf0 rfl
      subst hs
      have hk : extend (termKmer g.K nv.seq d.flip.flip) (Compress.comp (recip t d false)) d.flip.flip = rc t := by
        rw [hx, Dir.flip_flip, ← hkm.2]
        exact Compress.extend_back_flip t b d hne
      rcases lookup_flipped g hg hst u nu hu d with h1 | ⟨_, _, h1⟩
      · exact ⟨d, true, by rw [hk, Dir.flip_flip, ← ht]; exact h1⟩
      · exact ⟨d.flip, false, by rw [hk, Dir.flip_flip, ← ht]; exact h1⟩
    | true =>
      obtain ⟨hs, _⟩ := hf1 rfl
      subst hs
      have hcc : Compress.comp (recip t s true) = recip t s false := by
        unfold recip; simp only [if_true, Bool.false_eq_true, if_false]
        exact Filter.comp_comp _
      have hk : extend (termKmer g.K nv.seq s.flip) (Compress.comp (recip t s true)) s.flip = t := by
        rw [hx, hcc, ← hkm.1]
        exact Compress.extend_back t b s hne
      exact ⟨s, false, by rw [hk, ← ht]; exact lookup_direct g hg u nu hu s⟩

end Graph
