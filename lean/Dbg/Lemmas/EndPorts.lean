import Dbg.Lemmas.GInvCompress
import Dbg.Lemmas.Ports
import Dbg.Lemmas.Final
/-! Every extension recorded at an end of a node whose target k-mer is in the table leads to an end of a node: the
    target k-mer is the port of its node on the facing side.  (This is what makes `find_link` complete: it looks only
    at node ends.) -/
namespace Compress
open Walk (Dir rm)
open Filter (has hasExt_iff ExtSym2)
variable {D : Type}

/-- provenance of the nodes, aligned with the output: the availability list and the seed each node was built from -/
theorem compressLoopC_provs (T : Table D) (st : Bool) (join : D → D → Bool) (reduce : D → D → D) :
    ∀ (is avail : List Nat) (out : List (Node D × List Nat)), (∀ i ∈ is, i < T.length) →
      compressLoopC T st join reduce is avail = some out →
      ∃ provs : List (List Nat × Nat), provs.length = out.length ∧
        ∀ (i : Nat) (x : Node D × List Nat) (pr : List Nat × Nat), out[i]? = some x → provs[i]? = some pr →
          pr.2 < T.length ∧ pr.2 ∈ pr.1 ∧ ∃ a', buildNodeC T st join reduce pr.1 pr.2 = some (x.1, x.2, a') := by
  intro is
  induction is with
  | nil =>
    intro avail out _ h
    simp only [compressLoopC, Option.some.injEq] at h
    subst h
    exact ⟨[], rfl, fun i x pr hx _ => by simp at hx⟩
  | cons i is ih =>
    intro avail out hr h
    have hi : i < T.length := hr i (by simp)
    have hrest : ∀ j ∈ is, j < T.length := fun j hj => hr j (by simp [hj])
    unfold compressLoopC at h
    by_cases hmem : i ∈ avail
    · rw [if_pos hmem] at h
      cases hb : buildNodeC T st join reduce avail i with
      | none => rw [hb] at h; cases h
      | some r =>
        obtain ⟨nd, ids, a'⟩ := r
        rw [hb] at h
        simp only at h
        cases hrec : compressLoopC T st join reduce is a' with
        | none => rw [hrec] at h; cases h
        | some rest =>
          rw [hrec] at h
          simp only [Option.some.injEq] at h
          subst h
          obtain ⟨provs, hl, hp⟩ := ih a' rest hrest hrec
          refine ⟨(avail, i) :: provs, by simp [hl], ?_⟩
          intro j x pr hx hpr
          cases j with
          | zero =>
            simp only [List.getElem?_cons_zero, Option.some.injEq] at hx hpr
            subst hx; subst hpr
            exact ⟨hi, hmem, a', hb⟩
          | succ j =>
            rw [List.getElem?_cons_succ] at hx hpr
            exact hp j x pr hx hpr
    · rw [if_neg hmem] at h
      exact ih avail out hrest h

/-- **stepping back.** If `x` records `b` on side `δ`, the target `y` is in the table, and `y` has a good link on the
    facing side, then that link leads back to `x`, arriving on side `δ`. -/
theorem link_back {T : Table D} {K : Nat} {st : Bool} {join : D → D → Bool} (wf : WF T K st) (hes2 : ExtSym2 T st)
    (x : Nat) (ex : Entry D) (δ : Dir) (b : Base) (y : Nat) (hx : T[x]? = some ex) (hb : has ex.exts δ b)
    (hy : findId T (canonSt st (extend ex.key b δ)).1 = some y) (w' : Nat) (d' : Dir)
    (hl : linkOf T st join y (condFlip δ.flip (canonSt st (extend ex.key b δ)).2) = some (w', d')) :
    w' = x ∧ d'.flip = δ := by
  obtain ⟨ey, ew, b', F⟩ := linkOf_inv T st join hl
  obtain ⟨ey', hy', hkey⟩ := findId_some hy
  have e1 : ey' = ey := by rw [F.hx] at hy'; exact (Option.some.inj hy').symm
  subst e1
  have hxne : ex.key ≠ [] := by
    intro e
    have := wf.len x ex hx
    rw [e] at this
    have := wf.kpos
    simp at *; omega
  -- `y` records the reciprocal base on the facing side, and it is its only extension there
  have hrec : has ey'.exts (condFlip δ.flip (canonSt st (extend ex.key b δ)).2) (recip ex.key δ (canonSt st (extend ex.key b δ)).2) := by
    rcases hes2 x ex δ b y ey' hx hb hy F.hx with h | ⟨hp, _⟩
    · exact h
    · rw [F.palx] at hp; cases hp
  have hby := wf.ext8 y ey' F.hx
  have ty := nib_table ⟨ey'.exts.dirBits (condFlip δ.flip (canonSt st (extend ex.key b δ)).2), dirBits_lt _ hby _⟩
    (recip ex.key δ (canonSt st (extend ex.key b δ)).2)
  have hu := ty.1 F.cntx hrec
  have hb' : b' = recip ex.key δ (canonSt st (extend ex.key b δ)).2 := by
    have := F.uniq
    rw [hu] at this
    exact (Option.some.inj this).symm
  subst hb'
  have hfind := F.hfind
  have hpal := F.paly
  have hd' := F.hd'
  rw [hkey] at hfind hpal hd'
  have hk := Filter.canon_back_key (st := st) (x := ex.key) (b := b) (d := δ) hxne (fun h => wf.canon h x ex hx)
  rw [hk] at hfind hpal
  have hself := findId_self wf hx
  rw [hself] at hfind
  have hwx : w' = x := (Option.some.inj hfind).symm
  have hback := canon_back (b := b) (d := δ) hxne (fun h => wf.canon h x ex hx) hpal
  rw [hback] at hd'
  simp only at hd'
  rw [condFlip_condFlip] at hd'
  refine ⟨hwx, ?_⟩
  rw [hd', Dir.flip_flip]

theorem nodePort_mem (T : Table D) (st : Bool) (join : D → D → Bool) (avail : List Nat) (seed : Nat) (s : Dir) :
    (nodePort T st join avail seed s).1 ∈ (Walk.build (linkOf T st join) avail seed).1 := by
  have hb : (Walk.build (linkOf T st join) avail seed).1 =
      ((leftW T st join avail seed).1.map Prod.fst).reverse ++ [seed] ++ (rightW T st join avail seed).1.map Prod.fst := rfl
  rw [hb]
  cases s with
  | L =>
    show (lastPort (leftW T st join avail seed).1 seed .L).1 ∈ _
    rcases lastPort_mem (leftW T st join avail seed).1 seed .L with h | h
    · rw [h]; simp
    · simp only [List.mem_append, List.mem_reverse, List.mem_map, List.mem_cons, List.mem_nil_iff, or_false]
      exact Or.inl (Or.inl ⟨_, h, rfl⟩)
  | R =>
    show (lastPort (rightW T st join avail seed).1 seed .R).1 ∈ _
    rcases lastPort_mem (rightW T st join avail seed).1 seed .R with h | h
    · rw [h]; simp
    · simp only [List.mem_append, List.mem_reverse, List.mem_map, List.mem_cons, List.mem_nil_iff, or_false]
      exact Or.inr ⟨_, h, rfl⟩

/-- the output of `compress_kmers` with its provenance and the facts of the id-level partition -/
structure Built (T : Table D) (K : Nat) (st : Bool) (join : D → D → Bool) (reduce : D → D → D)
    (out : List (Node D × List Nat)) (provs : List (List Nat × Nat)) : Prop where
  len : provs.length = out.length
  prov : ∀ (i : Nat) (x : Node D × List Nat) (pr : List Nat × Nat), out[i]? = some x → provs[i]? = some pr →
    pr.2 < T.length ∧ pr.2 ∈ pr.1 ∧ ∃ a', buildNodeC T st join reduce pr.1 pr.2 = some (x.1, x.2, a')
  ids : ∀ (i : Nat) (x : Node D × List Nat) (pr : List Nat × Nat), out[i]? = some x → provs[i]? = some pr →
    x.2 = (Walk.build (linkOf T st join) pr.1 pr.2).1
  nodup : (out.flatMap (·.2)).Nodup
  cover : ∀ z, z < T.length → ∃ x ∈ out, z ∈ x.2

theorem built_of_compress {T : Table D} {K : Nat} {st : Bool} {join : D → D → Bool} (reduce : D → D → D)
    (wf : WF T K st) (hes : ExtSym T st) (hj : ∀ a b, join a b = join b a)
    (out : List (Node D × List Nat)) (ho : compressKmersC T st join reduce = some out) :
    ∃ provs, Built T K st join reduce out provs := by
  obtain ⟨provs, hl, hp⟩ := compressLoopC_provs T st join reduce (List.range T.length) (List.range T.length) out
    (fun i hi => List.mem_range.mp hi) ho
  obtain ⟨out', ho', hm, _⟩ := compressLoopC_spec (join := join) reduce wf hes (List.range T.length) (List.range T.length)
    (fun i hi => List.mem_range.mp hi)
  have : out' = out := by
    have h1 : compressKmersC T st join reduce = some out' := ho'
    rw [ho] at h1; exact (Option.some.inj h1).symm
  subst this
  obtain ⟨hnd, hcov, _⟩ := compress_components_concrete wf hes hj
  rw [← hm] at hnd hcov
  have hfl : (out'.map (·.2)).flatten = out'.flatMap (·.2) := by rw [List.flatMap_def]
  refine ⟨provs, hl, hp, ?_, by rw [← hfl]; exact hnd, ?_⟩
  · intro i x pr hx hpr
    obtain ⟨hlt, _, a', hb⟩ := hp i x pr hx hpr
    obtain ⟨nd, hb', _⟩ := buildNodeC_spec (join := join) reduce wf hes pr.1 pr.2 T[pr.2] (List.getElem?_eq_getElem hlt)
    rw [hb] at hb'
    simp only [Option.some.injEq, Prod.mk.injEq] at hb'
    exact hb'.2.1
  · intro z hz
    have := (hcov z).mpr hz
    rw [hfl, List.mem_flatMap] at this
    exact this

/-- **the target of a recorded extension is a node end.** In the output of `compress_kmers` on a well-formed table with
    reciprocal extensions: if the k-mer at the end `s` of a node records base `b` outwards and the k-mer it leads to is
    in the table, then that k-mer is itself at an end of its node, on the side facing back. -/
theorem ext_target_port {T : Table D} {K : Nat} {st : Bool} {join : D → D → Bool} (reduce : D → D → D)
    (wf : WF T K st) (hes2 : ExtSym2 T st) (hj : ∀ a b, join a b = join b a)
    (out : List (Node D × List Nat)) (provs : List (List Nat × Nat)) (hB : Built T K st join reduce out provs)
    (i : Nat) (X : Node D × List Nat) (prX : List Nat × Nat) (hX : out[i]? = some X) (hpX : provs[i]? = some prX) (s : Dir)
    (ex : Entry D) (hex : T[(nodePort T st join prX.1 prX.2 s).1]? = some ex)
    (b : Base) (hb : has ex.exts (nodePort T st join prX.1 prX.2 s).2 b)
    (y : Nat) (hy : findId T (canonSt st (extend ex.key b (nodePort T st join prX.1 prX.2 s).2)).1 = some y) :
    ∃ (j : Nat) (Y : Node D × List Nat) (prY : List Nat × Nat) (s' : Dir), out[j]? = some Y ∧ provs[j]? = some prY ∧
      nodePort T st join prY.1 prY.2 s' =
        (y, condFlip (nodePort T st join prX.1 prX.2 s).2.flip (canonSt st (extend ex.key b (nodePort T st join prX.1 prX.2 s).2)).2) := by
  have hes := hes2.toExtSym
  have hs := linkOf_sym wf hes hj
  obtain ⟨ey, hey, _⟩ := findId_some hy
  have hylt : y < T.length := (List.getElem?_eq_some_iff.mp hey).1
  obtain ⟨Y, hYm, hyY⟩ := hB.cover y hylt
  obtain ⟨j, hj', hYj⟩ := List.getElem_of_mem hYm
  have hY : out[j]? = some Y := by rw [List.getElem?_eq_getElem hj', hYj]
  have hjp : j < provs.length := by rw [hB.len]; exact hj'
  obtain ⟨prY, hpY⟩ : ∃ pr, provs[j]? = some pr := ⟨_, List.getElem?_eq_getElem hjp⟩
  obtain ⟨_, hseedY, _, _⟩ := hB.prov j Y prY hY hpY
  have hidsY := hB.ids j Y prY hY hpY
  generalize hp : nodePort T st join prX.1 prX.2 s = p at *
  generalize hδ' : condFlip p.2.flip (canonSt st (extend ex.key b p.2)).2 = δ' at *
  by_cases hL : (y, δ') = lastPort (Walk.walk (linkOf T st join) (rm prY.1 prY.2) prY.2 .L).1 prY.2 .L
  · exact ⟨j, Y, prY, .L, hY, hpY, hL.symm⟩
  by_cases hR : (y, δ') = lastPort (Walk.walk (linkOf T st join) (Walk.walk (linkOf T st join) (rm prY.1 prY.2) prY.2 .L).2 prY.2 .R).1 prY.2 .R
  · exact ⟨j, Y, prY, .R, hY, hpY, hR.symm⟩
  -- otherwise the port is interior: its link leads back to `x`, whose port would be interior as well
  exfalso
  rw [hidsY] at hyY
  obtain ⟨w', d', hl, hw', n1, n2⟩ := build_inner (linkOf T st join) hs prY.1 prY.2 hseedY y hyY δ' hL hR
  rw [← hδ'] at hl
  obtain ⟨hwx, hdx⟩ := link_back wf hes2 p.1 ex p.2 b y hex hb hy w' d' hl
  -- `x` lies in `X` and in `Y`
  have hxX : p.1 ∈ X.2 := by
    rw [hB.ids i X prX hX hpX, ← hp]; exact nodePort_mem T st join prX.1 prX.2 s
  have hxY : p.1 ∈ Y.2 := by rw [hidsY, ← hwx]; exact hw'
  obtain ⟨_, hidx⟩ := nodup_flatMap_index out (·.2) hB.nodup
  have hi' : i < out.length := (List.getElem?_eq_some_iff.mp hX).1
  have eX : out[i] = X := by rw [List.getElem?_eq_getElem hi'] at hX; exact Option.some.inj hX
  have eY : out[j] = Y := hYj
  have hij : i = j := hidx i j hi' hj' p.1 (by rw [eX]; exact hxX) (by rw [eY]; exact hxY)
  subst hij
  rw [hpX] at hpY
  have : prX = prY := Option.some.inj hpY
  subst this
  have hport : (w', d'.flip) = p := by rw [hwx, hdx]
  rw [hport] at n1 n2
  cases s with
  | L => exact n1 hp.symm
  | R => exact n2 hp.symm

end Compress
