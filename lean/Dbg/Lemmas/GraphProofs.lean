import Dbg.Lemmas.FilterSym
import Dbg.Spec.C03
import Dbg.Lemmas.GraphLink
/-! Facts about the finished graph: `get_valid_exts` is exact. -/
namespace Graph
open Compress (Seq Base Exts rc extend Node)
open Walk (Dir)
open Filter (has has_set hasExt_iff has_zero)
variable {D : Type}

/-- the test `get_valid_exts` applies to extension `b` on side `d` of a node -/
def extOk (g : G D) (nd : Node D) (valid : Option (List Nat)) (d : Dir) (b : Base) : Prop :=
  ∃ t s f, findLink g (extend (termKmer g.K nd.seq d) b d) d = some (t, s, f) ∧
    (match valid with | some vs => vs.contains t | none => true) = true

def gveStep (g : G D) (nd : Node D) (chk : Nat → Bool) (acc : Exts) (b : Base) : Exts :=
  let acc := if nd.exts.hasExt .L b.val then
      (match findLink g (Compress.extendLeft (termKmer g.K nd.seq .L) b) .L with
       | some (t, _, _) => if chk t then Exts.set acc .L b.val else acc
       | none => acc) else acc
  if nd.exts.hasExt .R b.val then
      (match findLink g (Compress.extendRight (termKmer g.K nd.seq .R) b) .R with
       | some (t, _, _) => if chk t then Exts.set acc .R b.val else acc
       | none => acc) else acc

theorem getValidExts_eq (g : G D) (id : Nat) (valid : Option (List Nat)) (nd : Node D) (h : g.nodes[id]? = some nd) :
    getValidExts g id valid =
      some (base4.foldl (gveStep g nd (fun t => match valid with | some vs => vs.contains t | none => true)) ⟨0⟩) := by
  unfold getValidExts
  rw [h]
  rfl

/-- one side of one step -/
def sideStep (g : G D) (nd : Node D) (chk : Nat → Bool) (acc : Exts) (d : Dir) (b : Base) : Exts :=
  if nd.exts.hasExt d b.val then
    (match findLink g (extend (termKmer g.K nd.seq d) b d) d with
     | some (t, _, _) => if chk t then Exts.set acc d b.val else acc
     | none => acc) else acc

theorem gveStep_eq (g : G D) (nd : Node D) (chk : Nat → Bool) (acc : Exts) (b : Base) :
    gveStep g nd chk acc b = sideStep g nd chk (sideStep g nd chk acc .L b) .R b := rfl

theorem side_step (g : G D) (nd : Node D) (valid : Option (List Nat)) (acc : Exts) (d : Dir) (b : Base) (d' : Dir) (b' : Base) :
    has (sideStep g nd (fun t => match valid with | some vs => vs.contains t | none => true) acc d b) d' b' ↔
      has acc d' b' ∨ (d' = d ∧ b' = b ∧ has nd.exts d b ∧ extOk g nd valid d b) := by
  unfold sideStep
  by_cases hh : nd.exts.hasExt d b.val = true
  · rw [if_pos hh]
    have hh' := (hasExt_iff nd.exts d b).mp hh
    cases hl : findLink g (extend (termKmer g.K nd.seq d) b d) d with
    | none =>
      simp only
      constructor
      · exact Or.inl
      · rintro (h | ⟨_, _, _, t, s, f, e, _⟩)
        · exact h
        · rw [hl] at e; cases e
    | some tsf =>
      obtain ⟨t, s, f⟩ := tsf
      simp only
      by_cases hc : (match valid with | some vs => vs.contains t | none => true) = true
      · rw [if_pos hc, has_set]
        constructor
        · rintro (h | ⟨rfl, rfl⟩)
          · exact Or.inl h
          · exact Or.inr ⟨rfl, rfl, hh', t, s, f, hl, hc⟩
        · rintro (h | ⟨rfl, rfl, _, _⟩)
          · exact Or.inl h
          · exact Or.inr ⟨rfl, rfl⟩
      · rw [if_neg hc]
        constructor
        · exact Or.inl
        · rintro (h | ⟨_, _, _, t', s', f', e, hc'⟩)
          · exact h
          · rw [hl] at e; cases e; exact absurd hc' hc
  · rw [if_neg hh]
    constructor
    · exact Or.inl
    · rintro (h | ⟨_, _, h1, _⟩)
      · exact h
      · exact absurd ((hasExt_iff nd.exts d b).mpr h1) hh

theorem gveStep_has (g : G D) (nd : Node D) (valid : Option (List Nat)) (acc : Exts) (b : Base) (d' : Dir) (b' : Base) :
    has (gveStep g nd (fun t => match valid with | some vs => vs.contains t | none => true) acc b) d' b' ↔
      has acc d' b' ∨ (b' = b ∧ has nd.exts d' b ∧ extOk g nd valid d' b) := by
  rw [gveStep_eq, side_step, side_step]
  constructor
  · rintro ((h | ⟨rfl, rfl, h1, h2⟩) | ⟨rfl, rfl, h1, h2⟩)
    · exact Or.inl h
    · exact Or.inr ⟨rfl, h1, h2⟩
    · exact Or.inr ⟨rfl, h1, h2⟩
  · rintro (h | ⟨rfl, h1, h2⟩)
    · exact Or.inl (Or.inl h)
    · cases d' with
      | L => exact Or.inl (Or.inr ⟨rfl, rfl, h1, h2⟩)
      | R => exact Or.inr ⟨rfl, rfl, h1, h2⟩

/-- **`get_valid_exts` is exact**: an extension is reported iff it is recorded, its extended terminal k-mer
    resolves to a node through `find_link`, and that node is valid -/
theorem getValidExts_exact (g : G D) (id : Nat) (valid : Option (List Nat)) (nd : Node D) (h : g.nodes[id]? = some nd) :
    ∃ e, getValidExts g id valid = some e ∧ ∀ d b, has e d b ↔ has nd.exts d b ∧ extOk g nd valid d b := by
  rw [getValidExts_eq g id valid nd h]
  refine ⟨_, rfl, fun d b => ?_⟩
  have key : ∀ (bs : List Base) (acc : Exts),
      has (bs.foldl (gveStep g nd (fun t => match valid with | some vs => vs.contains t | none => true)) acc) d b ↔
        has acc d b ∨ (b ∈ bs ∧ has nd.exts d b ∧ extOk g nd valid d b) := by
    intro bs
    induction bs with
    | nil => intro acc; simp
    | cons x t ih =>
      intro acc
      rw [List.foldl_cons, ih, gveStep_has]
      constructor
      · rintro ((h1 | ⟨rfl, h2⟩) | ⟨h3, h4⟩)
        · exact Or.inl h1
        · exact Or.inr ⟨by simp, h2⟩
        · exact Or.inr ⟨by simp [h3], h4⟩
      · rintro (h1 | ⟨h3, h4⟩)
        · exact Or.inl (Or.inl h1)
        · rcases List.mem_cons.mp h3 with rfl | ht
          · exact Or.inl (Or.inr ⟨rfl, h4⟩)
          · exact Or.inr ⟨ht, h4⟩
  rw [key]
  have hmem : b ∈ base4 := by
    rcases b with ⟨v, hv⟩
    have : v = 0 ∨ v = 1 ∨ v = 2 ∨ v = 3 := by omega
    rcases this with rfl | rfl | rfl | rfl <;> simp [base4]
  constructor
  · rintro (h1 | ⟨_, h2⟩)
    · exact absurd h1 (has_zero d b)
    · exact h2
  · intro h2; exact Or.inr ⟨hmem, h2⟩

end Graph

namespace Graph
open Compress (Seq Base Exts rc extend Node windowsOf)
open Walk (Dir)
variable {D : Type}

/-! ### `sequence_of_path` -/

theorem windowsOf_length' (K : Nat) (s : Seq) (h : K ≤ s.length) : (windowsOf K s).length = s.length - K + 1 := by
  unfold windowsOf; simp [show ¬ s.length < K by omega]

theorem windowsOf_getElem? (K : Nat) (s : Seq) (i : Nat) (h : K ≤ s.length) (hi : i < s.length - K + 1) :
    (windowsOf K s)[i]? = some ((s.drop i).take K) := by
  unfold windowsOf
  simp only [show ¬ s.length < K by omega, if_false]
  rw [List.getElem?_map, List.getElem?_range hi]; rfl

/-- k-mers of two sequences glued on a `K-1` overlap: those of the first, then those of the second -/
theorem windows_append_overlap (K : Nat) (a b : Seq) (hK : 1 ≤ K) (ha : K ≤ a.length) (hb : K ≤ b.length)
    (hov : a.drop (a.length - (K - 1)) = b.take (K - 1)) :
    windowsOf K (a ++ b.drop (K - 1)) = windowsOf K a ++ windowsOf K b := by
  have hlen : (a ++ b.drop (K - 1)).length = a.length + (b.length - (K - 1)) := by simp
  apply List.ext_getElem?
  intro j
  by_cases hj1 : j < a.length - K + 1
  · rw [windowsOf_getElem? K _ j (by rw [hlen]; omega) (by rw [hlen]; omega),
      List.getElem?_append_left (by rw [windowsOf_length' K a ha]; exact hj1), windowsOf_getElem? K a j ha hj1]
    congr 1
    rw [List.drop_append_of_le_length (by omega), List.take_append_of_le_length (by simp; omega)]
  · by_cases hj2 : j < a.length - K + 1 + (b.length - K + 1)
    · rw [windowsOf_getElem? K _ j (by rw [hlen]; omega) (by rw [hlen]; omega),
        List.getElem?_append_right (by rw [windowsOf_length' K a ha]; omega), windowsOf_length' K a ha,
        windowsOf_getElem? K b _ hb (by omega)]
      congr 2
      -- `a ++ b.drop (K-1)` is `a` without its last `K-1` bases, followed by the whole of `b`
      have hdec : a ++ b.drop (K - 1) = a.take (a.length - (K - 1)) ++ b := by
        conv => lhs; rw [← List.take_append_drop (a.length - (K - 1)) a, hov]
        rw [List.append_assoc, List.take_append_drop]
      rw [hdec, List.drop_append]
      have hl0 : (a.take (a.length - (K - 1))).length = a.length - K + 1 := by rw [List.length_take]; omega
      rw [List.drop_eq_nil_of_le (by rw [hl0]; omega), List.nil_append, hl0]
    · rw [List.getElem?_eq_none (by rw [windowsOf_length' K _ (by rw [hlen]; omega), hlen]; omega),
        List.getElem?_eq_none (by rw [List.length_append, windowsOf_length' K a ha, windowsOf_length' K b hb]; omega)]

/-- the sequence of a path entry in walking orientation -/
def oseq (g : G D) (p : Nat × Dir) : Seq :=
  match g.nodes[p.1]? with
  | some n => (match p.2 with | .L => n.seq | .R => rc n.seq)
  | none => []

/-- consecutive entries overlap by `K-1` bases -/
def Ov (g : G D) (p q : Nat × Dir) : Prop :=
  (oseq g p).drop ((oseq g p).length - (g.K - 1)) = (oseq g q).take (g.K - 1)

def ChainOv (g : G D) : Nat × Dir → List (Nat × Dir) → Prop
  | _, [] => True
  | p, q :: rest => Ov g p q ∧ ChainOv g q rest

theorem orientedKmers_eq (g : G D) (p : Nat × Dir) (h : (g.nodes[p.1]?).isSome) : orientedKmers g p = windowsOf g.K (oseq g p) := by
  unfold orientedKmers oseq
  cases hn : g.nodes[p.1]? with
  | none => rw [hn] at h; cases h
  | some n => rfl

theorem seqStep_some (g : G D) (S : Seq) (p : Nat × Dir) (k : Nat) (h : (g.nodes[p.1]?).isSome) :
    seqStep g (some S) (p, k) = some (S ++ (oseq g p).drop (if k = 0 then 0 else g.K - 1)) := by
  unfold seqStep oseq
  cases hn : g.nodes[p.1]? with
  | none => rw [hn] at h; cases h
  | some n => rfl

theorem fold_tail (g : G D) (hK : 1 ≤ g.K) (rest : List (Nat × Dir)) :
    ∀ (k : Nat) (S S0 : Seq) (prev : Nat × Dir), 1 ≤ k → S = S0 ++ oseq g prev → g.K ≤ (oseq g prev).length →
      ChainOv g prev rest → (∀ p ∈ rest, (g.nodes[p.1]?).isSome ∧ g.K ≤ (oseq g p).length) →
      ∃ S', (rest.zipIdx k).foldl (seqStep g) (some S) = some S' ∧
        windowsOf g.K S' = windowsOf g.K S ++ rest.flatMap (orientedKmers g) := by
  induction rest with
  | nil => intro k S S0 prev _ _ _ _ _; exact ⟨S, rfl, by simp⟩
  | cons q rest ih =>
    intro k S S0 prev hk hS hprev hch hall
    obtain ⟨hov, hch'⟩ := hch
    obtain ⟨hq1, hq2⟩ := hall q (by simp)
    rw [List.zipIdx_cons, List.foldl_cons, seqStep_some g S q k hq1, if_neg (by omega)]
    -- the new accumulator ends with the whole oriented sequence of `q`
    have hP : (oseq g prev) = (oseq g prev).take ((oseq g prev).length - (g.K - 1)) ++ (oseq g q).take (g.K - 1) := by
      conv => lhs; rw [← List.take_append_drop ((oseq g prev).length - (g.K - 1)) (oseq g prev)]
      rw [hov]
    have hS' : S ++ (oseq g q).drop (g.K - 1) = (S0 ++ (oseq g prev).take ((oseq g prev).length - (g.K - 1))) ++ oseq g q := by
      rw [hS]
      conv => lhs; rw [hP]
      simp only [List.append_assoc]
      rw [List.take_append_drop]
    obtain ⟨S', e, w⟩ := ih (k + 1) _ _ q (by omega) hS' hq2 hch' (fun p hp => hall p (by simp [hp]))
    refine ⟨S', e, ?_⟩
    rw [w, List.flatMap_cons, orientedKmers_eq g q hq1, ← List.append_assoc]
    congr 1
    -- k-mers of the glued sequence
    have hSlen : g.K ≤ S.length := by rw [hS]; simp; omega
    apply windows_append_overlap g.K S (oseq g q) hK hSlen hq2
    rw [hS]
    have : (S0 ++ oseq g prev).length - (g.K - 1) = S0.length + ((oseq g prev).length - (g.K - 1)) := by simp; omega
    rw [this, List.drop_append]
    simp only [List.drop_eq_nil_of_le (Nat.le_add_right _ _), List.nil_append, Nat.add_sub_cancel_left]
    exact hov

/-- **`sequence_of_path`**: for a path whose consecutive oriented node sequences overlap by `K-1` bases, the spelled
    sequence's k-mers are exactly the walked nodes' k-mers, in order -/
theorem sequenceOfPath_kmers (g : G D) (hK : 1 ≤ g.K) (p0 : Nat × Dir) (rest : List (Nat × Dir))
    (h0 : (g.nodes[p0.1]?).isSome ∧ g.K ≤ (oseq g p0).length) (hch : ChainOv g p0 rest)
    (hall : ∀ p ∈ rest, (g.nodes[p.1]?).isSome ∧ g.K ≤ (oseq g p).length) :
    ∃ S, sequenceOfPath g (p0 :: rest) = some S ∧ windowsOf g.K S = (p0 :: rest).flatMap (orientedKmers g) := by
  unfold sequenceOfPath
  rw [List.zipIdx_cons, List.foldl_cons, seqStep_some g [] p0 0 h0.1]
  simp only [if_true, List.drop_zero, List.nil_append]
  obtain ⟨S, e, w⟩ := fold_tail g hK rest (0 + 1) (oseq g p0) [] p0 (by omega) (by simp) h0.2 hch hall
  exact ⟨S, e, by rw [w, List.flatMap_cons, orientedKmers_eq g p0 h0.1]⟩

end Graph

namespace Graph
open Compress (Seq Base Exts rc extend extendLeft extendRight Node windowsOf)
open Walk (Dir)
variable {D : Type}

theorem rc_take (s : Seq) (n : Nat) : rc (s.take n) = (rc s).drop (s.length - n) := by
  unfold rc; rw [List.map_take, List.reverse_take, List.length_map]
theorem rc_drop (s : Seq) (n : Nat) : rc (s.drop n) = (rc s).take (s.length - n) := by
  unfold rc; rw [List.map_drop, List.reverse_drop, List.length_map]

/-- **an edge is a `K-1` overlap in walking orientation**: leaving `(a, da)` through the side opposite to its incoming
    side along a reported edge `(b, db, f)` arrives at an entry whose oriented sequence starts with the last `K-1` bases
    of the oriented sequence of `a` -/
theorem edge_overlap (g : G D) (hK : 1 ≤ g.K) (a : Nat) (da : Dir) (es : List (Nat × Dir × Bool))
    (hes : findEdges g a da.flip = some es) (b : Nat) (db : Dir) (f : Bool) (he : (b, db, f) ∈ es)
    (hla : ∀ n, g.nodes[a]? = some n → g.K ≤ n.seq.length) (hlb : ∀ n, g.nodes[b]? = some n → g.K ≤ n.seq.length) :
    Ov g (a, da) (b, db) := by
  -- the edge comes from an extension base `x` of `a` resolved by `find_link`
  unfold findEdges at hes
  cases hn : g.nodes[a]? with
  | none => rw [hn] at hes; cases hes
  | some u =>
    rw [hn] at hes
    simp only [Option.some.injEq] at hes
    subst hes
    rw [List.mem_filterMap] at he
    obtain ⟨x, _, hx⟩ := he
    by_cases hh : u.exts.hasExt da.flip x.val = true
    · rw [if_pos hh] at hx
      obtain ⟨v, hv, hterm, hf0, hf1⟩ := findLink_sound g _ _ _ _ _ hx
      have hul := hla u hn
      have hvl := hlb v hv
      unfold Ov oseq
      simp only [hn, hv]
      cases da with
      | L =>
        -- `a` is spelled forward and left through its right end
        simp only [Dir.flip] at hterm hf0 hf1 hx
        have hkm : (extend (termKmer g.K u.seq .R) x .R).take (g.K - 1) = u.seq.drop (u.seq.length - (g.K - 1)) := by
          show (extendRight (u.seq.drop (u.seq.length - g.K)) x).take (g.K - 1) = _
          unfold extendRight
          rw [List.take_append_of_le_length (by simp; omega), List.tail_drop, List.take_of_length_le (by simp; omega)]
          congr 1; omega
        cases f with
        | false =>
          have := hf0 rfl; subst this
          simp only [Bool.false_eq_true, if_false] at hterm
          rw [← hkm, ← hterm]
          show (v.seq.take g.K).take (g.K - 1) = v.seq.take (g.K - 1)
          rw [List.take_take, Nat.min_eq_left (by omega)]
        | true =>
          have := (hf1 rfl).1; subst this
          simp only [if_true] at hterm
          rw [← hkm]
          have : extend (termKmer g.K u.seq .R) x .R = rc (termKmer g.K v.seq .R) := by rw [hterm, Compress.rc_rc]
          rw [this]
          show (rc (v.seq.drop (v.seq.length - g.K))).take (g.K - 1) = (rc v.seq).take (g.K - 1)
          rw [rc_drop, List.take_take, Nat.min_eq_left (by omega)]
      | R =>
        -- `a` is spelled reverse-complemented and left through its left end
        simp only [Dir.flip] at hterm hf0 hf1 hx
        have hkm : (rc (extend (termKmer g.K u.seq .L) x .L)).take (g.K - 1) = (rc u.seq).drop ((rc u.seq).length - (g.K - 1)) := by
          show (rc (extendLeft (u.seq.take g.K) x)).take (g.K - 1) = _
          rw [Compress.rc_extendLeft]
          unfold extendRight
          rw [List.take_append_of_le_length (by simp; omega), rc_take, List.tail_drop, Compress.rc_length,
            List.take_of_length_le (by simp; omega)]
          congr 1; omega
        cases f with
        | false =>
          have := hf0 rfl; subst this
          simp only [Bool.false_eq_true, if_false] at hterm
          rw [← hkm, ← hterm]
          show (rc (v.seq.drop (v.seq.length - g.K))).take (g.K - 1) = (rc v.seq).take (g.K - 1)
          rw [rc_drop, List.take_take, Nat.min_eq_left (by omega)]
        | true =>
          have := (hf1 rfl).1; subst this
          simp only [if_true] at hterm
          rw [← hkm, ← hterm]
          show (v.seq.take g.K).take (g.K - 1) = v.seq.take (g.K - 1)
          rw [List.take_take, Nat.min_eq_left (by omega)]
    · rw [if_neg hh] at hx; cases hx

end Graph

namespace Graph
open Compress (Seq Base Exts rc extend extendLeft extendRight Node windowsOf)
open Walk (Dir)
variable {D : Type}

theorem oseq_flip (g : G D) (x : Nat) (d : Dir) : oseq g (x, d.flip) = rc (oseq g (x, d)) := by
  unfold oseq
  cases g.nodes[x]? with
  | none => rfl
  | some n => cases d <;> simp [Dir.flip, Compress.rc_rc]

/-- the overlap relation read from the other strand -/
theorem Ov_flip (g : G D) (a b : Nat × Dir) (ha : g.K - 1 ≤ (oseq g a).length) (hb : g.K - 1 ≤ (oseq g b).length)
    (h : Ov g (b.1, b.2.flip) (a.1, a.2.flip)) : Ov g a b := by
  unfold Ov at h ⊢
  rw [oseq_flip, oseq_flip] at h
  have h' := congrArg rc h
  rw [rc_drop, rc_take, Compress.rc_rc, Compress.rc_rc, Compress.rc_length, Compress.rc_length] at h'
  rw [show (oseq g (b.1, b.2)).length - ((oseq g (b.1, b.2)).length - (g.K - 1)) = g.K - 1 by
    have : g.K - 1 ≤ (oseq g (b.1, b.2)).length := hb
    omega] at h'
  exact h'.symm

/-- a step of a walk follows a reported edge, in either direction (the statement of `stepValid`) -/
def StepOK (g : G D) (a b : Nat × Dir) : Prop :=
  (∃ es f, findEdges g a.1 a.2.flip = some es ∧ (b.1, b.2, f) ∈ es) ∨
  (∃ es f, findEdges g b.1 b.2 = some es ∧ (a.1, a.2.flip, f) ∈ es)

def ChainStep (g : G D) : Nat × Dir → List (Nat × Dir) → Prop
  | _, [] => True
  | p, q :: rest => StepOK g p q ∧ ChainStep g q rest

theorem oseq_length (g : G D) (p : Nat × Dir) (n : Node D) (h : g.nodes[p.1]? = some n) : (oseq g p).length = n.seq.length := by
  unfold oseq; rw [h]; cases p.2 <;> simp

theorem step_overlap (g : G D) (hK : 1 ≤ g.K) (a b : Nat × Dir) (h : StepOK g a b)
    (hl : ∀ (i : Nat) (n : Node D), g.nodes[i]? = some n → g.K ≤ n.seq.length)
    (ha : (g.nodes[a.1]?).isSome) (hb : (g.nodes[b.1]?).isSome) : Ov g a b := by
  rcases h with ⟨es, f, he, hm⟩ | ⟨es, f, he, hm⟩
  · exact edge_overlap g hK a.1 a.2 es he b.1 b.2 f hm (hl a.1) (hl b.1)
  · obtain ⟨na, hna⟩ := Option.isSome_iff_exists.mp ha
    obtain ⟨nb, hnb⟩ := Option.isSome_iff_exists.mp hb
    apply Ov_flip g a b (by rw [oseq_length g a na hna]; have := hl a.1 na hna; omega)
      (by rw [oseq_length g b nb hnb]; have := hl b.1 nb hnb; omega)
    have := edge_overlap g hK b.1 b.2.flip es (by rw [Dir.flip_flip]; exact he) a.1 a.2.flip f hm (hl b.1) (hl a.1)
    exact this

/-- **walks spell their nodes**: for any walk whose steps follow reported edges (either direction), in a graph whose
    nodes have at least `K` bases, `sequence_of_path` never panics and the k-mers of the spelled sequence are exactly
    the walked nodes' k-mers in walking orientation, in order -/
theorem walk_sequence (g : G D) (hK : 1 ≤ g.K) (hl : ∀ (i : Nat) (n : Node D), g.nodes[i]? = some n → g.K ≤ n.seq.length)
    (p0 : Nat × Dir) (rest : List (Nat × Dir)) (h0 : (g.nodes[p0.1]?).isSome) (hall : ∀ p ∈ rest, (g.nodes[p.1]?).isSome)
    (hch : ChainStep g p0 rest) :
    ∃ S, sequenceOfPath g (p0 :: rest) = some S ∧ windowsOf g.K S = (p0 :: rest).flatMap (orientedKmers g) := by
  have hlen : ∀ p : Nat × Dir, (g.nodes[p.1]?).isSome → g.K ≤ (oseq g p).length := by
    intro p hp
    obtain ⟨n, hn⟩ := Option.isSome_iff_exists.mp hp
    rw [oseq_length g p n hn]; exact hl p.1 n hn
  have hov : ∀ (rest : List (Nat × Dir)) (p : Nat × Dir), (g.nodes[p.1]?).isSome → (∀ q ∈ rest, (g.nodes[q.1]?).isSome) →
      ChainStep g p rest → ChainOv g p rest := by
    intro rest
    induction rest with
    | nil => intro p _ _ _; trivial
    | cons q rest ih =>
      intro p hp hq hc
      exact ⟨step_overlap g hK p q hc.1 hl hp (hq q (by simp)), ih q (hq q (by simp)) (fun x hx => hq x (by simp [hx])) hc.2⟩
  exact sequenceOfPath_kmers g hK p0 rest ⟨h0, hlen p0 h0⟩ (hov rest p0 h0 hall hch)
    (fun p hp => ⟨hall p hp, hlen p (hall p hp)⟩)

end Graph

namespace Graph
open Compress (Seq Base Exts rc extend Node windowsOf)
open Walk (Dir)
variable {D : Type}

/-! ### `max_path` -/

theorem pickNext_mem (g : G D) (score : D → Int) (solid : D → Bool) (edges : List (Nat × Dir × Bool)) (id : Nat) (dir : Dir)
    (h : (pickNext g score solid edges).1 = some (id, dir)) : ∃ f, (id, dir, f) ∈ edges := by
  unfold pickNext at h
  have key : ∀ (es : List (Nat × Dir × Bool)) (acc : Option (Nat × Dir) × Nat),
      (es.foldl (fun (acc : Option (Nat × Dir) × Nat) (e : Nat × Dir × Bool) =>
        let cand : Option (Nat × Dir) := some (e.1, e.2.1)
        let sp := if nodeSolid g solid e.1 then acc.2 + 1 else acc.2
        (if optScore g score acc.1 < optScore g score cand then cand else acc.1, sp)) acc).1 = some (id, dir) →
      acc.1 = some (id, dir) ∨ ∃ f, (id, dir, f) ∈ es := by
    intro es
    induction es with
    | nil => intro acc h; exact Or.inl h
    | cons e t ih =>
      intro acc h
      rw [List.foldl_cons] at h
      rcases ih _ h with h1 | ⟨f, hf⟩
      · simp only at h1
        split at h1
        · simp only [Option.some.injEq, Prod.mk.injEq] at h1
          exact Or.inr ⟨e.2.2, by rw [← h1.1, ← h1.2]; simp⟩
        · exact Or.inl h1
      · exact Or.inr ⟨f, by simp [hf]⟩
  rcases key edges (none, 0) h with h1 | h1
  · cases h1
  · exact h1

theorem findEdges_nodes (g : G D) (a : Nat) (d : Dir) (es : List (Nat × Dir × Bool)) (h : findEdges g a d = some es) :
    (g.nodes[a]?).isSome ∧ ∀ e ∈ es, (g.nodes[e.1]?).isSome := by
  unfold findEdges at h
  cases hn : g.nodes[a]? with
  | none => rw [hn] at h; cases h
  | some u =>
    rw [hn] at h
    simp only [Option.some.injEq] at h
    subst h
    refine ⟨rfl, fun e he => ?_⟩
    rw [List.mem_filterMap] at he
    obtain ⟨x, _, hx⟩ := he
    split at hx
    · obtain ⟨v, hv, _⟩ := findLink_sound g _ _ e.1 e.2.1 e.2.2 hx
      rw [hv]; rfl
    · cases hx

/-- a walk: consecutive entries follow reported edges, all nodes exist, no node twice -/
structure IsWalk (g : G D) (path : List (Nat × Dir)) : Prop where
  chain : ∀ p rest, path = p :: rest → ChainStep g p rest
  nodes : ∀ p ∈ path, (g.nodes[p.1]?).isSome
  nodup : (path.map Prod.fst).Nodup

theorem chainStep_append (g : G D) (p : Nat × Dir) (rest : List (Nat × Dir)) (q : Nat × Dir)
    (h : ChainStep g p rest) (hl : StepOK g ((p :: rest).getLast (by simp)) q) : ChainStep g p (rest ++ [q]) := by
  induction rest generalizing p with
  | nil => exact ⟨by simpa using hl, trivial⟩
  | cons r t ih =>
    refine ⟨h.1, ih r h.2 ?_⟩
    simpa [List.getLast_cons] using hl

/-- the right arm: entries are appended; the current entry is the last of the path -/
theorem arm_right (g : G D) (score : D → Int) (solid : D → Bool) (fuel : Nat) :
    ∀ (cur : Nat × Dir) (used : List Nat) (path : List (Nat × Dir)), path.getLast? = some cur → IsWalk g path →
      (∀ p ∈ path, p.1 ∈ used) →
      IsWalk g (maxPathArm g score solid false fuel cur used path).1 ∧
      (∀ p ∈ (maxPathArm g score solid false fuel cur used path).1, p.1 ∈ (maxPathArm g score solid false fuel cur used path).2) ∧
      (maxPathArm g score solid false fuel cur used path).1.head? = path.head? := by
  induction fuel with
  | zero => intro cur used path _ hw hu; exact ⟨hw, hu, rfl⟩
  | succ fuel ih =>
    intro cur used path hlast hw hu
    unfold maxPathArm
    cases he : findEdges g cur.1 cur.2.flip with
    | none => exact ⟨hw, hu, rfl⟩
    | some edges =>
      simp only
      cases hp : pickNext g score solid edges with
      | mk next sp =>
        simp only
        by_cases hsp : sp > 1
        · rw [if_pos hsp]; exact ⟨hw, hu, rfl⟩
        · rw [if_neg hsp]
          cases next with
          | none => exact ⟨hw, hu, rfl⟩
          | some nn =>
            obtain ⟨nid, ninc⟩ := nn
            simp only
            by_cases hc : used.contains nid = true
            · rw [if_pos hc]; exact ⟨hw, hu, rfl⟩
            · rw [if_neg hc]
              simp only [Bool.false_eq_true, if_false]
              obtain ⟨f, hf⟩ := pickNext_mem g score solid edges nid ninc (by rw [hp])
              have hnodes := findEdges_nodes g cur.1 cur.2.flip edges he
              have hnid : nid ∉ used := by simpa using hc
              -- the extended path is still a walk
              have hne : path ≠ [] := by intro e; rw [e] at hlast; simp at hlast
              obtain ⟨p0, rest, hpr⟩ := List.exists_cons_of_ne_nil hne
              have hw' : IsWalk g (path ++ [(nid, ninc)]) := by
                refine ⟨?_, ?_, ?_⟩
                · intro p r hpe
                  rw [hpr, List.cons_append] at hpe
                  cases hpe
                  apply chainStep_append g p0 rest (nid, ninc) (hw.chain p0 rest hpr)
                  have hl : (p0 :: rest).getLast (by simp) = cur := by
                    rw [hpr, List.getLast?_eq_getLast (by simp)] at hlast
                    exact Option.some.inj hlast
                  rw [hl]
                  exact Or.inl ⟨edges, f, he, hf⟩
                · intro p hp'
                  rcases List.mem_append.mp hp' with h1 | h1
                  · exact hw.nodes p h1
                  · simp only [List.mem_cons, List.mem_nil_iff, or_false] at h1; subst h1
                    exact hnodes.2 _ hf
                · rw [List.map_append, List.nodup_append]
                  refine ⟨hw.nodup, by simp, ?_⟩
                  intro a ha b hb
                  simp only [List.map_cons, List.map_nil, List.mem_cons, List.mem_nil_iff, or_false] at hb
                  subst hb
                  obtain ⟨p, hp', rfl⟩ := List.mem_map.mp ha
                  intro e; exact hnid (e ▸ hu p hp')
              obtain ⟨r1, r2, r3⟩ := ih (nid, ninc) (nid :: used) (path ++ [(nid, ninc)]) (by simp) hw'
                (fun p hp' => by
                  rcases List.mem_append.mp hp' with h1 | h1
                  · exact List.mem_cons_of_mem _ (hu p h1)
                  · simp only [List.mem_cons, List.mem_nil_iff, or_false] at h1; subst h1; simp)
              refine ⟨r1, r2, ?_⟩
              rw [r3, hpr]; rfl

/-- the left arm: entries are prepended with the side flipped; the head of the path is the current entry seen from
    the other side -/
theorem arm_left (g : G D) (score : D → Int) (solid : D → Bool) (fuel : Nat) :
    ∀ (cur : Nat × Dir) (used : List Nat) (path : List (Nat × Dir)), path.head? = some (cur.1, cur.2.flip) → IsWalk g path →
      (∀ p ∈ path, p.1 ∈ used) →
      IsWalk g (maxPathArm g score solid true fuel cur used path).1 := by
  induction fuel with
  | zero => intro cur used path _ hw _; exact hw
  | succ fuel ih =>
    intro cur used path hhead hw hu
    unfold maxPathArm
    cases he : findEdges g cur.1 cur.2.flip with
    | none => exact hw
    | some edges =>
      simp only
      cases hp : pickNext g score solid edges with
      | mk next sp =>
        simp only
        by_cases hsp : sp > 1
        · rw [if_pos hsp]; exact hw
        · rw [if_neg hsp]
          cases next with
          | none => exact hw
          | some nn =>
            obtain ⟨nid, ninc⟩ := nn
            simp only
            by_cases hc : used.contains nid = true
            · rw [if_pos hc]; exact hw
            · rw [if_neg hc]
              simp only [if_true]
              obtain ⟨f, hf⟩ := pickNext_mem g score solid edges nid ninc (by rw [hp])
              have hnodes := findEdges_nodes g cur.1 cur.2.flip edges he
              have hnid : nid ∉ used := by simpa using hc
              have hne : path ≠ [] := by intro e; rw [e] at hhead; simp at hhead
              obtain ⟨p0, rest, hpr⟩ := List.exists_cons_of_ne_nil hne
              have hp0 : p0 = (cur.1, cur.2.flip) := by rw [hpr] at hhead; simpa using hhead
              have hw' : IsWalk g ((nid, ninc.flip) :: path) := by
                refine ⟨?_, ?_, ?_⟩
                · intro p r hpe
                  cases hpe
                  rw [hpr]
                  refine ⟨?_, hw.chain p0 rest hpr⟩
                  -- the edge found from the current node, read backwards
                  rw [hp0]
                  exact Or.inr ⟨edges, f, he, by simpa [Dir.flip_flip] using hf⟩
                · intro p hp'
                  rcases List.mem_cons.mp hp' with h1 | h1
                  · subst h1; exact hnodes.2 _ hf
                  · exact hw.nodes p h1
                · rw [List.map_cons, List.nodup_cons]
                  refine ⟨?_, hw.nodup⟩
                  intro hm
                  obtain ⟨p, hp', e⟩ := List.mem_map.mp hm
                  have e' : p.1 = nid := e
                  exact hnid (e' ▸ hu p hp')
              exact ih (nid, ninc) (nid :: used) ((nid, ninc.flip) :: path) (by simp [Dir.flip_flip]) hw'
                (fun p hp' => by
                  rcases List.mem_cons.mp hp' with h1 | h1
                  · subst h1; simp
                  · exact List.mem_cons_of_mem _ (hu p h1))

end Graph

namespace Graph
open Compress (Seq Base Exts rc extend Node windowsOf)
open Walk (Dir)
variable {D : Type}

def bestStep (score : D → Int) (acc : Nat × Option Int) (ni : Node D × Nat) : Nat × Option Int :=
  match acc.2 with
  | none => (ni.2, some (score ni.1.data))
  | some bs => if score ni.1.data > bs then (ni.2, some (score ni.1.data)) else acc

theorem bestIdx_lt (score : D → Int) (nodes : List (Node D)) (k : Nat) (acc : Nat × Option Int) (n : Nat)
    (hacc : acc.1 < n) (hn : k + nodes.length ≤ n) :
    ((nodes.zipIdx k).foldl (bestStep score) acc).1 < n := by
  induction nodes generalizing k acc with
  | nil => exact hacc
  | cons a t ih =>
    rw [List.zipIdx_cons, List.foldl_cons]
    simp only [List.length_cons] at hn
    apply ih (k + 1) _ _ (by omega)
    unfold bestStep
    split
    · show k < n; omega
    · split
      · show k < n; omega
      · exact hacc

theorem maxPath_eq (g : G D) (score : D → Int) (solid : D → Bool) (hne : g.nodes.isEmpty = false) :
    maxPath g score solid =
      (let best := (g.nodes.zipIdx.foldl (bestStep score) (0, none)).1
       (maxPathArm g score solid true g.nodes.length (best, .R)
          (maxPathArm g score solid false g.nodes.length (best, .L) [best] [(best, .L)]).2
          (maxPathArm g score solid false g.nodes.length (best, .L) [best] [(best, .L)]).1).1) := by
  unfold maxPath
  rw [hne]
  rfl

/-- **`max_path` returns a walk**: consecutive entries follow reported edges, every node exists, no node is visited twice -/
theorem maxPath_walk (g : G D) (score : D → Int) (solid : D → Bool) : IsWalk g (maxPath g score solid) := by
  by_cases hne : g.nodes.isEmpty = true
  · unfold maxPath; rw [if_pos hne]
    refine ⟨?_, ?_, ?_⟩
    · intro p r h; cases h
    · intro p hp; cases hp
    · simp
  · have hne' : g.nodes.isEmpty = false := by simpa using hne
    rw [maxPath_eq g score solid hne']
    simp only
    generalize hb : (g.nodes.zipIdx.foldl (bestStep score) (0, none)).1 = best
    have hpos : 0 < g.nodes.length := by
      cases hn : g.nodes with
      | nil => rw [hn] at hne'; simp at hne'
      | cons a t => simp
    have hbest : best < g.nodes.length := by
      rw [← hb]; exact bestIdx_lt score g.nodes 0 (0, none) _ hpos (by omega)
    have hw0 : IsWalk g [(best, Dir.L)] :=
      ⟨fun p r h => by cases h; trivial, fun p hp => by
        simp only [List.mem_cons, List.mem_nil_iff, or_false] at hp; subst hp
        simp [hbest], by simp⟩
    obtain ⟨w1, u1, h1⟩ := arm_right g score solid g.nodes.length (best, .L) [best] [(best, .L)] rfl hw0
      (fun p hp => by simp only [List.mem_cons, List.mem_nil_iff, or_false] at hp; subst hp; simp)
    exact arm_left g score solid g.nodes.length (best, .R) _ _ (by rw [h1]; rfl) w1 u1

end Graph
