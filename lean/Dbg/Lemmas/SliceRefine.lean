import Dbg.Lemmas.BlockWalk
import Dbg.Lemmas.RcList
import Dbg.Lemmas.KmerRc
import Dbg.Lemmas.SliceAlgebra
/-! Refinement of `DnaStringSlice` to plain base vectors. -/
namespace DnaStr.Slice
open Kmer (Cfg St)

/-- a view inside its backing string -/
def Valid (d : T) (s : Slice) : Prop := s.start + s.length ≤ d.len

/-- the bases a view stands for: the window, reverse-complemented when so flagged -/
def seq (d : T) (s : Slice) : List Nat :=
  let w := ((toSeq d).drop s.start).take s.length
  if s.isRc then KSpec.rc w else w

theorem complement_lt4 (b : Nat) (h : b < 4) : complement b = KSpec.comp b := by
  have : b = 0 ∨ b = 1 ∨ b = 2 ∨ b = 3 := by omega
  rcases this with rfl | rfl | rfl | rfl <;> decide

theorem window_length (d : T) (h : Inv d) (s : Slice) (hv : Valid d s) :
    (((toSeq d).drop s.start).take s.length).length = s.length := by
  rw [List.length_take, List.length_drop, toSeq_length d h]; unfold Valid at hv; omega

theorem seq_length (d : T) (h : Inv d) (s : Slice) (hv : Valid d s) : (seq d s).length = s.length := by
  unfold seq; split
  · rw [KSpec.rc_length]; exact window_length d h s hv
  · exact window_length d h s hv

theorem seq_lt4 (d : T) (h : Inv d) (s : Slice) : ∀ b ∈ seq d s, b < 4 := by
  intro b hb
  unfold seq at hb
  have hw : ∀ x ∈ ((toSeq d).drop s.start).take s.length, x < 4 :=
    fun x hx => toSeq_lt4 d h x (List.mem_of_mem_drop (List.mem_of_mem_take hx))
  split at hb
  · unfold KSpec.rc at hb
    rw [List.mem_reverse, List.mem_map] at hb
    obtain ⟨x, _, rfl⟩ := hb
    unfold KSpec.comp; omega
  · exact hw b hb

/-- **`get`** on a view -/
theorem get_spec (d : T) (h : Inv d) (s : Slice) (hv : Valid d s) (i : Nat) (hi : i < s.length) :
    get d s i = (seq d s)[i]? := by
  unfold Valid at hv
  unfold get seq
  by_cases hrc : s.isRc = true
  · simp only [hrc, Bool.not_true, Bool.false_eq_true, if_false, if_true]
    rw [if_neg (by omega), DnaStr.get_spec d h _ (by omega)]
    have hwl := window_length d h s hv
    unfold KSpec.rc
    rw [List.getElem?_reverse (by simp only [List.length_map]; rw [hwl]; exact hi), List.length_map, hwl, List.getElem?_map,
      List.getElem?_take_of_lt (by omega), List.getElem?_drop]
    have e : s.start + (s.length - 1 - i) = s.start + s.length - 1 - i := by omega
    rw [e]
    have hlt : s.start + s.length - 1 - i < (toSeq d).length := by rw [toSeq_length d h]; omega
    rw [List.getElem?_eq_getElem hlt]
    simp only [Option.map_some]
    rw [complement_lt4 _ (toSeq_lt4 d h _ (List.getElem_mem _))]
  · have hrc' : s.isRc = false := by cases hh : s.isRc <;> simp_all
    simp only [hrc', Bool.not_false, if_true, Bool.false_eq_true, if_false]
    rw [DnaStr.get_spec d h _ (by omega), List.getElem?_take_of_lt hi, List.getElem?_drop]
    congr 1; omega

theorem mapM_get (d : T) (h : Inv d) (s : Slice) (hv : Valid d s) (n : Nat) (hn : n ≤ s.length) :
    (List.range n).mapM (get d s) = some ((seq d s).take n) := by
  induction n with
  | zero => rfl
  | succ n ih =>
    rw [List.range_succ, List.mapM_append, ih (by omega)]
    have hlt : n < (seq d s).length := by rw [seq_length d h s hv]; omega
    simp only [List.mapM_cons, List.mapM_nil, get_spec d h s hv n (by omega), List.getElem?_eq_getElem hlt, Option.pure_def,
      Option.bind_eq_bind, Option.bind_some]
    rw [List.take_add_one, List.getElem?_eq_getElem hlt]; rfl

/-- **`bytes` / `iter`**, **`ascii`**, **`to_dna_string` / `Display`** -/
theorem bytes_spec (d : T) (h : Inv d) (s : Slice) (hv : Valid d s) : bytes d s = some (seq d s) := by
  unfold bytes
  rw [mapM_get d h s hv s.length (Nat.le_refl _), ← seq_length d h s hv, List.take_length]
theorem ascii_spec (d : T) (h : Inv d) (s : Slice) (hv : Valid d s) : ascii d s = some ((seq d s).map bitsToAscii) := by
  unfold ascii; rw [bytes_spec d h s hv]; rfl
theorem display_spec (d : T) (h : Inv d) (s : Slice) (hv : Valid d s) : display d s = some ((seq d s).map bitsToBase) := by
  unfold display toDnaString; rw [bytes_spec d h s hv]; rfl
theorem debug_spec (d : T) (h : Inv d) (s : Slice) (hv : Valid d s) (hl : s.length < 256) :
    debug d s = some ((seq d s).map bitsToBase) := by
  rw [debug_eq_display d s hl, display_spec d h s hv]

/-- **`to_owned`** -/
theorem toOwned_spec (d : T) (h : Inv d) (s : Slice) (hv : Valid d s) :
    ∃ d', toOwned d s = some d' ∧ Inv d' ∧ toSeq d' = seq d s := by
  unfold toOwned
  rw [bytes_spec d h s hv]
  obtain ⟨d', e, i, t, _⟩ := pushAll_spec (seq d s) DnaStr.new inv_new (seq_lt4 d h s)
  exact ⟨d', e, i, by simpa [toSeq_new] using t⟩

/-- **`==`** of two views -/
theorem eq_spec (d1 : T) (h1 : Inv d1) (s1 : Slice) (v1 : Valid d1 s1) (d2 : T) (h2 : Inv d2) (s2 : Slice) (v2 : Valid d2 s2) :
    eq d1 s1 d2 s2 = some (decide (seq d1 s1 = seq d2 s2)) := by
  unfold eq
  by_cases hl : s2.length ≠ s1.length
  · rw [if_pos hl]
    have : seq d1 s1 ≠ seq d2 s2 := fun e => hl (by rw [← seq_length d1 h1 s1 v1, ← seq_length d2 h2 s2 v2, e])
    simp [this]
  · rw [if_neg hl, bytes_spec d1 h1 s1 v1, bytes_spec d2 h2 s2 v2]
    congr 1
    by_cases he : seq d1 s1 = seq d2 s2
    · simp [he]
    · simp [he]

/-- **`rc`** of a view -/
theorem rc_spec (d : T) (h : Inv d) (s : Slice) (hv : Valid d s) : Valid d s.rc ∧ seq d s.rc = KSpec.rc (seq d s) := by
  refine ⟨hv, ?_⟩
  unfold seq rc
  cases hrc : s.isRc
  · simp
  · simp only [Bool.not_true, Bool.false_eq_true, if_false, if_true]
    rw [KSpec.rc_rc _ (fun x hx => toSeq_lt4 d h x (List.mem_of_mem_drop (List.mem_of_mem_take hx)))]

/-- **`slice(a, b)`** of a view (any orientation, any nesting depth) -/
theorem slice_spec (d : T) (h : Inv d) (s : Slice) (hv : Valid d s) (a b : Nat) (hab : a ≤ b) (hb : b ≤ s.length) :
    ∃ s', s.slice a b = some s' ∧ Valid d s' ∧ seq d s' = ((seq d s).drop a).take (b - a) := by
  have hsome := (slice_isSome s a b).mpr ⟨hab, hb⟩
  obtain ⟨s', e⟩ := Option.isSome_iff_exists.mp hsome
  obtain ⟨hl, _⟩ := slice_length s s' a b e
  have hv' : Valid d s' := by
    unfold Valid at hv ⊢
    unfold slice at e
    rw [if_pos ⟨by omega, hb, hab⟩] at e
    by_cases hrc : s.isRc = true
    · simp only [hrc, Bool.not_true, Bool.false_eq_true, if_false, Option.some.injEq] at e; subst e; simp; omega
    · have hrc' : s.isRc = false := by cases hh : s.isRc <;> simp_all
      simp only [hrc', Bool.not_false, if_true, Option.some.injEq] at e; subst e; simp; omega
  refine ⟨s', e, hv', ?_⟩
  apply List.ext_getElem?
  intro i
  by_cases hi : i < b - a
  · rw [← get_spec d h s' hv' i (by omega), get_slice d s s' a b i e hi, get_spec d h s hv (a + i) (by omega),
      List.getElem?_take_of_lt hi, List.getElem?_drop]
  · rw [List.getElem?_eq_none (by rw [seq_length d h s' hv']; omega),
      List.getElem?_eq_none (by simp only [List.length_take, List.length_drop]; omega)]

/-- views made from the string itself -/
theorem sliceOf_seq (d : T) (a b : Nat) (hab : a ≤ b) (hb : b ≤ d.len) :
    ∃ s, sliceOf d a b = some s ∧ Valid d s ∧ seq d s = ((toSeq d).drop a).take (b - a) := by
  refine ⟨⟨a, b - a, false⟩, by unfold sliceOf; rw [if_pos ⟨by omega, hb, hab⟩], by unfold Valid; simp; omega, by simp [seq]⟩
theorem prefix_seq (d : T) (k : Nat) (hk : k ≤ d.len) :
    ∃ s, prefix_ d k = some s ∧ Valid d s ∧ seq d s = (toSeq d).take k :=
  ⟨⟨0, k, false⟩, by unfold prefix_; rw [if_pos hk], by unfold Valid; simpa using hk, by simp [seq]⟩
theorem suffix_seq (d : T) (k : Nat) (hk : k ≤ d.len) :
    ∃ s, suffix_ d k = some s ∧ Valid d s ∧ seq d s = ((toSeq d).drop (d.len - k)).take k :=
  ⟨⟨d.len - k, k, false⟩, by unfold suffix_; rw [if_pos hk], by unfold Valid; simp; omega, by simp [seq]⟩

/-- **`get_kmer`** of a view spells bases `pos..pos+K` of the view -/
theorem getKmer_spec (c : Cfg) (hc : c.WF) (hw : c.w ∈ [8, 16, 32, 64, 128]) (d : T) (h : Inv d) (s : Slice) (hv : Valid d s)
    (pos : Nat) (hp : pos + c.K ≤ s.length) :
    ∃ k, getKmer c d s pos = some k ∧ Kmer.Inv c k ∧ Kmer.toSeq c k = ((seq d s).drop pos).take c.K := by
  unfold Valid at hv
  unfold getKmer
  rw [if_neg (by simpa using hp)]
  by_cases hrc : s.isRc = true
  · simp only [hrc, Bool.not_true, Bool.false_eq_true, if_false]
    obtain ⟨k, e, i, t⟩ := DnaStr.getKmer_spec c hc d h (s.start + s.length - c.K - pos) (by omega)
    refine ⟨Kmer.rc c k, by rw [e]; rfl, Kmer.inv_rc hc hw k, ?_⟩
    rw [Kmer.toSeq_rc hc hw k, t]
    unfold seq
    simp only [hrc, if_true]
    have hwl := window_length d h s hv
    -- the window of the view, seen from the other strand
    have := KSpec.rc_window (((toSeq d).drop s.start).take s.length) c.K (s.length - c.K - pos) (by rw [hwl]; omega)
    rw [hwl, show s.length - c.K - (s.length - c.K - pos) = pos by omega] at this
    rw [← this]
    congr 1
    rw [List.drop_take, List.take_take, List.drop_drop, Nat.min_eq_left (by omega)]
    congr 2; omega
  · have hrc' : s.isRc = false := by cases hh : s.isRc <;> simp_all
    simp only [hrc', Bool.not_false, if_true]
    obtain ⟨k, e, i, t⟩ := DnaStr.getKmer_spec c hc d h (s.start + pos) (by omega)
    refine ⟨k, e, i, ?_⟩
    rw [t]
    unfold seq
    simp only [hrc', Bool.false_eq_true, if_false]
    rw [List.drop_take, List.take_take, List.drop_drop, Nat.min_eq_left (by omega)]

theorem getKmer_guard (c : Cfg) (d : T) (s : Slice) (pos : Nat) (hp : ¬ pos + c.K ≤ s.length) : getKmer c d s pos = none := by
  unfold getKmer; rw [if_pos (by simpa using hp)]

end DnaStr.Slice

namespace DnaStr.Slice
open Kmer (Cfg St)

/-! ### Hamming distance of two views -/

theorem kmer32_wf : kmer32.WF := ⟨by decide, by decide, fun _ => by decide⟩

theorem take_add (x : List Nat) (n m : Nat) : x.take (n + m) = x.take n ++ (x.drop n).take m := by
  rw [List.take_add]

theorem hamming_take_block (x y : List Nat) (n m : Nat) (hl : x.length = y.length) :
    KSpec.hamming (x.take (n + m)) (y.take (n + m)) =
      KSpec.hamming (x.take n) (y.take n) + KSpec.hamming ((x.drop n).take m) ((y.drop n).take m) := by
  rw [take_add, take_add, DnaStr.hamming_append _ _ _ _ (by simp [hl])]

theorem hamming_take_succ (x y : List Nat) (n : Nat) (hx : n < x.length) (hy : n < y.length) :
    KSpec.hamming (x.take (n + 1)) (y.take (n + 1)) =
      KSpec.hamming (x.take n) (y.take n) + (if x[n] != y[n] then 1 else 0) := by
  rw [List.take_add_one, List.take_add_one, List.getElem?_eq_getElem hx, List.getElem?_eq_getElem hy,
    DnaStr.hamming_append _ _ _ _ (by simp; omega)]
  simp [KSpec.hamming]

/-- **`hamming_dist`** (as repaired, D1) counts the differing positions of two equal-length views, for
    every length and offset and either orientation -/
theorem hammingDist_spec (d1 : T) (h1 : Inv d1) (s1 : Slice) (v1 : Valid d1 s1) (d2 : T) (h2 : Inv d2) (s2 : Slice) (v2 : Valid d2 s2)
    (hl : s1.length = s2.length) :
    hammingDist d1 s1 d2 s2 = some (KSpec.hamming (seq d1 s1) (seq d2 s2)) := by
  have l1 := seq_length d1 h1 s1 v1
  have l2 := seq_length d2 h2 s2 v2
  have hxy : (seq d1 s1).length = (seq d2 s2).length := by rw [l1, l2, hl]
  unfold hammingDist
  rw [if_neg (by simp [hl])]
  simp only
  have hsr : s1.length >>> 5 = s1.length / 32 := Nat.shiftRight_eq_div_pow _ 5
  have hsl : (s1.length >>> 5) <<< 5 = s1.length / 32 * 32 := by rw [hsr, Nat.shiftLeft_eq]
  rw [hsl, hsr]
  -- whole blocks
  have hblocks : ∀ m, m ≤ s1.length / 32 →
      (List.range m).foldl (hamBlockStep d1 s1 d2 s2) (some 0) = some (KSpec.hamming ((seq d1 s1).take (m * 32)) ((seq d2 s2).take (m * 32))) := by
    intro m
    induction m with
    | zero => intro _; simp [KSpec.hamming]
    | succ m ih =>
      intro hm
      rw [List.range_succ, List.foldl_append, ih (by omega)]
      obtain ⟨k1, e1, _, t1⟩ := getKmer_spec kmer32 kmer32_wf (by decide) d1 h1 s1 v1 (m * 32) (by simp [kmer32]; omega)
      obtain ⟨k2, e2, _, t2⟩ := getKmer_spec kmer32 kmer32_wf (by decide) d2 h2 s2 v2 (m * 32) (by simp [kmer32]; omega)
      simp only [List.foldl_cons, List.foldl_nil, hamBlockStep, e1, e2]
      rw [show (m + 1) * 32 = m * 32 + 32 by omega, hamming_take_block _ _ _ _ hxy]
      have : countDiff2Bit k1 k2 = KSpec.hamming (Kmer.toSeq kmer32 k1) (Kmer.toSeq kmer32 k2) := DnaStr.countDiff_spec k1 k2
      rw [this, t1, t2]
  rw [hblocks _ (Nat.le_refl _)]
  -- the tail, base by base
  have htail : ∀ n, s1.length / 32 * 32 + n ≤ s1.length →
      (List.range' (s1.length / 32 * 32) n).foldl (hamTailStep d1 s1 d2 s2) (some (KSpec.hamming ((seq d1 s1).take (s1.length / 32 * 32)) ((seq d2 s2).take (s1.length / 32 * 32)))) =
      some (KSpec.hamming ((seq d1 s1).take (s1.length / 32 * 32 + n)) ((seq d2 s2).take (s1.length / 32 * 32 + n))) := by
    intro n
    induction n with
    | zero => intro _; rfl
    | succ n ih =>
      intro hn
      rw [List.range'_concat, List.foldl_append, ih (by omega)]
      have p1 : s1.length / 32 * 32 + n < (seq d1 s1).length := by rw [l1]; omega
      have p2 : s1.length / 32 * 32 + n < (seq d2 s2).length := by rw [l2]; omega
      have g1 := get_spec d1 h1 s1 v1 (s1.length / 32 * 32 + n) (by omega)
      have g2 := get_spec d2 h2 s2 v2 (s1.length / 32 * 32 + n) (by omega)
      rw [List.getElem?_eq_getElem p1] at g1
      rw [List.getElem?_eq_getElem p2] at g2
      simp only [Nat.one_mul, List.foldl_cons, List.foldl_nil, hamTailStep, g1, g2]
      rw [← Nat.add_assoc, hamming_take_succ _ _ _ p1 p2]
      by_cases hne : ((seq d1 s1)[s1.length / 32 * 32 + n] != (seq d2 s2)[s1.length / 32 * 32 + n]) = true
      · simp [hne]
      · simp [hne]
  rw [htail _ (by omega), show s1.length / 32 * 32 + (s1.length - s1.length / 32 * 32) = s1.length by omega]
  conv => lhs; rw [← l1]
  rw [List.take_length, hxy, List.take_length]

theorem hammingDist_guard (d1 : T) (s1 : Slice) (d2 : T) (s2 : Slice) (hl : s1.length ≠ s2.length) :
    hammingDist d1 s1 d2 s2 = none := by unfold hammingDist; rw [if_pos hl]

end DnaStr.Slice
