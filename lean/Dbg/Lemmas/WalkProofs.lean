import Dbg.Model.Walk
namespace Walk

variable (link : Link)

/-- reciprocity of links (from `ExtSym` + symmetric join) -/
def Sym : Prop := ∀ x d y d', link x d = some (y, d') → link y d'.flip = some (x, d.flip)

/-- one undirected good link -/
def Rel (x y : Nat) : Prop := ∃ d d', link x d = some (y, d')

inductive Conn : Nat → Nat → Prop
  | refl (x) : Conn x x
  | step {x y z} : Conn x y → Rel link y z → Conn x z

theorem Conn.trans {x y z} (h1 : Conn link x y) (h2 : Conn link y z) : Conn link x z := by
  induction h2 with
  | refl => exact h1
  | step _ r ih => exact Conn.step ih r

theorem Conn.symm (hs : Sym link) {x y} (h : Conn link x y) : Conn link y x := by
  induction h with
  | refl => exact Conn.refl _
  | step _ r ih =>
    obtain ⟨d, d', hl⟩ := r
    exact Conn.trans link (Conn.step (Conn.refl _) ⟨_, _, hs _ _ _ _ hl⟩) ih

/-- all links out of `w` (both ports) lead outside `a` -/
def SealedAt (a : List Nat) (w : Nat) : Prop := ∀ δ y d'', link w δ = some (y, d'') → y ∉ a

structure WalkOK (avail : List Nat) (x : Nat) (d : Dir) (r : List (Nat × Dir) × List Nat) : Prop where
  sub : ∀ z, z ∈ r.2 ↔ z ∈ avail ∧ z ∉ r.1.map Prod.fst
  ids : ∀ z ∈ r.1.map Prod.fst, z ∈ avail
  fwd : ∀ y d'', link x d = some (y, d'') → y ∉ r.2
  both : ∀ w dw, (w, dw) ∈ r.1 → (∀ y d'', link w dw = some (y, d'') → y ∉ r.2) ∧
                                 (∀ y d'', link w dw.flip = some (y, d'') → y ∉ r.2)
  nodup : (r.1.map Prod.fst).Nodup
  conn : ∀ z ∈ r.1.map Prod.fst, Conn link x z

theorem walk_ok (hs : Sym link) (avail : List Nat) (x : Nat) (d : Dir) (hx : x ∉ avail) :
    WalkOK link avail x d (walk link avail x d) := by
  fun_induction walk link avail x d with
  | case1 avail x d y d' hl hy r ih =>
    -- took a step to y
    have hy' : y ∉ rm avail y := by simp [mem_rm]
    have ih := ih hy'
    constructor
    · intro z
      simp only [List.map_cons, List.mem_cons]
      rw [ih.sub z, mem_rm]
      constructor
      · rintro ⟨⟨h1, h2⟩, h3⟩; exact ⟨h1, by rintro (h | h); exact h2 h; exact h3 h⟩
      · rintro ⟨h1, h2⟩; exact ⟨⟨h1, fun h => h2 (Or.inl h)⟩, fun h => h2 (Or.inr h)⟩
    · intro z hz
      simp only [List.map_cons, List.mem_cons] at hz
      rcases hz with rfl | hz
      · exact hy
      · exact (mem_rm.mp (ih.ids z hz)).1
    · intro y2 d2 hl2
      rw [hl] at hl2
      simp only [Option.some.injEq, Prod.mk.injEq] at hl2
      obtain ⟨rfl, rfl⟩ := hl2
      intro hmem
      have := (ih.sub y).mp hmem
      exact hy' this.1
    · intro w dw hw
      simp only [List.mem_cons, Prod.mk.injEq] at hw
      rcases hw with ⟨rfl, rfl⟩ | hw
      · constructor
        · exact ih.fwd
        · intro y2 d2 hl2
          have := hs _ _ _ _ hl
          rw [this] at hl2
          simp only [Option.some.injEq, Prod.mk.injEq] at hl2
          obtain ⟨rfl, rfl⟩ := hl2
          intro hmem
          have := (ih.sub _).mp hmem
          exact hx (mem_rm.mp this.1).1
      · exact ih.both w dw hw
    · simp only [List.map_cons, List.nodup_cons]
      refine ⟨?_, ih.nodup⟩
      intro hmem
      exact hy' (ih.ids y hmem)
    · intro z hz
      simp only [List.map_cons, List.mem_cons] at hz
      have hxy : Conn link x y := Conn.step (Conn.refl _) ⟨_, _, hl⟩
      rcases hz with rfl | hz
      · exact hxy
      · exact Conn.trans link hxy (ih.conn z hz)
  | case2 avail x d y d' hl hy =>
    constructor
    · intro z; simp
    · intro z hz; simp at hz
    · intro y2 d2 hl2
      rw [hl] at hl2
      simp only [Option.some.injEq, Prod.mk.injEq] at hl2
      obtain ⟨rfl, rfl⟩ := hl2
      exact hy
    · intro w dw hw; simp at hw
    · simp
    · intro z hz; simp at hz
  | case3 avail x d hl =>
    constructor
    · intro z; simp
    · intro z hz; simp at hz
    · intro y2 d2 hl2; rw [hl] at hl2; cases hl2
    · intro w dw hw; simp at hw
    · simp
    · intro z hz; simp at hz


theorem nodup_reverse' {l : List Nat} (h : l.Nodup) : l.reverse.Nodup := by
  unfold List.Nodup at *
  rw [List.pairwise_reverse]
  exact h.imp (fun h => Ne.symm h)

theorem dir_cases (δ dw : Dir) : δ = dw ∨ δ = dw.flip := by cases δ <;> cases dw <;> simp [Dir.flip]

structure BuildOK (avail : List Nat) (seed : Nat) (b : List Nat × List Nat) : Prop where
  sub : ∀ z, z ∈ b.2 ↔ z ∈ avail ∧ z ∉ b.1
  ids : ∀ z ∈ b.1, z ∈ avail
  seed_mem : seed ∈ b.1
  sealed : ∀ w ∈ b.1, ∀ δ y d'', link w δ = some (y, d'') → y ∈ b.1 ∨ y ∉ avail
  nodup : b.1.Nodup
  conn : ∀ z ∈ b.1, Conn link seed z

theorem build_ok (hs : Sym link) (avail : List Nat) (seed : Nat) (hseed : seed ∈ avail) :
    BuildOK link avail seed (build link avail seed) := by
  have h1 : seed ∉ rm avail seed := by simp [mem_rm]
  have wl := walk_ok link hs (rm avail seed) seed .L h1
  have h2 : seed ∉ (walk link (rm avail seed) seed .L).2 := fun h => h1 ((wl.sub _).mp h).1
  have wr := walk_ok link hs (walk link (rm avail seed) seed .L).2 seed .R h2
  -- abbreviations
  generalize hl : walk link (rm avail seed) seed .L = l at wl wr h2
  generalize hr : walk link l.2 seed .R = r at wr
  have hb : build link avail seed = ((l.1.map Prod.fst).reverse ++ [seed] ++ r.1.map Prod.fst, r.2) := by
    simp [build, hl, hr]
  rw [hb]
  have memN : ∀ z, z ∈ (l.1.map Prod.fst).reverse ++ [seed] ++ r.1.map Prod.fst ↔
      z ∈ l.1.map Prod.fst ∨ z = seed ∨ z ∈ r.1.map Prod.fst := by
    intro z; simp [List.mem_append, or_assoc]
  -- membership in final avail
  have sub : ∀ z, z ∈ r.2 ↔ z ∈ avail ∧ z ∉ (l.1.map Prod.fst).reverse ++ [seed] ++ r.1.map Prod.fst := by
    intro z
    rw [wr.sub z, wl.sub z, mem_rm, memN]
    constructor
    · rintro ⟨⟨⟨a, b⟩, c⟩, d⟩; exact ⟨a, by rintro (h | h | h); exact c h; exact b h; exact d h⟩
    · rintro ⟨a, b⟩; exact ⟨⟨⟨a, fun h => b (Or.inr (Or.inl h))⟩, fun h => b (Or.inl h)⟩, fun h => b (Or.inr (Or.inr h))⟩
  have notin_of : ∀ y, y ∉ r.2 → (y ∈ (l.1.map Prod.fst).reverse ++ [seed] ++ r.1.map Prod.fst ∨ y ∉ avail) := by
    intro y hy
    by_cases ha : y ∈ avail
    · left
      by_cases hN : y ∈ (l.1.map Prod.fst).reverse ++ [seed] ++ r.1.map Prod.fst
      · exact hN
      · exact absurd ((sub y).mpr ⟨ha, hN⟩) hy
    · right; exact ha
  have r_sub_l : ∀ y, y ∉ l.2 → y ∉ r.2 := fun y hy h => hy ((wr.sub y).mp h).1
  constructor
  · exact sub
  · intro z hz
    rw [memN] at hz
    rcases hz with hz | rfl | hz
    · exact (mem_rm.mp (wl.ids z hz)).1
    · exact hseed
    · exact (mem_rm.mp ((wl.sub z).mp (wr.ids z hz)).1).1
  · rw [memN]; exact Or.inr (Or.inl rfl)
  · intro w hw δ y d'' hlk
    apply notin_of
    rw [memN] at hw
    rcases hw with hw | rfl | hw
    · -- w on the left path
      obtain ⟨⟨w', dw⟩, hmem, rfl⟩ := List.mem_map.mp hw
      have hb := wl.both w' dw hmem
      rcases dir_cases δ dw with rfl | rfl
      · exact r_sub_l y (hb.1 y d'' hlk)
      · exact r_sub_l y (hb.2 y d'' hlk)
    · cases δ
      · exact r_sub_l y (wl.fwd y d'' hlk)
      · exact wr.fwd y d'' hlk
    · obtain ⟨⟨w', dw⟩, hmem, rfl⟩ := List.mem_map.mp hw
      have hb := wr.both w' dw hmem
      rcases dir_cases δ dw with rfl | rfl
      · exact hb.1 y d'' hlk
      · exact hb.2 y d'' hlk
  · -- nodup
    rw [List.append_assoc]
    apply List.nodup_append.mpr
    refine ⟨nodup_reverse' wl.nodup, ?_, ?_⟩
    · simp only [List.singleton_append, List.nodup_cons]
      refine ⟨?_, wr.nodup⟩
      intro h; exact h2 (wr.ids seed h)
    · intro a ha b hb
      simp only [List.mem_reverse] at ha
      simp only [List.singleton_append, List.mem_cons] at hb
      rintro rfl
      rcases hb with rfl | hb
      · exact h1 (wl.ids a ha)
      · exact ((wl.sub a).mp (wr.ids a hb)).2 ha
  · intro z hz
    rw [memN] at hz
    rcases hz with hz | rfl | hz
    · exact wl.conn z hz
    · exact Conn.refl _
    · exact wr.conn z hz


structure CompOK (avail is : List Nat) (ns : List (List Nat)) : Prop where
  ids : ∀ N ∈ ns, ∀ w ∈ N, w ∈ avail
  nodup : ns.flatten.Nodup
  sealed : ∀ N ∈ ns, ∀ w ∈ N, ∀ δ y d'', link w δ = some (y, d'') → y ∈ N ∨ y ∉ avail
  cover : ∀ z, z ∈ is → z ∈ avail → ∃ N ∈ ns, z ∈ N
  conn : ∀ N ∈ ns, ∀ x ∈ N, ∀ y ∈ N, Conn link x y

theorem compress_ok (hs : Sym link) (is : List Nat) : ∀ avail, CompOK link avail is (compress link is avail) := by
  induction is with
  | nil =>
    intro avail
    simp only [compress]
    exact ⟨by simp, by simp, by simp, by simp, by simp⟩
  | cons i is ih =>
    intro avail
    simp only [compress]
    by_cases hi : i ∈ avail
    · simp only [hi, if_true]
      have bo := build_ok link hs avail i hi
      generalize build link avail i = b at bo
      have ih := ih b.2
      generalize compress link is b.2 = ns at ih
      constructor
      · intro N hN w hw
        simp only [List.mem_cons] at hN
        rcases hN with rfl | hN
        · exact bo.ids w hw
        · exact ((bo.sub w).mp (ih.ids N hN w hw)).1
      · simp only [List.flatten_cons]
        apply List.nodup_append.mpr
        refine ⟨bo.nodup, ih.nodup, ?_⟩
        intro a ha c hc
        rintro rfl
        obtain ⟨N, hN, haN⟩ := List.mem_flatten.mp hc
        exact ((bo.sub a).mp (ih.ids N hN a haN)).2 ha
      · intro N hN w hw δ y d'' hl
        simp only [List.mem_cons] at hN
        rcases hN with rfl | hN
        · exact bo.sealed w hw δ y d'' hl
        · rcases ih.sealed N hN w hw δ y d'' hl with h | h
          · exact Or.inl h
          · by_cases hya : y ∈ avail
            · -- then y ∈ b.1 ; use symmetry to derive a contradiction
              have hyb : y ∈ b.1 := by
                by_cases hyb : y ∈ b.1
                · exact hyb
                · exact absurd ((bo.sub y).mpr ⟨hya, hyb⟩) h
              have hback := hs _ _ _ _ hl
              have hw2 := (bo.sub w).mp (ih.ids N hN w hw)
              rcases bo.sealed y hyb _ _ _ hback with h' | h'
              · exact absurd h' hw2.2
              · exact absurd hw2.1 h'
            · exact Or.inr hya
      · intro z hz hza
        by_cases hzb : z ∈ b.1
        · exact ⟨b.1, by simp, hzb⟩
        · have hz2 : z ∈ b.2 := (bo.sub z).mpr ⟨hza, hzb⟩
          simp only [List.mem_cons] at hz
          rcases hz with rfl | hz
          · exact absurd bo.seed_mem hzb
          · obtain ⟨N, hN, hzN⟩ := ih.cover z hz hz2
            exact ⟨N, by simp [hN], hzN⟩
      · intro N hN x hx y hy
        simp only [List.mem_cons] at hN
        rcases hN with rfl | hN
        · exact Conn.trans link (Conn.symm link hs (bo.conn x hx)) (bo.conn y hy)
        · exact ih.conn N hN x hx y hy
    · simp only [hi, if_false]
      have ih := ih avail
      exact ⟨ih.ids, ih.nodup, ih.sealed, fun z hz hza => by
        simp only [List.mem_cons] at hz
        rcases hz with rfl | hz
        · exact absurd hza hi
        · exact ih.cover z hz hza, ih.conn⟩

/-- C01/C02 for the abstract algorithm: the nodes partition `0..n-1` and are exactly the
    connected components of the (reciprocal) link relation. -/
theorem compress_components (hs : Sym link) (n : Nat)
    (hrange : ∀ x d y d', link x d = some (y, d') → y < n) :
    let ns := compress link (List.range n) (List.range n)
    ns.flatten.Nodup ∧ (∀ z, z ∈ ns.flatten ↔ z < n) ∧
    (∀ x y, x < n → (Conn link x y ↔ ∃ N ∈ ns, x ∈ N ∧ y ∈ N)) := by
  intro ns
  have ok := compress_ok link hs (List.range n) (List.range n)
  refine ⟨ok.nodup, ?_, ?_⟩
  · intro z
    constructor
    · intro hz
      obtain ⟨N, hN, hzN⟩ := List.mem_flatten.mp hz
      exact List.mem_range.mp (ok.ids N hN z hzN)
    · intro hz
      obtain ⟨N, hN, hzN⟩ := ok.cover z (List.mem_range.mpr hz) (List.mem_range.mpr hz)
      exact List.mem_flatten.mpr ⟨N, hN, hzN⟩
  · intro x y hx
    constructor
    · intro hc
      induction hc with
      | refl =>
        obtain ⟨N, hN, hxN⟩ := ok.cover x (List.mem_range.mpr hx) (List.mem_range.mpr hx)
        exact ⟨N, hN, hxN, hxN⟩
      | step _ r ih =>
        obtain ⟨N, hN, hxN, hyN⟩ := ih
        obtain ⟨d, d', hl⟩ := r
        rcases ok.sealed N hN _ hyN d _ d' hl with h | h
        · exact ⟨N, hN, hxN, h⟩
        · exact absurd (List.mem_range.mpr (hrange _ _ _ _ hl)) h
    · rintro ⟨N, hN, hxN, hyN⟩
      exact ok.conn N hN x hxN y hyN

end Walk
