/-! Probe: bits of `((1 << n) - 1)` and of `top_mask`, generic width. -/
namespace Mask

theorem lowMask_getLsbD (w n i : Nat) (hn : n ≤ w) :
    ((1#w <<< n) - 1#w).getLsbD i = (decide (i < n) && decide (i < w)) := by
  by_cases hw : w = 0
  · subst hw; simp
  by_cases hnw : n = w
  · subst hnw
    have : (1#n <<< n) = 0#n := by
      apply BitVec.eq_of_getLsbD_eq; intro j hj; simp
    rw [this]
    have : (0#n - 1#n) = BitVec.allOnes n := by
      rw [BitVec.zero_sub]; exact BitVec.neg_one_eq_allOnes
    rw [this]; simp
  · have hlt : n < w := by omega
    have h2 : 2 ^ n < 2 ^ w := Nat.pow_lt_pow_right (by decide) hlt
    have h1 : (1 : Nat) < 2 ^ w := Nat.one_lt_two_pow hw
    have htn : ((1#w <<< n) - 1#w).toNat = 2 ^ n - 1 := by
      rw [BitVec.toNat_sub, BitVec.toNat_shiftLeft, BitVec.toNat_ofNat, Nat.mod_eq_of_lt h1,
        Nat.shiftLeft_eq, Nat.one_mul, Nat.mod_eq_of_lt h2]
      have hp : 0 < 2 ^ n := Nat.two_pow_pos n
      have : 2 ^ w - 1 + 2 ^ n = 2 ^ w + (2 ^ n - 1) := by omega
      rw [this, Nat.add_mod_left, Nat.mod_eq_of_lt (by omega)]
    rw [BitVec.getLsbD, htn, Nat.testBit_two_pow_sub_one]
    by_cases hi : i < n
    · simp [hi]; omega
    · simp [hi]

end Mask
