import Dbg.Lemmas.FilterSym
import Dbg.Lemmas.GraphSym
/-! The table built by `compress_kmers_no_exts` (extensions discovered by membership) is well-formed and reciprocal. -/
namespace Compress
open Walk (Dir)
open Filter (has has_iff bitIdx ExtSym2)
variable {D : Type}

/-- one nibble of discovered extensions: bit `b + off` for every base passing the test -/
def foldBits (P : Base → Bool) (off : Nat) : Nat :=
  (List.range 4).foldl (fun acc b => match (if h : b < 4 then some (⟨b, h⟩ : Base) else none) with
    | some bb => if P bb then acc ||| (1 <<< (b + off)) else acc
    | none => acc) 0

theorem foldBits_testBit (P : Base → Bool) (off j : Nat) :
    (foldBits P off).testBit j = ((P 0 && decide (j = off)) || (P 1 && decide (j = 1 + off)) ||
      (P 2 && decide (j = 2 + off)) || (P 3 && decide (j = 3 + off))) := by
  have hr : List.range 4 = [0, 1, 2, 3] := by decide
  unfold foldBits
  rw [hr]
  simp only [List.foldl_cons, List.foldl_nil]
  have h0 : (if h : 0 < 4 then some (⟨0, h⟩ : Base) else none) = some 0 := rfl
  have h1 : (if h : 1 < 4 then some (⟨1, h⟩ : Base) else none) = some 1 := rfl
  have h2 : (if h : 2 < 4 then some (⟨2, h⟩ : Base) else none) = some 2 := rfl
  have h3 : (if h : 3 < 4 then some (⟨3, h⟩ : Base) else none) = some 3 := rfl
  simp only [h0, h1, h2, h3]
  cases P 0 <;> cases P 1 <;> cases P 2 <;> cases P 3 <;>
    simp [Nat.testBit_or, Nat.one_shiftLeft, Nat.testBit_two_pow, eq_comm]

theorem discoverExts_eq (st : Bool) (keys : List Seq) (k : Seq) :
    discoverExts st keys k = ⟨foldBits (fun b => keys.contains (canonSt st (extendLeft k b)).1) 0 |||
      foldBits (fun b => keys.contains (canonSt st (extendRight k b)).1) 4⟩ := rfl

/-- **discovered extensions**: base `b` on side `d` is recorded iff the neighbour (its canonical form when unstranded) is one of the keys -/
theorem has_discover (st : Bool) (keys : List Seq) (k : Seq) (d : Dir) (b : Base) :
    has (discoverExts st keys k) d b ↔ (canonSt st (extend k b d)).1 ∈ keys := by
  rw [has_iff, discoverExts_eq]
  simp only [Nat.testBit_or, foldBits_testBit]
  rcases b with ⟨v, hv⟩
  have hb : v = 0 ∨ v = 1 ∨ v = 2 ∨ v = 3 := by omega
  cases d <;> rcases hb with rfl | rfl | rfl | rfl <;> simp [bitIdx, extend, List.contains_eq_mem]

end Compress

namespace Compress
open Walk (Dir)
open Filter (has has_iff bitIdx ExtSym2)
variable {D : Type}

theorem foldBits_lt (P : Base → Bool) (off : Nat) (hoff : off + 4 ≤ 8) : foldBits P off < 2 ^ 8 := by
  have hr : List.range 4 = [0, 1, 2, 3] := by decide
  unfold foldBits
  rw [hr]
  simp only [List.foldl_cons, List.foldl_nil]
  have h0 : (if h : 0 < 4 then some (⟨0, h⟩ : Base) else none) = some 0 := rfl
  have h1 : (if h : 1 < 4 then some (⟨1, h⟩ : Base) else none) = some 1 := rfl
  have h2 : (if h : 2 < 4 then some (⟨2, h⟩ : Base) else none) = some 2 := rfl
  have h3 : (if h : 3 < 4 then some (⟨3, h⟩ : Base) else none) = some 3 := rfl
  simp only [h0, h1, h2, h3]
  have hb : ∀ b, b < 4 → (1 <<< (b + off)) < 2 ^ 8 := by
    intro b hb
    rw [Nat.one_shiftLeft]
    exact Nat.pow_lt_pow_right (by decide) (by omega)
  have z : (0 : Nat) < 2 ^ 8 := by decide
  cases P 0 <;> cases P 1 <;> cases P 2 <;> cases P 3 <;>
    simp only [Bool.false_eq_true, if_false, if_true] <;>
    first
      | exact z
      | exact hb _ (by decide)
      | (repeat (first | apply Nat.or_lt_two_pow | exact z | exact hb _ (by decide)))

/-- the table `compress_kmers_no_exts` builds from a list of (k-mer, payload) pairs -/
def noExtsTable (st : Bool) (kd : List (Seq × D)) : Table D :=
  kd.map fun p => ⟨p.1, discoverExts st (kd.map (·.1)) p.1, p.2⟩

theorem noExts_keys (st : Bool) (kd : List (Seq × D)) : (noExtsTable st kd).map (·.key) = kd.map (·.1) := by
  unfold noExtsTable; simp [List.map_map, Function.comp_def]

/-- **the table of `compress_kmers_no_exts` is well-formed and reciprocal** (distinct k-mers; canonical ones when unstranded) -/
theorem noExts_table_ok (st : Bool) (K : Nat) (hK : 1 ≤ K) (kd : List (Seq × D)) (hlen : ∀ p ∈ kd, p.1.length = K)
    (hnd : (kd.map (·.1)).Nodup) (hcan : st = false → ∀ p ∈ kd, ¬ rc p.1 < p.1) :
    WF (noExtsTable st kd) K st ∧ ExtSym2 (noExtsTable st kd) st := by
  have hget : ∀ (x : Nat) (e : Entry D), (noExtsTable st kd)[x]? = some e →
      ∃ p, kd[x]? = some p ∧ e = ⟨p.1, discoverExts st (kd.map (·.1)) p.1, p.2⟩ := by
    intro x e h
    unfold noExtsTable at h
    rw [List.getElem?_map] at h
    cases hp : kd[x]? with
    | none => rw [hp] at h; cases h
    | some p => rw [hp] at h; exact ⟨p, rfl, by simpa using h.symm⟩
  have wf : WF (noExtsTable st kd) K st := by
    refine ⟨hK, ?_, ?_, ?_, ?_⟩
    · intro x e h
      obtain ⟨p, hp, rfl⟩ := hget x e h
      exact hlen p (List.mem_of_getElem? hp)
    · intro x y ex ey hx hy hk
      obtain ⟨p, hp, rfl⟩ := hget x ex hx
      obtain ⟨q, hq, rfl⟩ := hget y ey hy
      rw [List.Nodup, List.pairwise_iff_getElem] at hnd
      have lx := Graph.getElem?_lt hp; have ly := Graph.getElem?_lt hq
      rw [List.getElem?_eq_getElem lx] at hp; rw [List.getElem?_eq_getElem ly] at hq
      cases hp; cases hq
      rcases Nat.lt_trichotomy x y with h | h | h
      · have := hnd x y (by simpa using lx) (by simpa using ly) h
        simp only [List.getElem_map] at this
        exact absurd hk this
      · exact h
      · have := hnd y x (by simpa using ly) (by simpa using lx) h
        simp only [List.getElem_map] at this
        exact absurd hk.symm this
    · intro hst x e h
      obtain ⟨p, hp, rfl⟩ := hget x e h
      exact hcan hst p (List.mem_of_getElem? hp)
    · intro x e h
      obtain ⟨p, hp, rfl⟩ := hget x e h
      rw [discoverExts_eq]
      exact Nat.or_lt_two_pow (foldBits_lt _ 0 (by omega)) (foldBits_lt _ 4 (by omega))
  refine ⟨wf, ?_⟩
  intro x ex d b y ey hx hb hy hy'
  left
  obtain ⟨p, hp, rfl⟩ := hget x ex hx
  obtain ⟨q, hq, rfl⟩ := hget y ey hy'
  obtain ⟨ey', hy'', hkey⟩ := findId_some hy
  rw [hy'] at hy''; cases hy''
  simp only at hkey ⊢
  rw [has_discover]
  have hne : p.1 ≠ [] := by
    intro e; have := hlen p (List.mem_of_getElem? hp); rw [e] at this; simp at this; omega
  have hback := Filter.canon_back_key (st := st) (x := p.1) (b := b) (d := d) hne (fun hst => hcan hst p (List.mem_of_getElem? hp))
  rw [hkey, hback]
  exact List.mem_map_of_mem (List.mem_of_getElem? hp)

end Compress
