import Dbg.Lemmas.WalkProofs
import Dbg.Lemmas.NodeExts
/-! The two end ports of a built node, abstractly: every other port of every member of the node is joined by a link to
    another non-end port of the same node.  (A port is `(id, direction)`; following `link id direction` leaves the
    k-mer on that side.) -/
namespace Compress
open Walk (Dir Link Sym)

def flip2 (p : Nat × Dir) : Nat × Dir := (p.1, p.2.flip)

theorem flip2_flip2 (p : Nat × Dir) : flip2 (flip2 p) = p := by
  obtain ⟨a, d⟩ := p; cases d <;> rfl

theorem flip2_ne (p : Nat × Dir) : flip2 p ≠ p := by
  obtain ⟨a, d⟩ := p; cases d <;> simp [flip2, Dir.flip]

/-- an oriented chain: each entry's port leads to the next entry -/
def OChain (link : Link) : List (Nat × Dir) → Prop
  | [] => True
  | a :: rest => LinkedFrom link a.1 a.2 rest

theorem linkedFrom_append (link : Link) (x : Nat) (d : Dir) (l1 l2 : List (Nat × Dir)) (q : Nat × Dir)
    (h1 : LinkedFrom link x d (l1 ++ [q])) (h2 : LinkedFrom link q.1 q.2 l2) : LinkedFrom link x d (l1 ++ [q] ++ l2) := by
  induction l1 generalizing x d with
  | nil => exact ⟨h1.1, h2⟩
  | cons a t ih => exact ⟨h1.1, ih a.1 a.2 h1.2⟩

theorem ochain_append (link : Link) (l1 l2 : List (Nat × Dir)) (q : Nat × Dir)
    (h1 : OChain link (l1 ++ [q])) (h2 : LinkedFrom link q.1 q.2 l2) : OChain link (l1 ++ [q] ++ l2) := by
  cases l1 with
  | nil => exact h2
  | cons a t => exact linkedFrom_append link a.1 a.2 t l2 q h1 h2

/-- a walk read backwards, every port flipped, is a chain again (reciprocity of links) -/
theorem ochain_reverse (link : Link) (hs : Sym link) (x : Nat) (d : Dir) (rest : List (Nat × Dir))
    (h : LinkedFrom link x d rest) : OChain link ((rest.map flip2).reverse ++ [flip2 (x, d)]) := by
  induction rest generalizing x d with
  | nil => trivial
  | cons q t ih =>
    obtain ⟨q1, q2⟩ := q
    have h1 := ih q1 q2 h.2
    simp only [List.map_cons, List.reverse_cons, List.append_assoc, List.singleton_append]
    have e : (t.map flip2).reverse ++ flip2 (q1, q2) :: [flip2 (x, d)] = ((t.map flip2).reverse ++ [flip2 (q1, q2)]) ++ [flip2 (x, d)] := by simp
    rw [e]
    exact ochain_append link _ [flip2 (x, d)] (flip2 (q1, q2)) h1 ⟨hs x d q1 q2 h.1, trivial⟩

theorem linkedFrom_getElem (link : Link) : ∀ (cs : List (Nat × Dir)) (x : Nat) (d : Dir), LinkedFrom link x d cs →
    ∀ (i : Nat) (a b : Nat × Dir), ((x, d) :: cs)[i]? = some a → ((x, d) :: cs)[i + 1]? = some b → link a.1 a.2 = some b := by
  intro cs
  induction cs with
  | nil => intro x d _ i a b _ hb; simp at hb
  | cons c t ih =>
    intro x d h i a b ha hb
    obtain ⟨c1, c2⟩ := c
    cases i with
    | zero =>
      simp only [List.getElem?_cons_zero, Option.some.injEq] at ha
      simp only [List.getElem?_cons_succ, List.getElem?_cons_zero, Option.some.injEq] at hb
      subst ha; subst hb; exact h.1
    | succ i =>
      rw [List.getElem?_cons_succ] at ha hb
      exact ih c1 c2 h.2 i a b ha hb

theorem ochain_getElem (link : Link) (cs : List (Nat × Dir)) (h : OChain link cs) (i : Nat) (a b : Nat × Dir)
    (ha : cs[i]? = some a) (hb : cs[i + 1]? = some b) : link a.1 a.2 = some b := by
  cases cs with
  | nil => simp at ha
  | cons c t => exact linkedFrom_getElem link t c.1 c.2 h i a b ha hb

/-- **ports of a chain.** In a chain with pairwise distinct ids, a port of a member that is neither the flipped head
    (the left end) nor the last entry (the right end) leads, by a link, to a member whose facing port is again neither. -/
theorem chain_inner (link : Link) (hs : Sym link) (cs : List (Nat × Dir)) (hc : OChain link cs)
    (hnd : ∀ (i j : Nat) (a b : Nat × Dir), cs[i]? = some a → cs[j]? = some b → a.1 = b.1 → i = j)
    (c0 cm : Nat × Dir) (h0 : cs[0]? = some c0) (hm : cs[cs.length - 1]? = some cm)
    (i : Nat) (a : Nat × Dir) (ha : cs[i]? = some a) (δ : Dir)
    (hL : (a.1, δ) ≠ flip2 c0) (hR : (a.1, δ) ≠ cm) :
    ∃ (j : Nat) (b : Nat × Dir) (d' : Dir), cs[j]? = some b ∧ link a.1 δ = some (b.1, d') ∧
      (b.1, d'.flip) ≠ flip2 c0 ∧ (b.1, d'.flip) ≠ cm := by
  have hi : i < cs.length := (List.getElem?_eq_some_iff.mp ha).1
  rcases Walk.dir_cases δ a.2 with hδ | hδ
  · -- the forward port
    subst hδ
    have him : i ≠ cs.length - 1 := by
      intro e; rw [e, hm] at ha; exact hR (by rw [Option.some.inj ha])
    have hlt : i + 1 < cs.length := by omega
    obtain ⟨b, hb⟩ : ∃ b, cs[i + 1]? = some b := ⟨_, List.getElem?_eq_getElem hlt⟩
    have hl := ochain_getElem link cs hc i a b ha hb
    refine ⟨i + 1, b, b.2, hb, hl, ?_, ?_⟩
    · intro e
      have e1 : b.1 = c0.1 := by simpa [flip2] using congrArg Prod.fst e
      have := hnd (i + 1) 0 _ _ hb h0 e1
      omega
    · intro e
      have e1 : b.1 = cm.1 := by simpa using congrArg Prod.fst e
      have hj := hnd (i + 1) (cs.length - 1) _ _ hb hm e1
      rw [hj, hm] at hb
      have : cm = b := Option.some.inj hb
      subst this
      exact flip2_ne cm e
  · -- the backward port
    subst hδ
    have hi0 : i ≠ 0 := by
      intro e; rw [e, h0] at ha
      have : c0 = a := Option.some.inj ha
      exact hL (by rw [this]; rfl)
    obtain ⟨b, hb⟩ : ∃ b, cs[i - 1]? = some b := ⟨_, List.getElem?_eq_getElem (by omega)⟩
    have ha' : cs[i - 1 + 1]? = some a := by rw [show i - 1 + 1 = i by omega]; exact ha
    have hl := ochain_getElem link cs hc (i - 1) b a hb ha'
    have hl' := hs _ _ _ _ hl
    refine ⟨i - 1, b, b.2.flip, hb, hl', ?_, ?_⟩
    · intro e
      have e1 : b.1 = c0.1 := by simpa [flip2] using congrArg Prod.fst e
      have hj := hnd (i - 1) 0 _ _ hb h0 e1
      rw [hj, h0] at hb
      have : c0 = b := Option.some.inj hb
      subst this
      have e2 : c0.2.flip.flip = c0.2.flip := by simpa [flip2] using congrArg Prod.snd e
      cases h : c0.2 <;> rw [h] at e2 <;> cases e2
    · intro e
      have e1 : b.1 = cm.1 := by simpa using congrArg Prod.fst e
      have hj := hnd (i - 1) (cs.length - 1) _ _ hb hm e1
      omega

/-! ### the chain of a built node -/

/-- the members of a node from its left end to its right end, each with the direction that leads rightwards -/
def nodeChain (lw rw : List (Nat × Dir)) (seed : Nat) : List (Nat × Dir) := (lw.map flip2).reverse ++ [(seed, Dir.R)] ++ rw

theorem nodeChain_ochain (link : Link) (hs : Sym link) (lw rw : List (Nat × Dir)) (seed : Nat)
    (hl : LinkedFrom link seed .L lw) (hr : LinkedFrom link seed .R rw) : OChain link (nodeChain lw rw seed) :=
  ochain_append link _ rw (seed, .R) (ochain_reverse link hs seed .L lw hl) hr

theorem nodeChain_ids (lw rw : List (Nat × Dir)) (seed : Nat) :
    (nodeChain lw rw seed).map Prod.fst = (lw.map Prod.fst).reverse ++ [seed] ++ rw.map Prod.fst := by
  unfold nodeChain
  simp only [List.map_append, List.map_reverse, List.map_map, List.map_cons, List.map_nil]
  congr 3

theorem nodeChain_head (lw rw : List (Nat × Dir)) (seed : Nat) :
    ∃ c0, (nodeChain lw rw seed)[0]? = some c0 ∧ flip2 c0 = lastPort lw seed .L := by
  unfold nodeChain lastPort
  cases h : lw.getLast? with
  | none =>
    have : lw = [] := List.getLast?_eq_none_iff.mp h
    subst this
    exact ⟨(seed, .R), by simp, rfl⟩
  | some q =>
    refine ⟨flip2 q, ?_, flip2_flip2 q⟩
    rw [List.append_assoc, ← List.head?_eq_getElem?, List.head?_append, List.head?_reverse, List.getLast?_map, h]
    rfl

theorem nodeChain_last (lw rw : List (Nat × Dir)) (seed : Nat) :
    (nodeChain lw rw seed)[(nodeChain lw rw seed).length - 1]? = some (lastPort rw seed .R) := by
  rw [← List.getLast?_eq_getElem?]
  unfold nodeChain lastPort
  cases h : rw.getLast? with
  | none =>
    have : rw = [] := List.getLast?_eq_none_iff.mp h
    subst this
    simp
  | some q =>
    rw [List.getLast?_append, h]
    rfl

theorem nodup_fst_inj (cs : List (Nat × Dir)) (h : (cs.map Prod.fst).Nodup) :
    ∀ (i j : Nat) (a b : Nat × Dir), cs[i]? = some a → cs[j]? = some b → a.1 = b.1 → i = j := by
  intro i j a b ha hb hab
  obtain ⟨hi, rfl⟩ := List.getElem?_eq_some_iff.mp ha
  obtain ⟨hj, rfl⟩ := List.getElem?_eq_some_iff.mp hb
  rw [List.Nodup, List.pairwise_iff_getElem] at h
  rcases Nat.lt_trichotomy i j with hlt | heq | hgt
  · exact absurd (by rw [List.getElem_map, List.getElem_map]; exact hab) (h i j (by simpa using hi) (by simpa using hj) hlt)
  · exact heq
  · exact absurd (by rw [List.getElem_map, List.getElem_map]; exact hab.symm) (h j i (by simpa using hj) (by simpa using hi) hgt)

/-- **ports of a built node.** A port of a member of the node that is neither of the node's two end ports (where the
    left and the right walk stopped) leads by a link to a member whose facing port is again not an end port. -/
theorem build_inner (link : Link) (hs : Sym link) (avail : List Nat) (seed : Nat) (hseed : seed ∈ avail) (w : Nat)
    (hw : w ∈ (Walk.build link avail seed).1) (δ : Dir)
    (hL : (w, δ) ≠ lastPort (Walk.walk link (Walk.rm avail seed) seed .L).1 seed .L)
    (hR : (w, δ) ≠ lastPort (Walk.walk link (Walk.walk link (Walk.rm avail seed) seed .L).2 seed .R).1 seed .R) :
    ∃ w' d', link w δ = some (w', d') ∧ w' ∈ (Walk.build link avail seed).1 ∧
      (w', d'.flip) ≠ lastPort (Walk.walk link (Walk.rm avail seed) seed .L).1 seed .L ∧
      (w', d'.flip) ≠ lastPort (Walk.walk link (Walk.walk link (Walk.rm avail seed) seed .L).2 seed .R).1 seed .R := by
  have ok := Walk.build_ok link hs avail seed hseed
  generalize hlw : Walk.walk link (Walk.rm avail seed) seed .L = lw at *
  generalize hrw : Walk.walk link lw.2 seed .R = rw at *
  have hb : (Walk.build link avail seed).1 = (lw.1.map Prod.fst).reverse ++ [seed] ++ rw.1.map Prod.fst := by
    unfold Walk.build; simp only [hlw, hrw]
  have hll : LinkedFrom link seed .L lw.1 := by rw [← hlw]; exact walk_linked link _ seed .L
  have hlr : LinkedFrom link seed .R rw.1 := by rw [← hrw]; exact walk_linked link _ seed .R
  have hc := nodeChain_ochain link hs lw.1 rw.1 seed hll hlr
  have hids := nodeChain_ids lw.1 rw.1 seed
  have hnd := nodup_fst_inj (nodeChain lw.1 rw.1 seed) (by rw [hids, ← hb]; exact ok.nodup)
  obtain ⟨c0, h0, hc0⟩ := nodeChain_head lw.1 rw.1 seed
  have hm := nodeChain_last lw.1 rw.1 seed
  rw [hb, ← hids, List.mem_map] at hw
  obtain ⟨a, ha, rfl⟩ := hw
  obtain ⟨i, hi, hai⟩ := List.getElem_of_mem ha
  have ha' : (nodeChain lw.1 rw.1 seed)[i]? = some a := by rw [List.getElem?_eq_getElem hi, hai]
  obtain ⟨j, b, d', hbj, hl, n1, n2⟩ := chain_inner link hs _ hc hnd c0 _ h0 hm i a ha' δ (by rw [hc0]; exact hL) hR
  refine ⟨b.1, d', hl, ?_, by rw [← hc0]; exact n1, n2⟩
  rw [hb, ← hids]
  exact List.mem_map_of_mem (List.mem_of_getElem? hbj)

/-- the two end ports of a built node are different ports -/
theorem build_ports_ne (link : Link) (hs : Sym link) (avail : List Nat) (seed : Nat) (hseed : seed ∈ avail) :
    lastPort (Walk.walk link (Walk.rm avail seed) seed .L).1 seed .L ≠
      lastPort (Walk.walk link (Walk.walk link (Walk.rm avail seed) seed .L).2 seed .R).1 seed .R := by
  have ok := Walk.build_ok link hs avail seed hseed
  generalize hlw : Walk.walk link (Walk.rm avail seed) seed .L = lw at *
  generalize hrw : Walk.walk link lw.2 seed .R = rw at *
  have hb : (Walk.build link avail seed).1 = (lw.1.map Prod.fst).reverse ++ [seed] ++ rw.1.map Prod.fst := by
    unfold Walk.build; simp only [hlw, hrw]
  have hids := nodeChain_ids lw.1 rw.1 seed
  have hnd := nodup_fst_inj (nodeChain lw.1 rw.1 seed) (by rw [hids, ← hb]; exact ok.nodup)
  obtain ⟨c0, h0, hc0⟩ := nodeChain_head lw.1 rw.1 seed
  have hm := nodeChain_last lw.1 rw.1 seed
  intro he
  rw [← hc0] at he
  have e1 : c0.1 = (lastPort rw.1 seed .R).1 := by
    have := congrArg Prod.fst he
    simpa [flip2] using this
  have hidx := hnd 0 _ c0 _ h0 hm e1
  rw [← hidx, h0] at hm
  have : c0 = lastPort rw.1 seed .R := Option.some.inj hm
  rw [← this] at he
  exact flip2_ne c0 he

end Compress
