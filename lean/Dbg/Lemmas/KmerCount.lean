import Dbg.Lemmas.KmerExtend
/-! Hamming distance and AT/GC counts of the packed k-mer model (popcount of lane-wise masks). -/
namespace Kmer
variable {c : Cfg}

/-- bits of `lower_of_two`: the even bits -/
theorem lowerOfTwo_bits (w : Nat) (hw : w ∈ [8, 16, 32, 64, 128]) (i : Nat) (hi : i < w) :
    (BitVec.ofNat w (lowerOfTwo w)).getLsbD i = decide (i % 2 = 0) := by
  simp only [List.mem_cons, List.mem_nil_iff, or_false] at hw
  rcases hw with rfl | rfl | rfl | rfl | rfl
  · have : ∀ j : Fin 8, (BitVec.ofNat 8 (lowerOfTwo 8)).getLsbD j.val = decide (j.val % 2 = 0) := by decide
    exact this ⟨i, hi⟩
  · have : ∀ j : Fin 16, (BitVec.ofNat 16 (lowerOfTwo 16)).getLsbD j.val = decide (j.val % 2 = 0) := by decide
    exact this ⟨i, hi⟩
  · have : ∀ j : Fin 32, (BitVec.ofNat 32 (lowerOfTwo 32)).getLsbD j.val = decide (j.val % 2 = 0) := by decide
    exact this ⟨i, hi⟩
  · have : ∀ j : Fin 64, (BitVec.ofNat 64 (lowerOfTwo 64)).getLsbD j.val = decide (j.val % 2 = 0) := by decide
    exact this ⟨i, hi⟩
  · have : ∀ j : Fin 128, (BitVec.ofNat 128 (lowerOfTwo 128)).getLsbD j.val = decide (j.val % 2 = 0) := by decide +kernel
    exact this ⟨i, hi⟩

/-- counting over even indices = counting over halves -/
theorem countP_even (P : Nat → Bool) : ∀ m, (List.range (2 * m)).countP (fun i => decide (i % 2 = 0) && P (i / 2)) = (List.range m).countP P := by
  intro m
  induction m with
  | zero => simp
  | succ m ih =>
    rw [show 2 * (m + 1) = (2 * m + 1) + 1 by omega, List.range_succ, List.range_succ, List.range_succ,
      List.countP_append, List.countP_append, List.countP_append, ih]
    have e1 : (2 * m) % 2 = 0 := by omega
    have e2 : (2 * m + 1) % 2 = 1 := by omega
    have e3 : (2 * m) / 2 = m := by omega
    simp [List.countP_cons, e1, e2, e3]

theorem countP_range_congr (P Q : Nat → Bool) (n : Nat) (h : ∀ i, i < n → P i = Q i) :
    (List.range n).countP P = (List.range n).countP Q := by
  apply List.countP_congr
  intro i hi
  rw [h i (List.mem_range.mp hi)]

/-- counting up to `n ≥ m` when the predicate vanishes from `m` on -/
theorem countP_range_trunc (P : Nat → Bool) (m n : Nat) (hmn : m ≤ n) (h : ∀ i, m ≤ i → i < n → P i = false) :
    (List.range n).countP P = (List.range m).countP P := by
  induction n with
  | zero => have : m = 0 := by omega
            subst this; rfl
  | succ n ih =>
    by_cases hm : m = n + 1
    · subst hm; rfl
    · rw [List.range_succ, List.countP_append, ih (by omega) (fun i h1 h2 => h i h1 (by omega))]
      simp [List.countP_cons, h n (by omega) (by omega)]

/-- counting over `range K` is invariant under the reversal `j ↦ K-1-j` -/
theorem countP_range_rev (P : Nat → Bool) (K : Nat) :
    (List.range K).countP (fun j => P (K - 1 - j)) = (List.range K).countP P := by
  have : (List.range K).map (fun j => K - 1 - j) = (List.range K).reverse := by
    apply List.ext_getElem
    · simp
    · intro i h1 h2
      simp only [List.length_map, List.length_range] at h1
      simp [List.getElem_reverse]
  have e : (List.range K).countP (fun j => P (K - 1 - j)) = ((List.range K).map (fun j => K - 1 - j)).countP P := by
    rw [List.countP_map]; rfl
  rw [e, this, List.countP_reverse]

/-- popcount of a word whose bit `i` is `even i ∧ Q (i/2)`, with `Q` vanishing on lanes ≥ K -/
theorem popcount_lanes (hc : c.WF) (hw : c.w % 2 = 0) (y : St c) (Q : Nat → Bool)
    (hy : ∀ i, i < c.w → y.getLsbD i = (decide (i % 2 = 0) && Q (i / 2)))
    (hQ : ∀ j, c.K ≤ j → j < c.w / 2 → Q j = false) :
    popcount y = (List.range c.K).countP Q := by
  unfold popcount
  have e : c.w = 2 * (c.w / 2) := by omega
  rw [countP_range_congr _ _ c.w hy]
  conv => lhs; rw [e]
  rw [countP_even Q (c.w / 2)]
  exact countP_range_trunc Q c.K (c.w / 2) (by have := hc.hw; omega) hQ

/-- positions differ ⇔ one of the two lane bits differs -/
theorem get_ne_iff (hc : c.WF) (s t : St c) (q : Nat) :
    (get c s q != get c t q) = ((s.getLsbD (addr c q) != t.getLsbD (addr c q)) || (s.getLsbD (addr c q + 1) != t.getLsbD (addr c q + 1))) := by
  have := get_eq_iff hc s t q
  by_cases h : get c s q = get c t q
  · obtain ⟨a, b⟩ := this.mp h
    simp [h, a, b]
  · have hn : ¬ (s.getLsbD (addr c q) = t.getLsbD (addr c q) ∧ s.getLsbD (addr c q + 1) = t.getLsbD (addr c q + 1)) := fun hh => h (this.mpr hh)
    have : (get c s q != get c t q) = true := by simpa using h
    rw [this]
    cases ha : s.getLsbD (addr c q) <;> cases hb : t.getLsbD (addr c q) <;> cases hc' : s.getLsbD (addr c q + 1) <;>
      cases hd : t.getLsbD (addr c q + 1) <;> simp_all

theorem hamming_list (c : Cfg) (s t : St c) :
    KSpec.hamming (toSeq c s) (toSeq c t) = (List.range c.K).countP (fun q => get c s q != get c t q) := by
  unfold KSpec.hamming toSeq
  rw [List.zip_map', List.countP_map]
  rfl

/-- **Hamming distance** = number of differing positions -/
theorem hammingDist_spec (hc : c.WF) (hw : c.w ∈ [8, 16, 32, 64, 128]) (s t : St c) (hs : Inv c s) (ht : Inv c t) :
    hammingDist c s t = KSpec.hamming (toSeq c s) (toSeq c t) := by
  have hev : c.w % 2 = 0 := by
    simp only [List.mem_cons, List.mem_nil_iff, or_false] at hw
    rcases hw with h | h | h | h | h <;> omega
  have hK := hc.hK; have hwk := hc.hw
  rw [hamming_list]
  unfold hammingDist
  -- lane predicate: the two bits of lane j (from the low end) differ somewhere
  let Q : Nat → Bool := fun j => (s.getLsbD (2 * j) != t.getLsbD (2 * j)) || (s.getLsbD (2 * j + 1) != t.getLsbD (2 * j + 1))
  rw [popcount_lanes hc hev _ Q]
  · -- lanes from the low end ↔ positions from the high end
    rw [← countP_range_rev _ c.K]
    apply countP_range_congr
    intro j hj
    rw [get_ne_iff hc]
    have : addr c j = 2 * (c.K - 1 - j) := by unfold addr; omega
    simp only [this, Q]
  · intro i hi
    simp only [BitVec.getLsbD_and, BitVec.getLsbD_or, BitVec.getLsbD_xor, BitVec.getLsbD_ushiftRight]
    rw [lowerOfTwo_bits c.w hw i hi]
    by_cases he : i % 2 = 0
    · have e1 : 2 * (i / 2) = i := by omega
      have e2 : 2 * (i / 2) + 1 = 1 + i := by omega
      have hx : ∀ a b : Bool, (a ^^ b) = (a != b) := by decide
      simp only [he, decide_true, Bool.true_and, Bool.and_true, Q, e1, e2, hx, Nat.add_comm 1 i]
    · simp [he]
  · intro j hj1 hj2
    simp only [Q]
    rw [hs (2 * j) (by omega), ht (2 * j) (by omega), hs (2 * j + 1) (by omega), ht (2 * j + 1) (by omega)]
    rfl

/-- a base is A or T iff its two bits agree; C or G iff they differ -/
theorem get_at_iff (hc : c.WF) (s : St c) (q : Nat) :
    (get c s q == 0 || get c s q == 3) = !(s.getLsbD (addr c q + 1) != s.getLsbD (addr c q)) ∧
    (get c s q == 1 || get c s q == 2) = (s.getLsbD (addr c q + 1) != s.getLsbD (addr c q)) := by
  rw [get_bits hc]
  cases s.getLsbD (addr c q + 1) <;> cases s.getLsbD (addr c q) <;> simp

/-- the word counted by `at_count` (`neg = true`) / `gc_count` (`neg = false`) -/
def mixWord (c : Cfg) (s : St c) (neg : Bool) : St c :=
  let mix := if neg then ~~~((s >>> 1) ^^^ s) else (s >>> 1) ^^^ s
  if c.var then mix &&& ~~~(topMask c 0) &&& BitVec.ofNat c.w (lowerOfTwo c.w) else mix &&& BitVec.ofNat c.w (lowerOfTwo c.w)

theorem atCount_eq (s : St c) : atCount c s = popcount (mixWord c s true) := by
  unfold atCount mixWord; split <;> simp_all
theorem gcCount_eq (s : St c) : gcCount c s = popcount (mixWord c s false) := by
  unfold gcCount mixWord; split <;> simp_all

theorem mix_count (hc : c.WF) (hw : c.w ∈ [8, 16, 32, 64, 128]) (s : St c) (neg : Bool) :
    popcount (mixWord c s neg) =
      (List.range c.K).countP (fun q => (if neg then !(s.getLsbD (addr c q + 1) != s.getLsbD (addr c q))
                                         else (s.getLsbD (addr c q + 1) != s.getLsbD (addr c q)))) := by
  have hev : c.w % 2 = 0 := by
    simp only [List.mem_cons, List.mem_nil_iff, or_false] at hw
    rcases hw with h | h | h | h | h <;> omega
  have hK := hc.hK; have hwk := hc.hw
  let Q : Nat → Bool := fun j => decide (j < c.K) &&
    (if neg then !(s.getLsbD (2 * j + 1) != s.getLsbD (2 * j)) else (s.getLsbD (2 * j + 1) != s.getLsbD (2 * j)))
  rw [popcount_lanes hc hev _ Q]
  · rw [← countP_range_rev _ c.K]
    apply countP_range_congr
    intro j hj
    have : addr c j = 2 * (c.K - 1 - j) := by unfold addr; omega
    have hlt : c.K - 1 - j < c.K := by omega
    simp only [this, Q, hlt, decide_true, Bool.true_and]
  · intro i hi
    have hx : ∀ a b : Bool, (a ^^ b) = (a != b) := by decide
    unfold mixWord
    by_cases hv : c.var = true
    · simp only [hv, if_true, BitVec.getLsbD_and, BitVec.getLsbD_not, hi, decide_true, Bool.true_and]
      rw [lowerOfTwo_bits c.w hw i hi, topMask0_bits hc hv i hi]
      by_cases he : i % 2 = 0
      · have e1 : 2 * (i / 2) = i := by omega
        have e2 : 2 * (i / 2) + 1 = 1 + i := by omega
        have e3 : decide (i / 2 < c.K) = !decide (2 * c.K ≤ i) := by
          by_cases h : 2 * c.K ≤ i
          · have : ¬ i / 2 < c.K := by omega
            simp [h, this]
          · have : i / 2 < c.K := by omega
            simp [h, this]
        cases neg
        · simp only [Bool.false_eq_true, if_false, BitVec.getLsbD_xor, BitVec.getLsbD_ushiftRight, he, decide_true,
            Bool.and_true, Bool.true_and, Q, e1, e2, e3, hx, Nat.add_comm 1 i]
          exact Bool.and_comm _ _
        · simp only [if_true, BitVec.getLsbD_not, BitVec.getLsbD_xor, BitVec.getLsbD_ushiftRight, hi, decide_true,
            Bool.true_and, he, Bool.and_true, Q, e1, e2, e3, hx, Nat.add_comm 1 i]
          exact Bool.and_comm _ _
      · simp [he]
    · have hv' : c.var = false := by cases h : c.var <;> simp_all
      have hfull := hc.hint hv'
      simp only [hv', Bool.false_eq_true, if_false, BitVec.getLsbD_and]
      rw [lowerOfTwo_bits c.w hw i hi]
      by_cases he : i % 2 = 0
      · have e1 : 2 * (i / 2) = i := by omega
        have e2 : 2 * (i / 2) + 1 = 1 + i := by omega
        have e3 : i / 2 < c.K := by omega
        cases neg
        · simp only [Bool.false_eq_true, if_false, BitVec.getLsbD_xor, BitVec.getLsbD_ushiftRight, he, decide_true,
            Bool.and_true, Bool.true_and, Q, e1, e2, e3, hx, Nat.add_comm 1 i]
        · simp only [if_true, BitVec.getLsbD_not, BitVec.getLsbD_xor, BitVec.getLsbD_ushiftRight, hi, decide_true,
            Bool.true_and, he, Bool.and_true, Q, e1, e2, e3, hx, Nat.add_comm 1 i]
      · simp [he]
  · intro j hj1 hj2
    have : ¬ j < c.K := by omega
    simp [Q, this]

/-- **AT / GC counts** = number of A/T (resp. C/G) positions; no invariant needed (unused bits are masked or absent) -/
theorem atCount_spec (hc : c.WF) (hw : c.w ∈ [8, 16, 32, 64, 128]) (s : St c) :
    atCount c s = KSpec.atCount (toSeq c s) := by
  rw [atCount_eq, mix_count hc hw s true]
  unfold KSpec.atCount toSeq
  rw [List.countP_map]
  apply countP_range_congr
  intro q _
  simp only [if_true, Function.comp]
  exact ((get_at_iff hc s q).1).symm

theorem gcCount_spec (hc : c.WF) (hw : c.w ∈ [8, 16, 32, 64, 128]) (s : St c) :
    gcCount c s = KSpec.gcCount (toSeq c s) := by
  rw [gcCount_eq, mix_count hc hw s false]
  unfold KSpec.gcCount toSeq
  rw [List.countP_map]
  apply countP_range_congr
  intro q _
  simp only [Bool.false_eq_true, if_false, Function.comp]
  exact ((get_at_iff hc s q).2).symm

end Kmer
