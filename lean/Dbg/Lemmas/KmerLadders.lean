import Dbg.Model.Kmer
import Dbg.Lemmas.Ladder128
/-! Kernel-only proofs that each `reverse_by_twos` ladder, with the masks and shifts extracted from kmer.rs,
    reverses the 2-bit lanes of its word.  (File produced by a script, one section per storage width.) -/
namespace Kmer
open Ladder

theorem mask8_2 : IsBlockMask (BitVec.ofNat 8 51) 2 := by
  intro i hi
  have : ∀ j : Fin 8, (BitVec.ofNat 8 51).getLsbD j.val = decide (j.val % (2 * 2) < 2) := by decide
  exact this ⟨i, hi⟩
theorem mask8_4 : IsBlockMask (BitVec.ofNat 8 15) 4 := by
  intro i hi
  have : ∀ j : Fin 8, (BitVec.ofNat 8 15).getLsbD j.val = decide (j.val % (2 * 4) < 4) := by decide
  exact this ⟨i, hi⟩
theorem idx8 : ∀ j : Fin 8, swapIdx 2 (swapIdx 4 (j.val)) = 2 * (3 - j.val / 2) + j.val % 2 ∧ swapIdx 4 (j.val) < 8 := by decide
theorem revTwos_eq8 (x : BitVec 8) : revTwos x = swapStep (swapStep (x) (BitVec.ofNat 8 51) 2) (BitVec.ofNat 8 15) 4 := rfl
theorem revTwos_spec8 (x : BitVec 8) (i : Nat) (hi : i < 8) :
    (revTwos x).getLsbD i = x.getLsbD (2 * (3 - i / 2) + i % 2) := by
  obtain ⟨h0, h1⟩ := idx8 ⟨i, hi⟩
  simp only at h0 h1
  rw [revTwos_eq8]
  rw [swap4 _ _ (by decide) mask8_4 i hi]
  rw [swap2 _ _ (by decide) mask8_2 _ h1]
  rw [h0]

theorem mask16_2 : IsBlockMask (BitVec.ofNat 16 13107) 2 := by
  intro i hi
  have : ∀ j : Fin 16, (BitVec.ofNat 16 13107).getLsbD j.val = decide (j.val % (2 * 2) < 2) := by decide
  exact this ⟨i, hi⟩
theorem mask16_4 : IsBlockMask (BitVec.ofNat 16 3855) 4 := by
  intro i hi
  have : ∀ j : Fin 16, (BitVec.ofNat 16 3855).getLsbD j.val = decide (j.val % (2 * 4) < 4) := by decide
  exact this ⟨i, hi⟩
theorem mask16_8 : IsBlockMask (BitVec.ofNat 16 255) 8 := by
  intro i hi
  have : ∀ j : Fin 16, (BitVec.ofNat 16 255).getLsbD j.val = decide (j.val % (2 * 8) < 8) := by decide
  exact this ⟨i, hi⟩
theorem idx16 : ∀ j : Fin 16, swapIdx 2 (swapIdx 4 (swapIdx 8 (j.val))) = 2 * (7 - j.val / 2) + j.val % 2 ∧ swapIdx 4 (swapIdx 8 (j.val)) < 16 ∧ swapIdx 8 (j.val) < 16 := by decide
theorem revTwos_eq16 (x : BitVec 16) : revTwos x = swapStep (swapStep (swapStep (x) (BitVec.ofNat 16 13107) 2) (BitVec.ofNat 16 3855) 4) (BitVec.ofNat 16 255) 8 := rfl
theorem revTwos_spec16 (x : BitVec 16) (i : Nat) (hi : i < 16) :
    (revTwos x).getLsbD i = x.getLsbD (2 * (7 - i / 2) + i % 2) := by
  obtain ⟨h0, h1, h2⟩ := idx16 ⟨i, hi⟩
  simp only at h0 h1 h2
  rw [revTwos_eq16]
  rw [swap8 _ _ (by decide) mask16_8 i hi]
  rw [swap4 _ _ (by decide) mask16_4 _ h2]
  rw [swap2 _ _ (by decide) mask16_2 _ h1]
  rw [h0]

theorem mask32_2 : IsBlockMask (BitVec.ofNat 32 858993459) 2 := by
  intro i hi
  have : ∀ j : Fin 32, (BitVec.ofNat 32 858993459).getLsbD j.val = decide (j.val % (2 * 2) < 2) := by decide
  exact this ⟨i, hi⟩
theorem mask32_4 : IsBlockMask (BitVec.ofNat 32 252645135) 4 := by
  intro i hi
  have : ∀ j : Fin 32, (BitVec.ofNat 32 252645135).getLsbD j.val = decide (j.val % (2 * 4) < 4) := by decide
  exact this ⟨i, hi⟩
theorem mask32_8 : IsBlockMask (BitVec.ofNat 32 16711935) 8 := by
  intro i hi
  have : ∀ j : Fin 32, (BitVec.ofNat 32 16711935).getLsbD j.val = decide (j.val % (2 * 8) < 8) := by decide
  exact this ⟨i, hi⟩
theorem mask32_16 : IsBlockMask (BitVec.ofNat 32 65535) 16 := by
  intro i hi
  have : ∀ j : Fin 32, (BitVec.ofNat 32 65535).getLsbD j.val = decide (j.val % (2 * 16) < 16) := by decide
  exact this ⟨i, hi⟩
theorem idx32 : ∀ j : Fin 32, swapIdx 2 (swapIdx 4 (swapIdx 8 (swapIdx 16 (j.val)))) = 2 * (15 - j.val / 2) + j.val % 2 ∧ swapIdx 4 (swapIdx 8 (swapIdx 16 (j.val))) < 32 ∧ swapIdx 8 (swapIdx 16 (j.val)) < 32 ∧ swapIdx 16 (j.val) < 32 := by decide
theorem revTwos_eq32 (x : BitVec 32) : revTwos x = swapStep (swapStep (swapStep (swapStep (x) (BitVec.ofNat 32 858993459) 2) (BitVec.ofNat 32 252645135) 4) (BitVec.ofNat 32 16711935) 8) (BitVec.ofNat 32 65535) 16 := rfl
theorem revTwos_spec32 (x : BitVec 32) (i : Nat) (hi : i < 32) :
    (revTwos x).getLsbD i = x.getLsbD (2 * (15 - i / 2) + i % 2) := by
  obtain ⟨h0, h1, h2, h3⟩ := idx32 ⟨i, hi⟩
  simp only at h0 h1 h2 h3
  rw [revTwos_eq32]
  rw [swap16 _ _ (by decide) mask32_16 i hi]
  rw [swap8 _ _ (by decide) mask32_8 _ h3]
  rw [swap4 _ _ (by decide) mask32_4 _ h2]
  rw [swap2 _ _ (by decide) mask32_2 _ h1]
  rw [h0]

theorem mask64_2 : IsBlockMask (BitVec.ofNat 64 3689348814741910323) 2 := by
  intro i hi
  have : ∀ j : Fin 64, (BitVec.ofNat 64 3689348814741910323).getLsbD j.val = decide (j.val % (2 * 2) < 2) := by decide
  exact this ⟨i, hi⟩
theorem mask64_4 : IsBlockMask (BitVec.ofNat 64 1085102592571150095) 4 := by
  intro i hi
  have : ∀ j : Fin 64, (BitVec.ofNat 64 1085102592571150095).getLsbD j.val = decide (j.val % (2 * 4) < 4) := by decide
  exact this ⟨i, hi⟩
theorem mask64_8 : IsBlockMask (BitVec.ofNat 64 71777214294589695) 8 := by
  intro i hi
  have : ∀ j : Fin 64, (BitVec.ofNat 64 71777214294589695).getLsbD j.val = decide (j.val % (2 * 8) < 8) := by decide
  exact this ⟨i, hi⟩
theorem mask64_16 : IsBlockMask (BitVec.ofNat 64 281470681808895) 16 := by
  intro i hi
  have : ∀ j : Fin 64, (BitVec.ofNat 64 281470681808895).getLsbD j.val = decide (j.val % (2 * 16) < 16) := by decide
  exact this ⟨i, hi⟩
theorem mask64_32 : IsBlockMask (BitVec.ofNat 64 4294967295) 32 := by
  intro i hi
  have : ∀ j : Fin 64, (BitVec.ofNat 64 4294967295).getLsbD j.val = decide (j.val % (2 * 32) < 32) := by decide
  exact this ⟨i, hi⟩
theorem idx64 : ∀ j : Fin 64, swapIdx 2 (swapIdx 4 (swapIdx 8 (swapIdx 16 (swapIdx 32 (j.val))))) = 2 * (31 - j.val / 2) + j.val % 2 ∧ swapIdx 4 (swapIdx 8 (swapIdx 16 (swapIdx 32 (j.val)))) < 64 ∧ swapIdx 8 (swapIdx 16 (swapIdx 32 (j.val))) < 64 ∧ swapIdx 16 (swapIdx 32 (j.val)) < 64 ∧ swapIdx 32 (j.val) < 64 := by decide
theorem revTwos_eq64 (x : BitVec 64) : revTwos x = swapStep (swapStep (swapStep (swapStep (swapStep (x) (BitVec.ofNat 64 3689348814741910323) 2) (BitVec.ofNat 64 1085102592571150095) 4) (BitVec.ofNat 64 71777214294589695) 8) (BitVec.ofNat 64 281470681808895) 16) (BitVec.ofNat 64 4294967295) 32 := rfl
theorem revTwos_spec64 (x : BitVec 64) (i : Nat) (hi : i < 64) :
    (revTwos x).getLsbD i = x.getLsbD (2 * (31 - i / 2) + i % 2) := by
  obtain ⟨h0, h1, h2, h3, h4⟩ := idx64 ⟨i, hi⟩
  simp only at h0 h1 h2 h3 h4
  rw [revTwos_eq64]
  rw [swap32 _ _ (by decide) mask64_32 i hi]
  rw [swap16 _ _ (by decide) mask64_16 _ h4]
  rw [swap8 _ _ (by decide) mask64_8 _ h3]
  rw [swap4 _ _ (by decide) mask64_4 _ h2]
  rw [swap2 _ _ (by decide) mask64_2 _ h1]
  rw [h0]

theorem mask128_2 : IsBlockMask (BitVec.ofNat 128 68056473384187692692674921486353642291) 2 := by
  intro i hi
  have : ∀ j : Fin 128, (BitVec.ofNat 128 68056473384187692692674921486353642291).getLsbD j.val = decide (j.val % (2 * 2) < 2) := by decide +kernel
  exact this ⟨i, hi⟩
theorem mask128_4 : IsBlockMask (BitVec.ofNat 128 20016609818878733144904388672456953615) 4 := by
  intro i hi
  have : ∀ j : Fin 128, (BitVec.ofNat 128 20016609818878733144904388672456953615).getLsbD j.val = decide (j.val % (2 * 4) < 4) := by decide +kernel
  exact this ⟨i, hi⟩
theorem mask128_8 : IsBlockMask (BitVec.ofNat 128 1324055902416102970674609367438786815) 8 := by
  intro i hi
  have : ∀ j : Fin 128, (BitVec.ofNat 128 1324055902416102970674609367438786815).getLsbD j.val = decide (j.val % (2 * 8) < 8) := by decide +kernel
  exact this ⟨i, hi⟩
theorem mask128_16 : IsBlockMask (BitVec.ofNat 128 5192217631581220737344928932233215) 16 := by
  intro i hi
  have : ∀ j : Fin 128, (BitVec.ofNat 128 5192217631581220737344928932233215).getLsbD j.val = decide (j.val % (2 * 16) < 16) := by decide +kernel
  exact this ⟨i, hi⟩
theorem mask128_32 : IsBlockMask (BitVec.ofNat 128 79228162495817593524129366015) 32 := by
  intro i hi
  have : ∀ j : Fin 128, (BitVec.ofNat 128 79228162495817593524129366015).getLsbD j.val = decide (j.val % (2 * 32) < 32) := by decide +kernel
  exact this ⟨i, hi⟩
theorem mask128_64 : IsBlockMask (BitVec.ofNat 128 18446744073709551615) 64 := by
  intro i hi
  have : ∀ j : Fin 128, (BitVec.ofNat 128 18446744073709551615).getLsbD j.val = decide (j.val % (2 * 64) < 64) := by decide +kernel
  exact this ⟨i, hi⟩
theorem idx128 : ∀ j : Fin 128, swapIdx 2 (swapIdx 4 (swapIdx 8 (swapIdx 16 (swapIdx 32 (swapIdx 64 (j.val)))))) = 2 * (63 - j.val / 2) + j.val % 2 ∧ swapIdx 4 (swapIdx 8 (swapIdx 16 (swapIdx 32 (swapIdx 64 (j.val))))) < 128 ∧ swapIdx 8 (swapIdx 16 (swapIdx 32 (swapIdx 64 (j.val)))) < 128 ∧ swapIdx 16 (swapIdx 32 (swapIdx 64 (j.val))) < 128 ∧ swapIdx 32 (swapIdx 64 (j.val)) < 128 ∧ swapIdx 64 (j.val) < 128 := by decide +kernel
theorem revTwos_eq128 (x : BitVec 128) : revTwos x = swapStep (swapStep (swapStep (swapStep (swapStep (swapStep (x) (BitVec.ofNat 128 68056473384187692692674921486353642291) 2) (BitVec.ofNat 128 20016609818878733144904388672456953615) 4) (BitVec.ofNat 128 1324055902416102970674609367438786815) 8) (BitVec.ofNat 128 5192217631581220737344928932233215) 16) (BitVec.ofNat 128 79228162495817593524129366015) 32) (BitVec.ofNat 128 18446744073709551615) 64 := rfl
theorem revTwos_spec128 (x : BitVec 128) (i : Nat) (hi : i < 128) :
    (revTwos x).getLsbD i = x.getLsbD (2 * (63 - i / 2) + i % 2) := by
  obtain ⟨h0, h1, h2, h3, h4, h5⟩ := idx128 ⟨i, hi⟩
  simp only at h0 h1 h2 h3 h4 h5
  rw [revTwos_eq128]
  rw [swap64 _ _ (by decide) mask128_64 i hi]
  rw [swap32 _ _ (by decide) mask128_32 _ h5]
  rw [swap16 _ _ (by decide) mask128_16 _ h4]
  rw [swap8 _ _ (by decide) mask128_8 _ h3]
  rw [swap4 _ _ (by decide) mask128_4 _ h2]
  rw [swap2 _ _ (by decide) mask128_2 _ h1]
  rw [h0]

end Kmer
