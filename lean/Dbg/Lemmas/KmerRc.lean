import Dbg.Lemmas.KmerLadders
import Dbg.Lemmas.KmerBits
/-! Reverse complement of the packed k-mer model refines `KSpec.rc`. -/
namespace Kmer
variable {c : Cfg}

theorem revTwos_spec (w : Nat) (hw : w ∈ [8, 16, 32, 64, 128]) (x : BitVec w) (i : Nat) (hi : i < w) :
    (revTwos x).getLsbD i = x.getLsbD (2 * (w / 2 - 1 - i / 2) + i % 2) := by
  simp only [List.mem_cons, List.mem_nil_iff, or_false] at hw
  rcases hw with rfl | rfl | rfl | rfl | rfl
  · exact revTwos_spec8 x i hi
  · exact revTwos_spec16 x i hi
  · exact revTwos_spec32 x i hi
  · exact revTwos_spec64 x i hi
  · exact revTwos_spec128 x i hi

/-- bits of `rc`: lane `j` of the result is the complement of lane `K-1-j`; unused bits are zero -/
theorem rc_bits (hc : c.WF) (hw : c.w ∈ [8, 16, 32, 64, 128]) (s : St c) (i : Nat) (hi : i < c.w) :
    (rc c s).getLsbD i = (decide (i < 2 * c.K) && !s.getLsbD (2 * (c.K - 1 - i / 2) + i % 2)) := by
  have hK := hc.hK; have hwk := hc.hw
  have hev : c.w % 2 = 0 := by
    simp only [List.mem_cons, List.mem_nil_iff, or_false] at hw
    rcases hw with h | h | h | h | h <;> omega
  unfold rc
  by_cases hsh : (c.var && decide (c.K < c.w / 2)) = true
  · simp only [hsh, if_true]
    simp only [Bool.and_eq_true, decide_eq_true_eq] at hsh
    rw [BitVec.getLsbD_ushiftRight]
    by_cases h2 : i < 2 * c.K
    · have hi2 : 2 * (c.w / 2 - c.K) + i < c.w := by omega
      rw [BitVec.getLsbD_not, revTwos_spec c.w hw s _ hi2]
      have e : 2 * (c.w / 2 - 1 - (2 * (c.w / 2 - c.K) + i) / 2) + (2 * (c.w / 2 - c.K) + i) % 2
          = 2 * (c.K - 1 - i / 2) + i % 2 := by omega
      rw [e]; simp [hi2, h2]
    · have : ¬ 2 * (c.w / 2 - c.K) + i < c.w := by omega
      rw [BitVec.getLsbD_of_ge _ _ (by omega)]
      simp [h2]
  · simp only [hsh, Bool.false_eq_true, if_false]
    have hfull : c.w = 2 * c.K := by
      by_cases hv : c.var = true
      · simp only [hv, Bool.true_and, decide_eq_true_eq] at hsh; omega
      · exact hc.hint (by cases h : c.var <;> simp_all)
    rw [BitVec.getLsbD_not, revTwos_spec c.w hw s i hi]
    have e : c.w / 2 = c.K := by omega
    have : i < 2 * c.K := by omega
    simp [hi, e, this]

theorem inv_rc (hc : c.WF) (hw : c.w ∈ [8, 16, 32, 64, 128]) (s : St c) : Inv c (rc c s) := by
  intro i hi
  by_cases h : i < c.w
  · rw [rc_bits hc hw s i h]
    have : ¬ i < 2 * c.K := by omega
    simp [this]
  · exact BitVec.getLsbD_of_ge _ _ (by omega)

/-- `get` after `rc`: position `q` holds the complement of the base at `K-1-q` -/
theorem get_rc (hc : c.WF) (hw : c.w ∈ [8, 16, 32, 64, 128]) (s : St c) (q : Nat) (hq : q < c.K) :
    get c (rc c s) q = 3 - get c s (c.K - 1 - q) := by
  have hq1 := addr_lt hc q hq
  rw [get_bits hc, get_bits hc, rc_bits hc hw s _ hq1, rc_bits hc hw s _ (by omega)]
  have a1 : addr c q + 1 < 2 * c.K := by unfold addr; omega
  have a0 : addr c q < 2 * c.K := by omega
  have e1 : 2 * (c.K - 1 - (addr c q + 1) / 2) + (addr c q + 1) % 2 = addr c (c.K - 1 - q) + 1 := by unfold addr; omega
  have e0 : 2 * (c.K - 1 - addr c q / 2) + addr c q % 2 = addr c (c.K - 1 - q) := by unfold addr; omega
  rw [e1, e0]
  simp only [a1, a0, decide_true, Bool.true_and]
  cases s.getLsbD (addr c (c.K - 1 - q) + 1) <;> cases s.getLsbD (addr c (c.K - 1 - q)) <;> simp

/-- **`rc` refines reverse complement of the string.** -/
theorem toSeq_rc (hc : c.WF) (hw : c.w ∈ [8, 16, 32, 64, 128]) (s : St c) :
    toSeq c (rc c s) = KSpec.rc (toSeq c s) := by
  apply List.ext_getElem
  · simp [toSeq, KSpec.rc]
  · intro q h1 h2
    simp only [toSeq, List.length_map, List.length_range] at h1
    simp only [toSeq, KSpec.rc, List.getElem_map, List.getElem_range, List.getElem_reverse, List.length_map,
      List.length_range, KSpec.comp]
    exact get_rc hc hw s q h1

end Kmer
