import Dbg.Lemmas.KmerBits
import Dbg.Lemmas.Mask
/-! `extend_left` / `extend_right` / masks of the packed k-mer model refine the list operations. -/
namespace Kmer
variable {c : Cfg}

/-- bits of `top_mask(0)` of the partial-width type: exactly the unused high bits -/
theorem topMask0_bits (hc : c.WF) (hv : c.var = true) (i : Nat) (hi : i < c.w) :
    (topMask c 0).getLsbD i = decide (2 * c.K ≤ i) := by
  unfold topMask
  simp only [hv, if_true, Nat.zero_mul, Nat.zero_add]
  have hw := hc.hw
  by_cases h0 : c.w - c.K * 2 > 0
  · simp only [h0, if_true]
    rw [BitVec.getLsbD_shiftLeft, Mask.lowMask_getLsbD c.w (c.w - c.K * 2) _ (by omega)]
    have e : c.w - (c.w - c.K * 2) = c.K * 2 := by omega
    rw [e]
    by_cases h : 2 * c.K ≤ i
    · have : ¬ i < c.K * 2 := by omega
      have h2 : i - c.K * 2 < c.w - c.K * 2 := by omega
      have h3 : i - c.K * 2 < c.w := by omega
      simp [h, hi, this, h2, h3]
    · have : i < c.K * 2 := by omega
      simp [h, this]
  · simp only [h0, if_false]
    have : ¬ 2 * c.K ≤ i := by omega
    simp [this]

theorem get_congr (hc : c.WF) (s t : St c) (p q : Nat)
    (h0 : s.getLsbD (addr c p) = t.getLsbD (addr c q)) (h1 : s.getLsbD (addr c p + 1) = t.getLsbD (addr c q + 1)) :
    get c s p = get c t q := by
  rw [get_bits hc, get_bits hc, h0, h1]

/-- the storage after the shift of `extend_right`, before the new base is written -/
def shiftedR (c : Cfg) (s : St c) : St c := if c.var then (s <<< 2) &&& ~~~(topMask c 0) else s <<< 2

theorem shiftedR_bits (hc : c.WF) (s : St c) (i : Nat) (hi : i < c.w) :
    (shiftedR c s).getLsbD i = (decide (2 ≤ i) && decide (i < 2 * c.K) && s.getLsbD (i - 2)) := by
  unfold shiftedR
  by_cases hv : c.var = true
  · simp only [hv, if_true, BitVec.getLsbD_and, BitVec.getLsbD_not, BitVec.getLsbD_shiftLeft, hi, decide_true, Bool.true_and]
    rw [topMask0_bits hc hv i hi]
    by_cases h2 : i < 2 <;> by_cases hk : 2 * c.K ≤ i <;> simp [h2, hk] <;> omega
  · have hv' : c.var = false := by cases h : c.var <;> simp_all
    have hw := hc.hint hv'
    simp only [hv', Bool.false_eq_true, if_false, BitVec.getLsbD_shiftLeft, hi, decide_true, Bool.true_and]
    have : i < 2 * c.K := by omega
    by_cases h2 : i < 2 <;> simp [h2, this] <;> omega

theorem extendRight_eq (s : St c) (v : Nat) : extendRight c s v = setMut c (shiftedR c s) (c.K - 1) v := by
  unfold extendRight shiftedR; split <;> rfl

/-- `get` after `extend_right` -/
theorem get_extendRight (hc : c.WF) (s : St c) (v q : Nat) (hq : q < c.K) (hv : v < 4) :
    get c (extendRight c s v) q = if q = c.K - 1 then v else get c s (q + 1) := by
  have hK := hc.hK
  rw [extendRight_eq, get_setMut hc _ (c.K - 1) v q (by omega) hq hv]
  by_cases h : q = c.K - 1
  · simp [h]
  · simp only [h, if_false]
    have hq1 := addr_lt hc q hq
    apply get_congr hc
    · rw [shiftedR_bits hc s _ (by omega)]
      have e : addr c q - 2 = addr c (q + 1) := by unfold addr; omega
      have : 2 ≤ addr c q := by unfold addr; omega
      have : addr c q < 2 * c.K := by unfold addr; omega
      simp [*]
    · rw [shiftedR_bits hc s _ hq1]
      have e : addr c q + 1 - 2 = addr c (q + 1) + 1 := by unfold addr; omega
      have : 2 ≤ addr c q + 1 := by unfold addr; omega
      have : addr c q + 1 < 2 * c.K := by unfold addr; omega
      simp [*]

/-- **`extend_right` refines "drop the first base, append `v`".** -/
theorem toSeq_extendRight (hc : c.WF) (s : St c) (v : Nat) (hv : v < 4) :
    toSeq c (extendRight c s v) = KSpec.extendRight (toSeq c s) v := by
  have hK := hc.hK
  apply List.ext_getElem
  · simp [toSeq, KSpec.extendRight]; omega
  · intro q h1 h2
    simp only [toSeq, List.length_map, List.length_range] at h1
    simp only [toSeq, KSpec.extendRight, List.getElem_map, List.getElem_range]
    rw [get_extendRight hc s v q h1 hv]
    by_cases h : q = c.K - 1
    · subst h
      rw [List.getElem_append_right (by simp)]
      simp
    · rw [List.getElem_append_left (by simp; omega)]
      simp [h]

theorem inv_shiftedR (hc : c.WF) (s : St c) : Inv c (shiftedR c s) := by
  intro i hi
  by_cases hw : i < c.w
  · rw [shiftedR_bits hc s i hw]
    have : ¬ i < 2 * c.K := by omega
    simp [this]
  · exact BitVec.getLsbD_of_ge _ _ (by omega)

/-- `extend_right` establishes the invariant whatever the input (it masks the unused bits) -/
theorem inv_extendRight (hc : c.WF) (s : St c) (v : Nat) (hv : v < 4) : Inv c (extendRight c s v) := by
  have hK := hc.hK
  rw [extendRight_eq]
  exact inv_setMut hc _ _ v (by omega) hv (inv_shiftedR hc s)

/-- both variants of `extend_left` write `v` into lane 0 of `s >> 2` -/
theorem extendLeft_bits (hc : c.WF) (s : St c) (v i : Nat) (hv : v < 4) (hi : i < c.w) (hs : Inv c s) :
    (extendLeft c s v).getLsbD i =
      if i = addr c 0 then v.testBit 0 else if i = addr c 0 + 1 then v.testBit 1 else s.getLsbD (i + 2) := by
  have hK := hc.hK
  unfold extendLeft
  by_cases hvar : c.var = true
  · simp only [hvar, if_true]
    rw [setMut_bits hc _ 0 v i hv hi]
    simp [BitVec.getLsbD_ushiftRight, Nat.add_comm]
  · have hv' : c.var = false := by cases h : c.var <;> simp_all
    have hw := hc.hint hv'
    simp only [hv', Bool.false_eq_true, if_false, BitVec.getLsbD_or, BitVec.getLsbD_ushiftRight]
    have ea : (c.K - 1) * 2 = addr c 0 := by unfold addr; omega
    rw [ea, ofNat_shift_bits c.w v _ i hv hi]
    have ha : addr c 0 = 2 * c.K - 2 := by unfold addr; omega
    by_cases h1 : i = addr c 0
    · subst h1
      have : s.getLsbD (2 + addr c 0) = false := hs _ (by omega)
      simp [this]
    · by_cases h2 : i = addr c 0 + 1
      · subst h2
        have : s.getLsbD (2 + (addr c 0 + 1)) = false := hs _ (by omega)
        have e : addr c 0 + 1 - addr c 0 = 1 := by omega
        simp [this, e]
      · simp only [h1, h2, if_false]
        have : ¬ addr c 0 ≤ i := by omega
        simp [this, Nat.add_comm]

/-- `get` after `extend_left` -/
theorem get_extendLeft (hc : c.WF) (s : St c) (v q : Nat) (hq : q < c.K) (hv : v < 4) (hs : Inv c s) :
    get c (extendLeft c s v) q = if q = 0 then v else get c s (q - 1) := by
  have hK := hc.hK
  have hq1 := addr_lt hc q hq
  rw [get_bits hc, extendLeft_bits hc s v _ hv hq1 hs, extendLeft_bits hc s v _ hv (by omega) hs]
  by_cases h : q = 0
  · subst h
    have e1 : addr c 0 + 1 ≠ addr c 0 := by omega
    rw [if_neg e1, if_pos rfl, if_pos rfl, if_pos rfl]
    exact toNat_of_testBits v hv
  · have n1 : addr c q ≠ addr c 0 := by unfold addr; omega
    have n2 : addr c q ≠ addr c 0 + 1 := by unfold addr; omega
    have n3 : addr c q + 1 ≠ addr c 0 := by unfold addr; omega
    have n4 : addr c q + 1 ≠ addr c 0 + 1 := by unfold addr; omega
    rw [if_neg n1, if_neg n2, if_neg n3, if_neg n4, if_neg h, get_bits hc]
    have e : addr c q + 2 = addr c (q - 1) := by unfold addr; omega
    rw [show addr c q + 1 + 2 = addr c q + 2 + 1 by omega, e]

/-- **`extend_left` refines "prepend `v`, drop the last base".** -/
theorem toSeq_extendLeft (hc : c.WF) (s : St c) (v : Nat) (hv : v < 4) (hs : Inv c s) :
    toSeq c (extendLeft c s v) = KSpec.extendLeft (toSeq c s) v := by
  have hK := hc.hK
  apply List.ext_getElem
  · simp [toSeq, KSpec.extendLeft]; omega
  · intro q h1 h2
    simp only [toSeq, List.length_map, List.length_range] at h1
    simp only [toSeq, KSpec.extendLeft, List.getElem_map, List.getElem_range]
    rw [get_extendLeft hc s v q h1 hv hs]
    cases q with
    | zero => simp
    | succ q => simp [List.getElem_dropLast]

theorem inv_extendLeft (hc : c.WF) (s : St c) (v : Nat) (hv : v < 4) (hs : Inv c s) : Inv c (extendLeft c s v) := by
  have hK := hc.hK
  intro i hi
  by_cases hw : i < c.w
  · rw [extendLeft_bits hc s v i hv hw hs]
    have e1 : i ≠ addr c 0 := by unfold addr; omega
    have e2 : i ≠ addr c 0 + 1 := by unfold addr; omega
    rw [if_neg e1, if_neg e2]; exact hs _ (by omega)
  · exact BitVec.getLsbD_of_ge _ _ (by omega)

end Kmer
