import Dbg.Lemmas.KmerBits
import Dbg.Lemmas.KmerOrder
import Dbg.Spec.C10
/-! `KmerOneHammingIter`: the iterator enumerates exactly the `3 K` strings at Hamming distance 1. -/
namespace Kmer
variable (c : Cfg)

/-- what the iterator yields at one position for one candidate base -/
def hItem (s : St c) (p ch : Nat) : Option (St c) := if get c s p = ch then none else some (setMut c s p ch)

def posItems (s : St c) (p : Nat) : List (St c) := (List.range' 0 4).filterMap (hItem c s p)

/-- what is left to yield from position `p`, candidate `ch` -/
def rem (s : St c) (p ch : Nat) : List (St c) :=
  (List.range' ch (4 - ch)).filterMap (hItem c s p) ++ (List.range' (p + 1) (c.K - (p + 1))).flatMap (posItems c s)

def remOf (it : HIter c) : List (St c) := if c.K ≤ it.position then [] else rem c it.source it.position it.ch

theorem next_spec (it : HIter c) :
    (HIter.next c it).2 = (remOf c it).head? ∧ remOf c (HIter.next c it).1 = (remOf c it).tail := by
  fun_induction HIter.next c it with
  | case1 it h => simp [remOf, h]
  | case2 it h1 h2 ih =>
    have hp : ¬ c.K ≤ it.position := h1
    obtain ⟨i1, i2⟩ := ih
    have e : remOf c it = remOf c ⟨it.source, it.position + 1, 0⟩ := by
      unfold remOf
      rw [if_neg hp]
      simp only
      have h40 : 4 - it.ch = 0 := by omega
      unfold rem
      rw [h40]
      simp only [List.range'_zero, List.filterMap_nil, List.nil_append]
      by_cases hq : c.K ≤ it.position + 1
      · rw [if_pos hq]
        have : c.K - (it.position + 1) = 0 := by omega
        rw [this]; rfl
      · rw [if_neg hq]
        have : c.K - (it.position + 1) = (c.K - (it.position + 1 + 1)) + 1 := by omega
        rw [this, List.range'_succ, List.flatMap_cons]
        rfl
    rw [e]; exact ⟨i1, i2⟩
  | case3 it h1 h2 h3 ih =>
    have hp : ¬ c.K ≤ it.position := h1
    obtain ⟨i1, i2⟩ := ih
    have e : remOf c it = remOf c ⟨it.source, it.position, it.ch + 1⟩ := by
      unfold remOf
      simp only
      rw [if_neg hp, if_neg hp]
      unfold rem
      have : 4 - it.ch = (4 - (it.ch + 1)) + 1 := by omega
      rw [this, List.range'_succ, List.filterMap_cons]
      have : hItem c it.source it.position it.ch = none := by simp [hItem, h3]
      rw [this]
    rw [e]; exact ⟨i1, i2⟩
  | case4 it h1 h2 h3 =>
    have hp : ¬ c.K ≤ it.position := h1
    have e : remOf c it = setMut c it.source it.position it.ch :: remOf c ⟨it.source, it.position, it.ch + 1⟩ := by
      unfold remOf
      simp only
      rw [if_neg hp, if_neg hp]
      unfold rem
      have : 4 - it.ch = (4 - (it.ch + 1)) + 1 := by omega
      rw [this, List.range'_succ, List.filterMap_cons]
      have : hItem c it.source it.position it.ch = some (setMut c it.source it.position it.ch) := by simp [hItem, h3]
      rw [this]; rfl
    rw [e]; exact ⟨rfl, rfl⟩

theorem collect_spec : ∀ (n : Nat) (it : HIter c), HIter.collect c n it = (remOf c it).take n := by
  intro n
  induction n with
  | zero => intro it; simp [HIter.collect]
  | succ n ih =>
    intro it
    unfold HIter.collect
    obtain ⟨h1, h2⟩ := next_spec c it
    cases hn : HIter.next c it with
    | mk it' o =>
      rw [hn] at h1 h2
      simp only at h1 h2
      cases hr : remOf c it with
      | nil =>
        rw [hr] at h1; simp only [List.head?_nil] at h1; subst h1
        simp
      | cons x r =>
        rw [hr] at h1 h2
        simp only [List.head?_cons, List.tail_cons] at h1 h2
        subst h1
        simp only [List.take_succ_cons]
        rw [ih it', h2]

theorem length_flatMap_le {α β} (g : α → List β) (b : Nat) : ∀ (l : List α), (∀ x ∈ l, (g x).length ≤ b) →
    (l.flatMap g).length ≤ b * l.length := by
  intro l
  induction l with
  | nil => intro _; simp
  | cons a t ih =>
    intro h
    rw [List.flatMap_cons, List.length_append, List.length_cons]
    have := ih (fun x hx => h x (List.mem_cons_of_mem _ hx))
    have := h a (List.mem_cons_self ..)
    rw [Nat.mul_add]; omega

/-- **the iterator yields, in order, `set(p, ch)` for every position `p` and every base `ch` other than the one at `p`** -/
theorem hd1_eq (s : St c) : hd1 c s = (List.range' 0 c.K).flatMap (posItems c s) := by
  unfold hd1
  rw [collect_spec]
  have hfull : remOf c ⟨s, 0, 0⟩ = (List.range' 0 c.K).flatMap (posItems c s) := by
    unfold remOf
    simp only
    by_cases hK : c.K ≤ 0
    · rw [if_pos hK]
      have : c.K = 0 := by omega
      rw [this]; rfl
    · rw [if_neg hK]
      unfold rem
      have : c.K = (c.K - (0 + 1)) + 1 := by omega
      conv => rhs; rw [this, List.range'_succ, List.flatMap_cons]
      rfl
  rw [hfull]
  apply List.take_of_length_le
  have := length_flatMap_le (posItems c s) 4 (List.range' 0 c.K) (fun p _ => by
    unfold posItems
    exact Nat.le_trans (List.length_filterMap_le _ _) (by simp))
  simpa using this

theorem flatMap_congr' {α β} {f g : α → List β} : ∀ {l : List α}, (∀ x ∈ l, f x = g x) → l.flatMap f = l.flatMap g := by
  intro l
  induction l with
  | nil => intro _; rfl
  | cons a t ih =>
    intro h
    rw [List.flatMap_cons, List.flatMap_cons, h a (List.mem_cons_self ..), ih (fun x hx => h x (List.mem_cons_of_mem _ hx))]

theorem filterMap_congr' {α β} {f g : α → Option β} : ∀ {l : List α}, (∀ x ∈ l, f x = g x) → l.filterMap f = l.filterMap g := by
  intro l
  induction l with
  | nil => intro _; rfl
  | cons a t ih =>
    intro h
    rw [List.filterMap_cons, List.filterMap_cons, h a (List.mem_cons_self ..), ih (fun x hx => h x (List.mem_cons_of_mem _ hx))]

/-- **on strings**: the k-mers the iterator yields spell exactly `KSpec.hd1` of the source's string -/
theorem toSeq_hd1 (hc : c.WF) (s : St c) : (hd1 c s).map (toSeq c) = KSpec.hd1 (toSeq c s) := by
  rw [hd1_eq]
  unfold KSpec.hd1
  rw [toSeq_length, List.map_flatMap, ← List.range_eq_range']
  apply flatMap_congr'
  intro p hp
  have hpK : p < c.K := List.mem_range.mp hp
  unfold posItems
  rw [List.map_filterMap, ← List.range_eq_range']
  apply filterMap_congr'
  intro ch hch
  have hch4 : ch < 4 := List.mem_range.mp hch
  have hget : (toSeq c s).getD p 99 = get c s p := by
    unfold toSeq
    rw [List.getD_eq_getElem?_getD, List.getElem?_map, List.getElem?_range hpK]
    rfl
  rw [hget]
  unfold hItem
  by_cases hg : get c s p = ch
  · simp [hg]
  · simp only [hg, if_false, Option.map_some]
    rw [toSeq_setMut hc s p ch hpK hch4]

end Kmer
