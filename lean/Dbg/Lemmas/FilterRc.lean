import Dbg.Lemmas.FilterSym
import Dbg.Lemmas.GraphProofs
/-! Unstranded filtering does not see which strand a read was given on: replacing reads by their reverse complements
    permutes the canonical observations (the extension bytes of palindromic k-mers excepted). -/
namespace Filter
open Compress (Seq Base Exts rc comp Entry)
open Walk (Dir)

/-! ### one read and its reverse complement -/

theorem mkE_rc (lo ro : Option Base) : (mkE lo ro).rc = mkE (ro.map comp) (lo.map comp) := by
  cases lo with
  | none =>
    cases ro with
    | none => decide
    | some r => revert r; decide
  | some l =>
    cases ro with
    | none => revert l; decide
    | some r => revert l r; decide

theorem exts_rc_rc : ∀ v : Fin 256, (⟨v.val⟩ : Exts).rc.rc = ⟨v.val⟩ := by decide +kernel

theorem rc_getElem? (s : Seq) (p : Nat) (hp : p < s.length) : (rc s)[p]? = (s[s.length - 1 - p]?).map comp := by
  unfold rc
  rw [List.getElem?_reverse (by simpa using hp), List.length_map, List.getElem?_map]

theorem win_rc (s : Seq) (K j : Nat) (hj : j + K ≤ s.length) : win (rc s) K j = rc (win s K (s.length - K - j)) := by
  unfold win
  rw [Graph.rc_take, Graph.rc_drop, List.length_drop, List.drop_take]
  have e1 : s.length - (s.length - K - j) = K + j := by omega
  have e2 : s.length - (s.length - K - j) - K = j := by omega
  rw [e1]
  have e3 : K + j - (K + j - K) = K := by omega
  have e4 : K + j - K = j := by omega
  rw [e3, e4]

theorem rawE_rc (s : Seq) (K j : Nat) (hj : j + K ≤ s.length) : rawE (rc s) K j = (rawE s K (s.length - K - j)).rc := by
  unfold rawE
  rw [mkE_rc]
  have hl : (rc s).length = s.length := Compress.rc_length s
  congr 1
  · -- left neighbour in the reverse complement = complemented right neighbour
    by_cases h0 : j = 0
    · subst h0
      have : s[s.length - K - 0 + K]? = none := List.getElem?_eq_none (by omega)
      rw [this]; rfl
    · rw [if_neg h0, rc_getElem? s (j - 1) (by omega)]
      congr 2; omega
  · by_cases hi : s.length - K - j = 0
    · rw [if_pos hi]
      have : (rc s)[j + K]? = none := List.getElem?_eq_none (by rw [hl]; omega)
      rw [this]; rfl
    · rw [if_neg hi, rc_getElem? s (j + K) (by omega)]
      congr 2; omega

/-- is `k` its own reverse complement? -/
def palB (k : Seq) : Bool := decide (rc k = k)

/-- an observation with the extension byte of a self-complementary k-mer blanked -/
def normOb (o : Seq × Exts × Nat) : Seq × Exts × Nat := (o.1, if palB o.1 then ⟨0⟩ else o.2.1, o.2.2)

/-- the canonical observation of a k-mer and of its reverse complement coincide (up to the blanked byte) -/
theorem canonObs_rc (w : Seq) (E : Exts) (hE : E.val < 256) (lab : Nat) :
    normOb (canonObs false (rc w) E.rc lab) = normOb (canonObs false w E lab) := by
  have hrr : E.rc.rc = E := by
    have := exts_rc_rc ⟨E.val, hE⟩
    cases E; simpa using this
  unfold canonObs
  simp only [Bool.false_eq_true, if_false, Compress.rc_rc]
  rcases seq_tri w (rc w) with h | h | h
  · have hn : ¬ rc w < w := fun h' => seq_lt_irrefl _ (seq_lt_trans h h')
    rw [if_neg hn, if_pos h, hrr]
  · -- self-complementary: both keys equal, bytes blanked
    have hn1 : ¬ rc w < w := by rw [← h]; exact seq_lt_irrefl _
    have hn2 : ¬ w < rc w := by rw [← h]; exact seq_lt_irrefl _
    rw [if_neg hn1, if_neg hn2]
    unfold normOb
    have hp : palB w = true := by unfold palB; simp [h.symm]
    have hp' : palB (rc w) = true := by unfold palB; rw [← h]; simp [h.symm]
    simp only [hp, hp', if_true]
    rw [← h]
  · have hn : ¬ w < rc w := fun h' => seq_lt_irrefl _ (seq_lt_trans h h')
    rw [if_pos h, if_neg hn]

/-- the canonical observations of one read (empty boundary extensions, unstranded) -/
def obsRead (K : Nat) (s : Seq) (lab : Nat) : List (Seq × Exts × Nat) :=
  if s.length < K then [] else (List.range (s.length - K + 1)).map fun i => canonObs false (win s K i) (rawE s K i) lab

theorem map_range_rev {α} (f : Nat → α) (n : Nat) : (List.range n).map (fun j => f (n - 1 - j)) = ((List.range n).map f).reverse := by
  apply List.ext_getElem
  · simp
  · intro i h1 h2
    simp only [List.length_map, List.length_range] at h1
    simp only [List.getElem_map, List.getElem_range, List.getElem_reverse, List.length_map, List.length_range]

/-- **a read and its reverse complement yield the same canonical observations**, in reverse order -/
theorem obsRead_rc (K : Nat) (s : Seq) (lab : Nat) :
    (obsRead K (rc s) lab).map normOb = ((obsRead K s lab).map normOb).reverse := by
  unfold obsRead
  rw [Compress.rc_length]
  by_cases hl : s.length < K
  · simp [hl]
  · rw [if_neg hl, if_neg hl, List.map_map, List.map_map, ← map_range_rev]
    apply List.map_congr_left
    intro j hj
    rw [List.mem_range] at hj
    simp only [Function.comp]
    rw [win_rc s K j (by omega), rawE_rc s K j (by omega), canonObs_rc _ _ (rawE_lt _ _ _)]
    congr 3 <;> omega

end Filter

namespace Filter
open Compress (Seq Base Exts rc comp Entry)
open Walk (Dir)

/-! ### the sorted label set of `CountFilterSet` depends only on the set of labels -/

def insL (acc : List Nat) (x : Nat) : List Nat :=
  if acc.contains x then acc else (acc.takeWhile (· < x)) ++ [x] ++ (acc.dropWhile (· < x))

theorem asc_unique_nat : ∀ (l1 l2 : List Nat), l1.Pairwise (· < ·) → l2.Pairwise (· < ·) → (∀ x, x ∈ l1 ↔ x ∈ l2) → l1 = l2 := by
  intro l1
  induction l1 with
  | nil =>
    intro l2 _ _ h
    cases l2 with
    | nil => rfl
    | cons b t => exact absurd ((h b).mpr (by simp)) (by simp)
  | cons a t1 ih =>
    intro l2 p1 p2 h
    cases l2 with
    | nil => exact absurd ((h a).mp (by simp)) (by simp)
    | cons b t2 =>
      rw [List.pairwise_cons] at p1 p2
      have hab : a = b := by
        rcases List.mem_cons.mp ((h a).mp (by simp)) with e | ha
        · exact e
        · rcases List.mem_cons.mp ((h b).mpr (by simp)) with e | hb
          · exact e.symm
          · have := p1.1 b hb; have := p2.1 a ha; omega
      subst hab
      congr 1
      apply ih t2 p1.2 p2.2
      intro x
      constructor
      · intro hx
        rcases List.mem_cons.mp ((h x).mp (by simp [hx])) with e | hx2
        · have := p1.1 x hx; omega
        · exact hx2
      · intro hx
        rcases List.mem_cons.mp ((h x).mpr (by simp [hx])) with e | hx2
        · have := p2.1 x hx; omega
        · exact hx2

theorem tw_lt (acc : List Nat) (x : Nat) : ∀ y ∈ acc.takeWhile (· < x), y < x := by
  induction acc with
  | nil => intro y hy; simp at hy
  | cons a t ih =>
    intro y hy
    by_cases ha : a < x
    · rw [List.takeWhile_cons_of_pos (by simpa using ha)] at hy
      rcases List.mem_cons.mp hy with rfl | hy'
      · exact ha
      · exact ih y hy'
    · rw [List.takeWhile_cons_of_neg (by simpa using ha)] at hy; simp at hy

theorem dw_gt (acc : List Nat) (x : Nat) (h : acc.Pairwise (· < ·)) (hx : x ∉ acc) : ∀ y ∈ acc.dropWhile (· < x), x < y := by
  induction acc with
  | nil => intro y hy; simp at hy
  | cons a t ih =>
    intro y hy
    rw [List.pairwise_cons] at h
    by_cases ha : a < x
    · rw [List.dropWhile_cons_of_pos (by simpa using ha)] at hy
      exact ih h.2 (fun e => hx (List.mem_cons_of_mem _ e)) y hy
    · rw [List.dropWhile_cons_of_neg (by simpa using ha)] at hy
      have hax : a ≠ x := fun e => hx (by simp [e])
      rcases List.mem_cons.mp hy with rfl | hy'
      · omega
      · have := h.1 y hy'; omega

theorem insL_spec (acc : List Nat) (x : Nat) (h : acc.Pairwise (· < ·)) :
    (insL acc x).Pairwise (· < ·) ∧ ∀ y, y ∈ insL acc x ↔ y = x ∨ y ∈ acc := by
  unfold insL
  by_cases hc : acc.contains x = true
  · rw [if_pos hc]
    have : x ∈ acc := by simpa using hc
    exact ⟨h, fun y => ⟨fun hy => Or.inr hy, fun hy => by rcases hy with rfl | hy; exact this; exact hy⟩⟩
  · rw [if_neg hc]
    have hx : x ∉ acc := by simpa using hc
    have htw := tw_lt acc x
    have hdw := dw_gt acc x h hx
    constructor
    · rw [List.append_assoc, List.pairwise_append]
      refine ⟨h.sublist (List.takeWhile_sublist _), ?_, ?_⟩
      · rw [List.singleton_append, List.pairwise_cons]
        exact ⟨hdw, h.sublist (List.dropWhile_sublist _)⟩
      · intro a ha b hb
        rcases List.mem_append.mp hb with hb1 | hb2
        · simp only [List.mem_cons, List.mem_nil_iff, or_false] at hb1; subst hb1; exact htw a ha
        · have := htw a ha; have := hdw b hb2; omega
    · intro y
      simp only [List.mem_append, List.mem_cons, List.mem_nil_iff, or_false]
      constructor
      · rintro ((h1 | h1) | h1)
        · exact Or.inr ((List.takeWhile_sublist _).subset h1)
        · exact Or.inl h1
        · exact Or.inr ((List.dropWhile_sublist _).subset h1)
      · rintro (h1 | h1)
        · exact Or.inl (Or.inr h1)
        · have := List.takeWhile_append_dropWhile (p := (· < x)) (l := acc)
          rw [← this] at h1
          rcases List.mem_append.mp h1 with h2 | h2
          · exact Or.inl (Or.inl h2)
          · exact Or.inr h2

theorem sortedLabels_spec (labels : List Nat) (acc : List Nat) (h : acc.Pairwise (· < ·)) :
    (labels.foldl insL acc).Pairwise (· < ·) ∧ ∀ y, y ∈ labels.foldl insL acc ↔ y ∈ acc ∨ y ∈ labels := by
  induction labels generalizing acc with
  | nil => exact ⟨h, by simp⟩
  | cons x t ih =>
    obtain ⟨p, m⟩ := insL_spec acc x h
    obtain ⟨p', m'⟩ := ih (insL acc x) p
    refine ⟨p', fun y => ?_⟩
    rw [List.foldl_cons, m', m]
    simp only [List.mem_cons]
    constructor
    · rintro ((h1 | h1) | h1)
      · exact Or.inr (Or.inl h1)
      · exact Or.inl h1
      · exact Or.inr (Or.inr h1)
    · rintro (h1 | h1 | h1)
      · exact Or.inl (Or.inr h1)
      · exact Or.inl (Or.inl h1)
      · exact Or.inr h1

theorem sortedLabels_perm (l1 l2 : List Nat) (hp : l1.Perm l2) : l1.foldl insL [] = l2.foldl insL [] := by
  obtain ⟨p1, m1⟩ := sortedLabels_spec l1 [] List.Pairwise.nil
  obtain ⟨p2, m2⟩ := sortedLabels_spec l2 [] List.Pairwise.nil
  apply asc_unique_nat _ _ p1 p2
  intro x
  rw [m1, m2]
  simp only [List.not_mem_nil, false_or]
  exact hp.mem_iff

end Filter

namespace Filter
open Compress (Seq Base Exts rc comp Entry)
open Walk (Dir)

/-! ### the table as a function of the observation list -/

def entryOf (sm : Summarizer) (obs : List (Seq × Exts × Nat)) (k : Seq) : Option (Entry Payload) :=
  let s := summarize sm ((obs.filter fun o => o.1 == k).map fun o => (o.2.1, o.2.2))
  if s.1 then some ⟨k, s.2.1, s.2.2⟩ else none

theorem refTable_eq (K : Nat) (reads : List (Seq × Exts × Nat)) (sm : Summarizer) (st : Bool) :
    refTable K reads sm st = (distinctKeys (observations K reads st)).filterMap (entryOf sm (observations K reads st)) := by
  unfold refTable refGroups
  rw [List.filterMap_map]
  rfl

theorem summarize_exts (sm : Summarizer) (l : List (Exts × Nat)) :
    (summarize sm l).2.1 = ⟨(l.map (·.1.val)).foldl (· ||| ·) 0⟩ := by
  have : (summarize sm l).2.1 = ⟨l.foldl (fun a o => a ||| o.1.val) 0⟩ := by cases sm <;> rfl
  rw [this, List.foldl_map]

theorem summarize_exts_perm (sm : Summarizer) (l1 l2 : List (Exts × Nat)) (hp : (l1.map (·.1.val)).Perm (l2.map (·.1.val))) :
    (summarize sm l1).2.1 = (summarize sm l2).2.1 := by
  rw [summarize_exts, summarize_exts]
  congr 1
  apply List.Perm.foldl_eq' hp
  intro x _ y _ z
  rw [Nat.or_assoc, Nat.or_comm x y, ← Nat.or_assoc]

theorem summarize_data_perm (sm : Summarizer) (l1 l2 : List (Exts × Nat)) (hl : l1.length = l2.length)
    (hp : (l1.map (·.2)).Perm (l2.map (·.2))) :
    (summarize sm l1).1 = (summarize sm l2).1 ∧ (summarize sm l1).2.2 = (summarize sm l2).2.2 := by
  cases sm with
  | count n => simp only [summarize, hl]; exact ⟨trivial, trivial⟩
  | set n =>
    simp only [summarize, hl]
    refine ⟨trivial, ?_⟩
    exact sortedLabels_perm _ _ hp

theorem normOb_key (o : Seq × Exts × Nat) : (normOb o).1 = o.1 := rfl
theorem normOb_lab (o : Seq × Exts × Nat) : (normOb o).2.2 = o.2.2 := rfl

theorem filter_norm (obs : List (Seq × Exts × Nat)) (k : Seq) :
    (obs.map normOb).filter (fun o => o.1 == k) = (obs.filter fun o => o.1 == k).map normOb := by
  rw [List.filter_map]; rfl

/-- **permuting the observations (and blanking the bytes of self-complementary k-mers) does not change the table**:
    same keys, same payloads; same extension sets for every k-mer that is not its own reverse complement -/
theorem table_perm_invariant (sm : Summarizer) (obs1 obs2 : List (Seq × Exts × Nat))
    (hp : (obs1.map normOb).Perm (obs2.map normOb)) :
    distinctKeys obs1 = distinctKeys obs2 ∧
    (∀ k, (entryOf sm obs1 k).map (fun e => (e.key, e.data)) = (entryOf sm obs2 k).map (fun e => (e.key, e.data))) ∧
    (∀ k, palB k = false → entryOf sm obs1 k = entryOf sm obs2 k) := by
  have hfil : ∀ k, ((obs1.filter fun o => o.1 == k).map normOb).Perm ((obs2.filter fun o => o.1 == k).map normOb) := by
    intro k
    rw [← filter_norm, ← filter_norm]
    exact hp.filter _
  have hlen : ∀ k, (obs1.filter fun o => o.1 == k).length = (obs2.filter fun o => o.1 == k).length := by
    intro k; simpa using (hfil k).length_eq
  have hlab : ∀ k, (((obs1.filter fun o => o.1 == k).map fun o => (o.2.1, o.2.2)).map (·.2)).Perm
      (((obs2.filter fun o => o.1 == k).map fun o => (o.2.1, o.2.2)).map (·.2)) := by
    intro k
    have := (hfil k).map (fun o => o.2.2)
    simpa [List.map_map, Function.comp_def, normOb] using this
  have hdat := fun k => summarize_data_perm sm _ _ (by simpa using hlen k) (hlab k)
  refine ⟨?_, ?_, ?_⟩
  · -- same key sets
    obtain ⟨a1, m1⟩ := distinctKeys_spec obs1
    obtain ⟨a2, m2⟩ := distinctKeys_spec obs2
    apply asc_unique _ _ a1 a2
    intro k
    rw [m1, m2]
    constructor
    · rintro ⟨o, ho, rfl⟩
      have : normOb o ∈ obs2.map normOb := hp.mem_iff.mp (List.mem_map_of_mem ho)
      obtain ⟨o', ho', e⟩ := List.mem_map.mp this
      exact ⟨o', ho', by rw [← normOb_key o', e]; rfl⟩
    · rintro ⟨o, ho, rfl⟩
      have : normOb o ∈ obs1.map normOb := hp.mem_iff.mpr (List.mem_map_of_mem ho)
      obtain ⟨o', ho', e⟩ := List.mem_map.mp this
      exact ⟨o', ho', by rw [← normOb_key o', e]; rfl⟩
  · intro k
    unfold entryOf
    simp only
    rw [(hdat k).1, (hdat k).2]
    split <;> rfl
  · intro k hk
    -- the observations of a key that is not self-complementary are not touched by the blanking
    have hid : ∀ (obs : List (Seq × Exts × Nat)), (obs.filter fun o => o.1 == k).map normOb = obs.filter fun o => o.1 == k := by
      intro obs
      conv => rhs; rw [← List.map_id (obs.filter fun o => o.1 == k)]
      apply List.map_congr_left
      intro o ho
      have hk' : o.1 = k := by simpa using (List.mem_filter.mp ho).2
      unfold normOb
      rw [hk', hk]
      simp only [Bool.false_eq_true, if_false, id]
      rw [← hk']
    have hperm : (obs1.filter fun o => o.1 == k).Perm (obs2.filter fun o => o.1 == k) := by
      have := hfil k; rwa [hid, hid] at this
    have hext := summarize_exts_perm sm ((obs1.filter fun o => o.1 == k).map fun o => (o.2.1, o.2.2))
      ((obs2.filter fun o => o.1 == k).map fun o => (o.2.1, o.2.2)) (by
        have := hperm.map (fun o => o.2.1.val)
        simpa [List.map_map, Function.comp_def] using this)
    unfold entryOf
    simp only
    rw [(hdat k).1, (hdat k).2, hext]

end Filter

namespace Filter
open Compress (Seq Base Exts rc comp Entry)
open Walk (Dir)

/-! ### read sets -/

/-- replace the reads selected by `m` (by position) with their reverse complements -/
def flipReads (m : Nat → Bool) (k : Nat) : List (Seq × Exts × Nat) → List (Seq × Exts × Nat)
  | [] => []
  | r :: rest => (if m k then (rc r.1, r.2.1, r.2.2) else r) :: flipReads m (k + 1) rest

theorem observations_eq (K : Nat) (hK : 1 ≤ K) (reads : List (Seq × Exts × Nat)) (hb : NoBoundary reads) :
    observations K reads false = reads.flatMap fun r => obsRead K r.1 r.2.2 := by
  unfold observations
  induction reads with
  | nil => rfl
  | cons r rest ih =>
    rw [List.flatMap_cons, List.flatMap_cons, ih (fun x hx => hb x (by simp [hx]))]
    congr 1
    rw [hb r (by simp), kmerExtsOf_zero K r.1 hK]
    unfold obsRead
    by_cases hl : r.1.length < K
    · simp [hl]
    · rw [if_neg hl, if_neg hl, List.map_map]
      apply List.map_congr_left
      intro i _
      rfl

theorem flip_noBoundary (m : Nat → Bool) (reads : List (Seq × Exts × Nat)) (hb : NoBoundary reads) :
    ∀ k, NoBoundary (flipReads m k reads) := by
  induction reads with
  | nil => intro k r hr; cases hr
  | cons r rest ih =>
    intro k x hx
    unfold flipReads at hx
    rcases List.mem_cons.mp hx with rfl | hx'
    · split
      · exact hb r (by simp)
      · exact hb r (by simp)
    · exact ih (fun y hy => hb y (by simp [hy])) (k + 1) x hx'

theorem flip_obs_perm (K : Nat) (m : Nat → Bool) (reads : List (Seq × Exts × Nat)) :
    ∀ k, (((flipReads m k reads).flatMap fun r => obsRead K r.1 r.2.2).map normOb).Perm
      ((reads.flatMap fun r => obsRead K r.1 r.2.2).map normOb) := by
  induction reads with
  | nil => intro k; exact List.Perm.refl _
  | cons r rest ih =>
    intro k
    unfold flipReads
    rw [List.flatMap_cons, List.flatMap_cons, List.map_append, List.map_append]
    apply List.Perm.append _ (ih (k + 1))
    by_cases hm : m k = true
    · rw [if_pos hm]
      show ((obsRead K (rc r.1) r.2.2).map normOb).Perm _
      rw [obsRead_rc]
      exact List.reverse_perm _
    · rw [if_neg hm]

/-- **the k-mer table is strand-symmetric** (unstranded, empty boundary extensions): replacing any subset of the reads by
    their reverse complements leaves the keys and payloads of the table unchanged, and the extension set of every k-mer that
    is not its own reverse complement -/
theorem refTable_rc_invariant (K : Nat) (hK : 1 ≤ K) (reads : List (Seq × Exts × Nat)) (hb : NoBoundary reads) (sm : Summarizer)
    (m : Nat → Bool) :
    (refTable K (flipReads m 0 reads) sm false).map (fun e => (e.key, e.data)) = (refTable K reads sm false).map (fun e => (e.key, e.data)) ∧
    ∀ e ∈ refTable K (flipReads m 0 reads) sm false, palB e.key = false → e ∈ refTable K reads sm false := by
  have hb' := flip_noBoundary m reads hb 0
  have hperm : ((observations K (flipReads m 0 reads) false).map normOb).Perm ((observations K reads false).map normOb) := by
    rw [observations_eq K hK _ hb', observations_eq K hK _ hb]
    exact flip_obs_perm K m reads 0
  obtain ⟨hkeys, hdat, hext⟩ := table_perm_invariant sm _ _ hperm
  rw [refTable_eq, refTable_eq, hkeys]
  constructor
  · rw [List.map_filterMap, List.map_filterMap]
    congr 1
    funext k
    exact hdat k
  · intro e he hp
    rw [List.mem_filterMap] at he ⊢
    obtain ⟨k, hk, hek⟩ := he
    have hkey : e.key = k := by
      unfold entryOf at hek
      simp only at hek
      split at hek
      · cases hek; rfl
      · cases hek
    exact ⟨k, hk, by rw [← hext k (hkey ▸ hp)]; exact hek⟩

end Filter
