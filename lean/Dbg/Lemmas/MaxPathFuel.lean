import Dbg.Lemmas.GraphProofs
/-! The greedy walk of `max_path` consumes an unused node per step, so the model's fuel (`nodes.length`) is enough: the
    result does not depend on the fuel beyond that. -/
namespace Graph
open Compress (Node)
open Walk (Dir)
variable {D : Type}

/-- when every node is used the arm stops at once, whatever the fuel -/
theorem arm_full (g : G D) (score : D → Int) (solid : D → Bool) (doFlip : Bool) (used : List Nat)
    (hall : ∀ i, i < g.nodes.length → i ∈ used) :
    ∀ (f : Nat) (cur : Nat × Dir) (path : List (Nat × Dir)), maxPathArm g score solid doFlip f cur used path = (path, used) := by
  intro f cur path
  cases f with
  | zero => rfl
  | succ k =>
    unfold maxPathArm
    cases he : findEdges g cur.1 cur.2.flip with
    | none => rfl
    | some edges =>
      simp only
      cases hp : pickNext g score solid edges with
      | mk next sp =>
        simp only
        split
        · rfl
        · cases next with
          | none => rfl
          | some nn =>
            obtain ⟨nid, ninc⟩ := nn
            simp only
            obtain ⟨f', hf⟩ := pickNext_mem g score solid edges nid ninc (by rw [hp])
            have hn := (findEdges_nodes g cur.1 cur.2.flip edges he).2 _ hf
            have hlt : nid < g.nodes.length := by
              obtain ⟨n, hn'⟩ := Option.isSome_iff_exists.mp hn
              exact (List.getElem?_eq_some_iff.mp hn').1
            have : used.contains nid = true := by simpa using hall nid hlt
            rw [if_pos this]

theorem full_of_length (n : Nat) (used : List Nat) (hnd : used.Nodup) (hlt : ∀ u ∈ used, u < n) (hlen : n ≤ used.length) :
    ∀ i, i < n → i ∈ used := by
  intro i hi
  by_cases hm : i ∈ used
  · exact hm
  · have hnd' : (i :: used).Nodup := List.nodup_cons.mpr ⟨hm, hnd⟩
    have hsub : (i :: used) ⊆ List.range n := by
      intro x hx
      rcases List.mem_cons.mp hx with rfl | hx'
      · exact List.mem_range.mpr hi
      · exact List.mem_range.mpr (hlt x hx')
    have := List.Nodup.length_le_of_subset hnd' hsub
    simp at this; omega

/-- **fuel adequacy of `max_path`'s arms** -/
theorem arm_fuel (g : G D) (score : D → Int) (solid : D → Bool) (doFlip : Bool) : ∀ (f1 f2 : Nat) (cur : Nat × Dir)
    (used : List Nat) (path : List (Nat × Dir)), used.Nodup → (∀ u ∈ used, u < g.nodes.length) →
    g.nodes.length ≤ f1 + used.length → g.nodes.length ≤ f2 + used.length →
    maxPathArm g score solid doFlip f1 cur used path = maxPathArm g score solid doFlip f2 cur used path := by
  intro f1
  induction f1 with
  | zero =>
    intro f2 cur used path hnd hlt h1 _
    have hall := full_of_length _ used hnd hlt (by omega)
    rw [arm_full g score solid doFlip used hall, arm_full g score solid doFlip used hall]
  | succ k ih =>
    intro f2 cur used path hnd hlt h1 h2
    cases f2 with
    | zero =>
      have hall := full_of_length _ used hnd hlt (by omega)
      rw [arm_full g score solid doFlip used hall, arm_full g score solid doFlip used hall]
    | succ m =>
      unfold maxPathArm
      cases he : findEdges g cur.1 cur.2.flip with
      | none => rfl
      | some edges =>
        simp only
        cases hp : pickNext g score solid edges with
        | mk next sp =>
          simp only
          split
          · rfl
          · cases next with
            | none => rfl
            | some nn =>
              obtain ⟨nid, ninc⟩ := nn
              simp only
              split
              · rfl
              · rename_i hc
                obtain ⟨f', hf⟩ := pickNext_mem g score solid edges nid ninc (by rw [hp])
                have hn := (findEdges_nodes g cur.1 cur.2.flip edges he).2 _ hf
                have hlt' : nid < g.nodes.length := by
                  obtain ⟨n, hn'⟩ := Option.isSome_iff_exists.mp hn
                  exact (List.getElem?_eq_some_iff.mp hn').1
                have hnot : nid ∉ used := by simpa using hc
                exact ih m (nid, ninc) (nid :: used) _ (List.nodup_cons.mpr ⟨hnot, hnd⟩)
                  (fun u hu => by rcases List.mem_cons.mp hu with rfl | h' ; exact hlt'; exact hlt u h')
                  (by simp; omega) (by simp; omega)

/-- the set of used nodes stays duplicate-free and in range -/
theorem arm_used (g : G D) (score : D → Int) (solid : D → Bool) (doFlip : Bool) : ∀ (f : Nat) (cur : Nat × Dir)
    (used : List Nat) (path : List (Nat × Dir)), used.Nodup → (∀ u ∈ used, u < g.nodes.length) →
    (maxPathArm g score solid doFlip f cur used path).2.Nodup ∧
      (∀ u ∈ (maxPathArm g score solid doFlip f cur used path).2, u < g.nodes.length) ∧
      used.length ≤ (maxPathArm g score solid doFlip f cur used path).2.length := by
  intro f
  induction f with
  | zero => intro cur used path hnd hlt; exact ⟨hnd, hlt, Nat.le_refl _⟩
  | succ k ih =>
    intro cur used path hnd hlt
    unfold maxPathArm
    cases he : findEdges g cur.1 cur.2.flip with
    | none => exact ⟨hnd, hlt, Nat.le_refl _⟩
    | some edges =>
      simp only
      cases hp : pickNext g score solid edges with
      | mk next sp =>
        simp only
        split
        · exact ⟨hnd, hlt, Nat.le_refl _⟩
        · cases next with
          | none => exact ⟨hnd, hlt, Nat.le_refl _⟩
          | some nn =>
            obtain ⟨nid, ninc⟩ := nn
            simp only
            split
            · exact ⟨hnd, hlt, Nat.le_refl _⟩
            · rename_i hc
              obtain ⟨f', hf⟩ := pickNext_mem g score solid edges nid ninc (by rw [hp])
              have hn := (findEdges_nodes g cur.1 cur.2.flip edges he).2 _ hf
              have hlt' : nid < g.nodes.length := by
                obtain ⟨n, hn'⟩ := Option.isSome_iff_exists.mp hn
                exact (List.getElem?_eq_some_iff.mp hn').1
              have hnot : nid ∉ used := by simpa using hc
              obtain ⟨r1, r2, r3⟩ := ih (nid, ninc) (nid :: used) (if doFlip then (nid, ninc.flip) :: path else path ++ [(nid, ninc)])
                (List.nodup_cons.mpr ⟨hnot, hnd⟩)
                (fun u hu => by rcases List.mem_cons.mp hu with rfl | h' ; exact hlt'; exact hlt u h')
              exact ⟨r1, r2, by simp at r3; omega⟩

end Graph
