import Dbg.Lemmas.ShardFinal
import Dbg.Lemmas.ShardTables
/-! From the concrete shard tables (bucket parts of the reference table, optionally pruned the sharded way, each in the
    order of its hash map) to the sandwich property. -/
namespace Compress
open Walk (Dir Conn Rel)
open Filter (has ExtSym2 removeCensoredExts removeCensoredExtsSharded extTarget)
variable {D : Type}

theorem filterMap_range_get {α} (l : List α) : ((List.range l.length).filterMap fun i => l[i]?) = l := by
  induction l with
  | nil => rfl
  | cons a t ih =>
    rw [List.length_cons, List.range_succ_eq_map, List.filterMap_cons]
    simp only [List.getElem?_cons_zero]
    rw [List.filterMap_map]
    congr 1

theorem perm_of_sigma {α} (l : List α) (sigma : List Nat) (h : sigma.Perm (List.range l.length)) :
    (sigma.filterMap fun i => l[i]?).Perm l := by
  have h1 := h.filterMap (fun i => l[i]?)
  rw [filterMap_range_get] at h1
  exact h1

/-- the parts of a list selected by the values of a function, over a duplicate-free list of values covering all of them,
    are together a permutation of the list -/
theorem parts_perm {α} (f : α → Nat) : ∀ (bs : List Nat) (R : List α), bs.Nodup → (∀ e ∈ R, f e ∈ bs) →
    (bs.flatMap fun b => R.filter (fun e => f e == b)).Perm R := by
  intro bs
  induction bs with
  | nil =>
    intro R _ h
    cases R with
    | nil => exact List.Perm.refl _
    | cons a t => exact absurd (h a (List.mem_cons_self ..)) (by simp)
  | cons b bs ih =>
    intro R hnd hcov
    rw [List.nodup_cons] at hnd
    rw [List.flatMap_cons]
    have hrest : (bs.flatMap fun b' => R.filter (fun e => f e == b')) =
        (bs.flatMap fun b' => (R.filter (fun e => !(f e == b))).filter (fun e => f e == b')) := by
      apply List.flatMap_congr_mem
      intro b' hb'
      rw [List.filter_filter]
      apply List.filter_congr
      intro e _
      by_cases h : f e = b'
      · have : ¬ b' = b := by intro e'; rw [e'] at hb'; exact hnd.1 hb'
        simp [h, this]
      · simp [h]
    rw [hrest]
    have ihh := ih (R.filter (fun e => !(f e == b))) hnd.2 (fun e he => by
      rw [List.mem_filter] at he
      rcases List.mem_cons.mp (hcov e he.1) with h | h
      · simp [h] at he
      · exact h)
    exact (List.Perm.append_left _ ihh).trans (List.filter_append_perm _ R)
where
  List.flatMap_congr_mem {α β} {l : List α} {f g : α → List β} (h : ∀ a ∈ l, f a = g a) : l.flatMap f = l.flatMap g := by
    rw [List.flatMap_def, List.flatMap_def]; congr 1; exact List.map_congr_left h

end Compress

namespace Compress
open Walk (Dir Conn Rel)
open Filter (has ExtSym2 removeCensoredExts removeCensoredExtsSharded extTarget)
variable {D : Type}

/-- the table of shard `b` before its hash map reorders it -/
def shardT0 (st prune : Bool) (R : Table D) (allR : List Seq) (f : Seq → Nat) (b : Nat) : Table D :=
  if prune then removeCensoredExtsSharded st (R.filter fun e => f e.key == b) (allR.filter fun k => f k == b)
  else R.filter fun e => f e.key == b

def AllPerm : List (Table D) → List (Table D) → Prop
  | [], [] => True
  | A :: As, B :: Bs => A.Perm B ∧ AllPerm As Bs
  | _, _ => False

theorem allPerm_flatten : ∀ (As Bs : List (Table D)), AllPerm As Bs → As.flatten.Perm Bs.flatten := by
  intro As
  induction As with
  | nil => intro Bs h; cases Bs with
    | nil => exact List.Perm.refl _
    | cons _ _ => exact absurd h (by simp [AllPerm])
  | cons A As ih =>
    intro Bs h
    cases Bs with
    | nil => exact absurd h (by simp [AllPerm])
    | cons B Bs =>
      obtain ⟨h1, h2⟩ : A.Perm B ∧ AllPerm As Bs := h
      rw [List.flatten_cons, List.flatten_cons]
      exact List.Perm.append h1 (ih Bs h2)

theorem shardT0_keys (st prune : Bool) (R : Table D) (allR : List Seq) (f : Seq → Nat) (b : Nat) :
    (shardT0 st prune R allR f b).map (·.key) = (R.filter fun e => f e.key == b).map (·.key) := by
  unfold shardT0
  cases prune
  · rfl
  · simp [removeCensoredExtsSharded, List.map_map, Function.comp_def]

/-- **the shard tables are sandwiched by the reference table** -/
theorem shard_sandwich {K : Nat} {st : Bool} (R : Table D) (wfR : WF R K st) (allR : List Seq) (f : Seq → Nat) (bs : List Nat)
    (hnd : bs.Nodup) (hcov : ∀ e ∈ R, f e.key ∈ bs) (prune : Bool) (Ts : List (Table D))
    (hp : AllPerm Ts (bs.map (shardT0 st prune R allR f))) : Sandwich st Ts.flatten R := by
  have hfl := allPerm_flatten _ _ hp
  constructor
  · have h1 := hfl.map (·.key)
    refine h1.trans ?_
    rw [List.map_flatten, List.map_map]
    have : ((fun (T : Table D) => T.map (·.key)) ∘ shardT0 st prune R allR f) =
        fun b => (R.filter fun e => f e.key == b).map (·.key) := by
      funext b; exact shardT0_keys st prune R allR f b
    rw [this, ← List.flatMap_def]
    have h2 := (parts_perm (fun (e : Entry D) => f e.key) bs R hnd hcov).map (·.key)
    rw [List.map_flatMap] at h2
    exact h2
  · intro eu heu
    have heu' := hfl.mem_iff.mp heu
    rw [List.mem_flatten] at heu'
    obtain ⟨T, hT, heT⟩ := heu'
    obtain ⟨b, _, rfl⟩ := List.mem_map.mp hT
    unfold shardT0 at heT
    cases prune with
    | false =>
      simp only [Bool.false_eq_true, if_false] at heT
      have heR := (List.mem_filter.mp heT).1
      obtain ⟨i, hi⟩ := mem_index R eu heR
      exact ⟨eu, heR, rfl, rfl, wfR.ext8 i eu hi, fun _ _ h => h, fun _ _ h _ => h⟩
    | true =>
      simp only [if_true] at heT
      obtain ⟨i, hi⟩ := mem_index _ eu heT
      obtain ⟨e0, h0, hk, hd, hx⟩ := (Filter.removeCensoredSharded_exact st (R.filter fun e => f e.key == b) (allR.filter fun k => f k == b)).2 i eu hi
      have he0 := List.mem_of_getElem? h0
      have he0R := (List.mem_filter.mp he0).1
      refine ⟨e0, he0R, hk, hd, ?_, fun d c h => ((hx d c).mp h).1, fun d c h ht => ?_⟩
      · -- the pruned byte is a `keepBits` value
        unfold removeCensoredExtsSharded at hi
        rw [List.getElem?_map] at hi
        cases h0' : (R.filter fun e => f e.key == b)[i]? with
        | none => rw [h0'] at hi; cases hi
        | some e1 => rw [h0'] at hi; cases hi; exact Filter.keepBits_lt _ _
      · rw [hx d c]
        refine ⟨h, ?_⟩
        rintro ⟨hn, hm⟩
        apply hn
        have hb : f (extTarget st e0.key c d) = b := by
          have := (List.mem_filter.mp hm).2
          simpa using this
        obtain ⟨et, het, hkt⟩ := List.mem_map.mp ht
        exact List.mem_map.mpr ⟨et, List.mem_filter.mpr ⟨het, by rw [hkt, hb]; simp⟩, hkt⟩

end Compress
