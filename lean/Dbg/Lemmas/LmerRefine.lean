import Dbg.Lemmas.BlockWalk
import Dbg.Lemmas.RcList
import Dbg.Lemmas.KmerRc
import Dbg.Model.Lmer
/-! Refinement of `Lmer<[u64; n]>` to plain base vectors, for every word count `n`. -/
namespace Lmer
open Block64 (blockSeq k32_wf)
open Kmer (Cfg St)


/-- all `32·n` lanes of the words (the last four hold the length byte) -/
def lanes (l : T) : List Nat := l.storage.flatMap blockSeq

theorem lanes_length (l : T) : (lanes l).length = 32 * l.n := DnaStr.flatMap_length _

/-- lane view of a word replacement -/
theorem lanes_set (S : List Block) (b : Nat) (w : Block) (hb : b < S.length) (q : Nat) :
    ((S.set b w).flatMap blockSeq)[q]? = if q / 32 = b then (blockSeq w)[q % 32]? else (S.flatMap blockSeq)[q]? := by
  by_cases hq : q / 32 < S.length
  · by_cases hqb : q / 32 = b
    · rw [if_pos hqb, DnaStr.flatMap_getElem _ q w (by rw [hqb, List.getElem?_set_self hb])]
    · rw [if_neg hqb, DnaStr.flatMap_getElem _ q S[q / 32] (by rw [List.getElem?_set_ne (Ne.symm hqb), List.getElem?_eq_getElem hq]),
        DnaStr.flatMap_getElem _ q S[q / 32] (List.getElem?_eq_getElem hq)]
  · have : ¬ q / 32 = b := by omega
    rw [if_neg this, List.getElem?_eq_none (by rw [DnaStr.flatMap_length, List.length_set]; omega),
      List.getElem?_eq_none (by rw [DnaStr.flatMap_length]; omega)]

/-- the length byte read from the last four lanes -/
theorem lenByte_lanes (w : Block) :
    (w &&& 0xff#64).toNat = 64 * Kmer.get Block64.k32 w 28 + 16 * Kmer.get Block64.k32 w 29 + 4 * Kmer.get Block64.k32 w 30 + Kmer.get Block64.k32 w 31 := by
  have e : ∀ j, j < 32 → Kmer.get Block64.k32 w j = (w.toNat >>> (62 - 2 * j)) % 4 := by
    intro j hj
    unfold Kmer.get Kmer.addr
    have : (Block64.k32.K - 1 - j) * 2 = 62 - 2 * j := by simp [Block64.k32]; omega
    rw [this, BitVec.toNat_and, BitVec.toNat_ushiftRight]
    show w.toNat >>> (62 - 2 * j) &&& 3 = _
    exact Nat.and_two_pow_sub_one_eq_mod _ 2
  rw [e 28 (by omega), e 29 (by omega), e 30 (by omega), e 31 (by omega), BitVec.toNat_and]
  show w.toNat &&& 255 = _
  have : w.toNat &&& 255 = w.toNat % 256 := Nat.and_two_pow_sub_one_eq_mod _ 8
  rw [this]
  simp only [Nat.shiftRight_eq_div_pow]
  omega

/-- first word of `set_slice_mut` is the packed write of `Kmer32` -/
theorem firstWord_eq (w0 value : Block) (bp nB : Nat) (ff : Bool) (hff : ff = true → bp + nB ≤ 28) :
    (let bottom0 : Block := Kmer.bottomMask k32 (32 - (bp + nB))
     let mask : Block := Kmer.topMask k32 bp ||| (if ff then bottom0 ||| 0xFF#64 else bottom0)
     (w0 &&& mask) ||| ((value >>> (bp * 2)) &&& ~~~mask)) = Kmer.setSliceMut Block64.k32 w0 bp (min nB (32 - bp)) value := by
  have hb : ∀ m, 4 ≤ m → m ≤ 32 → (Kmer.bottomMask k32 m : Block) ||| 0xFF#64 = Kmer.bottomMask k32 m := by
    intro m h4 h32
    apply BitVec.eq_of_getLsbD_eq
    intro i hi
    have := Kmer.bottomMask_bits (c := k32) m i (by simp [k32]; omega) hi
    rw [BitVec.getLsbD_or, this]
    by_cases h8 : i < 8
    · have : decide (i < 2 * m) = true := by simp; omega
      simp [this]
    · have : (0xFF#64 : BitVec 64).getLsbD i = false := by
        have : (0xFF#64 : BitVec 64) = (1#64 <<< 8) - 1#64 := by decide
        rw [this, Mask.lowMask_getLsbD 64 8 i (by omega)]; simp [h8]
      simp [this]
  have hmask : (if ff then (Kmer.bottomMask k32 (32 - (bp + nB)) : Block) ||| 0xFF#64 else Kmer.bottomMask k32 (32 - (bp + nB))) =
      Kmer.bottomMask k32 (32 - (bp + nB)) := by
    cases ff with
    | false => rfl
    | true => simp only [if_true]; exact hb _ (by have := hff rfl; omega) (by omega)
  simp only [hmask]
  rw [Kmer.setSliceMut_eq]
  have e1 : Block64.k32.K - (bp + min nB (32 - bp)) = 32 - (bp + nB) := by simp [Block64.k32]; omega
  have e2 : (if Block64.k32.var = true then 2 * bp + (Block64.k32.w - Block64.k32.K * 2) else 2 * bp) = bp * 2 := by
    simp [Block64.k32]; omega
  have e3 : Kmer.valueTop Block64.k32 value = value := by
    unfold Kmer.valueTop; simp [Block64.k32]
  simp only [e1, e2, e3]

/-- second word of `set_slice_mut` -/
theorem secondWord_eq (w1 v : Block) (nb1 : Nat) :
    (let bm : Block := Kmer.bottomMask k32 (32 - nb1)
     (w1 &&& bm) ||| (v &&& ~~~bm)) = Kmer.setSliceMut Block64.k32 w1 0 nb1 v := by
  rw [Kmer.setSliceMut_eq]
  have e1 : Block64.k32.K - (0 + nb1) = 32 - nb1 := by simp [Block64.k32]
  have e3 : Kmer.valueTop Block64.k32 v = v := by unfold Kmer.valueTop; simp [Block64.k32]
  have e4 : (Kmer.topMask Block64.k32 0 : BitVec 64) = 0#64 := by unfold Kmer.topMask; simp [Block64.k32]
  simp only [e1, e3]
  show _ = (w1 &&& (Kmer.topMask Block64.k32 0 ||| Kmer.bottomMask Block64.k32 (32 - nb1))) |||
    ((v >>> (if Block64.k32.var = true then 2 * 0 + (Block64.k32.w - Block64.k32.K * 2) else 2 * 0)) &&&
      ~~~(Kmer.topMask Block64.k32 0 ||| Kmer.bottomMask Block64.k32 (32 - nb1)))
  rw [e4]
  simp [Block64.k32]

end Lmer

namespace Lmer
open Block64 (blockSeq k32_wf)
open Kmer (Cfg St)

theorem runBase_eq_get (v : Block) (j : Nat) (hj : j < 32) : KSpec.runBase v j = Kmer.get Block64.k32 v j := by
  unfold KSpec.runBase Kmer.get Kmer.addr
  have : 62 - 2 * j = (Block64.k32.K - 1 - j) * 2 := by simp; omega
  rw [this]

/-- lanes of a word after the packed write of `Kmer32` -/
theorem word_setSlice_lane (w value : Block) (bp n j : Nat) (hn1 : 1 ≤ n) (hpn : bp + n ≤ 32) (hj : j < 32) :
    (blockSeq (Kmer.setSliceMut Block64.k32 w bp n value))[j]? =
      if bp ≤ j ∧ j < bp + n then some (KSpec.runBase value (j - bp)) else (blockSeq w)[j]? := by
  rw [DnaStr.blockSeq_get _ j hj, DnaStr.blockSeq_get _ j hj,
    Kmer.get_setSliceMut k32_wf w bp n value j hn1 (by omega) hpn hj]
  split <;> rfl

/-- **lane view of `set_slice_mut`**: the run's lanes come from `value`, every other lane (including the
    length byte) is unchanged -/
theorem setSliceMut_lanes (l : T) (pos nB : Nat) (value : Block) (hn1 : 1 ≤ nB) (hn32 : nB ≤ 32)
    (hp : pos + nB + 4 ≤ 32 * l.n) :
    ∃ l', setSliceMut l pos nB value = some l' ∧ l'.n = l.n ∧
      ∀ q, (lanes l')[q]? = if pos ≤ q ∧ q < pos + nB then some (KSpec.runBase value (q - pos)) else (lanes l)[q]? := by
  have hb0 : pos / 32 < l.storage.length := by unfold T.n at hp; omega
  have hff : (pos / 32 == l.n - 1) = true → pos % 32 + nB ≤ 28 := by
    intro h; have : pos / 32 = l.n - 1 := by simpa using h
    omega
  unfold setSliceMut
  simp only [List.getElem?_eq_getElem hb0]
  have hfirst := firstWord_eq l.storage[pos / 32] value (pos % 32) nB (pos / 32 == l.n - 1) hff
  simp only at hfirst
  rw [hfirst]
  by_cases hov : nB > 32 - pos % 32
  · -- the run continues into the next word
    rw [if_pos hov]
    have hb1 : pos / 32 + 1 < l.storage.length := by unfold T.n at hp; omega
    have hst : (l.storage.set (pos / 32) (Kmer.setSliceMut Block64.k32 l.storage[pos / 32] (pos % 32) (min nB (32 - pos % 32)) value))[pos / 32 + 1]? =
        some l.storage[pos / 32 + 1] := by
      rw [List.getElem?_set_ne (by omega), List.getElem?_eq_getElem hb1]
    simp only [hst]
    have hsecond := secondWord_eq l.storage[pos / 32 + 1] (value <<< ((32 - pos % 32) * 2)) (nB - (32 - pos % 32))
    simp only at hsecond
    rw [hsecond]
    refine ⟨_, rfl, by simp [T.n], ?_⟩
    intro q
    show ((List.set _ _ _).flatMap blockSeq)[q]? = _
    rw [lanes_set _ _ _ (by simp; exact hb1), lanes_set _ _ _ hb0]
    by_cases hq1 : q / 32 = pos / 32 + 1
    · rw [if_pos hq1, word_setSlice_lane _ _ 0 _ _ (by omega) (by omega) (Nat.mod_lt _ (by decide))]
      by_cases hin : q % 32 < nB - (32 - pos % 32)
      · rw [if_pos ⟨by omega, by omega⟩, if_pos ⟨by omega, by omega⟩]
        congr 1
        have e : (32 - pos % 32) * 2 = 2 * (32 - pos % 32) := by omega
        rw [e, DnaStr.runBase_shift value (32 - pos % 32) (q % 32 - 0) (by omega), runBase_eq_get value _ (by omega)]
        congr 1; omega
      · rw [if_neg (by omega), if_neg (by omega)]
        exact (DnaStr.flatMap_getElem l.storage q _ (by rw [hq1]; exact List.getElem?_eq_getElem hb1)).symm
    · rw [if_neg hq1]
      by_cases hq0 : q / 32 = pos / 32
      · rw [if_pos hq0, word_setSlice_lane _ _ _ _ _ (by omega) (by omega) (Nat.mod_lt _ (by decide))]
        by_cases hin : pos % 32 ≤ q % 32
        · rw [if_pos ⟨hin, by omega⟩, if_pos ⟨by omega, by omega⟩]
          congr 2; omega
        · rw [if_neg (by omega), if_neg (by omega)]
          exact (DnaStr.flatMap_getElem l.storage q _ (by rw [hq0]; exact List.getElem?_eq_getElem hb0)).symm
      · rw [if_neg hq0, if_neg (by omega)]
        rfl
  · rw [if_neg hov]
    refine ⟨_, rfl, by simp [T.n], ?_⟩
    intro q
    show ((List.set _ _ _).flatMap blockSeq)[q]? = _
    rw [lanes_set _ _ _ hb0]
    by_cases hq0 : q / 32 = pos / 32
    · rw [if_pos hq0, word_setSlice_lane _ _ _ _ _ (by omega) (by omega) (Nat.mod_lt _ (by decide))]
      by_cases hin : pos % 32 ≤ q % 32 ∧ q % 32 < pos % 32 + min nB (32 - pos % 32)
      · rw [if_pos hin, if_pos ⟨by omega, by omega⟩]
        congr 2; omega
      · rw [if_neg hin, if_neg (by omega)]
        exact (DnaStr.flatMap_getElem l.storage q _ (by rw [hq0]; exact List.getElem?_eq_getElem hb0)).symm
    · rw [if_neg hq0, if_neg (by omega)]
      rfl

end Lmer

namespace Lmer
open Block64 (blockSeq k32_wf)
open Kmer (Cfg St)

theorem get_toNat (w : Block) (j : Nat) (hj : j < 32) : Kmer.get Block64.k32 w j = (w.toNat >>> (62 - 2 * j)) % 4 := by
  unfold Kmer.get Kmer.addr
  have : (Block64.k32.K - 1 - j) * 2 = 62 - 2 * j := by simp; omega
  rw [this, BitVec.toNat_and, BitVec.toNat_ushiftRight]
  show w.toNat >>> (62 - 2 * j) &&& 3 = _
  exact Nat.and_two_pow_sub_one_eq_mod _ 2

/-- the length encoded by the last four lanes -/
def lenOfLanes (L : List Nat) (n : Nat) : Nat :=
  64 * L.getD (32 * n - 4) 0 + 16 * L.getD (32 * n - 3) 0 + 4 * L.getD (32 * n - 2) 0 + L.getD (32 * n - 1) 0

/-- the stored length -/
def lenN (l : T) : Nat := lenOfLanes (lanes l) l.n

theorem lanes_last (l : T) (hn : 1 ≤ l.n) (j : Nat) (hj : j < 32) (w : Block) (hw : l.storage[l.n - 1]? = some w) :
    (lanes l).getD (32 * l.n - 32 + j) 0 = Kmer.get Block64.k32 w j := by
  rw [List.getD_eq_getElem?_getD]
  unfold lanes
  rw [DnaStr.flatMap_getElem l.storage _ w (by rw [show (32 * l.n - 32 + j) / 32 = l.n - 1 by omega]; exact hw),
    show (32 * l.n - 32 + j) % 32 = j by omega, DnaStr.blockSeq_get w j hj]
  rfl

theorem len_lanes (l : T) (hn : 1 ≤ l.n) : len l = some (lenN l) := by
  have hlt : l.n - 1 < l.storage.length := by unfold T.n at hn ⊢; omega
  unfold len
  rw [List.getElem?_eq_getElem hlt]
  simp only [Option.map_some, Option.some.injEq]
  rw [lenByte_lanes]
  unfold lenN lenOfLanes
  have h := fun j hj => lanes_last l hn j hj _ (List.getElem?_eq_getElem hlt)
  rw [← h 28 (by omega), ← h 29 (by omega), ← h 30 (by omega), ← h 31 (by omega)]
  have e1 : 32 * l.n - 32 + 28 = 32 * l.n - 4 := by omega
  have e2 : 32 * l.n - 32 + 29 = 32 * l.n - 3 := by omega
  have e3 : 32 * l.n - 32 + 30 = 32 * l.n - 2 := by omega
  have e4 : 32 * l.n - 32 + 31 = 32 * l.n - 1 := by omega
  rw [e1, e2, e3, e4]

/-- two values with the same word count whose last four lanes agree store the same length -/
theorem lenN_congr (a b : T) (hn : a.n = b.n) (h : ∀ q, 32 * a.n - 4 ≤ q → (lanes a)[q]? = (lanes b)[q]?) : lenN a = lenN b := by
  unfold lenN lenOfLanes
  simp only [List.getD_eq_getElem?_getD]
  rw [h _ (Nat.le_refl _), h (32 * a.n - 3) (by omega), h (32 * a.n - 2) (by omega), h (32 * a.n - 1) (by omega), hn]

/-- the bases an `Lmer` stands for -/
def toSeq (l : T) : List Nat := (lanes l).take (lenN l)

/-- representation invariant: at least one word, the stored length fits before the length byte, every
    lane between the end of the string and the length byte is zero -/
structure Inv (l : T) : Prop where
  n_pos : 1 ≤ l.n
  fits : lenN l + 4 ≤ 32 * l.n
  pad : ∀ q, lenN l ≤ q → q + 4 < 32 * l.n → (lanes l)[q]? = some 0

theorem toSeq_length (l : T) (h : Inv l) : (toSeq l).length = lenN l := by
  unfold toSeq; rw [List.length_take, lanes_length]; have := h.fits; omega

theorem lanes_lt4 (l : T) (q : Nat) (b : Nat) (h : (lanes l)[q]? = some b) : b < 4 := by
  have hq : q / 32 < l.storage.length := by
    have : q < (lanes l).length := by
      cases hh : decide (q < (lanes l).length) with
      | true => simpa using hh
      | false => rw [List.getElem?_eq_none (by simpa using hh)] at h; cases h
    rw [lanes_length] at this; unfold T.n at this; omega
  unfold lanes at h
  rw [DnaStr.flatMap_getElem l.storage q _ (List.getElem?_eq_getElem hq), DnaStr.blockSeq_get _ _ (Nat.mod_lt _ (by decide))] at h
  cases h
  exact Kmer.get_lt k32_wf _ _

theorem toSeq_lt4 (l : T) : ∀ b ∈ toSeq l, b < 4 := by
  intro b hb
  obtain ⟨i, hi, e⟩ := List.getElem_of_mem (List.mem_of_mem_take hb)
  exact lanes_lt4 l i b (by rw [List.getElem?_eq_getElem hi, e])

/-- **`len`** -/
theorem len_spec (l : T) (h : Inv l) : len l = some (toSeq l).length := by
  rw [toSeq_length l h]; exact len_lanes l h.n_pos

/-- **`get`** -/
theorem get_spec (l : T) (h : Inv l) (pos : Nat) (hp : pos < lenN l) : get l pos = (toSeq l)[pos]? := by
  have hf := h.fits
  have hb : pos / 32 < l.storage.length := by unfold T.n at hf; omega
  unfold get toSeq
  rw [List.getElem?_eq_getElem hb, List.getElem?_take_of_lt hp]
  unfold lanes
  rw [DnaStr.flatMap_getElem l.storage pos _ (List.getElem?_eq_getElem hb), DnaStr.blockSeq_get _ _ (Nat.mod_lt _ (by decide))]
  rfl

/-- lanes after a single-base write -/
theorem setMut_lanes (l : T) (pos val : Nat) (hp : pos < 32 * l.n) (hv : val < 4) :
    ∃ l', setMut l pos val = some l' ∧ l'.n = l.n ∧ ∀ q, (lanes l')[q]? = if q = pos then some val else (lanes l)[q]? := by
  have hb : pos / 32 < l.storage.length := by unfold T.n at hp; omega
  unfold setMut
  rw [List.getElem?_eq_getElem hb]
  refine ⟨_, rfl, by simp [T.n], ?_⟩
  intro q
  show ((List.set _ _ _).flatMap blockSeq)[q]? = _
  rw [lanes_set _ _ _ hb]
  by_cases hq0 : q / 32 = pos / 32
  · rw [if_pos hq0]
    have : blockSeq (blockSet l.storage[pos / 32] (pos % 32) val) = (blockSeq l.storage[pos / 32]).set (pos % 32) val :=
      Kmer.toSeq_setMut k32_wf _ _ val (Nat.mod_lt _ (by decide)) hv
    rw [this]
    by_cases hq : q = pos
    · subst hq; rw [if_pos rfl, List.getElem?_set_self (by rw [DnaStr.blockSeq_length]; exact Nat.mod_lt _ (by decide))]
    · rw [if_neg hq, List.getElem?_set_ne (by omega)]
      exact (DnaStr.flatMap_getElem l.storage q _ (by rw [hq0]; exact List.getElem?_eq_getElem hb)).symm
  · rw [if_neg hq0, if_neg (by intro h; subst h; exact hq0 rfl)]; rfl

/-- an update that leaves the last four lanes and the padding alone keeps the invariant and the length -/
theorem inv_of_lanes (l l' : T) (h : Inv l) (hn : l'.n = l.n) (f : Nat → Option Nat) (lo hi : Nat) (hhi : hi ≤ lenN l)
    (hl : ∀ q, (lanes l')[q]? = if lo ≤ q ∧ q < hi then f q else (lanes l)[q]?) :
    lenN l' = lenN l ∧ Inv l' := by
  have hf := h.fits
  have e : lenN l' = lenN l := lenN_congr l' l hn (fun q hq => by rw [hl q, if_neg (by rw [hn] at hq; omega)])
  refine ⟨e, ⟨by rw [hn]; exact h.n_pos, by rw [e, hn]; exact hf, ?_⟩⟩
  intro q hq1 hq2
  rw [e] at hq1; rw [hn] at hq2
  rw [hl q, if_neg (by omega)]
  exact h.pad q hq1 hq2

/-- **`set_mut`** inside the string -/
theorem setMut_spec (l : T) (h : Inv l) (pos val : Nat) (hp : pos < lenN l) (hv : val < 4) :
    ∃ l', setMut l pos val = some l' ∧ Inv l' ∧ l'.n = l.n ∧ lenN l' = lenN l ∧ toSeq l' = (toSeq l).set pos val := by
  have hf := h.fits
  obtain ⟨l', e, hn, hl⟩ := setMut_lanes l pos val (by omega) hv
  obtain ⟨el, inv⟩ := inv_of_lanes l l' h hn (fun _ => some val) pos (pos + 1) (by omega)
    (fun q => by
      rw [hl q]
      by_cases hq : q = pos
      · rw [if_pos hq, if_pos ⟨by omega, by omega⟩]
      · rw [if_neg hq, if_neg (by omega)])
  refine ⟨l', e, inv, hn, el, ?_⟩
  apply List.ext_getElem?
  intro q
  unfold toSeq
  rw [el]
  by_cases hq : q < lenN l
  · rw [List.getElem?_take_of_lt hq, hl q]
    by_cases hqp : q = pos
    · subst hqp; rw [if_pos rfl, List.getElem?_set_self (by rw [List.length_take, lanes_length]; omega)]
    · rw [if_neg hqp, List.getElem?_set_ne (Ne.symm hqp), List.getElem?_take_of_lt hq]
  · rw [List.getElem?_eq_none (by rw [List.length_take]; omega),
      List.getElem?_eq_none (by rw [List.length_set, List.length_take]; omega)]

/-- **`set_slice_mut`** inside the string: exactly the addressed bases change, to the packed run -/
theorem setSliceMut_spec (l : T) (h : Inv l) (pos nB : Nat) (value : Block) (hn1 : 1 ≤ nB) (hn32 : nB ≤ 32) (hp : pos + nB ≤ lenN l) :
    ∃ l', setSliceMut l pos nB value = some l' ∧ Inv l' ∧ l'.n = l.n ∧ lenN l' = lenN l ∧
      toSeq l' = KSpec.setSlice (toSeq l) pos nB value := by
  have hf := h.fits
  obtain ⟨l', e, hn, hl⟩ := setSliceMut_lanes l pos nB value hn1 hn32 (by omega)
  obtain ⟨el, inv⟩ := inv_of_lanes l l' h hn (fun q => some (KSpec.runBase value (q - pos))) pos (pos + nB) hp hl
  refine ⟨l', e, inv, hn, el, ?_⟩
  apply List.ext_getElem?
  intro q
  unfold toSeq KSpec.setSlice
  rw [el]
  by_cases hq : q < lenN l
  · rw [List.getElem?_take_of_lt hq, hl q, List.getElem?_map, List.getElem?_zipIdx, List.getElem?_take_of_lt hq]
    have hlt : q < (lanes l).length := by rw [lanes_length]; omega
    rw [List.getElem?_eq_getElem hlt]
    simp only [Option.map_some, Nat.zero_add]
    by_cases hin : pos ≤ q ∧ q < pos + nB
    · rw [if_pos hin, if_pos hin]
    · rw [if_neg hin, if_neg hin]
  · rw [List.getElem?_eq_none (by rw [List.length_take]; omega),
      List.getElem?_eq_none (by simp only [List.length_map, List.length_zipIdx, List.length_take]; omega)]

end Lmer

namespace Lmer
open Block64 (blockSeq k32_wf)
open Kmer (Cfg St)

theorem new_len (n len : Nat) (hn : 1 ≤ n) (hl : len < 256) :
    ∃ l, new n len = some l ∧ Lmer.len l = some len ∧ l.n = n := by
  unfold new
  simp only [show ¬ n = 0 by omega, if_false]
  refine ⟨_, rfl, ?_, by simp [T.n]⟩
  simp only [Lmer.len, T.n, List.length_set, List.length_replicate]
  rw [List.getElem?_set_self (by simp; omega)]
  simp only [Option.map_some, Option.some.injEq]
  rw [BitVec.toNat_and, BitVec.toNat_and, BitVec.toNat_ofNat, show (0xff#64).toNat = 2 ^ 8 - 1 from rfl,
    Nat.and_two_pow_sub_one_eq_mod, Nat.and_two_pow_sub_one_eq_mod]
  omega

/-- **`new(len)`**: a string of `len` A's (len within `max_len` and the length byte) -/
theorem new_spec (n L : Nat) (hn : 1 ≤ n) (hfit : L + 4 ≤ 32 * n) (hL : L < 256) :
    ∃ l, new n L = some l ∧ Inv l ∧ l.n = n ∧ lenN l = L ∧ toSeq l = List.replicate L 0 := by
  obtain ⟨l, e, hlen, hln⟩ := new_len n L hn hL
  have hlenN : lenN l = L := by
    have := len_lanes l (by omega); rw [hlen] at this; exact (Option.some.inj this).symm
  -- every lane before the length byte is zero
  have hz : ∀ q, q + 4 < 32 * n → (lanes l)[q]? = some 0 := by
    intro q hq
    have hst : l.storage = (List.replicate n 0#64).set (n - 1) (BitVec.ofNat 64 (L % 2 ^ 64) &&& 0xff#64) := by
      unfold new at e; rw [if_neg (by omega)] at e; cases e; rfl
    unfold lanes
    rw [hst, lanes_set _ _ _ (by simp; omega), DnaStr.flatMap_replicate_zero]
    by_cases hq1 : q / 32 = n - 1
    · rw [if_pos hq1, DnaStr.blockSeq_get _ _ (Nat.mod_lt _ (by decide)), get_toNat _ _ (Nat.mod_lt _ (by decide))]
      have hlt : (BitVec.ofNat 64 (L % 2 ^ 64) &&& 0xff#64).toNat < 256 := by
        rw [BitVec.toNat_and, show (0xff#64).toNat = 2 ^ 8 - 1 from rfl, Nat.and_two_pow_sub_one_eq_mod]; omega
      have h8 : 8 ≤ 62 - 2 * (q % 32) := by omega
      have : (BitVec.ofNat 64 (L % 2 ^ 64) &&& 0xff#64).toNat >>> (62 - 2 * (q % 32)) = 0 := by
        rw [Nat.shiftRight_eq_div_pow]
        apply Nat.div_eq_of_lt
        calc _ < 2 ^ 8 := hlt
          _ ≤ 2 ^ (62 - 2 * (q % 32)) := Nat.pow_le_pow_right (by decide) h8
      rw [this]
    · rw [if_neg hq1, List.getElem?_replicate]; simp; omega
  refine ⟨l, e, ⟨by omega, by rw [hlenN, hln]; exact hfit, fun q _ hq2 => hz q (by rw [hln] at hq2; omega)⟩,
    hln, hlenN, ?_⟩
  apply List.ext_getElem?
  intro q
  unfold toSeq
  rw [hlenN]
  by_cases hq : q < L
  · rw [List.getElem?_take_of_lt hq, hz q (by omega), List.getElem?_replicate]; simp [hq]
  · rw [List.getElem?_eq_none (by rw [List.length_take]; omega), List.getElem?_eq_none (by simp; omega)]

theorem foldl_set_zipIdx (rest : List Nat) (k : Nat) (acc : List Nat) (h : acc.length = k + rest.length) :
    (rest.zipIdx k).foldl (fun a (bi : Nat × Nat) => a.set bi.2 bi.1) acc = acc.take k ++ rest := by
  induction rest generalizing k acc with
  | nil => simp at h ⊢; rw [← h, List.take_length]
  | cons b rest ih =>
    simp only [List.length_cons] at h
    simp only [List.zipIdx_cons, List.foldl_cons]
    rw [ih (k + 1) (acc.set k b) (by simp; omega), DnaStr.take_succ_set acc k b (by omega)]
    simp

/-- **`from_slice(seq)`** -/
theorem fromSlice_spec (n : Nat) (seq : List Nat) (hn : 1 ≤ n) (hfit : seq.length + 4 ≤ 32 * n) (hL : seq.length < 256)
    (hv : ∀ b ∈ seq, b < 4) :
    ∃ l, fromSlice n seq = some l ∧ Inv l ∧ l.n = n ∧ toSeq l = seq := by
  obtain ⟨l0, e0, i0, n0, len0, s0⟩ := new_spec n seq.length hn hfit hL
  unfold fromSlice
  rw [e0]
  simp only
  -- fold invariant: the value stands for the list obtained by the same writes
  have key : ∀ (rest : List Nat) (k : Nat) (l : T), Inv l → l.n = n → lenN l = seq.length → k + rest.length ≤ seq.length →
      (∀ b ∈ rest, b < 4) →
      ∃ l', (rest.zipIdx k).foldl (fun acc (bi : Nat × Nat) => acc.bind (setMut · bi.2 bi.1)) (some l) = some l' ∧ Inv l' ∧ l'.n = n ∧
        toSeq l' = (rest.zipIdx k).foldl (fun a (bi : Nat × Nat) => a.set bi.2 bi.1) (toSeq l) := by
    intro rest
    induction rest with
    | nil => intro k l hi hn' _ _ _; exact ⟨l, rfl, hi, hn', rfl⟩
    | cons b rest ih =>
      intro k l hi hn' hl hk hb
      simp only [List.length_cons] at hk
      obtain ⟨l1, e1, i1, n1, len1, s1⟩ := setMut_spec l hi k b (by omega) (hb b (by simp))
      obtain ⟨l2, e2, i2, n2, s2⟩ := ih (k + 1) l1 i1 (by rw [n1, hn']) (by rw [len1, hl]) (by omega) (fun x hx => hb x (by simp [hx]))
      refine ⟨l2, ?_, i2, n2, ?_⟩
      · simp only [List.zipIdx_cons, List.foldl_cons, Option.bind_some, e1]; exact e2
      · simp only [List.zipIdx_cons, List.foldl_cons]; rw [s2, s1]
  obtain ⟨l, e, i, hn', s⟩ := key seq 0 l0 i0 n0 len0 (by omega) hv
  refine ⟨l, e, i, hn', ?_⟩
  rw [s, s0, foldl_set_zipIdx seq 0 _ (by simp)]
  simp

theorem mapM_get (l : T) (h : Inv l) (m : Nat) (hm : m ≤ lenN l) : (List.range m).mapM (get l) = some ((toSeq l).take m) := by
  induction m with
  | zero => rfl
  | succ m ih =>
    rw [List.range_succ, List.mapM_append, ih (by omega)]
    have hlt : m < (toSeq l).length := by rw [toSeq_length l h]; omega
    simp only [List.mapM_cons, List.mapM_nil, get_spec l h m (by omega), List.getElem?_eq_getElem hlt, Option.pure_def,
      Option.bind_eq_bind, Option.bind_some]
    rw [List.take_add_one, List.getElem?_eq_getElem hlt]; rfl

/-- **`to_bytes` / `iter`** -/
theorem toBytes_spec (l : T) (h : Inv l) : toBytes l = some (toSeq l) := by
  unfold toBytes
  rw [len_lanes l h.n_pos]
  simp only
  rw [mapM_get l h _ (Nat.le_refl _), ← toSeq_length l h, List.take_length]

/-- **`get_kmer`** -/
theorem getKmer_spec (c : Cfg) (hc : c.WF) (l : T) (h : Inv l) (pos : Nat) (hp : pos + c.K ≤ lenN l) :
    ∃ s, getKmer c l pos = some s ∧ Kmer.Inv c s ∧ Kmer.toSeq c s = ((toSeq l).drop pos).take c.K := by
  have hf := h.fits
  unfold getKmer
  rw [len_lanes l h.n_pos]
  simp only
  rw [if_neg (by omega)]
  obtain ⟨s, e, i, t⟩ := DnaStr.walk_spec c hc l.storage pos (by unfold T.n at hf; omega)
  refine ⟨s, e, i, ?_⟩
  rw [t]
  unfold toSeq lanes
  rw [List.drop_take, List.take_take, Nat.min_eq_left (by omega)]

theorem getKmer_guard (c : Cfg) (l : T) (h : Inv l) (pos : Nat) (hp : ¬ pos + c.K ≤ lenN l) : getKmer c l pos = none := by
  unfold getKmer
  rw [len_lanes l h.n_pos]
  simp only
  rw [if_pos (by omega)]

/-- **canonical representation**: same word count and same bases ⇒ same words (so derived `==`/`Hash`
    are those of the string) -/
theorem repr_inj (a b : T) (ha : Inv a) (hb : Inv b) (hn : a.n = b.n) (h : toSeq a = toSeq b) : a = b := by
  have hl : lenN a = lenN b := by rw [← toSeq_length a ha, ← toSeq_length b hb, h]
  have hfa := ha.fits; have hfb := hb.fits
  have hlanes : lanes a = lanes b := by
    apply List.ext_getElem?
    intro q
    by_cases hq : q < lenN a
    · have e1 : (toSeq a)[q]? = (lanes a)[q]? := List.getElem?_take_of_lt hq
      have e2 : (toSeq b)[q]? = (lanes b)[q]? := List.getElem?_take_of_lt (by omega)
      rw [← e1, ← e2, h]
    · by_cases hq2 : q + 4 < 32 * a.n
      · rw [ha.pad q (by omega) hq2, hb.pad q (by omega) (by omega)]
      · by_cases hq3 : q < 32 * a.n
        · -- the four length lanes are determined by the stored length
          have hA : ∀ (l : T), Inv l → ∀ j, j < 4 → ∃ x, (lanes l)[32 * l.n - 4 + j]? = some x ∧ x < 4 := by
            intro l hi j hj
            have hlt : 32 * l.n - 4 + j < (lanes l).length := by rw [lanes_length]; have := hi.n_pos; omega
            exact ⟨_, List.getElem?_eq_getElem hlt, lanes_lt4 l _ _ (List.getElem?_eq_getElem hlt)⟩
          obtain ⟨a0, ea0, la0⟩ := hA a ha 0 (by omega); obtain ⟨a1, ea1, la1⟩ := hA a ha 1 (by omega)
          obtain ⟨a2, ea2, la2⟩ := hA a ha 2 (by omega); obtain ⟨a3, ea3, la3⟩ := hA a ha 3 (by omega)
          obtain ⟨b0, eb0, lb0⟩ := hA b hb 0 (by omega); obtain ⟨b1, eb1, lb1⟩ := hA b hb 1 (by omega)
          obtain ⟨b2, eb2, lb2⟩ := hA b hb 2 (by omega); obtain ⟨b3, eb3, lb3⟩ := hA b hb 3 (by omega)
          have hna := ha.n_pos
          have va : lenN a = 64 * a0 + 16 * a1 + 4 * a2 + a3 := by
            unfold lenN lenOfLanes
            simp only [List.getD_eq_getElem?_getD]
            rw [show 32 * a.n - 3 = 32 * a.n - 4 + 1 by omega, show 32 * a.n - 2 = 32 * a.n - 4 + 2 by omega,
              show 32 * a.n - 1 = 32 * a.n - 4 + 3 by omega, ea1, ea2, ea3]
            rw [show 32 * a.n - 4 = 32 * a.n - 4 + 0 by omega, ea0]; rfl
          have vb : lenN b = 64 * b0 + 16 * b1 + 4 * b2 + b3 := by
            unfold lenN lenOfLanes
            simp only [List.getD_eq_getElem?_getD]
            rw [show 32 * b.n - 3 = 32 * b.n - 4 + 1 by omega, show 32 * b.n - 2 = 32 * b.n - 4 + 2 by omega,
              show 32 * b.n - 1 = 32 * b.n - 4 + 3 by omega, eb1, eb2, eb3]
            rw [show 32 * b.n - 4 = 32 * b.n - 4 + 0 by omega, eb0]; rfl
          have : a0 = b0 ∧ a1 = b1 ∧ a2 = b2 ∧ a3 = b3 := by omega
          obtain ⟨r0, r1, r2, r3⟩ := this
          have hj : q = 32 * a.n - 4 + 0 ∨ q = 32 * a.n - 4 + 1 ∨ q = 32 * a.n - 4 + 2 ∨ q = 32 * a.n - 4 + 3 := by omega
          rcases hj with rfl | rfl | rfl | rfl
          · rw [ea0, hn, eb0, r0]
          · rw [ea1, hn, eb1, r1]
          · rw [ea2, hn, eb2, r2]
          · rw [ea3, hn, eb3, r3]
        · rw [List.getElem?_eq_none (by rw [lanes_length]; omega), List.getElem?_eq_none (by rw [lanes_length]; omega)]
  have := DnaStr.flatMap_inj a.storage b.storage hlanes
  cases a; cases b; simp_all

end Lmer

namespace Lmer
open Block64 (blockSeq k32_wf)
open Kmer (Cfg St)

/-! ### reverse complement -/

theorem lenN_lt (l : T) (h : Inv l) : lenN l < 256 := by
  have hn := h.n_pos
  have hA : ∀ j, j < 4 → (lanes l).getD (32 * l.n - 4 + j) 0 < 4 := by
    intro j hj
    have hlt : 32 * l.n - 4 + j < (lanes l).length := by rw [lanes_length]; omega
    rw [List.getD_eq_getElem?_getD, List.getElem?_eq_getElem hlt]
    exact lanes_lt4 l _ _ (List.getElem?_eq_getElem hlt)
  unfold lenN lenOfLanes
  have h0 := hA 0 (by omega); have h1 := hA 1 (by omega); have h2 := hA 2 (by omega); have h3 := hA 3 (by omega)
  rw [show 32 * l.n - 4 + 0 = 32 * l.n - 4 by omega] at h0
  rw [show 32 * l.n - 4 + 1 = 32 * l.n - 3 by omega] at h1
  rw [show 32 * l.n - 4 + 2 = 32 * l.n - 2 by omega] at h2
  rw [show 32 * l.n - 4 + 3 = 32 * l.n - 1 by omega] at h3
  omega

/-- masking the length byte leaves the first 28 lanes alone -/
theorem get_maskFF (v : Block) (i : Nat) (hi : i < 28) : Kmer.get Block64.k32 (v &&& ~~~(0xFF#64)) i = Kmer.get Block64.k32 v i := by
  rw [Kmer.get_bits k32_wf, Kmer.get_bits k32_wf]
  have ha : Kmer.addr Block64.k32 i = 62 - 2 * i := by simp [Kmer.addr]; omega
  have hbit : ∀ k, 8 ≤ k → k < 64 → (v &&& ~~~(0xFF#64)).getLsbD k = v.getLsbD k := by
    intro k h8 h64
    have : (0xFF#64 : BitVec 64).getLsbD k = false := by
      have : (0xFF#64 : BitVec 64) = (1#64 <<< 8) - 1#64 := by decide
      rw [this, Mask.lowMask_getLsbD 64 8 k (by omega)]; simp; omega
    rw [BitVec.getLsbD_and, BitVec.getLsbD_not, this]; simp [h64]
  rw [ha, hbit _ (by omega) (by omega), hbit _ (by omega) (by omega)]

/-- lane `j` of the reverse-complemented word, top-aligned to `nb` bases -/
theorem rcWord_lane (v : Block) (nb j : Nat) (hnb : nb ≤ 32) (hj : j < nb) :
    KSpec.runBase ((~~~(Kmer.revTwos v)) <<< (64 - nb * 2)) j = 3 - Kmer.get Block64.k32 v (nb - 1 - j) := by
  have e : 64 - nb * 2 = 2 * (32 - nb) := by omega
  have hrc : (~~~(Kmer.revTwos v) : Block) = Kmer.rc Block64.k32 v := by unfold Kmer.rc; simp
  rw [e, hrc, DnaStr.runBase_shift _ (32 - nb) j (by omega)]
  have hs := Kmer.toSeq_rc k32_wf (by decide) v
  have h1 := DnaStr.toSeq_getElem Block64.k32 (Kmer.rc Block64.k32 v) (32 - nb + j) (by simp; omega)
  rw [hs] at h1
  have hl : 32 - nb + j < (Kmer.toSeq Block64.k32 v).length := by simp [Kmer.toSeq]; omega
  have h2 := KSpec.rc_getElem (Kmer.toSeq Block64.k32 v) (32 - nb + j) hl
  rw [List.getElem?_eq_getElem (by rw [KSpec.rc_length]; exact hl), h2] at h1
  have h3 := Option.some.inj h1
  rw [← h3]
  have hlen : (Kmer.toSeq Block64.k32 v).length = 32 := by simp [Kmer.toSeq]
  have h4 := DnaStr.toSeq_getElem Block64.k32 v (nb - 1 - j) (by simp; omega)
  have hidx : (Kmer.toSeq Block64.k32 v).length - 1 - (32 - nb + j) = nb - 1 - j := by rw [hlen]; omega
  have hl2 : nb - 1 - j < (Kmer.toSeq Block64.k32 v).length := by rw [hlen]; omega
  rw [List.getElem?_eq_getElem hl2] at h4
  have h5 := Option.some.inj h4
  simp only [hidx]
  rw [h5]

theorem rc_getElem? (s : List Nat) (q : Nat) (hq : q < s.length) : (KSpec.rc s)[q]? = (s[s.length - 1 - q]?).map (3 - ·) := by
  rw [List.getElem?_eq_getElem (by rw [KSpec.rc_length]; exact hq), KSpec.rc_getElem s q hq,
    List.getElem?_eq_getElem (by omega)]; rfl

/-- loop invariant of `rc()`: the lanes `total-pos ..` of the accumulator already hold the reverse complement -/
theorem rcLoop_spec (l : T) (h : Inv l) (block pos : Nat) (acc : T)
    (hpos : pos ≤ lenN l) (hblk : pos < lenN l → pos = 32 * block)
    (hi : Inv acc) (hn : acc.n = l.n) (hlen : lenN acc = lenN l)
    (hq : ∀ q, lenN l - pos ≤ q → q < lenN l → (toSeq acc)[q]? = (KSpec.rc (toSeq l))[q]?) :
    ∃ r, rcLoop l (lenN l) block pos acc = some r ∧ Inv r ∧ r.n = l.n ∧ lenN r = lenN l ∧
      ∀ q, q < lenN l → (toSeq r)[q]? = (KSpec.rc (toSeq l))[q]? := by
  have hf := h.fits
  generalize htot : lenN l = total at *
  fun_induction rcLoop l total block pos acc with
  | case1 block pos acc hlt hnone =>
    exfalso
    have := hblk hlt
    have hb : block < l.storage.length := by unfold T.n at hf; omega
    rw [List.getElem?_eq_getElem hb] at hnone; cases hnone
  | case2 block pos acc hlt nb v0 hv0 v vRc hnone =>
    exfalso
    have hnb1 : 1 ≤ nb := by simp only [nb]; omega
    have hnb32 : nb ≤ 32 := by simp only [nb]; omega
    obtain ⟨l', e, _⟩ := setSliceMut_spec acc hi (total - pos - nb) nb vRc hnb1 hnb32 (by rw [hlen]; simp only [nb]; omega)
    rw [e] at hnone; cases hnone
  | case3 block pos acc hlt nb v0 hv0 v vRc acc' hacc ih =>
    have hp32 := hblk hlt
    have hnb1 : 1 ≤ nb := by simp only [nb]; omega
    have hnb32 : nb ≤ 32 := by simp only [nb]; omega
    have hnbt : nb ≤ total - pos := by simp only [nb]; omega
    obtain ⟨l', e, i', n', len', s'⟩ := setSliceMut_spec acc hi (total - pos - nb) nb vRc hnb1 hnb32 (by rw [hlen]; omega)
    rw [e] at hacc; cases hacc
    apply ih i' (n'.trans hn) (by omega) (fun hlt' => by
      have : nb = 32 := by simp only [nb] at hlt' ⊢; omega
      omega) (len'.trans hlen)
    intro q hq1 hq2
    rw [s']
    unfold KSpec.setSlice
    have hql : q < (toSeq acc).length := by rw [toSeq_length acc hi, hlen]; exact hq2
    rw [List.getElem?_map, List.getElem?_zipIdx, List.getElem?_eq_getElem hql]
    simp only [Option.map_some, Nat.zero_add]
    by_cases hin : total - pos - nb ≤ q ∧ q < total - pos - nb + nb
    · rw [if_pos hin]
      -- the freshly written lanes
      have hj : q - (total - pos - nb) < nb := by omega
      have hb : block < l.storage.length := by unfold T.n at hf; omega
      have hlane32 : nb - 1 - (q - (total - pos - nb)) < 32 := by omega
      -- lane `nb-1-j` of word `block` is base `total-1-q`
      have hbase : (toSeq l)[total - 1 - q]? = some (Kmer.get Block64.k32 v0 (nb - 1 - (q - (total - pos - nb)))) := by
        unfold toSeq
        rw [htot, List.getElem?_take_of_lt (by omega)]
        unfold lanes
        rw [DnaStr.flatMap_getElem l.storage _ v0 (by rw [show (total - 1 - q) / 32 = block by omega]; exact hv0),
          show (total - 1 - q) % 32 = nb - 1 - (q - (total - pos - nb)) by omega, DnaStr.blockSeq_get _ _ hlane32]
      rw [rcWord_lane v nb _ hnb32 hj, rc_getElem? (toSeq l) q (by rw [toSeq_length l h, htot]; exact hq2), toSeq_length l h, htot, hbase]
      simp only [Option.map_some]
      congr 2
      -- masking of the length byte does not reach these lanes
      simp only [v]
      by_cases hlast : (block == l.n - 1) = true
      · rw [dif_pos hlast]
        have : block = l.n - 1 := by simpa using hlast
        exact get_maskFF v0 _ (by omega)
      · rw [dif_neg hlast]
    · rw [if_neg hin, ← List.getElem?_eq_getElem hql]
      exact hq q (by omega) hq2
  | case4 block pos acc hnlt =>
    have : pos = total := by omega
    subst this
    exact ⟨acc, rfl, hi, hn, hlen, fun q hq' => hq q (by omega) hq'⟩

/-- **`rc()`** is the reverse complement of the string, of the same length and word count -/
theorem rc_spec (l : T) (h : Inv l) : ∃ r, rc l = some r ∧ Inv r ∧ r.n = l.n ∧ toSeq r = KSpec.rc (toSeq l) := by
  have hf := h.fits
  unfold rc
  rw [len_lanes l h.n_pos]
  simp only
  obtain ⟨b, eb, ib, nb, lb, sb⟩ := new_spec l.n (lenN l) h.n_pos hf (lenN_lt l h)
  rw [eb]
  simp only
  obtain ⟨r, e, i, n, len, s⟩ := rcLoop_spec l h 0 0 b (by omega) (fun _ => by omega) ib nb lb (fun q h1 h2 => by omega)
  refine ⟨r, e, i, n, ?_⟩
  apply List.ext_getElem?
  intro q
  by_cases hq : q < lenN l
  · exact s q hq
  · rw [List.getElem?_eq_none (by rw [toSeq_length r i, len]; omega),
      List.getElem?_eq_none (by rw [KSpec.rc_length, toSeq_length l h]; omega)]

end Lmer
