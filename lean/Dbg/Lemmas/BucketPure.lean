import Dbg.Props.C07
import Dbg.Spec.C08
import Dbg.Lemmas.Window
import Dbg.Lemmas.Lex
import Dbg.Lemmas.SeqLemmas
/-! The bucket of a piece is a function of each of its k-mers alone (C08, bucket clause). -/
namespace Msp
open Compress (Seq Base rc rank)

theorem rank_eq_val (w : Seq) : rank w = Lex.val (w.map (·.val)) := by
  unfold rank Lex.val
  rw [List.foldl_map]
  congr 1
  funext a b; rw [Nat.mul_comm]

/-- the rank is injective on strings of equal length -/
theorem rank_inj (w1 w2 : Seq) (hl : w1.length = w2.length) (h : rank w1 = rank w2) : w1 = w2 := by
  rw [rank_eq_val, rank_eq_val] at h
  have d1 : ∀ d ∈ w1.map (·.val), d < 4 := by intro d hd; obtain ⟨b, _, rfl⟩ := List.mem_map.mp hd; exact b.isLt
  have d2 : ∀ d ∈ w2.map (·.val), d < 4 := by intro d hd; obtain ⟨b, _, rfl⟩ := List.mem_map.mp hd; exact b.isLt
  have hl' : (w1.map (·.val)).length = (w2.map (·.val)).length := by simp [hl]
  have n1 : ¬ (w1.map (·.val)) < (w2.map (·.val)) := fun hh => by
    have := (Lex.val_lt_iff_lex _ _ hl' d1 d2).mpr hh; omega
  have n2 : ¬ (w2.map (·.val)) < (w1.map (·.val)) := fun hh => by
    have := (Lex.val_lt_iff_lex _ _ hl'.symm d2 d1).mpr hh; omega
  have e : w1.map (·.val) = w2.map (·.val) := by
    rcases Std.lt_trichotomy (w1.map (·.val)) (w2.map (·.val)) with h1 | h1 | h1
    · exact absurd h1 n1
    · exact h1
    · exact absurd h1 n2
  apply List.ext_getElem hl
  intro i h1 h2
  have := congrArg (fun l => l[i]?) e
  simp only [List.getElem?_map, List.getElem?_eq_getElem h1, List.getElem?_eq_getElem h2, Option.map_some, Option.some.injEq] at this
  exact Fin.ext this

theorem rank_lt (w : Seq) : rank w < 4 ^ w.length := by
  rw [rank_eq_val]
  have := Lex.val_lt (w.map (·.val)) (by intro d hd; obtain ⟨b, _, rfl⟩ := List.mem_map.mp hd; exact b.isLt)
  simpa using this

/-- `min_rc` is the same for a string and its reverse complement -/
theorem minRc_rc (w : Seq) : minRc (rc w) = minRc w := by
  unfold minRc
  rw [Compress.rc_rc]
  by_cases h1 : w < rc w
  · have h2 : ¬ rc w < w := List.lt_asymm h1
    simp [h1, h2]
  · by_cases h2 : rc w < w
    · simp [h1, h2]
    · have : w = rc w := by
        rcases Std.lt_trichotomy w (rc w) with h | h | h
        · exact absurd h h1
        · exact h
        · exact absurd h h2
      simp [h1, h2, ← this]

/-- the first minimal-score element of a non-empty list, as computed by the fold of `bucketOf` -/
def firstMin (sc : Seq → Nat) (w : Seq) (rest : List Seq) : Seq :=
  rest.foldl (fun best c => if sc c < sc best then c else best) w

theorem firstMin_spec (sc : Seq → Nat) : ∀ (rest : List Seq) (w : Seq),
    firstMin sc w rest ∈ w :: rest ∧ ∀ c ∈ w :: rest, sc (firstMin sc w rest) ≤ sc c := by
  intro rest
  induction rest with
  | nil => intro w; simp [firstMin]
  | cons c t ih =>
    intro w
    unfold firstMin
    rw [List.foldl_cons]
    by_cases h : sc c < sc w
    · simp only [h, if_true]
      obtain ⟨i1, i2⟩ := ih c
      unfold firstMin at i1 i2
      refine ⟨by simp only [List.mem_cons] at i1 ⊢; rcases i1 with h' | h' <;> simp [h'], ?_⟩
      intro x hx
      rcases List.mem_cons.mp hx with rfl | hx
      · have := i2 c (by simp); omega
      · exact i2 x hx
    · simp only [h, if_false]
      obtain ⟨i1, i2⟩ := ih w
      unfold firstMin at i1 i2
      refine ⟨by simp only [List.mem_cons] at i1 ⊢; rcases i1 with h' | h' <;> simp [h'], ?_⟩
      intro x hx
      rcases List.mem_cons.mp hx with rfl | hx
      · exact i2 x (by simp)
      · rcases List.mem_cons.mp hx with rfl | hx
        · have := i2 w (by simp); omega
        · exact i2 x (by simp [hx])

/-- the permutation is injective on the ranks of p-mers -/
def PermInj (perm : Array Nat) : Prop := ∀ i j : Nat, i < perm.size → j < perm.size → perm[i]?.getD 0 = perm[j]?.getD 0 → i = j

/-- equal scores ⇒ same canonical p-mer (hence same bucket), in both modes -/
theorem score_class (perm : Array Nat) (rcMode : Bool) (p : Nat) (hsz : perm.size = 4 ^ p) (hinj : PermInj perm)
    (w w' : Seq) (hw : w.length = p) (hw' : w'.length = p) (h : permScore perm rcMode w = permScore perm rcMode w') :
    minRc w = minRc w' := by
  have rl : ∀ v : Seq, v.length = p → rank v < perm.size := fun v hv => by rw [hsz, ← hv]; exact rank_lt v
  have eqv : ∀ v v' : Seq, v.length = p → v'.length = p → perm[rank v]?.getD 0 = perm[rank v']?.getD 0 → v = v' :=
    fun v v' hv hv' e => rank_inj v v' (by rw [hv, hv']) (hinj _ _ (rl v hv) (rl v' hv') e)
  have hrc : ∀ v : Seq, v.length = p → (rc v).length = p := fun v hv => by rw [Compress.rc_length, hv]
  unfold permScore at h
  cases rcMode with
  | false =>
    simp only [Bool.false_eq_true, if_false] at h
    rw [eqv w w' hw hw' h]
  | true =>
    simp only [if_true] at h
    -- min a a' = min b b' ⇒ one of a, a' equals one of b, b'
    have : perm[rank w]?.getD 0 = perm[rank w']?.getD 0 ∨ perm[rank w]?.getD 0 = perm[rank (rc w')]?.getD 0 ∨
        perm[rank (rc w)]?.getD 0 = perm[rank w']?.getD 0 ∨ perm[rank (rc w)]?.getD 0 = perm[rank (rc w')]?.getD 0 := by
      omega
    rcases this with e | e | e | e
    · rw [eqv w w' hw hw' e]
    · rw [eqv w (rc w') hw (hrc w' hw') e, minRc_rc]
    · rw [← minRc_rc w, eqv (rc w) w' (hrc w hw) hw' e]
    · rw [← minRc_rc w, eqv (rc w) (rc w') (hrc w hw) (hrc w' hw') e, minRc_rc]

theorem pmersOf_eq (p : Nat) (x : Seq) (h : p ≤ x.length) :
    pmersOf p x = (x.take p) :: ((List.range (x.length - p)).map fun j => (x.drop (j + 1)).take p) := by
  unfold pmersOf
  rw [show x.length - p + 1 = (x.length - p) + 1 by omega, List.range_succ_eq_map]
  simp [Function.comp_def]

theorem mem_pmersOf (p : Nat) (x : Seq) (w : Seq) : w ∈ pmersOf p x ↔ ∃ j, j < x.length - p + 1 ∧ w = (x.drop j).take p := by
  unfold pmersOf; simp [eq_comm]

/-- the p-mer chosen by `bucketOf` is a p-mer of `x` with minimal score -/
theorem bucketOf_best (perm : Array Nat) (rcMode : Bool) (p : Nat) (x : Seq) (h : p ≤ x.length) :
    ∃ best, best ∈ pmersOf p x ∧ (∀ c ∈ pmersOf p x, permScore perm rcMode best ≤ permScore perm rcMode c) ∧
      bucketOf perm rcMode p x = rank (minRc best) % 2 ^ 32 := by
  rw [pmersOf_eq p x h]
  unfold bucketOf
  rw [pmersOf_eq p x h]
  obtain ⟨a, b⟩ := firstMin_spec (permScore perm rcMode) ((List.range (x.length - p)).map fun j => (x.drop (j + 1)).take p) (x.take p)
  exact ⟨_, a, b, rfl⟩

/-- **Bucket purity for one interval.** If an interval satisfies the C07 clauses, the bucket computed from its minimizer
    is the reference bucket of every k-mer of the interval. -/
theorem bucket_of_interval (perm : Array Nat) (rcMode : Bool) (k p : Nat) (seq : Array Base) (iv : Iv)
    (hp : 1 ≤ p) (hpk : p ≤ k) (hsz : perm.size = 4 ^ p) (hinj : PermInj perm)
    (hv : IvValid seq (fun q => permScore perm rcMode (window seq p q)) k p iv) (hend : iv.start + iv.len ≤ seq.size)
    (j : Nat) (hj : j ≤ iv.len - k) :
    rank (minRc iv.mini) % 2 ^ 32 = bucketOf perm rcMode p (window seq k (iv.start + j)) := by
  obtain ⟨h1, _, hm, h4, h5, h6⟩ := hv
  have hxlen : (window seq k (iv.start + j)).length = k := window_length seq k _ (by omega)
  obtain ⟨best, hb1, hb2, hb3⟩ := bucketOf_best perm rcMode p (window seq k (iv.start + j)) (by rw [hxlen]; exact hpk)
  rw [hb3]
  -- the minimizer is a p-mer of x
  have hmini : iv.mini = ((window seq k (iv.start + j)).drop (iv.mpos - (iv.start + j))).take p := by
    rw [hm, window_window seq k (iv.start + j) p _ (by omega)]
    congr 1; omega
  have hmem : iv.mini ∈ pmersOf p (window seq k (iv.start + j)) := by
    rw [mem_pmersOf]; exact ⟨iv.mpos - (iv.start + j), by rw [hxlen]; omega, hmini⟩
  -- every p-mer of x is a p-mer of the interval
  have hle : permScore perm rcMode iv.mini ≤ permScore perm rcMode best := by
    obtain ⟨i, hi, hbe⟩ := (mem_pmersOf p _ best).mp hb1
    rw [hxlen] at hi
    have := h6 (iv.start + j + i) (by omega) (by omega)
    simp only at this
    rw [← hm] at this
    rw [hbe, window_window seq k (iv.start + j) p i (by omega)]
    exact this
  have hge := hb2 iv.mini hmem
  have hlen1 : iv.mini.length = p := by rw [hm]; exact window_length seq p _ (by omega)
  have hlen2 : best.length = p := by
    obtain ⟨i, hi, hbe⟩ := (mem_pmersOf p _ best).mp hb1
    rw [hxlen] at hi
    rw [hbe, window_window seq k (iv.start + j) p i (by omega)]
    exact window_length seq p _ (by omega)
  rw [score_class perm rcMode p hsz hinj iv.mini best hlen1 hlen2 (by omega)]

/-! ### strand symmetry of the reference bucket -/

theorem rc_window_fin (l : Seq) (k i : Nat) (h : i + k ≤ l.length) :
    rc ((l.drop i).take k) = ((rc l).drop (l.length - k - i)).take k := by
  unfold Compress.rc
  apply List.ext_getElem
  · simp; omega
  · intro j h1 h2
    simp only [List.length_reverse, List.length_map, List.length_take, List.length_drop] at h1
    simp only [List.getElem_reverse, List.getElem_map, List.getElem_take, List.getElem_drop, List.length_map,
      List.length_take, List.length_drop]
    congr 2; omega

theorem rc_mem_pmersOf (p : Nat) (x w : Seq) (hp : p ≤ x.length) (h : w ∈ pmersOf p x) : rc w ∈ pmersOf p (rc x) := by
  obtain ⟨j, hj, rfl⟩ := (mem_pmersOf p x w).mp h
  rw [mem_pmersOf]
  refine ⟨x.length - p - j, by rw [Compress.rc_length]; omega, ?_⟩
  exact rc_window_fin x p j (by omega)

theorem permScore_rc (perm : Array Nat) (w : Seq) : permScore perm true (rc w) = permScore perm true w := by
  unfold permScore
  simp only [if_true, Compress.rc_rc]
  exact Nat.min_comm _ _

/-- **Strand symmetry.** In reverse-complement mode a k-mer and its reverse complement have the same reference bucket. -/
theorem bucketOf_rc (perm : Array Nat) (p : Nat) (hsz : perm.size = 4 ^ p) (hinj : PermInj perm) (x : Seq) (hp : p ≤ x.length) :
    bucketOf perm true p (rc x) = bucketOf perm true p x := by
  obtain ⟨b1, m1, l1, e1⟩ := bucketOf_best perm true p x hp
  obtain ⟨b2, m2, l2, e2⟩ := bucketOf_best perm true p (rc x) (by rw [Compress.rc_length]; exact hp)
  rw [e1, e2]
  have h12 : permScore perm true b2 ≤ permScore perm true b1 := by
    have := l2 (rc b1) (rc_mem_pmersOf p x b1 hp m1)
    rwa [permScore_rc] at this
  have h21 : permScore perm true b1 ≤ permScore perm true b2 := by
    have hm := rc_mem_pmersOf p (rc x) b2 (by rw [Compress.rc_length]; exact hp) m2
    rw [Compress.rc_rc] at hm
    have := l1 (rc b2) hm
    rwa [permScore_rc] at this
  have len1 : b1.length = p := by
    obtain ⟨j, hj, rfl⟩ := (mem_pmersOf p x b1).mp m1; simp; omega
  have len2 : b2.length = p := by
    obtain ⟨j, hj, rfl⟩ := (mem_pmersOf p (rc x) b2).mp m2
    rw [Compress.rc_length] at hj; simp [Compress.rc_length]; omega
  rw [score_class perm true p hsz hinj b2 b1 len2 len1 (by omega)]

end Msp
